"""Texts for MANIFEST.json (per property: level text, note, technique, design ref)."""

HOOKS = {
    "guard": "verif",
    "enable": "no hook is needed so far: every check drives the exported API of /repo from an external Go module (replace => /repo); C03 additionally builds with the repository's own `debug` tag, which is a configuration of the code under test, not a hook",
    "baseline_off_cmd": "cd /repo && GOFLAGS=-mod=mod GOPROXY=off GOSUMDB=off go test -json -vet=off -count=1 -timeout 25m ./...",
    "source_commits": [],
    "add_only": True,
}

NOTES = ("Driver: ./run <ID> quick|thorough|--replay <path>; exit 0 held / 1 VIOLATION / 2 inconclusive (infrastructure). "
         "Every run rebuilds the property's test binary from /repo's working tree (VERIF_REPO overrides the tree, used by tools/mut.py). "
         "VERIF_SEED selects the rapid seeds; grids are deterministic; native fuzzing (thorough only) cannot be pinned.")

NOT_APPLICABLE_REASON = {}

GEN = "generated-input search (rapid random+shrinking, complete small-domain grids, native fuzzing in thorough) against an independent oracle"

META = {
    "C01": dict(
        text="Differential testing of Rank64/Rank128/IndexRank64/IndexRank128 against a bit-by-bit running count on generated bitmaps (all styles and parities, up to 70k words in thorough) at every position, plus a complete enumeration of all bitmaps of <=4 (thorough <=5) words over a 12-word palette. Establishes agreement on everything generated, not absence of defects outside it.",
        note="Trusted: the naive prefix-count oracle in c01, the Go toolchain, rapid. Bitmaps beyond 70 001 words / ranks beyond int32 are not explored.",
        technique="property-based differential testing vs naive bit count + exhaustive small grid + coverage-guided fuzzing",
        design_ref="DESIGN.md 4/C01"),
    "C02": dict(
        text="Differential testing of Select32/Select32R64 and both index builders against the naive list of 1-positions, for every valid i on bitmaps up to 4096 ones (sampled i above), with the rank(select(i)) = i composition; complete grid over every byte value at every byte position (thorough: every 16-bit pattern) so every reachable select8Lookup entry and every halving outcome is executed through the public API.",
        note="Trusted: naive scan oracle, toolchain, rapid. i outside [0,n) is not queried (undefined by the statement).",
        technique="property-based differential testing vs naive scan + exhaustive byte/16-bit pattern grid + coverage-guided fuzzing",
        design_ref="DESIGN.md 4/C02"),
    "C03": dict(
        text="PathToIndexLoose/PathToIndex compared with the recursive pre-order definition (two independent oracles: arithmetic walk and literal recursion) on generated (mask, node) pairs of every height 0..30 and exhaustively on all masks of height <= 9 (thorough <= 12; debug <= 11) x all nodes, which gives the order-preserving bijection outright on that sub-domain; everything is run twice, in the release build and with -tags debug where any contract panic on these valid inputs is a failure.",
        note="Trusted: model.Tree (self-tested: the two oracles agree on all masks of height <= 10), toolchain, rapid. Heights above the grid bound are sampled, not enumerated.",
        technique="property-based differential testing vs recursive definition, exhaustive small-height grid, two build configurations",
        design_ref="DESIGN.md 4/C03"),
    "C04": dict(
        text="AllPaths compared for exact slice equality with an enumerate-filter-sort oracle over generated masks (height 0..30) and (from,to) pairs on and off real paths, exhaustively for all masks of height <= 5 (thorough <= 7) x all (from,to) drawn from every path and every path+-1; Decode compared with a pre-order walk using its own index on bitmaps of every shape (short, long, garbage beyond bitmapSize), exhaustively for height <= 3, plus the encode-through-PathToIndex round trip.",
        note="Trusted: oracle enumeration in c04 and model.Tree; ranges are generated with a bounded scanned span (the function is linear in it).",
        technique="property-based differential testing (exact sequence equality) + exhaustive small grid + round trip + coverage-guided fuzzing",
        design_ref="DESIGN.md 4/C04"),
    "C05": dict(
        text="The whole domain is finite (2^32-33 (height,index) pairs) and the thorough tier enumerates it completely with an explicit pre-order walk whose visit counter is the index, checking IndexToPath and the PathToIndex inverse at every node; the quick tier enumerates heights 0..22 completely and samples heights 23..30 at boundary-heavy indexes against an independent inverse.",
        note="Trusted: the iterative walk (cross-checked against model.Tree.Index at every subtree root and in the sampled cases), toolchain. Quick is exhaustive only up to height 22.",
        technique="exhaustive enumeration of the finite domain (thorough) / partial enumeration + property-based sampling (quick) against a pre-order walk oracle",
        design_ref="DESIGN.md 4/C05"),
    "C10": dict(
        text="NewPath/PathLen/PathHeight/PathBits/PathMask/PathStr compared with a constructive definition for every (h<=16,l,prefix) and for generated nodes up to height 32; the order claim is decided for all pairs of heights <= 16 by checking that the pre-order walk of the full tree yields strictly increasing words, for all pairs explicitly at heights <= 6, and for generated correlated pairs up to height 32 against a pre-order comparator.",
        note="Trusted: model.PathWord / PreorderLess / Walk (self-tested against each other), toolchain, rapid.",
        technique="exhaustive small-height grid + property-based differential testing vs constructive definition and pre-order comparator",
        design_ref="DESIGN.md 4/C10"),
}

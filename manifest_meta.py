"""Texts for MANIFEST.json (per property: level text, note, technique, design ref)."""

HOOKS = {
    "guard": "verif",
    "enable": "no hook is needed so far: every check drives the exported API of /repo from an external Go module (replace => /repo); C03 additionally builds with the repository's own `debug` tag, which is a configuration of the code under test, not a hook",
    "baseline_off_cmd": "cd /repo && GOFLAGS=-mod=mod GOPROXY=off GOSUMDB=off go test -json -vet=off -count=1 -timeout 25m ./...",
    "source_commits": [],
    "add_only": True,
}

NOTES = ("Driver: ./run <ID> quick|thorough|--replay <path>; exit 0 held / 1 VIOLATION / 2 inconclusive (infrastructure). "
         "Every run rebuilds the property's test binary from /repo's working tree (VERIF_REPO overrides the tree, used by tools/mut.py). "
         "VERIF_SEED selects the rapid seeds; grids are deterministic; native fuzzing (thorough only) cannot be pinned.")

NOT_APPLICABLE_REASON = {}

GEN = "generated-input search (rapid random+shrinking, complete small-domain grids, native fuzzing in thorough) against an independent oracle"

META = {
    "C01": dict(
        text="Differential testing of Rank64/Rank128/IndexRank64/IndexRank128 against a bit-by-bit running count on generated bitmaps (all styles and parities, up to 70k words in thorough) at every position, plus a complete enumeration of all bitmaps of <=4 (thorough <=5) words over a 12-word palette. Establishes agreement on everything generated, not absence of defects outside it.",
        note="Trusted: the naive prefix-count oracle in c01, the Go toolchain, rapid. Bitmaps beyond 70 001 words / ranks beyond int32 are not explored.",
        technique="property-based differential testing vs naive bit count + exhaustive small grid + coverage-guided fuzzing",
        design_ref="DESIGN.md 4/C01"),
}

"""Texts for MANIFEST.json (per property: level text, note, technique, design ref)."""

HOOKS = {
    "guard": "verif",
    "enable": "go test -tags verif: only the C19 check builds /repo with the tag (two add-only files, bitmap/verif_hooks.go and bmtree/verif_hooks.go, returning copies of the unexported select8Lookup and idxToPath tables); if the tagged build does not compile the check falls back to the untagged build and its behavioural table checks. Every other check drives the exported API from an external Go module (replace => /repo) with no tag. C03 additionally builds with the repository's own `debug` tag, which is a configuration of the code under test, not a hook",
    "baseline_off_cmd": "cd /repo && GOFLAGS=-mod=mod GOPROXY=off GOSUMDB=off go test -json -vet=off -count=1 -timeout 25m ./...",
    "source_commits": ["399b825"],
    "add_only": True,
}

NOTES = ("Driver: ./run <ID> quick|thorough|--replay <path>; exit 0 held / 1 VIOLATION / 2 inconclusive (infrastructure). "
         "Every run rebuilds the property's test binary from /repo's working tree (VERIF_REPO overrides the tree, used by tools/mut.py). "
         "VERIF_SEED selects the rapid seeds; grids are deterministic; native fuzzing (thorough only) cannot be pinned.")

NOT_APPLICABLE_REASON = {}

GEN = "generated-input search (rapid random+shrinking, complete small-domain grids, native fuzzing in thorough) against an independent oracle"

META = {
    "C01": dict(
        text="Differential testing of Rank64/Rank128/IndexRank64/IndexRank128 against a bit-by-bit running count on generated bitmaps (all styles and parities, up to 70k words in thorough) at every position, plus a complete enumeration of all bitmaps of <=4 (thorough <=5) words over a 12-word palette. Establishes agreement on everything generated, not absence of defects outside it.",
        note="Trusted: the naive prefix-count oracle in c01, the Go toolchain, rapid. Random bitmaps stop at 70 001 words; beyond that only the maximum bitmap (exactly 2^25 words = 2^31 bits, three fixed sparse descriptions) is examined. Bitmaps beyond 2^31 bits (positions outside int32) are not explored.",
        technique="property-based differential testing vs naive bit count + exhaustive small grid + coverage-guided fuzzing",
        design_ref="DESIGN.md 4/C01"),
    "C02": dict(
        text="Differential testing of Select32/Select32R64 and both index builders against the naive list of 1-positions, for every valid i on bitmaps up to 4096 ones (sampled i above), with the rank(select(i)) = i composition; complete grid over every byte value at every byte position (thorough: every 16-bit pattern) so every reachable select8Lookup entry and every halving outcome is executed through the public API.",
        note="Trusted: naive scan oracle, toolchain, rapid. i outside [0,n) is not queried (undefined by the statement).",
        technique="property-based differential testing vs naive scan + exhaustive byte/16-bit pattern grid + coverage-guided fuzzing",
        design_ref="DESIGN.md 4/C02"),
    "C03": dict(
        text="PathToIndexLoose/PathToIndex compared with the recursive pre-order definition (two independent oracles: arithmetic walk and literal recursion) on generated (mask, node) pairs of every height 0..30 and exhaustively on all masks of height <= 9 (thorough <= 12; debug <= 11) x all nodes, which gives the order-preserving bijection outright on that sub-domain; everything is run twice, in the release build and with -tags debug where any contract panic on these valid inputs is a failure.",
        note="Trusted: model.Tree (self-tested: the two oracles agree on all masks of height <= 10), toolchain, rapid. Heights above the grid bound are sampled, not enumerated.",
        technique="property-based differential testing vs recursive definition, exhaustive small-height grid, coverage-guided fuzzing of the same generator (thorough), two build configurations",
        design_ref="DESIGN.md 4/C03"),
    "C04": dict(
        text="AllPaths compared for exact slice equality with an enumerate-filter-sort oracle over generated masks (height 0..30) and (from,to) pairs on and off real paths, exhaustively for all masks of height <= 5 (thorough <= 7) x all (from,to) drawn from every path and every path+-1; Decode compared with a pre-order walk using its own index on bitmaps of every shape (short, long, garbage beyond bitmapSize), exhaustively for height <= 3, plus the encode-through-PathToIndex round trip.",
        note="Trusted: oracle enumeration in c04 and model.Tree; ranges are generated with a bounded scanned span (the function is linear in it). Decode also receives the head of a 2^25-word array.",
        technique="property-based differential testing (exact sequence equality) + exhaustive small grid + round trip + coverage-guided fuzzing",
        design_ref="DESIGN.md 4/C04"),
    "C05": dict(
        text="The whole domain is finite (2^32-33 (height,index) pairs) and the thorough tier enumerates it completely with an explicit pre-order walk whose visit counter is the index, checking IndexToPath and the PathToIndex inverse at every node; the quick tier enumerates heights 0..22 completely and samples heights 23..30 at boundary-heavy indexes against an independent inverse.",
        note="Trusted: the iterative walk (cross-checked against model.Tree.Index at every subtree root and in the sampled cases), toolchain. Quick is exhaustive only up to height 22.",
        technique="exhaustive enumeration of the finite domain (thorough) / partial enumeration + property-based sampling (quick) against a pre-order walk oracle",
        design_ref="DESIGN.md 4/C05"),
    "C10": dict(
        text="NewPath/PathLen/PathHeight/PathBits/PathMask/PathStr compared with a constructive definition for every (h<=16,l,prefix) and for generated nodes up to height 32; the order claim is decided for all pairs of heights <= 16 by checking that the pre-order walk of the full tree yields strictly increasing words, for all pairs explicitly at heights <= 6, and for generated correlated pairs up to height 32 against a pre-order comparator.",
        note="Trusted: model.PathWord / PreorderLess / Walk (self-tested against each other), toolchain, rapid.",
        technique="exhaustive small-height grid + property-based differential testing vs constructive definition and pre-order comparator + coverage-guided fuzzing (thorough)",
        design_ref="DESIGN.md 4/C10"),
    "C06": dict(
        text="Round-trip and exact-bytes testing of Marshal/Unmarshal/ReadHeader/Size/HeaderSize over generated streams of frames (five message kinds incl. legacy Marshal/Unmarshal messages, versioned forms, versions of 0..16 bytes with interior NULs, bodies from 0 bytes to 64 KiB) written to a buffer or an AtToWriter and read back through six reader chunkings; the expected wire image comes from a hand-written encoder, and a counting reader shows that each call consumes exactly one frame.",
        note="Trusted: the hand-written wire/body encoder in harness/pbm (self-tested against the protobuf library on generated messages), the chunking readers, toolchain, rapid. Messages that fail to marshal and versions longer than 16 bytes or ending in NUL are outside the statement.",
        technique="property-based round-trip + differential testing vs hand-written wire encoder, stream model with consumption accounting + coverage-guided fuzzing of the stream generator (thorough)",
        design_ref="DESIGN.md 4/C06"),
    "C07": dict(
        text="Fault enumeration: for each generated frame every cut point, every writer failure point and every reader error point is enumerated (all of them for frames up to 4096 bytes, boundary + keyed samples beyond) and the returned count, error class and the bytes that reached the sink are compared with an error-class model; corrupt headers (header-size / body-size fields set to hostile constants up to 2^64-1) and arbitrary bytes go into Unmarshal/ReadHeader with the running case kept on disk so that a process death (out of memory) is attributed; native fuzzing with a structured decoder in the thorough tier.",
        note="Trusted: frame generator and wire encoder shared with C06, the fault-injecting reader/writer in harness/pbm, the driver's address-space cap (24 GiB) that turns a hostile allocation into an immediate death. Only conformant writers (short count => error) and readers are generated.",
        technique="fault-point enumeration per generated frame + property-based corrupt-input testing + coverage-guided fuzzing, error-class oracle",
        design_ref="DESIGN.md 4/C07"),
    "C08": dict(
        text="FromStr/Get/ToStr/FirstDiff/FromStrs/ToStrs compared with bit-level word extraction and packing for all four widths on generated strings over the full byte alphabet, correlated pairs and all kinds of windows; exhaustively for all 1-byte strings, and all pairs of 1-byte strings x all windows for FirstDiff.",
        note="Trusted: bit-level oracle (model.StrBit), toolchain, rapid. Preconditions from the statement: from >= 0, end >= -1, in-range words for ToStr, Get inside the string.",
        technique="property-based differential testing vs bit-level oracle + exhaustive 1-byte grid + coverage-guided fuzzing",
        design_ref="DESIGN.md 4/C08"),
    "C09": dict(
        text="New/Len/Cmp/CmpUpto/StrCmpUpto compared with []bool bit strings under lexicographic prefix-first order on generated, deliberately correlated pairs (flips around the shorter end, prefix relations, flips in masked-off bits, payloads across the 8-byte fast path), exhaustively for all encodings of strings of length <= 2 over {00,01,7f,80,ff}; StrCmpUpto is called from four call contexts and its string argument is compared before/after.",
        note="Trusted: []bool oracle, toolchain, rapid. Ranges outside the string are not generated; StrCmpUpto's unsafe cast is only judged by observable results/panics. Random sources stop at 64 bytes; beyond that only the maximum string (2^28 bytes, fixed sparse description) is encoded, at its top.",
        technique="property-based differential testing vs bit-string model order + exhaustive small-alphabet grid + coverage-guided fuzzing; thorough repeats grid and random search under the second installed toolchain (go1.26.8)",
        design_ref="DESIGN.md 4/C09"),
    "C11": dict(
        text="FromStr32/PathOf/PathStr compared with bit-by-bit extraction on generated (string, start, width) triples including starts at and far beyond the end, and on a complete grid over (start mod 8, width 0..32, bytes remaining 0..6); PathsOf compared with an own map + drop-equal-to-predecessor loop on key lists with adjacent and non-adjacent repeats, including the all-ones path at height 32 (the defect found and fixed).",
        note="Trusted: bit-level oracle, model.PathWord, toolchain, rapid. Precondition for FromStr32: from + width <= 2^31-1 (its end argument is an int32). Strings beyond 2^28 bytes are not explored; the maximum string (2^28 bytes, fixed sparse description) is part of every run.",
        technique="property-based differential testing vs bit-level extraction + complete alignment/width grid + coverage-guided fuzzing",
        design_ref="DESIGN.md 4/C11"),
    "C12": dict(
        text="Of/ToArray/Get/Get1/SafeGet/SafeGet1/OfMany/Builder compared with a set-of-bit-positions model and the word-count formula: generated ascending lists with boundary positions and all classes of n, arbitrary bitmaps with probes inside and far outside, OfMany on segments cut from one ascending list (positions >= size occur), and Builder histories (Extend/Set, pre-sized builders) with the model compared after every step; complete grid for Of over all subsets of 8 boundary positions x 13 values of n.",
        note="Trusted: set model, toolchain, rapid. OfMany inputs keep the concatenated list ascending (Of's documented input); the exact word count of Builder.Words beyond 'enough' is not asserted. The maximum bitmap (exactly 2^25 words = 2^31 bits, the largest one int32 positions address; fixed sparse descriptions, sparse oracle) is part of every run (Of/OfMany with position or size 2^31-1, Get family; ToArray of it only in the thorough tier: the scan takes seconds).",
        technique="property-based differential + stateful model-based testing vs set-of-bits model + small grid + coverage-guided fuzzing",
        design_ref="DESIGN.md 4/C12"),
    "C13": dict(
        text="NextOne/PrevOne compared with a naive scan on generated bitmaps with runs of zero words and boundary bits x 64 ranges each (inside a word, across words, on boundaries, empty), and exhaustively on all 216 three-word bitmaps over a 6-word palette x ALL (i,end) (about 4 M ranges each way), which is exactly the word-stepping loop the suite never observes.",
        note="Trusted: naive scan, toolchain, rapid. Preconditions exactly as stated (i inside the bitmap for NextOne, end >= 1 for PrevOne, i <= end <= 64*len). The maximum bitmap (exactly 2^25 words = 2^31 bits, the largest one int32 positions address; fixed sparse descriptions, sparse oracle) is part of every run (ranges ending at 2^31-1, scans over 2^24 empty words and off the end).",
        technique="property-based differential testing vs naive scan + exhaustive 3-word grid over all ranges + coverage-guided fuzzing",
        design_ref="DESIGN.md 4/C13"),
    "C14": dict(
        text="Join checked bit by bit (length, every bit, Getw at every index, values with bits above the width), Getw alone on arbitrary bitmaps, Slice checked for length ceil((to-from)/64), every bit and an unchanged input, on generated inputs for all seven widths and on a grid (Slice: 12 bitmaps x all (from,to)); found and fixed the 64x over-allocation of Slice.",
        note="Trusted: per-bit definitions, toolchain, rapid. Widths from the documented set only. The maximum bitmap (exactly 2^25 words = 2^31 bits, the largest one int32 positions address; fixed sparse descriptions, sparse oracle) is part of every run (Slice of short ranges at the top, Getw at the last indexes; the whole-bitmap Slice only in the thorough tier).",
        technique="property-based differential testing vs per-bit definition + grid over all ranges + coverage-guided fuzzing",
        design_ref="DESIGN.md 4/C14"),
    "C15": dict(
        text="Stateful model-based testing: histories of Set/Compact (with macro steps that fill words in any order and cross the 1024-word reclaim threshold) generated state-dependently from a model, from offsets up to 2^40; after every step the Offset invariants, the first-word invariant and Get/Get1 over the whole stored window (plus 130 bits below Offset) are compared with the model, and Compact must change no Get result.",
        note="Trusted: the o + set-of-indexes model, toolchain, rapid. Positions at or beyond the end of the stored words are not probed (outside the statement). One fixed history grows the stored tail beyond 2^31 bits (thorough: 2^32); longer tails are not explored.",
        technique="stateful model-based property testing (generated operation histories, invariants after every step) + coverage-guided fuzzing of the history generator (thorough)",
        design_ref="DESIGN.md 4/C15"),
    "C16": dict(
        text="FirstDiffBits compared with a bit loop, CountPrefixes compared with the set of truncated bit strings (bits + length) for all sub-ranges of small key sets (sampled for large ones) and several m, on key sets built from random prefix trees that cross the 8/16-byte chunk boundaries, contain NUL-suffix families, the empty key and > 128-byte common prefixes; complete grid over all subsets (size 2..5) of a 14-key pool.",
        note="Trusted: bit-string oracle (pairwise equalTrunc), toolchain, rapid. CountPrefixes only on strictly ascending sets with e-s >= 2 and m >= 1, as stated.",
        technique="property-based differential testing vs bit-string set oracle + key-pool grid + coverage-guided fuzzing",
        design_ref="DESIGN.md 4/C16"),
    "C17": dict(
        text="ShardByPrefix checked against a validity predicate (shape, contiguous boundaries, shard size <= maxSize, L[j] exactly the naive longest common prefix, strictly ascending shard prefixes) on generated prefix-tree key lists up to 2000 keys and maxSize from 1 to beyond n; complete grid over all subsets (size 1..6) of a 14-key pool x maxSize 1..7. Nothing about where the cuts fall is demanded, so any valid sharding passes.",
        note="Trusted: naive LCP, toolchain, rapid. The running case is kept on disk so a stack overflow of the recursive split is attributed.",
        technique="property-based testing against a validity predicate (both directions) + key-pool grid + coverage-guided fuzzing",
        design_ref="DESIGN.md 4/C17"),
    "C18": dict(
        text="Stateful model-based testing with fault injection: histories of Write/WriteAt/Seek/Size on sections (incl. n=0 and a 2^32+5 start) and AtToWriter over a recording WriterAt with capacity and one-shot faults; after every step return values, every underlying call (position, length), the memory image, the cursor (observed through Seek(0,SeekCurrent)) and Size are compared with a reference model.",
        note="Trusted: the cursor/section reference model and recorder, toolchain, rapid. Only conformant underlying writers; the identity of the error of a rejected Seek / negative WriteAt offset is not asserted.",
        technique="stateful model-based property testing with injected writer faults (reference model of cursor and section) + coverage-guided fuzzing of the history generator (thorough)",
        design_ref="DESIGN.md 4/C18"),
    "C20": dict(
        text="size.Of and the first line of size.Stat compared with a size computed compositionally by the generator itself (oracle by construction) on random acyclic values built with reflect: every scalar kind incl. uint/uintptr, strings, arrays, nil/empty/non-empty slices and maps with many key kinds, pointers, shared pointees, interface fields, generated and hand-declared structs with unexported fields, nested to depth 4; grid over every kind one level inside every container. Found and fixed the uint/uintptr panic.",
        note="Trusted: the fixed width/header table for 64-bit platforms, the reflect-based builder, toolchain, rapid. Only the kinds the statement lists (no chan/func/unsafe.Pointer), acyclic values.",
        technique="property-based differential testing with an oracle-by-construction (generator returns value and expected size) + kind x container grid + coverage-guided fuzzing (thorough); thorough repeats the search under the second installed toolchain (go1.26.8)",
        design_ref="DESIGN.md 4/C20"),
    "C19": dict(
        text="Four generated checks over 34 call kinds that cover the listed functions: (1) every slice/string/[]string argument, including the prebuilt indexes, lives inside canary-guarded memory and is compared with a snapshot after the call; (2) all package tables are compared with independently computed values, with start-up snapshots of the unexported tables (verif hook) and behaviourally through the API; (3) each call is repeated after unrelated calls and with relocated arguments and must return the same result; (4) shared workloads are run sequentially and then by 2/8/32 goroutines in keyed permutations, results compared, in a plain binary and in one built with the Go race detector that halts on the first report. Schedules are sampled, not enumerated: a defect that needs a particular interleaving and leaves no unsynchronised conflicting access is out of reach.",
        note="Trusted: Go's race detector (happens-before; may miss accesses evicted from shadow memory, mitigated by many rounds), the guard/snapshot code, toolchain, rapid. Not a proof over all interleavings.",
        technique="property-based purity testing (guarded arguments, table snapshots, repeat/relocate metamorphic relation) + generated concurrent rounds under the race detector",
        design_ref="DESIGN.md 4/C19"),
}

#!/usr/bin/env python3
"""Regenerates MANIFEST.json from props.py + manifest_meta.py (keeps it valid and current)."""
import json
import os
import sys

HERE = os.path.dirname(os.path.abspath(__file__))
sys.path.insert(0, HERE)
from props import PROPS  # noqa: E402
from manifest_meta import META, HOOKS, NOTES, NOT_APPLICABLE_REASON  # noqa: E402

ids = [json.loads(l)["id"] for l in open(os.path.join(HERE, "properties.jsonl")) if l.strip()]
checks, na = [], []
for pid in ids:
    if pid in PROPS and pid in META:
        m = META[pid]
        c = {
            "property_id": pid,
            "quick_cmd": "./run %s quick" % pid,
            "thorough_cmd": "./run %s thorough" % pid,
            "evidence_file": "/verif/evidence/%s.json" % pid,
            "replay_cmd_template": "./run %s --replay {path}" % pid,
            "engine": PROPS[pid].get("engine", "rapid+grid"),
            "level_claimed": {"category": PROPS[pid].get("level", "exploration"), "text": m["text"], "design_ref": m["design_ref"]},
            "level_note": m["note"],
            "technique": m["technique"],
        }
        checks.append(c)
    else:
        na.append({"property_id": pid, "reason": NOT_APPLICABLE_REASON.get(pid, "check not built yet in this session (work in progress; the design for it is in DESIGN.md section 4)")})
man = {
    "version": 1,
    "setup_cmd": "./setup.sh",
    "hooks": HOOKS,
    "engines": [
        {"name": "harness", "path": "/verif/harness", "serves_properties": [c["property_id"] for c in checks],
         "kind_free_text": "Go test packages (one per property) using pgregory.net/rapid v1.3.0 generators and shrinking, complete grids over small finite sub-domains, and native go fuzzing in the thorough tier; explicit independent oracles; driven by /verif/run"},
    ],
    "checks": checks,
    "notes": NOTES,
    "not_applicable": na,
}
json.dump(man, open(os.path.join(HERE, "MANIFEST.json"), "w"), indent=1)
print("MANIFEST.json: %d checks, %d not_applicable" % (len(checks), len(na)))

package c03

import (
	"fmt"
	"testing"

	"verif/harness/model"
	"verif/harness/vk"
)

// The sweep covers the heights above the exhaustive grid. Every (height, path
// length) cell gets the same number of nodes, so that no cell is thin: the
// masks are stratified by class (index mod 16), the prefixes by a hash of the
// case index. The nodes are a pure function of (VERIF_SEED, height, length,
// index) and do not depend on the build: the release and the debug process
// evaluate the very same nodes.

// sweepPerCell: nodes per (height, length) cell; a multiple of 128.
func sweepPerCell() int { return vk.Pick(2048, 8192) }

const (
	sweepWalkEvery = 37 // coprime with the 16 mask strata: the walks meet every mask class
	sweepWalkLen   = 8
)

// deBruijn6 is a cyclic binary sequence of length 64 in which every 6-bit
// window occurs exactly once (prefer-one construction). Rotating it over a
// mask (or a prefix) puts every pattern of <= 6 adjacent bits at every position.
var deBruijn6 = func() [64]uint8 {
	const k = 6
	var seq []uint8
	seen := map[uint32]bool{}
	w := uint32(0)
	for i := 0; i < k; i++ {
		seq = append(seq, 0)
	}
	seen[0] = true
	for len(seq) < 64+k-1 {
		cand := (w<<1 | 1) & (1<<k - 1)
		if seen[cand] {
			cand = (w << 1) & (1<<k - 1)
		}
		seen[cand] = true
		w = cand
		seq = append(seq, uint8(cand&1))
	}
	var out [64]uint8
	copy(out[:], seq[:64])
	return out
}()

// deBruijnBits returns n bits (n <= 64): bit j = deBruijn6[(j+rot) mod 64].
func deBruijnBits(n, rot int) uint64 {
	var v uint64
	for j := 0; j < n; j++ {
		v |= uint64(deBruijn6[(j+rot)&63]) << uint(j)
	}
	return v
}

func deBruijnOK() bool {
	seen := map[uint64]bool{}
	for r := 0; r < 64; r++ {
		seen[deBruijnBits(6, r)] = true
	}
	return len(seen) == 64
}

// sweepMask: the i-th mask of height h (class by i mod 16).
func sweepMask(h, i int, r uint64) (int32, string) {
	top := int32(1) << uint(h)
	lowMask := uint64(top - 1)
	r1, r2 := vk.Mix(r^0x1111), vk.Mix(r^0x2222)
	round := i / 16
	switch i % 16 {
	case 0:
		return top | (top - 1), "full"
	case 1:
		return top, "leaf-only"
	case 2:
		return (top | (top - 1)) &^ (1 << uint(round%h)), "one-missing"
	case 3:
		if round%4 == 0 {
			return top | 1, "root+leaves"
		}
		m := top
		for k := 0; k < 1+round%3; k++ {
			m |= 1 << uint(vk.Mix(r1+uint64(k))%uint64(h))
		}
		return m, "few-levels"
	case 4:
		return top | int32(r&r1&lowMask), "sparse"
	case 5:
		return top | int32((r|r1)&lowMask), "dense"
	case 6:
		m := top | (top - 1)
		m &^= 1 << uint(r1%uint64(h))
		m &^= 1 << uint(r2%uint64(h))
		return m, "two-missing"
	case 14, 15:
		rot := (round*2 + i%16 - 14) & 63
		return top | int32(deBruijnBits(h, rot)), "debruijn"
	}
	return top | int32(r&lowMask), "random"
}

// sweepPrefix: a prefix of l bits, class by hash.
func sweepPrefix(l int, r uint64) uint64 {
	if l == 0 {
		return 0
	}
	full := uint64(1)<<uint(l) - 1
	r1, r2 := vk.Mix(r^0x3333), vk.Mix(r^0x4444)
	switch r >> 60 {
	case 0:
		return 0
	case 1:
		return full
	case 2:
		return 0x5555555555555555 & full
	case 3:
		return 0xaaaaaaaaaaaaaaaa & full
	case 4:
		return 1 << uint(r1%uint64(l))
	case 5:
		return full &^ (1 << uint(r1%uint64(l)))
	case 6:
		return deBruijnBits(l, int(r1&63))
	case 7:
		return r1 & r2 & full
	case 8:
		return (r1 | r2) & full
	}
	return r1 & full
}

func sweepHLabel(h int) string {
	switch {
	case h <= 12:
		return "sweep-h:10-12"
	case h <= 16:
		return "sweep-h:13-16"
	case h <= 20:
		return "sweep-h:17-20"
	case h <= 24:
		return "sweep-h:21-24"
	case h <= 28:
		return "sweep-h:25-28"
	}
	return "sweep-h:29-30"
}

// sweepHigh: heights above the grid bound up to 30, every path length, the same
// number of nodes per cell; a short run of pre-order successors after some of
// them (consecutive indexes = the bijection observed locally).
func sweepHigh(t *testing.T) {
	if !deBruijnOK() {
		vk.Infra("sweep: the de Bruijn sequence is not one")
		t.Fatalf("oracle self-check failed")
	}
	shard, nshards := vk.Shard()
	per := sweepPerCell()
	seed := vk.Seed()
	b := "release"
	if debugBuild {
		b = "debug"
	}
	reportFail := func(f *vk.Failure, c Case, where string) {
		// route the failing node through the checker so that fail.json is written
		if g := checker.Eval(c); g == nil {
			vk.Infra(fmt.Sprintf("sweep found %v but the per-case check passes on %+v", f, c))
		}
		t.Fatalf("VERIF-FAIL property=C03 kind=%s%s: %s", where, f.Kind, f.Msg)
	}
	sampled := 0
	minCell := int64(-1)
	for h := gridMaxH() + 1; h <= 30; h++ {
		var evals, nontriv, walkEvals int64
		for l := 0; l <= h; l++ {
			if (h*32+l)%nshards != shard {
				continue
			}
			seen := make(map[[2]uint64]struct{}, per)
			cell := int64(0)
			for i := 0; i < per; i++ {
				r := vk.Mix(vk.Mix(seed*0x9e3779b97f4a7c15^uint64(h)<<48^uint64(l)<<40) + uint64(i))
				mask, mcl := sweepMask(h, i, r)
				prefix := sweepPrefix(l, vk.Mix(r^0x5555))
				key := [2]uint64{uint64(mask), prefix}
				if _, dup := seen[key]; dup {
					continue
				}
				seen[key] = struct{}{}
				tr := model.NewTree(mask)
				if tr.H != h {
					vk.Infra(fmt.Sprintf("sweep built mask %#x for height %d", mask, h))
					t.Fatalf("oracle self-check failed")
				}
				idx, has := tr.Index(prefix, l)
				c := Case{Mask: mask, Class: "sweep-" + mcl, Len: l, Prefix: vk.U64(prefix)}
				evals++
				cell++
				if nontrivial(mask, l) {
					nontriv++
				}
				if f := checkNode(mask, tr, prefix, l, idx, has); f != nil {
					reportFail(f, c, "")
				}
				if i&63 == 0 {
					checker.Remember(c)
				}
				if i%sweepWalkEvery == 0 {
					cur := idx
					if has {
						cur++
					}
					sp, sl, ok := prefix, l, true
					for step := 0; step < sweepWalkLen; step++ {
						sp, sl, ok = model.Succ(sp, sl, h)
						for ok && !tr.Stored[sl] {
							sp, sl, ok = model.Succ(sp, sl, h)
						}
						if !ok {
							if cur != int64(mask) {
								vk.Infra(fmt.Sprintf("sweep walk: mask %#x ended at %d stored nodes", mask, cur))
							}
							break
						}
						if oi, _ := tr.Index(sp, sl); oi != cur {
							vk.Infra(fmt.Sprintf("tree oracles disagree: mask %#x walk from (%b,%d) at (%b,%d)", mask, prefix, l, sp, sl))
							t.Fatalf("oracle self-check failed")
						}
						walkEvals++
						if f := checkNode(mask, tr, sp, sl, cur, true); f != nil {
							reportFail(f, Case{Mask: mask, Class: "sweep-walk", Len: sl, Prefix: vk.U64(sp)}, "walk:")
						}
						cur++
					}
				}
				if sampled < 2 && l > 3 && mcl == "random" && i > 40 && (h == 17 || h == 26) {
					sampled++
					vk.AddSample(map[string]any{"sweep_mask": mask, "height": h, "len": l, "prefix": fmt.Sprintf("%b", prefix), "index": idx, "level_stored": has, "build_debug": debugBuild})
				}
			}
			if l >= 4 && (minCell < 0 || cell < minCell) {
				minCell = cell
			}
		}
		if evals > 0 {
			vk.CountConstructed(evals, nontriv, "sweep-node", sweepHLabel(h), "build:"+b)
			vk.CountConstructed(walkEvals, 0, "sweep-walk-node", "build:"+b)
		}
	}
	if minCell >= 0 {
		vk.SetExtra("sweep_min_distinct_nodes_per_cell_len_ge_4_"+b, minCell)
	}
	vk.SetExtra("sweep_nodes_requested_per_cell_"+b, per)
}

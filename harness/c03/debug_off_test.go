//go:build !debug

package c03

const debugBuild = false

// Package c03 decides property C03: PathToIndex / PathToIndexLoose are the
// pre-order rank among the stored nodes, in the release and the debug build.
package c03

import (
	"fmt"
	"testing"

	"github.com/openacid/low/bmtree"
	"pgregory.net/rapid"

	"verif/harness/gen"
	"verif/harness/model"
	"verif/harness/vk"
)

func TestMain(m *testing.M) {
	if debugBuild {
		vk.SetExtra("debug_build_evaluated", true)
	} else {
		vk.SetExtra("release_build_evaluated", true)
	}
	vk.Main(m, "C03")
}

// Case: one level mask, one node, optionally a second node for the order claim.
type Case struct {
	Mask    int32  `json:"mask"`
	Class   string `json:"class,omitempty"`
	Len     int    `json:"len"`
	Prefix  vk.U64 `json:"prefix"`
	Has2    bool   `json:"has2,omitempty"`
	Len2    int    `json:"len2,omitempty"`
	Prefix2 vk.U64 `json:"prefix2,omitempty"`
}

func gridMaxH() int {
	if debugBuild {
		return vk.Pick(9, 12)
	}
	return vk.Pick(9, 13)
}

var checker = &vk.Checker[Case]{
	ID: "C03",
	Rule: "level masks of height 0..30 by class (full, leaf-only, one level missing, root+leaves, random, sparse, dense) x nodes (length 0..h with 0,1,h-1,h boosted; prefixes all-0, all-1, alternating, single-1, random), " +
		"path words encoded by the oracle (never by NewPath); PathToIndexLoose on every node, PathToIndex on stored levels, first/last stored node, pre-order successor (+1), and order of a second node; " +
		"both in the release build and with -tags debug (contracts live; any panic is a failure). Grid: every mask of height <= 9 (thorough <= 13, debug <= 12) x every node against a literal recursive pre-order walk (bijection). " +
		"Sweep (in the grid phase): every height above the grid bound up to 30 x every path length 0..h gets the same number of nodes (2048, thorough 8192, minus duplicates; identical nodes in both builds): masks stratified full / leaf-only / one-missing / root+leaves / few-levels / sparse / dense / two-missing / random (7 of 16) / rotations of a de Bruijn sequence (every pattern of 6 adjacent level bits at every position), " +
		"prefixes all-0, all-1, alternating, single-1, single-0, de Bruijn rotation, sparse, dense, random (7 of 16); every 37th node is followed along 8 pre-order successors on stored levels (consecutive indexes). " +
		"Non-trivial: path length >= 1 and (general mask of height >= 2, or full/leaf-only mask of height >= 7). Grid and sweep nodes are distinct by construction (sweep: duplicates within a cell are dropped, successor-walk nodes are not counted as non-trivial); rapid cases are hashed only when their height lies above the grid bound.",
	Check:    check,
	Classify: classify,
	Hashed:   func(c Case) bool { return model.NewTree(c.Mask).H > gridMaxH() },
}

func maskClass(mask int32) string {
	tr := model.NewTree(mask)
	full := int64(1)<<uint(tr.H+1) - 1
	switch {
	case int64(mask) == full:
		return "full"
	case int64(mask) == int64(1)<<uint(tr.H):
		return "leaf-only"
	}
	return "general"
}

func nontrivial(mask int32, l int) bool {
	tr := model.NewTree(mask)
	if l < 1 {
		return false
	}
	if maskClass(mask) == "general" {
		return tr.H >= 2
	}
	return tr.H >= 7
}

func classify(c Case) (bool, []string) {
	tr := model.NewTree(c.Mask)
	labels := []string{"mask:" + maskClass(c.Mask), "genclass:" + c.Class}
	switch {
	case tr.H <= 6:
		labels = append(labels, "h:0-6")
	case tr.H <= 12:
		labels = append(labels, "h:7-12")
	case tr.H <= 28:
		labels = append(labels, "h:13-28")
	default:
		labels = append(labels, "h:29-30")
	}
	if tr.Stored[c.Len] {
		labels = append(labels, "level:stored")
	} else {
		labels = append(labels, "level:absent")
	}
	if c.Has2 {
		labels = append(labels, "pair")
	}
	if debugBuild {
		labels = append(labels, "build:debug")
	} else {
		labels = append(labels, "build:release")
	}
	return nontrivial(c.Mask, c.Len), labels
}

// checkNode compares both functions with the expected (index, stored) of one node.
func checkNode(mask int32, tr model.Tree, prefix uint64, l int, wantIdx int64, wantHas bool) *vk.Failure {
	p := model.PathWord(prefix, l, tr.H)
	var gi, gh int32
	if f := vk.TryF(func() string {
		return fmt.Sprintf("PathToIndexLoose(mask=%#x, path=%#x [prefix=%b len=%d h=%d], debug=%v)", mask, p, prefix, l, tr.H, debugBuild)
	}, func() {
		gi, gh = bmtree.PathToIndexLoose(mask, p)
	}); f != nil {
		if debugBuild {
			f.Kind = "contract-panic-loose"
		}
		return f
	}
	wh := int32(0)
	if wantHas {
		wh = 1
	}
	if int64(gi) != wantIdx || gh != wh {
		return vk.Failf("loose-index", "PathToIndexLoose(mask=%#x, path=%#x [prefix=%b len=%d h=%d]) = (%d,%d), want (%d,%d)", mask, p, prefix, l, tr.H, gi, gh, wantIdx, wh)
	}
	if wantHas {
		var si int32
		if f := vk.TryF(func() string {
			return fmt.Sprintf("PathToIndex(mask=%#x, path=%#x [prefix=%b len=%d h=%d], debug=%v)", mask, p, prefix, l, tr.H, debugBuild)
		}, func() {
			si = bmtree.PathToIndex(mask, p)
		}); f != nil {
			if debugBuild {
				f.Kind = "contract-panic-strict"
			}
			return f
		}
		if int64(si) != wantIdx {
			return vk.Failf("strict-index", "PathToIndex(mask=%#x, path=%#x [prefix=%b len=%d h=%d]) = %d, want %d", mask, p, prefix, l, tr.H, si, wantIdx)
		}
		if wantIdx < 0 || wantIdx >= int64(mask) {
			return vk.Failf("oracle-range", "oracle index %d outside [0,%d)", wantIdx, mask)
		}
	}
	return nil
}

func check(c Case) *vk.Failure {
	tr := model.NewTree(c.Mask)
	prefix, l := uint64(c.Prefix), c.Len
	idx, has := tr.Index(prefix, l)
	if f := checkNode(c.Mask, tr, prefix, l, idx, has); f != nil {
		return f
	}
	// first stored node -> 0, last leaf -> mask-1
	minD := 0
	for !tr.Stored[minD] {
		minD++
	}
	if f := checkNode(c.Mask, tr, 0, minD, 0, true); f != nil {
		f.Kind = "first-node:" + f.Kind
		return f
	}
	if f := checkNode(c.Mask, tr, uint64(1)<<uint(tr.H)-1, tr.H, int64(c.Mask)-1, true); f != nil {
		f.Kind = "last-node:" + f.Kind
		return f
	}
	// the next stored node in pre-order has index+1 (counting this node when stored)
	sp, sl, ok := model.Succ(prefix, l, tr.H)
	for ok && !tr.Stored[sl] {
		sp, sl, ok = model.Succ(sp, sl, tr.H)
	}
	if ok {
		want := idx
		if has {
			want++
		}
		if f := checkNode(c.Mask, tr, sp, sl, want, true); f != nil {
			f.Kind = "successor:" + f.Kind
			return f
		}
		// cross-check of the two oracles on this node (harness self-consistency)
		if oi, _ := tr.Index(sp, sl); oi != want {
			vk.Infra(fmt.Sprintf("tree oracles disagree: mask %#x succ of (%b,%d)", c.Mask, prefix, l))
		}
	}
	// order: numeric order of two stored nodes = order of their indexes
	if c.Has2 {
		p2, l2 := uint64(c.Prefix2), c.Len2
		idx2, has2 := tr.Index(p2, l2)
		if f := checkNode(c.Mask, tr, p2, l2, idx2, has2); f != nil {
			return f
		}
		if has && has2 {
			w1, w2 := model.PathWord(prefix, l, tr.H), model.PathWord(p2, l2, tr.H)
			var i1, i2 int32
			if f := vk.Try("PathToIndex pair", func() {
				i1 = bmtree.PathToIndex(c.Mask, w1)
				i2 = bmtree.PathToIndex(c.Mask, w2)
			}); f != nil {
				return f
			}
			if (w1 < w2) != (i1 < i2) || (w1 == w2) != (i1 == i2) {
				return vk.Failf("order", "mask=%#x: paths %#x,%#x have indexes %d,%d (order not preserved / not injective)", c.Mask, w1, w2, i1, i2)
			}
		}
	}
	return nil
}

// ---------------------------------------------------------------- generator

func genMask(t *rapid.T) (int32, string) {
	var h int
	if gen.Chance(t, 1, 2, "hboost") {
		h = rapid.SampledFrom([]int{0, 1, 2, 7, 8, 29, 30, 30, 16}).Draw(t, "hb")
	} else {
		h = gen.Uniform(t, 31, "h")
	}
	top := int32(1) << uint(h)
	low := int32(gen.U64(t, "low")) & (top - 1)
	classes := []string{"full", "leaf-only", "one-missing", "root+leaves", "random", "sparse", "dense"}
	cl := classes[gen.Uniform(t, len(classes), "class")]
	switch cl {
	case "full":
		return top | (top - 1), cl
	case "leaf-only":
		return top, cl
	case "one-missing":
		m := top | (top - 1)
		if h > 0 {
			m &^= 1 << uint(gen.Uniform(t, h, "missing"))
		}
		return m, cl
	case "root+leaves":
		return top | 1, cl
	case "sparse":
		return top | (low & int32(gen.U64(t, "low2")) & int32(gen.U64(t, "low3"))), cl
	case "dense":
		return top | ((low | int32(gen.U64(t, "low2")) | int32(gen.U64(t, "low3"))) & (top - 1)), cl
	}
	return top | low, cl
}

func genNode(t *rapid.T, h int, label string) (uint64, int) {
	var l int
	switch gen.Uniform(t, 6, label+".lclass") {
	case 0:
		l = 0
	case 1:
		l = min(1, h)
	case 2:
		l = h
	case 3:
		l = max(h-1, 0)
	default:
		l = gen.Uniform(t, h+1, label+".l")
	}
	if l == 0 {
		return 0, 0
	}
	full := uint64(1)<<uint(l) - 1
	var p uint64
	switch gen.Uniform(t, 7, label+".pclass") {
	case 0:
		p = 0
	case 1:
		p = full
	case 2:
		p = 0x5555555555555555 & full
	case 3:
		p = 0xaaaaaaaaaaaaaaaa & full
	case 4:
		p = 1 << uint(gen.Uniform(t, l, label+".bit"))
	case 5:
		p = full &^ (1 << uint(gen.Uniform(t, l, label+".bit")))
	default:
		p = gen.U64(t, label+".p") & full
	}
	return p, l
}

func genCase(t *rapid.T) Case {
	mask, cl := genMask(t)
	tr := model.NewTree(mask)
	p, l := genNode(t, tr.H, "n1")
	c := Case{Mask: mask, Class: cl, Len: l, Prefix: vk.U64(p)}
	if gen.Chance(t, 1, 2, "pair") {
		// second node: correlated with the first (descendant / sibling / cousin) or independent
		var p2 uint64
		var l2 int
		switch gen.Uniform(t, 4, "rel") {
		case 0: // descendant
			l2 = l + gen.Uniform(t, tr.H-l+1, "ext")
			p2 = p<<uint(l2-l) | gen.U64(t, "extbits")&(uint64(1)<<uint(l2-l)-1)
		case 1: // shares a random-length prefix then diverges
			if l > 0 {
				k := gen.Uniform(t, l, "common")
				l2 = k + 1 + gen.Uniform(t, tr.H-k, "ext")
				p2 = (p>>uint(l-k))<<uint(l2-k) | gen.U64(t, "extbits")&(uint64(1)<<uint(l2-k)-1)
			} else {
				p2, l2 = genNode(t, tr.H, "n2")
			}
		default:
			p2, l2 = genNode(t, tr.H, "n2")
		}
		// move both nodes of a pair to stored levels when possible so the order claim applies
		c.Has2, c.Len2, c.Prefix2 = true, l2, vk.U64(p2)
	}
	return c
}

func TestRegress(t *testing.T) { checker.Regress(t) }

func TestProp(t *testing.T) { checker.Prop(t, genCase) }

func FuzzProp(f *testing.F) { checker.Fuzz(f, genCase) }

// TestGrid: every mask of height <= H x every node, against the literal
// recursive pre-order walk. The i-th stored node visited must map to i, which
// is the bijection onto [0,mask) outright.
func TestGrid(t *testing.T) {
	vk.SetPhase("grid")
	shard, nshards := vk.Shard()
	maxH := gridMaxH()
	var evals, nontriv int64
	samples := 0
	for mask := int32(1); mask < int32(1)<<uint(maxH+1); mask++ {
		if int(mask)%nshards != shard {
			continue
		}
		tr := model.NewTree(mask)
		var fail *vk.Failure
		var failCase Case
		stored := int64(0)
		tr.Walk(func(prefix uint64, l int, st bool, index int64) {
			if fail != nil {
				return
			}
			evals++
			if nontrivial(mask, l) {
				nontriv++
			}
			if st {
				stored++
			}
			if f := checkNode(mask, tr, prefix, l, index, st); f != nil {
				fail, failCase = f, Case{Mask: mask, Class: "grid", Len: l, Prefix: vk.U64(prefix)}
			} else if index&15 == 0 {
				checker.Remember(Case{Mask: mask, Class: "grid", Len: l, Prefix: vk.U64(prefix)})
			}
		})
		if fail != nil {
			// route the failing node through the checker so that fail.json is written
			if f := checker.Eval(failCase); f == nil {
				vk.Infra(fmt.Sprintf("grid found %v but the per-case check passes on %+v", fail, failCase))
			}
			t.Fatalf("VERIF-FAIL property=C03 kind=%s: %s", fail.Kind, fail.Msg)
		}
		if stored != int64(mask) {
			vk.Infra(fmt.Sprintf("walk oracle counted %d stored nodes for mask %#x", stored, mask))
			t.Fatalf("oracle self-check failed")
		}
		if samples < 2 && mask > 40 && int(mask)%97 == 5 {
			samples++
			vk.AddSample(map[string]any{"grid_mask": mask, "height": tr.H, "nodes_checked": int64(1)<<uint(tr.H+1) - 1, "stored_nodes": stored, "build_debug": debugBuild})
		}
	}
	b := "release"
	if debugBuild {
		b = "debug"
	}
	vk.CountConstructed(evals, nontriv, "grid-node", "build:"+b)
	vk.MarkExhaustive(fmt.Sprintf("all level masks of height <= %d x all nodes (%s build)", maxH, b))
	sweepHigh(t)
}

// Package c10 decides property C10: path words are self-consistent and their
// unsigned numeric order equals pre-order.
package c10

import (
	"fmt"
	"testing"

	"github.com/openacid/low/bmtree"
	"pgregory.net/rapid"

	"verif/harness/gen"
	"verif/harness/model"
	"verif/harness/vk"
)

// keep registers a returned result for later re-validation (set in init: the checker refers to check).
var keep func(func() string)

func init() { keep = checker.Keep }

func TestMain(m *testing.M) { vk.Main(m, "C10") }

type Case struct {
	H       int    `json:"h"`
	L       int    `json:"l"`
	Prefix  vk.U64 `json:"prefix"`
	Has2    bool   `json:"has2,omitempty"`
	L2      int    `json:"l2,omitempty"`
	Prefix2 vk.U64 `json:"prefix2,omitempty"`
	Rel     string `json:"rel,omitempty"`
}

const gridH = 16

var checker = &vk.Checker[Case]{
	ID: "C10",
	Rule: "(height h<=32, length l<=h, l-bit prefix) with lengths 0,1,h-1,h and prefixes all-0/all-1/alternating/single-bit/random boosted, and pairs of equal height (descendant, diverging after a common prefix, independent); " +
		"NewPath vs a constructive encoding, PathLen/PathHeight/PathBits/PathMask/PathStr vs their definitions, numeric order vs a pre-order comparator. Grid: every (h<=16,l,prefix), the pre-order walk of every full tree h<=16 must be strictly increasing, all pairs for h<=6. " +
		"Non-trivial: l>=1 and prefix != 0 (upper half non-zero). Grid cases are distinct by construction; rapid cases are hashed only when h > 16.",
	Check:    check,
	Classify: classify,
	KeepLen:  1500,
	Hashed:   func(c Case) bool { return c.H > gridH },
}

func classify(c Case) (bool, []string) {
	labels := []string{}
	switch {
	case c.H <= 6:
		labels = append(labels, "h:0-6")
	case c.H <= 16:
		labels = append(labels, "h:7-16")
	case c.H <= 30:
		labels = append(labels, "h:17-30")
	default:
		labels = append(labels, "h:31-32")
	}
	if c.Has2 {
		labels = append(labels, "pair:"+c.Rel)
	}
	if c.L == c.H {
		labels = append(labels, "leaf")
	}
	if c.L == 0 {
		labels = append(labels, "root")
	}
	return c.L >= 1 && c.Prefix != 0, labels
}

func bitsText(prefix uint64, l int) string {
	b := make([]byte, l)
	for k := 0; k < l; k++ {
		b[k] = byte('0' + prefix>>uint(l-1-k)&1)
	}
	return string(b)
}

func checkWord(h, l int, prefix uint64) (uint64, *vk.Failure) {
	want := model.PathWord(prefix, l, h)
	var got uint64
	var pl, ph int32
	var pb, pm uint64
	var ps string
	if f := vk.Try(fmt.Sprintf("path functions (h=%d l=%d prefix=%b)", h, l, prefix), func() {
		got = bmtree.NewPath(prefix<<uint(h-l), int32(l), int32(h))
		pl, ph = bmtree.PathLen(want), bmtree.PathHeight(want)
		pb, pm = bmtree.PathBits(want), bmtree.PathMask(want)
		ps = bmtree.PathStr(want)
	}); f != nil {
		return want, f
	}
	if got != want {
		return want, vk.Failf("newpath", "NewPath(%#x, %d, %d) = %#x, want %#x", prefix<<uint(h-l), l, h, got, want)
	}
	if int(pl) != l {
		return want, vk.Failf("pathlen", "PathLen(%#x) = %d, want %d", want, pl, l)
	}
	if l >= 1 && int(ph) != h {
		return want, vk.Failf("pathheight", "PathHeight(%#x) = %d, want %d", want, ph, h)
	}
	if pb != want>>32 || pm != want&0xffffffff {
		return want, vk.Failf("pathbits-mask", "PathBits/PathMask(%#x) = %#x/%#x", want, pb, pm)
	}
	if ps != bitsText(prefix, l) {
		return want, vk.Failf("pathstr", "PathStr(%#x) = %q, want %q", want, ps, bitsText(prefix, l))
	}
	if l > 0 { // the returned string stays under watch while later calls produce more output
		kept, expect := ps, bitsText(prefix, l)
		keep(func() string {
			if kept != expect {
				return fmt.Sprintf("PathStr(%#x) returned %q, which now reads %q", want, expect, kept)
			}
			return ""
		})
	}
	return want, nil
}

func checkOrder(h int, w1 uint64, p1 uint64, l1 int, w2 uint64, p2 uint64, l2 int) *vk.Failure {
	less := model.PreorderLess(p1, l1, p2, l2)
	greater := model.PreorderLess(p2, l2, p1, l1)
	if (w1 < w2) != less || (w1 > w2) != greater {
		return vk.Failf("order", "h=%d: words %#x (%s) and %#x (%s): numeric %v/%v but pre-order %v/%v", h, w1, bitsText(p1, l1), w2, bitsText(p2, l2), w1 < w2, w1 > w2, less, greater)
	}
	return nil
}

func check(c Case) *vk.Failure {
	w1, f := checkWord(c.H, c.L, uint64(c.Prefix))
	if f != nil {
		return f
	}
	if c.Has2 {
		w2, f := checkWord(c.H, c.L2, uint64(c.Prefix2))
		if f != nil {
			return f
		}
		return checkOrder(c.H, w1, uint64(c.Prefix), c.L, w2, uint64(c.Prefix2), c.L2)
	}
	return nil
}

func genNode(t *rapid.T, h int, label string) (uint64, int) {
	var l int
	switch gen.Uniform(t, 6, label+".lclass") {
	case 0:
		l = 0
	case 1:
		l = min(1, h)
	case 2:
		l = h
	case 3:
		l = max(h-1, 0)
	default:
		l = gen.Uniform(t, h+1, label+".l")
	}
	if l == 0 {
		return 0, 0
	}
	full := uint64(1)<<uint(l) - 1
	var p uint64
	switch gen.Uniform(t, 7, label+".pclass") {
	case 0:
		p = 0
	case 1:
		p = full
	case 2:
		p = 0x5555555555555555 & full
	case 3:
		p = 1 << uint(gen.Uniform(t, l, label+".bit"))
	case 4:
		p = full &^ (1 << uint(gen.Uniform(t, l, label+".bit")))
	default:
		p = gen.U64(t, label+".p") & full
	}
	return p, l
}

func genCase(t *rapid.T) Case {
	var h int
	if gen.Chance(t, 1, 2, "hboost") {
		h = rapid.SampledFrom([]int{0, 1, 2, 17, 30, 31, 32, 32}).Draw(t, "hb")
	} else {
		h = gen.Uniform(t, 33, "h")
	}
	p, l := genNode(t, h, "n1")
	c := Case{H: h, L: l, Prefix: vk.U64(p)}
	if gen.Chance(t, 2, 3, "pair") {
		c.Has2 = true
		switch gen.Uniform(t, 4, "rel") {
		case 0:
			c.Rel = "descendant"
			l2 := l + gen.Uniform(t, h-l+1, "ext")
			c.L2, c.Prefix2 = l2, vk.U64(p<<uint(l2-l)|gen.U64(t, "extbits")&(uint64(1)<<uint(l2-l)-1))
		case 1, 2:
			if l > 0 {
				c.Rel = "diverging"
				k := gen.Uniform(t, l, "common")
				l2 := k + 1 + gen.Uniform(t, h-k, "ext")
				c.L2, c.Prefix2 = l2, vk.U64((p>>uint(l-k))<<uint(l2-k)|gen.U64(t, "extbits")&(uint64(1)<<uint(l2-k)-1))
				break
			}
			fallthrough
		default:
			c.Rel = "independent"
			p2, l2 := genNode(t, h, "n2")
			c.L2, c.Prefix2 = l2, vk.U64(p2)
		}
	}
	return c
}

func TestRegress(t *testing.T) { checker.Regress(t) }

func TestProp(t *testing.T) { checker.Prop(t, genCase) }

// FuzzProp: the same generator driven by the native coverage-guided fuzzer (thorough tier only).
func FuzzProp(f *testing.F) { checker.Fuzz(f, genCase) }

func TestGrid(t *testing.T) {
	vk.SetPhase("grid")
	var evals, nontriv int64
	fail := func(c Case, f *vk.Failure) {
		if g := checker.Eval(c); g == nil {
			vk.Infra(fmt.Sprintf("grid found %v but the per-case check passes on %+v", f, c))
		}
		t.Fatalf("VERIF-FAIL property=C10 kind=%s: %s", f.Kind, f.Msg)
	}
	for h := 0; h <= gridH; h++ {
		// every node, and the pre-order walk must be strictly increasing in word value
		tr := model.NewTree(int32(int64(1)<<uint(h+1) - 1))
		first := true
		var prevW, prevP uint64
		var prevL int
		tr.Walk(func(prefix uint64, l int, _ bool, _ int64) {
			w, f := checkWord(h, l, prefix)
			checker.Remember(Case{H: h, L: l, Prefix: vk.U64(prefix)})
			evals++
			if l >= 1 && prefix != 0 {
				nontriv++
			}
			if f != nil {
				fail(Case{H: h, L: l, Prefix: vk.U64(prefix)}, f)
			}
			if evals&255 == 0 {
				if kf := checker.RunKeepers(); kf != nil {
					fail(Case{H: h, L: l, Prefix: vk.U64(prefix)}, kf)
				}
			}
			if !first && !(prevW < w) {
				fail(Case{H: h, L: prevL, Prefix: vk.U64(prevP), Has2: true, L2: l, Prefix2: vk.U64(prefix), Rel: "walk-successor"},
					vk.Failf("order", "h=%d: pre-order successor %#x is not numerically above %#x", h, w, prevW))
			}
			first, prevW, prevP, prevL = false, w, prefix, l
		})
	}
	for h := 0; h <= 6; h++ {
		type node struct {
			p uint64
			l int
		}
		var nodes []node
		for l := 0; l <= h; l++ {
			for p := uint64(0); p < 1<<uint(l); p++ {
				nodes = append(nodes, node{p, l})
			}
		}
		for _, a := range nodes {
			for _, b := range nodes {
				evals++
				if a.l >= 1 && a.p != 0 {
					nontriv++
				}
				if f := checkOrder(h, model.PathWord(a.p, a.l, h), a.p, a.l, model.PathWord(b.p, b.l, h), b.p, b.l); f != nil {
					fail(Case{H: h, L: a.l, Prefix: vk.U64(a.p), Has2: true, L2: b.l, Prefix2: vk.U64(b.p), Rel: "grid-pair"}, f)
				}
			}
		}
	}
	vk.CountConstructed(evals, nontriv, "grid")
	vk.AddSample(map[string]any{"grid": "all nodes h<=16 + walk order + all pairs h<=6", "example": map[string]any{"h": 5, "l": 3, "prefix": "101", "word": fmt.Sprintf("%#x", model.PathWord(5, 3, 5))}})
	vk.MarkExhaustive("every (h<=16,l,prefix); walk order of every full tree h<=16 (implies the order claim for all pairs of those heights); all pairs h<=6")
}

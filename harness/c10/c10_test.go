// Package c10 decides property C10: path words are self-consistent and their
// unsigned numeric order equals pre-order.
package c10

import (
	"fmt"
	"testing"

	"github.com/openacid/low/bmtree"
	"pgregory.net/rapid"

	"verif/harness/gen"
	"verif/harness/model"
	"verif/harness/vk"
)

// keep registers a returned result for later re-validation (set in init: the checker refers to check).
var keep func(func() string)

func init() { keep = checker.Keep }

func TestMain(m *testing.M) { vk.Main(m, "C10") }

type Case struct {
	H       int    `json:"h"`
	L       int    `json:"l"`
	Prefix  vk.U64 `json:"prefix"`
	Has2    bool   `json:"has2,omitempty"`
	L2      int    `json:"l2,omitempty"`
	Prefix2 vk.U64 `json:"prefix2,omitempty"`
	Rel     string `json:"rel,omitempty"`
}

// gridH: every (h <= gridH, l, prefix) is enumerated by TestGrid; above it TestGrid sweeps every (h, l) with a
// fixed number of prefixes (see sweep) and rapid samples.
var gridH = vk.Pick(16, 21)

// sweepRandom / sweepWindow: per (h > gridH, l > sweepAll): that many random prefixes, and every value of every
// run of sweepWindow adjacent prefix bits (rest random). Lengths l <= sweepAll get all 2^l prefixes.
var sweepRandom = vk.Pick(512, 2048)
var sweepWindow = vk.Pick(5, 6)

const sweepAll = 8

var checker = &vk.Checker[Case]{
	ID: "C10",
	Rule: "(height h<=32, length l<=h, l-bit prefix) with lengths 0,1,h-1,h and prefixes all-0/all-1/alternating/single-bit/all-but-one-bit boosted beside random, sparse and dense ones, heights above the grid favoured, and pairs of equal height (descendant, diverging after a common prefix, independent, pre-order successor, sibling); " +
		"NewPath vs a constructive encoding, PathLen/PathHeight/PathBits/PathMask/PathStr vs their definitions, numeric order of the words NewPath returned vs a pre-order comparator. " +
		"The accessors are asked about a word not only right after NewPath built it: a case asks them about word 1 before its first NewPath call, after NewPath + accessors of word 2, after both words were built again back to back, and after NewPath calls for decoys (parent, children, sibling, same prefix one height up/down; all of them for h<=8, one or two chosen by the case above), in ten different accessor orders; the grid walk asks them about the previous node's word after each NewPath. Grid: every (h<=16,l,prefix) (h<=21 in the thorough tier), the pre-order walk of every such full tree must be strictly increasing in the library's words, all pairs for h<=6; " +
		"sweep of EVERY (h above the grid .. 32, l): all prefixes for l<=8, else all-0/all-1/both alternating/every single bit/every all-but-one bit, every value of every window of 5 (thorough 6) adjacent prefix bits with the other bits random, and 512 (thorough 2048) random prefixes, each paired with its pre-order successor or its sibling. " +
		"Non-trivial: l>=1 and prefix != 0 (upper half non-zero). Grid and sweep cases are distinct by construction (a prefix occurs once per (h,l)); rapid cases are hashed only when h is above the grid and the case is not one of the sweep's.",
	Check:    check,
	Classify: classify,
	KeepLen:  1500,
	Hashed:   func(c Case) bool { return c.H > gridH && !inSweep(c) },
}

func classify(c Case) (bool, []string) {
	labels := []string{}
	switch {
	case c.H <= 6:
		labels = append(labels, "h:0-6")
	case c.H <= 16:
		labels = append(labels, "h:7-16")
	case c.H <= 30:
		labels = append(labels, "h:17-30")
	default:
		labels = append(labels, "h:31-32")
	}
	if c.Has2 {
		labels = append(labels, "pair:"+c.Rel)
	}
	if c.L == c.H {
		labels = append(labels, "leaf")
	}
	if c.L == 0 {
		labels = append(labels, "root")
	}
	if c.H > 16 && c.L >= 2 && c.L <= c.H-2 {
		labels = append(labels, "h>16:interior-length")
	}
	return c.L >= 1 && c.Prefix != 0, labels
}

func bitsText(prefix uint64, l int) string {
	b := make([]byte, l)
	for k := 0; k < l; k++ {
		b[k] = byte('0' + prefix>>uint(l-1-k)&1)
	}
	return string(b)
}

// buildWord calls NewPath for the node and compares the result with the constructive encoding; it returns the
// word the LIBRARY built (equal to the encoding when no failure is returned), so that the order checks judge
// library output.
func buildWord(h, l int, prefix uint64) (uint64, *vk.Failure) {
	want := model.PathWord(prefix, l, h)
	var got uint64
	if f := vk.TryF(func() string { return fmt.Sprintf("NewPath (h=%d l=%d prefix=%b)", h, l, prefix) }, func() {
		got = bmtree.NewPath(prefix<<uint(h-l), int32(l), int32(h))
	}); f != nil {
		return want, f
	}
	if got != want {
		return want, vk.Failf("newpath", "NewPath(%#x, %d, %d) = %#x, want %#x", prefix<<uint(h-l), l, h, got, want)
	}
	return got, nil
}

// accessorOrders: the orders in which checkAccessors calls PathLen (0), PathHeight (1), PathBits (2), PathMask (3)
// and PathStr (4): every rotation of the forward and of the reverse order, so that every accessor is called
// first, last and right after every other one.
var accessorOrders = func() [][5]int {
	var out [][5]int
	for r := 0; r < 5; r++ {
		var f, b [5]int
		for i := 0; i < 5; i++ {
			f[i], b[i] = (r+i)%5, (r+5-i)%5
		}
		out = append(out, f)
		out = append(out, b)
	}
	return out
}()

// checkAccessors calls the five accessors on the word of the node (h, l, prefix) in the order
// accessorOrders[order mod 10] and holds each result against its definition. NO NewPath call is made here: the
// caller decides what was built before (this node, another node, nothing), `when` says it in the message
// (rendered only when a message is needed).
func checkAccessors(h, l int, prefix uint64, order int, when context) *vk.Failure {
	want := model.PathWord(prefix, l, h)
	var pl, ph int32
	var pb, pm uint64
	var ps string
	seq := accessorOrders[order%len(accessorOrders)]
	if f := vk.TryF(func() string { return fmt.Sprintf("path accessors (h=%d l=%d prefix=%b; %s)", h, l, prefix, when) }, func() {
		for _, a := range seq {
			switch a {
			case 0:
				pl = bmtree.PathLen(want)
			case 1:
				ph = bmtree.PathHeight(want)
			case 2:
				pb = bmtree.PathBits(want)
			case 3:
				pm = bmtree.PathMask(want)
			default:
				ps = bmtree.PathStr(want)
			}
		}
	}); f != nil {
		return f
	}
	if int(pl) != l {
		return vk.Failf("pathlen", "PathLen(%#x) = %d, want %d (%s)", want, pl, l, when)
	}
	if l >= 1 && int(ph) != h {
		return vk.Failf("pathheight", "PathHeight(%#x) = %d, want %d (%s)", want, ph, h, when)
	}
	if pb != want>>32 || pm != want&0xffffffff {
		return vk.Failf("pathbits-mask", "PathBits/PathMask(%#x) = %#x/%#x (%s)", want, pb, pm, when)
	}
	expect := bitsText(prefix, l)
	if ps != expect {
		return vk.Failf("pathstr", "PathStr(%#x) = %q, want %q (%s)", want, ps, expect, when)
	}
	if l > 0 && when.watch { // the returned string stays under watch while later calls produce more output
		kept := ps
		keep(func() string {
			if kept != expect {
				return fmt.Sprintf("PathStr(%#x) returned %q, which now reads %q", want, expect, kept)
			}
			return ""
		})
	}
	return nil
}

// context of an accessor round: what the last NewPath call before it was.
type context struct {
	what  string
	last  *node // the node NewPath was last called for, when it is not the node asked about
	watch bool  // keep the returned string under watch (the in-step rounds: one watched result per word)
}

func (c context) String() string {
	if c.last == nil {
		return c.what
	}
	return fmt.Sprintf("%s: NewPath(h=%d l=%d prefix=%b) was called after it", c.what, c.last.h, c.last.l, c.last.p)
}

var (
	inStep    = context{what: "right after NewPath built this word; order PathLen, PathHeight, PathBits, PathMask, PathStr", watch: true}
	noBuild   = context{what: "before any NewPath call of this case"}
	lastOfTwo = context{what: "both words of the pair built first, this one last"}
)

func earlier(n *node) context { return context{what: "a word built earlier", last: n} }

// checkWord: NewPath for the node, then the accessors on that word in their fixed order.
func checkWord(h, l int, prefix uint64) (uint64, *vk.Failure) {
	w, f := buildWord(h, l, prefix)
	if f != nil {
		return w, f
	}
	return w, checkAccessors(h, l, prefix, 0, inStep)
}

type node struct {
	h, l int
	p    uint64
}

// decoys: nodes whose words share searching bits, mask or both with the node's (parent, both children, sibling,
// the same prefix one height up / down, the same searching bits with another length); NewPath is called for one of
// them between building a word and asking the accessors about it.
func decoys(h, l int, prefix uint64) []node {
	var out []node
	if l > 0 {
		out = append(out, node{h, l - 1, prefix >> 1}, node{h, l, prefix ^ 1})
	}
	if l < h {
		out = append(out, node{h, l + 1, prefix << 1}, node{h, l + 1, prefix<<1 | 1})
	}
	if h < 32 {
		out = append(out, node{h + 1, l, prefix})
	}
	if l <= h-1 {
		out = append(out, node{h - 1, l, prefix})
	}
	return out
}

func checkOrder(h int, w1 uint64, p1 uint64, l1 int, w2 uint64, p2 uint64, l2 int) *vk.Failure {
	less := model.PreorderLess(p1, l1, p2, l2)
	greater := model.PreorderLess(p2, l2, p1, l1)
	if (w1 < w2) != less || (w1 > w2) != greater {
		return vk.Failf("order", "h=%d: words %#x (%s) and %#x (%s): numeric %v/%v but pre-order %v/%v", h, w1, bitsText(p1, l1), w2, bitsText(p2, l2), w1 < w2, w1 > w2, less, greater)
	}
	return nil
}

// caseOrder: where in accessorOrders a case starts (a pure function of the case).
func caseOrder(c Case) int {
	return int(vk.Mix(uint64(c.H)<<16^uint64(c.L)<<8^uint64(c.L2)^uint64(c.Prefix)*0x9e3779b97f4a7c15^uint64(c.Prefix2)*0xd1342543de82ef95) % 10)
}

// check runs one case as a fixed sequence of calls (a pure function of the case):
//
//	accessors(word 1)                          - no NewPath call of this case precedes them
//	NewPath(node 1) ; accessors(word 1)        - in step, fixed order
//	[pair] NewPath(node 2) ; accessors(word 2) ; accessors(word 1) - the EARLIER word after another NewPath
//	then, for h <= 8 all of (a) (b), for taller trees one of (a) (b1) (b2), chosen by the case:
//	(a)  [pair] NewPath(node 1) ; NewPath(node 2) ; accessors(word 1) ; accessors(word 2) - both built first
//	(b)  NewPath(decoy) ; accessors(word 1) [; accessors(word 2) after the first decoy]  for every decoy of node 1
//	(b1) NewPath(decoy) ; accessors(word 1) [; accessors(word 2)]   for one decoy
//	(b2) NewPath(decoy) ; accessors(word 1)                          for two decoys
//
// the accessor order varies from step to step. The statement claims the accessor values for the WORD; a word is a
// plain number, so which NewPath call came last must not matter.
func check(c Case) *vk.Failure {
	h, l1, p1 := c.H, c.L, uint64(c.Prefix)
	l2, p2 := c.L2, uint64(c.Prefix2)
	o := caseOrder(c)
	if f := checkAccessors(h, l1, p1, o, noBuild); f != nil {
		return f
	}
	w1, f := checkWord(h, l1, p1)
	if f != nil {
		return f
	}
	var w2 uint64
	if c.Has2 {
		if w2, f = checkWord(h, l2, p2); f != nil {
			return f
		}
		if f := checkAccessors(h, l1, p1, o+1, earlier(&node{h, l2, p2})); f != nil {
			return f
		}
	}
	variant := -1 // everything
	if h > 8 {
		variant = int(vk.Mix(uint64(o)+uint64(c.Prefix)>>3+uint64(c.L)*131) % 3)
		if !c.Has2 && variant == 0 {
			variant = 2
		}
	}
	if c.Has2 && variant <= 0 {
		if _, f := buildWord(h, l1, p1); f != nil {
			return f
		}
		if _, f := buildWord(h, l2, p2); f != nil {
			return f
		}
		if f := checkAccessors(h, l1, p1, o+2, context{what: "both words of the pair built first", last: &node{h, l2, p2}}); f != nil {
			return f
		}
		if f := checkAccessors(h, l2, p2, o+3, lastOfTwo); f != nil {
			return f
		}
	}
	ds := decoys(h, l1, p1)
	switch {
	case variant == 0 || len(ds) == 0:
		ds = nil
	case variant == 1:
		ds = ds[o%len(ds):][:1]
	case variant == 2 && len(ds) > 2:
		k := o % len(ds)
		ds = []node{ds[k], ds[(k+1+o/2%(len(ds)-1))%len(ds)]}
	}
	for i := range ds {
		d := ds[i]
		if _, f := buildWord(d.h, d.l, d.p); f != nil {
			return f
		}
		if f := checkAccessors(h, l1, p1, o+4+i, earlier(&ds[i])); f != nil {
			return f
		}
		if c.Has2 && i == 0 && variant != 2 {
			if f := checkAccessors(h, l2, p2, o+5, earlier(&ds[i])); f != nil {
				return f
			}
		}
	}
	if c.Has2 {
		return checkOrder(h, w1, p1, l1, w2, p2, l2)
	}
	return nil
}

func genNode(t *rapid.T, h int, label string) (uint64, int) {
	var l int
	switch gen.Uniform(t, 12, label+".lclass") {
	case 0:
		l = 0
	case 1:
		l = min(1, h)
	case 2, 3:
		l = h
	case 4, 5:
		l = max(h-1, 0)
	default:
		l = gen.Uniform(t, h+1, label+".l")
	}
	if l == 0 {
		return 0, 0
	}
	full := uint64(1)<<uint(l) - 1
	var p uint64
	switch gen.Uniform(t, 12, label+".pclass") {
	case 0:
		p = 0
	case 1:
		p = full
	case 2:
		p = 0x5555555555555555 & full
	case 3:
		p = 1 << uint(gen.Uniform(t, l, label+".bit"))
	case 4:
		p = full &^ (1 << uint(gen.Uniform(t, l, label+".bit")))
	case 5: // sparse
		p = gen.U64(t, label+".p") & gen.U64(t, label+".q") & full
	case 6: // dense
		p = (gen.U64(t, label+".p") | gen.U64(t, label+".q")) & full
	default:
		p = gen.U64(t, label+".p") & full
	}
	return p, l
}

// neighbour makes c a pair with the node's sibling (when asked for and the node is not the root) or else with
// its pre-order successor in the complete tree of height c.H; the last node of the walk stays a single node.
func neighbour(c Case, sibling bool) Case {
	if sibling && c.L > 0 {
		c.Has2, c.Rel, c.L2, c.Prefix2 = true, "sibling", c.L, c.Prefix^1
		return c
	}
	if p2, l2, ok := model.Succ(uint64(c.Prefix), c.L, c.H); ok {
		c.Has2, c.Rel, c.L2, c.Prefix2 = true, "successor", l2, vk.U64(p2)
		return c
	}
	c.Has2, c.Rel, c.L2, c.Prefix2 = false, "", 0, 0
	return c
}

// sweepPrefixes calls emit for the prefixes the sweep of TestGrid evaluates at (h, l): a pure function of
// (VERIF_SEED, h, l); the case file carries the prefix itself.
func sweepPrefixes(h, l int, emit func(p uint64, class string)) {
	if l <= sweepAll {
		for p := uint64(0); p < 1<<uint(l); p++ {
			emit(p, "sweep:all-prefixes(l<=8)")
		}
		return
	}
	full := uint64(1)<<uint(l) - 1
	base := vk.Mix(vk.Seed()*0x9e3779b97f4a7c15 ^ uint64(h)<<8 ^ uint64(l))
	n := uint64(0)
	rnd := func() uint64 { n++; return vk.Mix(base+n*0xd1342543de82ef95) & full }
	emit(0, "sweep:structured")
	emit(full, "sweep:structured")
	emit(0x5555555555555555&full, "sweep:structured")
	emit(0xaaaaaaaaaaaaaaaa&full, "sweep:structured")
	for b := 0; b < l; b++ {
		emit(1<<uint(b), "sweep:structured")
		emit(full&^(1<<uint(b)), "sweep:structured")
	}
	w := sweepWindow
	wmask := uint64(1)<<uint(w) - 1
	for pos := 0; pos+w <= l; pos++ {
		for v := uint64(0); v <= wmask; v++ {
			emit(rnd()&^(wmask<<uint(pos))|v<<uint(pos), "sweep:window")
		}
	}
	for i := 0; i < sweepRandom; i++ {
		emit(rnd(), "sweep:random")
	}
}

type sweepItem struct {
	c     Case
	class string
}

// sweepCases lists the cases of the sweep at (h, l) in evaluation order, every prefix once: the node paired
// with its sibling (every fourth) or its pre-order successor.
func sweepCases(h, l int) []sweepItem {
	var out []sweepItem
	seen := map[uint64]bool{}
	n := 0
	sweepPrefixes(h, l, func(p uint64, class string) {
		n++
		if seen[p] {
			return
		}
		seen[p] = true
		out = append(out, sweepItem{neighbour(Case{H: h, L: l, Prefix: vk.U64(p)}, n&3 == 0), class})
	})
	return out
}

var sweepSets = map[[2]int]map[Case]bool{}

// inSweep tells whether c is one of the cases TestGrid's sweep evaluates (and counts by construction), so that
// the same case drawn by rapid is not counted a second time.
func inSweep(c Case) bool {
	if c.H <= gridH || c.H > 32 || c.L < 0 || c.L > c.H {
		return false
	}
	k := [2]int{c.H, c.L}
	s, ok := sweepSets[k]
	if !ok {
		s = map[Case]bool{}
		for _, it := range sweepCases(c.H, c.L) {
			s[it.c] = true
		}
		sweepSets[k] = s
	}
	return s[c]
}

func genCase(t *rapid.T) Case {
	var h int
	switch gen.Uniform(t, 8, "hclass") {
	case 0, 1, 2:
		h = rapid.SampledFrom([]int{0, 1, 2, 17, 30, 31, 32, 32}).Draw(t, "hb")
	case 3:
		h = gen.Uniform(t, 33, "h")
	default: // the heights the exhaustive grid of the quick tier does not reach
		h = 17 + gen.Uniform(t, 16, "h")
	}
	p, l := genNode(t, h, "n1")
	c := Case{H: h, L: l, Prefix: vk.U64(p)}
	if gen.Chance(t, 5, 6, "pair") {
		c.Has2 = true
		switch gen.Uniform(t, 6, "rel") {
		case 4, 5:
			return neighbour(c, gen.Chance(t, 1, 2, "sibling"))
		case 0:
			c.Rel = "descendant"
			l2 := l + gen.Uniform(t, h-l+1, "ext")
			c.L2, c.Prefix2 = l2, vk.U64(p<<uint(l2-l)|gen.U64(t, "extbits")&(uint64(1)<<uint(l2-l)-1))
		case 1, 2:
			if l > 0 {
				c.Rel = "diverging"
				k := gen.Uniform(t, l, "common")
				l2 := k + 1 + gen.Uniform(t, h-k, "ext")
				c.L2, c.Prefix2 = l2, vk.U64((p>>uint(l-k))<<uint(l2-k)|gen.U64(t, "extbits")&(uint64(1)<<uint(l2-k)-1))
				break
			}
			fallthrough
		default:
			c.Rel = "independent"
			p2, l2 := genNode(t, h, "n2")
			c.L2, c.Prefix2 = l2, vk.U64(p2)
		}
	}
	return c
}

func TestRegress(t *testing.T) { checker.Regress(t) }

func TestProp(t *testing.T) { checker.Prop(t, genCase) }

// FuzzProp: the same generator driven by the native coverage-guided fuzzer (thorough tier only).
func FuzzProp(f *testing.F) { checker.Fuzz(f, genCase) }

func TestGrid(t *testing.T) {
	vk.SetPhase("grid")
	var evals, nontriv int64
	fail := func(c Case, f *vk.Failure) {
		if g := checker.Eval(c); g == nil {
			vk.Infra(fmt.Sprintf("grid found %v but the per-case check passes on %+v", f, c))
		}
		t.Fatalf("VERIF-FAIL property=C10 kind=%s: %s", f.Kind, f.Msg)
	}
	for h := 0; h <= gridH; h++ {
		// every node, and the pre-order walk must be strictly increasing in word value
		tr := model.NewTree(int32(int64(1)<<uint(h+1) - 1))
		first := true
		var prevW, prevP uint64
		var prevL int
		tr.Walk(func(prefix uint64, l int, _ bool, _ int64) {
			w, f := checkWord(h, l, prefix)
			checker.Remember(Case{H: h, L: l, Prefix: vk.U64(prefix)})
			evals++
			if l >= 1 && prefix != 0 {
				nontriv++
			}
			if f != nil {
				fail(Case{H: h, L: l, Prefix: vk.U64(prefix)}, f)
			}
			if !first { // the word of the node walked before, now that another NewPath call was made
				if lf := checkAccessors(h, prevL, prevP, int(evals), earlier(&node{h, l, prefix})); lf != nil {
					fail(Case{H: h, L: prevL, Prefix: vk.U64(prevP), Has2: true, L2: l, Prefix2: vk.U64(prefix), Rel: "walk-successor"}, lf)
				}
			}
			if evals&255 == 0 {
				if kf := checker.RunKeepers(); kf != nil {
					fail(Case{H: h, L: l, Prefix: vk.U64(prefix)}, kf)
				}
			}
			if !first && !(prevW < w) {
				fail(Case{H: h, L: prevL, Prefix: vk.U64(prevP), Has2: true, L2: l, Prefix2: vk.U64(prefix), Rel: "walk-successor"},
					vk.Failf("order", "h=%d: pre-order successor %#x is not numerically above %#x", h, w, prevW))
			}
			first, prevW, prevP, prevL = false, w, prefix, l
		})
	}
	for h := 0; h <= 6; h++ {
		type pl struct {
			p uint64
			l int
		}
		var nodes []pl
		for l := 0; l <= h; l++ {
			for p := uint64(0); p < 1<<uint(l); p++ {
				nodes = append(nodes, pl{p, l})
			}
		}
		words := make([]uint64, len(nodes)) // the LIBRARY's words (each was checked against the encoding above)
		for i, a := range nodes {
			if f := vk.Try(fmt.Sprintf("NewPath (h=%d l=%d prefix=%b)", h, a.l, a.p), func() {
				words[i] = bmtree.NewPath(a.p<<uint(h-a.l), int32(a.l), int32(h))
			}); f != nil {
				fail(Case{H: h, L: a.l, Prefix: vk.U64(a.p)}, f)
			}
		}
		for i, a := range nodes {
			for j, b := range nodes {
				evals++
				if a.l >= 1 && a.p != 0 {
					nontriv++
				}
				if f := checkOrder(h, words[i], a.p, a.l, words[j], b.p, b.l); f != nil {
					fail(Case{H: h, L: a.l, Prefix: vk.U64(a.p), Has2: true, L2: b.l, Prefix2: vk.U64(b.p), Rel: "grid-pair"}, f)
				}
			}
		}
	}
	vk.CountConstructed(evals, nontriv, "grid")
	// Above the exhaustive heights EVERY (h, l) meets a fixed set of prefixes, so that no (h, l) is left to the
	// chance of the rapid draws: each prefix as a pair with the node's pre-order successor (3 of 4) or its
	// sibling, through the ordinary per-case check (a failing one goes through Eval and is written as a replayable
	// case). The cases are distinct by construction; Hashed keeps rapid from counting one of them again.
	perHL := int64(-1)
	var sweepEvals, sweepNontriv int64
	classes := map[string]int64{}
	for h := gridH + 1; h <= 32; h++ {
		for l := 0; l <= h; l++ {
			items := sweepCases(h, l)
			for _, it := range items {
				c := it.c
				f := check(c)
				checker.Remember(c)
				sweepEvals++
				nt, labels := classify(c)
				if nt {
					sweepNontriv++
				}
				classes[it.class]++
				for _, lb := range labels {
					classes[lb]++
				}
				if f != nil {
					fail(c, f)
				}
				if sweepEvals&255 == 0 {
					if kf := checker.RunKeepers(); kf != nil {
						fail(c, kf)
					}
				}
			}
			if l > sweepAll && (perHL < 0 || int64(len(items)) < perHL) {
				perHL = int64(len(items))
			}
		}
	}
	vk.CountConstructed(sweepEvals, sweepNontriv, "sweep")
	for lb, n := range classes {
		vk.Label(lb, n)
	}
	vk.SetExtra("sweep_distinct_prefixes_per_(h,l>8)_at_least", fmt.Sprint(perHL))
	vk.AddSample(map[string]any{"grid": fmt.Sprintf("all nodes h<=%d + walk order + all pairs h<=6", gridH), "example": map[string]any{"h": 5, "l": 3, "prefix": "101", "word": fmt.Sprintf("%#x", model.PathWord(5, 3, 5))}})
	vk.MarkExhaustive(fmt.Sprintf("every (h<=%d,l,prefix); walk order of every full tree h<=%d (implies the order claim for all pairs of those heights); all pairs h<=6; every (h<=32,l<=8,prefix)", gridH, gridH))
}

// Package c09 decides property C09: bitstr encodings order and
// truncate-compare like the bits they hold.
package c09

import (
	"fmt"
	"math"
	"testing"

	"github.com/openacid/low/bitstr"
	"pgregory.net/rapid"

	"verif/harness/gen"
	"verif/harness/model"
	"verif/harness/vk"
)

func TestMain(m *testing.M) { vk.Main(m, "C09") }

type Range struct {
	S    vk.Hex `json:"s"`
	From int32  `json:"from"`
	To   int32  `json:"to"`
}

type Case struct {
	Op    string `json:"op"`            // cmp | cmpupto | maxnew
	Cut   int    `json:"cut,omitempty"` // maxnew: X.S is empty, the source is the maximum string (2^28 bytes, gen.MaxString) without its last Cut bytes
	X     Range  `json:"x"`
	Y     *Range `json:"y,omitempty"`
	A     vk.Hex `json:"a,omitempty"` // plain bytes for CmpUpto/StrCmpUpto (compared against X)
	Class string `json:"class,omitempty"`
}

var checker = &vk.Checker[Case]{
	ID: "C09",
	Rule: "(s, from, to) with 0<=from<=to<=8*len(s): aligned/unaligned ends, empty aligned and empty unaligned ranges, unaligned from (floors to a byte), bytes 00/80/ff/7f boosted, lengths 0..20 (thorough 0..64) on both sides of the 8-byte fast path; pairs correlated on purpose (same source with another end, one bit flipped before/at/after the shorter end, prefix relation) or independent; " +
		"plain a derived from b's source (truncated, extended, bit flipped below/at/beyond Len(b), flips only in the masked-off bits of the last byte) or unrelated, shorter/equal/longer than b's payload. Oracle: []bool bit strings, lexicographic with a proper prefix first; Len; Cmp antisymmetry; StrCmpUpto == CmpUpto from several call contexts (direct, func value, closure, fresh goroutine, closures entered right after the stack was overwritten with 00/ff) with the string's bytes unchanged. " +
		"Grid: all strings of length <= 2 over {00,01,7f,80,ff} x from in {0,3,8,11} x all to: all pairs for Cmp, all plain strings of length <= 3 over the alphabet for CmpUpto. Non-trivial: the two bit strings share >= 1 leading bit and one ends unaligned; CmpUpto: b non-empty and len(a) >= payload bytes - 1. Grid pairs distinct by construction; rapid cases hashed when a source is longer than 2 bytes (3 for a).",
	Check:    check,
	Classify: classify,
	Hashed: func(c Case) bool {
		if c.Op == "cmp" {
			return len(c.X.S) > 2 || len(c.Y.S) > 2
		}
		return len(c.X.S) > 2 || len(c.A) > 3
	},
}

func bitsOf(r Range) []bool {
	return model.StrBits(string(r.S), int(r.From)/8*8, int(r.To))
}

func sign(x int) int {
	switch {
	case x < 0:
		return -1
	case x > 0:
		return 1
	}
	return 0
}

func encode(r Range) ([]byte, *vk.Failure) {
	if r.From < 0 || r.From > r.To || int(r.To) > 8*len(r.S) {
		vk.Infra(fmt.Sprintf("generator produced a range outside the stated domain: %+v", r))
		return nil, nil
	}
	var e []byte
	if f := vk.Try(fmt.Sprintf("bitstr.New(%x, %d, %d)", r.S, r.From, r.To), func() { e = bitstr.New(string(r.S), r.From, r.To) }); f != nil {
		return nil, f
	}
	want := int32(len(bitsOf(r)))
	var l int32
	if f := vk.Try(fmt.Sprintf("bitstr.Len(New(%x, %d, %d)=%x)", r.S, r.From, r.To, e), func() { l = bitstr.Len(e) }); f != nil {
		return nil, f
	}
	if l != want {
		return nil, vk.Failf("len", "Len(New(%x, %d, %d) = %x) = %d, want %d", r.S, r.From, r.To, e, l, want)
	}
	return e, nil
}

// call contexts for StrCmpUpto (its unsafe string->slice cast reads a capacity word that the string header does not have)
var strCmpFn = bitstr.StrCmpUpto

//go:noinline
func viaClosure(a string, b []byte) int {
	f := func() int { return bitstr.StrCmpUpto(a, b) }
	return f()
}

func viaGoroutine(a string, b []byte) (r int, p any) {
	done := make(chan struct{})
	go func() {
		defer close(done)
		defer func() { p = recover() }()
		r = bitstr.StrCmpUpto(a, b)
	}()
	<-done
	return
}

var scratch vk.Scratch

var sinkByte byte

// dirtyStack leaves the byte v all over the stack area the next call will use:
// StrCmpUpto once took the capacity of its []byte view from such left-over memory.
//
//go:noinline
func dirtyStack(v byte) {
	var buf [1024]byte
	for i := range buf {
		buf[i] = v
	}
	sinkByte = buf[int(v)+17]
}

// viaDirtyStack calls StrCmpUpto from closures of two shapes right after the stack was overwritten with v.
func viaDirtyStack(ab []byte, as string, b []byte, v byte) (r1, r2 int, p any) {
	defer func() { p = recover() }()
	f1 := func() string { return fmt.Sprint(bitstr.CmpUpto(ab, b), bitstr.StrCmpUpto(as, b)) }
	f2 := func() int { return bitstr.StrCmpUpto(as, b) }
	dirtyStack(v)
	s := f1()
	dirtyStack(v)
	r2 = f2()
	var c int
	fmt.Sscan(s, &c, &r1)
	return
}

func checkCmpUpto(a []byte, x Range) *vk.Failure { return checkCmpUptoOpts(a, x, true) }

// extras: the call-context and aliasing variants (in the big grid they run on a sample of the cases).
func checkCmpUptoOpts(a []byte, x Range, extras bool) *vk.Failure {
	e, f := encode(x)
	if f != nil || e == nil {
		return f
	}
	bb := bitsOf(x)
	ab := model.StrBits(string(a), 0, 8*len(a))
	if len(ab) > len(bb) {
		ab = ab[:len(bb)]
	}
	want := sign(model.CmpBits(ab, bb))
	ac := append([]byte(nil), a...)
	ec := append([]byte(nil), e...)
	reused := scratch.Reuse(vk.Hash64(a) + uint64(len(e)))
	if reused {
		ac = scratch.Bytes(a) // the plain key in a reused buffer with guarded spare capacity
	}
	var got int
	if f := vk.Try(fmt.Sprintf("CmpUpto(%x, %x)", a, e), func() { got = bitstr.CmpUpto(ac, ec) }); f != nil {
		return f
	}
	if sign(got) != want || got < -1 || got > 1 {
		return vk.Failf("cmpupto", "CmpUpto(a=%x, b=New(%x,%d,%d)=%x) = %d, want %d", a, x.S, x.From, x.To, e, got, want)
	}
	if string(ac) != string(a) || string(ec) != string(e) {
		return vk.Failf("cmpupto-mutates", "CmpUpto modified an argument")
	}
	if reused {
		if msg := scratch.Check(); msg != "" {
			return vk.Failf("argument-spare-capacity-written", "CmpUpto: %s", msg)
		}
	}
	if !extras {
		return nil
	}
	// a key that is a view into the encoding's own memory (its first n bytes) must compare like a copy of those bytes
	for _, n := range []int{0, 1, len(e) / 2, len(e) - 2, len(e) - 1} {
		if n < 0 || n > len(e) {
			continue
		}
		e2 := append([]byte(nil), e...)
		view := e2[:n]
		cp := append([]byte(nil), view...)
		vb := model.StrBits(string(cp), 0, 8*len(cp))
		if len(vb) > len(bb) {
			vb = vb[:len(bb)]
		}
		wantV := sign(model.CmpBits(vb, bb))
		var gv, gc int
		if f := vk.Try(fmt.Sprintf("CmpUpto(b[:%d], b) with b = %x", n, e), func() { gv, gc = bitstr.CmpUpto(view, e2), bitstr.CmpUpto(cp, e2) }); f != nil {
			return f
		}
		if gv != wantV || gc != wantV {
			return vk.Failf("cmpupto-aliased-key", "CmpUpto(b[:%d], b) = %d and CmpUpto(copy of b[:%d], b) = %d, want %d (b = New(%x,%d,%d) = %x)", n, gv, n, gc, wantV, x.S, x.From, x.To, e)
		}
	}
	// the string variant, from several call contexts
	as := string(a) // heap copy
	keep := string(append([]byte(nil), a...))
	var g1, g2, g3, g4 int
	if f := vk.Try(fmt.Sprintf("StrCmpUpto(%x, %x) [direct/func value/closure]", a, e), func() {
		g1 = bitstr.StrCmpUpto(as, ec)
		g2 = strCmpFn(as, ec)
		g3 = viaClosure(as, ec)
	}); f != nil {
		f.Kind = "strcmpupto-panic"
		return f
	}
	var p any
	g4, p = viaGoroutine(as, ec)
	if p != nil {
		return vk.Failf("strcmpupto-panic", "StrCmpUpto(%x, %x) panicked in a fresh goroutine: %v", a, e, p)
	}
	for _, v := range []byte{0x00, 0xff} {
		d1, d2, p := viaDirtyStack(ac, as, ec, v)
		if p != nil {
			return vk.Failf("strcmpupto-panic", "StrCmpUpto(%x, %x) panicked when called after the stack had been filled with %#x: %v", a, e, v, p)
		}
		if d1 != got || d2 != got {
			return vk.Failf("strcmpupto", "StrCmpUpto(%x, %x) = %d/%d after the stack had been filled with %#x, CmpUpto = %d", a, e, d1, d2, v, got)
		}
	}
	if g1 != got || g2 != got || g3 != got || g4 != got {
		return vk.Failf("strcmpupto", "StrCmpUpto(%x, %x) = %d/%d/%d/%d (direct/func value/closure/goroutine), CmpUpto = %d", a, e, g1, g2, g3, g4, got)
	}
	if as != keep {
		return vk.Failf("strcmpupto-mutates", "StrCmpUpto changed the bytes of its string argument")
	}
	return nil
}

func checkCmp(x, y Range) *vk.Failure {
	ex, f := encode(x)
	if f != nil || ex == nil {
		return f
	}
	ey, f := encode(y)
	if f != nil || ey == nil {
		return f
	}
	want := sign(model.CmpBits(bitsOf(x), bitsOf(y)))
	var g, r int
	if f := vk.Try(fmt.Sprintf("Cmp(%x, %x)", ex, ey), func() {
		g = bitstr.Cmp(ex, ey)
		r = bitstr.Cmp(ey, ex)
	}); f != nil {
		return f
	}
	if g != want {
		return vk.Failf("cmp", "Cmp(New(%x,%d,%d)=%x, New(%x,%d,%d)=%x) = %d, want %d", x.S, x.From, x.To, ex, y.S, y.From, y.To, ey, g, want)
	}
	if r != -want {
		return vk.Failf("cmp-antisymmetry", "Cmp(y,x) = %d but Cmp(x,y) = %d", r, g)
	}
	return nil
}

// checkMaxNew: New / Len on a source of 2^28 bytes (8*len = 2^31 fits no int32) or a few bytes less. The
// encoding is compared, through Cmp / Len / CmpUpto, with the encoding of a small private copy of the
// bytes the range touches (built from the description of the string), so no layout is assumed.
func checkMaxNew(from, to int32, cut int) *vk.Failure {
	if cut < 0 || cut > 64 || from < 0 || from > to || int64(to) > int64(8*(gen.MaxStrLen-cut)) || int64(to)-int64(from) > 4096 {
		return nil
	}
	s := gen.MaxString(cut)
	lo, hi := int64(from)/8, (int64(to)+7)/8
	small := gen.MaxStrCopy(lo, hi)
	sf, st := from-int32(8*lo), int32(int64(to)-8*lo)
	what := fmt.Sprintf("New(source of 2^28-%d bytes, %d, %d)", cut, from, to)
	var e, e2 []byte
	var l, l2 int32
	var c1, c2, u1, u2 int
	if f := vk.Try(what, func() {
		e = bitstr.New(s, from, to)
		l = bitstr.Len(e)
	}); f != nil {
		return f
	}
	if f := vk.Try("the same range on a private copy of the bytes it touches", func() {
		e2 = bitstr.New(string(small), sf, st)
		l2 = bitstr.Len(e2)
		c1, c2 = bitstr.Cmp(e, e2), bitstr.Cmp(e2, e)
		u1, u2 = bitstr.CmpUpto(small, e), bitstr.StrCmpUpto(string(small)+"\xff", e)
	}); f != nil {
		return f
	}
	want := int32(int64(to) - 8*lo)
	if l != want || l2 != want {
		return vk.Failf("len", "Len(%s) = %d (on the small copy %d), want %d", what, l, l2, want)
	}
	if c1 != 0 || c2 != 0 {
		return vk.Failf("cmp", "%s = %x and New(copy of bytes [%d,%d), %d, %d) = %x compare as %d/%d, want 0: the same bit string", what, e, lo, hi, sf, st, e2, c1, c2)
	}
	if u1 != 0 || u2 != 0 {
		return vk.Failf("cmpupto", "CmpUpto/StrCmpUpto(the bytes of the range (+ff), %s = %x) = %d/%d, want 0", what, e, u1, u2)
	}
	if j, bad := gen.MaxStringDamage(); bad {
		return vk.Failf("cmpupto-mutates", "byte %d of the 2^28-byte source was modified", j)
	}
	return nil
}

func check(c Case) *vk.Failure {
	if c.Op == "maxnew" {
		return checkMaxNew(c.X.From, c.X.To, c.Cut)
	}
	if c.Op == "cmp" {
		return checkCmp(c.X, *c.Y)
	}
	return checkCmpUpto(c.A, c.X)
}

func common(a, b []bool) int {
	n := 0
	for n < len(a) && n < len(b) && a[n] == b[n] {
		n++
	}
	return n
}

func classify(c Case) (bool, []string) {
	if c.Op == "maxnew" {
		return c.X.To > c.X.From, []string{"op:maxnew", "maximum-string(2^28 bytes)"}
	}
	labels := []string{"op:" + c.Op}
	if c.Class != "" {
		labels = append(labels, "class:"+c.Class)
	}
	xb := bitsOf(c.X)
	if len(xb) == 0 {
		labels = append(labels, "x:empty")
	}
	if c.X.To%8 != 0 {
		labels = append(labels, "x:unaligned-end")
	}
	if c.X.From%8 != 0 {
		labels = append(labels, "x:unaligned-from")
	}
	payload := (len(xb) + 7) / 8
	if payload >= 8 {
		labels = append(labels, "x:payload>=8")
	}
	if c.Op == "cmp" {
		yb := bitsOf(*c.Y)
		switch sign(model.CmpBits(xb, yb)) {
		case 0:
			labels = append(labels, "result:equal")
		default:
			if common(xb, yb) == min(len(xb), len(yb)) {
				labels = append(labels, "result:prefix")
			} else {
				labels = append(labels, "result:differ")
			}
		}
		return common(xb, yb) >= 1 && (c.X.To%8 != 0 || c.Y.To%8 != 0), labels
	}
	switch {
	case len(c.A) < payload:
		labels = append(labels, "a:shorter")
	case len(c.A) == payload:
		labels = append(labels, "a:equal-len")
	default:
		labels = append(labels, "a:longer")
	}
	return len(xb) > 0 && len(c.A) >= payload-1, labels
}

// ---------------------------------------------------------------- generators

func genRange(t *rapid.T, s []byte, label string) Range {
	nbits := 8 * len(s)
	var from, to int
	switch gen.Uniform(t, 7, label+".class") {
	case 0: // aligned empty
		from = 8 * gen.Uniform(t, len(s)+1, label+".b")
		to = from
	case 1: // unaligned empty
		if nbits > 0 {
			from = gen.Uniform(t, nbits, label+".f")
			to = from
		}
	case 2: // aligned both
		a, b := gen.Uniform(t, len(s)+1, label+".a"), gen.Uniform(t, len(s)+1, label+".b")
		from, to = 8*min(a, b), 8*max(a, b)
	case 3: // from 0, any end
		to = gen.Uniform(t, nbits+1, label+".t")
	default:
		a, b := gen.Uniform(t, nbits+1, label+".a"), gen.Uniform(t, nbits+1, label+".b")
		from, to = min(a, b), max(a, b)
	}
	return Range{S: s, From: int32(from), To: int32(to)}
}

func flipBit(s []byte, k int) []byte {
	out := append([]byte(nil), s...)
	if k >= 0 && k < 8*len(out) {
		out[k/8] ^= 0x80 >> uint(k%8)
	}
	return out
}

func genCmp(t *rapid.T) Case {
	maxLen := vk.Pick(20, 64)
	if gen.Chance(t, 1, 10, "long") {
		maxLen = 300
	}
	s := gen.Bytes(t, 0, maxLen, "s")
	x := genRange(t, s, "x")
	var y Range
	cl := ""
	switch gen.Uniform(t, 6, "rel") {
	case 0:
		cl = "same-source-other-end"
		lo := int(x.From) / 8 * 8
		y = Range{S: s, From: int32(lo), To: int32(lo + gen.Uniform(t, 8*len(s)-lo+1, "t2"))}
	case 1, 2:
		cl = "bit-flipped-near-end"
		lo := int(x.From) / 8 * 8
		k := int(x.To) + gen.Uniform(t, 7, "dk") - 4
		if gen.Chance(t, 1, 3, "any") && int(x.To) > lo {
			k = lo + gen.Uniform(t, int(x.To)-lo, "k")
		}
		s2 := flipBit(s, k)
		t2 := int(x.To) + gen.Uniform(t, 5, "dt") - 2
		t2 = max(int(x.From), min(t2, 8*len(s2))) // precondition: from <= to
		y = Range{S: s2, From: x.From, To: int32(t2)}
	case 3:
		cl = "shifted-source" // same bits taken from another byte offset
		pad := gen.Bytes(t, 0, 3, "pad")
		s2 := append(append([]byte(nil), pad...), s...)
		y = Range{S: s2, From: x.From + int32(8*len(pad)), To: x.To + int32(8*len(pad))}
	default:
		cl = "independent"
		y = genRange(t, gen.Bytes(t, 0, maxLen, "s2"), "y")
	}
	if gen.Chance(t, 1, 2, "swap") {
		x, y = y, x
	}
	return Case{Op: "cmp", X: x, Y: &y, Class: cl}
}

func genCmpUpto(t *rapid.T) Case {
	maxLen := vk.Pick(40, 64)
	if gen.Chance(t, 1, 10, "long") {
		maxLen = 300
	}
	s := gen.Bytes(t, 0, maxLen, "s")
	x := genRange(t, s, "x")
	lo := int(x.From) / 8
	src := s[lo:] // bytes the encoded string starts from
	var a []byte
	cl := ""
	nb := int(x.To) - 8*lo // Len(b)
	switch gen.Uniform(t, 8, "aclass") {
	case 0:
		cl = "truncated"
		a = append([]byte(nil), src[:gen.Uniform(t, len(src)+1, "k")]...)
	case 1:
		cl = "extended"
		a = append(append([]byte(nil), src...), gen.Bytes(t, 0, 4, "ext")...)
	case 2, 3:
		cl = "flip-near-len"
		k := nb + gen.Uniform(t, 9, "dk") - 5
		a = flipBit(src, k)
		a = a[:min(len(a), (nb+7)/8+gen.Uniform(t, 3, "keep"))]
	case 4:
		cl = "flip-in-masked-bits"
		a = append([]byte(nil), src...)
		if nb%8 != 0 && nb/8 < len(a) {
			a[nb/8] ^= byte(gen.U64(t, "junk")) & (0xff >> uint(nb%8))
		}
	case 5:
		cl = "flip-anywhere"
		a = append([]byte(nil), src...)
		if nb > 0 {
			a = flipBit(a, gen.Uniform(t, nb, "k"))
		}
	case 6:
		cl = "exact-payload"
		a = append([]byte(nil), src[:min(len(src), (nb+7)/8)]...)
	default:
		cl = "unrelated"
		a = gen.Bytes(t, 0, maxLen, "a")
	}
	return Case{Op: "cmpupto", X: x, A: a, Class: cl}
}

func genCase(t *rapid.T) Case {
	if gen.Chance(t, 1, 2, "op") {
		return genCmp(t)
	}
	return genCmpUpto(t)
}

func TestRegress(t *testing.T) { checker.Regress(t) }

func TestProp(t *testing.T) { checker.Prop(t, genCase) }

func FuzzProp(f *testing.F) { checker.Fuzz(f, genCase) }

func TestGrid(t *testing.T) {
	vk.SetPhase("grid")
	alpha := []byte{0x00, 0x01, 0x7f, 0x80, 0xff}
	var strs [][]byte
	strs = append(strs, []byte{})
	for _, a := range alpha {
		strs = append(strs, []byte{a})
	}
	for _, a := range alpha {
		for _, b := range alpha {
			strs = append(strs, []byte{a, b})
		}
	}
	plain := append([][]byte(nil), strs...)
	for _, a := range alpha {
		for _, b := range alpha {
			for _, c := range alpha {
				plain = append(plain, []byte{a, b, c})
			}
		}
	}
	var rs []Range
	for _, s := range strs {
		for _, from := range []int{0, 3, 8, 11} {
			for to := from; to <= 8*len(s); to++ {
				rs = append(rs, Range{S: s, From: int32(from), To: int32(to)})
			}
		}
	}
	var evals, nontriv int64
	fail := func(c Case, f *vk.Failure) {
		if g := checker.Eval(c); g == nil {
			vk.Infra("grid failure not reproduced by the per-case check")
		}
		t.Fatalf("VERIF-FAIL property=C09 kind=%s: %s", f.Kind, f.Msg)
	}
	for i := range rs {
		xb := bitsOf(rs[i])
		for j := range rs {
			evals++
			if common(xb, bitsOf(rs[j])) >= 1 && (rs[i].To%8 != 0 || rs[j].To%8 != 0) {
				nontriv++
			}
			if f := checkCmp(rs[i], rs[j]); f != nil {
				y := rs[j]
				fail(Case{Op: "cmp", X: rs[i], Y: &y, Class: "grid"}, f)
			}
		}
		for _, a := range plain {
			evals++
			if len(xb) > 0 && len(a) >= (len(xb)+7)/8-1 {
				nontriv++
			}
			if f := checkCmpUptoOpts(a, rs[i], (i+len(a))%6 == 0); f != nil {
				fail(Case{Op: "cmpupto", X: rs[i], A: a, Class: "grid"}, f)
			}
		}
	}
	vk.CountConstructed(evals, nontriv, "grid")
	vk.AddSample(map[string]any{"grid": fmt.Sprintf("%d encodings: all pairs for Cmp, x %d plain strings for CmpUpto/StrCmpUpto", len(rs), len(plain)),
		"example": map[string]any{"x": "New(80ff, 3, 11)", "encoding": fmt.Sprintf("%x", bitstr.New("\x80\xff", 3, 11))}})
	vk.MarkExhaustive("all strings of length <= 2 over {00,01,7f,80,ff} x from in {0,3,8,11} x all to: all pairs (Cmp), all plain strings of length <= 3 (CmpUpto/StrCmpUpto)")
}

// TestLast runs at the very end of the process: huge inputs (the maximum bitmap / string) and the regression cases of that size come last, so that
// what they leave behind in the library cannot mask anything the ordinary cases would have met.
func TestLast(t *testing.T) {
	vk.SetPhase("last")
	// the maximum string as source: 2^28 bytes (8*len = 2^31 fits no int32), and a few bytes less
	for _, cut := range []int{0, 1, 3} {
		L8 := int64(8 * (gen.MaxStrLen - cut))
		for _, d := range []int64{0, 1, 7, 8, 9, 15, 16, 17, 40, 64, 100} {
			for _, w := range []int64{0, 1, 3, 7, 8, 9, 16, 21, 64} {
				from, to := L8-d-w, L8-d
				if to > math.MaxInt32 || from < 0 {
					continue
				}
				checker.Run(t, Case{Op: "maxnew", X: Range{From: int32(from), To: int32(to)}, Cut: cut, Class: "grid-maximum-string"})
			}
		}
		for _, r := range [][2]int64{{0, 0}, {0, 13}, {3, 80}, {8 * (gen.MaxStrLen / 2), 8*(gen.MaxStrLen/2) + 16}, {8*(gen.MaxStrLen/2) - 5, 8*(gen.MaxStrLen/2) + 11}} {
			checker.Run(t, Case{Op: "maxnew", X: Range{From: int32(r[0]), To: int32(r[1])}, Cut: cut, Class: "grid-maximum-string"})
		}
	}
	checker.RegressLast(t)
}

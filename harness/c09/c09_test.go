// Package c09 decides property C09: bitstr encodings order and
// truncate-compare like the bits they hold.
package c09

import (
	"bytes"
	"fmt"
	"math"
	"testing"

	"github.com/openacid/low/bitstr"
	"pgregory.net/rapid"

	"verif/harness/gen"
	"verif/harness/model"
	"verif/harness/vk"
)

func TestMain(m *testing.M) { vk.Main(m, "C09") }

type Range struct {
	S    vk.Hex `json:"s"`
	From int32  `json:"from"`
	To   int32  `json:"to"`
}

type Case struct {
	Op    string `json:"op"`            // cmp | cmpupto | maxnew
	Cut   int    `json:"cut,omitempty"` // maxnew: X.S is empty, the source is the maximum string (2^28 bytes, gen.MaxString) without its last Cut bytes
	X     Range  `json:"x"`
	Y     *Range `json:"y,omitempty"`
	A     vk.Hex `json:"a,omitempty"` // plain bytes for CmpUpto/StrCmpUpto (compared against X)
	Class string `json:"class,omitempty"`
}

var checker = &vk.Checker[Case]{
	ID: "C09",
	Rule: "(s, from, to) with 0<=from<=to<=8*len(s): aligned/unaligned ends, empty aligned and empty unaligned ranges, unaligned from (floors to a byte), bytes 00/80/ff/7f boosted, lengths 0..20 (CmpUpto 0..40; thorough 0..64) on both sides of the 8-byte fast path for 3/4 of the sources, the others with a log-uniform length (8..600, 256..4200, 2048..9000; thorough ..9000, ..40000) and synthesized content (random, boosted, constant, tiny alphabet, 00/ff with a random tail); pairs correlated on purpose (same source with another end, one bit flipped before/at/after the shorter end, prefix relation, same start with ANY other end and one bit flipped in the common part - byte lengths differ by any amount -, a shared prefix of j bytes followed by an unrelated tail) or independent; " +
		"plain a derived from b's source (truncated anywhere / within 9 bytes of the payload's end, extended, bit flipped below/at/beyond Len(b), flips only in the masked-off bits of the last byte, diverging: j common bytes then one byte changed up/down with a shorter than / as long as / longer than the payload, the empty key) or unrelated, shorter/equal/longer than b's payload. " +
		"Argument shapes, every case: the string given to New also as a substring at an odd offset of a larger string (ff around it; same Len, Cmp = 0 with the plain one); the key a as exact copy / reused buffer with canaries, as nil, []byte{} and b[:0:0] when empty, and as sub-slice + substring at offsets 1..7 of larger buffers with 40 bytes of spare capacity holding ff, 00 or the bytes b continues with; the encodings as sub-slices of larger buffers (Cmp both ways, CmpUpto); nothing around an argument may be written; string arguments are real immutable strings (never views of a buffer that is written later), []byte arguments are cut from reused buffers. " +
		"Results: an encoding New returned belongs to the caller - an identical second call's result is overwritten (every byte complemented, spare capacity filled), the first must read unchanged, a third identical call must give the same bit string (Len, Cmp = 0 both ways), and the first result is read again after each of the next cases (the last 8 are kept); on every case that goes through the checker (sources above 2 KiB: a quarter), on every 16th encoding of the directly evaluated grid, whose every 256th pair goes through the checker. " +
		"Size sweep (grid phase): payloads of 1..24 bytes and 2^k-1, 2^k, 2^k+1 and two seed-dependent sizes per octave up to 2^13+1 bytes (thorough 2^17+1), plus 32767..32769 and 65535..65537 bytes (reduced set): ends cut by 0,1,4,7 bits, the payload 0, 1 or 3 bytes (above 256 bytes, a quarter of the sizes: n/2 or n bytes - from of every magnitude) into the source, random / all-00 / all-ff content with a mid-valued last byte; Cmp against the same bits from another placement, a flip of the last bit / the first masked bit / the first bit of the last 8-byte word / a random bit, ends 1, 2, 9, n/2 bytes shorter (prefix, or last common bit flipped) and 2 bytes longer; CmpUpto with keys of 0,1,2,3,7,8,9,n/2,n-9,n-8,n-2,n-1,n,n+1,n+3 bytes exact and with the last byte +1 / -1, flips at Len(b)-1 and Len(b). Maximum string: ranges up to 2^23 bits wide (thorough 2^28 and the whole string). Oracle: []bool bit strings, lexicographic with a proper prefix first; Len; Cmp antisymmetry; StrCmpUpto == CmpUpto from several call contexts (direct, func value, closure, fresh goroutine, closures entered right after the stack was overwritten with 00/ff) with the string's bytes unchanged. " +
		"Grid: all strings of length <= 2 over {00,01,7f,80,ff} x from in {0,3,8,11} x all to: all pairs for Cmp, all plain strings of length <= 3 over the alphabet for CmpUpto. Non-trivial: the two bit strings share >= 1 leading bit and one ends unaligned; CmpUpto: b non-empty and (len(a) >= payload bytes - 1 or a shares its first byte with b). Grid pairs distinct by construction; rapid cases hashed when a source is longer than 2 bytes (3 for a).",
	Check:    check,
	Classify: classify,
	Hashed: func(c Case) bool {
		if c.Op == "cmp" {
			return len(c.X.S) > 2 || len(c.Y.S) > 2
		}
		return len(c.X.S) > 2 || len(c.A) > 3
	},
}

func sign(x int) int {
	switch {
	case x < 0:
		return -1
	case x > 0:
		return 1
	}
	return 0
}

// inGrid is set while the exhaustive grid runs the checks directly: there the result-ownership check
// (checkOwned) runs on every 16th encoding (gridTick). A case that goes through check() always has it.
var inGrid bool
var gridTick uint64

// ownSalt is set at the start of each check from the case's content (see encode).
var ownSalt uint64

func tailHash(b []byte) uint64 {
	return vk.Hash64(b[max(0, len(b)-16):]) + uint64(len(b))*0x9e3779b97f4a7c15
}

func encode(r Range) ([]byte, *vk.Failure) {
	if r.From < 0 || r.From > r.To || int(r.To) > 8*len(r.S) {
		vk.Infra(fmt.Sprintf("generator produced a range outside the stated domain: %+v", r))
		return nil, nil
	}
	var e []byte
	if f := vk.TryF(func() string { return fmt.Sprintf("bitstr.New(%s, %d, %d)", hexShort(r.S), r.From, r.To) }, func() { e = bitstr.New(string(r.S), r.From, r.To) }); f != nil {
		return nil, f
	}
	want := int32(len(bitsOf(r)))
	var l int32
	if f := vk.TryF(func() string {
		return fmt.Sprintf("bitstr.Len(New(%s, %d, %d)=%s)", hexShort(r.S), r.From, r.To, hexShort(e))
	}, func() { l = bitstr.Len(e) }); f != nil {
		return nil, f
	}
	if l != want {
		return nil, vk.Failf("len", "Len(New(%s, %d, %d) = %s) = %d, want %d", hexShort(r.S), r.From, r.To, hexShort(e), l, want)
	}
	if f := checkNewPlacement(r, e, want); f != nil {
		return nil, f
	}
	// sources longer than 2 KiB: on a quarter of the cases (a pure function of the case: ownSalt)
	owned := len(r.S) <= 2048 || vk.Mix(ownSalt+uint64(r.To))&3 == 0
	if inGrid {
		gridTick++
		owned = gridTick&15 == 0
	}
	if owned {
		src := string(r.S)
		if f := checkOwned(func() string { return fmt.Sprintf("New(%s, %d, %d)", hexShort(r.S), r.From, r.To) },
			func() []byte { return bitstr.New(src, r.From, r.To) }, e, want); f != nil {
			return nil, f
		}
	}
	return e, nil
}

// call contexts for StrCmpUpto (its unsafe string->slice cast reads a capacity word that the string header does not have)
var strCmpFn = bitstr.StrCmpUpto

//go:noinline
func viaClosure(a string, b []byte) int {
	f := func() int { return bitstr.StrCmpUpto(a, b) }
	return f()
}

func viaGoroutine(a string, b []byte) (r int, p any) {
	done := make(chan struct{})
	go func() {
		defer close(done)
		defer func() { p = recover() }()
		r = bitstr.StrCmpUpto(a, b)
	}()
	<-done
	return
}

var scratch vk.Scratch

var sinkByte byte

// dirtyStack leaves the byte v all over the stack area the next call will use:
// StrCmpUpto once took the capacity of its []byte view from such left-over memory.
//
//go:noinline
func dirtyStack(v byte) {
	var buf [1024]byte
	for i := range buf {
		buf[i] = v
	}
	sinkByte = buf[int(v)+17]
}

// viaDirtyStack calls StrCmpUpto from closures of two shapes right after the stack was overwritten with v.
func viaDirtyStack(ab []byte, as string, b []byte, v byte) (r1, r2 int, p any) {
	defer func() { p = recover() }()
	f1 := func() string { return fmt.Sprint(bitstr.CmpUpto(ab, b), bitstr.StrCmpUpto(as, b)) }
	f2 := func() int { return bitstr.StrCmpUpto(as, b) }
	dirtyStack(v)
	s := f1()
	dirtyStack(v)
	r2 = f2()
	var c int
	fmt.Sscan(s, &c, &r1)
	return
}

// For large inputs the call-context / aliasing variants run on a quarter of the cases (a pure function of the case).
func checkCmpUpto(a []byte, x Range) *vk.Failure {
	extras := len(a)+len(x.S) <= 2048 || (vk.Hash64(a)+uint64(x.To))&3 == 0
	return checkCmpUptoOpts(a, x, extras)
}

// extras: the call-context and aliasing variants (in the big grid they run on a sample of the cases).
func checkCmpUptoOpts(a []byte, x Range, extras bool) *vk.Failure {
	ownSalt = tailHash(a) ^ tailHash(x.S)*31
	e, f := encode(x)
	if f != nil || e == nil {
		return f
	}
	bb := bitsOf(x)
	ab := model.StrBits(string(a), 0, 8*len(a))
	if len(ab) > len(bb) {
		ab = ab[:len(bb)]
	}
	want := sign(model.CmpBits(ab, bb))
	ac := append([]byte(nil), a...)
	ec := append([]byte(nil), e...)
	reused := scratch.Reuse(vk.Hash64(a) + uint64(len(e)))
	if reused {
		ac = scratch.Bytes(a) // the plain key in a reused buffer with guarded spare capacity
	}
	var got int
	if f := vk.TryF(func() string { return fmt.Sprintf("CmpUpto(%s, %s)", hexShort(a), hexShort(e)) }, func() { got = bitstr.CmpUpto(ac, ec) }); f != nil {
		return f
	}
	if sign(got) != want || got < -1 || got > 1 {
		return vk.Failf("cmpupto", "CmpUpto(a=%s, b=New(%s,%d,%d)=%s) = %d, want %d", hexShort(a), hexShort(x.S), x.From, x.To, hexShort(e), got, want)
	}
	if string(ac) != string(a) || string(ec) != string(e) {
		return vk.Failf("cmpupto-mutates", "CmpUpto modified an argument")
	}
	if reused {
		if msg := scratch.Check(); msg != "" {
			return vk.Failf("argument-spare-capacity-written", "CmpUpto: %s", msg)
		}
	}
	// the same key and encoding handed over in other shapes (nil / empty, sub-slices and substrings of larger buffers)
	if f := checkKeyShapes(a, ec, want, x); f != nil {
		return f
	}
	if string(ec) != string(e) {
		return vk.Failf("cmpupto-mutates", "CmpUpto / StrCmpUpto modified the encoding")
	}
	if !extras {
		return nil
	}
	// a key that is a view into the encoding's own memory (its first n bytes) must compare like a copy of those bytes
	for _, n := range []int{0, 1, len(e) / 2, len(e) - 2, len(e) - 1} {
		if n < 0 || n > len(e) {
			continue
		}
		e2 := append([]byte(nil), e...)
		view := e2[:n]
		cp := append([]byte(nil), view...)
		vb := model.StrBits(string(cp), 0, 8*len(cp))
		if len(vb) > len(bb) {
			vb = vb[:len(bb)]
		}
		wantV := sign(model.CmpBits(vb, bb))
		var gv, gc int
		if f := vk.TryF(func() string { return fmt.Sprintf("CmpUpto(b[:%d], b) with b = %s", n, hexShort(e)) }, func() { gv, gc = bitstr.CmpUpto(view, e2), bitstr.CmpUpto(cp, e2) }); f != nil {
			return f
		}
		if gv != wantV || gc != wantV {
			return vk.Failf("cmpupto-aliased-key", "CmpUpto(b[:%d], b) = %d and CmpUpto(copy of b[:%d], b) = %d, want %d (b = New(%s,%d,%d) = %s)", n, gv, n, gc, wantV, hexShort(x.S), x.From, x.To, hexShort(e))
		}
	}
	// the string variant, from several call contexts
	as := string(a) // heap copy
	keep := string(append([]byte(nil), a...))
	var g1, g2, g3, g4 int
	if f := vk.TryF(func() string {
		return fmt.Sprintf("StrCmpUpto(%s, %s) [direct/func value/closure]", hexShort(a), hexShort(e))
	}, func() {
		g1 = bitstr.StrCmpUpto(as, ec)
		g2 = strCmpFn(as, ec)
		g3 = viaClosure(as, ec)
	}); f != nil {
		f.Kind = "strcmpupto-panic"
		return f
	}
	var p any
	g4, p = viaGoroutine(as, ec)
	if p != nil {
		return vk.Failf("strcmpupto-panic", "StrCmpUpto(%s, %s) panicked in a fresh goroutine: %v", hexShort(a), hexShort(e), p)
	}
	for _, v := range []byte{0x00, 0xff} {
		d1, d2, p := viaDirtyStack(ac, as, ec, v)
		if p != nil {
			return vk.Failf("strcmpupto-panic", "StrCmpUpto(%s, %s) panicked when called after the stack had been filled with %#x: %v", hexShort(a), hexShort(e), v, p)
		}
		if d1 != got || d2 != got {
			return vk.Failf("strcmpupto", "StrCmpUpto(%s, %s) = %d/%d after the stack had been filled with %#x, CmpUpto = %d", hexShort(a), hexShort(e), d1, d2, v, got)
		}
	}
	if g1 != got || g2 != got || g3 != got || g4 != got {
		return vk.Failf("strcmpupto", "StrCmpUpto(%s, %s) = %d/%d/%d/%d (direct/func value/closure/goroutine), CmpUpto = %d", hexShort(a), hexShort(e), g1, g2, g3, g4, got)
	}
	if as != keep {
		return vk.Failf("strcmpupto-mutates", "StrCmpUpto changed the bytes of its string argument")
	}
	return nil
}

func checkCmp(x, y Range) *vk.Failure {
	ownSalt = tailHash(x.S) ^ tailHash(y.S)*31 ^ uint64(x.To)<<32 ^ uint64(y.To)
	ex, f := encode(x)
	if f != nil || ex == nil {
		return f
	}
	ey, f := encode(y)
	if f != nil || ey == nil {
		return f
	}
	want := sign(model.CmpBits(bitsOf(x), bitsOf(y)))
	var g, r int
	if f := vk.TryF(func() string { return fmt.Sprintf("Cmp(%s, %s)", hexShort(ex), hexShort(ey)) }, func() {
		g = bitstr.Cmp(ex, ey)
		r = bitstr.Cmp(ey, ex)
	}); f != nil {
		return f
	}
	if g != want {
		return vk.Failf("cmp", "Cmp(New(%s,%d,%d)=%s, New(%s,%d,%d)=%s) = %d, want %d", hexShort(x.S), x.From, x.To, hexShort(ex), hexShort(y.S), y.From, y.To, hexShort(ey), g, want)
	}
	if r != -want {
		return vk.Failf("cmp-antisymmetry", "Cmp(y,x) = %d but Cmp(x,y) = %d", r, g)
	}
	return checkCmpShapes(ex, ey, want, x, y)
}

// checkMaxNew: New / Len on a source of 2^28 bytes (8*len = 2^31 fits no int32) or a few bytes less. The
// encoding is compared, through Cmp / Len / CmpUpto, with the encoding of a small private copy of the
// bytes the range touches (built from the description of the string), so no layout is assumed.
func checkMaxNew(from, to int32, cut int) *vk.Failure {
	if cut < 0 || cut > 64 || from < 0 || from > to || int64(to) > int64(8*(gen.MaxStrLen-cut)) {
		return nil
	}
	s := gen.MaxString(cut)
	lo, hi := int64(from)/8, (int64(to)+7)/8
	small := gen.MaxStrCopy(lo, hi)
	sf, st := from-int32(8*lo), int32(int64(to)-8*lo)
	what := fmt.Sprintf("New(source of 2^28-%d bytes, %d, %d)", cut, from, to)
	var e, e2 []byte
	var l, l2 int32
	var c1, c2, u1, u2 int
	if f := vk.Try(what, func() {
		e = bitstr.New(s, from, to)
		l = bitstr.Len(e)
	}); f != nil {
		return f
	}
	if f := vk.Try("the same range on a private copy of the bytes it touches", func() {
		e2 = bitstr.New(string(small), sf, st)
		l2 = bitstr.Len(e2)
		c1, c2 = bitstr.Cmp(e, e2), bitstr.Cmp(e2, e)
		u1, u2 = bitstr.CmpUpto(small, e), bitstr.StrCmpUpto(string(small)+"\xff", e)
	}); f != nil {
		return f
	}
	want := int32(int64(to) - 8*lo)
	if l != want || l2 != want {
		return vk.Failf("len", "Len(%s) = %d (on the small copy %d), want %d", what, l, l2, want)
	}
	if c1 != 0 || c2 != 0 {
		return vk.Failf("cmp", "%s = %s and New(copy of bytes [%d,%d), %d, %d) = %s compare as %d/%d, want 0: the same bit string", what, hexShort(e), lo, hi, sf, st, hexShort(e2), c1, c2)
	}
	if u1 != 0 || u2 != 0 {
		return vk.Failf("cmpupto", "CmpUpto/StrCmpUpto(the bytes of the range (+ff), %s = %s) = %d/%d, want 0", what, hexShort(e), u1, u2)
	}
	if len(e) <= 1<<16 {
		// the encoding belongs to the caller here too (the aligned empty range at the end of the maximum string is one of them)
		if f := checkOwned(func() string { return what }, func() []byte { return bitstr.New(s, from, to) }, e, want); f != nil {
			return f
		}
	}
	if j, bad := gen.MaxStringDamage(); bad {
		return vk.Failf("cmpupto-mutates", "byte %d of the 2^28-byte source was modified", j)
	}
	return nil
}

func check(c Case) *vk.Failure {
	if c.Op == "maxnew" {
		return checkMaxNew(c.X.From, c.X.To, c.Cut)
	}
	if c.Op == "cmp" {
		return checkCmp(c.X, *c.Y)
	}
	return checkCmpUpto(c.A, c.X)
}

func common(a, b []bool) int {
	n := 0
	for n < len(a) && n < len(b) && a[n] == b[n] {
		n++
	}
	return n
}

func classify(c Case) (bool, []string) {
	if c.Op == "maxnew" {
		return c.X.To > c.X.From, []string{"op:maxnew", "maximum-string(2^28 bytes)"}
	}
	labels := []string{"op:" + c.Op}
	if c.Class != "" {
		labels = append(labels, "class:"+c.Class)
	}
	xb := bitsOf(c.X)
	if len(xb) == 0 {
		labels = append(labels, "x:empty")
	}
	if c.X.To%8 != 0 {
		labels = append(labels, "x:unaligned-end")
	}
	if c.X.From%8 != 0 {
		labels = append(labels, "x:unaligned-from")
	}
	payload := (len(xb) + 7) / 8
	if payload >= 8 {
		labels = append(labels, "x:payload>=8")
	}
	labels = append(labels, "x:payload-bytes:"+octave(payload))
	if c.Op == "cmp" {
		yb := bitsOf(*c.Y)
		cm := common(xb, yb)
		py := (len(yb) + 7) / 8
		switch sign(model.CmpBits(xb, yb)) {
		case 0:
			labels = append(labels, "result:equal")
		default:
			if cm == min(len(xb), len(yb)) {
				labels = append(labels, "result:prefix")
			} else {
				labels = append(labels, "result:differ")
				if d := payload - py; (d >= 2 || d <= -2) && cm >= 16 {
					labels = append(labels, "cmp:byte-lengths-differ>=2,common>=2-bytes,then-differ")
				}
			}
		}
		return cm >= 1 && (c.X.To%8 != 0 || c.Y.To%8 != 0), labels
	}
	switch {
	case len(c.A) < payload:
		labels = append(labels, "a:shorter")
	case len(c.A) == payload:
		labels = append(labels, "a:equal-len")
	default:
		labels = append(labels, "a:longer")
	}
	if len(c.A) == 0 {
		labels = append(labels, "a:empty")
	}
	labels = append(labels, "a:bytes:"+octave(len(c.A)))
	// whole bytes a has in common with the start of b's bit string
	src := c.X.S[int(c.X.From)/8:]
	cb := 0
	for cb < len(c.A) && cb < len(xb)/8 && c.A[cb] == src[cb] {
		cb++
	}
	if len(c.A) < payload && cb >= 2 && cb < len(c.A) {
		labels = append(labels, "a:shorter,common>=2-bytes,then-differs")
	}
	return len(xb) > 0 && (len(c.A) >= payload-1 || cb >= 1), labels
}

// ---------------------------------------------------------------- generators

func genRange(t *rapid.T, s []byte, label string) Range {
	nbits := 8 * len(s)
	var from, to int
	switch gen.Uniform(t, 7, label+".class") {
	case 0: // aligned empty
		from = 8 * gen.Uniform(t, len(s)+1, label+".b")
		to = from
	case 1: // unaligned empty
		if nbits > 0 {
			from = gen.Uniform(t, nbits, label+".f")
			to = from
		}
	case 2: // aligned both
		a, b := gen.Uniform(t, len(s)+1, label+".a"), gen.Uniform(t, len(s)+1, label+".b")
		from, to = 8*min(a, b), 8*max(a, b)
	case 3: // from 0, any end
		to = gen.Uniform(t, nbits+1, label+".t")
	default:
		a, b := gen.Uniform(t, nbits+1, label+".a"), gen.Uniform(t, nbits+1, label+".b")
		from, to = min(a, b), max(a, b)
	}
	return Range{S: s, From: int32(from), To: int32(to)}
}

func flipBit(s []byte, k int) []byte {
	out := append([]byte(nil), s...)
	if k >= 0 && k < 8*len(out) {
		out[k/8] ^= 0x80 >> uint(k%8)
	}
	return out
}

// logUniform draws from [lo, hi] with a uniformly distributed magnitude (every octave equally likely).
func logUniform(t *rapid.T, lo, hi int, label string) int {
	if hi <= lo {
		return lo
	}
	u := float64(gen.U64(t, label)>>11) / float64(uint64(1)<<53)
	n := int(float64(lo) * math.Pow(float64(hi+1)/float64(lo), u))
	return max(lo, min(n, hi))
}

// genSource draws a source string: short ones (up to `small` bytes, most of the cases) byte by byte, longer ones
// with a log-uniform length - no hole between the small region and the largest length - and synthesized content.
func genSource(t *rapid.T, small int, label string) []byte {
	var n int
	switch k := gen.Uniform(t, 100, label+".size"); {
	case k < 76:
		return gen.Bytes(t, 0, small, label)
	case k < 92:
		n = logUniform(t, 8, 600, label+".n")
	case k < 98:
		n = logUniform(t, 256, vk.Pick(4200, 9000), label+".n")
	default:
		n = logUniform(t, 2048, vk.Pick(9000, 40000), label+".n")
	}
	if n <= 48 {
		return gen.BytesN(t, n, label)
	}
	return synth(n, gen.U64(t, label+".seed"), gen.Uniform(t, len(synthStyles), label+".style"))
}

// pickBit draws a bit position in [lo, hi) (hi > lo): anywhere, near hi, or near lo.
func pickBit(t *rapid.T, lo, hi int, label string) int {
	switch gen.Uniform(t, 4, label+".where") {
	case 0:
		return hi - 1 - gen.Uniform(t, min(hi-lo, 20), label+".e")
	case 1:
		return lo + gen.Uniform(t, min(hi-lo, 24), label+".b")
	}
	return lo + gen.Uniform(t, hi-lo, label)
}

func genCmp(t *rapid.T) Case {
	s := genSource(t, vk.Pick(20, 64), "s")
	x := genRange(t, s, "x")
	var y Range
	cl := ""
	switch gen.Uniform(t, 9, "rel") {
	case 6, 7:
		// the same start, ANY other end (byte lengths may differ by any amount), and one bit flipped inside the part
		// both have: the content order and the length order are independent of each other
		cl = "common-prefix-then-differ"
		lo := int(x.From) / 8 * 8
		t2 := lo + gen.Uniform(t, 8*len(s)-lo+1, "t2")
		if gen.Chance(t, 1, 3, "far") && 8*len(s)-lo >= 16 { // an end at least two bytes away from x's
			if t2 = int(x.To) + 16 + gen.Uniform(t, 64, "d+"); t2 > 8*len(s) || gen.Chance(t, 1, 2, "dir") {
				t2 = int(x.To) - 16 - gen.Uniform(t, 64, "d-")
			}
			t2 = max(lo, min(t2, 8*len(s)))
		}
		s2 := s
		if m := min(int(x.To), t2); m > lo {
			s2 = flipBit(s, pickBit(t, lo, m, "k"))
		}
		y = Range{S: s2, From: int32(lo + gen.Uniform(t, min(8, t2-lo+1), "f2")), To: int32(t2)}
	case 8:
		// a shared prefix of j bytes, then an unrelated tail of any length
		cl = "shared-prefix-other-tail"
		lo := int(x.From) / 8
		j := gen.Uniform(t, len(s)-lo+1, "j")
		s2 := append(append([]byte(nil), s[lo:lo+j]...), gen.Bytes(t, 0, vk.Pick(20, 64), "tail")...)
		y = genRange(t, s2, "y")
		if gen.Chance(t, 3, 4, "from0") {
			y.From = int32(gen.Uniform(t, min(8, int(y.To)+1), "f2")) // starts at the first byte like x does
		}
	case 0:
		cl = "same-source-other-end"
		lo := int(x.From) / 8 * 8
		y = Range{S: s, From: int32(lo), To: int32(lo + gen.Uniform(t, 8*len(s)-lo+1, "t2"))}
	case 1, 2:
		cl = "bit-flipped-near-end"
		lo := int(x.From) / 8 * 8
		k := int(x.To) + gen.Uniform(t, 7, "dk") - 4
		if gen.Chance(t, 1, 3, "any") && int(x.To) > lo {
			k = lo + gen.Uniform(t, int(x.To)-lo, "k")
		}
		s2 := flipBit(s, k)
		t2 := int(x.To) + gen.Uniform(t, 5, "dt") - 2
		t2 = max(int(x.From), min(t2, 8*len(s2))) // precondition: from <= to
		y = Range{S: s2, From: x.From, To: int32(t2)}
	case 3:
		cl = "shifted-source" // same bits taken from another byte offset
		pad := gen.Bytes(t, 0, 3, "pad")
		s2 := append(append([]byte(nil), pad...), s...)
		y = Range{S: s2, From: x.From + int32(8*len(pad)), To: x.To + int32(8*len(pad))}
	default:
		cl = "independent"
		y = genRange(t, genSource(t, vk.Pick(20, 64), "s2"), "y")
	}
	if gen.Chance(t, 1, 2, "swap") {
		x, y = y, x
	}
	return Case{Op: "cmp", X: x, Y: &y, Class: cl}
}

func genCmpUpto(t *rapid.T) Case {
	maxLen := vk.Pick(40, 64)
	s := genSource(t, maxLen, "s")
	x := genRange(t, s, "x")
	lo := int(x.From) / 8
	src := s[lo:] // bytes the encoded string starts from
	var a []byte
	cl := ""
	nb := int(x.To) - 8*lo // Len(b)
	payload := (nb + 7) / 8
	switch gen.Uniform(t, 12, "aclass") {
	case 8, 9:
		// a shares j bytes with b's source and then goes its own way (one byte changed up or down, the rest kept or
		// random); mostly SHORTER than the payload, so the short-key branch meets a difference behind a common prefix
		cl = "diverging"
		la := 0
		switch k := gen.Uniform(t, 10, "alen"); {
		case k < 6 && payload >= 2:
			la = 1 + gen.Uniform(t, payload-1, "la") // 1 .. payload-1
			if gen.Chance(t, 1, 3, "nearfull") {
				la = max(1, payload-1-gen.Uniform(t, min(payload-1, 9), "short"))
			}
		case k < 8:
			la = payload
		default:
			la = payload + 1 + gen.Uniform(t, 3, "more")
		}
		a = make([]byte, la)
		n := copy(a, src)
		copy(a[n:], gen.BytesN(t, la-n, "fill"))
		if la > 0 {
			j := la - 1 - gen.Uniform(t, min(la, 3), "jback")
			if gen.Chance(t, 1, 3, "anyj") {
				j = gen.Uniform(t, la, "j")
			}
			switch gen.Uniform(t, 7, "how") {
			case 0:
				a[j]++
			case 1:
				a[j]--
			case 2:
				a[j] ^= 0x80
			case 3:
				a[j] ^= 0x01
			case 4:
				a[j] = 0x00
			case 5:
				a[j] = 0xff
			default:
				a[j] = gen.Byte(t, "c")
			}
			if gen.Chance(t, 1, 4, "randtail") {
				copy(a[j+1:], gen.BytesN(t, la-j-1, "rt"))
			}
		}
	case 10:
		cl = "empty-key"
		a = []byte{}
	case 11:
		// a key that stops a few bytes before / at / after the payload's end, unchanged: prefix or equal
		cl = "truncated-near-end"
		la := max(0, min(len(src), payload+gen.Uniform(t, 12, "d")-9))
		a = append([]byte(nil), src[:la]...)
	case 0:
		cl = "truncated"
		a = append([]byte(nil), src[:gen.Uniform(t, len(src)+1, "k")]...)
	case 1:
		cl = "extended"
		a = append(append([]byte(nil), src...), gen.Bytes(t, 0, 4, "ext")...)
	case 2, 3:
		cl = "flip-near-len"
		k := nb + gen.Uniform(t, 9, "dk") - 5
		a = flipBit(src, k)
		a = a[:min(len(a), (nb+7)/8+gen.Uniform(t, 3, "keep"))]
	case 4:
		cl = "flip-in-masked-bits"
		a = append([]byte(nil), src...)
		if nb%8 != 0 && nb/8 < len(a) {
			a[nb/8] ^= byte(gen.U64(t, "junk")) & (0xff >> uint(nb%8))
		}
	case 5:
		cl = "flip-anywhere"
		a = append([]byte(nil), src...)
		if nb > 0 {
			a = flipBit(a, gen.Uniform(t, nb, "k"))
		}
	case 6:
		cl = "exact-payload"
		a = append([]byte(nil), src[:min(len(src), (nb+7)/8)]...)
	default:
		cl = "unrelated"
		a = genSource(t, maxLen, "a")
	}
	return Case{Op: "cmpupto", X: x, A: a, Class: cl}
}

func genCase(t *rapid.T) Case {
	if gen.Chance(t, 1, 2, "op") {
		return genCmp(t)
	}
	return genCmpUpto(t)
}

func TestRegress(t *testing.T) { checker.Regress(t) }

func TestProp(t *testing.T) { checker.Prop(t, genCase) }

func FuzzProp(f *testing.F) { checker.Fuzz(f, genCase) }

func TestGrid(t *testing.T) {
	vk.SetPhase("grid")
	alpha := []byte{0x00, 0x01, 0x7f, 0x80, 0xff}
	var strs [][]byte
	strs = append(strs, []byte{})
	for _, a := range alpha {
		strs = append(strs, []byte{a})
	}
	for _, a := range alpha {
		for _, b := range alpha {
			strs = append(strs, []byte{a, b})
		}
	}
	plain := append([][]byte(nil), strs...)
	for _, a := range alpha {
		for _, b := range alpha {
			for _, c := range alpha {
				plain = append(plain, []byte{a, b, c})
			}
		}
	}
	var rs []Range
	for _, s := range strs {
		for _, from := range []int{0, 3, 8, 11} {
			for to := from; to <= 8*len(s); to++ {
				rs = append(rs, Range{S: s, From: int32(from), To: int32(to)})
			}
		}
	}
	var evals, nontriv int64
	fail := func(c Case, f *vk.Failure) {
		inGrid = false
		if g := checker.Eval(c); g == nil {
			vk.Infra("grid failure not reproduced by the per-case check")
		}
		t.Fatalf("VERIF-FAIL property=C09 kind=%s: %s", f.Kind, f.Msg)
	}
	// The grid runs the checks directly. Every 256th pair goes through the checker instead (checker.Run: the
	// encodings that the pairs before it obtained from New and still hold are read again there - checker.Keep -, and
	// a failure is stored with the 16 pairs before it as history).
	var tick uint64
	viaChecker := func(c Case) bool {
		if tick&255 == 0 {
			inGrid = false
			checker.Run(t, c)
			inGrid = true
			return true
		}
		checker.Remember(c)
		return false
	}
	inGrid = true
	for i := range rs {
		xb := bitsOf(rs[i])
		for j := range rs {
			if tick++; tick&255 == 0 || tick&255 >= 240 {
				y := rs[j]
				if viaChecker(Case{Op: "cmp", X: rs[i], Y: &y, Class: "grid"}) {
					continue
				}
			}
			evals++
			if common(xb, bitsOf(rs[j])) >= 1 && (rs[i].To%8 != 0 || rs[j].To%8 != 0) {
				nontriv++
			}
			if f := checkCmp(rs[i], rs[j]); f != nil {
				y := rs[j]
				fail(Case{Op: "cmp", X: rs[i], Y: &y, Class: "grid"}, f)
			}
		}
		for _, a := range plain {
			if tick++; tick&255 == 0 || tick&255 >= 240 {
				if viaChecker(Case{Op: "cmpupto", X: rs[i], A: a, Class: "grid"}) {
					continue
				}
			}
			evals++
			if len(xb) > 0 && (len(a) >= (len(xb)+7)/8-1 || (len(a) > 0 && len(xb) >= 8 && a[0] == rs[i].S[rs[i].From/8])) {
				nontriv++
			}
			if f := checkCmpUptoOpts(a, rs[i], (i+len(a))%6 == 0); f != nil {
				fail(Case{Op: "cmpupto", X: rs[i], A: a, Class: "grid"}, f)
			}
		}
	}
	inGrid = false
	vk.CountConstructed(evals, nontriv, "grid")
	vk.AddSample(map[string]any{"grid": fmt.Sprintf("%d encodings: all pairs for Cmp, x %d plain strings for CmpUpto/StrCmpUpto", len(rs), len(plain)),
		"example": map[string]any{"x": "New(80ff, 3, 11)", "encoding": fmt.Sprintf("%x", bitstr.New("\x80\xff", 3, 11))}})
	vk.MarkExhaustive("all strings of length <= 2 over {00,01,7f,80,ff} x from in {0,3,8,11} x all to: all pairs (Cmp), all plain strings of length <= 3 (CmpUpto/StrCmpUpto)")
	sweep(t)
}

// sweepSizes: payload sizes in bytes without holes between the exhaustive region and the largest inputs, each with
// the level of the case set it gets: 2 full, 1 the cases around the end of the payload only, 0 a handful.
// Every octave has 2^k-1 .. 2^k+6 (all residues modulo 8) and two seed-dependent sizes.
func sweepSizes(seed uint64) (sizes []int, level map[int]int) {
	level = map[int]int{}
	add := func(n, lv int) {
		if _, ok := level[n]; n >= 1 && !ok {
			level[n] = lv
			sizes = append(sizes, n)
		}
	}
	for n := 1; n <= 24; n++ {
		add(n, 2)
	}
	top := vk.Pick(13, 17)
	for k := 4; k <= top; k++ {
		p := 1 << k
		for n := p - 1; n <= p+1; n++ {
			add(n, 2)
		}
		if k < top {
			for n := p + 2; n <= p+6; n++ {
				add(n, 1)
			}
			for i := 0; i < 2; i++ {
				add(p+7+int(vk.Mix(seed*7919+uint64(2*k+i))%uint64(p-8)), 1)
			}
		}
	}
	if top < 16 {
		for _, n := range []int{1<<15 - 1, 1 << 15, 1<<15 + 1, 1<<16 - 1, 1 << 16, 1<<16 + 1} {
			add(n, 0)
		}
	}
	return
}

func withByte(b []byte, i int, d int) []byte {
	out := append([]byte(nil), b...)
	out[i] += byte(d)
	return out
}

// sweepRange evaluates one encoded range with a payload of n bytes against its partners (see the Rule text).
func sweepRange(t *testing.T, n, ri int, seed uint64, level int) {
	full := level >= 2
	h := vk.Mix(seed*1000003 + uint64(n)*31 + uint64(ri))
	r := []int{0, 1, 4, 7}[(ri+int(h>>8&3))%4] // bits cut from the last payload byte
	pad := []int{0, 1, 3}[(h>>16)%3]
	if n > 256 && (h>>18)&3 == 0 {
		pad = []int{n / 2, n}[(h>>20)&1] // from then takes values of every magnitude (each octave up to 8n bits), not only < 30
	}
	f := []int{0, 5}[(h>>24)%2]
	var body []byte
	content := "random"
	switch (uint64(ri) + h>>40) % 4 {
	case 2:
		body, content = make([]byte, n+3), "all-00"
	case 3:
		body, content = bytes.Repeat([]byte{0xff}, n+3), "all-ff"
	default:
		body = synth(n+3, h, int(h>>32)%2)
	}
	body[n-1] = []byte{0x55, 0xaa, 0x6d, 0x92}[(h>>48)%4] // a mid-valued last payload byte: up, down and every bit flip change the order
	mk := func(pad int) []byte {
		return append(bytes.Repeat([]byte{0xa5}, pad), body...)
	}
	s := mk(pad)
	nb := 8*n - r
	if f > nb {
		f = 0 // precondition: from <= to
	}
	base := 8 * pad
	x := Range{S: s, From: int32(base + f), To: int32(base + nb)}
	cl := fmt.Sprintf("sweep:%s,cut%d", content, r)
	cmp := func(y Range, what string) {
		c := Case{Op: "cmp", X: x, Y: &y, Class: cl + ":" + what}
		if h>>3&1 == 1 {
			c.X, c.Y = y, &x
		}
		checker.Run(t, c)
	}
	upto := func(a []byte, what string) {
		checker.Run(t, Case{Op: "cmpupto", X: x, A: a, Class: cl + ":" + what})
	}
	flipped := func(k int) []byte { return flipBit(s, base+k) }

	// ---- Cmp
	cmp(Range{S: flipped(nb - 1), From: x.From, To: x.To}, "last-bit-flipped")
	if level >= 1 {
		// a difference in each of the 9 bytes before the last one (the tail of any word-at-a-time loop)
		for j := 1; j <= 9 && nb-1-8*j >= 0; j++ {
			cmp(Range{S: flipped(nb - 1 - 8*j), From: x.From, To: x.To}, "bit-flipped-in-the-last-10-bytes")
		}
		for _, d := range []int{1, 2, 9, n / 2} {
			if d < 1 || d >= n || (!full && d > 2) {
				continue
			}
			for _, up := range []int{0, 3} {
				t2 := nb - 8*d + up
				if t2 < f || t2 < 1 || (!full && up != 3*(n&1)) {
					continue
				}
				cmp(Range{S: s, From: x.From, To: int32(base + t2)}, "shorter-end:prefix")
				cmp(Range{S: flipped(t2 - 1), From: x.From, To: int32(base + t2)}, "shorter-end:last-common-bit-flipped")
				if t2 > 17 {
					cmp(Range{S: flipped(t2 - 17), From: x.From, To: int32(base + t2)}, "shorter-end:flipped-2-bytes-before")
				}
			}
		}
	}
	if full {
		p2 := (pad + 2) % 4
		cmp(Range{S: mk(p2), From: int32(8*p2 + f), To: int32(8*p2 + nb)}, "same-bits-other-placement")
		cmp(Range{S: flipped(nb), From: x.From, To: x.To}, "first-masked-bit-flipped")
		if k := 8 * ((n - 1) &^ 7); k < nb {
			cmp(Range{S: flipped(k), From: x.From, To: x.To}, "first-bit-of-last-word-flipped")
		}
		cmp(Range{S: flipped(int(h>>20) % nb), From: x.From, To: x.To}, "random-bit-flipped")
		cmp(Range{S: s, From: x.From, To: int32(base + 8*(n+2) - 3)}, "longer-end:prefix")
		cmp(Range{S: flipped(nb - 1), From: x.From, To: int32(base + 8*(n+2) - 3)}, "longer-end:last-common-bit-flipped")
	}

	// ---- CmpUpto / StrCmpUpto
	ks := []int{n - 1, n}
	if full {
		ks = []int{0, 1, 2, 3, 7, 8, 9, n / 2, n - 9, n - 8, n - 2, n - 1, n, n + 1, n + 3}
	}
	seen := map[int]bool{}
	for _, k := range ks {
		if k < 0 || k > n+3 || seen[k] {
			continue
		}
		seen[k] = true
		a := append([]byte(nil), body[:k]...)
		upto(a, "key-exact")
		if k > 0 {
			upto(withByte(a, k-1, 1), "key-last-byte+1")
			if full {
				upto(withByte(a, k-1, -1), "key-last-byte-1")
			}
		}
		if k >= n && level >= 1 {
			upto(flipBit(a, nb-1), "key-flip-at-len-1")
			if nb < 8*k {
				upto(flipBit(a, nb), "key-flip-at-len")
			}
		}
		// a difference in each of the 9 bytes before the key's / the payload's last one
		if level >= 1 && (k == n-1 || k == n) {
			for j := 1; j <= 9; j++ {
				if i := min(k, n) - 1 - j; i >= 0 {
					upto(withByte(a, i, 1-2*(j&1)), "key-differs-in-the-last-10-bytes")
				}
			}
		}
	}
}

func sweep(t *testing.T) {
	seed := vk.Seed()
	sizes, level := sweepSizes(seed)
	for _, n := range sizes {
		switch {
		case n <= 17 || (n <= 256 && level[n] == 2 && n > 24):
			for ri := 0; ri < 4; ri++ { // every cut of the last byte
				sweepRange(t, n, ri, seed, 2)
			}
		case n <= 256:
			sweepRange(t, n, n%4, seed, 2)
		default:
			// larger inputs: one range per size (cut, placement and content rotate with the size), under every GOMAXPROCS
			// setting when the process varies it
			vk.ProcsSweep(func() { sweepRange(t, n, n%4, seed, level[n]) })
		}
	}
	vk.AddSample(map[string]any{"sweep": fmt.Sprintf("payload sizes in bytes: %v", sizes)})
}

// TestLast runs at the very end of the process: huge inputs (the maximum bitmap / string) and the regression cases of that size come last, so that
// what they leave behind in the library cannot mask anything the ordinary cases would have met.
func TestLast(t *testing.T) {
	vk.SetPhase("last")
	// the maximum string as source: 2^28 bytes (8*len = 2^31 fits no int32), and a few bytes less
	for _, cut := range []int{0, 1, 3} {
		L8 := int64(8 * (gen.MaxStrLen - cut))
		for _, d := range []int64{0, 1, 7, 8, 9, 15, 16, 17, 40, 64, 100} {
			for _, w := range []int64{0, 1, 3, 7, 8, 9, 16, 21, 64} {
				from, to := L8-d-w, L8-d
				if to > math.MaxInt32 || from < 0 {
					continue
				}
				checker.Run(t, Case{Op: "maxnew", X: Range{From: int32(from), To: int32(to)}, Cut: cut, Class: "grid-maximum-string"})
			}
		}
		for _, r := range [][2]int64{{0, 0}, {0, 13}, {3, 80}, {8 * (gen.MaxStrLen / 2), 8*(gen.MaxStrLen/2) + 16}, {8*(gen.MaxStrLen/2) - 5, 8*(gen.MaxStrLen/2) + 11}} {
			checker.Run(t, Case{Op: "maxnew", X: Range{From: int32(r[0]), To: int32(r[1])}, Cut: cut, Class: "grid-maximum-string"})
		}
		// wide ranges (long encodings) at the end, at the start and across the middle of the maximum string
		widths := []int64{4081, 4096, 32767, 32768, 32769, 65535, 65536, 65537, 1<<19 + 3, 1 << 20, 1<<23 - 5}
		if vk.Thorough() && cut == 0 {
			widths = append(widths, 1<<24+1, 1<<28-3, 1<<28)
		}
		for i, w := range widths {
			d := []int64{1, 8, 0, 13, 64}[(i+cut)%5]
			to := min(L8-d, math.MaxInt32)
			checker.Run(t, Case{Op: "maxnew", X: Range{From: int32(to - w), To: int32(to)}, Cut: cut, Class: "grid-maximum-string-wide"})
			if cut == 0 {
				checker.Run(t, Case{Op: "maxnew", X: Range{From: int32(i % 8), To: int32(w - int64(i%3))}, Cut: cut, Class: "grid-maximum-string-wide"})
				mid := int64(8 * (gen.MaxStrLen / 2))
				checker.Run(t, Case{Op: "maxnew", X: Range{From: int32(mid - w/2), To: int32(mid + w/2 + 9)}, Cut: cut, Class: "grid-maximum-string-wide"})
			}
		}
	}
	if vk.Thorough() {
		// the whole maximum string: the longest encoding there is (2^28 + 1 bytes; 8*len does not fit an int32)
		checker.Run(t, Case{Op: "maxnew", X: Range{From: 0, To: math.MaxInt32}, Class: "grid-maximum-string-whole"})
		checker.Run(t, Case{Op: "maxnew", X: Range{From: 5, To: math.MaxInt32 - 7}, Class: "grid-maximum-string-whole"})
	}
	checker.RegressLast(t)
}

package c09

import (
	"bytes"
	"fmt"
	"strings"

	"github.com/openacid/low/bitstr"

	"verif/harness/model"
	"verif/harness/vk"
)

// ---------------------------------------------------------------- how an argument is handed over
//
// The statement speaks of values (strings, plain byte strings, encodings). The same value can reach the
// library in several shapes: nil or empty non-nil, an exact-size allocation, or a sub-slice / substring of
// a larger buffer that starts at an odd address, has foreign bytes in front of it and spare capacity with
// foreign bytes behind it (a key cut from a reused read buffer: buf[:0], buf[i:j]). The answer must not
// depend on the shape, and nothing outside the value may be written. []byte arguments are cut from buffers
// the harness uses again for the next case; string arguments are real strings (see oddStr).

const carveTail = 40 // bytes behind the value (spare capacity); more than any word/vector width used for loads
const carveSlots = 6

var carveMem [carveSlots][]byte

type tailBytes *[carveTail]byte

type carved struct {
	slot, off, n int
	pre          byte
	tail         tailBytes // the bytes put behind the value
}

// carve writes src into the reused buffer of the slot, off bytes from its start, with pre in front and tail
// behind it, and returns the value as a slice with the spare capacity.
func carve(slot int, src []byte, off int, pre byte, tail tailBytes) ([]byte, carved) {
	c := carved{slot: slot, off: off, n: len(src), pre: pre, tail: tail}
	need := off + len(src) + carveTail
	if cap(carveMem[slot]) < need {
		carveMem[slot] = make([]byte, 2*need+64)
	}
	buf := carveMem[slot][:need]
	for i := 0; i < off; i++ {
		buf[i] = pre
	}
	copy(buf[off:], src)
	copy(buf[off+len(src):], tail[:])
	return buf[off : off+len(src) : need], c
}

// oddStr is carve for a string argument: src as a substring, off bytes into a larger string, with pre in front
// and tail behind it. Strings are immutable, so this is a REAL string: a private copy that nobody writes afterwards
// (a library may remember a string by the address and length of its bytes). whole is the larger string.
func oddStr(src []byte, off int, pre byte, tail tailBytes) (sub, whole string) {
	// strings of up to two bytes (the exhaustive grid asks for the same few hundred over and over) are built once
	// and handed out again: the same immutable string, as a caller that looks up one key many times passes it
	var key uint32
	short := len(src) <= 2 && pre == 0xff && tail == tailBytes(tailFF)
	if short {
		key = uint32(off)<<24 | uint32(len(src))<<16
		for i, b := range src {
			key |= uint32(b) << (8 * uint(i))
		}
		if w, ok := oddShort[key]; ok {
			return w[off : off+len(src)], w
		}
	}
	var sb strings.Builder
	sb.Grow(off + len(src) + carveTail)
	for i := 0; i < off; i++ {
		sb.WriteByte(pre)
	}
	sb.Write(src)
	sb.Write(tail[:])
	whole = sb.String()
	if short {
		oddShort[key] = whole
	}
	return whole[off : off+len(src)], whole
}

var oddShort = map[uint32]string{}

// strDamage reports a byte of the larger string that no longer is what oddStr put there.
func strDamage(whole string, src []byte, off int, pre byte, tail tailBytes) string {
	for i := 0; i < off; i++ {
		if whole[i] != pre {
			return fmt.Sprintf("byte %d in front of the string argument was written", off-i)
		}
	}
	if whole[off:off+len(src)] != string(src) {
		return "the string argument's bytes were modified"
	}
	if whole[off+len(src):] != string(tail[:]) {
		return fmt.Sprintf("the bytes behind the string argument (length %d) were written", len(src))
	}
	return ""
}

// damage reports a byte in or around the value that no longer is what carve wrote.
func (c carved) damage(src []byte) string {
	buf := carveMem[c.slot]
	for i := 0; i < c.off; i++ {
		if buf[i] != c.pre {
			return fmt.Sprintf("byte %d in front of the argument was written", c.off-i)
		}
	}
	if !bytes.Equal(buf[c.off:c.off+c.n], src) {
		return "the argument's bytes were modified"
	}
	if !bytes.Equal(buf[c.off+c.n:c.off+c.n+carveTail], c.tail[:]) {
		return fmt.Sprintf("the spare capacity behind the argument (length %d) was written", c.n)
	}
	return ""
}

var tailFF, tail00 = new([carveTail]byte), new([carveTail]byte)
var tailCont [carveTail]byte

func init() {
	for i := range tailFF {
		tailFF[i] = 0xff
	}
}

func hexShort(b []byte) string {
	if len(b) <= 96 {
		return fmt.Sprintf("%x", b)
	}
	return fmt.Sprintf("%x..(%d bytes)..%x", b[:40], len(b), b[len(b)-40:])
}

// checkKeyShapes: CmpUpto / StrCmpUpto must give `want` for the key a in every shape. e is the encoding (exact copy).
func checkKeyShapes(a, e []byte, want int, x Range) *vk.Failure {
	h := vk.Hash64(a) ^ uint64(len(e))*0x9e3779b97f4a7c15
	// what b's payload holds behind the first len(a) bytes: a key whose spare capacity continues like b
	var cont tailBytes
	if len(a) < len(e)-1 {
		rest := e[len(a) : len(e)-1]
		for i := range tailCont {
			tailCont[i] = rest[i%len(rest)]
		}
		cont = &tailCont
	}
	for sh := 0; sh < 3; sh++ {
		off := int(vk.Mix(h+uint64(sh))%7) + 1
		pre, tail, name := byte(0xff), tailBytes(tailFF), "ff"
		switch sh {
		case 1:
			pre, tail, name = 0x00, tail00, "00"
		case 2:
			if cont == nil {
				continue
			}
			pre, tail, name = 0xa5, cont, "the bytes b continues with"
		}
		k, c := carve(sh, a, off, pre, tail)
		ks, whole := oddStr(a, off, pre, tail)
		var g, gs int
		if f := vk.TryF(func() string {
			return fmt.Sprintf("CmpUpto/StrCmpUpto(a, b) with a = %s cut out of a larger buffer (offset %d, spare capacity filled with %s), b = %s", hexShort(a), off, name, hexShort(e))
		}, func() {
			g = bitstr.CmpUpto(k, e)
			gs = bitstr.StrCmpUpto(ks, e)
		}); f != nil {
			return f
		}
		if g != want || gs != want {
			return vk.Failf("cmpupto-key-shape", "CmpUpto / StrCmpUpto(a=%s, b=New(%s,%d,%d)=%s) = %d / %d, want %d, when a is a sub-slice (len %d, cap %d) / substring at offset %d of a larger buffer whose bytes behind a are %s",
				hexShort(a), hexShort(x.S), x.From, x.To, hexShort(e), g, gs, want, len(k), cap(k), off, name)
		}
		if msg := c.damage(a); msg != "" {
			return vk.Failf("argument-spare-capacity-written", "CmpUpto/StrCmpUpto(a=%s, b=%s): %s", hexShort(a), hexShort(e), msg)
		}
		if msg := strDamage(whole, a, off, pre, tail); msg != "" {
			return vk.Failf("argument-spare-capacity-written", "StrCmpUpto(a=%s, b=%s): %s", hexShort(a), hexShort(e), msg)
		}
	}
	if len(a) == 0 {
		var g1, g2, g3, g4 int
		if f := vk.TryF(func() string { return fmt.Sprintf("CmpUpto(nil / empty, %s)", hexShort(e)) }, func() {
			g1 = bitstr.CmpUpto(nil, e)
			g2 = bitstr.CmpUpto([]byte{}, e)
			g3 = bitstr.CmpUpto(e[:0:0], e)
			g4 = bitstr.StrCmpUpto("", e)
		}); f != nil {
			return f
		}
		if g1 != want || g2 != want || g3 != want || g4 != want {
			return vk.Failf("cmpupto-key-shape", "CmpUpto(nil, b) = %d, CmpUpto([]byte{}, b) = %d, CmpUpto(b[:0:0], b) = %d, StrCmpUpto(\"\", b) = %d, want %d (b = New(%s,%d,%d) = %s)",
				g1, g2, g3, g4, want, hexShort(x.S), x.From, x.To, hexShort(e))
		}
	}
	// the encoding itself inside a larger buffer
	off := int(vk.Mix(h+7)%7) + 1
	eb, ce := carve(3, e, off, 0xff, tailFF)
	var g int
	if f := vk.TryF(func() string {
		return fmt.Sprintf("CmpUpto(%s, b) with b = %s inside a larger buffer", hexShort(a), hexShort(e))
	}, func() {
		g = bitstr.CmpUpto(a, eb)
	}); f != nil {
		return f
	}
	if g != want {
		return vk.Failf("cmpupto-key-shape", "CmpUpto(a=%s, b=New(%s,%d,%d)=%s) = %d, want %d, when b is a sub-slice at offset %d of a larger buffer", hexShort(a), hexShort(x.S), x.From, x.To, hexShort(e), g, want, off)
	}
	if msg := ce.damage(e); msg != "" {
		return vk.Failf("argument-spare-capacity-written", "CmpUpto(a=%s, b=%s), b: %s", hexShort(a), hexShort(e), msg)
	}
	return nil
}

// checkCmpShapes: Cmp on the two encodings as sub-slices of larger buffers (odd addresses, ff in front and behind).
func checkCmpShapes(ex, ey []byte, want int, x, y Range) *vk.Failure {
	h := vk.Hash64(ex) ^ uint64(len(ey))*0x9e3779b97f4a7c15
	ox, oy := int(vk.Mix(h)%7)+1, int(vk.Mix(h+1)%7)+1
	cx, kx := carve(4, ex, ox, 0xff, tailFF)
	cy, ky := carve(5, ey, oy, 0xff, tailFF)
	var g, r int
	if f := vk.TryF(func() string {
		return fmt.Sprintf("Cmp(%s, %s) on sub-slices of larger buffers", hexShort(ex), hexShort(ey))
	}, func() {
		g = bitstr.Cmp(cx, cy)
		r = bitstr.Cmp(cy, cx)
	}); f != nil {
		return f
	}
	if g != want || r != -want {
		return vk.Failf("cmp-operand-shape", "Cmp(New(%s,%d,%d)=%s, New(%s,%d,%d)=%s) = %d and %d the other way round, want %d and %d, when the encodings are sub-slices (offsets %d, %d) of larger buffers",
			hexShort(x.S), x.From, x.To, hexShort(ex), hexShort(y.S), y.From, y.To, hexShort(ey), g, r, want, -want, ox, oy)
	}
	if msg := kx.damage(ex); msg != "" {
		return vk.Failf("argument-spare-capacity-written", "Cmp, first operand: %s", msg)
	}
	if msg := ky.damage(ey); msg != "" {
		return vk.Failf("argument-spare-capacity-written", "Cmp, second operand: %s", msg)
	}
	return nil
}

// checkNewPlacement: New on the same string value placed as a substring (odd address, ff before and after) of a
// larger string must encode the same bit string: same Len, and Cmp = 0 against the encoding e of the plain copy.
func checkNewPlacement(r Range, e []byte, wantLen int32) *vk.Failure {
	off := int(vk.Mix(vk.Hash64(r.S)+uint64(r.From)*131+uint64(r.To))%7) + 1
	sub, whole := oddStr(r.S, off, 0xff, tailFF)
	var e2 []byte
	var l int32
	var c1, c2 int
	if f := vk.TryF(func() string {
		return fmt.Sprintf("bitstr.New(%s, %d, %d) with the string being a substring (offset %d) of a larger one", hexShort(r.S), r.From, r.To, off)
	}, func() {
		e2 = bitstr.New(sub, r.From, r.To)
		l = bitstr.Len(e2)
		c1, c2 = bitstr.Cmp(e, e2), bitstr.Cmp(e2, e)
	}); f != nil {
		return f
	}
	if l != wantLen || c1 != 0 || c2 != 0 {
		return vk.Failf("new-string-placement", "New(%s, %d, %d) = %s for a fresh copy of the string but %s (Len %d, want %d; Cmp %d/%d, want 0) when the string is a substring at offset %d of a larger string with ff around it",
			hexShort(r.S), r.From, r.To, hexShort(e), hexShort(e2), l, wantLen, c1, c2, off)
	}
	if msg := strDamage(whole, r.S, off, 0xff, tailFF); msg != "" {
		return vk.Failf("new-mutates", "New(%s, %d, %d): %s", hexShort(r.S), r.From, r.To, msg)
	}
	return nil
}

// ---------------------------------------------------------------- an encoding belongs to its caller
//
// "New(s,from,to) encodes the bit string", for every call: what a call returned is the caller's. A caller builds
// the next label in place (e[0] = ..., append(e[:0], ...)) or keeps the encoding in its trie while it goes on
// calling New. checkOwned takes the encoding e that New just returned (want = its length in bits), obtains a second
// one from an identical call (again), uses the second one the way a caller reuses a buffer - every byte and all
// spare capacity overwritten -, and calls New a third time: the first result must still read as it did, the
// third must encode the same bit string (Len, Cmp = 0 both ways against a private copy of the first). The first
// result then stays under watch (checker.Keep): it is read again after each of the next few cases.
var keepResult func(func() string) // checker.Keep (set in init: the checker refers to the checks)

func init() { keepResult = checker.Keep }

func checkOwned(what func() string, again func() []byte, e []byte, want int32) *vk.Failure {
	snap := append([]byte(nil), e...)
	var e1, e2 []byte
	var l1, l2, l0 int32
	var c1, c2, c3, c4 int
	if f := vk.TryF(func() string { return what() + ", called a second time" }, func() {
		e1 = again()
		l1 = bitstr.Len(e1)
		c1, c2 = bitstr.Cmp(e, e1), bitstr.Cmp(e1, e)
	}); f != nil {
		return f
	}
	if l1 != want || c1 != 0 || c2 != 0 {
		return vk.Failf("new-repeated", "%s = %s, the same call again = %s: Len %d, want %d; Cmp of the two %d/%d, want 0", what(), hexShort(snap), hexShort(e1), l1, want, c1, c2)
	}
	// (the second result is NOT overwritten: that two equal calls may hand out the same never-written encoding - a
	// shared constant for the empty bit string, say - is not excluded by the statement; what is checked is that the
	// LIBRARY does not change an encoding it handed out when it is called again)
	undo := func() {}
	if !bytes.Equal(e, snap) {
		defer undo()
		return vk.Failf("new-result-shared", "%s returned %s; the caller then overwrote the encoding that a second, identical call had returned (every byte complemented, spare capacity filled) and the first one now reads %s: two results of New share memory", what(), hexShort(snap), hexShort(e))
	}
	if f := vk.TryF(func() string { return what() + ", called a third time" }, func() {
		e2 = again()
		l2, l0 = bitstr.Len(e2), bitstr.Len(e)
		c3, c4 = bitstr.Cmp(e2, snap), bitstr.Cmp(snap, e2)
	}); f != nil {
		return f
	}
	if l2 != want || c3 != 0 || c4 != 0 {
		defer undo()
		return vk.Failf("new-result-shared", "%s = %s (Len %d, want %d; Cmp with the encoding returned at first, %s: %d/%d, want 0) after the caller overwrote the encoding an earlier, identical call had returned: New hands out memory it uses again", what(), hexShort(e2), l2, want, hexShort(snap), c3, c4)
	}
	if l0 != want || !bytes.Equal(e, snap) {
		defer undo()
		return vk.Failf("new-result-shared", "%s returned %s, which reads %s (Len %d, want %d) after two more identical calls", what(), hexShort(snap), hexShort(e), l0, want)
	}
	if len(e) <= 1<<16 {
		kept := e
		keepResult(func() string {
			if !bytes.Equal(kept, snap) {
				return fmt.Sprintf("%s returned %s, which now reads %s", what(), hexShort(snap), hexShort(kept))
			}
			return ""
		})
	}
	return nil
}

// ---------------------------------------------------------------- oracle memo
//
// bitsOf is asked for the same (s, from, to) several times per case (Len, the comparison, the class labels) and
// the sweep compares one encoding with many partners; the bits of the last few ranges are kept. A hit requires
// the very same bytes (compared in full), so the memo cannot change an answer. Callers never modify the result.

type bitsMemo struct {
	s        []byte
	from, to int32
	bits     []bool
}

var memo [4]bitsMemo
var memoPos int

func bitsOf(r Range) []bool {
	if len(r.S) < 16 {
		return model.StrBits(string(r.S), int(r.From)/8*8, int(r.To))
	}
	for i := range memo {
		m := &memo[i]
		if m.bits != nil && m.from == r.From && m.to == r.To && bytes.Equal(m.s, r.S) {
			return m.bits
		}
	}
	b := model.StrBits(string(r.S), int(r.From)/8*8, int(r.To))
	memo[memoPos] = bitsMemo{s: append([]byte(nil), r.S...), from: r.From, to: r.To, bits: b}
	memoPos = (memoPos + 1) % len(memo)
	return b
}

// ---------------------------------------------------------------- synthesized sources
//
// Sources longer than a few dozen bytes are not drawn byte by byte: their content is a pure function of
// (n, seed, style); the case stores the resulting bytes.

var synthStyles = []string{"random", "random-boosted", "constant", "tiny-alphabet", "zeros-then-tail", "ff-then-tail"}

func synth(n int, seed uint64, style int) []byte {
	b := make([]byte, n)
	z := seed
	next := func() uint64 { z += 0x9e3779b97f4a7c15; return vk.Mix(z) }
	palette := []byte{0x00, 0x01, 0x7f, 0x80, 0xff, 0x00, 0xff, 'a'}
	switch style % len(synthStyles) {
	case 0:
		for i := range b {
			b[i] = byte(next() >> 56)
		}
	case 1:
		for i := range b {
			w := next()
			if w%10 < 4 {
				b[i] = palette[(w>>8)%uint64(len(palette))]
			} else {
				b[i] = byte(w >> 56)
			}
		}
	case 2:
		c := palette[next()%uint64(len(palette))]
		if next()&1 == 0 {
			c = byte(next() >> 56)
		}
		for i := range b {
			b[i] = c
		}
	case 3:
		alpha := []byte{0x00, 0xff, 'a', 'b'}
		for i := range b {
			b[i] = alpha[next()>>62]
		}
	default:
		fill := byte(0x00)
		if style%len(synthStyles) == 5 {
			fill = 0xff
		}
		for i := range b {
			b[i] = fill
		}
		t := int(next()%12) + 1
		for i := max(0, n-t); i < n; i++ {
			b[i] = byte(next() >> 56)
		}
	}
	return b
}

// octave labels a size: 0, 1, 2, 3-4, 5-8, 9-16, ... (so that the evidence shows every octave was met)
func octave(n int) string {
	if n <= 2 {
		return fmt.Sprintf("%d", n)
	}
	lo := 2
	for 2*lo < n {
		lo *= 2
	}
	return fmt.Sprintf("%d-%d", lo+1, 2*lo)
}

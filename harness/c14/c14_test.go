// Package c14 decides property C14: Join / Getw pack fixed-width words
// losslessly; Slice copies a bit range.
package c14

import (
	"fmt"
	"runtime"
	"sort"
	"testing"
	"unsafe"

	"github.com/openacid/low/bitmap"
	"pgregory.net/rapid"

	"verif/harness/gen"
	"verif/harness/vk"
)

var keepResult func(func() string)

func init() { keepResult = checker.Keep }

func TestMain(m *testing.M) { vk.Main(m, "C14") }

type Case struct {
	Op     string       `json:"op"`            // join | getw | slice | maxslice | maxgetw | maxjoin | bigjoin | bigslice
	Max    int          `json:"max,omitempty"` // maxslice/maxgetw/maxjoin: description of the maximum bitmap (exactly 2^25 words = 2^31 bits, gen.UseMax) / of the maximum value list
	W      int32        `json:"w,omitempty"`
	Values vk.Words     `json:"values,omitempty"`
	List   *ListSpec    `json:"list,omitempty"` // join: the value list, described (long lists, element-wise mixes); used when Values is absent
	Words  vk.Words     `json:"words,omitempty"`
	Big    *gen.BigSpec `json:"big,omitempty"` // slice: the bitmap, described (long bitmaps); used when Words is absent
	From   int32        `json:"from,omitempty"`
	To     int32        `json:"to,omitempty"`
	Class  string       `json:"class,omitempty"`
	N      int          `json:"n,omitempty"`      // bigjoin: the number of values; value i is bigVal(Key, i, W)
	Key    vk.U64       `json:"key,omitempty"`    // bigjoin
	Sparse *SparseBM    `json:"sparse,omitempty"` // bigslice: the bitmap
}

// SparseBM describes a bitmap of N words (1 <= N <= 2^25) compactly: word Idx[k] is W[k], every other word is 0. It is
// realised on the process-wide 2^25-word array (gen.UseMaxCustom) cut to N words; indexes >= N are foreign words
// BEHIND the end of the bitmap (inside the capacity of the slice), not part of it.
type SparseBM struct {
	N   int      `json:"n"`
	Idx []int32  `json:"idx"` // strictly ascending
	W   vk.Words `json:"w"`
}

func (s *SparseBM) valid() bool {
	if s == nil || s.N < 1 || s.N > gen.MaxWords || len(s.Idx) != len(s.W) {
		return false
	}
	for k, x := range s.Idx {
		if x < 0 || int(x) >= gen.MaxWords || (k > 0 && x <= s.Idx[k-1]) {
			return false
		}
	}
	return true
}

// ListSpec describes a value list for Join compactly; Expand is a pure function of it and the width.
// Every value is "low bits that fit the width" plus - for the elements the pattern selects - bits above the width.
type ListSpec struct {
	N    int    `json:"n"`
	Key  vk.U64 `json:"key"`
	Low  int    `json:"low"`  // the w low bits: 0 random, 1 all ones, 2 zero, 3 the index
	High int    `json:"high"` // what a selected element carries above the width: 0 random bits, 1 all ones, 2 only bit w, 3 only bit 63, 4 one random bit
	Mod  int    `json:"mod"`  // selected: Mod > 0: indexes i with bit i%Mod of Mask set; Mod == 0: only index Mask
	Mask vk.U64 `json:"mask"`
	// runs of values that are entirely zero (no low bits, no high bits): value i is zero when ZPer > 0 and (i+ZOff) % ZPer < ZRun.
	// A loop that skips aligned blocks of empty values (16, 24, 32 ... at a time) meets blocks that end on a word boundary with
	// non-empty values before them.
	ZPer int `json:"zper,omitempty"`
	ZRun int `json:"zrun,omitempty"`
	ZOff int `json:"zoff,omitempty"`
}

func (s ListSpec) wide(i int) bool {
	if s.Mod <= 0 {
		return uint64(i) == uint64(s.Mask)
	}
	return uint64(s.Mask)>>(uint(i%s.Mod)&63)&1 == 1
}

// Expand builds the list (splitmix64 in counter mode over the drawn key: no independent random source).
func (s ListSpec) Expand(w int32) []uint64 {
	if s.N <= 0 || w < 1 || w > 64 {
		return []uint64{}
	}
	vals := make([]uint64, s.N)
	for i := range vals {
		r := vk.Mix(uint64(s.Key) + uint64(i)*0x9e3779b97f4a7c15)
		var lo uint64
		switch s.Low {
		case 0:
			lo = r
		case 1:
			lo = ^uint64(0)
		case 2:
		default:
			lo = uint64(i)
		}
		lo = low(lo, w)
		if w < 64 && s.wide(i) {
			var hi uint64
			switch s.High {
			case 0:
				hi = vk.Mix(r ^ 0x5bd1e995)
			case 1:
				hi = ^uint64(0)
			case 2:
				hi = 1 << uint(w)
			case 3:
				hi = 1 << 63
			default:
				hi = 1 << (uint(w) + uint(vk.Mix(r^0xabcd)%uint64(64-w)))
			}
			hi &^= uint64(1)<<uint(w) - 1
			if hi == 0 {
				hi = 1 << 63
			}
			lo |= hi
		}
		if s.ZPer > 0 && (i+s.ZOff)%s.ZPer < s.ZRun {
			lo = 0
		}
		vals[i] = lo
	}
	return vals
}

// one-entry memo of the last expansions (pure functions of the key: classify and check both need them)
var lastList struct {
	ok   bool
	spec ListSpec
	w    int32
	vals []uint64
}

var lastBig struct {
	ok    bool
	spec  gen.BigSpec
	words []uint64
}

func (c Case) values() []uint64 {
	if c.Values != nil || c.List == nil {
		return c.Values
	}
	if !lastList.ok || lastList.spec != *c.List || lastList.w != c.W {
		lastList.ok, lastList.spec, lastList.w, lastList.vals = true, *c.List, c.W, c.List.Expand(c.W)
	}
	return lastList.vals
}

func (c Case) words() []uint64 {
	if c.Words != nil || c.Big == nil {
		return c.Words
	}
	if c.Big.N < 0 || c.Big.N > 1<<22 {
		return nil
	}
	if !lastBig.ok || lastBig.spec != *c.Big {
		lastBig.ok, lastBig.spec, lastBig.words = true, *c.Big, c.Big.Expand()
	}
	return lastBig.words
}

var widths = []int32{1, 2, 4, 8, 16, 32, 64}

var checker = &vk.Checker[Case]{
	ID: "C14",
	Rule: "Join: width in {1,2,4,8,16,32,64} x value lists whose values carry bits above the width (random, all-ones, 1<<w) of length 0..200, and described lists of length 0..20000 (thorough 120000; half of them <= 40, the others uniform over the octaves) in which only SOME values carry bits above the width (one value, one residue of the index mod 2/3/4/5/8/16/64, random residue sets, all, none); result checked bit by bit, length ceil(len*w/64), Getw at every index; Getw alone on arbitrary bitmaps at every index (the bitmap Getw was given must read as before afterwards); " +
		"Slice on bitmaps <= 12 words (thorough <= 100) and on described bitmaps of up to 8192 words (thorough 32768) x ranges 0<=from<=to<=64*len (aligned, unaligned, empty, multi-word, lengths from every octave, ending at the end of the bitmap): length ceil((to-from)/64), bit j = input bit from+j, remaining bits 0, input unchanged. " +
		"Grid: Slice on 12 bitmaps of <= 3 words x all (from,to); Join/Getw all widths x lengths 0..20 x 3 value styles; Join widths < 64 x lengths 0..24,31..33,63..65 x bits above the width at one index residue mod 2/3/4/8 or in one value; Join list lengths and Slice range lengths 2^k-1, 2^k, 2^k+1 and two more per octave (lists 2^5..2^16 and 65535..100001 values, ranges 2^9..2^20 bits at 5 start alignments each). " +
		"LONG INPUTS (last in the process): Join lists of 2^k-1, 2^k, 2^k+1 and one odd pseudo-random length per octave from 2^17 to 2^25 values, value i a cheap pure function of (key, i, w) with bits above the width at indexes 0, 2, 3 mod 4 and runs of 32 zero values " +
		"(quick: every width below 2^19 values, then 3, 2, 1 widths per length rotating with the seed and 2..3 lengths per octave from 2^22 on, 2^25-1 and 2^25 values thorough only); checked: length, Getw at the first, the last 130 and 512 sampled indexes, every result word for lists <= 2^20 values (thorough: all lists), " +
		"otherwise the first and last 4 words, the words where the list or the result would be cut into 2..64 equal parts and 3000 sampled words; the list must read as before (sampled likewise). " +
		"Slice ranges of 2^21 bits and more on sparsely described bitmaps (non-zero words around both ends of the range, behind the end of the bitmap, at cut points and at random places inside; oracle from the description): per octave the lengths with length mod 64 in {63,0,1,31,32,33} " +
		"(2^k-1, 2^k, 2^k+1 or pseudo-random in the octave), starts 0/1/17/31/32/33/62/63 or random bits into a word, in the first words or anywhere on a 2^25-word array, ending 0, 1, 2 or many words before the end of the bitmap; " +
		"quick: all six residues for 2^21..2^23 bits, three / two / one of them (rotating with the seed) for 2^24 / 2^25 / 2^26, thorough: all six up to 2^30 bits at two starts. " +
		"The process that varies GOMAXPROCS leaves the last phase out and evaluates in its grid lists of 2^17+3 .. 2^21+5 values and ranges of 2^21 and 2^22 bits under every setting, lists up to 2^24+1 values and ranges up to 2^25 bits under one setting each (thorough: all under every setting). " +
		"Arguments reach the library as an exact-size copy, a reused buffer with guarded spare capacity, or a window inside a larger buffer of non-zero words; empty arguments also as nil. " +
		"Also the MAXIMUM bitmap - exactly 2^25 words = 2^31 bits, the largest one int32 positions address (three sparse descriptions, oracle from the description): Slice of short ranges ending at the top and around every set word and of one range longer than 2^31-64 bits (start 0, 1, 7, 31 or 62, length mod 64 one of 63, 62, 33, 32, 31, 1 by the seed; thorough: three), Getw at the last indexes of every width; Join of 2^25 64-bit values (that bitmap) and of 2^26 sparse 32-bit values (thorough also 2^27 x 16, 2^28 x 8): 2^31 result bits. " +
		"A result may share memory with the argument (not forbidden), not with the library: results are re-read after later calls. Non-trivial: Join with w>=4, >=2 values and a value with bits above w (long lists: w>=4); long Slice ranges with unaligned from; Slice with unaligned from spanning >= 2 input words; Getw with w>=4 on a bitmap with both 0 and 1 bits; every maximum-size case. Distinct by hash of the case.",
	Check:    check,
	Classify: classify,
}

func bit(w []uint64, i int) uint64 { return w[i/64] >> (uint(i) % 64) & 1 }

func low(v uint64, w int32) uint64 {
	if w == 64 {
		return v
	}
	return v & (uint64(1)<<uint(w) - 1)
}

// How the argument list / bitmap reaches the library (the statement speaks of values; code may - wrongly - depend on
// the shape): a fresh exact-size copy, a reused buffer with guarded spare capacity (vk.Scratch), or a window carved
// out of a larger buffer that has foreign non-zero words before and after it. The choice is a function of a checksum
// of the case. An EMPTY argument is handed over in every shape, nil included.
const (
	shapeAuto = iota
	shapeNil
	shapeEmpty
)

var shapeNames = []string{"", " (nil argument)", " (empty non-nil argument)"}

// carve returns a copy of keep that sits off..off+len inside a larger buffer of non-zero words, and a guard
// that reports a write outside the window.
func carve(keep []uint64, h uint64) ([]uint64, func() string) {
	off := int(h>>8)%3 + 1
	buf := make([]uint64, off+len(keep)+3)
	for i := range buf {
		buf[i] = 0xF0E1D2C3B4A59687 ^ uint64(i)*0x0101010101010101
	}
	copy(buf[off:], keep)
	return buf[off : off+len(keep)], func() string {
		for i := range buf {
			if (i < off || i >= off+len(keep)) && buf[i] != 0xF0E1D2C3B4A59687^uint64(i)*0x0101010101010101 {
				return fmt.Sprintf("the memory around a []uint64 argument was written: word %d relative to its start (length %d) is now %#x", i-off, len(keep), buf[i])
			}
		}
		return ""
	}
}

// argument builds the slice handed to the library.
func argument(keep []uint64, sum uint64, shape int) (arg []uint64, reused bool, guard func() string) {
	switch {
	case shape == shapeNil:
		vk.Label("argument:nil", 1)
		return nil, false, nil
	case shape == shapeEmpty:
		vk.Label("argument:empty-non-nil", 1)
		return []uint64{}, false, nil
	case scratch.Reuse(sum):
		vk.Label("argument:reused-buffer", 1)
		return scratch.U64(keep), true, nil // a reused buffer with guarded spare capacity
	case len(keep) > 0 && vk.Mix(sum^0xca57ed)&3 == 0:
		vk.Label("argument:window-in-larger-buffer", 1)
		arg, guard = carve(keep, vk.Mix(sum^0xca57ed))
		return arg, false, guard
	}
	vk.Label("argument:exact-size-copy", 1)
	return append(make([]uint64, 0, len(keep)), keep...), false, nil // a private exact-size copy
}

func checkJoin(keep []uint64, w int32) *vk.Failure {
	if len(keep) == 0 {
		for _, shape := range []int{shapeNil, shapeEmpty} {
			if f := checkJoinShaped(keep, w, shape); f != nil {
				return f
			}
		}
	}
	return checkJoinShaped(keep, w, shapeAuto)
}

func checkJoinShaped(keep []uint64, w int32, shape int) (f *vk.Failure) {
	values, reused, guard := argument(keep, vk.SumU64(keep)+uint64(w), shape)
	defer func() {
		f = spare(f, reused)
		if f == nil && guard != nil {
			if msg := guard(); msg != "" {
				f = vk.Failf("argument-surroundings-written", "Join(%d values, w=%d): %s", len(keep), w, msg)
			}
		}
	}()
	what := shapeNames[shape]
	var r []uint64
	if f := vk.Try(fmt.Sprintf("Join(%d values, w=%d)%s", len(values), w, what), func() { r = bitmap.Join(values, w) }); f != nil {
		return f
	}
	total := len(keep) * int(w)
	if len(r) != (total+63)/64 {
		return vk.Failf("join-len", "Join(%d values, w=%d)%s has %d words, want %d", len(keep), w, what, len(r), (total+63)/64)
	}
	// bit by bit: bit q of the result is bit q%w of value q/w (a running position instead of a division per bit)
	q := 0
	for i, v := range keep {
		for k := uint(0); k < uint(w); k++ {
			if got, want := r[q>>6]>>(uint(q)&63)&1, v>>k&1; got != want {
				return vk.Failf("join-bit", "Join(values=%s, w=%d): bit %d (bit %d of value %d = %#x) = %d, want %d", showWords(keep), w, q, k, i, v, got, want)
			}
			q++
		}
	}
	for ; q < 64*len(r); q++ {
		if bit(r, q) != 0 {
			return vk.Failf("join-bit", "Join(values=%s, w=%d): bit %d (beyond the %d bits of the values) = 1, want 0", showWords(keep), w, q, total)
		}
	}
	expect := append([]uint64(nil), r...) // (verified bit by bit above)
	for i := range keep {
		var g uint64
		if f := vk.TryF(func() string { return fmt.Sprintf("Getw(Join(%d values, w=%d), i=%d, w=%d)", len(keep), w, i, w) }, func() { g = bitmap.Getw(r, int32(i), w) }); f != nil {
			return f
		}
		if g != low(keep[i], w) {
			return vk.Failf("join-getw", "Getw(Join(values=%s,w=%d), %d, %d) = %#x, want %#x", showWords(keep), w, i, w, g, low(keep[i], w))
		}
	}
	for i := range expect { // Getw reads: the bitmap it was given must read as before
		if r[i] != expect[i] {
			return vk.Failf("getw-mutates", "Getw(Join(values=%s,w=%d), i, %d) for i = 0..%d changed word %d of the bitmap from %#x to %#x", showWords(keep), w, w, len(keep)-1, i, expect[i], r[i])
		}
	}
	for i := range keep {
		if keep[i] != values[i] {
			return vk.Failf("join-mutates", "Join modified values[%d]", i)
		}
	}
	// A result that shares memory with the ARGUMENT (Join with w = 64 handing back its list) is not forbidden by
	// the statement: it stays right as long as the caller leaves its own list alone. A result that shares memory
	// with the LIBRARY (a pooled or cached buffer) is not: it changes when the library is called again. So the
	// result is watched after later calls - unless it overlaps an argument buffer that this check itself is
	// about to reuse - and only spare capacity that is not the argument's is overwritten.
	shared := overlaps(r, values)
	if shared && reused {
		return nil
	}
	if !shared {
		vk.ScribbleU64(r)
	}
	keepResult(func() string {
		for i := range expect {
			if r[i] != expect[i] {
				return fmt.Sprintf("Join(%d values, w=%d): word %d was %#x, now %#x", len(keep), w, i, expect[i], r[i])
			}
		}
		return ""
	})
	return nil
}

// showWords prints a short list in full and a long one abbreviated (the case file has the complete input).
func showWords(w []uint64) string {
	if len(w) <= 64 {
		return fmt.Sprintf("%#x", w)
	}
	return fmt.Sprintf("[%d words: %#x ... %#x]", len(w), w[:8], w[len(w)-4:])
}

// overlaps reports whether the backing arrays (up to capacity) of two slices share memory.
func overlaps(a, b []uint64) bool {
	if cap(a) == 0 || cap(b) == 0 {
		return false
	}
	a, b = a[:cap(a)], b[:cap(b)]
	pa, pb := uintptr(unsafe.Pointer(&a[0])), uintptr(unsafe.Pointer(&b[0]))
	return pa < pb+8*uintptr(len(b)) && pb < pa+8*uintptr(len(a))
}

func checkGetw(keep []uint64, w int32) *vk.Failure {
	words := append(make([]uint64, 0, len(keep)), keep...)
	n := 64 * len(words) / int(w)
	for i := 0; i < n; i++ {
		want := uint64(0)
		for k := 0; k < int(w); k++ {
			want |= bit(keep, i*int(w)+k) << uint(k)
		}
		var g uint64
		if f := vk.TryF(func() string { return fmt.Sprintf("Getw(bm of %d words, i=%d, w=%d)", len(words), i, w) }, func() { g = bitmap.Getw(words, int32(i), w) }); f != nil {
			return f
		}
		if g != want {
			return vk.Failf("getw", "Getw(bm=%s, i=%d, w=%d) = %#x, want %#x", showWords(keep), i, w, g, want)
		}
	}
	for i := range keep { // Getw reads: the bitmap it was given must read as before
		if words[i] != keep[i] {
			return vk.Failf("getw-mutates", "Getw(bm=%s, i, %d) for i = 0..%d changed word %d of the bitmap to %#x", showWords(keep), w, n-1, i, words[i])
		}
	}
	return nil
}

var scratch vk.Scratch

func spare(f *vk.Failure, reused bool) *vk.Failure {
	if f == nil && reused {
		if msg := scratch.Check(); msg != "" {
			return vk.Failf("argument-spare-capacity-written", "%s", msg)
		}
	}
	return f
}

func checkSlice(keep []uint64, from, to int32) *vk.Failure {
	if from < 0 || from > to || int64(to) > 64*int64(len(keep)) {
		return nil // outside the quantifier (a hand-edited case file)
	}
	if len(keep) == 0 {
		for _, shape := range []int{shapeNil, shapeEmpty} {
			if f := checkSliceShaped(keep, from, to, shape); f != nil {
				return f
			}
		}
	}
	return checkSliceShaped(keep, from, to, shapeAuto)
}

func checkSliceShaped(keep []uint64, from, to int32, shape int) (f *vk.Failure) {
	words, reused, guard := argument(keep, vk.SumU64(keep)+uint64(from)*3+uint64(to), shape)
	defer func() {
		f = spare(f, reused)
		if f == nil && guard != nil {
			if msg := guard(); msg != "" {
				f = vk.Failf("argument-surroundings-written", "Slice(bm of %d words, %d, %d): %s", len(keep), from, to, msg)
			}
		}
	}()
	what := shapeNames[shape]
	var r []uint64
	if f := vk.Try(fmt.Sprintf("Slice(%d words, %d, %d)%s", len(words), from, to, what), func() { r = bitmap.Slice(words, from, to) }); f != nil {
		return f
	}
	n := int(to - from)
	if len(r) != (n+63)/64 {
		return vk.Failf("slice-len", "Slice(bm of %d words, %d, %d)%s has %d words, want %d", len(keep), from, to, what, len(r), (n+63)/64)
	}
	for j := 0; j < 64*len(r); j++ {
		want := uint64(0)
		if j < n {
			want = bit(keep, int(from)+j)
		}
		if bit(r, j) != want {
			return vk.Failf("slice-bit", "Slice(bm=%s, %d, %d): bit %d = %d, want %d", showWords(keep), from, to, j, bit(r, j), want)
		}
	}
	for i := range keep {
		if keep[i] != words[i] {
			return vk.Failf("slice-mutates", "Slice modified input word %d", i)
		}
	}
	// (sharing memory with the argument - a zero-copy view of whole aligned words - is not forbidden by the
	// statement, sharing it with the library is: see checkJoin)
	shared := overlaps(r, words)
	if shared && reused {
		return nil
	}
	expect := append([]uint64(nil), r...)
	if !shared {
		vk.ScribbleU64(r)
	}
	keepResult(func() string {
		for i := range expect {
			if r[i] != expect[i] {
				return fmt.Sprintf("Slice(bm, %d, %d): word %d was %#x, now %#x", from, to, i, expect[i], r[i])
			}
		}
		return ""
	})
	return nil
}

// checkMaxSlice: Slice on the largest bitmap whose positions fit an int32 (sparse oracle from its description).
func checkMaxSlice(v int, from, to int32) *vk.Failure {
	if v < 0 || v >= gen.MaxVariants || from < 0 || from > to {
		return nil
	}
	words := gen.UseMax(v)
	var r []uint64
	if int64(to)-int64(from) > 1<<28 {
		defer func() { r = nil; runtime.GC() }() // a result of many MiB is released before the next huge case allocates
	}
	if f := vk.Try(fmt.Sprintf("Slice(2^25 words (description %d), %d, %d)", v, from, to), func() { r = bitmap.Slice(words, from, to) }); f != nil {
		return f
	}
	n, set := gen.MaxSlice(int64(from), int64(to))
	if int64(len(r)) != n {
		return vk.Failf("slice-len", "Slice(2^25-word bitmap (description %d), %d, %d) has %d words, want %d", v, from, to, len(r), n)
	}
	if len(set) == 0 { // (a map lookup per word is too slow for the 2^25-word results)
		for j, x := range r {
			if x != 0 {
				return vk.Failf("slice-bit", "Slice(2^25-word bitmap (description %d), %d, %d): word %d = %#x, want 0", v, from, to, j, x)
			}
		}
	}
	seen := 0
	for j, x := range r {
		if x == 0 {
			continue
		}
		if x != set[int64(j)] {
			return vk.Failf("slice-bit", "Slice(2^25-word bitmap (description %d), %d, %d): word %d = %#x, want %#x", v, from, to, j, x, set[int64(j)])
		}
		seen++
	}
	if seen != len(set) {
		for j, x := range set {
			if r[j] != x {
				return vk.Failf("slice-bit", "Slice(2^25-word bitmap (description %d), %d, %d): word %d = %#x, want %#x", v, from, to, j, r[j], x)
			}
		}
	}
	if k, bad := gen.MaxBitmapDamage(); bad {
		return vk.Failf("slice-mutates", "Slice modified word %d of the 2^25-word bitmap", k)
	}
	// (the result is not written to: a zero-copy view of the shared array would be legitimate, see checkJoin)
	return nil
}

// checkMaxGetw: Getw at the top of the largest bitmap, every width.
func checkMaxGetw(v int, w int32) *vk.Failure {
	if v < 0 || v >= gen.MaxVariants || w < 1 || w > 64 || 64%w != 0 {
		return nil
	}
	words := gen.UseMax(v)
	n := (gen.MaxTop + 1) / int64(w)
	is := []int64{0, 1, n - 1, n - 2, n - 3, n - 64/int64(w), n - 64/int64(w) - 1, n / 2, n/2 - 1}
	for _, p := range gen.MaxProbes() {
		is = append(is, p/int64(w))
	}
	for _, i := range is {
		if i < 0 || i >= n {
			continue
		}
		want := uint64(0)
		for k := int64(0); k < int64(w); k++ {
			want |= gen.MaxBit(i*int64(w)+k) << uint(k)
		}
		var g uint64
		if f := vk.Try(fmt.Sprintf("Getw(2^25 words, i=%d, w=%d)", i, w), func() { g = bitmap.Getw(words, int32(i), w) }); f != nil {
			return f
		}
		if g != want {
			return vk.Failf("getw", "Getw(2^25-word bitmap (description %d), i=%d, w=%d) = %#x, want %#x", v, i, w, g, want)
		}
	}
	if k, bad := gen.MaxBitmapDamage(); bad {
		return vk.Failf("getw-mutates", "Getw modified word %d of the 2^25-word bitmap", k)
	}
	return nil
}

// ---- Join of the longest lists whose result Getw can still address: 2^31/w values, 2^31 result bits.
//
// w = 64: the values are the maximum bitmap itself (description v), the result must equal it.
// w < 64: a shared, almost untouched array of 2^31/w values holds the few non-zero values of maxJoinDesc.

// maxJoinDesc lists the non-zero values (index -> value) of description v for width w < 64.
//
//	0: values that fit and values with bits above the width, mixed, at the first, the middle and the last indexes
//	1: bits above the width only at indexes 3 mod 4; the last three values are 0
//	2: every value fits; the very last value is all ones (bit 2^31-1 of the result is set)
func maxJoinDesc(v int, w int32) map[int64]uint64 {
	n := int64(1) << 31 / int64(w)
	fit := func(x uint64) uint64 { return low(x, w) }
	above := func(x uint64) uint64 { return x &^ (uint64(1)<<uint(w) - 1) }
	ones := ^uint64(0)
	switch v {
	case 0:
		return map[int64]uint64{
			0: fit(0x9d5c0fb1e3a64827) | above(0x6a09e667f3bcc908), 1: fit(ones), 2: above(ones), 5: 1,
			n/2 - 1: fit(0xbb67ae8584caa73b) | 1, n / 2: ones, n/2 + 1: above(1<<uint(w)) | fit(2),
			n - 3: above(1<<uint(w)) | 1, n - 2: fit(ones), n - 1: fit(0x3c6ef372fe94f82b)&^(1<<uint(w-1)) | above(1<<63),
		}
	case 1:
		return map[int64]uint64{
			0: fit(ones), 3: 1<<uint(w) | 1, 7: ones, 8: fit(0x5555555555555555),
			n / 2: 1, n/2 + 3: above(ones), n - 5: ones, n - 4: fit(ones),
		}
	}
	return map[int64]uint64{1: fit(0xa54ff53a5f1d36f1), 2: 1, n / 2: fit(ones), n - 2: 1, n - 1: fit(ones)}
}

var maxVals []uint64 // shared input of the w < 64 cases; all zero between two cases

func maxValues(n int64) []uint64 {
	if int64(len(maxVals)) < n {
		maxVals = nil
		maxVals = make([]uint64, n) // fresh pages: untouched until written
	}
	return maxVals[:n:n]
}

func checkMaxJoin(v int, w int32) (f *vk.Failure) {
	if v < 0 || v >= gen.MaxVariants || w < 8 || w > 64 || 64%w != 0 {
		return nil // (w < 8 would need lists of 4 GiB and more)
	}
	n := int64(1) << 31 / int64(w)
	var r []uint64
	defer func() { r = nil; runtime.GC() }() // the 256 MiB result is released before the next huge case allocates
	var values []uint64
	var desc map[int64]uint64
	if w == 64 {
		values = gen.UseMax(v)
		desc = map[int64]uint64{}
		for _, k := range gen.MaxSetWords() {
			desc[int64(k)] = gen.MaxWord(k)
		}
	} else {
		values = maxValues(n)
		desc = maxJoinDesc(v, w)
		for i, x := range desc {
			values[i] = x
		}
		defer func() {
			for i, x := range desc {
				if values[i] != x && f == nil {
					f = vk.Failf("join-mutates", "Join modified values[%d] of the list of %d values", i, n)
				}
				values[i] = 0
			}
			for i := int64(7); i < n && f == nil; i += 1<<16 + 1 {
				if _, set := desc[i]; !set && values[i] != 0 {
					f = vk.Failf("join-mutates", "Join modified values[%d] of the list of %d values", i, n)
				}
			}
		}()
	}
	if f := vk.Try(fmt.Sprintf("Join(%d values (description %d), w=%d)", n, v, w), func() { r = bitmap.Join(values, w) }); f != nil {
		return f
	}
	if len(r) != gen.MaxWords {
		return vk.Failf("join-len", "Join(%d values (description %d), w=%d) has %d words, want %d", n, v, w, len(r), gen.MaxWords)
	}
	want := map[int64]uint64{}
	for i, x := range desc {
		for k := int64(0); k < int64(w); k++ {
			if x>>uint(k)&1 == 1 {
				q := i*int64(w) + k
				want[q>>6] |= 1 << uint(q&63)
			}
		}
	}
	seen := 0
	for j, x := range r {
		if x == 0 {
			continue
		}
		if x != want[int64(j)] {
			return vk.Failf("join-bit", "Join(%d values (description %d), w=%d): word %d = %#x, want %#x", n, v, w, j, x, want[int64(j)])
		}
		seen++
	}
	if seen != len(want) {
		for j, x := range want {
			if r[j] != x {
				return vk.Failf("join-bit", "Join(%d values (description %d), w=%d): word %d = %#x, want %#x", n, v, w, j, r[j], x)
			}
		}
	}
	for i := range desc {
		for _, d := range []int64{-1, 0, 1} {
			if j := i + d; j >= 0 && j < n {
				var g uint64
				if f := vk.Try(fmt.Sprintf("Getw(Join(%d values, w=%d), i=%d, w=%d)", n, w, j, w), func() { g = bitmap.Getw(r, int32(j), w) }); f != nil {
					return f
				}
				if g != low(desc[j], w) {
					return vk.Failf("join-getw", "Getw(Join(%d values (description %d), w=%d), %d, %d) = %#x, want %#x", n, v, w, j, w, g, low(desc[j], w))
				}
			}
		}
	}
	if w == 64 {
		if k, bad := gen.MaxBitmapDamage(); bad {
			return vk.Failf("join-mutates", "Join modified word %d of the 2^25-word list", k)
		}
	}
	// (the result is not written to: handing back the list itself for w = 64 would be legitimate, see checkJoin)
	return nil
}

// ---- Join of long lists (100002 .. 2^25 values), checked sparsely.
//
// The list is described by (N, Key, W): value i is bigVal(Key, i, W), a cheap pure function, so that a list of millions
// of values costs nothing to write down and an expected result word is computed from 64/W values on demand. The list
// lives in a buffer of its own that is filled again for every case.

// bigVal: pseudo-random low bits; whether a value carries bits above the width goes by its index modulo 4 (0: random
// bits above, 1: none - the value fits, 2: only bit w, 3: bit 63 and random ones); every eighth run of 32 values is all zero.
func bigVal(key uint64, i int, w int32) uint64 {
	x := (uint64(i) + key) * 0x9e3779b97f4a7c15
	x ^= x >> 29
	m := &bigMasks[w&127][i&3]
	x = x&m[0] | m[1]
	if i>>5&7 == 6 {
		x = 0
	}
	return x
}

// bigMasks[w][i&3] = {and, or}: what bigVal keeps of / adds to the pseudo-random word for width w.
var bigMasks = func() (t [128][4][2]uint64) {
	for w := 1; w <= 64; w++ {
		fit := ^uint64(0)
		if w < 64 {
			fit = 1<<uint(w) - 1
		}
		t[w] = [4][2]uint64{{^uint64(0), 0}, {fit, 0}, {fit, (fit + 1)}, {^uint64(0), 1 << 63}}
	}
	return
}()

var bigVals []uint64

func bigList(n int) []uint64 {
	if cap(bigVals) < n {
		c := 1 << 18
		for c < n {
			c <<= 1
		}
		bigVals = nil
		bigVals = make([]uint64, c)
	}
	return bigVals[:n:n]
}

// chunkings: into how many equal parts an implementation may cut a long input (the GOMAXPROCS settings of the process
// that varies them, and the small numbers): the words at those cuts are always among the sampled ones.
var chunkings = []int{2, 3, 4, 5, 6, 7, 8, 12, 16, 17, 24, 32, 33, 64}

const bigJoinFull = 1 << 20 // lists up to this length (thorough: all lists) have every result word checked

func checkBigJoin(n int, w int32, key uint64) *vk.Failure {
	if n < 1 || n > gen.MaxWords || int64(n)*int64(w) > 1<<31 {
		return nil
	}
	values := bigList(n)
	for i := range values {
		values[i] = bigVal(key, i, w)
	}
	var r []uint64
	if n >= 1<<23 {
		defer func() { r = nil; runtime.GC() }() // a result of many MiB is released before the next huge case allocates
	}
	if f := vk.Try(fmt.Sprintf("Join(%d values (described, key %#x), w=%d)", n, key, w), func() { r = bitmap.Join(values, w) }); f != nil {
		return f
	}
	total := n * int(w)
	nw := (total + 63) / 64
	if len(r) != nw {
		return vk.Failf("join-len", "Join(%d values (described, key %#x), w=%d) has %d words, want %d", n, key, w, len(r), nw)
	}
	full := n <= bigJoinFull || vk.Thorough()
	// Getw: the first values, the last 130 (the last two result words and more, whatever the width), a sample in between
	probeV := func(i int) *vk.Failure {
		if i < 0 || i >= n {
			return nil
		}
		var g uint64
		if f := vk.TryF(func() string { return fmt.Sprintf("Getw(Join(%d values, w=%d), i=%d, w=%d)", n, w, i, w) }, func() { g = bitmap.Getw(r, int32(i), w) }); f != nil {
			return f
		}
		if want := low(bigVal(key, i, w), w); g != want {
			return vk.Failf("join-getw", "Getw(Join(%d values (described, key %#x), w=%d), %d, %d) = %#x, want %#x (value %d is %#x)", n, key, w, i, w, g, want, i, bigVal(key, i, w))
		}
		return nil
	}
	for i := 0; i < 4; i++ {
		if f := probeV(i); f != nil {
			return f
		}
	}
	for i := n - 130; i < n; i++ {
		if f := probeV(i); f != nil {
			return f
		}
	}
	for k := 0; k < 512; k++ {
		if f := probeV(int(vk.Mix(key^uint64(k)*0x2545f4914f6cdd1d) % uint64(n))); f != nil {
			return f
		}
	}
	// result words against the description (bits beyond the last value must be 0)
	per := 64 / int(w)
	probeW := func(j int) *vk.Failure {
		if j < 0 || j >= nw {
			return nil
		}
		var want uint64
		for t, i := 0, j*per; t < per && i < n; t, i = t+1, i+1 {
			want |= low(bigVal(key, i, w), w) << uint(t*int(w))
		}
		if r[j] != want {
			return vk.Failf("join-bit", "Join(%d values (described, key %#x), w=%d): word %d of %d = %#x, want %#x (values %d..%d)", n, key, w, j, nw, r[j], want, j*per, min(j*per+per, n)-1)
		}
		return nil
	}
	if full {
		for j := 0; j < nw; j++ {
			if f := probeW(j); f != nil {
				return f
			}
		}
	} else {
		for j := 0; j < 4; j++ {
			if f := probeW(j); f != nil {
				return f
			}
			if f := probeW(nw - 1 - j); f != nil {
				return f
			}
		}
		for _, p := range chunkings { // where the list / the result would be cut into p parts
			for c := 1; c < p; c++ {
				for _, j := range []int{c * (n / p) * int(w) >> 6, c * ((n + p - 1) / p) * int(w) >> 6, c * (nw / p), c * ((nw + p - 1) / p)} {
					for d := -1; d <= 1; d++ {
						if f := probeW(j + d); f != nil {
							return f
						}
					}
				}
			}
		}
		for k := 0; k < 3000; k++ {
			if f := probeW(int(vk.Mix(key+uint64(k)*0x9e3779b97f4a7c15) % uint64(nw))); f != nil {
				return f
			}
		}
	}
	// the list must read as before (every value when all of the result was checked, else the ends and every 61st value)
	stride := 61
	if full {
		stride = 1
	}
	for i := 0; i < n; i++ {
		if values[i] != bigVal(key, i, w) {
			return vk.Failf("join-mutates", "Join modified values[%d] of the list of %d values (w=%d): %#x, was %#x", i, n, w, values[i], bigVal(key, i, w))
		}
		if i >= 256 && i < n-256-stride {
			i += stride - 1
		}
	}
	// (the result is neither written to nor kept under watch: up to 256 MiB; lists of ordinary length are, see checkJoin)
	return nil
}

// ---- Slice of long ranges (2^21 bits and more) of sparsely described bitmaps on the shared 2^25-word array.

func checkBigSlice(s *SparseBM, from, to int32) *vk.Failure {
	if !s.valid() || from < 0 || from > to || int64(to) > 64*int64(s.N) {
		return nil
	}
	set := make(map[int]uint64, len(s.Idx))
	for k, x := range s.Idx {
		if s.W[k] != 0 {
			set[int(x)] = s.W[k]
		}
	}
	words := gen.UseMaxCustom(set)[:s.N]
	n := int64(to) - int64(from)
	var r []uint64
	if n > 1<<28 {
		defer func() { r = nil; runtime.GC() }() // a result of many MiB is released before the next huge case allocates
	}
	if f := vk.Try(fmt.Sprintf("Slice(%d words (sparse description), %d, %d)", s.N, from, to), func() { r = bitmap.Slice(words, from, to) }); f != nil {
		return f
	}
	if int64(len(r)) != (n+63)/64 {
		return vk.Failf("slice-len", "Slice(%d-word bitmap (sparse description), %d, %d) has %d words, want %d", s.N, from, to, len(r), (n+63)/64)
	}
	want := map[int]uint64{} // the expected result, from the description alone
	for k, x := range s.Idx {
		if int(x) >= s.N {
			continue
		}
		for b := 0; b < 64; b++ {
			if p := int64(x)*64 + int64(b); s.W[k]>>uint(b)&1 == 1 && p >= int64(from) && p < int64(to) {
				j := p - int64(from)
				want[int(j>>6)] |= 1 << uint(j&63)
			}
		}
	}
	seen := 0
	for j, x := range r {
		if x == 0 {
			continue
		}
		if x != want[j] {
			return vk.Failf("slice-bit", "Slice(%d-word bitmap (sparse description), %d, %d): word %d of %d = %#x, want %#x", s.N, from, to, j, len(r), x, want[j])
		}
		seen++
	}
	if seen != len(want) {
		js := make([]int, 0, len(want))
		for j := range want {
			js = append(js, j)
		}
		sort.Ints(js)
		for _, j := range js {
			if r[j] != want[j] {
				return vk.Failf("slice-bit", "Slice(%d-word bitmap (sparse description), %d, %d): word %d of %d = %#x, want %#x", s.N, from, to, j, len(r), r[j], want[j])
			}
		}
	}
	if k, bad := gen.MaxBitmapDamage(); bad {
		return vk.Failf("slice-mutates", "Slice modified word %d of the %d-word bitmap (or of the array behind it)", k, s.N)
	}
	// (the result is not written to: a zero-copy view of the shared array would be legitimate, see checkJoin)
	return nil
}

func check(c Case) *vk.Failure {
	switch c.Op {
	case "bigjoin":
		if c.W < 1 || c.W > 64 || 64%c.W != 0 {
			return nil
		}
		return checkBigJoin(c.N, c.W, uint64(c.Key))
	case "bigslice":
		return checkBigSlice(c.Sparse, c.From, c.To)
	case "maxslice":
		return checkMaxSlice(c.Max, c.From, c.To)
	case "maxgetw":
		return checkMaxGetw(c.Max, c.W)
	case "maxjoin":
		return checkMaxJoin(c.Max, c.W)
	case "join":
		if c.W < 1 || c.W > 64 || 64%c.W != 0 {
			return nil
		}
		return checkJoin(c.values(), c.W)
	case "getw":
		if c.W < 1 || c.W > 64 || 64%c.W != 0 {
			return nil
		}
		return checkGetw(c.Words, c.W)
	}
	return checkSlice(c.words(), c.From, c.To)
}

func octave(n int) string {
	k := 0
	for n>>uint(k+1) > 0 {
		k++
	}
	return fmt.Sprintf("2^%d..", k)
}

func classify(c Case) (bool, []string) {
	labels := []string{"op:" + c.Op}
	switch c.Op {
	case "maxslice", "maxgetw":
		return true, append(labels, "maximum-bitmap(2^25 words)")
	case "maxjoin":
		return true, append(labels, "maximum-list(2^31 result bits)")
	case "bigjoin":
		if c.N < 1 || c.W < 1 {
			return false, append(labels, "invalid")
		}
		// (values at indexes 0, 2 and 3 modulo 4 carry bits above the width when w < 64)
		return c.W >= 4, append(labels, fmt.Sprintf("w:%d", c.W), "bits-above-width", "bits-above-width:some-values-only", "join-len:"+octave(c.N))
	case "bigslice":
		if !c.Sparse.valid() || c.From > c.To {
			return false, append(labels, "invalid")
		}
	case "join":
		labels = append(labels, fmt.Sprintf("w:%d", c.W))
		vals := c.values()
		nAbove, only3 := 0, true
		for i, v := range vals {
			if low(v, c.W) != v {
				nAbove++
				only3 = only3 && i%4 == 3
			}
		}
		above := nAbove > 0
		switch {
		case above && nAbove == len(vals):
			labels = append(labels, "bits-above-width", "bits-above-width:every-value")
		case above:
			labels = append(labels, "bits-above-width", "bits-above-width:some-values-only")
			if only3 {
				labels = append(labels, "bits-above-width:only-at-indexes-3-mod-4")
			}
		}
		if len(vals) > 20 {
			labels = append(labels, "join-len:"+octave(len(vals)))
		}
		return c.W >= 4 && len(vals) >= 2 && (above || c.W == 64), labels
	case "getw":
		labels = append(labels, fmt.Sprintf("w:%d", c.W))
		has0, has1 := false, false
		for _, x := range c.Words {
			has0 = has0 || x != ^uint64(0)
			has1 = has1 || x != 0
		}
		return c.W >= 4 && has0 && has1, labels
	}
	n := c.To - c.From
	if n > 768 {
		labels = append(labels, "range-len:"+octave(int(n)))
	}
	switch {
	case n == 0:
		labels = append(labels, "range:empty")
	case c.From%64 == 0 && c.To%64 == 0:
		labels = append(labels, "range:aligned")
	default:
		labels = append(labels, "range:unaligned")
	}
	multi := n > 0 && (c.To-1)/64 != c.From/64
	if multi {
		labels = append(labels, "range:multiword")
	}
	return c.From%64 != 0 && multi, labels
}

// genLen draws a length without holes between the small region and max: half of the draws are <= 40, the others pick
// an octave [2^k, 2^(k+1)) uniformly and a length uniformly inside it.
func genLen(t *rapid.T, max int, label string) int {
	if gen.Chance(t, 1, 2, label+".small") {
		return gen.Uniform(t, min(40, max)+1, label)
	}
	top := 5
	for 1<<uint(top+1) <= max {
		top++
	}
	k := 5 + gen.Uniform(t, top-4, label+".octave")
	return min(1<<uint(k)+gen.Uniform(t, 1<<uint(k), label), max)
}

var widePatterns = []struct {
	mod  int
	mask uint64
}{{1, 0}, {1, 1}, {4, 8}, {4, 7}, {2, 1}, {2, 2}, {3, 1}, {3, 4}, {4, 1}, {4, 2}, {4, 4}, {8, 0x80}, {8, 0x88}, {8, 0x08}, {5, 0x10}, {16, 0x8000}, {16, 0x8888}, {64, 1 << 63}}

func genList(t *rapid.T, maxN int) *ListSpec {
	s := &ListSpec{N: genLen(t, maxN, "n"), Key: vk.U64(gen.U64(t, "key")), Low: gen.Uniform(t, 4, "low"), High: gen.Uniform(t, 5, "high")}
	switch c := gen.Uniform(t, 8, "wide"); c {
	case 0: // bits above the width in exactly one value
		s.Mod, s.Mask = 0, vk.U64(gen.Uniform(t, max(s.N, 1), "only"))
	case 1: // a random residue set
		s.Mod = 2 + gen.Uniform(t, 15, "mod")
		s.Mask = vk.U64(gen.U64(t, "mask") & (1<<uint(s.Mod) - 1))
	default:
		p := widePatterns[gen.Uniform(t, len(widePatterns), "pattern")]
		s.Mod, s.Mask = p.mod, vk.U64(p.mask)
	}
	if gen.Chance(t, 1, 3, "zruns") { // runs of all-zero values
		if gen.Chance(t, 1, 2, "zaligned") {
			s.ZPer = []int{16, 32, 48, 64, 96, 128, 24, 12, 8}[gen.Uniform(t, 9, "zper")] * (1 + gen.Uniform(t, 3, "zmul"))
			s.ZRun = []int{16, 32, 8, 24, 64, 4}[gen.Uniform(t, 6, "zrun")]
			s.ZOff = []int{0, 16, 32, 8, 1, 63}[gen.Uniform(t, 6, "zoff")]
		} else {
			s.ZPer = 2 + gen.Uniform(t, 300, "zper2")
			s.ZRun = 1 + gen.Uniform(t, s.ZPer, "zrun2")
			s.ZOff = gen.Uniform(t, s.ZPer, "zoff2")
		}
		if s.ZRun >= s.ZPer {
			s.ZRun = s.ZPer - 1
		}
	}
	return s
}

func genCase(t *rapid.T) Case {
	switch gen.Uniform(t, 8, "op") {
	case 0, 1:
		w := widths[gen.Uniform(t, len(widths), "w")]
		n := gen.Len(t, 200, "n")
		vals := make(vk.Words, n)
		style := gen.Uniform(t, 4, "vstyle")
		for i := range vals {
			switch style {
			case 0:
				vals[i] = ^uint64(0)
			case 1:
				if w < 64 {
					vals[i] = 1 << uint(w)
				}
				if gen.Chance(t, 1, 2, "plus") {
					vals[i] |= gen.U64(t, "v") & (1<<uint(w%64) - 1)
				}
			default:
				vals[i] = gen.U64(t, "v")
			}
		}
		return Case{Op: "join", W: w, Values: vals, Class: []string{"ones", "1<<w", "random", "random"}[style]}
	case 2, 3: // element-wise mixes (only some values carry bits above the width), lengths without holes up to the long lists
		w := widths[gen.Uniform(t, len(widths), "w")]
		return Case{Op: "join", W: w, List: genList(t, vk.Pick(20000, 120000)), Class: "described-list"}
	case 4:
		w := widths[gen.Uniform(t, len(widths), "w")]
		words, style := gen.Bitmap(t, 12, "bm")
		return Case{Op: "getw", W: w, Words: words, Class: style}
	case 5: // long bitmaps, ranges of every length and alignment
		big := gen.BigSpec{N: genLen(t, vk.Pick(8192, 32768), "bm.n"), Key: gen.U64(t, "bm.key"), Style: gen.Uniform(t, 6, "bm.style")}
		nbits := 64 * big.N
		var from, to int
		switch gen.Uniform(t, 4, "rclass") {
		case 0: // a length from every octave, anywhere
			n := min(genLen(t, max(nbits, 1), "rlen"), nbits)
			from = gen.Uniform(t, nbits-n+1, "from")
			to = from + n
		case 1: // ... ending at the end of the bitmap
			from = nbits - min(genLen(t, max(nbits, 1), "rlen"), nbits)
			to = nbits
		case 2: // aligned start, any end
			from = 64 * gen.Uniform(t, big.N+1, "a")
			to = from + gen.Uniform(t, nbits-from+1, "n")
		default:
			a, b := gen.Uniform(t, nbits+1, "a"), gen.Uniform(t, nbits+1, "b")
			from, to = min(a, b), max(a, b)
		}
		return Case{Op: "slice", Big: &big, From: int32(from), To: int32(to), Class: "described-bitmap"}
	}
	words, style := gen.Bitmap(t, vk.Pick(12, 100), "bm")
	nbits := 64 * len(words)
	var from, to int
	switch gen.Uniform(t, 6, "rclass") {
	case 0:
		a, b := gen.Uniform(t, len(words)+1, "a"), gen.Uniform(t, len(words)+1, "b")
		from, to = 64*min(a, b), 64*max(a, b)
	case 1:
		from = gen.Uniform(t, nbits+1, "from")
		to = from
	case 2: // short range across a word boundary
		if len(words) >= 2 {
			k := 1 + gen.Uniform(t, len(words)-1, "k")
			from = 64*k - 1 - gen.Uniform(t, 8, "da")
			to = 64*k + gen.Uniform(t, 9, "db")
			break
		}
		fallthrough
	default:
		a, b := gen.Uniform(t, nbits+1, "a"), gen.Uniform(t, nbits+1, "b")
		from, to = min(a, b), max(a, b)
	}
	return Case{Op: "slice", Words: words, From: int32(from), To: int32(to), Class: style}
}

// ---------------------------------------------------------------- long inputs: Join lists of 2^17 .. 2^25 values, Slice ranges of 2^21 .. 2^30 bits

var sliceResidues = []int{63, 0, 1, 31, 32, 33} // the classes of the range length modulo 64 that matter

// bigSliceCase: a range of 2^k <= n < 2^(k+1) bits with n%64 == res on a sparsely described bitmap. exact: the length is
// 2^k-1, 2^k or 2^k+1 (res 63, 0, 1), else pseudo-random inside the octave. The range starts shift bits into a word,
// in one of the first words or anywhere on the 2^25-word array (place), and ends 0, 1, 2 or many words before the end
// of the bitmap; never within 200 bits of position 2^31-1 (the maximum-bitmap cases are there). Non-zero words: around
// both ends of the range (inside and outside of it, all ones or random), behind the end of the bitmap, at random
// places inside and where the range would be cut into 2..16 equal parts.
func bigSliceCase(key uint64, k, res int, exact bool, shift, place int) Case {
	rnd := func(j uint64) uint64 { return vk.Mix(key + j*0x9e3779b97f4a7c15) }
	n := int64(1)<<uint(k) + int64(rnd(1)%(1<<uint(k)))&^63 | int64(res)
	if exact && (res == 63 || res <= 1) {
		n = int64(1)<<uint(k) + int64((res+1)&63) - 1
	}
	if limit := gen.MaxTop - 200 - 64*3 - int64(shift); n > limit {
		n -= (n - limit + 63) / 64 * 64
	}
	maxFw := (gen.MaxTop - 200 - n - int64(shift)) / 64
	var fw int64
	switch place {
	case 0:
		fw = 1 + int64(rnd(2)%3)
	case 1:
		fw = int64(rnd(2) % uint64(maxFw+1))
	}
	fw = min(fw, maxFw)
	from := 64*fw + int64(shift)
	to := from + n
	N := (to+63)/64 + []int64{0, 1, 2, int64(rnd(3) % 1000)}[rnd(4)&3]
	N = min(N, gen.MaxWords)
	set := map[int64]uint64{}
	word := func(i int64, j uint64) {
		if i < 0 || i >= gen.MaxWords {
			return
		}
		x := rnd(j<<32 | uint64(i))
		if x%3 == 0 {
			x = ^uint64(0)
		}
		set[i] = x | 1<<(x>>58)
	}
	fromW, lastW, nW := from>>6, (to-1)>>6, (n+63)/64
	for d := int64(-1); d <= 2; d++ {
		word(fromW+d, 5)
		word(lastW-1+d, 6)
	}
	word(N, 7) // foreign words behind the end of the bitmap
	if rnd(8)&1 == 0 {
		word(N+1, 7)
	}
	for j := uint64(0); j < 24; j++ {
		word(fromW+int64(rnd(100+j)%uint64(nW)), 9)
	}
	for _, p := range []int64{2, 3, 4, 5, 7, 8, 16} {
		for c := int64(1); c < p; c++ {
			word(fromW+c*(nW/p), 10)
			if rnd(uint64(200+p*16+c))&1 == 0 {
				word(fromW+c*(nW/p)-1, 10)
			}
		}
	}
	sp := &SparseBM{N: int(N)}
	for i := range set {
		sp.Idx = append(sp.Idx, int32(i))
	}
	sort.Slice(sp.Idx, func(a, b int) bool { return sp.Idx[a] < sp.Idx[b] })
	for _, i := range sp.Idx {
		sp.W = append(sp.W, set[int64(i)])
	}
	return Case{Op: "bigslice", Sparse: sp, From: int32(from), To: int32(to), Class: "long-range"}
}

// bigSliceSweep: range lengths of every octave from 2^21 bits up. The library copies bit by bit (2^27 bits: 0.2 s), so the
// quick tier takes all six residues of the length up to 2^23 bits, then three (2^24), two (2^25) and one (2^26) of them,
// rotating with the octave and the seed, and leaves 2^27..2^30 to the thorough tier (all six residues, two starts each).
func bigSliceSweep(t *testing.T) {
	shifts := []int{1, 63, 0, 31, 33, 17, 32, 62}
	rot := int(vk.Seed() % 8)
	for k := 21; k <= vk.Pick(26, 30); k++ {
		for ri, res := range sliceResidues {
			if pick := (ri + k + int(vk.Seed())) % 6; !vk.Thorough() && (k == 24 && pick%2 != 0 || k == 25 && pick%3 != 0 || k == 26 && pick != 0) {
				continue
			}
			for rep := 0; rep < vk.Pick(1, 2); rep++ {
				rot++
				shift := shifts[rot%len(shifts)]
				if rot%5 == 4 {
					shift = 2 + int(vk.Mix(uint64(rot)+vk.Seed())%60)
				}
				key := vk.Mix(vk.Seed()*1000003 + uint64(k)<<8 + uint64(ri)<<4 + uint64(rep))
				checker.Run(t, bigSliceCase(key, k, res, (k+int(vk.Seed())+rep)%2 == 0, shift, rot%3%2))
			}
		}
	}
}

// bigJoinLengths: 2^k-1, 2^k, 2^k+1 and one odd pseudo-random length of the octave [2^k, 2^(k+1)).
func bigJoinLengths(k int) []int {
	return []int{1<<uint(k) - 1, 1 << uint(k), 1<<uint(k) + 1, 1<<uint(k) + 1 + int(vk.Mix(uint64(k)*1009+vk.Seed())%(1<<uint(k)-2)) | 1}
}

func bigJoinCase(n int, w int32) Case {
	return Case{Op: "bigjoin", N: n, W: w, Key: vk.U64(vk.Mix(vk.Seed()*1000003 + uint64(n)*131 + uint64(w))), Class: "long-list"}
}

// bigJoinSweep: list lengths of every octave from 2^17 to 2^25 values (the library takes some 3 ns per value). Quick: four
// lengths per octave at every width below 2^19 values, at three (2^19, 2^20) and two (2^21) widths, then 2^k-1, 2^k+1 and
// the pseudo-random length at one width (2^22), and two of those three at one width (2^23, 2^24); which widths rotates
// with the seed. Thorough: every length at every width, and 2^25-1 and 2^25 values.
func bigJoinSweep(t *testing.T) {
	rot := int(vk.Seed() % 7)
	for k := 17; k <= 24; k++ {
		ns := bigJoinLengths(k)
		if !vk.Thorough() {
			switch {
			case k >= 23:
				ns = []int{ns[2*((k+int(vk.Seed()))%2)], ns[3]}
			case k >= 22:
				ns = []int{ns[0], ns[2], ns[3]}
			}
		} else if k == 24 {
			ns = append(ns, 1<<25-1, 1<<25)
		}
		for _, n := range ns {
			nWidths := 7
			if !vk.Thorough() {
				switch {
				case k >= 22:
					nWidths = 1
				case k >= 21:
					nWidths = 2
				case k >= 19:
					nWidths = 3
				}
			}
			for j := 0; j < nWidths; j++ {
				rot++
				w := widths[rot%7]
				if int64(n)*int64(w) > 1<<31 {
					continue
				}
				checker.Run(t, bigJoinCase(n, w))
			}
		}
	}
	bigVals = nil // (a replay allocates it again)
	runtime.GC()
}

// longUnderProcs: the process that varies GOMAXPROCS leaves out TestLast, so it meets a few long lists and ranges in its
// grid: the shortest ones under every setting, longer ones under one setting each (thorough: all under every setting).
func longUnderProcs(t *testing.T) {
	sd := int(vk.Seed())
	for li, n := range []int{1<<17 + 3, 1<<18 + 3, 1<<19 - 1, 1<<20 + 1, 1<<21 + 5, 1<<22 + 1, 1<<23 - 1, 1<<24 + 1} {
		c := bigJoinCase(n, widths[(li*3+sd)%7])
		if li <= 4 || vk.Thorough() {
			vk.ProcsSweep(func() { checker.Run(t, c) })
		} else {
			checker.Run(t, c)
		}
	}
	bigVals = nil
	runtime.GC()
	for li, kr := range [][3]int{{21, 0, 1}, {21, 33, 63}, {22, 63, 31}, {23, 1, 0}, {24, 32, 33}, {25, 31, 62}} {
		c := bigSliceCase(vk.Mix(vk.Seed()*1000003+uint64(li)+0x9c), kr[0], kr[1], (li+sd)%2 == 0, kr[2], li%2)
		if li <= 2 || vk.Thorough() {
			vk.ProcsSweep(func() { checker.Run(t, c) })
		} else {
			checker.Run(t, c)
		}
	}
}

func TestRegress(t *testing.T) { checker.Regress(t) }

func TestProp(t *testing.T) { checker.Prop(t, genCase) }

func FuzzProp(f *testing.F) { checker.Fuzz(f, genCase) }

func TestGrid(t *testing.T) {
	vk.SetPhase("grid")
	bms := [][]uint64{
		{}, {0}, {^uint64(0)}, {0x8000000000000001}, {0x0123456789abcdef},
		{^uint64(0), 0}, {0, ^uint64(0)}, {0xaaaaaaaaaaaaaaaa, 0x5555555555555555},
		{1 << 63, 1, 1 << 63}, {^uint64(0), ^uint64(0), ^uint64(0)}, {0x0123456789abcdef, 0xfedcba9876543210, 0x0f0f0f0f0f0f0f0f}, {1, 0, 1 << 63},
	}
	for _, bm := range bms {
		n := int32(64 * len(bm))
		for from := int32(0); from <= n; from++ {
			for to := from; to <= n; to++ {
				checker.Run(t, Case{Op: "slice", Words: bm, From: from, To: to, Class: "grid"})
			}
		}
	}
	for _, w := range widths {
		for n := 0; n <= 20; n++ {
			for style := 0; style < 3; style++ {
				vals := make(vk.Words, n)
				for i := range vals {
					switch style {
					case 0:
						vals[i] = ^uint64(0)
					case 1:
						vals[i] = vk.Mix(uint64(w)*1000 + uint64(n)*50 + uint64(i))
					default:
						if w < 64 {
							vals[i] = 1<<uint(w) | uint64(i)&(1<<uint(w)-1)
						} else {
							vals[i] = uint64(i) << 60
						}
					}
				}
				checker.Run(t, Case{Op: "join", W: w, Values: vals, Class: "grid"})
				r := bitmap.Join(vals, w)
				for _, w2 := range widths {
					checker.Run(t, Case{Op: "getw", W: w2, Words: r, Class: "grid"})
				}
			}
		}
	}
	// element-wise mixes: bits above the width only in the values at some residues of the index (2, 3, 4, 8), or in
	// exactly one value; every length 0..24 and the lengths around 32 and 64
	ns := []int{31, 32, 33, 63, 64, 65}
	for n := 0; n <= 24; n++ {
		ns = append(ns, n)
	}
	for _, w := range widths[:6] {
		for _, n := range ns {
			var pats [][2]uint64
			for _, m := range []uint64{2, 3, 4} {
				for r := uint64(0); r < m; r++ {
					pats = append(pats, [2]uint64{m, 1 << r})
				}
			}
			pats = append(pats, [2]uint64{8, 0x08}, [2]uint64{8, 0x80}, [2]uint64{4, 7}, [2]uint64{0, 0}, [2]uint64{0, uint64(n / 2)}, [2]uint64{0, uint64(max(n-1, 0))})
			for pi, pt := range pats {
				for _, high := range []int{0, 2} {
					spec := &ListSpec{N: n, Key: vk.U64(vk.Mix(uint64(w)<<32 | uint64(n)<<8 | uint64(pi))), Low: (n + pi) % 4, High: high, Mod: int(pt[0]), Mask: vk.U64(pt[1])}
					checker.Run(t, Case{Op: "join", W: w, List: spec, Class: "grid-mix"})
				}
			}
		}
	}
	// list lengths without holes: 2^k-1, 2^k, 2^k+1 and two lengths inside every octave up to 2^16, every width;
	// which values carry bits above the width rotates through the patterns (all, none, index 3 mod 4, ...)
	rot := 0
	for k := 5; k <= 15; k++ {
		for j, n := range []int{1<<uint(k) - 1, 1 << uint(k), 1<<uint(k) + 1, 1<<uint(k) + 1 + int(vk.Mix(uint64(k)*977+vk.Seed())%(1<<uint(k)-2)), 1<<uint(k) + 1 + int(vk.Mix(uint64(k)*983+vk.Seed())%(1<<uint(k)-2))} {
			for _, w := range widths {
				if k >= 13 && j >= 3 && w >= 16 && (k+j+int(w>>4))%2 == 0 {
					continue // (the longest random lengths: every other wide width)
				}
				pt := widePatterns[rot%len(widePatterns)]
				rot++
				spec := &ListSpec{N: n, Key: vk.U64(vk.Mix(uint64(n)*131 + uint64(w))), Low: rot % 3 % 2, High: rot % 5, Mod: pt.mod, Mask: vk.U64(pt.mask)}
				checker.Run(t, Case{Op: "join", W: w, List: spec, Class: "grid-octaves"})
			}
		}
	}
	// runs of all-zero values among non-zero ones (a loop that skips aligned blocks of empty values): every width, block
	// periods 16..192, runs that end on and off a word boundary, short lists that end inside or right after a run
	for _, w := range widths {
		for zi, z := range [][3]int{{16, 8, 0}, {32, 16, 16}, {32, 16, 0}, {48, 16, 32}, {48, 32, 16}, {64, 32, 32}, {64, 16, 48}, {96, 64, 32}, {128, 16, 112}, {192, 96, 96}, {24, 12, 12}, {40, 24, 16}, {17, 16, 1}, {33, 32, 0}} {
			for _, n := range []int{z[0], z[0] + 1, 2 * z[0], 2*z[0] + 17, 5*z[0] - 1, 300 + zi} {
				spec := &ListSpec{N: n, Key: vk.U64(vk.Mix(uint64(n)*151 + uint64(w)*7 + uint64(zi))), Low: 1 - zi%2, High: zi % 5, Mod: 1, Mask: vk.U64(zi % 2), ZPer: z[0], ZRun: z[1], ZOff: z[2]}
				checker.Run(t, Case{Op: "join", W: w, List: spec, Class: "grid-zero-runs"})
			}
		}
	}
	// very long value lists (size thresholds of any batched / parallel implementation); a process that varies
	// GOMAXPROCS evaluates some of them under every setting
	for li, n := range []int{65535, 65536, 65537, 65543, 100001} {
		for wi, w := range widths {
			vals := &ListSpec{N: n, Key: vk.U64(uint64(n)*131 + uint64(w)), Mod: 1, Mask: 1} // every value random, bits above the width everywhere
			run := func() { checker.Run(t, Case{Op: "join", W: w, List: vals, Class: "grid-long-list"}) }
			if vk.ProcsVaried() && (li == 3 || li == 4) && wi%3 == li%3 {
				vk.ProcsSweep(run)
			} else {
				run()
			}
			if wi%2 == li%2 { // ... and bits above the width only at indexes 3 mod 4 / in one value in the middle
				mix := &ListSpec{N: n, Key: vk.U64(uint64(n)*137 + uint64(w)), Mod: 4, Mask: 8, High: wi % 5}
				if wi%3 == 0 {
					mix.Mod, mix.Mask = 0, vk.U64(n/2)
				}
				checker.Run(t, Case{Op: "join", W: w, List: mix, Class: "grid-long-list"})
			}
		}
	}
	big := make(vk.Words, 1<<14+3)
	for i := range big {
		big[i] = vk.Mix(uint64(i) * 7)
	}
	for _, r := range [][2]int32{{0, int32(64 * len(big))}, {1, int32(64*len(big)) - 1}, {63, 64*1024 + 63}, {5, 64*4096 + 5}, {64 * 100, 64 * 16000}} {
		run := func() { checker.Run(t, Case{Op: "slice", Words: big, From: r[0], To: r[1], Class: "grid-long-bitmap"}) }
		if r[0] == 1 || r[0] == 5 { // (a process that varies GOMAXPROCS evaluates these two under every setting)
			vk.ProcsSweep(run)
		} else {
			run()
		}
	}
	// range lengths without holes: 2^k-1, 2^k, 2^k+1 bits and two lengths inside every octave from 2^9 to 2^20 bits, each
	// at five alignments of the start (aligned, 1, 63, two that rotate through 2..62); the bitmap ends 0..2 words
	// after the range, so the range often ends in the last word; contents rotate through the described styles
	rot = 0
	for k := 9; k <= 19; k++ {
		for _, n := range []int{1<<uint(k) - 1, 1 << uint(k), 1<<uint(k) + 1, 1<<uint(k) + 1 + int(vk.Mix(uint64(k)*991+vk.Seed())%(1<<uint(k)-2)), 1<<uint(k) + 1 + int(vk.Mix(uint64(k)*997+vk.Seed())%(1<<uint(k)-2))} {
			for ai := 0; ai < 5; ai++ {
				rot++
				shift := []int{0, 1, 63, 2 + rot*7%61, 2 + rot*11%61}[ai]
				from := 64*(rot%3) + shift
				nw := (from+n+63)/64 + rot%4%3
				spec := &gen.BigSpec{N: nw, Key: vk.Mix(uint64(n)<<8 | uint64(ai)), Style: []int{0, 2, 0, 3, 5, 0, 1}[rot%7]}
				checker.Run(t, Case{Op: "slice", Big: spec, From: int32(from), To: int32(from + n), Class: "grid-octaves"})
			}
		}
	}
	if vk.ProcsVaried() {
		longUnderProcs(t)
	}
	vk.MarkExhaustive("Slice: 12 bitmaps of <= 3 words x all (from,to); Join: all widths x lengths 0..20 x 3 value styles; Getw: all widths on those results at every index")
	vk.SetExtra("sweeps", "Join: widths < 64 x lengths 0..24,31..33,63..65 x bits above the width at one residue of the index mod 2/3/4/8 or in one value; list lengths 2^k-1,2^k,2^k+1 and 2 more per octave for k=5..15 plus 65535..100001; Slice range lengths likewise for k=9..19 x 5 start alignments; long inputs (TestLast; a few in the grid of the process that varies GOMAXPROCS): Join lists of 2^17..2^25 values, Slice ranges of 2^21..2^26 (thorough 2^30) bits x length mod 64 in {63,0,1,31,32,33}")
}

// TestLast runs at the very end of the process: huge inputs (the maximum bitmap / string) and the regression cases of that size come last, so that
// what they leave behind in the library cannot mask anything the ordinary cases would have met.
func TestLast(t *testing.T) {
	vk.SetPhase("last")
	// exactly 2^31 bits: the largest positions an int32 holds
	top := int32(gen.MaxTop)
	gen.UseMax(0)
	maxValues(int64(1) << 31 / int64(vk.Pick(32, 8))) // (both huge inputs are allocated before anything huge has been freed: fresh, untouched pages)
	// long lists and long ranges below the maximum, in ascending size
	bigJoinSweep(t)
	bigSliceSweep(t)
	for v := 0; v < gen.MaxVariants; v++ {
		gen.UseMax(v)
		rs := [][2]int32{{top - 100, top}, {top - 64, top}, {top - 63, top}, {top - 62, top}, {top - 1, top}, {top, top}, {top - 130, top - 3}, {top - 195, top}, {top - 255, top}, {top - 129, top - 1}, {top - 4000, top}, {0, 130}}
		for _, k := range gen.MaxSetWords() {
			if lo := int64(k)*64 - 5; lo >= 0 && lo+75 <= int64(top) {
				rs = append(rs, [2]int32{int32(lo), int32(lo + 75)})
			}
		}
		for _, r := range rs {
			checker.Run(t, Case{Op: "maxslice", Max: v, From: r[0], To: r[1], Class: "grid-maximum"})
		}
		for _, w := range widths {
			checker.Run(t, Case{Op: "maxgetw", Max: v, W: w, Class: "grid-maximum"})
		}
	}
	// the whole bitmap (the library copies bit by bit over 2^31 positions: seconds). Quick: one range longer than
	// 2^31-64 bits, start and description chosen by the seed; thorough: two more
	// (from + (top - to) <= 62 keeps the length above 2^31-64; the length modulo 64 is 63, 62, 32, 1, 33, 31, 31, 1)
	q := vk.Mix(vk.Seed() ^ 0xc14)
	whole := [][2]int32{{0, top}, {1, top}, {31, top}, {62, top}, {0, top - 30}, {0, top - 32}, {1, top - 31}, {7, top - 55}}[q>>8&7]
	checker.Run(t, Case{Op: "maxslice", Max: int(q % gen.MaxVariants), From: whole[0], To: whole[1], Class: "grid-maximum-whole"})
	if vk.Thorough() {
		checker.Run(t, Case{Op: "maxslice", Max: 0, From: 0, To: top, Class: "grid-maximum-whole"})
		checker.Run(t, Case{Op: "maxslice", Max: 2, From: 63, To: top, Class: "grid-maximum-whole"})
	}
	// Join of the longest lists whose result Getw addresses (2^31 result bits): 2^25 values of 64 bits - the maximum
	// bitmap itself - and 2^26 values of 32 bits; thorough: every description, and 2^27 / 2^28 values of 16 / 8 bits
	if vk.Thorough() {
		for v := 0; v < gen.MaxVariants; v++ {
			for _, w := range []int32{64, 32} {
				checker.Run(t, Case{Op: "maxjoin", Max: v, W: w, Class: "grid-maximum"})
			}
		}
		checker.Run(t, Case{Op: "maxjoin", Max: 1, W: 16, Class: "grid-maximum"})
		checker.Run(t, Case{Op: "maxjoin", Max: 0, W: 8, Class: "grid-maximum"})
	} else {
		checker.Run(t, Case{Op: "maxjoin", Max: int(q >> 16 % gen.MaxVariants), W: 64, Class: "grid-maximum"})
		checker.Run(t, Case{Op: "maxjoin", Max: int(q >> 24 % gen.MaxVariants), W: 32, Class: "grid-maximum"})
	}
	checker.RegressLast(t)
}

// Package c14 decides property C14: Join / Getw pack fixed-width words
// losslessly; Slice copies a bit range.
package c14

import (
	"fmt"
	"testing"
	"unsafe"

	"github.com/openacid/low/bitmap"
	"pgregory.net/rapid"

	"verif/harness/gen"
	"verif/harness/vk"
)

var keepResult func(func() string)

func init() { keepResult = checker.Keep }

func TestMain(m *testing.M) { vk.Main(m, "C14") }

type Case struct {
	Op     string   `json:"op"`            // join | getw | slice | maxslice | maxgetw
	Max    int      `json:"max,omitempty"` // maxslice/maxgetw: description of the maximum bitmap (exactly 2^25 words = 2^31 bits, gen.UseMax)
	W      int32    `json:"w,omitempty"`
	Values vk.Words `json:"values,omitempty"`
	Words  vk.Words `json:"words,omitempty"`
	From   int32    `json:"from,omitempty"`
	To     int32    `json:"to,omitempty"`
	Class  string   `json:"class,omitempty"`
}

var widths = []int32{1, 2, 4, 8, 16, 32, 64}

var checker = &vk.Checker[Case]{
	ID: "C14",
	Rule: "Join: width in {1,2,4,8,16,32,64} x value lists of length 0..200 whose values carry bits above the width (random, all-ones, 1<<w); result checked bit by bit, length ceil(len*w/64), Getw at every index; Getw alone on arbitrary bitmaps at every index; " +
		"Slice on bitmaps <= 12 words (thorough <= 100) x ranges 0<=from<=to<=64*len (aligned, unaligned, empty, multi-word): length ceil((to-from)/64), bit j = input bit from+j, remaining bits 0, input unchanged. Grid: Slice on 12 bitmaps of <= 3 words x all (from,to); Join/Getw all widths x lengths 0..20 x 3 value styles. " +
		"Also the MAXIMUM bitmap - exactly 2^25 words = 2^31 bits, the largest one int32 positions address (three sparse descriptions, oracle from the description): Slice of short ranges ending at the top and around every set word, Getw at the last indexes of every width; thorough also slices the whole bitmap. " +
		"A result may share memory with the argument (not forbidden), not with the library: results are re-read after later calls. Non-trivial: Join with w>=4, >=2 values and a value with bits above w; Slice with unaligned from spanning >= 2 input words; Getw with w>=4 on a bitmap with both 0 and 1 bits. Distinct by hash of the case.",
	Check:    check,
	Classify: classify,
}

func bit(w []uint64, i int) uint64 { return w[i/64] >> (uint(i) % 64) & 1 }

func low(v uint64, w int32) uint64 {
	if w == 64 {
		return v
	}
	return v & (uint64(1)<<uint(w) - 1)
}

func checkJoin(keep []uint64, w int32) (f *vk.Failure) {
	values := append(make([]uint64, 0, len(keep)), keep...) // private copy for the code under test ...
	reused := scratch.Reuse(vk.SumU64(keep) + uint64(w))
	if reused {
		values = scratch.U64(keep) // ... or a reused buffer with guarded spare capacity
	}
	defer func() { f = spare(f, reused) }()
	var r []uint64
	if f := vk.Try(fmt.Sprintf("Join(%d values, w=%d)", len(values), w), func() { r = bitmap.Join(values, w) }); f != nil {
		return f
	}
	total := len(values) * int(w)
	if len(r) != (total+63)/64 {
		return vk.Failf("join-len", "Join(%d values, w=%d) has %d words, want %d", len(values), w, len(r), (total+63)/64)
	}
	for q := 0; q < 64*len(r); q++ {
		want := uint64(0)
		if q < total {
			want = keep[q/int(w)] >> (uint(q) % uint(w)) & 1
		}
		if bit(r, q) != want {
			return vk.Failf("join-bit", "Join(values=%#x, w=%d): bit %d = %d, want %d", values, w, q, bit(r, q), want)
		}
	}
	for i := range values {
		var g uint64
		if f := vk.Try(fmt.Sprintf("Getw(i=%d,w=%d)", i, w), func() { g = bitmap.Getw(r, int32(i), w) }); f != nil {
			return f
		}
		if g != low(keep[i], w) {
			return vk.Failf("join-getw", "Getw(Join(values,w=%d), %d, %d) = %#x, want %#x", w, i, w, g, low(keep[i], w))
		}
	}
	for i := range keep {
		if keep[i] != values[i] {
			return vk.Failf("join-mutates", "Join modified values[%d]", i)
		}
	}
	// A result that shares memory with the ARGUMENT (Join with w = 64 handing back its list) is not forbidden by
	// the statement: it stays right as long as the caller leaves its own list alone. A result that shares memory
	// with the LIBRARY (a pooled or cached buffer) is not: it changes when the library is called again. So the
	// result is watched after later calls - unless it overlaps an argument buffer that this check itself is
	// about to reuse - and only spare capacity that is not the argument's is overwritten.
	shared := overlaps(r, values)
	if shared && reused {
		return nil
	}
	expect := append([]uint64(nil), r...)
	if !shared {
		vk.ScribbleU64(r)
	}
	keepResult(func() string {
		for i := range expect {
			if r[i] != expect[i] {
				return fmt.Sprintf("Join(%d values, w=%d): word %d was %#x, now %#x", len(keep), w, i, expect[i], r[i])
			}
		}
		return ""
	})
	return nil
}

// overlaps reports whether the backing arrays (up to capacity) of two slices share memory.
func overlaps(a, b []uint64) bool {
	if cap(a) == 0 || cap(b) == 0 {
		return false
	}
	a, b = a[:cap(a)], b[:cap(b)]
	pa, pb := uintptr(unsafe.Pointer(&a[0])), uintptr(unsafe.Pointer(&b[0]))
	return pa < pb+8*uintptr(len(b)) && pb < pa+8*uintptr(len(a))
}

func checkGetw(keep []uint64, w int32) *vk.Failure {
	words := append(make([]uint64, 0, len(keep)), keep...)
	n := 64 * len(words) / int(w)
	for i := 0; i < n; i++ {
		want := uint64(0)
		for k := 0; k < int(w); k++ {
			want |= bit(keep, i*int(w)+k) << uint(k)
		}
		var g uint64
		if f := vk.Try(fmt.Sprintf("Getw(i=%d,w=%d)", i, w), func() { g = bitmap.Getw(words, int32(i), w) }); f != nil {
			return f
		}
		if g != want {
			return vk.Failf("getw", "Getw(bm=%#x, i=%d, w=%d) = %#x, want %#x", words, i, w, g, want)
		}
	}
	return nil
}

var scratch vk.Scratch

func spare(f *vk.Failure, reused bool) *vk.Failure {
	if f == nil && reused {
		if msg := scratch.Check(); msg != "" {
			return vk.Failf("argument-spare-capacity-written", "%s", msg)
		}
	}
	return f
}

func checkSlice(keep []uint64, from, to int32) (f *vk.Failure) {
	words := append(make([]uint64, 0, len(keep)), keep...) // private copy for the code under test ...
	reused := scratch.Reuse(vk.SumU64(keep) + uint64(from)*3 + uint64(to))
	if reused {
		words = scratch.U64(keep) // ... or a reused buffer with guarded spare capacity
	}
	defer func() { f = spare(f, reused) }()
	var r []uint64
	if f := vk.Try(fmt.Sprintf("Slice(%d words, %d, %d)", len(words), from, to), func() { r = bitmap.Slice(words, from, to) }); f != nil {
		return f
	}
	n := int(to - from)
	if len(r) != (n+63)/64 {
		return vk.Failf("slice-len", "Slice(bm of %d words, %d, %d) has %d words, want %d", len(words), from, to, len(r), (n+63)/64)
	}
	for j := 0; j < 64*len(r); j++ {
		want := uint64(0)
		if j < n {
			want = bit(keep, int(from)+j)
		}
		if bit(r, j) != want {
			return vk.Failf("slice-bit", "Slice(bm=%#x, %d, %d): bit %d = %d, want %d", keep, from, to, j, bit(r, j), want)
		}
	}
	for i := range keep {
		if keep[i] != words[i] {
			return vk.Failf("slice-mutates", "Slice modified input word %d", i)
		}
	}
	// (sharing memory with the argument - a zero-copy view of whole aligned words - is not forbidden by the
	// statement, sharing it with the library is: see checkJoin)
	shared := overlaps(r, words)
	if shared && reused {
		return nil
	}
	expect := append([]uint64(nil), r...)
	if !shared {
		vk.ScribbleU64(r)
	}
	keepResult(func() string {
		for i := range expect {
			if r[i] != expect[i] {
				return fmt.Sprintf("Slice(bm, %d, %d): word %d was %#x, now %#x", from, to, i, expect[i], r[i])
			}
		}
		return ""
	})
	return nil
}

// checkMaxSlice: Slice on the largest bitmap whose positions fit an int32 (sparse oracle from its description).
func checkMaxSlice(v int, from, to int32) *vk.Failure {
	if v < 0 || v >= gen.MaxVariants || from < 0 || from > to {
		return nil
	}
	words := gen.UseMax(v)
	var r []uint64
	if f := vk.Try(fmt.Sprintf("Slice(2^25 words (description %d), %d, %d)", v, from, to), func() { r = bitmap.Slice(words, from, to) }); f != nil {
		return f
	}
	n, set := gen.MaxSlice(int64(from), int64(to))
	if int64(len(r)) != n {
		return vk.Failf("slice-len", "Slice(2^25-word bitmap (description %d), %d, %d) has %d words, want %d", v, from, to, len(r), n)
	}
	if len(set) == 0 { // (a map lookup per word is too slow for the 2^25-word results)
		for j, x := range r {
			if x != 0 {
				return vk.Failf("slice-bit", "Slice(2^25-word bitmap (description %d), %d, %d): word %d = %#x, want 0", v, from, to, j, x)
			}
		}
	}
	seen := 0
	for j, x := range r {
		if x == 0 {
			continue
		}
		if x != set[int64(j)] {
			return vk.Failf("slice-bit", "Slice(2^25-word bitmap (description %d), %d, %d): word %d = %#x, want %#x", v, from, to, j, x, set[int64(j)])
		}
		seen++
	}
	if seen != len(set) {
		for j, x := range set {
			if r[j] != x {
				return vk.Failf("slice-bit", "Slice(2^25-word bitmap (description %d), %d, %d): word %d = %#x, want %#x", v, from, to, j, r[j], x)
			}
		}
	}
	if k, bad := gen.MaxBitmapDamage(); bad {
		return vk.Failf("slice-mutates", "Slice modified word %d of the 2^25-word bitmap", k)
	}
	// (the result is not written to: a zero-copy view of the shared array would be legitimate, see checkJoin)
	return nil
}

// checkMaxGetw: Getw at the top of the largest bitmap, every width.
func checkMaxGetw(v int, w int32) *vk.Failure {
	if v < 0 || v >= gen.MaxVariants || w < 1 || w > 64 || 64%w != 0 {
		return nil
	}
	words := gen.UseMax(v)
	n := (gen.MaxTop + 1) / int64(w)
	is := []int64{0, 1, n - 1, n - 2, n - 3, n - 64/int64(w), n - 64/int64(w) - 1, n / 2, n/2 - 1}
	for _, p := range gen.MaxProbes() {
		is = append(is, p/int64(w))
	}
	for _, i := range is {
		if i < 0 || i >= n {
			continue
		}
		want := uint64(0)
		for k := int64(0); k < int64(w); k++ {
			want |= gen.MaxBit(i*int64(w)+k) << uint(k)
		}
		var g uint64
		if f := vk.Try(fmt.Sprintf("Getw(2^25 words, i=%d, w=%d)", i, w), func() { g = bitmap.Getw(words, int32(i), w) }); f != nil {
			return f
		}
		if g != want {
			return vk.Failf("getw", "Getw(2^25-word bitmap (description %d), i=%d, w=%d) = %#x, want %#x", v, i, w, g, want)
		}
	}
	if k, bad := gen.MaxBitmapDamage(); bad {
		return vk.Failf("getw-mutates", "Getw modified word %d of the 2^25-word bitmap", k)
	}
	return nil
}

func check(c Case) *vk.Failure {
	switch c.Op {
	case "maxslice":
		return checkMaxSlice(c.Max, c.From, c.To)
	case "maxgetw":
		return checkMaxGetw(c.Max, c.W)
	case "join":
		return checkJoin(c.Values, c.W)
	case "getw":
		return checkGetw(c.Words, c.W)
	}
	return checkSlice(c.Words, c.From, c.To)
}

func classify(c Case) (bool, []string) {
	labels := []string{"op:" + c.Op}
	switch c.Op {
	case "maxslice", "maxgetw":
		return true, append(labels, "maximum-bitmap(2^25 words)")
	case "join":
		labels = append(labels, fmt.Sprintf("w:%d", c.W))
		above := false
		for _, v := range c.Values {
			if low(v, c.W) != v {
				above = true
			}
		}
		if above {
			labels = append(labels, "bits-above-width")
		}
		return c.W >= 4 && len(c.Values) >= 2 && (above || c.W == 64), labels
	case "getw":
		labels = append(labels, fmt.Sprintf("w:%d", c.W))
		has0, has1 := false, false
		for _, x := range c.Words {
			has0 = has0 || x != ^uint64(0)
			has1 = has1 || x != 0
		}
		return c.W >= 4 && has0 && has1, labels
	}
	n := c.To - c.From
	switch {
	case n == 0:
		labels = append(labels, "range:empty")
	case c.From%64 == 0 && c.To%64 == 0:
		labels = append(labels, "range:aligned")
	default:
		labels = append(labels, "range:unaligned")
	}
	multi := n > 0 && (c.To-1)/64 != c.From/64
	if multi {
		labels = append(labels, "range:multiword")
	}
	return c.From%64 != 0 && multi, labels
}

func genCase(t *rapid.T) Case {
	switch gen.Uniform(t, 5, "op") {
	case 0, 1:
		w := widths[gen.Uniform(t, len(widths), "w")]
		n := gen.Len(t, 200, "n")
		vals := make(vk.Words, n)
		style := gen.Uniform(t, 4, "vstyle")
		for i := range vals {
			switch style {
			case 0:
				vals[i] = ^uint64(0)
			case 1:
				if w < 64 {
					vals[i] = 1 << uint(w)
				}
				if gen.Chance(t, 1, 2, "plus") {
					vals[i] |= gen.U64(t, "v") & (1<<uint(w%64) - 1)
				}
			default:
				vals[i] = gen.U64(t, "v")
			}
		}
		return Case{Op: "join", W: w, Values: vals, Class: []string{"ones", "1<<w", "random", "random"}[style]}
	case 2:
		w := widths[gen.Uniform(t, len(widths), "w")]
		words, style := gen.Bitmap(t, 12, "bm")
		return Case{Op: "getw", W: w, Words: words, Class: style}
	}
	words, style := gen.Bitmap(t, vk.Pick(12, 100), "bm")
	nbits := 64 * len(words)
	var from, to int
	switch gen.Uniform(t, 6, "rclass") {
	case 0:
		a, b := gen.Uniform(t, len(words)+1, "a"), gen.Uniform(t, len(words)+1, "b")
		from, to = 64*min(a, b), 64*max(a, b)
	case 1:
		from = gen.Uniform(t, nbits+1, "from")
		to = from
	case 2: // short range across a word boundary
		if len(words) >= 2 {
			k := 1 + gen.Uniform(t, len(words)-1, "k")
			from = 64*k - 1 - gen.Uniform(t, 8, "da")
			to = 64*k + gen.Uniform(t, 9, "db")
			break
		}
		fallthrough
	default:
		a, b := gen.Uniform(t, nbits+1, "a"), gen.Uniform(t, nbits+1, "b")
		from, to = min(a, b), max(a, b)
	}
	return Case{Op: "slice", Words: words, From: int32(from), To: int32(to), Class: style}
}

func TestRegress(t *testing.T) { checker.Regress(t) }

func TestProp(t *testing.T) { checker.Prop(t, genCase) }

func FuzzProp(f *testing.F) { checker.Fuzz(f, genCase) }

func TestGrid(t *testing.T) {
	vk.SetPhase("grid")
	bms := [][]uint64{
		{}, {0}, {^uint64(0)}, {0x8000000000000001}, {0x0123456789abcdef},
		{^uint64(0), 0}, {0, ^uint64(0)}, {0xaaaaaaaaaaaaaaaa, 0x5555555555555555},
		{1 << 63, 1, 1 << 63}, {^uint64(0), ^uint64(0), ^uint64(0)}, {0x0123456789abcdef, 0xfedcba9876543210, 0x0f0f0f0f0f0f0f0f}, {1, 0, 1 << 63},
	}
	for _, bm := range bms {
		n := int32(64 * len(bm))
		for from := int32(0); from <= n; from++ {
			for to := from; to <= n; to++ {
				checker.Run(t, Case{Op: "slice", Words: bm, From: from, To: to, Class: "grid"})
			}
		}
	}
	for _, w := range widths {
		for n := 0; n <= 20; n++ {
			for style := 0; style < 3; style++ {
				vals := make(vk.Words, n)
				for i := range vals {
					switch style {
					case 0:
						vals[i] = ^uint64(0)
					case 1:
						vals[i] = vk.Mix(uint64(w)*1000 + uint64(n)*50 + uint64(i))
					default:
						if w < 64 {
							vals[i] = 1<<uint(w) | uint64(i)&(1<<uint(w)-1)
						} else {
							vals[i] = uint64(i) << 60
						}
					}
				}
				checker.Run(t, Case{Op: "join", W: w, Values: vals, Class: "grid"})
				r := bitmap.Join(vals, w)
				for _, w2 := range widths {
					checker.Run(t, Case{Op: "getw", W: w2, Words: r, Class: "grid"})
				}
			}
		}
	}
	// very long value lists (size thresholds of any batched / parallel implementation)
	for _, n := range []int{65535, 65536, 65537, 65543, 100001} {
		for _, w := range widths {
			vals := make(vk.Words, n)
			for i := range vals {
				vals[i] = vk.Mix(uint64(n)*131 + uint64(i) + uint64(w))
			}
			checker.Run(t, Case{Op: "join", W: w, Values: vals, Class: "grid-long-list"})
		}
	}
	big := make(vk.Words, 1<<14+3)
	for i := range big {
		big[i] = vk.Mix(uint64(i) * 7)
	}
	for _, r := range [][2]int32{{0, int32(64 * len(big))}, {1, int32(64*len(big)) - 1}, {63, 64*1024 + 63}, {5, 64*4096 + 5}, {64 * 100, 64 * 16000}} {
		checker.Run(t, Case{Op: "slice", Words: big, From: r[0], To: r[1], Class: "grid-long-bitmap"})
	}
	vk.MarkExhaustive("Slice: 12 bitmaps of <= 3 words x all (from,to); Join: all widths x lengths 0..20 x 3 value styles; Getw: all widths on those results at every index")
}

// TestLast runs at the very end of the process: huge inputs (the maximum bitmap / string) and the regression cases of that size come last, so that
// what they leave behind in the library cannot mask anything the ordinary cases would have met.
func TestLast(t *testing.T) {
	vk.SetPhase("last")
	// exactly 2^31 bits: the largest positions an int32 holds
	top := int32(gen.MaxTop)
	for v := 0; v < gen.MaxVariants; v++ {
		gen.UseMax(v)
		rs := [][2]int32{{top - 100, top}, {top - 64, top}, {top - 63, top}, {top - 62, top}, {top - 1, top}, {top, top}, {top - 130, top - 3}, {top - 195, top}, {top - 255, top}, {top - 129, top - 1}, {top - 4000, top}, {0, 130}}
		for _, k := range gen.MaxSetWords() {
			if lo := int64(k)*64 - 5; lo >= 0 && lo+75 <= int64(top) {
				rs = append(rs, [2]int32{int32(lo), int32(lo + 75)})
			}
		}
		for _, r := range rs {
			checker.Run(t, Case{Op: "maxslice", Max: v, From: r[0], To: r[1], Class: "grid-maximum"})
		}
		for _, w := range widths {
			checker.Run(t, Case{Op: "maxgetw", Max: v, W: w, Class: "grid-maximum"})
		}
	}
	if vk.Pick(0, 1) == 1 { // bit-by-bit over 2^31 positions: seconds, thorough only
		checker.Run(t, Case{Op: "maxslice", Max: 0, From: 0, To: top, Class: "grid-maximum-whole"})
		checker.Run(t, Case{Op: "maxslice", Max: 2, From: 63, To: top, Class: "grid-maximum-whole"})
	}
	checker.RegressLast(t)
}

package pbm

import (
	"encoding/binary"
	"math/bits"

	proto "github.com/golang/protobuf/proto"
	"google.golang.org/protobuf/types/known/structpb"
	"google.golang.org/protobuf/types/known/wrapperspb"
	"pgregory.net/rapid"

	"verif/harness/gen"
	"verif/harness/vk"
)

// Sizes without holes (shared by C06 and C07). The original generator draws payload lengths from
// {0..300, 0..5000, 2^k +- few (k <= 14)}: nothing between 17 KB and the two multi-MiB frames of the
// grids, and no length that is a whole multiple of a "round" piece size other than a power of two.
// The helpers below add a log-uniform magnitude up to a given maximum, lengths that are multiples
// of round piece sizes (+- the header), and a compact case form for long payloads (FrameJ.FillLen).

// Fill expands key into n payload bytes: position dependent (a piece that is dropped, repeated or
// moved changes the content), every byte value occurs; for kind "string" printable ASCII only (valid
// UTF-8 whatever the length). Same formula as GenFrame's long payloads for the other kinds.
func Fill(kind string, n int, key uint64) []byte {
	b := make([]byte, n+8)
	for i := 0; i < n; i += 8 {
		binary.LittleEndian.PutUint64(b[i:], vk.Mix(key+uint64(i/8)))
	}
	b = b[:n:n]
	if kind == "string" {
		for i, c := range b {
			b[i] = 0x20 + c%0x5f
		}
	}
	return b
}

// GenLogLen draws a length in [0, maxLen] whose magnitude (bit length) is uniform: every octave
// [2^k, 2^(k+1)) up to the maximum is met equally often, uniformly inside the octave.
func GenLogLen(t *rapid.T, maxLen int, label string) int {
	if maxLen <= 0 {
		return 0
	}
	nb := bits.Len(uint(maxLen)) // magnitudes 0..nb
	b := gen.Uniform(t, nb+1, label+".bits")
	if b == 0 {
		return 0
	}
	lo := 1 << uint(b-1)
	n := lo + gen.Uniform(t, lo, label+".in")
	return min(n, maxLen)
}

// RoundPieces are sizes in which implementations typically move a body (buffer / piece sizes that are
// not all powers of two).
var RoundPieces = []int{512, 1000, 1024, 1460, 1500, 4000, 4096, 8192, 10000, 12288, 16384, 32768, 49152, 65536, 100000, 131072, 1 << 18, 1 << 19, 1000000, 1 << 20}

// GenRoundLen draws j*q + d <= maxLen: q a round piece size, j >= 1, d in {-33,-32,-31,-1,0,1} (the
// multiple counted for the body alone and for header+body).
func GenRoundLen(t *rapid.T, maxLen int, label string) int {
	var fit []int
	for _, q := range RoundPieces {
		if q <= maxLen {
			fit = append(fit, q)
		}
	}
	if len(fit) == 0 {
		return GenLogLen(t, maxLen, label)
	}
	q := fit[gen.Uniform(t, len(fit), label+".piece")]
	j := 1 + gen.Uniform(t, min(maxLen/q, 9), label+".mult")
	d := []int{-33, -32, -31, -1, 0, 0, 1}[gen.Uniform(t, 7, label+".delta")]
	return min(max(j*q+d, 0), maxLen)
}

// GenLongFrame draws a frame of kind raw / bytes / string whose payload length comes from GenLogLen
// (2 of 3) or GenRoundLen (1 of 3), for kinds bytes/string half of the time reduced by the protobuf
// tag+length prefix so that the BODY has the drawn length. Payloads above 600 bytes are stored in the
// compact fill form.
func GenLongFrame(t *rapid.T, maxPayload int) FrameJ {
	f := FrameJ{Kind: []string{"raw", "raw", "bytes", "string"}[gen.Uniform(t, 4, "lkind")]}
	var n int
	if gen.Chance(t, 1, 3, "round") {
		n = GenRoundLen(t, maxPayload, "rlen")
	} else {
		n = GenLogLen(t, maxPayload, "llen")
	}
	if f.Kind != "raw" && gen.Chance(t, 1, 2, "bodylen") {
		// the smallest payload whose BODY (tag, varint length, payload) has at least n bytes
		p := max(n-6, 0)
		for 1+len(varint(uint64(p)))+p < n {
			p++
		}
		n = min(p, maxPayload)
	}
	if n > 600 {
		f.FillLen, f.FillKey = n, vk.U64(gen.U64(t, "fillkey"))
	} else if f.Kind == "string" {
		f.Payload = Fill("string", n, gen.U64(t, "fillkey"))
	} else {
		f.Payload = gen.BytesN(t, n, "payload")
	}
	if gen.Chance(t, 1, 2, "versioned") {
		f.Versioned = true
		f.Ver = GenVersion(t)
	}
	return f
}

// LenSweep lists, for every octave 2^lo .. 2^hi, the lengths 2^k-33, 2^k-32, 2^k-31, 2^k-1, 2^k,
// 2^k+1, the same around 3*2^(k-1), and two keyed lengths strictly inside each half octave; plus the
// decimal round numbers 10^d, 5*10^d in range (+-0, -32).
func LenSweep(lo, hi uint, key uint64) []int {
	var out []int
	seen := map[int]bool{}
	add := func(n int) {
		if n >= 0 && !seen[n] {
			seen[n] = true
			out = append(out, n)
		}
	}
	for k := lo; k <= hi; k++ {
		for _, c := range []int{1 << k, 3 << (k - 1)} {
			if k == hi && c != 1<<k {
				break
			}
			for _, d := range []int{-33, -32, -31, -1, 0, 1} {
				add(c + d)
			}
		}
		if half := 1 << (k - 1); k < hi && half > 48 {
			add(1<<k + 2 + int(vk.Mix(key+uint64(k)*4)%uint64(half-40)))
			add(1<<k + half + 2 + int(vk.Mix(key+uint64(k)*4+1)%uint64(half-40)))
		}
	}
	for d := 1000; d < 1<<hi; d *= 10 {
		for _, m := range []int{1, 5} {
			if n := d * m; n >= 1<<lo && n <= 1<<hi {
				add(n)
				add(n - 32)
			}
		}
	}
	return out
}

// Into puts the content of frame f into the existing message object m (the caller re-uses one message for several frames:
// fill, Size, fill again, Marshal). It reports false when m is not the message type of f.
func (f Frame) Into(m proto.Message) bool {
	switch x := m.(type) {
	case *RawV:
		if f.Kind != "raw" || !f.Versioned {
			return false
		}
		x.B, x.Ver = append([]byte(nil), f.Payload...), string(f.Ver)
	case *Raw:
		if f.Kind != "raw" || f.Versioned {
			return false
		}
		x.B = append([]byte(nil), f.Payload...)
	case *RawM:
		if f.Kind != "rawm" {
			return false
		}
		x.B = append([]byte(nil), f.Payload...)
	case *BytesV:
		if f.Kind != "bytes" || !f.Versioned {
			return false
		}
		x.BytesValue.Value, x.Ver = append([]byte(nil), f.Payload...), string(f.Ver)
	case *wrapperspb.BytesValue:
		if f.Kind != "bytes" || f.Versioned {
			return false
		}
		x.Value = append([]byte(nil), f.Payload...)
	case *StringV:
		if f.Kind != "string" || !f.Versioned {
			return false
		}
		x.StringValue.Value, x.Ver = string(f.Payload), string(f.Ver)
	case *wrapperspb.StringValue:
		if f.Kind != "string" || f.Versioned {
			return false
		}
		x.Value = string(f.Payload)
	case *wrapperspb.Int64Value:
		if f.Kind != "int64" {
			return false
		}
		x.Value = f.Int
	case *structpb.ListValue:
		if f.Kind != "list" || f.Versioned {
			return false
		}
		fillList(x, f.Payload)
	case *ListV:
		if f.Kind != "list" || !f.Versioned {
			return false
		}
		fillList(x.ListValue, f.Payload)
		x.Ver = string(f.Ver)
	default:
		return false
	}
	return true
}

package pbm

import (
	"bytes"
	"testing"

	proto "github.com/golang/protobuf/proto"
	"pgregory.net/rapid"
)

// Self-test of the oracle for kind "list": the hand-written encoder agrees with the protobuf library on
// new messages, on messages filled a second time in place (Into) and the round trip into empty and
// dirty destinations compares equal; a different payload does not.
func TestListEncoderAgreesWithProtobuf(t *testing.T) {
	rapid.Check(t, func(t *rapid.T) {
		draw := func(label string) []byte {
			if rapid.Bool().Draw(t, label+".long") {
				return Fill("list", rapid.IntRange(0, 40000).Draw(t, label+".n"), rapid.Uint64().Draw(t, label+".key"))
			}
			return rapid.SliceOfN(rapid.Byte(), 0, 300).Draw(t, label)
		}
		ver := rapid.Bool().Draw(t, "versioned")
		f := Frame{Kind: "list", Payload: draw("p"), Versioned: ver, Ver: []byte("1.2.3")}
		g := Frame{Kind: "list", Payload: draw("q"), Versioned: ver, Ver: []byte("4.5")}
		m := f.Message()
		got, err := proto.Marshal(m)
		if err != nil || !bytes.Equal(got, f.Body()) {
			t.Fatalf("protobuf %x (%v), hand-written %x", got, err, f.Body())
		}
		if proto.Size(m) != len(f.Body()) {
			t.Fatalf("proto.Size %d, hand-written %d", proto.Size(m), len(f.Body()))
		}
		if !g.Into(m) {
			t.Fatalf("Into refused %T", m)
		}
		if got, err = proto.Marshal(m); err != nil || !bytes.Equal(got, g.Body()) {
			t.Fatalf("filled again: protobuf %x (%v), hand-written %x", got, err, g.Body())
		}
		for _, d := range []proto.Message{g.Fresh(), g.Dirty()} {
			if err := proto.Unmarshal(got, d); err != nil {
				t.Fatalf("unmarshal: %v", err)
			}
			if ok, s := g.SameContent(d); !ok {
				t.Fatalf("round trip gives %s", s)
			}
			if ok, _ := f.SameContent(d); ok && !bytes.Equal(f.Payload, g.Payload) && !bytes.Equal(f.Body(), g.Body()) {
				t.Fatalf("content of another payload compares equal")
			}
		}
	})
}

package pbm

import (
	"bytes"
	"testing"

	proto "github.com/golang/protobuf/proto"
	"pgregory.net/rapid"
)

// The hand-written body encoder must agree with the real protobuf library
// (and the legacy path) on generated messages: self-test of the C06/C07 oracle.
func TestBodyEncoderAgreesWithProtobuf(t *testing.T) {
	rapid.Check(t, func(t *rapid.T) {
		f := Frame{Kind: rapid.SampledFrom(Kinds).Draw(t, "kind")}
		switch f.Kind {
		case "string":
			f.Payload = []byte(rapid.String().Draw(t, "s"))
		case "int64":
			f.Int = rapid.Int64().Draw(t, "i")
		default:
			f.Payload = rapid.SliceOfN(rapid.Byte(), 0, 300).Draw(t, "b")
		}
		f.Versioned = HasVersionedForm(f.Kind) && rapid.Bool().Draw(t, "v")
		got, err := proto.Marshal(f.Message())
		if err != nil {
			t.Fatalf("marshal: %v", err)
		}
		if !bytes.Equal(got, f.Body()) {
			t.Fatalf("kind %s: protobuf %x, hand-written %x", f.Kind, got, f.Body())
		}
		if proto.Size(f.Message()) != len(f.Body()) {
			t.Fatalf("kind %s: proto.Size %d, hand-written %d", f.Kind, proto.Size(f.Message()), len(f.Body()))
		}
		m := f.Fresh()
		if err := proto.Unmarshal(got, m); err != nil {
			t.Fatalf("unmarshal: %v", err)
		}
		if ok, s := f.SameContent(m); !ok {
			t.Fatalf("kind %s: round trip gives %s", f.Kind, s)
		}
	})
}

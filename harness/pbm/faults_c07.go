package pbm

// FaultWriter is a destination that fails after accepting exactly Limit bytes, in the flavours an
// io.Writer may show (LimitWriter is the flavour {Full: false, Once: false}):
//
//   - the Write call that would cross the limit accepts the bytes that still fit and returns
//     (that count, ErrInjected): a partial write;
//   - Full: a Write call whose bytes END exactly at the limit accepts all of p and returns
//     (len(p), ErrInjected) - io.Writer only demands a non-nil error for n < len(p), it does not
//     forbid one for n == len(p) (a flush / sync that fails after the data was taken);
//   - Once: the failure is transient (a deadline, EAGAIN): every later Write is accepted and lands in
//     Buf behind the first Limit bytes, so bytes handed over after the failure become visible;
//     otherwise the writer stays broken and later calls return (0, ErrInjected).
//
// Calls / bytes offered after the failing call are counted either way.
type FaultWriter struct {
	Limit      int
	Full       bool
	Once       bool
	Buf        []byte
	Failed     bool
	CallsAfter int
	BytesAfter int
}

func (w *FaultWriter) Write(p []byte) (int, error) {
	if w.Failed {
		w.CallsAfter++
		w.BytesAfter += len(p)
		if w.Once {
			w.Buf = append(w.Buf, p...)
			return len(p), nil
		}
		return 0, ErrInjected
	}
	room := w.Limit - len(w.Buf)
	if len(p) > room {
		w.Buf = append(w.Buf, p[:max(room, 0)]...)
		w.Failed = true
		return max(room, 0), ErrInjected
	}
	w.Buf = append(w.Buf, p...)
	if w.Full && len(p) == room && len(p) > 0 {
		w.Failed = true
		return len(p), ErrInjected
	}
	return len(p), nil
}

// Flavour names the writer's behaviour (for messages and class labels).
func (w *FaultWriter) Flavour() string {
	s := "partial"
	if w.Full {
		s = "full-count+error"
	}
	if w.Once {
		return s + ",transient"
	}
	return s + ",sticky"
}

package pbm

import (
	"bytes"
	"unicode/utf8"

	"pgregory.net/rapid"

	"verif/harness/gen"
	"verif/harness/vk"
)

// FrameJ is the JSON form of a frame inside a case.
type FrameJ struct {
	Kind      string `json:"kind"`
	Payload   vk.Hex `json:"payload,omitempty"`
	Int       int64  `json:"int,omitempty"`
	Versioned bool   `json:"versioned,omitempty"`
	Ver       vk.Hex `json:"ver,omitempty"`
	// FillLen > 0 (Payload empty): the payload is FillLen bytes expanded from FillKey (see Fill in
	// gen_c06.go). Keeps cases with payloads of many KB / MB small on disk and cheap to hash.
	FillLen int    `json:"fill_len,omitempty"`
	FillKey vk.U64 `json:"fill_key,omitempty"`
}

// PB converts to the working form.
func (f FrameJ) PB() Frame {
	p := []byte(f.Payload)
	if f.FillLen > 0 && len(p) == 0 && f.Kind != "int64" && f.Kind != "empty" {
		p = Fill(f.Kind, f.FillLen, uint64(f.FillKey))
	}
	return Frame{Kind: f.Kind, Payload: p, Int: f.Int, Versioned: f.Versioned, Ver: f.Ver}
}

var payloadLens = []int{0, 1, 2, 31, 32, 33, 127, 128, 129, 255, 256, 1000, 4095, 4096, 16383, 16384, 16385}

var versionShapes = []string{"v1.2.3", "V1.2.3", "v1", "V2", "v0.0.1", "v", "V", "vv1.0", "v.1", "version1", "1.0.0-rc.1", "1.0.0+build.5",
	"1.0.0-alpha+001", "0.0.0", "0", "00.01.002", "9999.9999.99999", "1.2", "1.2.3.4", "1..2", ".1.2", "1.2.", " 1.2.3", "1.2.3 ", "1.2.3\n",
	"\t1.0", "latest", "HEAD", "r123", "1.2.3-", "-1.2.3", "+1", "1.0.0-0.3.7", "1.0.0-x.7.z.92", "v1.0.0-rc1+b7", "=1.2.3", "^1.2.3", "~1.2", "1.x", "*"}

const versionAlphabet = "0123456789.-+vVabrcxXRC_ "

// GenVersion draws a version of 0..16 bytes not ending in NUL.
func GenVersion(t *rapid.T) []byte {
	switch gen.Uniform(t, 9, "verclass") {
	case 6: // the shapes versions have in the wild: tag prefixes, pre-release / build suffixes, padding, odd spellings
		return []byte(versionShapes[gen.Uniform(t, len(versionShapes), "vershape")])
	case 7, 8: // 1..16 bytes over the alphabet of version strings (so that "looks like a version" code paths are taken)
		n := 1 + gen.Uniform(t, 16, "verlen2")
		v := make([]byte, n)
		for i := range v {
			v[i] = versionAlphabet[gen.Uniform(t, len(versionAlphabet), "verch")]
		}
		return v
	case 0:
		return []byte{}
	case 1:
		return []byte("1.0.0")
	case 2:
		return []byte("1.2.3")
	case 3: // exactly 16 bytes
		v := gen.BytesN(t, 16, "ver16")
		if v[15] == 0 {
			v[15] = 'z'
		}
		return v
	default:
		n := gen.Uniform(t, 17, "verlen")
		v := gen.BytesN(t, n, "ver")
		if n > 0 && v[n-1] == 0 {
			v[n-1] = 0x01
		}
		return v
	}
}

// GenFrame draws one frame with a payload of at most maxPayload bytes.
func GenFrame(t *rapid.T, maxPayload int) FrameJ {
	f := FrameJ{Kind: Kinds[gen.Uniform(t, len(Kinds), "kind")]}
	n := payloadLens[gen.Uniform(t, len(payloadLens), "plen")]
	switch gen.Uniform(t, 6, "lenclass") {
	case 0, 1:
		n = gen.Uniform(t, 300, "plen2")
	case 2:
		n = gen.Uniform(t, 5000, "plen4")
	case 3, 4:
		// around every power of two, counted for the body alone and for header+body (2^k-32),
		// and a few bytes less for the protobuf tag/length prefix of wrapped payloads
		k := 5 + gen.Uniform(t, 10, "pow")
		n = 1<<uint(k) - 32*gen.Uniform(t, 2, "hdr") - gen.Uniform(t, 2, "tag")*(2+k/7) + gen.Uniform(t, 7, "d") - 3
		if n < 0 {
			n = 0
		}
	}
	if vk.Thorough() && gen.Chance(t, 1, 10, "huge") {
		n = 16384 + gen.Uniform(t, 65536-16384+1, "plen3")
	}
	n = min(n, maxPayload)
	switch f.Kind {
	case "string":
		// valid UTF-8 only: ASCII with some multi-byte runes, cut at a rune boundary
		b := make([]byte, 0, n)
		for len(b) < n {
			if gen.Chance(t, 1, 8, "rune") && len(b)+3 <= n {
				b = append(b, "€"...)
			} else {
				b = append(b, byte(0x20+gen.Uniform(t, 0x5f, "ascii")))
			}
		}
		if !utf8.Valid(b) {
			b = bytes.ToValidUTF8(b, []byte("?"))
		}
		f.Payload = b
	case "int64":
		switch gen.Uniform(t, 5, "iclass") {
		case 0:
			f.Int = 0
		case 1:
			f.Int = -1
		case 2:
			f.Int = 127 + int64(gen.Uniform(t, 3, "d"))
		default:
			f.Int = int64(gen.U64(t, "int"))
		}
	case "empty":
	default:
		if n > 600 { // long payloads: a drawn key expanded deterministically (keeps cases small to draw)
			key := gen.U64(t, "pkey")
			b := make([]byte, n)
			for i := range b {
				b[i] = byte(vk.Mix(key+uint64(i/8)) >> (8 * uint(i%8)))
			}
			f.Payload = b
		} else {
			f.Payload = gen.BytesN(t, n, "payload")
		}
	}
	if HasVersionedForm(f.Kind) && gen.Chance(t, 1, 2, "versioned") {
		f.Versioned = true
		f.Ver = GenVersion(t)
	}
	return f
}

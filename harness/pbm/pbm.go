// Package pbm holds what C06 and C07 share: the message kinds the harness
// brings along (real protobuf wrappers and legacy Marshal/Unmarshal messages,
// each also in a versioned form), the hand-written wire encoder (the oracle
// for the bytes of a frame) and readers/writers with controllable chunking
// and faults.
package pbm

import (
	"bufio"
	"bytes"
	"encoding/binary"
	"errors"
	"fmt"
	"io"
	"strings"
	"testing/iotest"

	proto "github.com/golang/protobuf/proto"
	"google.golang.org/protobuf/types/known/emptypb"
	"google.golang.org/protobuf/types/known/structpb"
	"google.golang.org/protobuf/types/known/wrapperspb"
)

// ---------------------------------------------------------------- messages

// Raw is a legacy message (own Marshal/Unmarshal, like the repository's header type):
// every byte string is a valid body.
type Raw struct{ B []byte }

func (m *Raw) Marshal() ([]byte, error) { return append([]byte(nil), m.B...), nil }
func (m *Raw) Unmarshal(b []byte) error { m.B = append([]byte(nil), b...); return nil }
func (m *Raw) Reset()                   { *m = Raw{} }
func (m *Raw) String() string           { return fmt.Sprintf("raw(%d bytes)", len(m.B)) }
func (m *Raw) ProtoMessage()            {}

// RawV is Raw carrying a version.
type RawV struct {
	B   []byte
	Ver string
}

func (m *RawV) Marshal() ([]byte, error) { return append([]byte(nil), m.B...), nil }
func (m *RawV) Unmarshal(b []byte) error { m.B = append([]byte(nil), b...); return nil }
func (m *RawV) Reset()                   { m.B = nil }
func (m *RawV) String() string           { return fmt.Sprintf("rawv(%d bytes)", len(m.B)) }
func (m *RawV) ProtoMessage()            {}
func (m *RawV) GetVersion() string       { return m.Ver }

// versioned real protobuf messages
type BytesV struct {
	*wrapperspb.BytesValue
	Ver string
}

func (m *BytesV) GetVersion() string { return m.Ver }

type StringV struct {
	*wrapperspb.StringValue
	Ver string
}

func (m *StringV) GetVersion() string { return m.Ver }

// Frame describes one message to be framed.
type Frame struct {
	Kind      string `json:"kind"` // raw | bytes | string | int64 | empty | list (list_c06.go)
	Payload   []byte `json:"-"`
	PayloadHx string `json:"payload_hex,omitempty"`
	Int       int64  `json:"int,omitempty"`
	Versioned bool   `json:"versioned,omitempty"`
	Ver       []byte `json:"-"`
	VerHx     string `json:"ver_hex,omitempty"`
}

// Kinds lists the message kinds; versioned forms exist for raw, bytes, string.
var Kinds = []string{"raw", "bytes", "string", "int64", "empty"}

// HasVersionedForm reports whether a kind has a versioned wrapper.
func HasVersionedForm(kind string) bool {
	return kind == "raw" || kind == "bytes" || kind == "string" || kind == "list"
}

// Message builds the proto.Message of a frame.
func (f Frame) Message() proto.Message {
	switch f.Kind {
	case "raw":
		if f.Versioned {
			return &RawV{B: append([]byte(nil), f.Payload...), Ver: string(f.Ver)}
		}
		return &Raw{B: append([]byte(nil), f.Payload...)}
	case "bytes":
		m := &wrapperspb.BytesValue{Value: append([]byte(nil), f.Payload...)}
		if f.Versioned {
			return &BytesV{BytesValue: m, Ver: string(f.Ver)}
		}
		return m
	case "string":
		m := &wrapperspb.StringValue{Value: string(f.Payload)}
		if f.Versioned {
			return &StringV{StringValue: m, Ver: string(f.Ver)}
		}
		return m
	case "int64":
		return &wrapperspb.Int64Value{Value: f.Int}
	case "list":
		return f.listMessage(newList(f.Payload))
	case "rawm":
		return &RawM{B: append([]byte(nil), f.Payload...)}
	}
	return &emptypb.Empty{}
}

// Fresh builds an empty message of the same kind to unmarshal into.
func (f Frame) Fresh() proto.Message {
	switch f.Kind {
	case "raw":
		if f.Versioned {
			return &RawV{Ver: string(f.Ver)}
		}
		return &Raw{}
	case "bytes":
		if f.Versioned {
			return &BytesV{BytesValue: &wrapperspb.BytesValue{}, Ver: string(f.Ver)}
		}
		return &wrapperspb.BytesValue{}
	case "string":
		if f.Versioned {
			return &StringV{StringValue: &wrapperspb.StringValue{}, Ver: string(f.Ver)}
		}
		return &wrapperspb.StringValue{}
	case "int64":
		return &wrapperspb.Int64Value{}
	case "list":
		return f.listMessage(&structpb.ListValue{})
	case "rawm":
		return &RawM{}
	}
	return &emptypb.Empty{}
}

// Dirty builds a message of the same kind that already holds other content (a destination that is
// reused for several frames): decoding must replace that content, not merge with it.
func (f Frame) Dirty() proto.Message {
	stale := []byte("stale content left over from an earlier frame")
	switch f.Kind {
	case "raw":
		if f.Versioned {
			return &RawV{B: stale, Ver: string(f.Ver)}
		}
		return &Raw{B: stale}
	case "bytes":
		if f.Versioned {
			return &BytesV{BytesValue: &wrapperspb.BytesValue{Value: stale}, Ver: string(f.Ver)}
		}
		return &wrapperspb.BytesValue{Value: stale}
	case "string":
		if f.Versioned {
			return &StringV{StringValue: &wrapperspb.StringValue{Value: string(stale)}, Ver: string(f.Ver)}
		}
		return &wrapperspb.StringValue{Value: string(stale)}
	case "int64":
		return &wrapperspb.Int64Value{Value: 7777}
	case "list":
		return f.listMessage(dirtyList())
	case "rawm":
		return &RawM{B: stale}
	}
	return &emptypb.Empty{}
}

// WrapReader puts a standard-library reader type around (or in place of) a reader over data:
// implementations sometimes special-case these types.
func WrapReader(kind string, data []byte) io.Reader {
	switch kind {
	case "bufio":
		return bufio.NewReader(bytes.NewReader(data))
	case "bufio16":
		return bufio.NewReaderSize(&ChunkReader{Data: data, Mode: "sizes", Sizes: []int{5, 300}, ErrAt: -1}, 16)
	case "bytes.Reader":
		return bytes.NewReader(data)
	case "bytes.Buffer":
		return bytes.NewBuffer(append([]byte(nil), data...))
	case "strings.Reader":
		return strings.NewReader(string(data))
	case "LimitReader":
		return io.LimitReader(bytes.NewReader(data), int64(len(data)))
	case "iotest.DataErrReader":
		return iotest.DataErrReader(bytes.NewReader(data))
	case "iotest.HalfReader":
		return iotest.HalfReader(bytes.NewReader(data))
	}
	return bytes.NewReader(data)
}

// StdReaders lists the kinds WrapReader knows.
var StdReaders = []string{"bufio", "bufio16", "bytes.Reader", "bytes.Buffer", "strings.Reader", "LimitReader", "iotest.DataErrReader", "iotest.HalfReader"}

// SameContent compares a decoded message with the frame's content (the description of the decoded
// content is only built when it differs: payloads can have megabytes).
func (f Frame) SameContent(m proto.Message) (bool, string) {
	hx := func(ok bool, b []byte) (bool, string) {
		if ok {
			return true, ""
		}
		return false, fmt.Sprintf("%x", b)
	}
	switch x := m.(type) {
	case *Raw:
		return hx(bytes.Equal(x.B, f.Payload), x.B)
	case *RawV:
		return hx(bytes.Equal(x.B, f.Payload), x.B)
	case *RawM:
		return hx(bytes.Equal(x.B, f.Payload), x.B)
	case *wrapperspb.BytesValue:
		return hx(bytes.Equal(x.Value, f.Payload), x.Value)
	case *BytesV:
		return hx(bytes.Equal(x.Value, f.Payload), x.Value)
	case *wrapperspb.StringValue:
		return x.Value == string(f.Payload), fmt.Sprintf("%.300q", x.Value)
	case *StringV:
		return x.Value == string(f.Payload), fmt.Sprintf("%.300q", x.Value)
	case *wrapperspb.Int64Value:
		return x.Value == f.Int, fmt.Sprint(x.Value)
	case *emptypb.Empty:
		return true, "empty"
	case *structpb.ListValue:
		return f.sameList(x)
	case *ListV:
		return f.sameList(x.ListValue)
	}
	return false, fmt.Sprintf("unexpected type %T", m)
}

// ---------------------------------------------------------------- wire oracle

func varint(v uint64) []byte {
	var b []byte
	for v >= 0x80 {
		b = append(b, byte(v)|0x80)
		v >>= 7
	}
	return append(b, byte(v))
}

// Body is the hand-written encoding of the frame's message body.
func (f Frame) Body() []byte {
	switch f.Kind {
	case "raw", "rawm":
		return append([]byte(nil), f.Payload...)
	case "bytes", "string":
		if len(f.Payload) == 0 {
			return nil
		}
		b := append([]byte{0x0a}, varint(uint64(len(f.Payload)))...)
		return append(b, f.Payload...)
	case "int64":
		if f.Int == 0 {
			return nil
		}
		return append([]byte{0x08}, varint(uint64(f.Int))...)
	case "list":
		return listBody(f.Payload)
	}
	return nil
}

// DefaultVer is the version written for messages that carry none (from the package doc).
const DefaultVer = "1.0.0"

// WantVersion is the version a reader must see.
func (f Frame) WantVersion() string {
	if f.Versioned {
		return string(f.Ver)
	}
	return DefaultVer
}

// Header builds the 32 header bytes: version NUL padded to 16, LE64(32), LE64(bodyLen).
func Header(ver string, headerSize, bodySize uint64) []byte {
	h := make([]byte, 32)
	copy(h[:16], ver)
	binary.LittleEndian.PutUint64(h[16:], headerSize)
	binary.LittleEndian.PutUint64(h[24:], bodySize)
	return h
}

// Wire is the expected byte image of the whole frame.
func (f Frame) Wire() []byte {
	body := f.Body()
	return append(Header(f.WantVersion(), 32, uint64(len(body))), body...)
}

// ---------------------------------------------------------------- readers

// ChunkReader hands out the stream according to a chunking plan and counts
// what it handed out. Modes: whole, one, sizes (cycling Sizes), eofdata (the
// last chunk comes together with io.EOF), zero (a (0,nil) read before every
// second chunk).
type ChunkReader struct {
	Data     []byte
	Mode     string
	Sizes    []int
	Consumed int
	calls    int
	// ErrAt >= 0 injects Err once Consumed reaches ErrAt: together with the
	// last good bytes when ErrWith, else on the following call. Sticky.
	ErrAt   int
	ErrWith bool
	Err     error
}

func NewChunkReader(data []byte, mode string, sizes []int) *ChunkReader {
	return &ChunkReader{Data: data, Mode: mode, Sizes: sizes, ErrAt: -1}
}

func (r *ChunkReader) Read(p []byte) (int, error) {
	r.calls++
	limit := len(r.Data)
	if r.ErrAt >= 0 && r.ErrAt < limit {
		limit = r.ErrAt
	}
	if len(p) == 0 {
		return 0, nil
	}
	if r.Consumed >= limit {
		if r.ErrAt >= 0 && r.ErrAt <= len(r.Data) && r.Consumed >= r.ErrAt {
			return 0, r.Err
		}
		return 0, io.EOF
	}
	if r.Mode == "zero" && r.calls%2 == 1 {
		return 0, nil
	}
	n := len(p)
	switch r.Mode {
	case "one":
		n = 1
	case "sizes", "zero", "eofdata":
		if len(r.Sizes) > 0 {
			n = max(1, r.Sizes[r.calls%len(r.Sizes)])
		}
	}
	n = min(n, len(p), limit-r.Consumed)
	copy(p, r.Data[r.Consumed:r.Consumed+n])
	r.Consumed += n
	if r.Consumed == limit {
		if r.ErrAt >= 0 && r.ErrAt <= len(r.Data) && r.ErrWith {
			return n, r.Err
		}
		if r.Mode == "eofdata" && !(r.ErrAt >= 0 && r.ErrAt <= len(r.Data)) {
			return n, io.EOF
		}
	}
	return n, nil
}

// CountingReader wraps any reader and counts the bytes handed out.
type CountingReader struct {
	R        io.Reader
	Consumed int
}

func (c *CountingReader) Read(p []byte) (int, error) {
	n, err := c.R.Read(p)
	c.Consumed += n
	return n, err
}

// ---------------------------------------------------------------- writers

// ErrInjected is what failing writers/readers return.
var ErrInjected = errors.New("injected fault")

// LimitWriter accepts exactly Limit bytes in total, then fails: the call that
// crosses the limit returns (the bytes that still fit, ErrInjected).
type LimitWriter struct {
	Limit int
	Buf   []byte
}

func (w *LimitWriter) Write(p []byte) (int, error) {
	room := w.Limit - len(w.Buf)
	if len(p) > room {
		w.Buf = append(w.Buf, p[:max(room, 0)]...)
		return max(room, 0), ErrInjected
	}
	w.Buf = append(w.Buf, p...)
	return len(p), nil
}

// MemWriterAt is an in-memory io.WriterAt (for iohelper.AtToWriter sinks).
type MemWriterAt struct{ Buf []byte }

func (m *MemWriterAt) WriteAt(p []byte, off int64) (int, error) {
	end := int(off) + len(p)
	if end > len(m.Buf) {
		m.Buf = append(m.Buf, make([]byte, end-len(m.Buf))...)
	}
	copy(m.Buf[off:], p)
	return len(p), nil
}

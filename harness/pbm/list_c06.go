package pbm

import (
	"encoding/binary"
	"fmt"
	"math"

	proto "github.com/golang/protobuf/proto"
	"google.golang.org/protobuf/reflect/protoreflect"
	"google.golang.org/protobuf/types/known/structpb"
	"pgregory.net/rapid"

	"verif/harness/gen"
	"verif/harness/vk"
)

// Kind "list": a message with STRUCTURE (the other kinds are flat one-field wrappers, whose encoding is
// the same whatever the encoder does about sub-messages). A structpb.ListValue is built from the payload:
// the payload is cut into pieces (lengths taken from its own bytes, scaled for long payloads so that a
// list has at most a few dozen items), piece i becomes item i in one of four shapes
//
//	0  "piece"                       Value{string}
//	1  ["piece", bool]               Value{ListValue{Value{string}, Value{bool}}}
//	2  {"k<i>": "piece"}             Value{Struct{map entry -> Value{string}}}
//	3  [["piece"], number]           Value{ListValue{Value{ListValue{Value{string}}}, Value{number}}}
//
// (pieces mapped to printable ASCII: string values must be valid UTF-8), so every item is a length
// prefixed sub-message, most of them with sub-messages of their own, with length prefixes of one, two
// and more bytes. Payload lengths with len%7 == 3 also carry two unknown fields (numbers 15 and 14),
// which an encoder writes behind the known ones and a decoder must keep.

// KindsC06 is Kinds plus the structured kind.
var KindsC06 = append(append([]string(nil), Kinds...), "list", "rawm")

// RawM (kind "rawm") is a legacy message like Raw whose Unmarshal method MERGES: it appends to what the message
// holds, as the Unmarshal methods of generated code do. proto.Unmarshal resets the message first, so decoding a frame
// into a destination that already holds content still yields exactly the frame's content; a decoder that calls the
// method directly (or merges) does not.
type RawM struct{ B []byte }

func (m *RawM) Marshal() ([]byte, error) { return append([]byte(nil), m.B...), nil }
func (m *RawM) Unmarshal(b []byte) error { m.B = append(m.B, b...); return nil }
func (m *RawM) Reset()                   { m.B = nil }
func (m *RawM) String() string           { return fmt.Sprintf("rawm(%d bytes)", len(m.B)) }
func (m *RawM) ProtoMessage()            {}

// ListV is a versioned ListValue.
type ListV struct {
	*structpb.ListValue
	Ver string
}

func (m *ListV) GetVersion() string { return m.Ver }

type listItem struct {
	shape int
	s     string
	key   string
	flag  bool
}

func listPlan(p []byte) []listItem {
	step := 1 + len(p)/2048
	var out []listItem
	for pos, i := 0, 0; pos < len(p); i++ {
		c := p[pos]
		n := min(1+int(c%67)*(1+int(c&3))*step, len(p)-pos)
		s := make([]byte, n)
		for j, b := range p[pos : pos+n] {
			s[j] = 0x20 + b%0x5f
		}
		out = append(out, listItem{shape: (int(c) + i) % 4, s: string(s), key: fmt.Sprintf("k%d", i), flag: c&4 != 0})
		pos += n
	}
	return out
}

// ListHasUnknown reports whether a list message of n payload bytes carries unknown fields.
func ListHasUnknown(n int) bool { return n%7 == 3 }

func listUnknown(n int) []byte {
	if !ListHasUnknown(n) {
		return nil
	}
	b := append([]byte{0x78}, varint(uint64(n))...) // field 15, varint
	return append(b, 0x72, 0x03, 'u', 'n', 'k')     // field 14, 3 bytes
}

func strValue(s string) *structpb.Value {
	return &structpb.Value{Kind: &structpb.Value_StringValue{StringValue: s}}
}

func listValue(vs ...*structpb.Value) *structpb.Value {
	return &structpb.Value{Kind: &structpb.Value_ListValue{ListValue: &structpb.ListValue{Values: vs}}}
}

func (it listItem) value() *structpb.Value {
	switch it.shape {
	case 0:
		return strValue(it.s)
	case 1:
		return listValue(strValue(it.s), &structpb.Value{Kind: &structpb.Value_BoolValue{BoolValue: it.flag}})
	case 2:
		return &structpb.Value{Kind: &structpb.Value_StructValue{StructValue: &structpb.Struct{Fields: map[string]*structpb.Value{it.key: strValue(it.s)}}}}
	}
	return listValue(listValue(strValue(it.s)), &structpb.Value{Kind: &structpb.Value_NumberValue{NumberValue: float64(len(it.s))}})
}

func lenDelim(tag byte, b []byte) []byte {
	out := make([]byte, 0, len(b)+6)
	out = append(out, tag)
	out = append(out, varint(uint64(len(b)))...)
	return append(out, b...)
}

// enc is the hand-written encoding of the item's Value message.
func (it listItem) enc() []byte {
	str := lenDelim(0x1a, []byte(it.s)) // Value.string_value = 3
	switch it.shape {
	case 0:
		return str
	case 1:
		flag := []byte{0x20, 0} // Value.bool_value = 4 (member of a oneof: written also when false)
		if it.flag {
			flag[1] = 1
		}
		return lenDelim(0x32, append(lenDelim(0x0a, str), lenDelim(0x0a, flag)...)) // Value.list_value = 6 { values = 1 ... }
	case 2:
		entry := append(lenDelim(0x0a, []byte(it.key)), lenDelim(0x12, str)...) // map entry: key = 1, value = 2
		return lenDelim(0x2a, lenDelim(0x0a, entry))                            // Value.struct_value = 5 { fields = 1 }
	}
	num := make([]byte, 9) // Value.number_value = 2, fixed64
	num[0] = 0x11
	binary.LittleEndian.PutUint64(num[1:], math.Float64bits(float64(len(it.s))))
	inner := lenDelim(0x32, lenDelim(0x0a, str))
	return lenDelim(0x32, append(lenDelim(0x0a, inner), lenDelim(0x0a, num)...))
}

// listBody is the hand-written encoding of the ListValue built from payload p.
func listBody(p []byte) []byte {
	var b []byte
	for _, it := range listPlan(p) {
		b = append(b, lenDelim(0x0a, it.enc())...) // ListValue.values = 1
	}
	return append(b, listUnknown(len(p))...)
}

// fillList puts the content for payload p into x. Value objects x already holds are kept and given the new
// content (a caller that updates a message in place): whatever the protobuf runtime cached inside them for
// the older content is still there.
func fillList(x *structpb.ListValue, p []byte) {
	plan := listPlan(p)
	for i, it := range plan {
		nv := it.value()
		if i < len(x.Values) && x.Values[i] != nil {
			x.Values[i].Kind = nv.Kind
		} else if i < len(x.Values) {
			x.Values[i] = nv
		} else {
			x.Values = append(x.Values, nv)
		}
	}
	x.Values = x.Values[:len(plan)]
	x.ProtoReflect().SetUnknown(protoreflect.RawFields(listUnknown(len(p))))
}

func newList(p []byte) *structpb.ListValue {
	x := &structpb.ListValue{}
	fillList(x, p)
	return x
}

func dirtyList() *structpb.ListValue {
	x := &structpb.ListValue{Values: []*structpb.Value{strValue("stale item left over from an earlier frame"), listValue(strValue("stale nested item"))}}
	x.ProtoReflect().SetUnknown(protoreflect.RawFields([]byte{0x78, 0x07}))
	return x
}

func (f Frame) listMessage(x *structpb.ListValue) proto.Message {
	if f.Versioned {
		return &ListV{ListValue: x, Ver: string(f.Ver)}
	}
	return x
}

func (f Frame) sameList(x *structpb.ListValue) (bool, string) {
	if x == nil {
		return false, "no list"
	}
	if proto.Equal(x, newList(f.Payload)) {
		return true, ""
	}
	return false, fmt.Sprintf("list of %d items (%d unknown bytes): %.300s", len(x.GetValues()), len(x.ProtoReflect().GetUnknown()), x.String())
}

// GenListFrame draws a frame of kind list with a payload of at most maxPayload bytes: the boundary lengths
// of the other kinds, small lengths, and a log-uniform magnitude.
func GenListFrame(t *rapid.T, maxPayload int) FrameJ {
	f := FrameJ{Kind: "list"}
	var n int
	switch gen.Uniform(t, 4, "list.lenclass") {
	case 0:
		n = payloadLens[gen.Uniform(t, len(payloadLens), "list.plen")]
	case 1, 2:
		n = gen.Uniform(t, 400, "list.plen2")
	default:
		n = GenLogLen(t, maxPayload, "list.llen")
	}
	n = min(n, maxPayload)
	if n > 600 {
		f.FillLen, f.FillKey = n, vk.U64(gen.U64(t, "list.fillkey"))
	} else {
		f.Payload = gen.BytesN(t, n, "list.payload")
	}
	if gen.Chance(t, 1, 2, "list.versioned") {
		f.Versioned = true
		f.Ver = GenVersion(t)
	}
	return f
}

// Package c04 decides property C04: AllPaths and Decode enumerate exactly the
// stored nodes, in order.
package c04

import (
	"fmt"
	"slices"
	"strings"
	"testing"

	"github.com/openacid/low/bmtree"
	"pgregory.net/rapid"

	"verif/harness/gen"
	"verif/harness/model"
	"verif/harness/vk"
)

func TestMain(m *testing.M) { vk.Main(m, "C04") }

type Case struct {
	Op    string   `json:"op"`            // "allpaths" | "decode" | "maxdecode"
	Max   int      `json:"max,omitempty"` // maxdecode: bm is the maximum bitmap (exactly 2^25 words = 2^31 bits), description Max (gen.UseMax)
	Mask  int32    `json:"mask"`
	From  vk.U64   `json:"from,omitempty"`
	To    vk.U64   `json:"to,omitempty"`
	Class string   `json:"class,omitempty"`
	Bm    vk.Words `json:"bm,omitempty"`
	Prev  []int    `json:"prev,omitempty"` // decode: word counts; the same tree is decoded from the bitmap cut / zero-extended to each of them first
	Syn   *Syn     `json:"syn,omitempty"`  // decode: the bitmap is Syn.build(Mask) instead of Bm (bitmaps of 128 words and more)
}

// Syn describes a bitmap as a pure function of a few numbers, so that cases with thousands of words stay small on disk
// and in rapid's draw stream.
type Syn struct {
	Seed    vk.U64  `json:"seed"`
	Style   int     `json:"style"`             // index into synStyles
	Words   int     `json:"words"`             // length of the bitmap in words (may be shorter or longer than bitmapSize bits)
	Garbage bool    `json:"garbage,omitempty"` // bits at or beyond bitmapSize hold garbage instead of zeros
	Set     []int64 `json:"set,omitempty"`     // bit positions forced to 1 afterwards (those inside the bitmap)
	Clear   []int64 `json:"clear,omitempty"`   // bit positions forced to 0 afterwards
}

var synStyles = []string{"none", "all", "sparse", "half", "dense", "one", "words3mod4", "wordmix"}

const synMaxWords = 1<<25 + 8

func (s *Syn) build(mask int32) []uint64 {
	n := min(max(s.Words, 0), synMaxWords)
	bm := make([]uint64, n)
	seed := uint64(s.Seed)
	for i := range bm {
		r := vk.Mix(seed ^ vk.Mix(uint64(i)))
		switch s.Style {
		case 1:
			bm[i] = ^uint64(0)
		case 2:
			bm[i] = r & vk.Mix(r) & vk.Mix(r+1)
		case 3:
			bm[i] = r
		case 4:
			bm[i] = r | vk.Mix(r)
		case 6: // element-wise mix: only every fourth word is full, the others are empty
			if i%4 == 3 {
				bm[i] = ^uint64(0)
			}
		case 7: // element-wise mix: empty, full, random, sparse, single-bit and all-but-one words side by side
			switch r >> 61 {
			case 2, 3:
				bm[i] = ^uint64(0)
			case 4:
				bm[i] = vk.Mix(r)
			case 5:
				bm[i] = vk.Mix(r) & vk.Mix(r+1) & vk.Mix(r+2)
			case 6:
				bm[i] = 1 << (r & 63)
			case 7:
				bm[i] = ^(uint64(1) << (r & 63))
			}
		}
	}
	// bits at or beyond bitmapSize: zeros, or garbage
	for i := int(mask) / 64; i < n; i++ {
		lo := int64(i) * 64
		var valid uint64
		if lo < int64(mask) {
			valid = uint64(1)<<uint(int64(mask)-lo) - 1
		}
		bm[i] &= valid
		if s.Garbage {
			bm[i] |= vk.Mix(seed^0xdead^uint64(i)<<20) &^ valid
		}
	}
	for _, p := range s.Set {
		if p >= 0 && p < 64*int64(n) {
			bm[p/64] |= 1 << (uint64(p) % 64)
		}
	}
	for _, p := range s.Clear {
		if p >= 0 && p < 64*int64(n) {
			bm[p/64] &^= 1 << (uint64(p) % 64)
		}
	}
	return bm
}

// bitmap returns the bitmap argument of a decode case.
func (c Case) bitmap() []uint64 {
	if c.Syn != nil {
		return c.Syn.build(c.Mask)
	}
	return c.Bm
}

var checker = &vk.Checker[Case]{
	ID: "C04",
	Rule: "AllPaths: level masks of height 0..30 x (from,to) built around a centre with a span in the upper half that is 0 or log-uniform (every magnitude up to 2^11 equally often, 2^11..2^18 (thorough 2^21) in one case of 24: results of up to 2^19 paths) and lower halves from {0, a valid mask, ffffffff, random}, plus exact hits p, p+-1, from==to, from>to, to=0, from beyond the tree (upper half 2^h..2^h+4, 2^31-3..2^31+3, 2^32-1, the last 4096 values, any 32-bit value above 2^h; to = from+1, from + a span, the same upper half, 2^64-1, 2^63, ffffffff00000000, random above 2^63), to's upper half = 2^h-1, 2^h, 2^h+1 (right edge) at every height, full ranges for h<=12 and now and then up to h=17 (thorough 20); " +
		"oracle = per stored level enumerate candidate prefixes, encode, filter from<=p<to, sort; exact slice equality. Decode: masks of height <= 12 (thorough <= 16) with explicit bitmaps and (one decode case in 8) masks of height 13..18 (thorough ..21; weights fall with the height, Decode always walks the whole tree) with bitmaps given by a description (density styles incl. word-wise mixes of empty/full/random words, forced/cleared bits at the last node, at powers of two and at the ends) x any content, exact length, truncated (by 1..3 words or anywhere), empty (nil or empty non-nil), extended with garbage, garbage at bits >= bitmapSize; for a third (big: a fifth) of the cases the same tree is first decoded from the bitmap cut or zero-extended to other lengths (each result checked), so that a result depending on the previous call shows; oracle = pre-order walk with its own index; plus re-encoding through the library's PathToIndex (round trip; for height >= 13 the second Decode is skipped when the re-encoded bitmap equals the argument word for word). " +
		"Grid: all masks h<=5 (thorough <=7) x all (from,to) from {every path, every path+-1}, plus 14 values of from beyond the tree (2^h .. 2^64-1) x {the same 14, from+1, from+2^32, from+2^(h+32), from|ffffffff} as to and every ordinary from x those 14 as to; Decode on all masks h<=3 x all subsets; a deterministic size sweep: Decode at every height 4..19 (thorough ..22) on masks 2^h, 2^h+1, 2^(h+1)-1 and two arbitrary ones x {half of the nodes + the last one, all, only the last one, word mix extended with garbage, dense truncated} (fewer combinations from height 15 on), AllPaths on ranges of 2^12..2^17 (thorough 2^20) search values ending at the right edge for heights 13..30; in the process that varies GOMAXPROCS one of the Decode cases per height 13..16 (thorough ..19; two at height 16) and some of the ranges are evaluated under every setting. Non-trivial (AllPaths): non-empty result and a clip actually taken (a stored node in from's group lies below from, or one in to's group is >= to); (Decode): proper non-empty subset, h>=2. " +
		"Decode is also given the head of the MAXIMUM bitmap (a 2^25-word array, the largest one int32 positions address) for masks of height <= 8 on three descriptions and for four masks of height 12..18. " +
		"Results belong to the caller: the spare capacity of every returned slice is overwritten (not for the maximum bitmap) and the last 12 results (of those with more than 2^16 paths only the latest) stay under watch while the later calls of the case and the next cases run (up to 4096 paths re-read completely, longer ones head, tail and every 61st path; a result for a reused argument buffer / the maximum bitmap until that argument is rewritten; in the exhaustive AllPaths grid the previous result is re-read after each call; kind result-changed-after-return); no library call is added for this. " +
		"Grid cases distinct by construction; rapid cases hashed only outside the grid domain.",
	Check:    check,
	Classify: classify,
	KeepLen:  12,
	Hashed: func(c Case) bool {
		h := model.NewTree(c.Mask).H
		if c.Op == "decode" {
			return h > 3
		}
		return h > gridH()
	},
}

func gridH() int { return vk.Pick(5, 7) }

// wantAllPaths is the oracle of AllPaths; it also reports whether a clip was taken.
func wantAllPaths(mask int32, from, to uint64) (out []uint64, clipped bool) {
	if apMemo.ok && apMemo.mask == mask && apMemo.from == from && apMemo.to == to {
		return apMemo.out, apMemo.clipped
	}
	defer func() {
		if len(out) >= 1<<10 { // (the classifier and the check ask for the same case one after the other)
			apMemo.ok, apMemo.mask, apMemo.from, apMemo.to, apMemo.out, apMemo.clipped = true, mask, from, to, out, clipped
		}
	}()
	tr := model.NewTree(mask)
	h := tr.H
	fu, tu := from>>32, to>>32
	for l := 0; l <= h; l++ {
		if !tr.Stored[l] {
			continue
		}
		sh := uint(h - l)
		lo, hi := fu>>sh, tu>>sh
		maxB := uint64(1)<<uint(l) - 1
		if lo > 0 {
			lo--
		}
		if hi < maxB {
			hi++
		}
		if hi > maxB {
			hi = maxB
		}
		ones := (uint64(1)<<uint(l) - 1) << sh // a run of l ones, left-aligned in h bits (== the low half of model.PathWord(b, l, h))
		for b := lo; b <= hi; b++ {
			p := b<<sh<<32 | ones
			if p >= from && p < to {
				out = append(out, p)
			}
			if (p>>32 == fu && p < from) || (p>>32 == tu && p >= to) {
				clipped = true
			}
		}
	}
	slices.Sort(out)
	return out, clipped
}

// wantDecode is the oracle of Decode: pre-order walk, own index, own bit test.
func wantDecode(mask int32, bm []uint64) (out []uint64, stored int) {
	// (the classifier and the check ask for the same case one after the other: the last answer is kept)
	if memo.ok && memo.mask == mask && eq(memo.bm, bm) {
		return memo.out, memo.stored
	}
	out, stored = wantDecodeWalk(mask, bm)
	if mask >= 1<<10 {
		memo.ok, memo.mask, memo.out, memo.stored = true, mask, out, stored
		memo.bm = append(memo.bm[:0], bm...)
	}
	return out, stored
}

func wantDecodeWalk(mask int32, bm []uint64) (out []uint64, stored int) {
	tr := model.NewTree(mask)
	tr.Walk(func(prefix uint64, l int, st bool, index int64) {
		if !st {
			return
		}
		stored++
		if index < int64(64*len(bm)) && bm[index/64]>>(uint(index)%64)&1 == 1 {
			out = append(out, model.PathWord(prefix, l, tr.H))
		}
	})
	return out, stored
}

var apMemo struct {
	ok       bool
	mask     int32
	from, to uint64
	out      []uint64
	clipped  bool
}

var memo struct {
	ok     bool
	mask   int32
	bm     []uint64
	out    []uint64
	stored int
}

func eq(a, b []uint64) bool {
	if len(a) != len(b) {
		return false
	}
	for i := range a {
		if a[i] != b[i] {
			return false
		}
	}
	return true
}

func show(xs []uint64) string {
	if len(xs) > 12 {
		return fmt.Sprintf("%#x ... (%d paths)", xs[:12], len(xs))
	}
	return fmt.Sprintf("%#x", xs)
}

func showWords(bm []uint64) string {
	if len(bm) > 40 {
		return fmt.Sprintf("%#x ... %#x (%d words)", bm[:8], bm[len(bm)-4:], len(bm))
	}
	return fmt.Sprintf("%#x", bm)
}

func firstDiff(a, b []uint64) string {
	for i := 0; i < len(a) || i < len(b); i++ {
		switch {
		case i >= len(a):
			return fmt.Sprintf("position %d: got nothing, want %#x", i, b[i])
		case i >= len(b):
			return fmt.Sprintf("position %d: got %#x, want nothing", i, a[i])
		case a[i] != b[i]:
			return fmt.Sprintf("position %d: got %#x, want %#x", i, a[i], b[i])
		}
	}
	return "equal"
}

// checkAllPaths: the call, the comparison with the oracle, and the result re-read after later calls (see watch).
func checkAllPaths(mask int32, from, to uint64) *vk.Failure {
	want, _ := wantAllPaths(mask, from, to)
	var got []uint64
	if f := vk.TryF(func() string { return fmt.Sprintf("AllPaths(%#x, %#x, %#x)", mask, from, to) }, func() { got = bmtree.AllPaths(mask, from, to) }); f != nil {
		return f
	}
	if !eq(got, want) {
		return vk.Failf("allpaths", "AllPaths(mask=%#x, from=%#x, to=%#x): %s; got %s want %s", mask, from, to, firstDiff(got, want), show(got), show(want))
	}
	return watch(func() string { return fmt.Sprintf("AllPaths(mask=%#x, from=%#x, to=%#x)", mask, from, to) }, got, want, nil, true)
}

// keep registers a returned result for later re-validation (set in init: the checker refers to check).
var keepResult func(func() string)

func init() { keepResult = checker.Keep }

// fullReread: results of up to this many paths are re-read completely every time; of a longer one the first and the
// last fullReread/2 paths and every 61st in between (it is re-read after each of the next dozen cases).
const fullReread = 1 << 12

// reread compares a result that was returned earlier with what it held then.
func reread(what func() string, got, want []uint64) string {
	if len(got) != len(want) {
		return fmt.Sprintf("%s returned %d paths, the kept slice now has %d", what(), len(want), len(got))
	}
	step := 1
	for i := 0; i < len(want); i += step {
		if got[i] != want[i] {
			return fmt.Sprintf("%s returned %#x at position %d (of %d), which now reads %#x", what(), want[i], i, len(want), got[i])
		}
		if len(want) > fullReread {
			step = 1
			if i >= fullReread/2 && i+61 < len(want)-fullReread/2 {
				step = 61
			}
		}
	}
	return ""
}

// watch: a result belongs to the caller. Its spare capacity is overwritten (what the caller's append would do; not for
// a result whose spare capacity could be the maximum bitmap) and it stays under watch (vk's Keep) while the later calls
// of the case and the following cases run: it must still hold what it held when it was returned. No library call is
// added for this - what Decode returns may not depend on the calls before it either, and extra calls in between would
// hide that. valid says whether the argument the result might share memory with is still untouched (nil: always).
func watch(what func() string, got, want []uint64, valid func() bool, scribble bool) *vk.Failure {
	if scribble {
		vk.ScribbleU64(got)
	}
	h := &held{what: what, got: got, want: want, valid: valid}
	if len(want) > heldSmall {
		// (memory: of the long results only the latest one stays referenced; the one before it is read a last time here,
		// after the call that produced its successor)
		if old := lastLong; old != nil {
			msg := old.read()
			old.got, old.want, old.dropped = nil, nil, true
			if msg != "" {
				lastLong = nil
				return vk.Failf("result-changed-after-return", "a result returned earlier no longer reads as it did when it was returned (it aliases memory the library reuses): %s", msg)
			}
		}
		lastLong = h
	}
	keepResult(h.read)
	return nil
}

// held is a result under watch. heldSmall: the last 12 results of up to this many paths all stay under watch, and the
// latest longer one.
type held struct {
	what      func() string
	got, want []uint64
	valid     func() bool
	dropped   bool
}

func (h *held) read() string {
	if h.dropped || (h.valid != nil && !h.valid()) {
		return ""
	}
	return reread(h.what, h.got, h.want)
}

const heldSmall = 1 << 16

var lastLong *held

var scratch vk.Scratch

// scratchGen counts the calls that were given the reused argument buffer.
var scratchGen int

// decodeCall hands a private copy of the bitmap to Decode and compares the result with want.
func decodeCall(mask int32, keep, want []uint64, what string) *vk.Failure {
	sum := vk.SumU64(keep) + uint64(mask)
	bm := append(make([]uint64, 0, len(keep)), keep...) // the code under test gets a private copy ...
	reused := scratch.Reuse(sum)
	if reused {
		scratchGen++
		bm = scratch.U64(keep) // ... or a reused buffer (same address as earlier calls) with guarded spare capacity
	} else if len(keep) == 0 {
		bm = vk.ShapeU64(keep, sum) // ... an empty bitmap as nil or as an empty non-nil slice
	}
	var got []uint64
	if f := vk.Try(fmt.Sprintf("Decode(%#x, %d words)%s", mask, len(bm), what), func() { got = bmtree.Decode(mask, bm) }); f != nil {
		return f
	}
	if !eq(got, want) {
		return vk.Failf("decode", "Decode(mask=%#x, bm=%s)%s: %s; got %s want %s", mask, showWords(bm), what, firstDiff(got, want), show(got), show(want))
	}
	if !eq(bm, keep) {
		return vk.Failf("decode-mutates", "Decode modified its bitmap argument")
	}
	if reused {
		if msg := scratch.Check(); msg != "" {
			return vk.Failf("argument-spare-capacity-written", "Decode: %s", msg)
		}
	}
	// (the argument has been checked: from here on it does not matter if the result shares memory with it; a result for the
	// reused argument buffer is watched until that buffer is filled again)
	nw := len(bm)
	var valid func() bool
	if g := scratchGen; reused {
		valid = func() bool { return scratchGen == g }
	}
	return watch(func() string { return fmt.Sprintf("Decode(mask=%#x, %d words)%s", mask, nw, what) }, got, want, valid, true)
}

// resized returns the first k words of bm, zero-extended when k > len(bm).
func resized(bm []uint64, k int) []uint64 {
	k = min(max(k, 0), len(bm)+8)
	out := make([]uint64, k)
	copy(out, bm)
	return out
}

// checkDecode: prev lists word counts; the same tree is first decoded from the bitmap cut (or zero-extended) to each of
// them, every result being checked, and then from bm itself: what Decode returns must not depend on the calls before.
func checkDecode(mask int32, bm []uint64, prev []int) *vk.Failure {
	want, _ := wantDecode(mask, bm)
	for i, k := range prev {
		if i >= 4 {
			break
		}
		pbm := resized(bm, k)
		pwant, _ := wantDecodeWalk(mask, pbm)
		if f := decodeCall(mask, pbm, pwant, fmt.Sprintf(" (call %d of the case, the bitmap cut to %d words)", i+1, k)); f != nil {
			return f
		}
	}
	keep := bm
	what := ""
	if len(prev) > 0 {
		what = fmt.Sprintf(" (after Decode of the same tree from the first %v words)", prev)
	}
	if f := decodeCall(mask, keep, want, what); f != nil {
		return f
	}
	// round trip: encode the decoded set through the library's own PathToIndex
	enc := make([]uint64, (int(mask)+63)/64)
	var bad *vk.Failure
	if f := vk.Try("PathToIndex", func() {
		for _, p := range want {
			idx := bmtree.PathToIndex(mask, p)
			if idx < 0 || int(idx) >= 64*len(enc) {
				bad = vk.Failf("roundtrip-index-range", "PathToIndex(%#x,%#x) = %d outside the bitmap", mask, p, idx)
				return
			}
			enc[idx/64] |= 1 << (uint(idx) % 64)
		}
	}); f != nil {
		return f
	}
	if bad != nil {
		return bad
	}
	if mask >= 1<<13 && eq(enc, keep) {
		// the re-encoded bitmap IS the argument just decoded (exact length, nothing beyond bitmapSize): for the large
		// trees the identical second call is saved
		return nil
	}
	var got2 []uint64
	if f := vk.Try("Decode(round trip)", func() { got2 = bmtree.Decode(mask, enc) }); f != nil {
		return f
	}
	if !eq(got2, want) {
		return vk.Failf("roundtrip", "encode(PathToIndex) then Decode(mask=%#x): %s", mask, firstDiff(got2, want))
	}
	return watch(func() string { return fmt.Sprintf("Decode(mask=%#x, the re-encoded bitmap)", mask) }, got2, want, nil, true)
}

// curMax is the description the maximum bitmap currently holds (a result for another description is no longer watched:
// the argument has been rewritten).
var curMax = -1

func useMax(v int) []uint64 {
	curMax = v
	return gen.UseMax(v)
}

// maxHead is a private copy of the first words of the maximum bitmap's description (what the mask can address).
func maxHead(v int, mask int32) []uint64 {
	useMax(v)
	h := make([]uint64, max((int(mask)+63)/64+1, 9))
	for k := range h {
		h[k] = gen.MaxWord(k)
	}
	return h
}

const maxDecodeMask = 1 << 19

// checkMaxDecode: a node bitmap that is the head of a huge shared bitmap (2^25 words, the largest one int32 positions address).
func checkMaxDecode(v int, mask int32) *vk.Failure {
	if v < 0 || v >= gen.MaxVariants || mask < 1 || mask >= maxDecodeMask {
		return nil
	}
	want, _ := wantDecode(mask, maxHead(v, mask))
	bm := useMax(v)
	var got []uint64
	if f := vk.Try(fmt.Sprintf("Decode(%#x, 2^25 words (description %d))", mask, v), func() { got = bmtree.Decode(mask, bm) }); f != nil {
		return f
	}
	if !eq(got, want) {
		return vk.Failf("decode", "Decode(mask=%#x, bm = 2^25-word bitmap (description %d) starting %#x): %s; got %s want %s", mask, v, maxHead(v, 1)[:3], firstDiff(got, want), show(got), show(want))
	}
	if k, bad := gen.MaxBitmapDamage(); bad {
		return vk.Failf("decode-mutates", "Decode modified word %d of its 2^25-word bitmap argument", k)
	}
	return watch(func() string { return fmt.Sprintf("Decode(mask=%#x, 2^25-word bitmap (description %d))", mask, v) }, got, want, func() bool { return curMax == v }, false)
}

func check(c Case) *vk.Failure {
	if c.Op == "maxdecode" {
		return checkMaxDecode(c.Max, c.Mask)
	}
	if c.Op == "decode" {
		if c.Mask < 1 {
			return nil
		}
		return checkDecode(c.Mask, c.bitmap(), c.Prev)
	}
	return checkAllPaths(c.Mask, uint64(c.From), uint64(c.To))
}

func classify(c Case) (bool, []string) {
	tr := model.NewTree(c.Mask)
	// (the modifiers of the description-built bitmaps and the call history are labels of their own, not part of the class name)
	cls := c.Class
	var mods []string
	if k := strings.TrimSuffix(cls, "+after-other-length"); k != cls {
		cls, mods = k, append(mods, "decode-after-other-length")
	}
	if strings.HasPrefix(cls, "big-") {
		parts := strings.Split(cls, "+")
		cls = parts[0]
		for _, m := range parts[1:] {
			mods = append(mods, "big:"+m)
		}
	}
	labels := append([]string{"op:" + c.Op, "class:" + cls}, mods...)
	switch {
	case tr.H <= 7:
		labels = append(labels, "h:0-7")
	case tr.H <= 16:
		labels = append(labels, "h:8-16")
	default:
		labels = append(labels, "h:17-30")
	}
	if c.Op == "maxdecode" {
		if c.Max < 0 || c.Max >= gen.MaxVariants || c.Mask < 1 || c.Mask >= maxDecodeMask {
			return false, labels
		}
		want, stored := wantDecode(c.Mask, maxHead(c.Max, c.Mask))
		if len(want) > 0 && len(want) < stored {
			labels = append(labels, "subset:proper")
		}
		return tr.H >= 2 && len(want) > 0 && len(want) < stored, labels
	}
	if c.Op == "decode" {
		if c.Mask < 1 {
			return false, labels
		}
		bm := c.bitmap()
		want, stored := wantDecode(c.Mask, bm)
		switch {
		case tr.H >= 18:
			labels = append(labels, "decode-h:18+")
		case tr.H >= 16:
			labels = append(labels, "decode-h:16-17")
		case tr.H >= 13:
			labels = append(labels, "decode-h:13-15")
		}
		if c.Mask > 1 && int64(c.Mask-1) < 64*int64(len(bm)) && bm[(c.Mask-1)/64]>>(uint(c.Mask-1)%64)&1 == 1 {
			labels = append(labels, "last-node-set")
		}
		switch {
		case len(want) == 0:
			labels = append(labels, "subset:empty")
		case len(want) == stored:
			labels = append(labels, "subset:all")
		default:
			labels = append(labels, "subset:proper")
		}
		need := (int(c.Mask) + 63) / 64
		switch {
		case len(bm) < need:
			labels = append(labels, "bm:short")
		case len(bm) > need:
			labels = append(labels, "bm:long")
		default:
			labels = append(labels, "bm:exact")
		}
		return len(want) > 0 && len(want) < stored && tr.H >= 2, labels
	}
	want, clipped := wantAllPaths(c.Mask, uint64(c.From), uint64(c.To))
	if len(want) == 0 {
		labels = append(labels, "result:empty")
	} else {
		labels = append(labels, "result:nonempty")
	}
	switch {
	case len(want) >= 1<<16:
		labels = append(labels, "result:>=2^16-paths")
	case len(want) >= 1<<13:
		labels = append(labels, "result:2^13..2^16-paths")
	case len(want) >= 1<<10:
		labels = append(labels, "result:2^10..2^13-paths")
	}
	if clipped {
		labels = append(labels, "clip-taken")
	}
	return len(want) > 0 && clipped, labels
}

// ---------------------------------------------------------------- generators

func genMask(t *rapid.T, maxH int) int32 {
	var h int
	if gen.Chance(t, 1, 3, "hboost") {
		h = min(rapid.SampledFrom([]int{0, 1, 2, 7, 29, 30, 30}).Draw(t, "hb"), maxH)
	} else {
		h = gen.Uniform(t, maxH+1, "h")
	}
	return maskAt(t, h)
}

// maskAt draws a level mask of exactly height h.
func maskAt(t *rapid.T, h int) int32 {
	top := int32(1) << uint(h)
	low := int32(gen.U64(t, "low")) & (top - 1)
	switch gen.Uniform(t, 6, "mclass") {
	case 0:
		return top | (top - 1)
	case 1:
		return top
	case 2:
		return top | 1
	case 3:
		return top | (low & int32(gen.U64(t, "low2")))
	case 4:
		return top | ((low | int32(gen.U64(t, "low2"))) & (top - 1))
	}
	return top | low
}

// spanBig is the exponent of the largest span (count of full-length search values a range covers) the ordinary
// classes draw; a range over a full mask then holds about 2^(spanBig+2) paths.
func spanBig() int {
	if fuzzSizes {
		return 13
	}
	return vk.Pick(17, 20)
}

// fuzzSizes: the native fuzz target keeps to moderate sizes (Decode up to height 16, ranges of up to 2^14 search values) in
// both tiers: the fuzzer multiplies whatever is slow (it mutates and minimises the inputs that reached new code, and those are
// the large ones), and sixteen workers holding trees of 2^22 nodes each are neither fast nor safe on a shared machine.
var fuzzSizes bool

// genSpan draws the width of a range in full-length search values: 0 or log-uniform, every magnitude up to
// 2^11 about equally often, the magnitudes 2^11 .. 2^(spanBig+1) in one case of 24 (their results have tens of
// thousands to a million paths).
func genSpan(t *rapid.T, label string) uint64 {
	k := gen.Uniform(t, 12, label+".k") - 1 // -1: span 0
	if gen.Chance(t, 1, 24, label+".big") {
		k = 11 + gen.Uniform(t, spanBig()-10, label+".kbig")
	}
	if k < 0 {
		return 0
	}
	return uint64(1)<<uint(k) | gen.U64(t, label+".r")&(uint64(1)<<uint(k)-1)
}

func lowHalf(t *rapid.T, h int, label string) uint64 {
	switch gen.Uniform(t, 5, label+".lowclass") {
	case 0:
		return 0
	case 1:
		return 0xffffffff
	case 2, 3: // a valid mask of some length for this height
		l := gen.Uniform(t, h+1, label+".l")
		return model.PathWord(0, l, h) & 0xffffffff
	}
	return gen.U64(t, label+".low") & 0xffffffff
}

func genAllPaths(t *rapid.T) Case {
	mask := genMask(t, 30)
	tr := model.NewTree(mask)
	h := tr.H
	c := Case{Op: "allpaths", Mask: mask}
	nodeWord := func(label string) uint64 {
		l := gen.Uniform(t, h+1, label+".l")
		var p uint64
		if l > 0 {
			p = gen.U64(t, label+".p") & (uint64(1)<<uint(l) - 1)
		}
		return model.PathWord(p, l, h)
	}
	edge := uint64(1) << uint(h) // one past the last full-length search value
	switch gen.Uniform(t, 11, "class") {
	case 0: // exact hits around real paths
		c.Class = "exact-hits"
		p := nodeWord("p")
		d := []uint64{0, 1, ^uint64(0)}[gen.Uniform(t, 3, "d1")]
		c.From = vk.U64(p + d)
		span := genSpan(t, "span")
		q := (p>>32 + span) << 32
		c.To = vk.U64(q | lowHalf(t, h, "to"))
	case 1:
		c.Class = "to-exact"
		p := nodeWord("p")
		d := []uint64{0, 1, ^uint64(0)}[gen.Uniform(t, 3, "d1")]
		c.To = vk.U64(p + d)
		span := genSpan(t, "span")
		fu := p >> 32
		if fu >= span {
			fu -= span
		} else {
			fu = 0
		}
		c.From = vk.U64(fu<<32 | lowHalf(t, h, "from"))
	case 2:
		c.Class = "from==to"
		p := nodeWord("p") + []uint64{0, 1, ^uint64(0)}[gen.Uniform(t, 3, "d1")]
		c.From, c.To = vk.U64(p), vk.U64(p)
	case 3:
		c.Class = "from>to"
		p := nodeWord("p")
		c.From, c.To = vk.U64(p+1+gen.U64(t, "d")%1000), vk.U64(p)
	case 4:
		c.Class = "to=0"
		c.From, c.To = vk.U64(nodeWord("p")), 0
	case 5:
		// from's upper half is at or beyond 2^h - next to the tree, at the sign bit of a 32-bit counter, at the top of
		// the 32-bit range, anywhere in between - and to lies above it (or wraps): nothing may be returned
		c.Class = "beyond-tree"
		fu := edge + gen.U64(t, "over")%5
		if far := gen.Uniform(t, 8, "far"); far >= 2 {
			c.Class = "beyond-tree-far"
			switch far {
			case 2:
				fu = 1<<31 - 1 - gen.U64(t, "farback")%3
			case 3:
				fu = 1 << 31
			case 4:
				fu = 1<<31 + 1 + gen.U64(t, "farfwd")%3
			case 5:
				fu = 1<<32 - 1
			case 6:
				fu = 1<<32 - 1 - gen.U64(t, "farback")%4096
			default:
				fu = edge + 5 + gen.U64(t, "farany")%(1<<32-edge-5)
			}
		}
		from := fu<<32 | lowHalf(t, h, "from")
		c.From = vk.U64(from)
		switch gen.Uniform(t, 7, "beyondto") {
		case 0:
			c.To = vk.U64(from + 1)
		case 1:
			c.To = vk.U64(from + genSpan(t, "span")<<32)
		case 2:
			c.To = vk.U64(fu<<32 | 0xffffffff)
		case 3:
			c.To = vk.U64(^uint64(0))
		case 4:
			c.To = 1 << 63
		case 5:
			c.To = vk.U64((1<<32 - 1) << 32)
		default:
			c.To = vk.U64(gen.U64(t, "to") | 1<<63)
		}
	case 6:
		// the whole tree: always for h <= 12, now and then up to the height whose 2^(h+1) nodes the tier affords
		if h <= 12 || (h <= spanBig() && gen.Chance(t, 1, 6, "fulltall")) {
			c.Class = "full-range"
			c.From = 0
			c.To = vk.U64([]uint64{1 << 63, ^uint64(0), edge << 32, edge<<32 - 1, edge<<32 | lowHalf(t, h, "to"), (edge+1)<<32 | lowHalf(t, h, "to")}[gen.Uniform(t, 6, "fullto")])
			break
		}
		fallthrough
	case 7: // to's upper half is the last search value, one past it (2^h exactly) or two past it, with any lower half
		c.Class = "right-edge"
		tu := edge - 1 + uint64(gen.Uniform(t, 3, "past"))
		c.To = vk.U64(tu<<32 | lowHalf(t, h, "to"))
		span := genSpan(t, "span")
		c.From = vk.U64((tu-min(span, tu))<<32 | lowHalf(t, h, "from"))
	default:
		c.Class = "window"
		centre := gen.U64(t, "centre") % edge
		span := genSpan(t, "span")
		if gen.Chance(t, 1, 2, "tiny") {
			span %= 4
		}
		c.From = vk.U64(centre<<32 | lowHalf(t, h, "from"))
		c.To = vk.U64((centre+span)<<32 | lowHalf(t, h, "to"))
	}
	// keep the scanned span bounded whatever the class produced (e.g. p-1 wrapping to 2^64-1):
	// the function loops over every full-length prefix between from>>32 and min(to>>32, 2^h).
	if h > 12 && c.Class != "full-range" {
		end := min(uint64(c.To)>>32+1, edge)
		start := uint64(c.From) >> 32
		if limit := uint64(1) << uint(spanBig()+1); end > start && end-start > limit {
			// (a pure function of the case picks the magnitude that is left: 2^10 .. 2^spanBig)
			keepK := 10 + vk.Mix(uint64(c.From)^uint64(c.To)*31^uint64(mask))%uint64(spanBig()-9)
			c.From = vk.U64((end-uint64(1)<<keepK)<<32 | uint64(c.From)&0xffffffff)
			c.Class += "+span-clamped"
		}
	}
	return c
}

// decodeHeights: the heights above 12 at which rapid calls Decode, with weights. Decode always enumerates the whole tree
// (2^h .. 2^(h+1) paths), so the cost doubles per level; every height up to the largest one is met by several cases.
func decodeHeights() (hs []int, weights []int) {
	if fuzzSizes {
		return []int{13, 14, 15, 16}, []int{4, 3, 2, 1}
	}
	if vk.Thorough() {
		return []int{13, 14, 15, 16, 17, 18, 19, 20, 21}, []int{4, 4, 4, 4, 3, 3, 2, 1, 1}
	}
	return []int{13, 14, 15, 16, 17, 18}, []int{5, 5, 4, 5, 2, 1}
}

// edgeBit draws a bit position in [0, mask) that favours the ends and the powers of two.
func edgeBit(t *rapid.T, mask int32, label string) int64 {
	m := int64(mask)
	switch gen.Uniform(t, 6, label+".class") {
	case 0, 1:
		return m - 1
	case 2:
		return m - 1 - int64(gen.Uniform(t, 70, label+".back"))%m
	case 3:
		k := gen.Uniform(t, 31, label+".k")
		return (int64(1)<<uint(k) - int64(gen.Uniform(t, 2, label+".m1"))) % m
	case 4:
		return 0
	}
	return int64(gen.U64(t, label+".u") % uint64(m))
}

// genPrev draws the word counts of the calls that precede the call under test on the same tree (see checkDecode).
func genPrev(t *rapid.T, need, n int) []int {
	var prev []int
	for i := 0; i < n; i++ {
		var k int
		switch gen.Uniform(t, 6, "prev.class") {
		case 0:
			k = need - 1 - gen.Uniform(t, 3, "prev.cut")
		case 1:
			k = 1
		case 2:
			k = need / 2
		case 3:
			k = need + gen.Uniform(t, 2, "prev.ext")
		default:
			k = gen.Uniform(t, need+1, "prev.any")
		}
		prev = append(prev, max(k, 0))
	}
	return prev
}

// genDecodeBig: trees of height 13 and more, the bitmap given by a description (Syn).
func genDecodeBig(t *rapid.T) Case {
	hs, ws := decodeHeights()
	total := 0
	for _, w := range ws {
		total += w
	}
	pick, h := gen.Uniform(t, total, "bigh"), 0
	for i, w := range ws {
		if pick < w {
			h = hs[i]
			break
		}
		pick -= w
	}
	mask := maskAt(t, h)
	need := (int(mask) + 63) / 64
	syn := &Syn{Seed: vk.U64(gen.U64(t, "synseed")), Style: gen.Uniform(t, len(synStyles), "synstyle"), Words: need}
	c := Case{Op: "decode", Mask: mask, Syn: syn}
	c.Class = "big-" + synStyles[syn.Style]
	if syn.Style == 5 { // exactly one node
		syn.Set = []int64{edgeBit(t, mask, "one")}
	} else {
		switch gen.Uniform(t, 5, "edge") {
		case 0: // the last node of the pre-order (the right-most leaf)
			syn.Set = []int64{int64(mask) - 1}
			c.Class += "+last-set"
		case 1:
			syn.Clear = []int64{int64(mask) - 1}
			c.Class += "+last-clear"
		case 2:
			for i, n := 0, 1+gen.Uniform(t, 4, "nedge"); i < n; i++ {
				if gen.Chance(t, 1, 2, "setclear") {
					syn.Set = append(syn.Set, edgeBit(t, mask, "e"))
				} else {
					syn.Clear = append(syn.Clear, edgeBit(t, mask, "e"))
				}
			}
			c.Class += "+edges"
		}
	}
	if int(mask)%64 != 0 && gen.Chance(t, 1, 2, "garbage-tail") {
		syn.Garbage = true
		c.Class += "+garbage-tail"
	}
	switch gen.Uniform(t, 10, "lenclass") {
	case 0:
		syn.Words = need - 1 - gen.Uniform(t, 3, "cut")
		c.Class += "+truncated"
	case 1: // cut anywhere
		syn.Words = gen.Uniform(t, need, "cutany")
		c.Class += "+truncated"
	case 2:
		syn.Words = 0
		c.Class += "+empty"
	case 3, 4:
		syn.Words = need + 1 + gen.Uniform(t, 3, "ext")
		syn.Garbage = true
		c.Class += "+extended"
	}
	if gen.Chance(t, 1, 5, "seq") {
		c.Prev = genPrev(t, need, 1)
		c.Class += "+after-other-length"
	}
	return c
}

func genDecode(t *rapid.T) Case {
	if gen.Chance(t, 1, 8, "big") {
		return genDecodeBig(t)
	}
	mask := genMask(t, vk.Pick(12, 16))
	need := (int(mask) + 63) / 64
	bm := make(vk.Words, need)
	style := gen.Uniform(t, 6, "density")
	for i := range bm {
		switch style {
		case 0:
		case 1:
			bm[i] = ^uint64(0)
		case 2:
			bm[i] = gen.U64(t, "a") & gen.U64(t, "b") & gen.U64(t, "c")
		case 3:
			bm[i] = gen.U64(t, "a")
		case 4:
			bm[i] = gen.U64(t, "a") | gen.U64(t, "b")
		}
	}
	if style == 5 { // exactly one node
		k := int(gen.U64(t, "one") % uint64(mask))
		bm[k/64] |= 1 << (uint(k) % 64)
	}
	c := Case{Op: "decode", Mask: mask, Class: []string{"none", "all", "sparse", "half", "dense", "one"}[style]}
	// garbage at bits >= bitmapSize inside the last word
	if int(mask)%64 != 0 && gen.Chance(t, 1, 2, "garbage-tail") {
		bm[need-1] |= gen.U64(t, "g") &^ (uint64(1)<<(uint(mask)%64) - 1)
		c.Class += "+garbage-tail"
	}
	switch gen.Uniform(t, 5, "lenclass") {
	case 0:
		k := 1 + gen.Uniform(t, min(need, 3), "cut")
		bm = bm[:need-k]
		c.Class += "+truncated"
	case 1:
		bm = bm[:0]
		c.Class += "+empty"
	case 2:
		k := 1 + gen.Uniform(t, 3, "ext")
		for i := 0; i < k; i++ {
			bm = append(bm, gen.U64(t, "extw"))
		}
		c.Class += "+extended"
	}
	c.Bm = bm
	if need > 1 && gen.Chance(t, 1, 3, "seq") {
		c.Prev = genPrev(t, need, 1+gen.Uniform(t, 2, "nprev"))
		c.Class += "+after-other-length"
	}
	return c
}

func genCase(t *rapid.T) Case {
	if gen.Chance(t, 1, 6, "decode") {
		return genDecode(t)
	}
	return genAllPaths(t)
}

func TestRegress(t *testing.T) { checker.Regress(t) }

func TestProp(t *testing.T) { checker.Prop(t, genCase) }

func FuzzProp(f *testing.F) {
	fuzzSizes = true
	checker.Fuzz(f, genCase)
}

func TestGrid(t *testing.T) {
	vk.SetPhase("grid")
	shard, nshards := vk.Shard()
	var evals, nontriv int64
	fail := func(c Case, f *vk.Failure) {
		if g := checker.Eval(c); g == nil {
			vk.Infra(fmt.Sprintf("grid found %v but the per-case check passes on %+v", f, c))
		}
		t.Fatalf("VERIF-FAIL property=C04 kind=%s: %s", f.Kind, f.Msg)
	}
	maxH := gridH()
	var prev Case
	var prevGot, prevWant []uint64
	for mask := int32(1); mask < int32(1)<<uint(maxH+1); mask++ {
		if int(mask)%nshards != shard {
			continue
		}
		tr := model.NewTree(mask)
		var vals []uint64
		tr.Walk(func(prefix uint64, l int, _ bool, _ int64) {
			p := model.PathWord(prefix, l, tr.H)
			vals = append(vals, p, p+1, p-1)
		})
		one := func(from, to uint64) {
			evals++
			want, clipped := wantAllPaths(mask, from, to)
			if len(want) > 0 && clipped {
				nontriv++
			}
			// (checkAllPaths without its closures and without vk's Keep, the grid does not go through Eval: the result of the
			// previous call is read again after this one)
			var got []uint64
			f := vk.Try("AllPaths", func() { got = bmtree.AllPaths(mask, from, to) })
			if f == nil && !eq(got, want) {
				f = vk.Failf("allpaths", "grid mismatch")
			}
			c := Case{Op: "allpaths", Mask: mask, From: vk.U64(from), To: vk.U64(to), Class: "grid"}
			if f == nil {
				vk.ScribbleU64(got)
				if !eq(prevGot, prevWant) {
					f = vk.Failf("result-changed-after-return", "grid: the result of the previous call changed")
					if g := checker.Eval(prev); g != nil { // (expected to pass; the result it leaves under watch fails the evaluation of c)
						fail(prev, g)
					}
				}
			}
			if f != nil {
				fail(c, f)
			}
			prev, prevGot, prevWant = c, got, want
		}
		for _, from := range vals {
			for _, to := range vals {
				one(from, to)
			}
		}
		// from beyond the tree, up to the top of uint64, x every to above it (and the wrapped ones); every ordinary from x
		// those values as to
		edge := uint64(1) << uint(tr.H)
		ones := model.PathWord(0, tr.H, tr.H) & 0xffffffff
		far := []uint64{^uint64(0), (1<<32 - 1) << 32, (1<<32-1)<<32 | ones, (1<<32 - 16) << 32, (1<<31+1)<<32 | ones, 1 << 63, 1<<63 | ones, 1<<63 - 1, (1<<31-1)<<32 | ones,
			vk.Mix(uint64(mask)) | edge<<33, (edge+5)<<32 | ones, (edge + 1) << 32, edge<<32 | ones, edge << 32}
		for _, from := range far {
			for _, to := range far {
				one(from, to)
			}
			for _, to := range []uint64{from + 1, from + 1<<32, from + edge<<32, from | 0xffffffff} {
				one(from, to)
			}
		}
		for _, from := range vals {
			for _, to := range far {
				one(from, to)
			}
		}
	}
	// Decode: all masks of height <= 3 x all subsets (as a 1-word bitmap), plus len 0 and a garbage-extended copy
	for mask := int32(1); mask < 16; mask++ {
		if int(mask)%nshards != shard {
			continue
		}
		for sub := uint64(0); sub < 1<<uint(mask); sub++ {
			for _, bm := range [][]uint64{{sub}, {}, {sub | 0xdead0000<<16, ^uint64(0)}} {
				evals++
				if sub != 0 && sub != 1<<uint(mask)-1 && model.NewTree(mask).H >= 2 && len(bm) > 0 {
					nontriv++
				}
				c := Case{Op: "decode", Mask: mask, Bm: bm, Class: "grid"}
				f := checkDecode(mask, bm, nil)
				if f == nil {
					f = checker.RunKeepers() // (the results of the last calls, this case's among them, read again)
				}
				if f != nil {
					fail(c, f)
				}
				checker.Remember(c)
			}
		}
	}
	vk.CountConstructed(evals, nontriv, "grid")
	sizeSweep(t, shard, nshards)
	if shard == 0 {
		vk.AddSample(map[string]any{"grid": fmt.Sprintf("all masks h<=%d x all (from,to) in {path, path+1, path-1}^2; Decode: all masks h<=3 x all subsets x 3 bitmap shapes", maxH),
			"example": map[string]any{"mask": "0x2d", "from": "0x400000030", "to": "0x1800000038", "allpaths": fmt.Sprintf("%#x", bmtree.AllPaths(0x2d, 0x400000030, 0x1800000038))}})
	}
	vk.MarkExhaustive(fmt.Sprintf("AllPaths: all masks h<=%d x all (from,to) from {path, path+-1}; Decode: all masks h<=3 x all subsets", maxH))
}

// sizeSweep: deterministic cases at every height between the exhaustive region and the largest inputs of the tier.
// Decode: masks 2^h (leaves only), 2^h+1, 2^(h+1)-1 (every level) and two arbitrary ones of each height x bitmaps that
// are non-trivial AT that size (the last node set, only the last node, all nodes, a truncated and an extended one).
// AllPaths: ranges ending at the right edge of the tree that hold 2^k .. 2^(k+2) paths. In the process that varies GOMAXPROCS
// one or two Decode cases per height from 13 on and the ranges of up to 2^16 search values are evaluated under every setting.
func sizeSweep(t *testing.T, shard, nshards int) {
	n := 0
	run := func(c Case, sweep bool) {
		n++
		if n%nshards != shard {
			return
		}
		if sweep && vk.ProcsVaried() {
			vk.ProcsSweep(func() { checker.Run(t, c) })
			return
		}
		checker.Run(t, c)
	}
	maxH := vk.Pick(19, 22)
	sweepH := vk.Pick(16, 19) // largest height evaluated under every GOMAXPROCS setting
	for h := 4; h <= maxH; h++ {
		if vk.ProcsVaried() && h > sweepH {
			break // (the ordinary process has them)
		}
		top := int32(1) << uint(h)
		r1, r2 := int32(vk.Mix(uint64(h))), int32(vk.Mix(uint64(h)+100))
		masks := []int32{top | (top - 1), top | r1&(top-1), top, top | 1, top | r1&r2&(top-1)}
		type bmk struct {
			name string
			syn  func(mask int32) *Syn
		}
		need := func(mask int32) int { return (int(mask) + 63) / 64 }
		seed := vk.U64(vk.Mix(uint64(h) + 7))
		bms := []bmk{
			{"half+last-set", func(m int32) *Syn { return &Syn{Seed: seed, Style: 3, Words: need(m), Set: []int64{int64(m) - 1}} }},
			{"all", func(m int32) *Syn { return &Syn{Seed: seed, Style: 1, Words: need(m)} }},
			{"one(last)", func(m int32) *Syn { return &Syn{Seed: seed, Style: 0, Words: need(m), Set: []int64{int64(m) - 1}} }},
			{"wordmix+extended", func(m int32) *Syn {
				return &Syn{Seed: seed, Style: 7, Words: need(m) + 2, Garbage: true, Set: []int64{int64(m) - 1, int64(m) / 2}}
			}},
			{"dense+truncated", func(m int32) *Syn { return &Syn{Seed: seed, Style: 4, Words: need(m)/2 + 1, Set: []int64{0}} }},
		}
		var pairs [][2]int // (mask, bitmap) combinations affordable at this height
		switch {
		case h >= 21:
			pairs = [][2]int{{1, 0}}
		case h >= 19:
			pairs = vk.Pick([][2]int{{1, 0}}, [][2]int{{1, 0}, {0, 1}})
		case h >= 17:
			pairs = [][2]int{{1, 0}, {0, 1}}
		case h >= 15:
			pairs = [][2]int{{1, 0}, {0, 1}, {2, 2}, {3, 0}, {1, 3}, {4, 4}}
		default:
			for i := range masks {
				for j := range bms {
					pairs = append(pairs, [2]int{i, j})
				}
			}
		}
		for _, ij := range pairs {
			m, b := masks[ij[0]], bms[ij[1]]
			// an arbitrary mask x half of the nodes and the last one / every level x every node: under every scheduler width
			sweep := h >= 13 && h <= sweepH && (ij == [2]int{1, 0} || (ij == [2]int{0, 1} && h == 16))
			if vk.ProcsVaried() && !sweep {
				continue // (the ordinary process has them)
			}
			run(Case{Op: "decode", Mask: m, Syn: b.syn(m), Class: "sizes-" + b.name}, sweep)
		}
	}
	// AllPaths: (height, log2 of the span) pairs; the range ends at, one before or one past the right edge
	for i, hk := range [][2]int{{13, 13}, {14, 12}, {15, 15}, {16, 14}, {17, 17}, {18, 13}, {20, 16}, {22, 15}, {25, 17}, {28, 14}, {30, 16}, {30, 17}, {24, 19}, {30, 20}} {
		h, k := hk[0], hk[1]
		if k > spanBig() {
			continue
		}
		top := int32(1) << uint(h)
		mask := top | (top - 1)
		if i%3 == 1 {
			mask = top | int32(vk.Mix(uint64(i)))&(top-1)
		}
		edge := uint64(1) << uint(h)
		tu := edge - 1 + uint64(i%3)
		span := uint64(1)<<uint(k) + vk.Mix(uint64(i)+9)%(uint64(1)<<uint(k))
		from := (tu-min(span, tu))<<32 | []uint64{0, 0xffffffff, model.PathWord(0, h/2, h) & 0xffffffff}[i%3]
		to := tu<<32 | []uint64{0xffffffff, 0, model.PathWord(0, h, h) & 0xffffffff}[i%3]
		run(Case{Op: "allpaths", Mask: mask, From: vk.U64(from), To: vk.U64(to), Class: "sizes-right-edge"}, k <= 15 && i%3 != 1)
	}
}

// TestLast runs at the very end of the process: huge inputs (the maximum bitmap / string) and the regression cases of that size come last, so that
// what they leave behind in the library cannot mask anything the ordinary cases would have met.
func TestLast(t *testing.T) {
	vk.SetPhase("last")
	shard := 0
	if shard == 0 { // the bitmap argument is the head of a 2^25-word array: masks of every height <= 8 on each description
		for v := 0; v < gen.MaxVariants; v++ {
			for mask := int32(1); mask < 1<<9; mask++ {
				if mask < 64 || vk.Mix(uint64(mask))%4 == 0 || mask&(mask+1) == 0 {
					checker.Run(t, Case{Op: "maxdecode", Max: v, Mask: mask, Class: "grid-maximum"})
				}
			}
			// taller trees on the same array (description 0 has ones in word 4097, which a tree of height 18 reaches)
			for _, mask := range []int32{0x1fff, 1<<14 | 0x1234, 1<<16 | 0xff0f} {
				checker.Run(t, Case{Op: "maxdecode", Max: v, Mask: mask, Class: "grid-maximum-tall"})
			}
		}
		checker.Run(t, Case{Op: "maxdecode", Max: 0, Mask: 1<<18 | 0x2aaaa, Class: "grid-maximum-tall"})
	}
	checker.RegressLast(t)
}

// Package c04 decides property C04: AllPaths and Decode enumerate exactly the
// stored nodes, in order.
package c04

import (
	"fmt"
	"sort"
	"testing"

	"github.com/openacid/low/bmtree"
	"pgregory.net/rapid"

	"verif/harness/gen"
	"verif/harness/model"
	"verif/harness/vk"
)

func TestMain(m *testing.M) { vk.Main(m, "C04") }

type Case struct {
	Op    string   `json:"op"`            // "allpaths" | "decode" | "maxdecode"
	Max   int      `json:"max,omitempty"` // maxdecode: bm is the maximum bitmap (exactly 2^25 words = 2^31 bits), description Max (gen.UseMax)
	Mask  int32    `json:"mask"`
	From  vk.U64   `json:"from,omitempty"`
	To    vk.U64   `json:"to,omitempty"`
	Class string   `json:"class,omitempty"`
	Bm    vk.Words `json:"bm,omitempty"`
}

var checker = &vk.Checker[Case]{
	ID: "C04",
	Rule: "AllPaths: level masks of height 0..30 x (from,to) built around a centre with a bounded span in the upper half and lower halves from {0, a valid mask, ffffffff, random}, plus exact hits p, p+-1, from==to, from>to, to=0, from beyond the tree, full ranges for h<=12; " +
		"oracle = per stored level enumerate candidate prefixes, encode, filter from<=p<to, sort; exact slice equality. Decode: masks of height <= 12 (thorough <= 16) x bitmaps of any content, exact length, truncated, empty, extended with garbage, garbage at bits >= bitmapSize; oracle = pre-order walk with its own index; plus re-encoding through the library's PathToIndex (round trip). " +
		"Grid: all masks h<=5 (thorough <=7) x all (from,to) from {every path, every path+-1}; Decode on all masks h<=3 x all subsets. Non-trivial (AllPaths): non-empty result and a clip actually taken (a stored node in from's group lies below from, or one in to's group is >= to); (Decode): proper non-empty subset, h>=2. " +
		"Decode is also given the head of the MAXIMUM bitmap (a 2^25-word array, the largest one int32 positions address) for masks of height <= 8 on three descriptions. " +
		"Grid cases distinct by construction; rapid cases hashed only outside the grid domain.",
	Check:    check,
	Classify: classify,
	Hashed: func(c Case) bool {
		h := model.NewTree(c.Mask).H
		if c.Op == "decode" {
			return h > 3
		}
		return h > gridH()
	},
}

func gridH() int { return vk.Pick(5, 7) }

// wantAllPaths is the oracle of AllPaths; it also reports whether a clip was taken.
func wantAllPaths(mask int32, from, to uint64) (out []uint64, clipped bool) {
	tr := model.NewTree(mask)
	h := tr.H
	fu, tu := from>>32, to>>32
	for l := 0; l <= h; l++ {
		if !tr.Stored[l] {
			continue
		}
		sh := uint(h - l)
		lo, hi := fu>>sh, tu>>sh
		maxB := uint64(1)<<uint(l) - 1
		if lo > 0 {
			lo--
		}
		if hi < maxB {
			hi++
		}
		if hi > maxB {
			hi = maxB
		}
		for b := lo; b <= hi; b++ {
			p := model.PathWord(b, l, h)
			if p >= from && p < to {
				out = append(out, p)
			}
			if (p>>32 == fu && p < from) || (p>>32 == tu && p >= to) {
				clipped = true
			}
		}
	}
	sort.Slice(out, func(i, j int) bool { return out[i] < out[j] })
	return out, clipped
}

// wantDecode is the oracle of Decode: pre-order walk, own index, own bit test.
func wantDecode(mask int32, bm []uint64) (out []uint64, stored int) {
	tr := model.NewTree(mask)
	tr.Walk(func(prefix uint64, l int, st bool, index int64) {
		if !st {
			return
		}
		stored++
		if index < int64(64*len(bm)) && bm[index/64]>>(uint(index)%64)&1 == 1 {
			out = append(out, model.PathWord(prefix, l, tr.H))
		}
	})
	return out, stored
}

func eq(a, b []uint64) bool {
	if len(a) != len(b) {
		return false
	}
	for i := range a {
		if a[i] != b[i] {
			return false
		}
	}
	return true
}

func show(xs []uint64) string {
	if len(xs) > 12 {
		return fmt.Sprintf("%#x ... (%d paths)", xs[:12], len(xs))
	}
	return fmt.Sprintf("%#x", xs)
}

func firstDiff(a, b []uint64) string {
	for i := 0; i < len(a) || i < len(b); i++ {
		switch {
		case i >= len(a):
			return fmt.Sprintf("position %d: got nothing, want %#x", i, b[i])
		case i >= len(b):
			return fmt.Sprintf("position %d: got %#x, want nothing", i, a[i])
		case a[i] != b[i]:
			return fmt.Sprintf("position %d: got %#x, want %#x", i, a[i], b[i])
		}
	}
	return "equal"
}

func checkAllPaths(mask int32, from, to uint64) *vk.Failure {
	want, _ := wantAllPaths(mask, from, to)
	var got []uint64
	if f := vk.Try(fmt.Sprintf("AllPaths(%#x, %#x, %#x)", mask, from, to), func() { got = bmtree.AllPaths(mask, from, to) }); f != nil {
		return f
	}
	if !eq(got, want) {
		return vk.Failf("allpaths", "AllPaths(mask=%#x, from=%#x, to=%#x): %s; got %s want %s", mask, from, to, firstDiff(got, want), show(got), show(want))
	}
	return nil
}

var scratch vk.Scratch

func checkDecode(mask int32, bm []uint64) *vk.Failure {
	want, _ := wantDecode(mask, bm)
	keep := bm
	bm = append(make([]uint64, 0, len(keep)), keep...) // the code under test gets a private copy ...
	reused := scratch.Reuse(vk.SumU64(keep) + uint64(mask))
	if reused {
		bm = scratch.U64(keep) // ... or a reused buffer (same address as earlier calls) with guarded spare capacity
	}
	var got []uint64
	if f := vk.Try(fmt.Sprintf("Decode(%#x, %d words)", mask, len(bm)), func() { got = bmtree.Decode(mask, bm) }); f != nil {
		return f
	}
	if !eq(got, want) {
		return vk.Failf("decode", "Decode(mask=%#x, bm=%#x): %s; got %s want %s", mask, bm, firstDiff(got, want), show(got), show(want))
	}
	if !eq(bm, keep) {
		return vk.Failf("decode-mutates", "Decode modified its bitmap argument")
	}
	if reused {
		if msg := scratch.Check(); msg != "" {
			return vk.Failf("argument-spare-capacity-written", "Decode: %s", msg)
		}
	}
	// round trip: encode the decoded set through the library's own PathToIndex
	enc := make([]uint64, (int(mask)+63)/64)
	var f *vk.Failure
	for _, p := range want {
		var idx int32
		if f = vk.Try("PathToIndex", func() { idx = bmtree.PathToIndex(mask, p) }); f != nil {
			return f
		}
		if idx < 0 || int(idx) >= 64*len(enc) {
			return vk.Failf("roundtrip-index-range", "PathToIndex(%#x,%#x) = %d outside the bitmap", mask, p, idx)
		}
		enc[idx/64] |= 1 << (uint(idx) % 64)
	}
	var got2 []uint64
	if f = vk.Try("Decode(round trip)", func() { got2 = bmtree.Decode(mask, enc) }); f != nil {
		return f
	}
	if !eq(got2, want) {
		return vk.Failf("roundtrip", "encode(PathToIndex) then Decode(mask=%#x): %s", mask, firstDiff(got2, want))
	}
	return nil
}

// maxHead is a private copy of the first words of the maximum bitmap's description (what a mask < 2^9 can address).
func maxHead(v int) []uint64 {
	gen.UseMax(v)
	h := make([]uint64, 9)
	for k := range h {
		h[k] = gen.MaxWord(k)
	}
	return h
}

// checkMaxDecode: a node bitmap that is the head of a huge shared bitmap (2^25 words, the largest one int32 positions address).
func checkMaxDecode(v int, mask int32) *vk.Failure {
	if v < 0 || v >= gen.MaxVariants || mask < 1 || mask >= 1<<9 {
		return nil
	}
	want, _ := wantDecode(mask, maxHead(v))
	bm := gen.UseMax(v)
	var got []uint64
	if f := vk.Try(fmt.Sprintf("Decode(%#x, 2^25 words (description %d))", mask, v), func() { got = bmtree.Decode(mask, bm) }); f != nil {
		return f
	}
	if !eq(got, want) {
		return vk.Failf("decode", "Decode(mask=%#x, bm = 2^25-word bitmap (description %d) starting %#x): %s; got %s want %s", mask, v, maxHead(v)[:3], firstDiff(got, want), show(got), show(want))
	}
	if k, bad := gen.MaxBitmapDamage(); bad {
		return vk.Failf("decode-mutates", "Decode modified word %d of its 2^25-word bitmap argument", k)
	}
	return nil
}

func check(c Case) *vk.Failure {
	if c.Op == "maxdecode" {
		return checkMaxDecode(c.Max, c.Mask)
	}
	if c.Op == "decode" {
		return checkDecode(c.Mask, c.Bm)
	}
	return checkAllPaths(c.Mask, uint64(c.From), uint64(c.To))
}

func classify(c Case) (bool, []string) {
	tr := model.NewTree(c.Mask)
	labels := []string{"op:" + c.Op, "class:" + c.Class}
	switch {
	case tr.H <= 7:
		labels = append(labels, "h:0-7")
	case tr.H <= 16:
		labels = append(labels, "h:8-16")
	default:
		labels = append(labels, "h:17-30")
	}
	if c.Op == "maxdecode" {
		want, stored := wantDecode(c.Mask, maxHead(c.Max%gen.MaxVariants))
		if len(want) > 0 && len(want) < stored {
			labels = append(labels, "subset:proper")
		}
		return tr.H >= 2 && len(want) > 0 && len(want) < stored, labels
	}
	if c.Op == "decode" {
		want, stored := wantDecode(c.Mask, c.Bm)
		switch {
		case len(want) == 0:
			labels = append(labels, "subset:empty")
		case len(want) == stored:
			labels = append(labels, "subset:all")
		default:
			labels = append(labels, "subset:proper")
		}
		need := (int(c.Mask) + 63) / 64
		switch {
		case len(c.Bm) < need:
			labels = append(labels, "bm:short")
		case len(c.Bm) > need:
			labels = append(labels, "bm:long")
		default:
			labels = append(labels, "bm:exact")
		}
		return len(want) > 0 && len(want) < stored && tr.H >= 2, labels
	}
	want, clipped := wantAllPaths(c.Mask, uint64(c.From), uint64(c.To))
	if len(want) == 0 {
		labels = append(labels, "result:empty")
	} else {
		labels = append(labels, "result:nonempty")
	}
	if clipped {
		labels = append(labels, "clip-taken")
	}
	return len(want) > 0 && clipped, labels
}

// ---------------------------------------------------------------- generators

func genMask(t *rapid.T, maxH int) int32 {
	var h int
	if gen.Chance(t, 1, 3, "hboost") {
		h = min(rapid.SampledFrom([]int{0, 1, 2, 7, 29, 30, 30}).Draw(t, "hb"), maxH)
	} else {
		h = gen.Uniform(t, maxH+1, "h")
	}
	top := int32(1) << uint(h)
	low := int32(gen.U64(t, "low")) & (top - 1)
	switch gen.Uniform(t, 6, "mclass") {
	case 0:
		return top | (top - 1)
	case 1:
		return top
	case 2:
		return top | 1
	case 3:
		return top | (low & int32(gen.U64(t, "low2")))
	case 4:
		return top | ((low | int32(gen.U64(t, "low2"))) & (top - 1))
	}
	return top | low
}

func lowHalf(t *rapid.T, h int, label string) uint64 {
	switch gen.Uniform(t, 5, label+".lowclass") {
	case 0:
		return 0
	case 1:
		return 0xffffffff
	case 2, 3: // a valid mask of some length for this height
		l := gen.Uniform(t, h+1, label+".l")
		return model.PathWord(0, l, h) & 0xffffffff
	}
	return gen.U64(t, label+".low") & 0xffffffff
}

func genAllPaths(t *rapid.T) Case {
	mask := genMask(t, 30)
	tr := model.NewTree(mask)
	h := tr.H
	spanMax := uint64(vk.Pick(1<<10, 1<<14))
	c := Case{Op: "allpaths", Mask: mask}
	nodeWord := func(label string) uint64 {
		l := gen.Uniform(t, h+1, label+".l")
		var p uint64
		if l > 0 {
			p = gen.U64(t, label+".p") & (uint64(1)<<uint(l) - 1)
		}
		return model.PathWord(p, l, h)
	}
	switch gen.Uniform(t, 10, "class") {
	case 0: // exact hits around real paths
		c.Class = "exact-hits"
		p := nodeWord("p")
		d := []uint64{0, 1, ^uint64(0)}[gen.Uniform(t, 3, "d1")]
		c.From = vk.U64(p + d)
		span := gen.U64(t, "span") % spanMax
		q := (p>>32 + span) << 32
		c.To = vk.U64(q | lowHalf(t, h, "to"))
	case 1:
		c.Class = "to-exact"
		p := nodeWord("p")
		d := []uint64{0, 1, ^uint64(0)}[gen.Uniform(t, 3, "d1")]
		c.To = vk.U64(p + d)
		span := gen.U64(t, "span") % spanMax
		fu := p >> 32
		if fu >= span {
			fu -= span
		} else {
			fu = 0
		}
		c.From = vk.U64(fu<<32 | lowHalf(t, h, "from"))
	case 2:
		c.Class = "from==to"
		p := nodeWord("p") + []uint64{0, 1, ^uint64(0)}[gen.Uniform(t, 3, "d1")]
		c.From, c.To = vk.U64(p), vk.U64(p)
	case 3:
		c.Class = "from>to"
		p := nodeWord("p")
		c.From, c.To = vk.U64(p+1+gen.U64(t, "d")%1000), vk.U64(p)
	case 4:
		c.Class = "to=0"
		c.From, c.To = vk.U64(nodeWord("p")), 0
	case 5:
		c.Class = "beyond-tree"
		c.From = vk.U64((uint64(1)<<uint(h)+gen.U64(t, "over")%5)<<32 | lowHalf(t, h, "from"))
		c.To = vk.U64(gen.U64(t, "to") | 1<<63)
	case 6:
		if h <= 12 {
			c.Class = "full-range"
			c.From = 0
			c.To = vk.U64([]uint64{1 << 63, ^uint64(0), uint64(1) << uint(32+h), uint64(1)<<uint(32+h) - 1}[gen.Uniform(t, 4, "fullto")])
			break
		}
		fallthrough
	default:
		c.Class = "window"
		centre := gen.U64(t, "centre") % (uint64(1) << uint(h))
		span := gen.U64(t, "span") % spanMax
		if gen.Chance(t, 1, 2, "tiny") {
			span %= 4
		}
		c.From = vk.U64(centre<<32 | lowHalf(t, h, "from"))
		c.To = vk.U64((centre+span)<<32 | lowHalf(t, h, "to"))
	}
	// keep the scanned span bounded whatever the class produced (e.g. p-1 wrapping to 2^64-1):
	// the function loops over every full-length prefix between from>>32 and min(to>>32, 2^h).
	if h > 12 {
		end := min(uint64(c.To)>>32+1, uint64(1)<<uint(h))
		start := uint64(c.From) >> 32
		if end > start && end-start > 2*spanMax {
			c.From = vk.U64((end-2*spanMax)<<32 | uint64(c.From)&0xffffffff)
			c.Class += "+span-clamped"
		}
	}
	return c
}

func genDecode(t *rapid.T) Case {
	mask := genMask(t, vk.Pick(12, 16))
	need := (int(mask) + 63) / 64
	bm := make(vk.Words, need)
	style := gen.Uniform(t, 6, "density")
	for i := range bm {
		switch style {
		case 0:
		case 1:
			bm[i] = ^uint64(0)
		case 2:
			bm[i] = gen.U64(t, "a") & gen.U64(t, "b") & gen.U64(t, "c")
		case 3:
			bm[i] = gen.U64(t, "a")
		case 4:
			bm[i] = gen.U64(t, "a") | gen.U64(t, "b")
		}
	}
	if style == 5 { // exactly one node
		k := int(gen.U64(t, "one") % uint64(mask))
		bm[k/64] |= 1 << (uint(k) % 64)
	}
	c := Case{Op: "decode", Mask: mask, Class: []string{"none", "all", "sparse", "half", "dense", "one"}[style]}
	// garbage at bits >= bitmapSize inside the last word
	if int(mask)%64 != 0 && gen.Chance(t, 1, 2, "garbage-tail") {
		bm[need-1] |= gen.U64(t, "g") &^ (uint64(1)<<(uint(mask)%64) - 1)
		c.Class += "+garbage-tail"
	}
	switch gen.Uniform(t, 5, "lenclass") {
	case 0:
		k := 1 + gen.Uniform(t, min(need, 3), "cut")
		bm = bm[:need-k]
		c.Class += "+truncated"
	case 1:
		bm = bm[:0]
		c.Class += "+empty"
	case 2:
		k := 1 + gen.Uniform(t, 3, "ext")
		for i := 0; i < k; i++ {
			bm = append(bm, gen.U64(t, "extw"))
		}
		c.Class += "+extended"
	}
	c.Bm = bm
	return c
}

func genCase(t *rapid.T) Case {
	if gen.Chance(t, 1, 6, "decode") {
		return genDecode(t)
	}
	return genAllPaths(t)
}

func TestRegress(t *testing.T) { checker.Regress(t) }

func TestProp(t *testing.T) { checker.Prop(t, genCase) }

func FuzzProp(f *testing.F) { checker.Fuzz(f, genAllPaths) }

func TestGrid(t *testing.T) {
	vk.SetPhase("grid")
	shard, nshards := vk.Shard()
	var evals, nontriv int64
	fail := func(c Case, f *vk.Failure) {
		if g := checker.Eval(c); g == nil {
			vk.Infra(fmt.Sprintf("grid found %v but the per-case check passes on %+v", f, c))
		}
		t.Fatalf("VERIF-FAIL property=C04 kind=%s: %s", f.Kind, f.Msg)
	}
	maxH := gridH()
	for mask := int32(1); mask < int32(1)<<uint(maxH+1); mask++ {
		if int(mask)%nshards != shard {
			continue
		}
		tr := model.NewTree(mask)
		var vals []uint64
		tr.Walk(func(prefix uint64, l int, _ bool, _ int64) {
			p := model.PathWord(prefix, l, tr.H)
			vals = append(vals, p, p+1, p-1)
		})
		for _, from := range vals {
			for _, to := range vals {
				evals++
				want, clipped := wantAllPaths(mask, from, to)
				if len(want) > 0 && clipped {
					nontriv++
				}
				var got []uint64
				f := vk.Try("AllPaths", func() { got = bmtree.AllPaths(mask, from, to) })
				if f == nil && !eq(got, want) {
					f = vk.Failf("allpaths", "grid mismatch")
				}
				if f != nil {
					fail(Case{Op: "allpaths", Mask: mask, From: vk.U64(from), To: vk.U64(to), Class: "grid"}, f)
				}
			}
		}
	}
	// Decode: all masks of height <= 3 x all subsets (as a 1-word bitmap), plus len 0 and a garbage-extended copy
	for mask := int32(1); mask < 16; mask++ {
		if int(mask)%nshards != shard {
			continue
		}
		for sub := uint64(0); sub < 1<<uint(mask); sub++ {
			for _, bm := range [][]uint64{{sub}, {}, {sub | 0xdead0000<<16, ^uint64(0)}} {
				evals++
				if sub != 0 && sub != 1<<uint(mask)-1 && model.NewTree(mask).H >= 2 && len(bm) > 0 {
					nontriv++
				}
				if f := checkDecode(mask, bm); f != nil {
					fail(Case{Op: "decode", Mask: mask, Bm: bm, Class: "grid"}, f)
				}
			}
		}
	}
	vk.CountConstructed(evals, nontriv, "grid")
	if shard == 0 {
		vk.AddSample(map[string]any{"grid": fmt.Sprintf("all masks h<=%d x all (from,to) in {path, path+1, path-1}^2; Decode: all masks h<=3 x all subsets x 3 bitmap shapes", maxH),
			"example": map[string]any{"mask": "0x2d", "from": "0x400000030", "to": "0x1800000038", "allpaths": fmt.Sprintf("%#x", bmtree.AllPaths(0x2d, 0x400000030, 0x1800000038))}})
	}
	vk.MarkExhaustive(fmt.Sprintf("AllPaths: all masks h<=%d x all (from,to) from {path, path+-1}; Decode: all masks h<=3 x all subsets", maxH))
}

// TestLast runs at the very end of the process: huge inputs (the maximum bitmap / string) and the regression cases of that size come last, so that
// what they leave behind in the library cannot mask anything the ordinary cases would have met.
func TestLast(t *testing.T) {
	vk.SetPhase("last")
	shard := 0
	if shard == 0 { // the bitmap argument is the head of a 2^25-word array: masks of every height <= 8 on each description
		for v := 0; v < gen.MaxVariants; v++ {
			for mask := int32(1); mask < 1<<9; mask++ {
				if mask < 64 || vk.Mix(uint64(mask))%4 == 0 || mask&(mask+1) == 0 {
					checker.Run(t, Case{Op: "maxdecode", Max: v, Mask: mask, Class: "grid-maximum"})
				}
			}
		}
	}
	checker.RegressLast(t)
}

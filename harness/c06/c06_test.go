// Package c06 decides property C06: pbcmpl frames round-trip (message,
// version, size; one frame per call, independent of reader chunking).
package c06

import (
	"bytes"
	"errors"
	"fmt"
	"io"
	"testing"

	oerrors "github.com/openacid/errors"
	"github.com/openacid/low/iohelper"
	"github.com/openacid/low/pbcmpl"
	"pgregory.net/rapid"

	"verif/harness/gen"
	"verif/harness/pbm"
	"verif/harness/vk"
)

func TestMain(m *testing.M) { vk.Main(m, "C06") }

type Frame = pbm.FrameJ

type Case struct {
	Frames []Frame `json:"frames"`
	Sink   string  `json:"sink"`   // buffer | attowriter
	Reader string  `json:"reader"` // whole | one | sizes | eofdata | zero | attoreader
	Sizes  []int   `json:"sizes,omitempty"`
}

var checker = &vk.Checker[Case]{
	ID: "C06",
	Rule: "streams of 1..6 frames x message kinds (real protobuf BytesValue/StringValue/Int64Value/Empty and a legacy Marshal/Unmarshal message, each also versioned where it can carry a version) x versions of 0..16 bytes not ending in NUL (interior NULs, '', '1.0.0', 16 bytes boosted) x payload lengths {0,1,2,31,32,33,127,128,...,16383,16384, up to 64 KiB thorough} " +
		"x sink {bytes.Buffer, iohelper.AtToWriter} x reader {whole, 1 byte per Read, drawn chunk sizes, data together with io.EOF, (0,nil) reads, iohelper.AtToReader, and the standard-library reader types bufio.Reader (default and 16-byte buffer), bytes.Reader, bytes.Buffer, strings.Reader, io.LimitReader, iotest.DataErrReader, iotest.HalfReader}; every other frame is decoded into a destination that already holds other content. Oracle: hand-written wire encoder (version NUL-padded to 16 | LE64(32) | LE64(len body) | body; protobuf bodies encoded by hand, self-tested against the protobuf library) and a stream model: " +
		"bytes appended == expected, n == len == Size == HeaderSize+len(body), ReadHeader == (32,{ver,32,len body}); the k-th Unmarshal returns the k-th message, its version, n == frame length, cumulative consumption == sum of frame lengths (never reads into the next frame), then io.EOF with n=0. " +
		"Non-trivial: >= 2 frames or a body length other than 32, read with a non-'whole' chunking. Distinct by hash of the case.",
	Check:    check,
	Classify: classify,
}

func check(c Case) *vk.Failure {
	var buf bytes.Buffer
	mem := &pbm.MemWriterAt{}
	var sink io.Writer = &buf
	if c.Sink == "attowriter" {
		if f := vk.Try("AtToWriter", func() { sink = iohelper.AtToWriter(mem, 0) }); f != nil {
			return f
		}
	}
	written := func() []byte {
		if c.Sink == "attowriter" {
			return mem.Buf
		}
		return buf.Bytes()
	}
	var stream []byte
	var lens []int
	for i, fr := range c.Frames {
		f := fr.PB()
		want := f.Wire()
		msg := f.Message()
		var n int64
		var err error
		if fl := vk.Try(fmt.Sprintf("frame %d: Marshal(%s, %d payload bytes, ver %q)", i, f.Kind, len(f.Payload), f.Ver), func() { n, err = pbcmpl.Marshal(sink, msg) }); fl != nil {
			return fl
		}
		if err != nil {
			return vk.Failf("marshal-error", "frame %d (%s): Marshal failed: %v", i, f.Kind, err)
		}
		got := written()
		if len(got) != len(stream)+len(want) || !bytes.Equal(got[:len(stream)], stream) || !bytes.Equal(got[len(stream):], want) {
			tail := got[min(len(stream), len(got)):]
			return vk.Failf("wire-bytes", "frame %d (%s, ver %q): sink received %d bytes %x, want %d bytes %x", i, f.Kind, f.WantVersion(), len(tail), clip(tail), len(want), clip(want))
		}
		if n != int64(len(want)) {
			return vk.Failf("marshal-count", "frame %d (%s): Marshal returned %d, %d bytes were written", i, f.Kind, n, len(want))
		}
		var sz, hs int
		if fl := vk.Try("Size/HeaderSize", func() { sz, hs = pbcmpl.Size(msg), pbcmpl.HeaderSize(msg) }); fl != nil {
			return fl
		}
		if hs != 32 || sz != len(want) || sz != hs+len(f.Body()) {
			return vk.Failf("size", "frame %d (%s): HeaderSize=%d Size=%d, frame has %d bytes (body %d)", i, f.Kind, hs, sz, len(want), len(f.Body()))
		}
		// ReadHeader on the frame
		var hn int64
		var h pbcmpl.Header
		if fl := vk.Try("ReadHeader", func() { hn, h, err = pbcmpl.ReadHeader(bytes.NewReader(want)) }); fl != nil {
			return fl
		}
		if err != nil || hn != 32 || h == nil {
			return vk.Failf("readheader", "frame %d: ReadHeader returned (%d, %v, %v)", i, hn, h, err)
		}
		if h.GetVersion() != f.WantVersion() || h.GetHeaderSize() != 32 || h.GetBodySize() != int64(len(f.Body())) {
			return vk.Failf("readheader", "frame %d: ReadHeader reports version %q header %d body %d, want %q 32 %d", i, h.GetVersion(), h.GetHeaderSize(), h.GetBodySize(), f.WantVersion(), len(f.Body()))
		}
		stream = append(stream, want...)
		lens = append(lens, len(want))
	}

	// read back
	var r io.Reader
	var consumed func() int
	isStd := false
	for _, k := range pbm.StdReaders {
		isStd = isStd || k == c.Reader
	}
	switch {
	case c.Reader == "attoreader":
		cr := &pbm.CountingReader{R: iohelper.AtToReader(bytes.NewReader(stream), 0)}
		r, consumed = cr, func() int { return cr.Consumed }
	case isStd:
		// standard-library reader types (implementations sometimes special-case them); buffered ones read
		// ahead by design, so consumption is only accounted for the unbuffered ones
		r = pbm.WrapReader(c.Reader, stream)
		consumed = nil
	default:
		cr := pbm.NewChunkReader(stream, c.Reader, c.Sizes)
		r, consumed = cr, func() int { return cr.Consumed }
	}
	total := 0
	for i, fr := range c.Frames {
		f := fr.PB()
		msg := f.Fresh()
		if (i+len(c.Frames)+len(f.Payload))%2 == 1 {
			msg = f.Dirty() // a destination that already holds other content (reused across frames)
		}
		var n int64
		var ver string
		var err error
		if fl := vk.Try(fmt.Sprintf("frame %d: Unmarshal (%s reader)", i, c.Reader), func() { n, ver, err = pbcmpl.Unmarshal(r, msg) }); fl != nil {
			return fl
		}
		if err != nil {
			return vk.Failf("unmarshal-error", "frame %d (%s, %s reader): Unmarshal failed: %v", i, f.Kind, c.Reader, err)
		}
		if n != int64(lens[i]) {
			return vk.Failf("unmarshal-count", "frame %d (%s reader): Unmarshal returned n=%d, the frame has %d bytes", i, c.Reader, n, lens[i])
		}
		total += lens[i]
		if consumed != nil && consumed() != total {
			return vk.Failf("consumption", "frame %d (%s reader): %d bytes consumed from the stream after this call, frames so far have %d", i, c.Reader, consumed(), total)
		}
		if ver != f.WantVersion() {
			return vk.Failf("version", "frame %d: Unmarshal reported version %q, want %q", i, ver, f.WantVersion())
		}
		if ok, s := f.SameContent(msg); !ok {
			return vk.Failf("message", "frame %d (%s): decoded content %s differs from what was marshalled (%d payload bytes %x / int %d)", i, f.Kind, clipS(s), len(f.Payload), clip(f.Payload), f.Int)
		}
	}
	// after the last frame: clean EOF
	var n int64
	var err error
	last := c.Frames[len(c.Frames)-1].PB()
	if fl := vk.Try("Unmarshal at end of stream", func() { n, _, err = pbcmpl.Unmarshal(r, last.Fresh()) }); fl != nil {
		return fl
	}
	if n != 0 || err == nil || (oerrors.Cause(err) != io.EOF && !errors.Is(err, io.EOF)) { // "cause": either wrapping convention
		return vk.Failf("end-of-stream", "Unmarshal after the last frame returned (n=%d, err=%v), want (0, cause io.EOF)", n, err)
	}
	return nil
}

func clip(b []byte) []byte {
	if len(b) > 80 {
		return b[:80]
	}
	return b
}

func clipS(s string) string {
	if len(s) > 160 {
		return s[:160] + "..."
	}
	return s
}

func classify(c Case) (bool, []string) {
	labels := []string{"sink:" + c.Sink, "reader:" + c.Reader, fmt.Sprintf("frames:%d", min(len(c.Frames), 3))}
	other := false
	for _, fr := range c.Frames {
		f := fr.PB()
		labels = append(labels, "kind:"+f.Kind)
		if f.Versioned {
			labels = append(labels, "versioned")
			if len(f.Ver) == 16 {
				labels = append(labels, "ver:16bytes")
			}
			if len(f.Ver) == 0 {
				labels = append(labels, "ver:empty")
			}
			if bytes.IndexByte(f.Ver, 0) >= 0 {
				labels = append(labels, "ver:interior-nul")
			}
		}
		bl := len(f.Body())
		switch {
		case bl == 0:
			labels = append(labels, "body:0")
		case bl < 128:
			labels = append(labels, "body:1-127")
		case bl < 16384:
			labels = append(labels, "body:128-16383")
		default:
			labels = append(labels, "body:>=16384")
		}
		if bl != 32 {
			other = true
		}
	}
	// de-duplicate labels
	seen := map[string]bool{}
	out := labels[:0]
	for _, l := range labels {
		if !seen[l] {
			seen[l] = true
			out = append(out, l)
		}
	}
	return (len(c.Frames) >= 2 || other) && c.Reader != "whole", out
}

// ---------------------------------------------------------------- generator

func genCase(t *rapid.T) Case {
	nf := 1 + gen.Uniform(t, 6, "nframes")
	if gen.Chance(t, 1, 3, "single") {
		nf = 1
	}
	c := Case{}
	maxPayload := vk.Pick(17000, 65536)
	for i := 0; i < nf; i++ {
		c.Frames = append(c.Frames, pbm.GenFrame(t, maxPayload))
	}
	c.Sink = []string{"buffer", "attowriter"}[gen.Uniform(t, 2, "sink")]
	c.Reader = []string{"whole", "one", "sizes", "sizes", "eofdata", "zero", "attoreader"}[gen.Uniform(t, 7, "reader")]
	if gen.Chance(t, 1, 4, "stdreader") {
		c.Reader = pbm.StdReaders[gen.Uniform(t, len(pbm.StdReaders), "std")]
	}
	if c.Reader == "sizes" || c.Reader == "eofdata" || c.Reader == "zero" {
		k := 1 + gen.Uniform(t, 5, "nsizes")
		for i := 0; i < k; i++ {
			c.Sizes = append(c.Sizes, []int{1, 2, 3, 7, 15, 16, 17, 31, 32, 33, 64, 1000}[gen.Uniform(t, 12, "size")])
		}
	}
	return c
}

func TestRegress(t *testing.T) { checker.Regress(t) }

func TestProp(t *testing.T) { checker.Prop(t, genCase) }

// FuzzProp: the same generator driven by the native coverage-guided fuzzer (thorough tier only).
func FuzzProp(f *testing.F) { checker.Fuzz(f, genCase) }

// TestGrid: a deterministic table: every kind x {unversioned, versioned ”/'1.2.3'/16 bytes} x body lengths around the boundaries x every reader mode.
func TestGrid(t *testing.T) {
	vk.SetPhase("grid")
	// bodies around every power of two (alone and with the 32-byte header) and one frame of several MiB
	for k := uint(5); k <= 13; k++ {
		for _, n := range []int{1<<k - 33, 1<<k - 32, 1<<k - 31, 1<<k - 1, 1 << k, 1<<k + 1} {
			if n < 0 {
				continue
			}
			b := make([]byte, n)
			for i := range b {
				b[i] = byte(vk.Mix(uint64(n)*3+uint64(i/8)) >> (8 * uint(i%8)))
			}
			small := Frame{Kind: "bytes", Payload: []byte("next")}
			checker.Run(t, Case{Frames: []Frame{{Kind: "raw", Payload: b}, small, {Kind: "bytes", Payload: b}, small}, Sink: "buffer", Reader: "sizes", Sizes: []int{1000, 7, 4096}})
		}
	}
	big := make([]byte, 2<<20+4096+5)
	for i := range big {
		big[i] = byte(vk.Mix(uint64(i/8)+99) >> (8 * uint(i%8)))
	}
	checker.Run(t, Case{Frames: []Frame{{Kind: "raw", Payload: big}, {Kind: "bytes", Payload: []byte("after the big one")}, {Kind: "bytes", Payload: big[:1<<20+1]}}, Sink: "attowriter", Reader: "sizes", Sizes: []int{65536, 1 << 20, 4095}})
	vers := [][]byte{nil, {}, []byte("1.2.3"), []byte("0123456789abcdef"), []byte("a\x00b")}
	for _, kind := range pbm.Kinds {
		for vi, ver := range vers {
			if vi > 0 && !pbm.HasVersionedForm(kind) {
				continue
			}
			for _, n := range []int{0, 1, 30, 31, 32, 33, 126, 127, 128} {
				for _, rd := range append([]string{"whole", "one", "sizes", "eofdata", "zero", "attoreader"}, pbm.StdReaders...) {
					f := Frame{Kind: kind, Versioned: vi > 0, Ver: ver}
					if kind == "int64" {
						f.Int = int64(n) * 1000003
					} else if kind != "empty" {
						f.Payload = bytes.Repeat([]byte{byte('a' + n%26)}, n)
					}
					checker.Run(t, Case{Frames: []Frame{f, f}, Sink: "buffer", Reader: rd, Sizes: []int{3, 32, 5}})
				}
			}
		}
	}
}

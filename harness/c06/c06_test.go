// Package c06 decides property C06: pbcmpl frames round-trip (message,
// version, size; one frame per call, independent of reader chunking).
package c06

import (
	"bytes"
	"fmt"
	"io"
	"testing"

	proto "github.com/golang/protobuf/proto"
	"github.com/openacid/low/iohelper"
	"github.com/openacid/low/pbcmpl"
	"pgregory.net/rapid"

	"verif/harness/gen"
	"verif/harness/pbm"
	"verif/harness/vk"
)

func TestMain(m *testing.M) { vk.Main(m, "C06") }

// keep is checker.Keep (set in init: check is part of checker's own initialiser).
var keep func(func() string)

func init() { keep = checker.Keep }

type Frame = pbm.FrameJ

type Case struct {
	Frames []Frame `json:"frames"`
	Sink   string  `json:"sink"`   // buffer | attowriter
	Reader string  `json:"reader"` // whole | one | sizes | eofdata | zero | attoreader
	Sizes  []int   `json:"sizes,omitempty"`
	// Dest[i] (optional, parallel to Frames): what frame i is decoded into. "" = a destination of the frame's own
	// type carrying the frame's own version; "otherver" = a versioned destination whose GetVersion() differs from
	// the version in the frame; "plain" = the unversioned message type (for a frame written from a versioned message).
	Dest []string `json:"dest,omitempty"`
}

const trailer = "TRAILER!" // follows the frame in the stream ReadHeader reads from

// destFor builds the destination message for frame i.
func (c Case) destFor(i int, f pbm.Frame, dirty bool) (proto.Message, string) {
	mode := ""
	if i < len(c.Dest) {
		mode = c.Dest[i]
	}
	g := f
	switch mode {
	case "otherver":
		if pbm.HasVersionedForm(f.Kind) {
			g.Versioned, g.Ver = true, []byte("9.9.9-dest")
			if f.Versioned && string(f.Ver) == string(g.Ver) {
				g.Ver = []byte("8.8.8-dest")
			}
		}
	case "plain":
		g.Versioned, g.Ver = false, nil
	}
	if dirty {
		return g.Dirty(), mode
	}
	return g.Fresh(), mode
}

// oddVersion hands the version of a versioned message over as a string that (for about half of the
// checksums) is a substring of a larger buffer: not 8-aligned, foreign non-zero bytes before and behind
// it (also behind an EMPTY version). The value is the same.
func oddVersion(m proto.Message, sum uint64) {
	switch x := m.(type) {
	case *pbm.RawV:
		x.Ver = vk.OddString(x.Ver, sum)
	case *pbm.BytesV:
		x.Ver = vk.OddString(x.Ver, sum)
	case *pbm.StringV:
		x.Ver = vk.OddString(x.Ver, sum)
	case *pbm.ListV:
		x.Ver = vk.OddString(x.Ver, sum)
	}
}

// keptHeader is a Header that ReadHeader returned together with what it reported then: it belongs to the
// caller and must go on reporting the same figures whatever pbcmpl is asked to do afterwards.
type keptHeader struct {
	h     pbcmpl.Header
	what  string
	ver   string
	bsize int64
}

func (k keptHeader) reread() string {
	var ver string
	var hs, bs int64
	if fl := vk.Try("getters of a Header returned earlier", func() { ver, hs, bs = k.h.GetVersion(), k.h.GetHeaderSize(), k.h.GetBodySize() }); fl != nil {
		return k.what + ": " + fl.Msg
	}
	if ver != k.ver || hs != 32 || bs != k.bsize {
		return fmt.Sprintf("%s reported version %q header 32 body %d when ReadHeader returned it and reports version %q header %d body %d now", k.what, k.ver, k.bsize, ver, hs, bs)
	}
	return ""
}

func rereadAll(ks []keptHeader) string {
	for _, k := range ks {
		if s := k.reread(); s != "" {
			return s
		}
	}
	return ""
}

// openReader builds the reader kind of the case over data; consumed is nil where consumption cannot be
// accounted (buffered standard-library readers read ahead by design).
func openReader(kind string, sizes []int, data []byte) (r io.Reader, consumed func() int) {
	for _, k := range pbm.StdReaders {
		if k == kind {
			// standard-library reader types (implementations sometimes special-case them)
			return pbm.WrapReader(kind, data), nil
		}
	}
	if kind == "attoreader" {
		cr := &pbm.CountingReader{R: iohelper.AtToReader(bytes.NewReader(data), 0)}
		return cr, func() int { return cr.Consumed }
	}
	cr := pbm.NewChunkReader(data, kind, sizes)
	return cr, func() int { return cr.Consumed }
}

var checker = &vk.Checker[Case]{
	ID: "C06",
	Rule: "streams of 1..6 frames x message kinds (real protobuf BytesValue/StringValue/Int64Value/Empty, a legacy Marshal/Unmarshal message, and (1 frame in 6) a structpb.ListValue with repeated and nested content - strings, [string,bool], {key:string}, [[string],number] items cut from the payload, some with unknown fields - each also versioned where it can carry a version; a message object is used again for the next frame of its type, its sub-messages updated in place) x versions of 0..16 bytes not ending in NUL (interior NULs, '', '1.0.0', 16 bytes boosted; handed over half of the time as a substring at an odd address with foreign bytes around it) x payload lengths {0,1,2,31,32,33,127,128,...,16383,16384, up to 64 KiB thorough} and (1 frame in 10) a log-uniform magnitude up to 1 MiB (2 MiB thorough) or a multiple of a round piece size (512, 1000, 4096, 10000, 32768, 65536, 100000 ... 2^20) -+ the header; the grid sweeps every octave 16 KiB .. 1 MiB (8 MiB thorough): 2^k and 3*2^(k-1) -33/-32/-31/-1/0/+1, keyed lengths in between, decimal round numbers, and 2 MiB " +
		"x sink {bytes.Buffer, iohelper.AtToWriter} x reader {whole, 1 byte per Read, drawn chunk sizes (list and log-uniform 1..128 KiB), data together with io.EOF, (0,nil) reads, iohelper.AtToReader, and the standard-library reader types bufio.Reader (default and 16-byte buffer), bytes.Reader, bytes.Buffer, strings.Reader, io.LimitReader, iotest.DataErrReader, iotest.HalfReader}; every other frame is decoded into a destination that already holds other content; half of the destinations carry a version of their own that differs from the frame's, or are of the unversioned type. Oracle: hand-written wire encoder (version NUL-padded to 16 | LE64(32) | LE64(len body) | body; protobuf bodies encoded by hand, self-tested against the protobuf library) and a stream model: " +
		"bytes appended == expected, n == len == Size == HeaderSize+len(body), ReadHeader through the same reader kind succeeds and reports {ver,32,len body} (its count and how much it takes from the stream are not asserted), and every Header it returned still reports the same after all later ReadHeader/Unmarshal calls of the case and of the next 8 cases; the k-th Unmarshal returns the k-th message, the version written into the frame (whatever the destination says), n == frame length, cumulative consumption == sum of frame lengths (never reads into the next frame), then no success on the exhausted stream (which error: C07). " +
		"Non-trivial: >= 2 frames or a body length other than 32, read with a non-'whole' chunking. Distinct by hash of the case.",
	Check:    check,
	Classify: classify,
}

func check(c Case) *vk.Failure {
	var buf bytes.Buffer
	mem := &pbm.MemWriterAt{}
	var sink io.Writer = &buf
	if c.Sink == "attowriter" {
		if f := vk.Try("AtToWriter", func() { sink = iohelper.AtToWriter(mem, 0) }); f != nil {
			return f
		}
	}
	written := func() []byte {
		if c.Sink == "attowriter" {
			return mem.Buf
		}
		return buf.Bytes()
	}
	var stream []byte
	var lens []int
	pbs := make([]pbm.Frame, len(c.Frames))
	for i, fr := range c.Frames {
		pbs[i] = fr.PB()
	}
	var prevMsg proto.Message
	var kept []keptHeader
	for i := range c.Frames {
		f := pbs[i]
		want := f.Wire()
		// the message object of the previous frame is used again when it has the right type (a caller that fills one
		// message, asks for its Size, fills it again and marshals it): what was computed for the earlier content -
		// Size was called on it below - must not be what Marshal writes now
		msg := prevMsg
		if msg == nil || vk.Mix(vk.Hash64(f.Payload)+uint64(i))&1 == 0 || !f.Into(msg) {
			msg = f.Message()
		}
		prevMsg = msg
		oddVersion(msg, vk.Hash64(f.Ver)+uint64(i)*977+uint64(len(f.Payload)))
		var n int64
		var err error
		if fl := vk.Try(fmt.Sprintf("frame %d: Marshal(%s, %d payload bytes, ver %q)", i, f.Kind, len(f.Payload), f.Ver), func() { n, err = pbcmpl.Marshal(sink, msg) }); fl != nil {
			return fl
		}
		if err != nil {
			return vk.Failf("marshal-error", "frame %d (%s): Marshal failed: %v", i, f.Kind, err)
		}
		got := written()
		if len(got) != len(stream)+len(want) || !bytes.Equal(got[:len(stream)], stream) || !bytes.Equal(got[len(stream):], want) {
			tail := got[min(len(stream), len(got)):]
			return vk.Failf("wire-bytes", "frame %d (%s, ver %q): sink received %d bytes %x, want %d bytes %x", i, f.Kind, f.WantVersion(), len(tail), clip(tail), len(want), clip(want))
		}
		if n != int64(len(want)) {
			return vk.Failf("marshal-count", "frame %d (%s): Marshal returned %d, %d bytes were written", i, f.Kind, n, len(want))
		}
		var sz, hs int
		if fl := vk.Try("Size/HeaderSize", func() { sz, hs = pbcmpl.Size(msg), pbcmpl.HeaderSize(msg) }); fl != nil {
			return fl
		}
		blen := len(want) - 32 // want = 32 header bytes | hand-encoded body
		if hs != 32 || sz != len(want) || sz != hs+blen {
			return vk.Failf("size", "frame %d (%s): HeaderSize=%d Size=%d, frame has %d bytes (body %d)", i, f.Kind, hs, sz, len(want), blen)
		}
		// ReadHeader on the frame (followed by other bytes), through the reader kind of the case: it reports the
		// header, however the reader chunks the bytes (how many bytes it takes from the stream is not stated)
		hr, _ := openReader(c.Reader, c.Sizes, append(append(make([]byte, 0, len(want)+len(trailer)), want...), trailer...))
		var hn int64
		var h pbcmpl.Header
		if fl := vk.Try(fmt.Sprintf("ReadHeader (%s reader)", c.Reader), func() { hn, h, err = pbcmpl.ReadHeader(hr) }); fl != nil {
			return fl
		}
		if err != nil || h == nil {
			return vk.Failf("readheader", "frame %d (%s reader): ReadHeader returned (%d, %v, %v)", i, c.Reader, hn, h, err)
		}
		if h.GetVersion() != f.WantVersion() || h.GetHeaderSize() != 32 || h.GetBodySize() != int64(blen) {
			return vk.Failf("readheader", "frame %d: ReadHeader reports version %q header %d body %d, want %q 32 %d", i, h.GetVersion(), h.GetHeaderSize(), h.GetBodySize(), f.WantVersion(), blen)
		}
		// the Headers returned so far still report what they reported (this ReadHeader was a later call for them)
		if s := rereadAll(kept); s != "" {
			return vk.Failf("readheader-kept", "after ReadHeader on frame %d: %s", i, s)
		}
		kept = append(kept, keptHeader{h: h, what: fmt.Sprintf("the Header of frame %d (%s, %d payload bytes)", i, f.Kind, len(f.Payload)), ver: f.WantVersion(), bsize: int64(blen)})
		stream = append(stream, want...)
		lens = append(lens, len(want))
	}

	// read back
	r, consumed := openReader(c.Reader, c.Sizes, stream)
	total := 0
	for i := range c.Frames {
		f := pbs[i]
		// every other destination already holds other content (reused across frames)
		msg, dest := c.destFor(i, f, (i+len(c.Frames)+len(f.Payload))%2 == 1)
		var n int64
		var ver string
		var err error
		if fl := vk.Try(fmt.Sprintf("frame %d: Unmarshal (%s reader)", i, c.Reader), func() { n, ver, err = pbcmpl.Unmarshal(r, msg) }); fl != nil {
			return fl
		}
		if err != nil {
			return vk.Failf("unmarshal-error", "frame %d (%s, %s reader): Unmarshal failed: %v", i, f.Kind, c.Reader, err)
		}
		if n != int64(lens[i]) {
			return vk.Failf("unmarshal-count", "frame %d (%s reader): Unmarshal returned n=%d, the frame has %d bytes", i, c.Reader, n, lens[i])
		}
		total += lens[i]
		if consumed != nil && consumed() != total {
			return vk.Failf("consumption", "frame %d (%s reader): %d bytes consumed from the stream after this call, frames so far have %d", i, c.Reader, consumed(), total)
		}
		if ver != f.WantVersion() {
			return vk.Failf("version", "frame %d (destination %q): Unmarshal reported version %q, the frame was written with %q", i, dest, ver, f.WantVersion())
		}
		if ok, s := f.SameContent(msg); !ok {
			return vk.Failf("message", "frame %d (%s): decoded content %s differs from what was marshalled (%d payload bytes %x / int %d)", i, f.Kind, clipS(s), len(f.Payload), clip(f.Payload), f.Int)
		}
		if s := rereadAll(kept); s != "" {
			return vk.Failf("readheader-kept", "after Unmarshal of frame %d: %s", i, s)
		}
	}
	// after the last frame: one frame per call and no more - Unmarshal does not report success (which error
	// it reports for an exhausted stream, and which count, is property C07's business)
	var n int64
	var err error
	last := pbs[len(pbs)-1]
	if fl := vk.Try("Unmarshal at end of stream", func() { n, _, err = pbcmpl.Unmarshal(r, last.Fresh()) }); fl != nil {
		return fl
	}
	if err == nil {
		return vk.Failf("end-of-stream", "Unmarshal after the last frame reported success (n=%d)", n)
	}
	if s := rereadAll(kept); s != "" {
		return vk.Failf("readheader-kept", "after Unmarshal at the end of the stream: %s", s)
	}
	// ... and after the calls of later cases
	keep(func() string { return rereadAll(kept) })
	return nil
}

func varintLen(v int) int {
	n := 1
	for v >= 0x80 {
		v >>= 7
		n++
	}
	return n
}

// bodyLen is the length of the encoded body, computed from the case without expanding the payload.
func bodyLen(fr Frame) int {
	n := len(fr.Payload)
	if n == 0 {
		n = fr.FillLen
	}
	switch fr.Kind {
	case "raw":
		return n
	case "bytes", "string":
		if n == 0 {
			return 0
		}
		return 1 + varintLen(n) + n
	}
	return len(fr.PB().Body())
}

func clip(b []byte) []byte {
	if len(b) > 80 {
		return b[:80]
	}
	return b
}

func clipS(s string) string {
	if len(s) > 160 {
		return s[:160] + "..."
	}
	return s
}

func classify(c Case) (bool, []string) {
	labels := []string{"sink:" + c.Sink, "reader:" + c.Reader, fmt.Sprintf("frames:%d", min(len(c.Frames), 3))}
	other := false
	for i, f := range c.Frames {
		labels = append(labels, "kind:"+f.Kind)
		if i < len(c.Dest) && c.Dest[i] != "" {
			labels = append(labels, "dest:"+c.Dest[i])
			if c.Dest[i] == "otherver" && pbm.HasVersionedForm(f.Kind) || c.Dest[i] == "plain" && f.Versioned {
				labels = append(labels, "dest:version-differs-from-frame")
			}
		}
		if f.Kind == "list" && pbm.ListHasUnknown(max(len(f.Payload), f.FillLen)) {
			labels = append(labels, "list:unknown-fields")
		}
		if f.Versioned {
			labels = append(labels, "versioned")
			if len(f.Ver) == 16 {
				labels = append(labels, "ver:16bytes")
			}
			if len(f.Ver) == 0 {
				labels = append(labels, "ver:empty")
			}
			if bytes.IndexByte(f.Ver, 0) >= 0 {
				labels = append(labels, "ver:interior-nul")
			}
		}
		bl := bodyLen(f)
		switch {
		case bl == 0:
			labels = append(labels, "body:0")
		case bl < 128:
			labels = append(labels, "body:1-127")
		case bl < 16384:
			labels = append(labels, "body:128-16383")
		default:
			labels = append(labels, "body:>=16384")
			switch {
			case bl < 1<<17:
				labels = append(labels, "body:16KiB-128KiB")
			case bl < 1<<20:
				labels = append(labels, "body:128KiB-1MiB")
			default:
				labels = append(labels, "body:>=1MiB")
			}
			if bl%(1<<15) == 0 {
				labels = append(labels, "body:multiple-of-32KiB")
			}
		}
		if bl != 32 {
			other = true
		}
	}
	// de-duplicate labels
	seen := map[string]bool{}
	out := labels[:0]
	for _, l := range labels {
		if !seen[l] {
			seen[l] = true
			out = append(out, l)
		}
	}
	return (len(c.Frames) >= 2 || other) && c.Reader != "whole", out
}

// ---------------------------------------------------------------- generator

func genCase(t *rapid.T) Case {
	nf := 1 + gen.Uniform(t, 6, "nframes")
	if gen.Chance(t, 1, 3, "single") {
		nf = 1
	}
	c := Case{}
	maxPayload := vk.Pick(17000, 65536)
	for i := 0; i < nf; i++ {
		if gen.Chance(t, 1, 10, "long") {
			// lengths without holes up to 1 MiB (2 MiB thorough): log-uniform magnitude, multiples of round piece sizes
			c.Frames = append(c.Frames, pbm.GenLongFrame(t, vk.Pick(1<<20, 2<<20)))
		} else if gen.Chance(t, 1, 6, "list") {
			// a message with repeated and nested content
			c.Frames = append(c.Frames, pbm.GenListFrame(t, maxPayload))
		} else {
			f := pbm.GenFrame(t, maxPayload)
			if f.Kind == "raw" && !f.Versioned && gen.Chance(t, 1, 3, "merging") {
				f.Kind = "rawm" // the legacy message whose Unmarshal method merges
			}
			c.Frames = append(c.Frames, f)
		}
		// half of the destinations carry the frame's own version (as a caller that knows what it reads would),
		// the others a different one or none
		c.Dest = append(c.Dest, []string{"", "", "otherver", "plain"}[gen.Uniform(t, 4, "dest")])
	}
	c.Sink = []string{"buffer", "attowriter"}[gen.Uniform(t, 2, "sink")]
	c.Reader = []string{"whole", "one", "sizes", "sizes", "eofdata", "zero", "attoreader"}[gen.Uniform(t, 7, "reader")]
	if gen.Chance(t, 1, 4, "stdreader") {
		c.Reader = pbm.StdReaders[gen.Uniform(t, len(pbm.StdReaders), "std")]
	}
	if c.Reader == "sizes" || c.Reader == "eofdata" || c.Reader == "zero" {
		k := 1 + gen.Uniform(t, 5, "nsizes")
		for i := 0; i < k; i++ {
			if gen.Chance(t, 1, 2, "size.log") {
				c.Sizes = append(c.Sizes, 1+pbm.GenLogLen(t, 1<<17, "size.l")) // no hole between 64 and the largest bodies
			} else {
				c.Sizes = append(c.Sizes, []int{1, 2, 3, 7, 15, 16, 17, 31, 32, 33, 64, 1000}[gen.Uniform(t, 12, "size")])
			}
		}
	}
	return c
}

func TestRegress(t *testing.T) { checker.Regress(t) }

func TestProp(t *testing.T) { checker.Prop(t, genCase) }

// FuzzProp: the same generator driven by the native coverage-guided fuzzer (thorough tier only).
func FuzzProp(f *testing.F) { checker.Fuzz(f, genCase) }

// TestGrid: a deterministic table: lists of changing content; every kind x {unversioned, versioned ”/'1.2.3'/16 bytes} x body lengths around the boundaries x every reader mode.
func TestGrid(t *testing.T) {
	vk.SetPhase("grid")
	// bodies around every power of two (alone and with the 32-byte header) and one frame of several MiB
	for k := uint(5); k <= 13; k++ {
		for _, n := range []int{1<<k - 33, 1<<k - 32, 1<<k - 31, 1<<k - 1, 1 << k, 1<<k + 1} {
			if n < 0 {
				continue
			}
			b := make([]byte, n)
			for i := range b {
				b[i] = byte(vk.Mix(uint64(n)*3+uint64(i/8)) >> (8 * uint(i%8)))
			}
			small := Frame{Kind: "bytes", Payload: []byte("next")}
			checker.Run(t, Case{Frames: []Frame{{Kind: "raw", Payload: b}, small, {Kind: "bytes", Payload: b}, small}, Sink: "buffer", Reader: "sizes", Sizes: []int{1000, 7, 4096}})
		}
	}
	// every octave from 16 KiB to 1 MiB (8 MiB thorough): 2^k and 3*2^(k-1), each -33/-32/-31/-1/0/+1 (body alone and
	// header+body a whole multiple of 16 KiB, 32 KiB, 64 KiB ...), keyed lengths inside every half octave and the
	// decimal round numbers; the same length as a legacy body and as the BODY of a protobuf bytes message
	sweep := append(pbm.LenSweep(14, vk.Pick(uint(20), uint(23)), 6), 1<<21-32, 1<<21, 1<<21+1)
	for i, n := range sweep {
		rd := []struct {
			kind  string
			sizes []int
		}{{"sizes", []int{1000, 7, 4096}}, {"whole", nil}, {"sizes", []int{32768}}, {"bufio", nil}, {"eofdata", []int{65536, 1}}, {"attoreader", nil}, {"zero", []int{16384, 100000}}}[i%7]
		pl := max(n-7, 1) // bytes payload whose body (tag, varint, payload) has n bytes, or the next possible body length
		for 1+varintLen(pl)+pl < n {
			pl++
		}
		small := Frame{Kind: "bytes", Payload: []byte("next")}
		checker.Run(t, Case{Frames: []Frame{{Kind: "raw", FillLen: n, FillKey: vk.U64(n)}, small, {Kind: "bytes", FillLen: pl, FillKey: vk.U64(n) + 1, Versioned: i%2 == 0, Ver: []byte("1.2.3")}, small},
			Sink: []string{"buffer", "attowriter"}[i/7%2], Reader: rd.kind, Sizes: rd.sizes, Dest: []string{"", "", []string{"", "otherver", "plain"}[i%3], ""}})
	}
	big := make([]byte, 2<<20+4096+5)
	for i := range big {
		big[i] = byte(vk.Mix(uint64(i/8)+99) >> (8 * uint(i%8)))
	}
	checker.Run(t, Case{Frames: []Frame{{Kind: "raw", Payload: big}, {Kind: "bytes", Payload: []byte("after the big one")}, {Kind: "bytes", Payload: big[:1<<20+1]}}, Sink: "attowriter", Reader: "sizes", Sizes: []int{65536, 1 << 20, 4095}})
	vers := [][]byte{nil, {}, []byte("1.2.3"), []byte("0123456789abcdef"), []byte("a\x00b")}
	// the structured kind: lists of different content one after the other (the message object and its items are
	// used again: see check), item lengths on both sides of the one-byte length prefix, long items
	for i, n := range []int{1, 5, 60, 61, 62, 126, 127, 128, 129, 300, 2047, 2048, 5000, 20000, 100000} {
		fr := func(n int, key uint64, versioned bool) Frame {
			return Frame{Kind: "list", FillLen: n, FillKey: vk.U64(key), Versioned: versioned, Ver: []byte("2.0.1")}
		}
		small := Frame{Kind: "list", Payload: []byte("abc")} // 3 payload bytes: one item and unknown fields
		checker.Run(t, Case{Frames: []Frame{fr(n, 1, false), fr(n+3, 2, false), fr(max(n/2, 1), 3, false), small, fr(n, 4, true), fr(n+1, 5, true)},
			Sink: "buffer", Reader: []string{"sizes", "whole", "one", "bufio"}[i%4], Sizes: []int{1000, 7, 4096}, Dest: []string{"", "plain", "", "", "otherver", "plain"}})
	}
	for _, kind := range pbm.KindsC06 {
		for vi, ver := range vers {
			if vi > 0 && !pbm.HasVersionedForm(kind) {
				continue
			}
			for _, n := range []int{0, 1, 30, 31, 32, 33, 126, 127, 128} {
				for _, rd := range append([]string{"whole", "one", "sizes", "eofdata", "zero", "attoreader"}, pbm.StdReaders...) {
					f := Frame{Kind: kind, Versioned: vi > 0, Ver: ver}
					if kind == "int64" {
						f.Int = int64(n) * 1000003
					} else if kind != "empty" {
						f.Payload = bytes.Repeat([]byte{byte('a' + n%26)}, n)
					}
					checker.Run(t, Case{Frames: []Frame{f, f}, Sink: "buffer", Reader: rd, Sizes: []int{3, 32, 5}})
				}
				// the destination's own version must not leak into what Unmarshal reports
				f := Frame{Kind: kind, Versioned: vi > 0, Ver: ver}
				if kind == "int64" {
					f.Int = int64(n) * 1000003
				} else if kind != "empty" {
					f.Payload = bytes.Repeat([]byte{byte('a' + n%26)}, n)
				}
				for _, d := range [][]string{{"otherver", "plain"}, {"plain", "otherver"}, {"otherver", ""}} {
					checker.Run(t, Case{Frames: []Frame{f, f}, Sink: "buffer", Reader: "sizes", Sizes: []int{3, 32, 5}, Dest: d})
				}
			}
		}
	}
}

//go:build !verif

package c19

const hooksOn = false

func hookTables() ([]uint8, [][]uint64) { return nil, nil }

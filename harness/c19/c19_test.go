// Package c19 decides property C19: query and codec functions are pure and
// safe for concurrent readers (arguments unchanged, tables unchanged, result
// depends only on the arguments, concurrent == sequential under the race detector).
package c19

import (
	"encoding/json"
	"fmt"
	"os"
	"path/filepath"
	"sync"
	"testing"

	"github.com/openacid/low/bitmap"
	"github.com/openacid/low/bitstr"
	"github.com/openacid/low/bitword"
	"github.com/openacid/low/bmtree"
	"github.com/openacid/low/sigbits"

	"verif/harness/model"

	"pgregory.net/rapid"

	"verif/harness/gen"
	"verif/harness/vk"
)

// coldStart is the very first use of the library in this process, made by several goroutines at
// once: every goroutine starts with a different function (queries before any builder, each bitword
// width, each package), so lazily initialised state is first touched concurrently. Results are
// compared with fixed expectations; in the race build the detector watches. A failure here can only
// be observed at process start, so the probe result is kept and reported by TestColdStart.
var coldStartResult string

func coldStartProbe() {
	vk.ArmProbe("C19", Case{Op: "cold-start"}) // a fatal fault in here (e.g. a write through a string) must name a case
	defer vk.DisarmProbe()
	type probe struct {
		name string
		fn   func() string
		want string
	}
	w := []uint64{0x8000000000010100, 0, 0xb5}
	sidx, ridx := []int32{8}, []int32{0, 3, 3, 8}
	probes := []probe{
		{"bitmap.Select32 with an index not built in this process", func() string { return fmt.Sprint(bitmap.Select32(w, sidx, 4)) }, "130 132"},
		{"bitmap.Select32R64 with indexes not built in this process", func() string { return fmt.Sprint(bitmap.Select32R64(w, sidx, ridx, 2)) }, "63 128"},
		{"bitmap.Rank64", func() string { return fmt.Sprint(bitmap.Rank64(w, ridx, 131)) }, "5 0"},
		{"bitword[1].Get", func() string { return fmt.Sprint(bitword.BitWord[1].Get("\x80\xff", 8)) }, "1"},
		{"bitword[2].FirstDiff", func() string { return fmt.Sprint(bitword.BitWord[2].FirstDiff("\xffa", "\xffb", 0, -1)) }, "7"},
		{"bitword[4].Get", func() string { return fmt.Sprint(bitword.BitWord[4].Get("\xf1\x2e", 3)) }, "14"},
		{"bitword[1].FromStr", func() string { return fmt.Sprint(bitword.BitWord[1].FromStr("\x81")) }, "[1 0 0 0 0 0 0 1]"},
		{"bitword[2].FromStr", func() string { return fmt.Sprint(bitword.BitWord[2].FromStr("\x1b")) }, "[0 1 2 3]"},
		{"bitword[4].ToStr", func() string { return fmt.Sprintf("%x", bitword.BitWord[4].ToStr([]byte{6, 1, 6})) }, "6160"},
		{"bmtree.PathToIndexLoose", func() string { return fmt.Sprint(bmtree.PathToIndexLoose(0x5, model.PathWord(1, 2, 2))) }, wantLoose(0x5, 1, 2)},
		{"bmtree.PathToIndex", func() string { return fmt.Sprint(bmtree.PathToIndex(0xd, model.PathWord(3, 2, 3))) }, wantStrict(0xd, 3, 2)},
		{"bmtree.IndexToPath", func() string { return fmt.Sprintf("%#x", bmtree.IndexToPath(6, 40)) }, wantIndexToPath(6, 40)},
		{"bmtree.PathStr", func() string { return bmtree.PathStr(model.PathWord(5, 3, 9)) }, "101"},
		{"bmtree.Decode", func() string { return fmt.Sprintf("%#x", bmtree.Decode(0x7, []uint64{0x2a})) }, wantDecode(0x7, 0x2a)},
		{"bitstr.StrCmpUpto", func() string { return fmt.Sprint(bitstr.StrCmpUpto("ab", bitstr.New("abc", 0, 12))) }, "0"},
		{"sigbits.FirstDiffBits", func() string { return fmt.Sprint(sigbits.FirstDiffBits([]string{"ab", "ac", "b"})) }, "[15 6]"},
		{"sigbits.ShardByPrefix", func() string { return fmt.Sprint(sigbits.ShardByPrefix([]string{"aa", "ab", "b"}, 1)) }, "[2 2 1] [0 1 2 3]"}, // (maxSize 1: the only valid sharding)
	}
	// the fixed expectations above come from the definitions; the independent oracles re-derive two of them
	if raceBuild {
		enc, _ := json.Marshal(Case{Op: "cold-start"})
		fc := vk.FileCase{Property: "C19", Kind: "data-race", Message: "the race detector reported conflicting unsynchronised accesses during the concurrent first use of the library in this process (report in the run's log)", Case: enc}
		b, _ := json.Marshal(fc)
		_ = os.WriteFile(filepath.Join(vk.OutDir(), "race-pending.json"), b, 0o644)
	}
	res := make([]string, len(probes)*2)
	var start, done sync.WaitGroup
	start.Add(1)
	for gi := range res {
		done.Add(1)
		go func(gi int) {
			defer done.Done()
			defer func() {
				if r := recover(); r != nil {
					res[gi] = fmt.Sprintf("panic: %v", r)
				}
			}()
			start.Wait()
			res[gi] = probes[gi%len(probes)].fn()
		}(gi)
	}
	start.Done()
	done.Wait()
	if raceBuild {
		_ = os.Remove(filepath.Join(vk.OutDir(), "race-pending.json"))
	}
	for gi, r := range res {
		if p := probes[gi%len(probes)]; r != p.want {
			coldStartResult = fmt.Sprintf("concurrent first use of the library in this process: %s returned %s, want %s", p.name, r, p.want)
			return
		}
	}
}

// expectations of the cold-start probes, from the oracles (none of them calls the library)
func wantLoose(mask int32, prefix uint64, l int) string {
	i, has := model.NewTree(mask).Index(prefix, l)
	h := 0
	if has {
		h = 1
	}
	return fmt.Sprint(i, h)
}

func wantStrict(mask int32, prefix uint64, l int) string {
	i, _ := model.NewTree(mask).Index(prefix, l)
	return fmt.Sprint(i)
}

func wantIndexToPath(h int, idx int64) string {
	out := ""
	tr := model.NewTree(int32(1)<<uint(h+1) - 1)
	tr.Walk(func(prefix uint64, l int, _ bool, index int64) {
		if index == idx {
			out = fmt.Sprintf("%#x", model.PathWord(prefix, l, h))
		}
	})
	return out
}

func wantDecode(mask int32, bm uint64) string {
	var out []uint64
	tr := model.NewTree(mask)
	tr.Walk(func(prefix uint64, l int, st bool, index int64) {
		if st && bm>>uint(index)&1 == 1 {
			out = append(out, model.PathWord(prefix, l, tr.H))
		}
	})
	return fmt.Sprintf("%#x", out)
}

func TestColdStart(t *testing.T) {
	vk.SetPhase("coldstart")
	vk.Label("cold-start-probe", 1)
	if coldStartResult != "" {
		checker.Run(t, Case{Op: "cold-start"})
	}
}

func TestMain(m *testing.M) {
	coldStartProbe()
	vk.SetExtra("hooks", hooksOn)
	if raceBuild {
		vk.SetExtra("race_detector_build_evaluated", true)
	}
	vk.Main(m, "C19")
}

type Call struct {
	Fn string `json:"fn"`
	A  Args   `json:"a"`
}

type Case struct {
	Op    string `json:"op"`              // call | round
	Calls []Call `json:"calls"`           // call: exactly one; round: the shared workload
	Batch []Call `json:"batch,omitempty"` // call: unrelated calls run between the two evaluations
	G     int    `json:"g,omitempty"`     // round: goroutines
	Reps  int    `json:"reps,omitempty"`  // round: passes over the workload per goroutine
	Perm  vk.U64 `json:"perm,omitempty"`  // round: key of the per-goroutine permutations
}

var checker = &vk.Checker[Case]{
	ID: "C19",
	Rule: fmt.Sprintf("%d call kinds covering the quantifier's list (bitmap Rank64/Rank128/Select32/Select32R64/index builders/NextOne/PrevOne/Slice/ToArray/Getw/Get*/SafeGet*/FromStr32/Join/Of, bmtree PathToIndex/Loose/IndexToPath/AllPaths/Decode/PathOf/PathsOf/path accessors, bitstr New/Len/Cmp/CmpUpto/StrCmpUpto, bitword FromStr(s)/ToStr(s)/Get/FirstDiff, sigbits FirstDiffBits/New+CountPrefixes/ShardByPrefix) with in-domain generated arguments. ", len(funcs)) +
		"'call' cases: every slice argument (also the prebuilt indexes) is a window into a larger array with canaries before it and in its spare capacity, every string a fresh heap string, []string lists have canary neighbours; all are compared with snapshots after the call (1: arguments unchanged); package tables are compared with independently computed values, with the start-up snapshot of the unexported tables (verif hook) and behaviourally through Select32 / IndexToPath (2: tables unchanged); the call is repeated after a batch of unrelated calls and with relocated arguments, and the slices it returned the first time are rendered again afterwards and must read the same (3: result depends only on arguments and belongs to the caller). " +
		"'round' cases: a shared workload of ~24 calls is evaluated sequentially, then by G in {2,8,32} goroutines released together, each running keyed permutations of the workload; every result must equal the sequential one, guards and tables are re-checked; the same rounds run in a binary built with the race detector (halt_on_error), where any unsynchronised conflicting access ends the process (4). " +
		"Non-trivial: a call whose arguments include a non-empty slice or string; a round with >= 2 goroutines sharing at least one such argument. Distinct by hash of the case.",
	Check:    check,
	Classify: classify,
}

func nonEmptyArgs(a Args) bool {
	for _, w := range a.W {
		if len(w) > 0 {
			return true
		}
	}
	for _, s := range a.S {
		if len(s) > 0 {
			return true
		}
	}
	return false
}

func classify(c Case) (bool, []string) {
	if c.Op == "cold-start" {
		return false, []string{"cold-start-failure"}
	}
	labels := []string{"op:" + c.Op}
	if raceBuild {
		labels = append(labels, "build:race")
	} else {
		labels = append(labels, "build:plain")
	}
	if c.Op == "call" && len(c.Calls) == 1 {
		labels = append(labels, "fn:"+c.Calls[0].Fn)
		return nonEmptyArgs(c.Calls[0].A), labels
	}
	labels = append(labels, fmt.Sprintf("g:%d", c.G))
	shared := false
	for _, cl := range c.Calls {
		shared = shared || nonEmptyArgs(cl.A)
	}
	return c.G >= 2 && shared, labels
}

func setupCall(cl Call, g *guard) (func() []any, *vk.Failure) {
	i, ok := funcIndex[cl.Fn]
	if !ok {
		vk.Infra("case names an unknown call kind: " + cl.Fn)
		return nil, nil
	}
	var fn func() []any
	if f := vk.Try("preparing the arguments of "+cl.Fn, func() { fn = funcs[i].setup(cl.A, g) }); f != nil {
		// index builders run during setup: a panic here is still the library's
		f.Kind = "panic-in-setup"
		return nil, f
	}
	return fn, nil
}

func runCall(name string, fn func() []any) (string, *vk.Failure) {
	_, r, f := runCallRaw(name, fn)
	return r, f
}

// runCallRaw also hands back the raw results (the very slices the library returned).
func runCallRaw(name string, fn func() []any) ([]any, string, *vk.Failure) {
	var res []any
	if f := vk.Try(name, func() { res = fn() }); f != nil {
		return nil, "", f
	}
	return res, render(res), nil
}

func argStr(cl Call) string {
	b, _ := json.Marshal(cl.A)
	if len(b) > 600 {
		b = append(b[:600], "..."...)
	}
	return string(b)
}

func checkCall(c Case) *vk.Failure {
	cl := c.Calls[0]
	if t := checkTables(); t != "" {
		return vk.Failf("tables-before", "a package table is wrong before the call: %s", t)
	}
	g1 := newGuard(0)
	fn1, f := setupCall(cl, g1)
	if f != nil || fn1 == nil {
		return f
	}
	if v := g1.verify(); v != "" {
		return vk.Failf("argument-modified-by-index-builder", "%s(%s): building the derived arguments modified an input: %s", cl.Fn, argStr(cl), v)
	}
	raw1, r1, f := runCallRaw(cl.Fn, fn1)
	if f != nil {
		return f
	}
	if v := g1.verify(); v != "" {
		return vk.Failf("argument-modified", "%s(%s) modified an argument: %s", cl.Fn, argStr(cl), v)
	}
	if t := checkTables(); t != "" {
		return vk.Failf("table-modified", "%s(%s) left a package table changed: %s", cl.Fn, argStr(cl), t)
	}
	// unrelated calls in between
	for _, b := range c.Batch {
		gb := newGuard(1)
		fb, f := setupCall(b, gb)
		if f != nil || fb == nil {
			return f
		}
		if _, f := runCall(b.Fn, fb); f != nil {
			return f
		}
		if v := gb.verify(); v != "" {
			return vk.Failf("argument-modified", "%s(%s) modified an argument: %s", b.Fn, argStr(b), v)
		}
	}
	// what was returned belongs to the caller: it must read the same after other calls
	if again := render(raw1); again != r1 {
		return vk.Failf("result-changed-after-return", "the result of %s(%s) was %s when it was returned and reads %s after %d other calls (it aliases memory the library reuses)", cl.Fn, argStr(cl), clip(r1), clip(again), len(c.Batch))
	}
	// the result must not depend on memory outside the arguments: the same call right after the
	// stack area it will use was overwritten with zeros, and with ones (this is the situation in which
	// StrCmpUpto's missing capacity word made it panic)
	for _, v := range []byte{0x00, 0xff} {
		var rd string
		var fd *vk.Failure
		func() {
			dirtyStack(v)
			rd, fd = runCall(cl.Fn, fn1)
		}()
		if fd != nil {
			fd.Msg = fmt.Sprintf("after the stack had been filled with %#x: %s", v, fd.Msg)
			return fd
		}
		if rd != r1 {
			return vk.Failf("result-depends-on-stack-garbage", "%s(%s) returned %s, but %s when called right after the stack had been filled with %#x", cl.Fn, argStr(cl), clip(r1), clip(rd), v)
		}
	}
	// same live arguments again, then relocated copies
	r2, f := runCall(cl.Fn, fn1)
	if f != nil {
		return f
	}
	if r2 != r1 {
		return vk.Failf("result-not-a-function-of-arguments", "%s(%s) returned %s, and after %d unrelated calls %s for the very same arguments", cl.Fn, argStr(cl), clip(r1), len(c.Batch), clip(r2))
	}
	g3 := newGuard(3)
	fn3, f := setupCall(cl, g3)
	if f != nil || fn3 == nil {
		return f
	}
	r3, f := runCall(cl.Fn, fn3)
	if f != nil {
		return f
	}
	if again := render(raw1); again != r1 {
		return vk.Failf("result-changed-after-return", "the result of %s(%s) was %s when it was returned and reads %s after the same call was made again", cl.Fn, argStr(cl), clip(r1), clip(again))
	}
	if r3 != r1 {
		return vk.Failf("result-depends-on-location", "%s(%s) returned %s, but %s for equal arguments stored elsewhere", cl.Fn, argStr(cl), clip(r1), clip(r3))
	}
	if v := g3.verify(); v != "" {
		return vk.Failf("argument-modified", "%s(%s) modified an argument: %s", cl.Fn, argStr(cl), v)
	}
	if t := checkTables(); t != "" {
		return vk.Failf("table-modified", "a package table changed during the batch after %s: %s", cl.Fn, t)
	}
	return nil
}

var sinkByte byte

// dirtyStack overwrites the stack area below the caller's frame with v.
//
//go:noinline
func dirtyStack(v byte) {
	var buf [2048]byte
	for i := range buf {
		buf[i] = v
	}
	sinkByte = buf[int(v)+17]
}

func clip(s string) string {
	if len(s) > 300 {
		return s[:300] + "..."
	}
	return s
}

func checkRound(c Case) *vk.Failure {
	g := newGuard(2)
	fns := make([]func() []any, len(c.Calls))
	ref := make([]string, len(c.Calls))
	for i, cl := range c.Calls {
		fn, f := setupCall(cl, g)
		if f != nil || fn == nil {
			return f
		}
		fns[i] = fn
		r, f := runCall(cl.Fn, fn)
		if f != nil {
			return f
		}
		ref[i] = r
	}
	// the workload is on disk while goroutines run: the race detector ends the process on a report
	pend := filepath.Join(vk.OutDir(), "race-pending.json")
	if raceBuild {
		enc, _ := json.Marshal(c)
		fc := vk.FileCase{Property: "C19", Kind: "data-race", Message: "the race detector reported conflicting unsynchronised accesses while this workload ran (report in the run's log)", Case: enc}
		b, _ := json.Marshal(fc)
		_ = os.WriteFile(pend, b, 0o644)
	}
	G := max(c.G, 1)
	reps := max(c.Reps, 1)
	n := len(fns)
	errs := make([]*vk.Failure, G)
	var start, done sync.WaitGroup
	start.Add(1)
	for gi := 0; gi < G; gi++ {
		done.Add(1)
		go func(gi int) {
			defer done.Done()
			start.Wait()
			for rep := 0; rep < reps && errs[gi] == nil; rep++ {
				// keyed permutation: visit (a*i+b) mod n with a coprime to n
				a := 1 + int(vk.Mix(uint64(c.Perm)+uint64(gi)*131+uint64(rep))%uint64(n))
				for gcd(a, n) != 1 {
					a++
				}
				b := int(vk.Mix(uint64(c.Perm)^uint64(gi*7919+rep)) % uint64(n))
				for i := 0; i < n; i++ {
					k := (a*i + b) % n
					r, f := runCall(c.Calls[k].Fn, fns[k])
					if f != nil {
						errs[gi] = f
						return
					}
					if r != ref[k] {
						errs[gi] = vk.Failf("concurrent-result-differs", "goroutine %d of %d: %s(%s) returned %s, sequential execution returned %s", gi, G, c.Calls[k].Fn, argStr(c.Calls[k]), clip(r), clip(ref[k]))
						return
					}
				}
			}
		}(gi)
	}
	start.Done()
	done.Wait()
	if raceBuild {
		_ = os.Remove(pend)
	}
	for _, e := range errs {
		if e != nil {
			return e
		}
	}
	if v := g.verify(); v != "" {
		return vk.Failf("argument-modified", "a shared argument changed during a concurrent round: %s", v)
	}
	if t := checkTables(); t != "" {
		return vk.Failf("table-modified", "a package table changed during a concurrent round: %s", t)
	}
	return nil
}

func gcd(a, b int) int {
	for b != 0 {
		a, b = b, a%b
	}
	return a
}

func check(c Case) *vk.Failure {
	if c.Op == "cold-start" {
		if coldStartResult != "" {
			return vk.Failf("cold-start", "%s", coldStartResult)
		}
		return nil
	}
	if len(c.Calls) == 0 {
		return nil
	}
	if c.Op == "round" {
		return checkRound(c)
	}
	return checkCall(c)
}

// ---------------------------------------------------------------- generators

func genOne(t *rapid.T) Call {
	f := funcs[gen.Uniform(t, len(funcs), "fn")]
	return Call{Fn: f.name, A: f.gen(t)}
}

func genCall(t *rapid.T) Case {
	c := Case{Op: "call", Calls: []Call{genOne(t)}}
	// the batch starts with another call of the same kind on fresh arguments (that is what would
	// overwrite a result buffer the library keeps), followed by unrelated calls
	same := funcs[funcIndex[c.Calls[0].Fn]]
	c.Batch = append(c.Batch, Call{Fn: same.name, A: same.gen(t)})
	nb := gen.Uniform(t, 5, "nbatch")
	for i := 0; i < nb; i++ {
		c.Batch = append(c.Batch, genOne(t))
	}
	return c
}

func genRound(t *rapid.T) Case {
	n := 8 + gen.Uniform(t, 24, "ncalls")
	c := Case{Op: "round", G: []int{2, 8, 8, 32}[gen.Uniform(t, 4, "g")], Perm: vk.U64(gen.U64(t, "perm"))}
	for i := 0; i < n; i++ {
		c.Calls = append(c.Calls, genOne(t))
	}
	c.Reps = max(1, 200/n)
	if c.G == 32 {
		c.Reps = max(1, c.Reps/4)
	}
	return c
}

func TestRegress(t *testing.T) { checker.Regress(t) }

// TestProp: 'call' cases (checks 1-3); in the race build mostly rounds.
func TestProp(t *testing.T) {
	checker.Prop(t, func(rt *rapid.T) Case {
		if raceBuild {
			return genRound(rt)
		}
		if gen.Chance(rt, 1, 60, "round") {
			return genRound(rt)
		}
		return genCall(rt)
	})
}

// TestGrid: every call kind at least a fixed number of times (so that no kind depends on the draw).
func TestGrid(t *testing.T) {
	if raceBuild {
		return
	}
	vk.SetPhase("grid")
	// table self-check first: a damaged table at start-up is reported as such
	if s := checkTables(); s != "" {
		t.Fatalf("VERIF-FAIL property=C19 kind=tables-at-startup: %s", s)
	}
	per := vk.Pick(60, 300)
	for fi := range funcs {
		fi := fi
		seed := uint64(1000 + fi)
		_ = seed
		// rapid.Custom draws through a fixed-seed example stream: deterministic per kind
		g := rapid.Custom(func(rt *rapid.T) Case {
			return Case{Op: "call", Calls: []Call{{Fn: funcs[fi].name, A: funcs[fi].gen(rt)}}}
		})
		for k := 0; k < per; k++ {
			c := g.Example(int(vk.Mix(uint64(fi)*100003+uint64(k))>>1) + int(vk.Seed()))
			checker.Run(t, c)
		}
	}
}

// Package c19 decides property C19: query and codec functions are pure and
// safe for concurrent readers (arguments unchanged, tables unchanged, result
// depends only on the arguments, concurrent == sequential under the race detector).
package c19

import (
	"encoding/json"
	"fmt"
	"os"
	"path/filepath"
	"runtime"
	"runtime/debug"
	"sync"
	"testing"

	"github.com/openacid/low/bitmap"
	"github.com/openacid/low/bitstr"
	"github.com/openacid/low/bitword"
	"github.com/openacid/low/bmtree"
	"github.com/openacid/low/sigbits"

	"verif/harness/model"

	"pgregory.net/rapid"

	"verif/harness/gen"
	"verif/harness/vk"
)

// coldStart is the very first use of the library in this process, made by several goroutines at
// once: every goroutine starts with a different function (queries before any builder, each bitword
// width, each package), so lazily initialised state is first touched concurrently. Results are
// compared with fixed expectations; in the race build the detector watches. A failure here can only
// be observed at process start, so the probe result is kept and reported by TestColdStart.
var coldStartResult string

func coldStartProbe() {
	vk.ArmProbe("C19", Case{Op: "cold-start"}) // a fatal fault in here (e.g. a write through a string) must name a case
	defer vk.DisarmProbe()
	type probe struct {
		name string
		fn   func() string
		want string
	}
	w := []uint64{0x8000000000010100, 0, 0xb5}
	sidx, ridx := []int32{8}, []int32{0, 3, 3, 8}
	probes := []probe{
		{"bitmap.Select32 with an index not built in this process", func() string { return fmt.Sprint(bitmap.Select32(w, sidx, 4)) }, "130 132"},
		{"bitmap.Select32R64 with indexes not built in this process", func() string { return fmt.Sprint(bitmap.Select32R64(w, sidx, ridx, 2)) }, "63 128"},
		{"bitmap.Rank64", func() string { return fmt.Sprint(bitmap.Rank64(w, ridx, 131)) }, "5 0"},
		{"bitword[1].Get", func() string { return fmt.Sprint(bitword.BitWord[1].Get("\x80\xff", 8)) }, "1"},
		{"bitword[2].FirstDiff", func() string { return fmt.Sprint(bitword.BitWord[2].FirstDiff("\xffa", "\xffb", 0, -1)) }, "7"},
		{"bitword[4].Get", func() string { return fmt.Sprint(bitword.BitWord[4].Get("\xf1\x2e", 3)) }, "14"},
		{"bitword[1].FromStr", func() string { return fmt.Sprint(bitword.BitWord[1].FromStr("\x81")) }, "[1 0 0 0 0 0 0 1]"},
		{"bitword[2].FromStr", func() string { return fmt.Sprint(bitword.BitWord[2].FromStr("\x1b")) }, "[0 1 2 3]"},
		{"bitword[4].ToStr", func() string { return fmt.Sprintf("%x", bitword.BitWord[4].ToStr([]byte{6, 1, 6})) }, "6160"},
		{"bmtree.PathToIndexLoose", func() string { return fmt.Sprint(bmtree.PathToIndexLoose(0x5, model.PathWord(1, 2, 2))) }, wantLoose(0x5, 1, 2)},
		{"bmtree.PathToIndex", func() string { return fmt.Sprint(bmtree.PathToIndex(0xd, model.PathWord(3, 2, 3))) }, wantStrict(0xd, 3, 2)},
		{"bmtree.IndexToPath", func() string { return fmt.Sprintf("%#x", bmtree.IndexToPath(6, 40)) }, wantIndexToPath(6, 40)},
		{"bmtree.PathStr", func() string { return bmtree.PathStr(model.PathWord(5, 3, 9)) }, "101"},
		{"bmtree.Decode", func() string { return fmt.Sprintf("%#x", bmtree.Decode(0x7, []uint64{0x2a})) }, wantDecode(0x7, 0x2a)},
		{"bitstr.StrCmpUpto", func() string { return fmt.Sprint(bitstr.StrCmpUpto("ab", bitstr.New("abc", 0, 12))) }, "0"},
		{"sigbits.FirstDiffBits", func() string { return fmt.Sprint(sigbits.FirstDiffBits([]string{"ab", "ac", "b"})) }, "[15 6]"},
		{"sigbits.ShardByPrefix", func() string { return fmt.Sprint(sigbits.ShardByPrefix([]string{"aa", "ab", "b"}, 1)) }, "[2 2 1] [0 1 2 3]"}, // (maxSize 1: the only valid sharding)
	}
	// the fixed expectations above come from the definitions; the independent oracles re-derive two of them
	if raceBuild {
		enc, _ := json.Marshal(Case{Op: "cold-start"})
		fc := vk.FileCase{Property: "C19", Kind: "data-race", Message: "the race detector reported conflicting unsynchronised accesses during the concurrent first use of the library in this process (report in the run's log)", Case: enc}
		b, _ := json.Marshal(fc)
		_ = os.WriteFile(filepath.Join(vk.OutDir(), "race-pending.json"), b, 0o644)
	}
	res := make([]string, len(probes)*2)
	var start, done sync.WaitGroup
	start.Add(1)
	// every call kind too, with arguments of several sizes: the first call of each function in this process
	// is made by goroutines that start together (two per probe, each setting up its own guarded arguments
	// inside the goroutine, index builders included). Nothing is known about the right answers yet:
	// the results are compared afterwards with what the same call returns sequentially.
	// The race detector can only report a conflict while it still holds the history of the earlier access: it
	// has 256 thread slots, and keeps about 32K memory accesses per goroutine (GORACE history_size=1). On a
	// busy machine the goroutines of a phase may well run one after the other; so the first phase makes tiny
	// calls only (forced size 3: whatever the first call of a function initialises is still in the history
	// when the second goroutine gets there), every goroutine makes ONE call, and the larger arguments follow
	// in phases of their own, each with fresh goroutines released together.
	// And no goroutine of a phase may END before all of them have made their call (hold): the detector hands
	// the thread slot of a finished goroutine to the next one that starts, and everything the former owner
	// of a slot did counts as having happened before - two goroutines that run one after the other would
	// never be seen as conflicting.
	cold := coldKindProbes()
	var hold sync.WaitGroup
	hold.Add(1)
	for _, cp := range cold[0] {
		for r := range cp.run {
			cp, r := cp, r
			done.Add(1)
			go func() {
				start.Wait()
				cp.exec(r)
				done.Done()
				hold.Wait()
			}()
		}
	}
	for gi := range res {
		done.Add(1)
		go func(gi int) {
			defer hold.Wait()
			defer done.Done()
			defer func() {
				if r := recover(); r != nil {
					res[gi] = fmt.Sprintf("panic: %v", r)
				}
			}()
			start.Wait()
			res[gi] = probes[gi%len(probes)].fn()
		}(gi)
	}
	start.Done()
	done.Wait()
	hold.Done()
	for _, phase := range cold[1:] {
		var start, done, hold sync.WaitGroup
		start.Add(1)
		hold.Add(1)
		for _, cp := range phase {
			for r := range cp.run {
				cp, r := cp, r
				done.Add(1)
				go func() {
					start.Wait()
					cp.exec(r)
					done.Done()
					hold.Wait()
				}()
			}
		}
		start.Done()
		done.Wait()
		hold.Done()
	}
	if raceBuild {
		_ = os.Remove(filepath.Join(vk.OutDir(), "race-pending.json"))
	}
	for gi, r := range res {
		if p := probes[gi%len(probes)]; r != p.want {
			coldStartResult = fmt.Sprintf("concurrent first use of the library in this process: %s returned %s, want %s", p.name, r, p.want)
			return
		}
	}
	for _, phase := range cold {
		for _, cp := range phase {
			if m := cp.judge(); m != "" {
				coldStartResult = "concurrent first use of the library in this process: " + m
				return
			}
		}
	}
}

// coldKind is one generic cold-start probe: a call kind with fixed arguments, executed by len(run)
// goroutines, each on its own guarded copy of the arguments.
type coldKind struct {
	salt uint64
	call Call
	run  []coldRun
}

type coldRun struct {
	g   *guard
	fn  func() []any
	res string
	f   *vk.Failure
}

// coldSizes: the phases of the generic cold-start probes. Per kind a tiny forced size first, then a natural
// draw and two larger forced sizes (a size-gated first-use path must be entered concurrently as well).
var coldSizes = []int{3, -1, 37, 700}

// coldKindProbes returns the probes by phase: [phase][kind].
func coldKindProbes() [][]*coldKind {
	out := make([][]*coldKind, len(coldSizes))
	for j, size := range coldSizes {
		for fi := range funcs {
			fi := fi
			g := rapid.Custom(func(rt *rapid.T) Args { return funcs[fi].gen(rt) })
			forceSize = size
			a := g.Example(900001 + 16*fi + j) // fixed: a cold-start failure must reproduce in a replay process
			forceSize = -1
			out[j] = append(out[j], &coldKind{salt: uint64(j), call: Call{Fn: funcs[fi].name, A: a}, run: make([]coldRun, 2)})
		}
	}
	return out
}

func (cp *coldKind) exec(r int) {
	run := &cp.run[r]
	run.g = newGuard(r, cp.salt)
	run.fn, run.f = setupCall(cp.call, run.g)
	if run.f != nil || run.fn == nil {
		return
	}
	run.res, run.f = runCall(cp.call.Fn, run.fn)
}

// judge runs after the goroutines have finished: sequential execution is the reference.
func (cp *coldKind) judge() string {
	for r := range cp.run {
		run := &cp.run[r]
		if run.f != nil {
			return fmt.Sprintf("%s(%s): %s: %s", cp.call.Fn, argStr(cp.call), run.f.Kind, run.f.Msg)
		}
		if run.fn == nil {
			continue
		}
		if v := run.g.verify(); v != "" {
			return fmt.Sprintf("%s(%s) modified an argument: %s", cp.call.Fn, argStr(cp.call), v)
		}
		seq, f := runCall(cp.call.Fn, run.fn)
		if f != nil {
			return fmt.Sprintf("%s(%s): %s: %s", cp.call.Fn, argStr(cp.call), f.Kind, f.Msg)
		}
		if seq != run.res {
			return fmt.Sprintf("%s(%s) returned %s when it was among the first calls made by concurrent goroutines, and %s for the same arguments afterwards", cp.call.Fn, argStr(cp.call), clip(run.res), clip(seq))
		}
		if run.res != cp.run[0].res {
			return fmt.Sprintf("%s(%s) returned %s to one goroutine and %s to another (equal arguments, first calls in the process)", cp.call.Fn, argStr(cp.call), clip(cp.run[0].res), clip(run.res))
		}
	}
	return ""
}

// expectations of the cold-start probes, from the oracles (none of them calls the library)
func wantLoose(mask int32, prefix uint64, l int) string {
	i, has := model.NewTree(mask).Index(prefix, l)
	h := 0
	if has {
		h = 1
	}
	return fmt.Sprint(i, h)
}

func wantStrict(mask int32, prefix uint64, l int) string {
	i, _ := model.NewTree(mask).Index(prefix, l)
	return fmt.Sprint(i)
}

func wantIndexToPath(h int, idx int64) string {
	out := ""
	tr := model.NewTree(int32(1)<<uint(h+1) - 1)
	tr.Walk(func(prefix uint64, l int, _ bool, index int64) {
		if index == idx {
			out = fmt.Sprintf("%#x", model.PathWord(prefix, l, h))
		}
	})
	return out
}

func wantDecode(mask int32, bm uint64) string {
	var out []uint64
	tr := model.NewTree(mask)
	tr.Walk(func(prefix uint64, l int, st bool, index int64) {
		if st && bm>>uint(index)&1 == 1 {
			out = append(out, model.PathWord(prefix, l, tr.H))
		}
	})
	return fmt.Sprintf("%#x", out)
}

func TestColdStart(t *testing.T) {
	vk.SetPhase("coldstart")
	vk.Label("cold-start-probe", 1)
	if coldStartResult != "" {
		checker.Run(t, Case{Op: "cold-start"})
	}
}

func TestMain(m *testing.M) {
	// the live heap of this check is tiny and every case allocates guarded copies of its arguments: with the
	// default pacing the collector would run a cycle every few cases
	debug.SetGCPercent(1600)
	coldStartProbe()
	vk.SetExtra("hooks", hooksOn)
	if raceBuild {
		vk.SetExtra("race_detector_build_evaluated", true)
	}
	vk.Main(m, "C19")
}

type Call struct {
	Fn string `json:"fn"`
	A  Args   `json:"a"`
}

type Case struct {
	Op    string `json:"op"`               // call | round
	Calls []Call `json:"calls"`            // call: exactly one; round: the shared workload
	Batch []Call `json:"batch,omitempty"`  // call: unrelated calls run between the two evaluations
	G     int    `json:"g,omitempty"`      // round: goroutines
	Reps  int    `json:"reps,omitempty"`   // round: passes over the workload per goroutine
	Procs int    `json:"procs2,omitempty"` // call: when > 0 the call is evaluated once more under this GOMAXPROCS setting (the process that varies GOMAXPROCS sets it)
	Perm  vk.U64 `json:"perm,omitempty"`   // round: key of the per-goroutine permutations; call and round: decides whether an empty slice argument is passed as nil or as an empty slice
}

var checker = &vk.Checker[Case]{
	ID: "C19",
	Rule: fmt.Sprintf("%d call kinds covering the quantifier's list (bitmap Rank64/Rank128/Select32/Select32R64/index builders/NextOne/PrevOne/Slice/ToArray/Getw/Get*/SafeGet*/FromStr32/Join/Of/OfMany/Fmt, bmtree PathToIndex/Loose/IndexToPath/AllPaths/Decode/PathOf/PathsOf/path accessors, bitstr New/Len/Cmp/CmpUpto/StrCmpUpto, bitword FromStr(s)/ToStr(s)/Get/FirstDiff, sigbits FirstDiffBits/New+CountPrefixes/ShardByPrefix) with in-domain generated arguments (the domains of C01..C18: e.g. NextOne and PrevOne with i inside the bitmap; sigbits.New, CountPrefixes and ShardByPrefix on strictly ascending key lists only - lists with repeated or unordered keys go to FirstDiffBits, which is stated for every non-empty list). ", len(funcs)) +
		"One kind asks a SigBits object 2..6 related (keyStart, keyEnd, maxitem) tuples (the same range with another maxitem, the same start with another end, the same end with another start, the same tuple again) four times in different orders (as drawn, backwards, a keyed permutation, as drawn; alternately of two objects built from the same keys; rotated differently for the relocated objects): every answer must equal the first answer to the same tuple, and the first answers must read the same after all later queries - in call cases, in rounds (the goroutines share the object) and at cold start. " +
		"Sizes: the small region of the shared generators (bitmaps <= 10 words, <= 10 keys, strings <= 48 bytes) for about 70% of the calls, otherwise log-uniform (octave uniformly, then 2^k-1, 2^k, 2^k+1 or a uniform position in the octave) up to 8192 words for calls with scalar results, 1024 words for calls whose result grows with the input, 2048 keys, 4096-byte strings, tree heights up to 13 for Decode (seldom 16, and in the grid), 1024 first-level paths for AllPaths (thorough: 8 to 16 times that); large bitmaps and key lists are described by (size, key, style) and expanded deterministically; TestGrid sweeps every kind over 2^k-1, 2^k, 2^k+1 and one keyed size per octave, and one large input per kind is evaluated under every GOMAXPROCS setting of the process that varies it. Positions and ranges aim at both ends of the input and at word boundaries (empty range, whole input, one bit, first bit only ...). " +
		"'call' cases: every slice argument (also the prebuilt indexes, the [][]byte of ToStrs, the [][]int32 and sizes of OfMany, the integer slices of Fmt) is a window into a larger array with canaries before it and in its spare capacity; an EMPTY slice reaches the library as nil for about half of the cases (same shape in every evaluation of one case); every string is a substring of a fresh heap string 0..7 bytes into it with foreign non-zero bytes around it, which are compared too; []string lists have canary neighbours; all are compared with snapshots after the call and once more at the end of the evaluation, after the later calls (1: arguments unchanged, also after return); package tables are compared with independently computed values, with the start-up snapshot of the unexported tables (verif hook; then the slower behavioural probes through Select32 / IndexToPath run on every 8th check) and the state behind the bitword.BitWord entries behaviourally through every method of every width on fixed inputs (2: tables unchanged); the call is repeated after a batch of unrelated calls (the first of them of the same kind), after the stack was overwritten, under another GOMAXPROCS setting (in the process that varies GOMAXPROCS, and for the tall Decode trees of the grid) and with relocated arguments (other offsets, other string alignment), and the slices it returned the first time are rendered again afterwards and must read the same (3: result depends only on arguments and belongs to the caller). " +
		"'round' cases: a shared workload (mixed kinds; calls of one kind; or different calls - long NextOne/PrevOne scans next to rank/select/get/slice calls - on ONE shared bitmap) is evaluated sequentially - before the goroutines start or, every other round, after they have finished - and by G in {2,8,32} goroutines released together, each running keyed permutations of the workload; every result must equal the sequential one, guards and tables are re-checked; the same rounds run in a binary built with the race detector (halt_on_error; there a grid runs rounds of every kind and shared-bitmap rounds), where any unsynchronised conflicting access ends the process (4). " +
		"Cold start: the first calls of the process are made by goroutines released together: fixed probes with expected values, and then every call kind with 4 fixed argument sets (forced size 3 in the first phase, a natural draw, forced sizes 37 and 700 in later phases) by 2 goroutines each, one call per goroutine, arguments set up inside the goroutine; results are compared with sequential execution afterwards. " +
		"Non-trivial: a call whose arguments include a non-empty slice or string; a round with >= 2 goroutines sharing at least one such argument. Distinct by hash of the case.",
	Check:    check,
	Classify: classify,
}

func nonEmptyArgs(a Args) bool {
	for _, b := range a.B {
		if b.N > 0 {
			return true
		}
	}
	if a.K != nil && a.K.N > 0 {
		return true
	}
	for _, w := range a.W {
		if len(w) > 0 {
			return true
		}
	}
	for _, s := range a.S {
		if len(s) > 0 {
			return true
		}
	}
	return false
}

func classify(c Case) (bool, []string) {
	if c.Op == "cold-start" {
		return false, []string{"cold-start-failure"}
	}
	labels := []string{"op:" + c.Op}
	if raceBuild {
		labels = append(labels, "build:race")
	} else {
		labels = append(labels, "build:plain")
	}
	if c.Op == "call" && len(c.Calls) == 1 {
		labels = append(labels, "fn:"+c.Calls[0].Fn)
		if c.Procs > 0 {
			labels = append(labels, "call:also-under-another-gomaxprocs")
		}
		if c.Calls[0].Fn == multiQueryKind {
			labels = append(labels, multiQueryClasses(c.Calls[0].A)...)
		}
		return nonEmptyArgs(c.Calls[0].A), append(labels, argClasses(c.Calls[0].A)...)
	}
	labels = append(labels, fmt.Sprintf("g:%d", c.G))
	shared, oneBitmap, kinds := false, false, map[string]bool{}
	maxWords := 0
	for _, cl := range c.Calls {
		shared = shared || nonEmptyArgs(cl.A)
		oneBitmap = oneBitmap || cl.A.Sh != 0
		kinds[cl.Fn] = true
		maxWords = max(maxWords, cl.A.wlen(0))
	}
	if oneBitmap {
		labels = append(labels, "round:different-calls-on-one-bitmap", sizeClass("round-shared-bitmap-words", maxWords))
	} else if len(kinds) == 1 {
		labels = append(labels, "round:one-kind", "round-kind:"+c.Calls[0].Fn)
	} else {
		labels = append(labels, "round:mixed-kinds")
	}
	if uint64(c.Perm)>>9&1 == 1 {
		labels = append(labels, "round:reference-computed-afterwards")
	}
	labels = append(labels, sizeClass("round-largest-bitmap-words", maxWords))
	return c.G >= 2 && shared, labels
}

// argClasses labels the sizes of the arguments of a call (evidence that no size region is left out).
func argClasses(a Args) []string {
	var out []string
	if len(a.W) > 0 || len(a.B) > 0 {
		out = append(out, sizeClass("words", a.wlen(0)))
		if len(a.B) > 0 && a.B[0].N > 0 {
			out = append(out, "bitmap-style:"+bigStyles[mod(int64(a.B[0].Style), len(bigStyles))])
		}
		if len(a.W) > 1 {
			out = append(out, sizeClass("lists", len(a.W)))
		}
	}
	if a.K != nil {
		out = append(out, sizeClass("keys", a.K.N), "key-style:"+keyStyles[mod(int64(a.K.Style), len(keyStyles))])
	} else if len(a.S) > 0 {
		longest := 0
		for _, s := range a.S {
			longest = max(longest, len(s))
		}
		out = append(out, sizeClass("strings", len(a.S)), sizeClass("longest-string-bytes", longest))
	}
	return out
}

func setupCall(cl Call, g *guard) (func() []any, *vk.Failure) {
	if retiredKinds[cl.Fn] {
		return func() []any { return nil }, nil // (an older replay file: see retiredKinds)
	}
	i, ok := funcIndex[cl.Fn]
	if !ok {
		vk.Infra("case names an unknown call kind: " + cl.Fn)
		return nil, nil
	}
	var fn func() []any
	if f := vk.Try("preparing the arguments of "+cl.Fn, func() { fn = funcs[i].setup(cl.A, g) }); f != nil {
		// index builders run during setup: a panic here is still the library's
		f.Kind = "panic-in-setup"
		return nil, f
	}
	return fn, nil
}

func runCall(name string, fn func() []any) (string, *vk.Failure) {
	_, r, f := runCallRaw(name, fn)
	return r, f
}

// runCallRaw also hands back the raw results (the very slices the library returned).
func runCallRaw(name string, fn func() []any) ([]any, string, *vk.Failure) {
	var res []any
	if f := vk.Try(name, func() { res = fn() }); f != nil {
		return nil, "", f
	}
	// a call closure that makes several library calls and compares them itself (multiQueryKind) reports a
	// disagreement as its only result
	if len(res) == 1 {
		if f, ok := res[0].(*vk.Failure); ok {
			return nil, "", f
		}
	}
	return res, render(res), nil
}

func argStr(cl Call) string {
	b, _ := json.Marshal(cl.A)
	if len(b) > 600 {
		b = append(b[:600], "..."...)
	}
	return string(b)
}

func checkCall(c Case) *vk.Failure {
	cl := c.Calls[0]
	// (every evaluation ends with a table check: the one before the call is needed only when the
	// previous evaluation did not get that far)
	if !tablesGood {
		if t := checkTables(); t != "" {
			return vk.Failf("tables-before", "a package table is wrong before the call: %s", t)
		}
	}
	tablesGood = false
	g1 := newGuard(0, uint64(c.Perm)).inArena(0, true)
	fn1, f := setupCall(cl, g1)
	if f != nil || fn1 == nil {
		return f
	}
	if v := g1.verify(); v != "" {
		return vk.Failf("argument-modified-by-index-builder", "%s(%s): building the derived arguments modified an input: %s", cl.Fn, argStr(cl), v)
	}
	raw1, r1, f := runCallRaw(cl.Fn, fn1)
	if f != nil {
		return f
	}
	if v := g1.verify(); v != "" {
		return vk.Failf("argument-modified", "%s(%s) modified an argument: %s", cl.Fn, argStr(cl), v)
	}
	if t := checkTables(); t != "" {
		return vk.Failf("table-modified", "%s(%s) left a package table changed: %s", cl.Fn, argStr(cl), t)
	}
	// unrelated calls in between
	var later []*guard
	for _, b := range c.Batch {
		gb := newGuard(1, uint64(c.Perm)+uint64(len(later))+1).inArena(1, len(later) == 0)
		later = append(later, gb)
		fb, f := setupCall(b, gb)
		if f != nil || fb == nil {
			return f
		}
		if _, f := runCall(b.Fn, fb); f != nil {
			return f
		}
		if v := gb.verify(); v != "" {
			return vk.Failf("argument-modified", "%s(%s) modified an argument: %s", b.Fn, argStr(b), v)
		}
	}
	// what was returned belongs to the caller: it must read the same after other calls
	if again := render(raw1); again != r1 {
		return vk.Failf("result-changed-after-return", "the result of %s(%s) was %s when it was returned and reads %s after %d other calls (it aliases memory the library reuses)", cl.Fn, argStr(cl), clip(r1), clip(again), len(c.Batch))
	}
	// the result must not depend on memory outside the arguments: the same call right after the
	// stack area it will use was overwritten with zeros, and with ones (this is the situation in which
	// StrCmpUpto's missing capacity word made it panic)
	for _, v := range []byte{0x00, 0xff} {
		var rd string
		var fd *vk.Failure
		func() {
			dirtyStack(v)
			rd, fd = runCall(cl.Fn, fn1)
		}()
		if fd != nil {
			fd.Msg = fmt.Sprintf("after the stack had been filled with %#x: %s", v, fd.Msg)
			return fd
		}
		if rd != r1 {
			return vk.Failf("result-depends-on-stack-garbage", "%s(%s) returned %s, but %s when called right after the stack had been filled with %#x", cl.Fn, argStr(cl), clip(r1), clip(rd), v)
		}
	}
	// same live arguments again, then relocated copies
	r2, f := runCall(cl.Fn, fn1)
	if f != nil {
		return f
	}
	if r2 != r1 {
		return vk.Failf("result-not-a-function-of-arguments", "%s(%s) returned %s, and after %d unrelated calls %s for the very same arguments", cl.Fn, argStr(cl), clip(r1), len(c.Batch), clip(r2))
	}
	// nor may it depend on how many scheduler threads there are (a function that cuts its input into
	// GOMAXPROCS parts): the same live arguments under another setting
	if c.Procs > 0 {
		cur := runtime.GOMAXPROCS(c.Procs)
		rp, f := runCall(cl.Fn, fn1)
		runtime.GOMAXPROCS(cur)
		if f != nil {
			f.Msg = fmt.Sprintf("under GOMAXPROCS=%d: %s", c.Procs, f.Msg)
			return f
		}
		if rp != r1 {
			return vk.Failf("result-depends-on-gomaxprocs", "%s(%s) returned %s under GOMAXPROCS=%d and %s under GOMAXPROCS=%d", cl.Fn, argStr(cl), clip(r1), cur, clip(rp), c.Procs)
		}
	}
	g3 := newGuard(3, uint64(c.Perm)) // fresh memory: addresses the library has (most likely) never seen
	fn3, f := setupCall(cl, g3)
	if f != nil || fn3 == nil {
		return f
	}
	r3, f := runCall(cl.Fn, fn3)
	if f != nil {
		return f
	}
	if again := render(raw1); again != r1 {
		return vk.Failf("result-changed-after-return", "the result of %s(%s) was %s when it was returned and reads %s after the same call was made again", cl.Fn, argStr(cl), clip(r1), clip(again))
	}
	if r3 != r1 {
		return vk.Failf("result-depends-on-location", "%s(%s) returned %s, but %s for equal arguments stored elsewhere", cl.Fn, argStr(cl), clip(r1), clip(r3))
	}
	if v := g3.verify(); v != "" {
		return vk.Failf("argument-modified", "%s(%s) modified an argument: %s", cl.Fn, argStr(cl), v)
	}
	if t := checkTables(); t != "" {
		return vk.Failf("table-modified", "a package table changed during the batch after %s: %s", cl.Fn, t)
	}
	// an argument stays the caller's after the call has returned: nothing may write to it later either
	// (a reference kept by the library and written during a later call)
	if v := g1.verify(); v != "" {
		return vk.Failf("argument-modified-after-return", "an argument of %s(%s) was unchanged when the call returned and was modified during later calls (%d other calls, the same call repeated): %s", cl.Fn, argStr(cl), len(c.Batch), v)
	}
	for i, gb := range later {
		if v := gb.verify(); v != "" {
			return vk.Failf("argument-modified-after-return", "an argument of %s(%s) was unchanged when the call returned and was modified during later calls: %s", c.Batch[i].Fn, argStr(c.Batch[i]), v)
		}
	}
	tablesGood = true
	return nil
}

// tablesGood: the last thing the previous evaluation did was a successful checkTables.
var tablesGood bool

var sinkByte byte

// dirtyStack overwrites the stack area below the caller's frame with v.
//
//go:noinline
func dirtyStack(v byte) {
	var buf [2048]byte
	for i := range buf {
		buf[i] = v
	}
	sinkByte = buf[int(v)+17]
}

func clip(s string) string {
	if len(s) > 300 {
		return s[:300] + "..."
	}
	return s
}

func checkRound(c Case) *vk.Failure {
	tablesGood = false
	g := newGuard(2, uint64(c.Perm)).inArena(3, true)
	fns := make([]func() []any, len(c.Calls))
	ref := make([]string, len(c.Calls))
	// the sequential reference is computed before the goroutines start, or (every other round) after
	// they have finished: then the calls of this round are not preceded by a sequential pass over the
	// same arguments, and state that a function builds on first use of an input class is built concurrently
	refAfter := uint64(c.Perm)>>9&1 == 1
	for i, cl := range c.Calls {
		fn, f := setupCall(cl, g)
		if f != nil || fn == nil {
			return f
		}
		fns[i] = fn
	}
	seqPass := func() *vk.Failure {
		for i, cl := range c.Calls {
			r, f := runCall(cl.Fn, fns[i])
			if f != nil {
				return f
			}
			ref[i] = r
		}
		return nil
	}
	if !refAfter {
		if f := seqPass(); f != nil {
			return f
		}
	}
	// the workload is on disk while goroutines run: the race detector ends the process on a report
	pend := filepath.Join(vk.OutDir(), "race-pending.json")
	if raceBuild {
		enc, _ := json.Marshal(c)
		fc := vk.FileCase{Property: "C19", Kind: "data-race", Message: "the race detector reported conflicting unsynchronised accesses while this workload ran (report in the run's log)", Case: enc}
		b, _ := json.Marshal(fc)
		_ = os.WriteFile(pend, b, 0o644)
	}
	G := max(c.G, 1)
	reps := max(c.Reps, 1)
	n := len(fns)
	errs := make([]*vk.Failure, G)
	first := make([][]string, G) // refAfter: what each goroutine got in its first pass
	for gi := range first {
		first[gi] = make([]string, n)
	}
	// hold: no goroutine ends before all have finished their passes (the race detector hands the thread slot
	// of a finished goroutine to the next one that starts and then takes everything the former owner did as
	// having happened before: on a busy machine, where the goroutines may run one after the other, it would
	// see no conflict at all)
	var start, done, hold sync.WaitGroup
	start.Add(1)
	hold.Add(1)
	for gi := 0; gi < G; gi++ {
		done.Add(1)
		go func(gi int) {
			defer hold.Wait()
			defer done.Done()
			start.Wait()
			for rep := 0; rep < reps && errs[gi] == nil; rep++ {
				// keyed permutation: visit (a*i+b) mod n with a coprime to n
				a := 1 + int(vk.Mix(uint64(c.Perm)+uint64(gi)*131+uint64(rep))%uint64(n))
				for gcd(a, n) != 1 {
					a++
				}
				b := int(vk.Mix(uint64(c.Perm)^uint64(gi*7919+rep)) % uint64(n))
				for i := 0; i < n; i++ {
					k := (a*i + b) % n
					r, f := runCall(c.Calls[k].Fn, fns[k])
					if f != nil {
						errs[gi] = f
						return
					}
					want := ref[k]
					if refAfter {
						if rep == 0 {
							first[gi][k] = r
						}
						want = first[gi][k]
					}
					if r != want {
						errs[gi] = vk.Failf("concurrent-result-differs", "goroutine %d of %d: %s(%s) returned %s, %s", gi, G, c.Calls[k].Fn, argStr(c.Calls[k]), clip(r),
							map[bool]string{false: "sequential execution returned " + clip(want), true: "and in an earlier pass of the same goroutine " + clip(want)}[refAfter])
						return
					}
				}
			}
		}(gi)
	}
	start.Done()
	done.Wait()
	hold.Done()
	if raceBuild {
		_ = os.Remove(pend)
	}
	for _, e := range errs {
		if e != nil {
			return e
		}
	}
	if v := g.verify(); v != "" {
		return vk.Failf("argument-modified", "a shared argument changed during a concurrent round: %s", v)
	}
	if refAfter {
		if f := seqPass(); f != nil {
			return f
		}
		for gi := range first {
			for k := range first[gi] {
				if first[gi][k] != ref[k] {
					return vk.Failf("concurrent-result-differs", "goroutine %d of %d: %s(%s) returned %s, sequential execution (afterwards) returned %s", gi, G, c.Calls[k].Fn, argStr(c.Calls[k]), clip(first[gi][k]), clip(ref[k]))
				}
			}
		}
		if v := g.verify(); v != "" {
			return vk.Failf("argument-modified", "a shared argument changed during the sequential pass of a round: %s", v)
		}
	}
	if t := checkTables(); t != "" {
		return vk.Failf("table-modified", "a package table changed during a concurrent round: %s", t)
	}
	return nil
}

func gcd(a, b int) int {
	for b != 0 {
		a, b = b, a%b
	}
	return a
}

func check(c Case) *vk.Failure {
	if c.Op == "cold-start" {
		if coldStartResult != "" {
			return vk.Failf("cold-start", "%s", coldStartResult)
		}
		return nil
	}
	if len(c.Calls) == 0 {
		return nil
	}
	if c.Op == "round" {
		return checkRound(c)
	}
	return checkCall(c)
}

// ---------------------------------------------------------------- generators

func genOne(t *rapid.T) Call {
	f := funcs[gen.Uniform(t, len(funcs), "fn")]
	return Call{Fn: f.name, A: f.gen(t)}
}

// otherProcs: in the process that steps through GOMAXPROCS settings every call case names a second
// setting (mostly not a power of two) for one more evaluation.
func otherProcs(t *rapid.T) int {
	if !vk.ProcsVaried() {
		return 0
	}
	return []int{3, 4, 5, 6, 7, 8, 12}[gen.Uniform(t, 7, "procs2")]
}

func genCall(t *rapid.T) Case {
	c := Case{Op: "call", Calls: []Call{genOne(t)}, Perm: vk.U64(gen.U64(t, "salt")), Procs: otherProcs(t)}
	// the batch starts with another call of the same kind on fresh arguments (that is what would
	// overwrite a result buffer the library keeps), followed by unrelated calls
	same := funcs[funcIndex[c.Calls[0].Fn]]
	c.Batch = append(c.Batch, Call{Fn: same.name, A: same.gen(t)})
	nb := gen.Uniform(t, 5, "nbatch")
	for i := 0; i < nb; i++ {
		c.Batch = append(c.Batch, genOne(t))
	}
	return c
}

func roundShape(t *rapid.T, c *Case) {
	// the number of passes per goroutine shrinks with the size of the workload (one unit is about one call on small arguments)
	cost := 0
	for _, cl := range c.Calls {
		cost += 1 + cl.A.wlen(0)/16
		if cl.A.K != nil {
			cost += cl.A.K.N / 4
		}
		for _, s := range cl.A.S {
			cost += len(s) / 64
		}
	}
	c.G = []int{2, 8, 8, 32}[gen.Uniform(t, 4, "g")]
	c.Perm = vk.U64(gen.U64(t, "perm"))
	c.Reps = max(1, 200/cost)
	if c.G == 32 {
		c.Reps = max(1, c.Reps/4)
	}
	if raceBuild {
		// the detector needs two unordered executions of a call, not many passes: fewer passes, more workloads
		c.Reps = min(c.Reps, 3)
		c.G = min(c.G, 16)
	}
}

func genRound(t *rapid.T) Case {
	n := 8 + gen.Uniform(t, 24, "ncalls")
	c := Case{Op: "round"}
	for i := 0; i < n; i++ {
		c.Calls = append(c.Calls, genOne(t))
	}
	roundShape(t, &c)
	return c
}

// genKindRound: a round whose calls are all of one kind (so the rare input classes of that kind are
// met by concurrent goroutines more often than one call in a mixed round would).
func genKindRound(t *rapid.T, fi int) Case {
	n := 12 + gen.Uniform(t, 20, "ncalls")
	c := Case{Op: "round"}
	for i := 0; i < n; i++ {
		c.Calls = append(c.Calls, Call{Fn: funcs[fi].name, A: funcs[fi].gen(t)})
	}
	roundShape(t, &c)
	return c
}

// the kinds that read a bitmap argument through guard.bm and so can share one bitmap in a round
var scanKinds = []string{"bitmap.NextOne", "bitmap.PrevOne", "bitmap.NextOne", "bitmap.PrevOne", "bitmap.NextOne", "bitmap.PrevOne",
	"bitmap.Rank64", "bitmap.Rank128", "bitmap.Select32", "bitmap.Select32R64", "bitmap.Get+Get1", "bitmap.Getw", "bitmap.SafeGet+SafeGet1",
	"bitmap.Slice", "bitmap.ToArray", "bitmap.IndexRank64", "bitmap.IndexSelect32"}

// genScanRound: DIFFERENT calls over ONE shared bitmap (the same backing array): long scans by
// NextOne / PrevOne across mostly empty words next to rank / select / get / slice calls on the same
// words. A function that writes to its bitmap argument and puts the old value back is invisible to
// every sequential comparison; here another goroutine reads (or scans across) the word meanwhile.
func genScanRound(t *rapid.T) Case {
	limit := vk.Pick(4096, 1<<16)
	if raceBuild {
		limit = min(limit, 1<<14) // (every word read is instrumented there)
	}
	nw := sizeLog(t, 2, limit, "scanwords")
	spec := drawBig(t, nw, true)
	if gen.Chance(t, 3, 4, "emptyish") { // long runs of empty words: the scans really are long
		spec.Style = []int{1, 3, 5, 6, 7, 8, 10}[gen.Uniform(t, 7, "scanstyle")]
	}
	n := 8 + gen.Uniform(t, 16, "ncalls")
	c := Case{Op: "round"}
	for i := 0; i < n; i++ {
		name := scanKinds[gen.Uniform(t, len(scanKinds), "scankind")]
		if nw > 1024 && (name == "bitmap.Slice" || name == "bitmap.ToArray") {
			name = "bitmap.NextOne"
		}
		save := forceSize
		forceSize = nw // ranges and positions are drawn for a bitmap of this size
		a := funcs[funcIndex[name]].gen(t)
		forceSize = save
		a.W, a.B, a.Sh = nil, []BigBM{spec}, 1
		c.Calls = append(c.Calls, Call{Fn: name, A: a})
	}
	roundShape(t, &c)
	return c
}

func TestRegress(t *testing.T) { checker.Regress(t) }

// TestProp: 'call' cases (checks 1-3); in the race build rounds only (mixed kinds, one kind,
// different calls on one shared bitmap).
func TestProp(t *testing.T) {
	checker.Prop(t, func(rt *rapid.T) Case {
		if raceBuild {
			switch gen.Uniform(rt, 4, "roundkind") {
			case 0:
				return genScanRound(rt)
			case 1:
				return genKindRound(rt, gen.Uniform(rt, len(funcs), "kind"))
			}
			return genRound(rt)
		}
		switch k := gen.Uniform(rt, 120, "round"); {
		case k < 2:
			return genRound(rt)
		case k < 4:
			return genScanRound(rt)
		}
		return genCall(rt)
	})
}

// sweepMax is the largest forced size of the grid's size sweep for a kind (in the kind's own unit:
// words, keys, bytes, list elements); kinds whose result grows with the input stop earlier.
func sweepMax(name string) int {
	switch name {
	case "bitmap.Rank64", "bitmap.Rank128", "bitmap.Select32", "bitmap.Select32R64", "bitmap.NextOne", "bitmap.PrevOne",
		"bitmap.Getw", "bitmap.Get+Get1", "bitmap.SafeGet+SafeGet1", "bitmap.IndexRank64", "bitmap.IndexRank128",
		"bitmap.IndexSelect32", "bitmap.IndexSelect32R64":
		return bigScalar()
	case "bitmap.Of":
		return bigSlice() / 8
	case "bmtree.PathToIndex+Loose", "bmtree.IndexToPath", "bmtree.NewPath+PathLen+PathHeight+PathBits+PathMask+PathStr":
		return 0 // no size-like argument
	case "bitmap.FromStr32", "bitstr.New+Len", "bitstr.Cmp", "bitstr.CmpUpto+StrCmpUpto", "bitword.FromStr+Get+ToStr", "bitword.ToStr", "bitword.FirstDiff":
		return bigStr()
	case "bmtree.PathOf+PathsOf", "sigbits.FirstDiffBits", multiQueryKind, "sigbits.New+CountPrefixes", "sigbits.ShardByPrefix":
		return bigKeys()
	}
	return bigSlice()
}

// sweepSizes: 2^k-1, 2^k, 2^k+1 and a keyed size inside every octave from 8 up to limit.
func sweepSizes(limit int, key uint64) []int {
	var out []int
	for k := 3; 1<<uint(k) <= limit; k++ {
		b := 1 << uint(k)
		for _, n := range []int{b - 1, b, b + 1, b + 2 + int(vk.Mix(key+uint64(k))%uint64(b-2))} {
			if n <= limit {
				out = append(out, n)
			}
		}
	}
	return out
}

func gridCase(fi int, exampleSeed int, size int) Case {
	g := rapid.Custom(func(rt *rapid.T) Case {
		return Case{Op: "call", Calls: []Call{{Fn: funcs[fi].name, A: funcs[fi].gen(rt)}}, Perm: vk.U64(gen.U64(rt, "salt")), Procs: otherProcs(rt)}
	})
	forceSize = size
	defer func() { forceSize = -1 }()
	return g.Example(exampleSeed)
}

// TestGrid: every call kind at least a fixed number of times (so that no kind depends on the draw), and
// every kind with a size-like argument at sizes 2^k-1, 2^k, 2^k+1 and one more size per octave.
// Race build: rounds of one kind for every kind, and rounds of different calls on one shared bitmap.
func TestGrid(t *testing.T) {
	vk.SetPhase("grid")
	if raceBuild {
		for fi := range funcs {
			fi := fi
			g := rapid.Custom(func(rt *rapid.T) Case { return genKindRound(rt, fi) })
			for k := 0; k < vk.Pick(2, 6); k++ {
				checker.Run(t, g.Example(int(vk.Mix(uint64(fi)*7919+uint64(k))>>1)+int(vk.Seed())))
			}
		}
		g := rapid.Custom(genScanRound)
		for k := 0; k < vk.Pick(16, 200); k++ {
			checker.Run(t, g.Example(int(vk.Mix(0x5ca9+uint64(k))>>1)+int(vk.Seed())))
		}
		return
	}
	// table self-check first: a damaged table at start-up is reported as such
	if s := checkTables(); s != "" {
		t.Fatalf("VERIF-FAIL property=C19 kind=tables-at-startup: %s", s)
	}
	per := vk.Pick(60, 300)
	for fi := range funcs {
		for k := 0; k < per; k++ {
			checker.Run(t, gridCase(fi, int(vk.Mix(uint64(fi)*100003+uint64(k))>>1)+int(vk.Seed()), -1))
		}
		limit := sweepMax(funcs[fi].name)
		sizes := sweepSizes(limit, uint64(fi)*977+vk.Seed())
		for k, n := range sizes {
			checker.Run(t, gridCase(fi, int(vk.Mix(uint64(fi)*31337+uint64(k))>>1)+int(vk.Seed()), n))
		}
		if limit >= 256 {
			// one large input per kind (a keyed size in the upper half of the range) meets every scheduler
			// width in the process that varies GOMAXPROCS
			n := limit/2 + int(vk.Mix(uint64(fi)*4099+vk.Seed())%uint64(limit/2))
			c := gridCase(fi, int(vk.Mix(uint64(fi)*65537)>>1)+int(vk.Seed()), n)
			vk.ProcsSweep(func() { checker.Run(t, c) })
		}
	}
	// trees of height 16 for Decode (2^16 first-level values; an all-ones and a dense bitmap, so the nodes at the
	// far right edge of the tree are set), each evaluated once more under GOMAXPROCS 3 and under GOMAXPROCS 4
	for k, mask := range []int64{1 << 16, 1<<17 - 1} {
		for _, other := range []int{3, 4} {
			checker.Run(t, Case{Op: "call", Perm: vk.U64(k), Procs: other, Calls: []Call{{Fn: "bmtree.Decode",
				A: Args{N: []int64{mask}, B: []BigBM{{N: int(mask>>6) + 1, Key: vk.U64(vk.Seed() + uint64(k)), Style: []int{4, 2}[k]}}}}}})
		}
	}
	// a few rounds of different calls on one shared bitmap in the plain build too (wrong results are
	// visible without the race detector when a scan runs across a word another call has changed)
	g := rapid.Custom(genScanRound)
	for k := 0; k < vk.Pick(6, 60); k++ {
		checker.Run(t, g.Example(int(vk.Mix(0x5ca9+uint64(k))>>1)+int(vk.Seed())))
	}
}

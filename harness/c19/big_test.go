package c19

import (
	"fmt"
	"sort"
	"strconv"

	"pgregory.net/rapid"

	"verif/harness/gen"
	"verif/harness/vk"
)

// ---------------------------------------------------------------- sizes without holes
//
// Every size-like quantity above the small region that the shared generators enumerate densely
// (bitmaps of at most 10 words, at most 10 keys, strings of at most 48 bytes) is drawn
// log-uniformly: the octave [2^k, 2^(k+1)) uniformly, then either one of 2^k-1, 2^k, 2^k+1 or a
// uniform position inside the octave. TestGrid additionally sweeps the sizes deterministically
// (forceSize).

// forceSize, when >= 0, replaces the size drawn by bmArgs / keyArgs / strBytes (grid sweep and
// cold-start probes). It is set and reset around the generator call on the test goroutine; the
// generated Args carry the size, so a replay does not depend on it.
var forceSize = -1

func log2floor(n int) int {
	k := 0
	for n > 1 {
		n >>= 1
		k++
	}
	return k
}

func sizeLog(t *rapid.T, lo, hi int, label string) int {
	if hi <= lo {
		return lo
	}
	kmin, kmax := log2floor(max(lo, 1)), log2floor(hi)
	k := kmin + gen.Uniform(t, kmax-kmin+1, label+".octave")
	base := 1 << uint(k)
	var n int
	switch gen.Uniform(t, 8, label+".pos") {
	case 0:
		n = base - 1
	case 1:
		n = base
	case 2:
		n = base + 1
	default:
		n = base + gen.Uniform(t, base, label+".in")
	}
	return min(max(n, lo), hi)
}

func sizeClass(prefix string, n int) string {
	switch {
	case n == 0:
		return prefix + ":0"
	case n <= 10:
		return prefix + ":1-10"
	case n <= 64:
		return prefix + ":11-64"
	case n <= 512:
		return prefix + ":65-512"
	case n <= 4096:
		return prefix + ":513-4096"
	}
	return prefix + ":>4096"
}

// ---------------------------------------------------------------- large bitmaps, described compactly

// BigBM describes a bitmap of N words; expand is a pure function of it (splitmix64 in counter mode
// over a key that rapid drew).
type BigBM struct {
	N     int    `json:"n"`
	Key   vk.U64 `json:"key"`
	Style int    `json:"style"`
	One   bool   `json:"one,omitempty"` // at least one bit is set
}

var bigStyles = []string{"uniform", "sparse-words", "dense", "tail-one", "ones", "few-ones", "ends", "zero", "long-runs", "full-empty-mix", "every-4th-word"}

const bigMaxWords = 1 << 21

type stream struct{ x uint64 }

func (s *stream) next() uint64 {
	s.x += 0x9e3779b97f4a7c15
	z := s.x
	z = (z ^ (z >> 30)) * 0xbf58476d1ce4e5b9
	z = (z ^ (z >> 27)) * 0x94d049bb133111eb
	return z ^ (z >> 31)
}

func (b BigBM) expand() []uint64 {
	n := min(max(b.N, 0), bigMaxWords)
	w := make([]uint64, n)
	if n == 0 {
		return w
	}
	s := &stream{uint64(b.Key)}
	switch mod(int64(b.Style), len(bigStyles)) {
	case 0:
		for i := range w {
			w[i] = s.next()
		}
	case 1:
		for i := range w {
			if s.next()%16 == 0 {
				w[i] = s.next() & s.next()
			}
		}
	case 2:
		for i := range w {
			w[i] = s.next() | s.next() | s.next()
		}
	case 3:
		w[n-1] = 1 << 63
	case 4:
		for i := range w {
			w[i] = ^uint64(0)
		}
	case 5:
		for k := 1 + s.next()%3; k > 0; k-- {
			p := s.next() % uint64(64*n)
			w[p>>6] |= 1 << (p & 63)
		}
	case 6:
		w[0] |= s.next() | 1
		w[n-1] |= s.next() | 1<<63
	case 7:
	case 8:
		for i := 0; i < n; {
			run := 1 + int(s.next()%uint64(n/4+1))
			fill := s.next()&1 == 0
			for j := 0; j < run && i < n; j, i = j+1, i+1 {
				if fill {
					w[i] = s.next()
				}
			}
		}
	case 9:
		for i := range w {
			switch s.next() % 3 {
			case 0:
				w[i] = ^uint64(0)
			case 1:
				w[i] = s.next()
			}
		}
	default:
		for i := range w {
			if i%4 == 3 {
				w[i] = s.next() | 1<<uint(s.next()&63)
			}
		}
	}
	if b.One {
		any := false
		for _, x := range w {
			if x != 0 {
				any = true
				break
			}
		}
		if !any {
			p := uint64(b.Key) % uint64(64*n)
			w[p>>6] |= 1 << (p & 63)
		}
	}
	return w
}

func drawBig(t *rapid.T, n int, one bool) BigBM {
	return BigBM{N: n, Key: vk.U64(gen.U64(t, "bigkey")), Style: gen.Uniform(t, len(bigStyles), "bigstyle"), One: one}
}

// size limits of the log-uniform part: functions that return a scalar take long bitmaps cheaply,
// functions whose result grows with the input get shorter ones
func bigScalar() int { return vk.Pick(8192, 1<<17) }
func bigSlice() int  { return vk.Pick(1024, 1<<14) }

// bmArgs draws the bitmap argument of a call: the small enumerated region (gen.Bitmap, <= 10 words)
// or a log-uniform size up to maxBig words.
func bmArgs(t *rapid.T, nonEmpty, hasOne bool, maxBig int) Args {
	if forceSize >= 0 {
		n := forceSize
		if n == 0 && (nonEmpty || hasOne) {
			n = 1
		}
		if n == 0 {
			return Args{W: []vk.Words{{}}}
		}
		return Args{B: []BigBM{drawBig(t, n, hasOne)}}
	}
	if gen.Chance(t, 7, 10, "small") {
		return Args{W: []vk.Words{genBM(t, nonEmpty, hasOne)}}
	}
	return Args{B: []BigBM{drawBig(t, sizeLog(t, 11, maxBig, "nwords"), hasOne)}}
}

// ---------------------------------------------------------------- large key lists, described compactly

// KeySpec describes a strictly ascending list of N distinct keys (fewer when a style cannot make N).
type KeySpec struct {
	N     int    `json:"n"`
	Key   vk.U64 `json:"key"`
	Style int    `json:"style"`
}

var keyStyles = []string{"counter8", "mixed-length-tree", "long-common-prefix", "nul-chains", "long-at-3-mod-4", "short-binary"}

const keyMaxN = 1 << 18

func be(x uint64, n int) []byte {
	b := make([]byte, n)
	for i := n - 1; i >= 0; i-- {
		b[i] = byte(x)
		x >>= 8
	}
	return b
}

func (k KeySpec) expand() [][]byte {
	n := min(max(k.N, 0), keyMaxN)
	s := &stream{uint64(k.Key)}
	var out [][]byte
	switch mod(int64(k.Style), len(keyStyles)) {
	case 0: // 8-byte big-endian counters with random gaps: deep shared prefixes, all of one length
		x := s.next() >> 20
		for i := 0; i < n; i++ {
			out = append(out, be(x, 8))
			x += 1 + s.next()%(1<<(s.next()%20))
		}
	case 1: // a random prefix tree: lengths 0..~30, some keys longer than 8 bytes, some not
		alpha := []byte{0x00, 0x01, 'a', 'b', 0x7f, 0x80, 0xff}
		prev := []byte{}
		for i := 0; i < n; i++ {
			keep := 0
			if len(prev) > 0 {
				keep = int(s.next() % uint64(len(prev)+1))
			}
			key := append([]byte(nil), prev[:keep]...)
			for e := 1 + int(s.next()%6); e > 0 && len(key) < 30; e-- {
				key = append(key, alpha[s.next()%uint64(len(alpha))])
			}
			out = append(out, key)
			prev = key
		}
	case 2: // a common prefix of 9..72 bytes, then a 3-byte counter
		p := make([]byte, 9+int(s.next()%64))
		for i := range p {
			p[i] = byte(s.next())
		}
		x := s.next() % 1000
		for i := 0; i < n; i++ {
			out = append(out, append(append([]byte(nil), p...), be(x, 3)...))
			x += 1 + s.next()%97
		}
	case 3: // base keys each followed by base+NUL, base+NUL+NUL (a key that is a prefix of its successors)
		x := s.next() >> 40
		for i := 0; i < n; {
			base := be(x, 3+int(s.next()%8))
			for j := 0; j < 3 && i < n; j, i = j+1, i+1 {
				out = append(out, append(append([]byte(nil), base...), make([]byte, j)...))
			}
			x += 1 + s.next()%1000
		}
	case 4: // only the keys at index 3 mod 4 are longer than 8 bytes
		x := s.next() >> 36
		for i := 0; i < n; i++ {
			key := be(x, 4)
			if i%4 == 3 {
				for j := 0; j < 10; j++ {
					key = append(key, byte(s.next()))
				}
			}
			out = append(out, key)
			x += 1 + s.next()%5
		}
	default: // short keys over {00,ff}: many near-duplicates after sorting
		for i := 0; i < n; i++ {
			key := make([]byte, s.next()%12)
			for j := range key {
				if s.next()&1 == 0 {
					key[j] = 0xff
				}
			}
			out = append(out, key)
		}
	}
	sort.Slice(out, func(i, j int) bool { return string(out[i]) < string(out[j]) })
	uniq := out[:0]
	for i, k := range out {
		if i == 0 || string(k) != string(out[i-1]) {
			uniq = append(uniq, k)
		}
	}
	return uniq
}

func bigKeys() int { return vk.Pick(2048, 1<<15) }

// keyArgs draws a key list: the small region (gen.Keys, <= 10 keys) or a log-uniform size.
func keyArgs(t *rapid.T, minN int) Args {
	if forceSize >= 0 {
		return Args{K: &KeySpec{N: max(forceSize, minN), Key: vk.U64(gen.U64(t, "kkey")), Style: gen.Uniform(t, len(keyStyles), "kstyle")}}
	}
	if gen.Chance(t, 7, 10, "small") {
		return Args{S: genKeysSorted(t, minN)}
	}
	return Args{K: &KeySpec{N: sizeLog(t, max(11, minN), bigKeys(), "nkeys"), Key: vk.U64(gen.U64(t, "kkey")), Style: gen.Uniform(t, len(keyStyles), "kstyle")}}
}

// ---------------------------------------------------------------- long strings

func bigStr() int { return vk.Pick(4096, 1<<16) }

// strBytes draws a byte string: the small region (gen.Bytes, <= small bytes) or a log-uniform
// length up to bigStr(), expanded from a drawn key (the bytes are stored in the case).
func strBytes(t *rapid.T, small int, label string) []byte {
	n := -1
	if forceSize >= 0 {
		n = forceSize
	} else if !gen.Chance(t, 3, 4, label+".small") {
		n = sizeLog(t, small+1, bigStr(), label+".len")
	}
	if n < 0 {
		return gen.Bytes(t, 0, small, label)
	}
	return expandBytes(n, gen.U64(t, label+".key"), gen.Uniform(t, 4, label+".style"))
}

func expandBytes(n int, key uint64, style int) []byte {
	s := &stream{key}
	b := make([]byte, n)
	switch style {
	case 0:
		for i := range b {
			b[i] = byte(s.next())
		}
	case 1: // constant
		c := byte(s.next())
		for i := range b {
			b[i] = c
		}
	case 2: // tiny alphabet
		alpha := []byte{0x00, 0xff, 'a', 0x80}
		for i := range b {
			b[i] = alpha[s.next()&3]
		}
	default: // zeros with a few marks, one of them in the last byte
		for k := 0; k < 3 && n > 0; k++ {
			b[s.next()%uint64(n)] = byte(s.next()) | 1
		}
		if n > 0 {
			b[n-1] |= 1
		}
	}
	return b
}

// ---------------------------------------------------------------- rendering results

// render turns the raw results of a call into text. Equal results render equally; nil and empty
// slices render the same (the statement does not distinguish them). Large integer slices are
// rendered without fmt (speed; and fmt's buffer pool would order goroutines in the race build).
func render(res []any) string {
	buf := make([]byte, 0, 64)
	for i, r := range res {
		if i > 0 {
			buf = append(buf, ' ')
		}
		buf = renderOne(buf, r)
	}
	return string(buf)
}

func renderOne(buf []byte, r any) []byte {
	switch v := r.(type) {
	case []int32:
		buf = append(buf, '[')
		for i, x := range v {
			if i > 0 {
				buf = append(buf, ' ')
			}
			buf = strconv.AppendInt(buf, int64(x), 10)
		}
		return append(buf, ']')
	case []uint64:
		buf = append(buf, '[')
		for i, x := range v {
			if i > 0 {
				buf = append(buf, ' ')
			}
			buf = strconv.AppendUint(buf, x, 16)
		}
		return append(buf, ']')
	case []byte:
		buf = append(buf, 'x', '[')
		for _, x := range v {
			buf = append(buf, "0123456789abcdef"[x>>4], "0123456789abcdef"[x&15])
		}
		return append(buf, ']')
	case [][]byte:
		buf = append(buf, '[')
		for i, x := range v {
			if i > 0 {
				buf = append(buf, ' ')
			}
			buf = renderOne(buf, x)
		}
		return append(buf, ']')
	case []string:
		buf = append(buf, '[')
		for i, x := range v {
			if i > 0 {
				buf = append(buf, ' ')
			}
			buf = strconv.AppendQuote(buf, x)
		}
		return append(buf, ']')
	case string:
		return strconv.AppendQuote(buf, v)
	case int32:
		return strconv.AppendInt(buf, int64(v), 10)
	case int:
		return strconv.AppendInt(buf, int64(v), 10)
	case int64:
		return strconv.AppendInt(buf, v, 10)
	case uint64:
		return strconv.AppendUint(buf, v, 10)
	case byte:
		return strconv.AppendUint(buf, uint64(v), 10)
	case bool:
		return strconv.AppendBool(buf, v)
	}
	return append(buf, fmt.Sprint(r)...)
}

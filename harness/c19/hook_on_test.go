//go:build verif

package c19

import (
	"github.com/openacid/low/bitmap"
	"github.com/openacid/low/bmtree"
)

const hooksOn = true

// hookTables returns the unexported tables through the verif hook.
func hookTables() ([]uint8, [][]uint64) {
	t := bitmap.VerifSelect8Lookup()
	return t[:], bmtree.VerifIdxToPath()
}

//go:build race

package c19

const raceBuild = true

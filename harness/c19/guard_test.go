package c19

import (
	"fmt"
)

// guard hands out the live arguments of a call: every slice is a window into
// a larger array with canaries in front of it and in its spare capacity, every
// string is a fresh heap string; verify() shows whether anything was written.
type guard struct {
	pre, post  int
	u64        []u64Region
	i32        []i32Region
	byt        []byteRegion
	strs       []strRegion
	keyRegions []keysRegion
}

type u64Region struct{ buf, saved []uint64 }
type i32Region struct{ buf, saved []int32 }
type byteRegion struct{ buf, saved []byte }
type strRegion struct {
	s     string
	saved []byte
}

func newGuard(shift int) *guard { return &guard{pre: 1 + shift%4, post: 2 + shift%3} }

func (g *guard) words(w []uint64) []uint64 {
	buf := make([]uint64, g.pre+len(w)+g.post)
	for i := range buf {
		buf[i] = 0xC0FFEE0000000000 | uint64(i)
	}
	copy(buf[g.pre:], w)
	g.u64 = append(g.u64, u64Region{buf, append([]uint64(nil), buf...)})
	return buf[g.pre : g.pre+len(w) : len(buf)]
}

func (g *guard) ints(w []int32) []int32 {
	buf := make([]int32, g.pre+len(w)+g.post)
	for i := range buf {
		buf[i] = int32(-0x0BADBEE0 - i)
	}
	copy(buf[g.pre:], w)
	g.i32 = append(g.i32, i32Region{buf, append([]int32(nil), buf...)})
	return buf[g.pre : g.pre+len(w) : len(buf)]
}

func (g *guard) bytes(w []byte) []byte {
	buf := make([]byte, g.pre+len(w)+g.post)
	for i := range buf {
		buf[i] = byte(0xA5 ^ i)
	}
	copy(buf[g.pre:], w)
	g.byt = append(g.byt, byteRegion{buf, append([]byte(nil), buf...)})
	return buf[g.pre : g.pre+len(w) : len(buf)]
}

// str returns a fresh heap string with the given bytes.
func (g *guard) str(b []byte) string {
	s := string(append(make([]byte, 0, len(b)+g.pre), b...)) // conversion copies: own backing array
	g.strs = append(g.strs, strRegion{s, append([]byte(nil), b...)})
	return s
}

func (g *guard) strings(bs [][]byte) []string {
	out := make([]string, len(bs))
	for i, b := range bs {
		out[i] = g.str(b)
	}
	return out
}

// verify reports the first region that differs from its snapshot.
func (g *guard) verify() string {
	for ri, r := range g.u64 {
		for i := range r.buf {
			if r.buf[i] != r.saved[i] {
				return fmt.Sprintf("[]uint64 argument #%d: element %d (window starts at %d, len %d) changed from %#x to %#x", ri, i, g.pre, len(r.buf)-g.pre-g.post, r.saved[i], r.buf[i])
			}
		}
	}
	for ri, r := range g.i32 {
		for i := range r.buf {
			if r.buf[i] != r.saved[i] {
				return fmt.Sprintf("[]int32 argument #%d: element %d (window starts at %d) changed from %d to %d", ri, i, g.pre, r.saved[i], r.buf[i])
			}
		}
	}
	for ri, r := range g.byt {
		for i := range r.buf {
			if r.buf[i] != r.saved[i] {
				return fmt.Sprintf("[]byte argument #%d: byte %d (window starts at %d) changed from %#x to %#x", ri, i, g.pre, r.saved[i], r.buf[i])
			}
		}
	}
	for ri, r := range g.strs {
		if r.s != string(r.saved) {
			return fmt.Sprintf("string argument #%d changed from %x to %x", ri, r.saved, r.s)
		}
	}
	return g.verifyKeys()
}

type keysRegion struct {
	buf   []string
	saved []string
}

var _ = keysRegion{}

// keys returns a guarded []string (canary strings around the window) of fresh heap strings.
func (g *guard) keys(bs [][]byte) []string {
	buf := make([]string, g.pre+len(bs)+g.post)
	for i := range buf {
		buf[i] = fmt.Sprintf("\xffcanary-%d", i)
	}
	for i, b := range bs {
		buf[g.pre+i] = g.str(b)
	}
	g.keyRegions = append(g.keyRegions, keysRegion{buf, append([]string(nil), buf...)})
	return buf[g.pre : g.pre+len(bs) : len(buf)]
}

func (g *guard) verifyKeys() string {
	for ri, r := range g.keyRegions {
		for i := range r.buf {
			if r.buf[i] != r.saved[i] {
				return fmt.Sprintf("[]string argument #%d: element %d (window starts at %d) changed from %q to %q", ri, i, g.pre, r.saved[i], r.buf[i])
			}
		}
	}
	return ""
}

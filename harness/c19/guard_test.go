package c19

import (
	"fmt"
	"unsafe"

	"verif/harness/vk"
)

// guard hands out the live arguments of a call: every slice is a window into
// a larger array with canaries in front of it and in its spare capacity, every
// string is a fresh heap string; verify() shows whether anything was written.
type guard struct {
	pre, post  int
	u64        []u64Region
	i32        []i32Region
	byt        []byteRegion
	strs       []strRegion
	keyRegions []keysRegion
	more       []func() string  // verifiers of the regions made by window / byteLists / intLists
	empties    int              // empty slices handed out so far
	salt       uint64           // decides nil / empty (a value of the case: see asNil)
	ar         *arena           // when set, windows are carved out of memory that earlier cases used too
	shared     map[int][]uint64 // bitmaps shared by several calls of a round (Args.Sh)
}

// asNil decides how an EMPTY slice argument reaches the library: as nil or as an empty non-nil slice,
// each for about half of the cases. It is a function of the case's salt and of the number of empty
// slices handed out so far, NOT of the guard's placement: every evaluation of one case (first,
// repeated, relocated) uses the same shape, so results are only ever compared between calls whose
// arguments are equal in this respect too (a function may tell nil from empty).
func (g *guard) asNil() bool {
	g.empties++
	return vk.Mix(g.salt+uint64(g.empties)*0x9e37)&1 == 0
}

type u64Region struct{ buf, saved []uint64 }
type i32Region struct{ buf, saved []int32 }
type byteRegion struct{ buf, saved []byte }
type strRegion struct {
	s     string
	saved []byte
}

func newGuard(shift int, salt uint64) *guard {
	return &guard{pre: 1 + shift%4, post: 2 + shift%3, salt: salt}
}

// arena is memory that is handed out again and again: the arguments of successive cases then sit at
// the SAME addresses with different content. Fresh allocations would hide state that a function
// keys by the address of an argument (a memo that survives a change of content): with an arena the
// first evaluation of a case meets what an earlier case left behind under that address, the relocated
// evaluation (freshly allocated memory) does not. Requests that do not fit are allocated. One goroutine sets
// up the arguments of a case; the goroutines of a round only read them.
type arena struct {
	u64        []uint64
	i32        []int32
	byt        []byte
	ou, oi, ob int
}

var arenas = [4]*arena{}

// inArena makes g carve its windows out of arena k, starting over at its beginning when reset is set.
func (g *guard) inArena(k int, reset bool) *guard {
	if arenas[k] == nil {
		arenas[k] = &arena{u64: make([]uint64, 1<<16), i32: make([]int32, 1<<16), byt: make([]byte, 1<<16)}
	}
	g.ar = arenas[k]
	if reset {
		g.ar.ou, g.ar.oi, g.ar.ob = 0, 0, 0
	}
	return g
}

func (g *guard) allocU64(n int) []uint64 {
	if a := g.ar; a != nil && a.ou+n <= len(a.u64) {
		a.ou += n
		return a.u64[a.ou-n : a.ou : a.ou]
	}
	return make([]uint64, n)
}

func (g *guard) allocI32(n int) []int32 {
	if a := g.ar; a != nil && a.oi+n <= len(a.i32) {
		a.oi += n
		return a.i32[a.oi-n : a.oi : a.oi]
	}
	return make([]int32, n)
}

func (g *guard) allocBytes(n int) []byte {
	if a := g.ar; a != nil && a.ob+n <= len(a.byt) {
		a.ob += n
		return a.byt[a.ob-n : a.ob : a.ob]
	}
	return make([]byte, n)
}

func (g *guard) words(w []uint64) []uint64 {
	if len(w) == 0 && g.asNil() {
		return nil
	}
	buf := g.allocU64(g.pre + len(w) + g.post)
	for i := range buf {
		buf[i] = 0xC0FFEE0000000000 | uint64(i)
	}
	copy(buf[g.pre:], w)
	g.u64 = append(g.u64, u64Region{buf, append([]uint64(nil), buf...)})
	return buf[g.pre : g.pre+len(w) : len(buf)]
}

func (g *guard) ints(w []int32) []int32 {
	if len(w) == 0 && g.asNil() {
		return nil
	}
	buf := g.allocI32(g.pre + len(w) + g.post)
	for i := range buf {
		buf[i] = int32(-0x0BADBEE0 - i)
	}
	copy(buf[g.pre:], w)
	g.i32 = append(g.i32, i32Region{buf, append([]int32(nil), buf...)})
	return buf[g.pre : g.pre+len(w) : len(buf)]
}

func (g *guard) bytes(w []byte) []byte {
	if len(w) == 0 && g.asNil() {
		return nil
	}
	buf := g.allocBytes(g.pre + len(w) + g.post)
	for i := range buf {
		buf[i] = byte(0xA5 ^ i)
	}
	copy(buf[g.pre:], w)
	g.byt = append(g.byt, byteRegion{buf, append([]byte(nil), buf...)})
	return buf[g.pre : g.pre+len(w) : len(buf)]
}

// str returns a heap string with the given bytes: a substring of a larger fresh string, 0..7 bytes
// into it (so its data is 8-aligned for some placements and not for others), with non-zero foreign
// bytes before and after it. The whole string is compared with its snapshot by verify.
func (g *guard) str(b []byte) string {
	off := (g.pre*3 + len(g.strs)*5) % 8
	buf := make([]byte, off+len(b)+9)
	for i := range buf {
		buf[i] = byte(0xA5 ^ i*7)
		if buf[i] == 0 {
			buf[i] = 0x5A
		}
	}
	copy(buf[off:], b)
	whole := string(buf) // conversion copies: own backing array
	g.strs = append(g.strs, strRegion{whole, buf})
	return whole[off : off+len(b)]
}

// bm returns the guarded bitmap argument 0 of a call; calls of one round that carry the same
// non-zero Args.Sh get the very same slice (one backing array shared by different calls).
func (g *guard) bm(a Args) []uint64 {
	if a.Sh == 0 {
		return g.words(a.w(0))
	}
	if w, ok := g.shared[a.Sh]; ok {
		return w
	}
	if g.shared == nil {
		g.shared = map[int][]uint64{}
	}
	w := g.words(a.w(0))
	g.shared[a.Sh] = w
	return w
}

// window is words/ints/bytes for any element type: canaries before the window and in its spare capacity.
func window[T comparable](g *guard, w []T, canary func(i int) T, what string) []T {
	if len(w) == 0 && g.asNil() {
		return nil
	}
	buf := make([]T, g.pre+len(w)+g.post)
	for i := range buf {
		buf[i] = canary(i)
	}
	copy(buf[g.pre:], w)
	saved := append([]T(nil), buf...)
	pre := g.pre
	g.more = append(g.more, func() string {
		for i := range buf {
			if buf[i] != saved[i] {
				return fmt.Sprintf("%s argument: element %d (window starts at %d, len %d) changed from %v to %v", what, i, pre, len(w), saved[i], buf[i])
			}
		}
		return ""
	})
	return buf[pre : pre+len(w) : len(buf)]
}

type sliceHeader struct {
	p        unsafe.Pointer
	len, cap int
}

// byteLists returns a guarded [][]byte: every element is a guarded window of its own, the outer
// slice has canary elements before it and in its spare capacity, and the element headers (pointer,
// length, capacity) are compared too.
func (g *guard) byteLists(bs [][]byte) [][]byte {
	if len(bs) == 0 && g.asNil() {
		return nil
	}
	buf := make([][]byte, g.pre+len(bs)+g.post)
	for i := range buf {
		buf[i] = []byte(fmt.Sprintf("\xffcanary-%d", i))
	}
	for i, b := range bs {
		buf[g.pre+i] = g.bytes(b)
	}
	hdr := make([]sliceHeader, len(buf))
	content := make([]string, len(buf))
	for i, b := range buf {
		hdr[i] = sliceHeader{unsafe.Pointer(unsafe.SliceData(b)), len(b), cap(b)}
		content[i] = string(b)
	}
	pre := g.pre
	g.more = append(g.more, func() string {
		for i, b := range buf {
			if h := (sliceHeader{unsafe.Pointer(unsafe.SliceData(b)), len(b), cap(b)}); h != hdr[i] {
				return fmt.Sprintf("[][]byte argument: element %d (window starts at %d, len %d) was replaced (len %d cap %d, was len %d cap %d)", i, pre, len(bs), h.len, h.cap, hdr[i].len, hdr[i].cap)
			}
			if string(b) != content[i] {
				return fmt.Sprintf("[][]byte argument: element %d (window starts at %d, len %d) changed from %x to %x", i, pre, len(bs), content[i], b)
			}
		}
		return ""
	})
	return buf[pre : pre+len(bs) : len(buf)]
}

// intLists is byteLists for [][]int32.
func (g *guard) intLists(ls [][]int32) [][]int32 {
	if len(ls) == 0 && g.asNil() {
		return nil
	}
	buf := make([][]int32, g.pre+len(ls)+g.post)
	for i := range buf {
		buf[i] = []int32{int32(-0x0CA7A210 - i)}
	}
	for i, l := range ls {
		buf[g.pre+i] = g.ints(l)
	}
	hdr := make([]sliceHeader, len(buf))
	content := make([]string, len(buf))
	for i, b := range buf {
		hdr[i] = sliceHeader{unsafe.Pointer(unsafe.SliceData(b)), len(b), cap(b)}
		content[i] = fmt.Sprint(b)
	}
	pre := g.pre
	g.more = append(g.more, func() string {
		for i, b := range buf {
			if h := (sliceHeader{unsafe.Pointer(unsafe.SliceData(b)), len(b), cap(b)}); h != hdr[i] {
				return fmt.Sprintf("[][]int32 argument: element %d (window starts at %d, len %d) was replaced (len %d cap %d, was len %d cap %d)", i, pre, len(ls), h.len, h.cap, hdr[i].len, hdr[i].cap)
			}
			if fmt.Sprint(b) != content[i] {
				return fmt.Sprintf("[][]int32 argument: element %d (window starts at %d, len %d) changed from %s to %v", i, pre, len(ls), content[i], b)
			}
		}
		return ""
	})
	return buf[pre : pre+len(ls) : len(buf)]
}

func (g *guard) strings(bs [][]byte) []string {
	out := make([]string, len(bs))
	for i, b := range bs {
		out[i] = g.str(b)
	}
	return out
}

// verify reports the first region that differs from its snapshot.
func (g *guard) verify() string {
	for ri, r := range g.u64 {
		for i := range r.buf {
			if r.buf[i] != r.saved[i] {
				return fmt.Sprintf("[]uint64 argument #%d: element %d (window starts at %d, len %d) changed from %#x to %#x", ri, i, g.pre, len(r.buf)-g.pre-g.post, r.saved[i], r.buf[i])
			}
		}
	}
	for ri, r := range g.i32 {
		for i := range r.buf {
			if r.buf[i] != r.saved[i] {
				return fmt.Sprintf("[]int32 argument #%d: element %d (window starts at %d) changed from %d to %d", ri, i, g.pre, r.saved[i], r.buf[i])
			}
		}
	}
	for ri, r := range g.byt {
		for i := range r.buf {
			if r.buf[i] != r.saved[i] {
				return fmt.Sprintf("[]byte argument #%d: byte %d (window starts at %d) changed from %#x to %#x", ri, i, g.pre, r.saved[i], r.buf[i])
			}
		}
	}
	for ri, r := range g.strs {
		if r.s != string(r.saved) {
			return fmt.Sprintf("string argument #%d (with its neighbouring bytes) changed from %x to %x", ri, clipBytes(r.saved), clipBytes([]byte(r.s)))
		}
	}
	for _, v := range g.more {
		if m := v(); m != "" {
			return m
		}
	}
	return g.verifyKeys()
}

type keysRegion struct {
	buf   []string
	saved []string
}

var _ = keysRegion{}

func clipBytes(b []byte) []byte {
	if len(b) > 200 {
		return b[:200]
	}
	return b
}

// keys returns a guarded []string (canary strings around the window) of fresh heap strings.
func (g *guard) keys(bs [][]byte) []string {
	if len(bs) == 0 && g.asNil() {
		return nil
	}
	buf := make([]string, g.pre+len(bs)+g.post)
	for i := range buf {
		buf[i] = fmt.Sprintf("\xffcanary-%d", i)
	}
	for i, b := range bs {
		buf[g.pre+i] = g.str(b)
	}
	g.keyRegions = append(g.keyRegions, keysRegion{buf, append([]string(nil), buf...)})
	return buf[g.pre : g.pre+len(bs) : len(buf)]
}

func (g *guard) verifyKeys() string {
	for ri, r := range g.keyRegions {
		for i := range r.buf {
			if r.buf[i] != r.saved[i] {
				return fmt.Sprintf("[]string argument #%d: element %d (window starts at %d) changed from %q to %q", ri, i, g.pre, r.saved[i], r.buf[i])
			}
		}
	}
	return ""
}

package c19

import (
	"fmt"
	"sort"

	"github.com/openacid/low/bitmap"
	"github.com/openacid/low/bitword"
	"github.com/openacid/low/bmtree"

	"verif/harness/model"
)

// bitwordIdentity remembers the BitWord map's interface values at start-up.
var bitwordIdentity = func() map[int]bitword.Interface {
	m := map[int]bitword.Interface{}
	for k, v := range bitword.BitWord {
		m[k] = v
	}
	return m
}()

// Snapshot of the unexported tables, taken by the FIRST checkTables call after its behavioural part has
// used every table once: "after initialisation" in the statement allows a table that is built lazily
// (and race-free) on first use; from then on it must never change.
var (
	hookSelectAtStart []uint8
	hookIdxAtStart    [][]uint64
	hookSnapshotTaken bool
)

// checkTables compares every package-level table with independently computed
// values (exported tables), with the start-up snapshot (unexported tables via
// the verif hook) and behaviourally through the public API.
func checkTables() string {
	for j := 0; j <= 64; j++ {
		want := ^uint64(0)
		if j < 64 {
			want = uint64(1)<<uint(j) - 1
		}
		if bitmap.Mask[j] != want || bitmap.RMask[j] != ^want {
			return fmt.Sprintf("bitmap.Mask/RMask[%d] = %#x/%#x", j, bitmap.Mask[j], bitmap.RMask[j])
		}
	}
	for j := 0; j < 64; j++ {
		upto := ^uint64(0)
		if j < 63 {
			upto = uint64(1)<<uint(j+1) - 1
		}
		if bitmap.MaskUpto[j] != upto || bitmap.RMaskUpto[j] != ^upto || bitmap.Bit[j] != uint64(1)<<uint(j) || bitmap.RBit[j] != ^(uint64(1)<<uint(j)) {
			return fmt.Sprintf("bitmap.MaskUpto/RMaskUpto/Bit/RBit[%d] = %#x/%#x/%#x/%#x", j, bitmap.MaskUpto[j], bitmap.RMaskUpto[j], bitmap.Bit[j], bitmap.RBit[j])
		}
	}
	// BitWord map: same keys, same identities
	var keys []int
	for k := range bitword.BitWord {
		keys = append(keys, k)
	}
	sort.Ints(keys)
	for _, k := range []int{1, 2, 4, 8} { // (further widths would be API growth, not impurity)
		if _, ok := bitword.BitWord[k]; !ok {
			return fmt.Sprintf("bitword.BitWord has keys %v: width %d is gone", keys, k)
		}
	}
	for k, v := range bitwordIdentity {
		if bitword.BitWord[k] != v {
			return fmt.Sprintf("bitword.BitWord[%d] was replaced", k)
		}
	}
	// behaviourally: every readable select8Lookup entry via Select32 on one-byte words at every byte position
	for pos := 0; pos < 8; pos += 7 {
		for b := 1; b < 256; b++ {
			w := []uint64{uint64(b) << uint(8*pos)}
			ix := bitmap.IndexSelect32(w)
			i := int32(0)
			for p := 0; p < 8; p++ {
				if b>>uint(p)&1 == 1 {
					a, _ := bitmap.Select32(w, ix, i)
					if int(a) != 8*pos+p {
						return fmt.Sprintf("Select32 on byte %#x at byte position %d: %d-th one at %d, want %d (select table damaged?)", b, pos, i, a, 8*pos+p)
					}
					i++
				}
			}
		}
	}
	// every idxToPath entry via IndexToPath on heights 0..3
	for h := 0; h <= 3; h++ {
		tr := model.NewTree(int32(1)<<uint(h+1) - 1)
		bad := ""
		tr.Walk(func(prefix uint64, l int, _ bool, index int64) {
			if got := bmtree.IndexToPath(int32(h), int32(index)); got != model.PathWord(prefix, l, h) && bad == "" {
				bad = fmt.Sprintf("IndexToPath(%d,%d) = %#x, want %#x (lookup table damaged?)", h, index, got, model.PathWord(prefix, l, h))
			}
		})
		if bad != "" {
			return bad
		}
	}
	// unexported tables through the hook: unchanged since the snapshot (their layout is the library's business;
	// what they must MEAN is checked behaviourally above)
	if hooksOn {
		sel, idx := hookTables()
		if !hookSnapshotTaken {
			hookSelectAtStart, hookIdxAtStart, hookSnapshotTaken = sel, idx, true
		}
		if len(sel) != len(hookSelectAtStart) {
			return "bitmap.select8Lookup changed length"
		}
		for i := range sel {
			if sel[i] != hookSelectAtStart[i] {
				return fmt.Sprintf("bitmap.select8Lookup[%d] changed from %d to %d", i, hookSelectAtStart[i], sel[i])
			}
		}
		if len(idx) != len(hookIdxAtStart) {
			return "bmtree.idxToPath changed length"
		}
		for i := range idx {
			if len(idx[i]) != len(hookIdxAtStart[i]) {
				return fmt.Sprintf("bmtree.idxToPath[%d] changed length", i)
			}
			for k := range idx[i] {
				if idx[i][k] != hookIdxAtStart[i][k] {
					return fmt.Sprintf("bmtree.idxToPath[%d][%d] changed from %#x to %#x", i, k, hookIdxAtStart[i][k], idx[i][k])
				}
			}
		}
	}
	return ""
}

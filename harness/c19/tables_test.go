package c19

import (
	"fmt"
	"sort"

	"github.com/openacid/low/bitmap"
	"github.com/openacid/low/bitword"
	"github.com/openacid/low/bmtree"

	"verif/harness/model"
)

// bitwordIdentity remembers the BitWord map's interface values at start-up.
var bitwordIdentity = func() map[int]bitword.Interface {
	m := map[int]bitword.Interface{}
	for k, v := range bitword.BitWord {
		m[k] = v
	}
	return m
}()

// Snapshot of the unexported tables, taken by the FIRST checkTables call after its behavioural part has
// used every table once: "after initialisation" in the statement allows a table that is built lazily
// (and race-free) on first use; from then on it must never change.
var tableTick int

var (
	hookSelectAtStart []uint8
	hookIdxAtStart    [][]uint64
	hookSnapshotTaken bool
)

// checkTables compares every package-level table with independently computed
// values (exported tables), with the start-up snapshot (unexported tables via
// the verif hook) and behaviourally through the public API.
func checkTables() string {
	for j := 0; j <= 64; j++ {
		want := ^uint64(0)
		if j < 64 {
			want = uint64(1)<<uint(j) - 1
		}
		if bitmap.Mask[j] != want || bitmap.RMask[j] != ^want {
			return fmt.Sprintf("bitmap.Mask/RMask[%d] = %#x/%#x", j, bitmap.Mask[j], bitmap.RMask[j])
		}
	}
	for j := 0; j < 64; j++ {
		upto := ^uint64(0)
		if j < 63 {
			upto = uint64(1)<<uint(j+1) - 1
		}
		if bitmap.MaskUpto[j] != upto || bitmap.RMaskUpto[j] != ^upto || bitmap.Bit[j] != uint64(1)<<uint(j) || bitmap.RBit[j] != ^(uint64(1)<<uint(j)) {
			return fmt.Sprintf("bitmap.MaskUpto/RMaskUpto/Bit/RBit[%d] = %#x/%#x/%#x/%#x", j, bitmap.MaskUpto[j], bitmap.RMaskUpto[j], bitmap.Bit[j], bitmap.RBit[j])
		}
	}
	// BitWord map: same keys, same identities
	var keys []int
	for k := range bitword.BitWord {
		keys = append(keys, k)
	}
	sort.Ints(keys)
	for _, k := range []int{1, 2, 4, 8} { // (further widths would be API growth, not impurity)
		if _, ok := bitword.BitWord[k]; !ok {
			return fmt.Sprintf("bitword.BitWord has keys %v: width %d is gone", keys, k)
		}
	}
	for k, v := range bitwordIdentity {
		if bitword.BitWord[k] != v {
			return fmt.Sprintf("bitword.BitWord[%d] was replaced", k)
		}
	}
	// the state behind the BitWord entries (width, words per byte, mask - whatever the library keeps there):
	// every method of every width on fixed inputs against expectations computed here from the definition
	if m := bitwordProbe(); m != "" {
		return m
	}
	// behaviourally: every readable select8Lookup entry via Select32 on one-byte words at every byte position.
	// Once the hook snapshot of the unexported tables exists (verif build) the tables themselves are compared
	// on every call below, and these slower behavioural probes run on every 8th call only.
	tableTick++
	behavioural := !hooksOn || !hookSnapshotTaken || tableTick%8 == 0
	for pos := 0; behavioural && pos < 8; pos += 7 {
		for b := 1; b < 256; b++ {
			w := []uint64{uint64(b) << uint(8*pos)}
			ix := bitmap.IndexSelect32(w)
			i := int32(0)
			for p := 0; p < 8; p++ {
				if b>>uint(p)&1 == 1 {
					a, _ := bitmap.Select32(w, ix, i)
					if int(a) != 8*pos+p {
						return fmt.Sprintf("Select32 on byte %#x at byte position %d: %d-th one at %d, want %d (select table damaged?)", b, pos, i, a, 8*pos+p)
					}
					i++
				}
			}
		}
	}
	// every idxToPath entry via IndexToPath on heights 0..3
	for h := 0; behavioural && h <= 3; h++ {
		tr := model.NewTree(int32(1)<<uint(h+1) - 1)
		bad := ""
		tr.Walk(func(prefix uint64, l int, _ bool, index int64) {
			if got := bmtree.IndexToPath(int32(h), int32(index)); got != model.PathWord(prefix, l, h) && bad == "" {
				bad = fmt.Sprintf("IndexToPath(%d,%d) = %#x, want %#x (lookup table damaged?)", h, index, got, model.PathWord(prefix, l, h))
			}
		})
		if bad != "" {
			return bad
		}
	}
	// unexported tables through the hook: unchanged since the snapshot (their layout is the library's business;
	// what they must MEAN is checked behaviourally above)
	if hooksOn {
		sel, idx := hookTables()
		if !hookSnapshotTaken {
			hookSelectAtStart, hookIdxAtStart, hookSnapshotTaken = sel, idx, true
		}
		if len(sel) != len(hookSelectAtStart) {
			return "bitmap.select8Lookup changed length"
		}
		for i := range sel {
			if sel[i] != hookSelectAtStart[i] {
				return fmt.Sprintf("bitmap.select8Lookup[%d] changed from %d to %d", i, hookSelectAtStart[i], sel[i])
			}
		}
		if len(idx) != len(hookIdxAtStart) {
			return "bmtree.idxToPath changed length"
		}
		for i := range idx {
			if len(idx[i]) != len(hookIdxAtStart[i]) {
				return fmt.Sprintf("bmtree.idxToPath[%d] changed length", i)
			}
			for k := range idx[i] {
				if idx[i][k] != hookIdxAtStart[i][k] {
					return fmt.Sprintf("bmtree.idxToPath[%d][%d] changed from %#x to %#x", i, k, hookIdxAtStart[i][k], idx[i][k])
				}
			}
		}
	}
	return ""
}

// bitwordAll: every 4-bit value in both halves of a byte (so every 1- and 2-bit value at every
// position too), then bytes with mixed halves; at least 40 bytes (FirstDiff probe).
var bitwordAll = func() string {
	b := make([]byte, 48)
	for i := range b {
		if i < 16 {
			b[i] = byte(i * 17)
		} else {
			b[i] = byte(i*167 + 13)
		}
	}
	return string(b)
}()

// wordsOf splits s into n-bit words, most significant first (the definition of bitword.FromStr).
func wordsOf(s string, n int) []byte {
	var out []byte
	for i := 0; i < len(s); i++ {
		for sh := 8 - n; sh >= 0; sh -= n {
			out = append(out, s[i]>>uint(sh)&byte(1<<uint(n)-1))
		}
	}
	return out
}

func bitwordProbe() string {
	for _, n := range []int{1, 2, 4, 8} {
		bw := bitword.BitWord[n]
		want := wordsOf(bitwordAll, n)
		got := bw.FromStr(bitwordAll)
		if string(got) != string(want) {
			return fmt.Sprintf("bitword.BitWord[%d].FromStr(48 probe bytes) no longer splits into %d-bit words (first difference at word %d): the state behind the table entry changed", n, n, firstDiffAt(got, want))
		}
		if back := bw.ToStr(want); back != bitwordAll {
			return fmt.Sprintf("bitword.BitWord[%d].ToStr(words of 48 probe bytes) no longer gives the bytes back: the state behind the table entry changed", n)
		}
		for i := 0; i < len(want); i += 1 + i/8 {
			if g := bw.Get(bitwordAll, i); g != want[i] {
				return fmt.Sprintf("bitword.BitWord[%d].Get(48 probe bytes, %d) = %d, want %d: the state behind the table entry changed", n, i, g, want[i])
			}
		}
		if g := bw.Get(bitwordAll, len(want)-1); g != want[len(want)-1] {
			return fmt.Sprintf("bitword.BitWord[%d].Get(.., last word) = %d, want %d: the state behind the table entry changed", n, g, want[len(want)-1])
		}
		// FirstDiff: strings that differ in their last bit only
		a, b := bitwordAll[:40], bitwordAll[:39]+string([]byte{bitwordAll[39] ^ 1})
		per := 8 / n
		if d := bw.FirstDiff(a, b, 0, -1); d != 40*per-1 {
			return fmt.Sprintf("bitword.BitWord[%d].FirstDiff(strings that differ in their last bit, 0, -1) = %d, want %d: the state behind the table entry changed", n, d, 40*per-1)
		}
		// (what FirstDiff returns when there is no difference in the range is not documented: not probed)
		if d := bw.FirstDiff(a, b, 3*per, 40*per); d != 40*per-1 {
			return fmt.Sprintf("bitword.BitWord[%d].FirstDiff(strings that differ in their last bit, %d, %d) = %d, want %d: the state behind the table entry changed", n, 3*per, 40*per, d, 40*per-1)
		}
		strs := bw.ToStrs(bw.FromStrs([]string{bitwordAll[:3], "", bitwordAll[41:]}))
		if len(strs) != 3 || strs[0] != bitwordAll[:3] || strs[1] != "" || strs[2] != bitwordAll[41:] {
			return fmt.Sprintf("bitword.BitWord[%d].ToStrs(FromStrs(..)) no longer gives the strings back: the state behind the table entry changed", n)
		}
	}
	return ""
}

func firstDiffAt(a, b []byte) int {
	for i := 0; i < len(a) && i < len(b); i++ {
		if a[i] != b[i] {
			return i
		}
	}
	return min(len(a), len(b))
}

package c19

import (
	"fmt"
	"sort"

	"github.com/openacid/low/bitmap"
	"github.com/openacid/low/bitstr"
	"github.com/openacid/low/bitword"
	"github.com/openacid/low/bmtree"
	"github.com/openacid/low/sigbits"
	"pgregory.net/rapid"

	"verif/harness/gen"
	"verif/harness/model"
	"verif/harness/vk"
)

// Args are the serialisable primary arguments of one call.
type Args struct {
	W  []vk.Words `json:"w,omitempty"`
	N  []int64    `json:"n,omitempty"`
	S  []vk.Hex   `json:"s,omitempty"`
	B  []BigBM    `json:"b,omitempty"`  // B[i], when present with N > 0, stands for W[i] (large bitmaps are described, not listed)
	K  *KeySpec   `json:"k,omitempty"`  // when present, stands for S (large key lists)
	Sh int        `json:"sh,omitempty"` // rounds: calls with the same non-zero Sh share ONE bitmap (same backing array)
}

func (a Args) n(i int) int64 {
	if i < len(a.N) {
		return a.N[i]
	}
	return 0
}

func (a Args) w(i int) []uint64 {
	if i < len(a.B) && a.B[i].N > 0 {
		return a.B[i].expand()
	}
	if i < len(a.W) {
		return a.W[i]
	}
	return nil
}

// wlen is len(a.w(i)) without expanding.
func (a Args) wlen(i int) int {
	if i < len(a.B) && a.B[i].N > 0 {
		return min(a.B[i].N, bigMaxWords)
	}
	if i < len(a.W) {
		return len(a.W[i])
	}
	return 0
}

// keys are the key-list argument: the described list, or S.
func (a Args) keys() [][]byte {
	if a.K != nil {
		return a.K.expand()
	}
	return toBytes(a.S)
}

// keysHex is keys() in the form sortedUnique takes.
func (a Args) keysHex() []vk.Hex {
	if a.K == nil {
		return a.S
	}
	ks := a.K.expand()
	out := make([]vk.Hex, len(ks))
	for i, k := range ks {
		out[i] = k
	}
	return out
}

// pos maps a drawn position onto [0,n): values >= 0 modulo n, negative values count from the end
// (-1 is the last position), so that the generators can aim at both ends of inputs of any size.
func pos(v int64, n int) int {
	if n <= 0 {
		return 0
	}
	if v < 0 {
		return int(max(int64(n)+v, 0))
	}
	return mod(v, n)
}

var posEdges = []int64{0, 1, 31, 32, 63, 64, 65, 127, 128, -1, -2, -63, -64, -65, -128, -129}

// genPos draws a position argument: uniform, or (1 in 4) near a word boundary at either end.
func genPos(t *rapid.T, label string) int64 {
	if gen.Chance(t, 1, 4, label+".edge") {
		return posEdges[gen.Uniform(t, len(posEdges), label+".which")]
	}
	return r64(t, label)
}

func (a Args) s(i int) []byte {
	if i < len(a.S) {
		return a.S[i]
	}
	return nil
}

// pack keeps the raw results of a call (slices are kept as returned, not copied), so that
// they can be rendered again later: a result must not change after it was returned.
func pack(v ...any) []any { return v }

type fnEntry struct {
	name string
	gen  func(t *rapid.T) Args
	// setup materialises the live (guarded) arguments, builds derived indexes
	// and returns the pure call closure: result rendered as a string.
	setup func(a Args, g *guard) func() []any
}

func mod(x int64, n int) int {
	if n <= 0 {
		return 0
	}
	r := int(x % int64(n))
	if r < 0 {
		r += n
	}
	return r
}

func genBM(t *rapid.T, nonEmpty, hasOne bool) vk.Words {
	w, _ := gen.Bitmap(t, 10, "bm")
	if len(w) == 0 && (nonEmpty || hasOne) {
		w = []uint64{gen.Word(t, "w0")}
	}
	if hasOne {
		any := false
		for _, x := range w {
			any = any || x != 0
		}
		if !any {
			w[gen.Uniform(t, len(w), "wi")] |= 1 << uint(gen.Uniform(t, 64, "bi"))
		}
	}
	return w
}

func r64(t *rapid.T, label string) int64 { return int64(gen.U64(t, label) >> 1) }

func ones(w []uint64) int {
	n := 0
	for _, x := range w {
		n += model.WordCount(x)
	}
	return n
}

func genKeysSorted(t *rapid.T, minN int) []vk.Hex {
	keys := gen.Keys(t, 10, "keys")
	for len(keys) < minN {
		keys = append(keys, string(gen.Bytes(t, 1, 6, "extra"))+fmt.Sprint(len(keys)))
		sort.Strings(keys)
	}
	return vk.HexStrings(keys)
}

// sortedUnique enforces the precondition "strictly ascending, at least minN keys" on replayed arguments.
func sortedUnique(hs []vk.Hex, minN int) [][]byte {
	set := map[string]bool{}
	for _, h := range hs {
		set[string(h)] = true
	}
	for i := 0; len(set) < minN; i++ {
		set[fmt.Sprintf("fallback-key-%d", i)] = true
	}
	keys := make([]string, 0, len(set))
	for k := range set {
		keys = append(keys, k)
	}
	sort.Strings(keys)
	out := make([][]byte, len(keys))
	for i, k := range keys {
		out[i] = []byte(k)
	}
	return out
}

func toBytes(hs []vk.Hex) [][]byte {
	out := make([][]byte, len(hs))
	for i, h := range hs {
		out[i] = h
	}
	return out
}

var getwWidths = []int32{1, 2, 4, 8, 16, 32, 64}
var bwWidths = []int{1, 2, 4, 8}

func genMask(t *rapid.T, maxH int) int64 {
	h := gen.Uniform(t, maxH+1, "h")
	top := int64(1) << uint(h)
	switch gen.Uniform(t, 4, "mclass") {
	case 0:
		return top | (top - 1)
	case 1:
		return top
	}
	return top | int64(gen.U64(t, "low"))&(top-1)
}

// genRange draws 0 <= a <= b <= nbits: uniform pairs and the boundary classes (empty range, whole
// input, up to the end, from the start, short, one bit, word-aligned, the first bit only).
func genRange(t *rapid.T, nbits int, label string) (int64, int64) {
	a, b := gen.Uniform(t, nbits+1, label+".a"), gen.Uniform(t, nbits+1, label+".b")
	a, b = min(a, b), max(a, b)
	switch gen.Uniform(t, 16, label+".class") {
	case 0:
		b = a
	case 1:
		a, b = 0, nbits
	case 2:
		b = nbits
	case 3:
		a = 0
	case 4:
		b = min(a+gen.Uniform(t, 130, label+".short"), nbits)
	case 5:
		b = min(a+1, nbits)
	case 6:
		a, b = a&^63, min((b+63)&^63, nbits)
	case 7:
		a, b = min(gen.Uniform(t, 2, label+".first"), nbits), min(1, nbits)
		a = min(a, b)
	case 8: // a range that starts at / just behind a word boundary and ends at / just before one
		a = min(a&^63+gen.Uniform(t, 2, label+".lo"), nbits)
		b = min(max(b&^63-gen.Uniform(t, 2, label+".hi"), a), nbits)
	}
	return int64(a), int64(b)
}

var funcs = []fnEntry{
	// ------------------------------------------------------------ bitmap
	{"bitmap.IndexRank64", func(t *rapid.T) Args {
		a := bmArgs(t, false, false, bigScalar())
		a.N = []int64{int64(gen.Uniform(t, 3, "opt"))}
		return a
	},
		func(a Args, g *guard) func() []any {
			w := g.bm(a)
			return func() []any {
				switch a.n(0) {
				case 1:
					return pack(bitmap.IndexRank64(w, false))
				case 2:
					return pack(bitmap.IndexRank64(w, true))
				}
				return pack(bitmap.IndexRank64(w))
			}
		}},
	{"bitmap.IndexRank128", func(t *rapid.T) Args { return bmArgs(t, false, false, bigScalar()) },
		func(a Args, g *guard) func() []any {
			w := g.bm(a)
			return func() []any { return pack(bitmap.IndexRank128(w)) }
		}},
	{"bitmap.Rank64", func(t *rapid.T) Args {
		a := bmArgs(t, true, false, bigScalar())
		a.N = []int64{genPos(t, "i")}
		return a
	},
		func(a Args, g *guard) func() []any {
			w := g.bm(a)
			idx := g.ints(bitmap.IndexRank64(w))
			i := int32(pos(a.n(0), 64*len(w)))
			return func() []any { return pack(bitmap.Rank64(w, idx, i)) }
		}},
	{"bitmap.Rank128", func(t *rapid.T) Args {
		a := bmArgs(t, true, false, bigScalar())
		a.N = []int64{genPos(t, "i")}
		return a
	},
		func(a Args, g *guard) func() []any {
			w := g.bm(a)
			idx := g.ints(bitmap.IndexRank128(w))
			i := int32(pos(a.n(0), 64*len(w)))
			return func() []any { return pack(bitmap.Rank128(w, idx, i)) }
		}},
	{"bitmap.IndexSelect32", func(t *rapid.T) Args { return bmArgs(t, false, false, bigScalar()) },
		func(a Args, g *guard) func() []any {
			w := g.bm(a)
			return func() []any { return pack(bitmap.IndexSelect32(w)) }
		}},
	{"bitmap.IndexSelect32R64", func(t *rapid.T) Args { return bmArgs(t, false, false, bigScalar()) },
		func(a Args, g *guard) func() []any {
			w := g.bm(a)
			return func() []any { return pack(bitmap.IndexSelect32R64(w)) }
		}},
	{"bitmap.Select32", func(t *rapid.T) Args {
		a := bmArgs(t, true, true, bigScalar())
		a.N = []int64{genPos(t, "i")}
		return a
	},
		func(a Args, g *guard) func() []any {
			w := g.bm(a)
			idx := g.ints(bitmap.IndexSelect32(w))
			i := int32(pos(a.n(0), ones(w)))
			return func() []any { return pack(bitmap.Select32(w, idx, i)) }
		}},
	{"bitmap.Select32R64", func(t *rapid.T) Args {
		a := bmArgs(t, true, true, bigScalar())
		a.N = []int64{genPos(t, "i")}
		return a
	},
		func(a Args, g *guard) func() []any {
			w := g.bm(a)
			s, r := bitmap.IndexSelect32R64(w)
			sidx, ridx := g.ints(s), g.ints(r)
			i := int32(pos(a.n(0), ones(w)))
			return func() []any { return pack(bitmap.Select32R64(w, sidx, ridx, i)) }
		}},
	{"bitmap.NextOne", func(t *rapid.T) Args {
		a := bmArgs(t, true, false, bigScalar())
		i, e := genRange(t, 64*a.wlen(0), "r")
		a.N = []int64{i, e}
		return a
	},
		func(a Args, g *guard) func() []any {
			w := g.bm(a)
			nb := 64 * len(w)
			i := min(mod(a.n(0), nb+1), nb-1)
			e := max(mod(a.n(1), nb+1), i)
			return func() []any { return pack(bitmap.NextOne(w, int32(i), int32(e))) }
		}},
	{"bitmap.PrevOne", func(t *rapid.T) Args {
		a := bmArgs(t, true, false, bigScalar())
		i, e := genRange(t, 64*a.wlen(0), "r")
		a.N = []int64{i, e}
		return a
	},
		func(a Args, g *guard) func() []any {
			w := g.bm(a)
			nb := 64 * len(w)
			e := max(mod(a.n(1), nb+1), 1)
			// i inside the bitmap, as for NextOne (C13 fixes both functions for such i only: with i == end ==
			// 64*len(bm) an implementation may index the word of i)
			i := min(mod(a.n(0), nb+1), e, nb-1)
			return func() []any { return pack(bitmap.PrevOne(w, int32(i), int32(e))) }
		}},
	{"bitmap.Slice", func(t *rapid.T) Args {
		a := bmArgs(t, false, false, bigSlice())
		i, e := genRange(t, 64*a.wlen(0), "r")
		a.N = []int64{i, e}
		return a
	},
		func(a Args, g *guard) func() []any {
			w := g.bm(a)
			nb := 64 * len(w)
			i := mod(a.n(0), nb+1)
			e := max(mod(a.n(1), nb+1), i)
			return func() []any { return pack(bitmap.Slice(w, int32(i), int32(e))) }
		}},
	{"bitmap.ToArray", func(t *rapid.T) Args { return bmArgs(t, false, false, bigSlice()) },
		func(a Args, g *guard) func() []any {
			w := g.bm(a)
			return func() []any { return pack(bitmap.ToArray(w)) }
		}},
	{"bitmap.Getw", func(t *rapid.T) Args {
		a := bmArgs(t, true, false, bigScalar())
		a.N = []int64{int64(gen.Uniform(t, len(getwWidths), "w")), genPos(t, "i")}
		return a
	},
		func(a Args, g *guard) func() []any {
			w := g.bm(a)
			width := getwWidths[mod(a.n(0), len(getwWidths))]
			i := int32(pos(a.n(1), 64*len(w)/int(width)))
			return func() []any { return pack(bitmap.Getw(w, i, width)) }
		}},
	{"bitmap.Get+Get1", func(t *rapid.T) Args {
		a := bmArgs(t, true, false, bigScalar())
		a.N = []int64{genPos(t, "i")}
		return a
	},
		func(a Args, g *guard) func() []any {
			w := g.bm(a)
			i := int32(pos(a.n(0), 64*len(w)))
			return func() []any { return pack(bitmap.Get(w, i), bitmap.Get1(w, i)) }
		}},
	{"bitmap.SafeGet+SafeGet1", func(t *rapid.T) Args {
		a := bmArgs(t, false, false, bigScalar())
		a.N = []int64{int64(int32(gen.U64(t, "i")))}
		if gen.Chance(t, 1, 2, "near") { // inside the bitmap or just outside of it
			a.N[0] = int64(gen.Uniform(t, 64*a.wlen(0)+130, "ni")) - 65
		}
		return a
	},
		func(a Args, g *guard) func() []any {
			w := g.bm(a)
			i := int32(a.n(0))
			return func() []any { return pack(bitmap.SafeGet(w, i), bitmap.SafeGet1(w, i)) }
		}},
	{"bitmap.FromStr32", func(t *rapid.T) Args {
		s := strBytes(t, 12, "s")
		from := gen.Uniform(t, 8*len(s)+10, "from")
		if gen.Chance(t, 1, 3, "tail") { // the last bytes of the string, and the bits just past its end
			from = max(8*len(s)+9-gen.Uniform(t, 60, "back"), 0)
		}
		return Args{S: []vk.Hex{s}, N: []int64{int64(from), int64(gen.Uniform(t, 33, "w"))}}
	},
		func(a Args, g *guard) func() []any {
			s := g.str(a.s(0))
			from, w := int32(mod(a.n(0), 1<<20)), int32(mod(a.n(1), 33))
			return func() []any { return pack(bitmap.FromStr32(s, from, from+w)) }
		}},
	{"bitmap.Join", func(t *rapid.T) Args {
		var a Args
		if forceSize < 0 && gen.Chance(t, 7, 10, "small") {
			n := gen.Uniform(t, 20, "n")
			v := make(vk.Words, n)
			for i := range v {
				v[i] = gen.U64(t, "v")
			}
			a = Args{W: []vk.Words{v}}
		} else {
			a = bmArgs(t, false, false, bigSlice())
		}
		a.N = []int64{int64(gen.Uniform(t, len(getwWidths), "w"))}
		return a
	},
		func(a Args, g *guard) func() []any {
			v := g.words(a.w(0))
			width := getwWidths[mod(a.n(0), len(getwWidths))]
			return func() []any { return pack(bitmap.Join(v, width)) }
		}},
	{"bitmap.Of", func(t *rapid.T) Args {
		if forceSize >= 0 || gen.Chance(t, 3, 10, "big") { // the positions are the ones of a described bitmap
			a := bmArgs(t, false, false, bigSlice()/8)
			a.N = []int64{int64(gen.Uniform(t, 64*a.wlen(0)+400, "size")) - 50}
			return a
		}
		n := gen.Uniform(t, 12, "n")
		ns := []int64{int64(gen.Uniform(t, 400, "size")) - 50}
		cur := int64(-1)
		for i := 0; i < n; i++ {
			cur += 1 + int64(gen.Uniform(t, 70, "gap"))
			ns = append(ns, cur)
		}
		return Args{N: ns}
	},
		func(a Args, g *guard) func() []any {
			var pos []int32
			for _, p := range a.N[min(1, len(a.N)):] {
				pos = append(pos, int32(mod(p, 1<<20)))
			}
			sort.Slice(pos, func(i, j int) bool { return pos[i] < pos[j] })
			if len(a.B) > 0 || len(a.W) > 0 {
				pos = onesOf(a.w(0), 1<<30)
			}
			gp := g.ints(pos)
			n := int32(a.n(0))
			return func() []any { return pack(bitmap.Of(gp, n), bitmap.Of(gp)) }
		}},
	{"bitmap.OfMany", func(t *rapid.T) Args {
		// W[i] is sub-bitmap i given as words (its ones are the positions), N[i] its size in bits
		k := gen.Uniform(t, 7, "k")
		if forceSize >= 0 {
			k = min(forceSize, vk.Pick(300, 3000))
		} else if gen.Chance(t, 1, 4, "more") {
			k = sizeLog(t, 7, vk.Pick(300, 3000), "k2")
		}
		var a Args
		for i := 0; i < k; i++ {
			var w vk.Words
			switch {
			case i%4 == 3 && gen.Chance(t, 1, 2, "emptysub"): // only some of the subs are empty / full
			case i%4 == 1 && gen.Chance(t, 1, 2, "fullsub"):
				w = vk.Words{^uint64(0)}
			case k > 20:
				w = vk.Words{gen.U64(t, "sw") & gen.U64(t, "sw2")}
			default:
				w, _ = gen.Bitmap(t, 3, "sub")
			}
			size := 64*len(w) - gen.Uniform(t, 65, "cut") + gen.Uniform(t, 2, "pad")*gen.Uniform(t, 100, "padn")
			a.W = append(a.W, w)
			a.N = append(a.N, int64(max(size, 0)))
		}
		return a
	},
		func(a Args, g *guard) func() []any {
			subs := make([][]int32, len(a.W))
			sizes := make([]int32, len(a.W))
			total := int64(0)
			for i := range a.W {
				sz := mod(a.n(i), 1<<16)
				if total+int64(sz) > 1<<26 {
					sz = 0
				}
				total += int64(sz)
				sizes[i] = int32(sz)
				subs[i] = onesOf(a.W[i], sz) // ascending positions below the sub-bitmap's size
			}
			gs, gz := g.intLists(subs), g.ints(sizes)
			return func() []any { return pack(bitmap.OfMany(gs, gz)) }
		}},
	{"bitmap.Fmt", func(t *rapid.T) Args {
		// N[0]: element type (fmtTypes), N[1]: 0 a single integer, 1 a slice; W[0]: the values
		n := 1 + gen.Uniform(t, 9, "n")
		if forceSize >= 0 {
			n = min(forceSize, vk.Pick(256, 4096))
		} else if gen.Chance(t, 1, 5, "more") {
			n = sizeLog(t, 10, vk.Pick(256, 4096), "n2")
		}
		if gen.Chance(t, 1, 8, "none") {
			n = 0
		}
		v := make(vk.Words, n)
		for i := range v {
			if n > 16 {
				v[i] = gen.U64(t, "fv")
			} else {
				v[i] = gen.Word(t, "fw")
			}
		}
		return Args{W: []vk.Words{v}, N: []int64{int64(gen.Uniform(t, len(fmtTypes), "type")), int64(min(gen.Uniform(t, 4, "slice"), 1))}}
	},
		func(a Args, g *guard) func() []any {
			x := fmtArg(g, mod(a.n(0), len(fmtTypes)), a.n(1) != 0, a.w(0))
			return func() []any { return pack(bitmap.Fmt(x)) }
		}},
	// ------------------------------------------------------------ bmtree
	{"bmtree.PathToIndex+Loose", func(t *rapid.T) Args {
		mask := genMask(t, 30)
		return Args{N: []int64{mask, r64(t, "l"), r64(t, "prefix")}}
	},
		func(a Args, g *guard) func() []any {
			mask := int32(max(mod(a.n(0), 1<<31), 1))
			tr := model.NewTree(mask)
			l := mod(a.n(1), tr.H+1)
			prefix := uint64(a.n(2)) & (uint64(1)<<uint(l) - 1)
			p := model.PathWord(prefix, l, tr.H)
			stored := tr.Stored[l]
			return func() []any {
				i, has := bmtree.PathToIndexLoose(mask, p)
				if stored {
					return pack(i, has, bmtree.PathToIndex(mask, p))
				}
				return pack(i, has)
			}
		}},
	{"bmtree.IndexToPath", func(t *rapid.T) Args { return Args{N: []int64{int64(gen.Uniform(t, 31, "h")), r64(t, "idx")}} },
		func(a Args, g *guard) func() []any {
			h := mod(a.n(0), 31)
			idx := int32(a.n(1) % (int64(1)<<uint(h+1) - 1))
			return func() []any { return pack(bmtree.IndexToPath(int32(h), idx)) }
		}},
	{"bmtree.AllPaths", func(t *rapid.T) Args {
		mask := genMask(t, 30)
		span := gen.Uniform(t, 40, "span")
		if forceSize >= 0 {
			span = forceSize
		} else if gen.Chance(t, 1, 4, "wide") {
			span = sizeLog(t, 40, vk.Pick(1024, 8192), "wspan")
		}
		return Args{N: []int64{mask, r64(t, "centre"), int64(span), int64(gen.U64(t, "lowf") & 0xffffffff), int64(gen.U64(t, "lowt") & 0xffffffff)}}
	},
		func(a Args, g *guard) func() []any {
			mask := int32(max(mod(a.n(0), 1<<31), 1))
			tr := model.NewTree(mask)
			c := uint64(a.n(1)) % (uint64(1) << uint(tr.H))
			from := c<<32 | uint64(a.n(3))&0xffffffff
			to := (c+uint64(mod(a.n(2), 1<<14)))<<32 | uint64(a.n(4))&0xffffffff
			return func() []any { return pack(bmtree.AllPaths(mask, from, to)) }
		}},
	{"bmtree.Decode", func(t *rapid.T) Args {
		if forceSize < 0 && gen.Chance(t, 7, 10, "small") {
			return Args{N: []int64{genMask(t, 8)}, W: []vk.Words{genBM(t, false, false)}}
		}
		// taller trees: the bitmap has about as many bits as the tree has nodes (sometimes fewer: allowed)
		mask := genMask(t, vk.Pick(13, 16))
		if gen.Chance(t, 1, 8, "h16") { // height 16: 2^16 first-level values (quick tier too, seldom)
			mask = 1<<16 | int64(gen.U64(t, "low16"))&(1<<16-1)
			if gen.Chance(t, 1, 2, "all") {
				mask = 1<<17 - 1
			}
		}
		nw := int(mask>>6) + 1
		if forceSize >= 0 {
			nw = forceSize
		} else if gen.Chance(t, 1, 4, "short") {
			nw = gen.Uniform(t, nw+1, "nw")
		}
		save := forceSize
		forceSize = nw
		a := bmArgs(t, false, false, 0)
		forceSize = save
		a.N = []int64{mask}
		return a
	},
		func(a Args, g *guard) func() []any {
			mask := int32(max(mod(a.n(0), 1<<17), 1))
			bm := g.bm(a)
			return func() []any { return pack(bmtree.Decode(mask, bm)) }
		}},
	{"bmtree.PathOf+PathsOf", func(t *rapid.T) Args {
		a := keyArgs(t, 1)
		from := gen.Uniform(t, 20, "from")
		if gen.Chance(t, 1, 3, "deep") { // behind a long common prefix
			from = gen.Uniform(t, 700, "deepfrom")
		}
		a.N = []int64{int64(from), int64(gen.Uniform(t, 33, "h")), int64(gen.Uniform(t, 2, "dedup"))}
		return a
	},
		func(a Args, g *guard) func() []any {
			keys := g.keys(a.keys())
			from, h, dedup := int32(mod(a.n(0), 1024)), int32(mod(a.n(1), 33)), a.n(2)&1 == 1
			return func() []any {
				first := uint64(0)
				if len(keys) > 0 {
					first = bmtree.PathOf(keys[0], from, h)
				}
				return pack(first, bmtree.PathsOf(keys, from, h, dedup))
			}
		}},
	{"bmtree.NewPath+PathLen+PathHeight+PathBits+PathMask+PathStr", func(t *rapid.T) Args {
		return Args{N: []int64{int64(gen.Uniform(t, 33, "h")), r64(t, "l"), r64(t, "prefix")}}
	},
		func(a Args, g *guard) func() []any {
			h := mod(a.n(0), 33)
			l := mod(a.n(1), h+1)
			prefix := uint64(a.n(2)) & (uint64(1)<<uint(l) - 1)
			return func() []any {
				p := bmtree.NewPath(prefix<<uint(h-l), int32(l), int32(h))
				return pack(p, bmtree.PathLen(p), bmtree.PathHeight(p), bmtree.PathBits(p), bmtree.PathMask(p), bmtree.PathStr(p), bmtree.Height(int32(1)<<uint(min(h, 30))))
			}
		}},
	// ------------------------------------------------------------ bitstr
	{"bitstr.New+Len", func(t *rapid.T) Args {
		s := strBytes(t, 48, "s")
		f, e := genRange(t, 8*len(s), "r")
		return Args{S: []vk.Hex{s}, N: []int64{f, e}}
	},
		func(a Args, g *guard) func() []any {
			s := g.str(a.s(0))
			nb := 8 * len(s)
			f := mod(a.n(0), nb+1)
			e := max(mod(a.n(1), nb+1), f)
			return func() []any {
				enc := bitstr.New(s, int32(f), int32(e))
				return pack(enc, bitstr.Len(enc))
			}
		}},
	{"bitstr.Cmp", func(t *rapid.T) Args {
		s1, s2 := strBytes(t, 48, "s1"), strBytes(t, 48, "s2")
		if gen.Chance(t, 1, 2, "same") {
			s2 = append([]byte(nil), s1...)
			if len(s2) > 0 && gen.Chance(t, 1, 2, "late-diff") { // equal up to a late byte
				s2[len(s2)-1-gen.Uniform(t, min(len(s2), 9), "where")] ^= 1 << uint(gen.Uniform(t, 8, "bit"))
			}
		}
		f1, e1 := genRange(t, 8*len(s1), "r1")
		f2, e2 := genRange(t, 8*len(s2), "r2")
		return Args{S: []vk.Hex{s1, s2}, N: []int64{f1, e1, f2, e2}}
	},
		func(a Args, g *guard) func() []any {
			mk := func(s []byte, fi, ei int) []byte {
				nb := 8 * len(s)
				f := mod(a.n(fi), nb+1)
				e := max(mod(a.n(ei), nb+1), f)
				return g.bytes(bitstr.New(string(s), int32(f), int32(e)))
			}
			x, y := mk(a.s(0), 0, 1), mk(a.s(1), 2, 3)
			return func() []any { return pack(bitstr.Cmp(x, y), bitstr.Cmp(y, x), bitstr.Len(x)) }
		}},
	{"bitstr.CmpUpto+StrCmpUpto", func(t *rapid.T) Args {
		s := strBytes(t, 48, "s")
		av := strBytes(t, 48, "a")
		f, e := genRange(t, 8*len(s), "r")
		switch gen.Uniform(t, 6, "related") {
		case 0, 1, 2:
			av = append([]byte(nil), s[:gen.Uniform(t, len(s)+1, "k")]...)
			av = append(av, gen.Bytes(t, 0, 3, "ext")...)
		case 3, 4:
			// a is made of the very bytes b was cut from: exactly as long as b's payload, one byte
			// shorter, or a little longer; sometimes with another last byte
			lo, hi := int(f>>3), int((e+7)>>3)
			k := hi - lo + gen.Uniform(t, 4, "dk") - 1
			av = append([]byte(nil), s[lo:min(max(lo+k, lo), len(s))]...)
			if len(av) > 0 && gen.Chance(t, 1, 3, "flip") {
				av[min(max(hi-lo-1, 0), len(av)-1)] ^= 1 << uint(gen.Uniform(t, 8, "bit"))
			}
		}
		return Args{S: []vk.Hex{s, av}, N: []int64{f, e}}
	},
		func(a Args, g *guard) func() []any {
			s := a.s(0)
			nb := 8 * len(s)
			f := mod(a.n(0), nb+1)
			e := max(mod(a.n(1), nb+1), f)
			b := g.bytes(bitstr.New(string(s), int32(f), int32(e)))
			ab := g.bytes(a.s(1))
			as := g.str(a.s(1))
			return func() []any { return pack(bitstr.CmpUpto(ab, b), bitstr.StrCmpUpto(as, b)) }
		}},
	// ------------------------------------------------------------ bitword
	{"bitword.FromStr+Get+ToStr", func(t *rapid.T) Args {
		return Args{S: []vk.Hex{strBytes(t, 16, "s")}, N: []int64{int64(gen.Uniform(t, 4, "w")), genPos(t, "i")}}
	},
		func(a Args, g *guard) func() []any {
			n := bwWidths[mod(a.n(0), 4)]
			s := g.str(a.s(0))
			nw := 8 * len(s) / n
			i := pos(a.n(1), nw)
			return func() []any {
				bw := bitword.BitWord[n]
				ws := bw.FromStr(s)
				got := byte(0)
				if nw > 0 {
					got = bw.Get(s, i)
				}
				return pack(ws, got, []byte(bw.ToStr(ws)))
			}
		}},
	{"bitword.ToStr", func(t *rapid.T) Args {
		w := gen.Uniform(t, 4, "w")
		ws := strBytes(t, 30, "ws")
		for i := range ws {
			ws[i] &= byte(1<<uint(bwWidths[w]) - 1)
		}
		return Args{S: []vk.Hex{ws}, N: []int64{int64(w)}}
	},
		func(a Args, g *guard) func() []any {
			n := bwWidths[mod(a.n(0), 4)]
			src := append([]byte(nil), a.s(0)...)
			for i := range src {
				src[i] &= byte(1<<uint(n) - 1)
			}
			ws := g.bytes(src)
			return func() []any { return pack([]byte(bitword.BitWord[n].ToStr(ws))) }
		}},
	{"bitword.FirstDiff", func(t *rapid.T) Args {
		x := strBytes(t, 12, "a")
		y := strBytes(t, 12, "b")
		if gen.Chance(t, 2, 3, "related") && len(x) > 0 {
			y = append([]byte(nil), x...)
			k := gen.Uniform(t, len(y), "k")
			if gen.Chance(t, 1, 3, "late") { // the difference sits in the last bytes
				k = len(y) - 1 - gen.Uniform(t, min(len(y), 9), "back")
			}
			y[k] ^= 1 << uint(gen.Uniform(t, 8, "bit"))
			if gen.Chance(t, 1, 4, "cut") {
				y = y[:gen.Uniform(t, len(y)+1, "cutat")]
			}
		}
		nw := 8 * max(len(x), len(y)) // (words of width 1)
		from, end := gen.Uniform(t, 100, "from"), gen.Uniform(t, 102, "end")-1
		if nw > 100 && gen.Chance(t, 1, 2, "far") {
			from, end = gen.Uniform(t, nw+8, "ffrom"), gen.Uniform(t, nw+10, "fend")-1
		}
		return Args{S: []vk.Hex{x, y}, N: []int64{int64(gen.Uniform(t, 4, "w")), int64(from), int64(end)}}
	},
		func(a Args, g *guard) func() []any {
			n := bwWidths[mod(a.n(0), 4)]
			x, y := g.str(a.s(0)), g.str(a.s(1))
			from := mod(a.n(1), 1<<21)
			end := int(max(a.n(2), -1))
			return func() []any { return pack(bitword.BitWord[n].FirstDiff(x, y, from, end)) }
		}},
	{"bitword.FromStrs+ToStrs", func(t *rapid.T) Args {
		if forceSize >= 0 || gen.Chance(t, 1, 5, "big") {
			a := keyArgs(t, 0)
			if a.K != nil {
				a.K.N = min(a.K.N, vk.Pick(512, 4096))
			}
			a.N = []int64{int64(gen.Uniform(t, 4, "w"))}
			return a
		}
		k := gen.Uniform(t, 5, "k")
		if gen.Chance(t, 1, 4, "more") {
			k = gen.Uniform(t, 40, "k2")
		}
		var ss []vk.Hex
		for i := 0; i < k; i++ {
			if i%4 == 3 && gen.Chance(t, 1, 2, "long") { // only some elements are long
				ss = append(ss, strBytes(t, 40, "le"))
			} else {
				ss = append(ss, gen.Bytes(t, 0, 8, "e"))
			}
		}
		return Args{S: ss, N: []int64{int64(gen.Uniform(t, 4, "w"))}}
	},
		func(a Args, g *guard) func() []any {
			n := bwWidths[mod(a.n(0), 4)]
			strs := g.keys(a.keys())
			return func() []any {
				bw := bitword.BitWord[n]
				wss := bw.FromStrs(strs)
				back := bw.ToStrs(wss)
				return pack(wss, back)
			}
		}},
	{"bitword.ToStrs", func(t *rapid.T) Args {
		// the word lists are the caller's: S[i] holds the words of element i (masked to the width in setup)
		k := gen.Uniform(t, 6, "k")
		if forceSize >= 0 {
			k = min(forceSize, vk.Pick(512, 4096))
		} else if gen.Chance(t, 1, 4, "more") {
			k = sizeLog(t, 6, vk.Pick(512, 4096), "k2")
		}
		var ss []vk.Hex
		for i := 0; i < k; i++ {
			switch {
			case k > 40: // long lists: described elements
				ss = append(ss, expandBytes(int(gen.U64(t, "el")%23), gen.U64(t, "ek"), i%4))
			case i%4 == 3 && gen.Chance(t, 1, 2, "long"):
				ss = append(ss, strBytes(t, 40, "le"))
			default:
				ss = append(ss, gen.Bytes(t, 0, 9, "e"))
			}
		}
		return Args{S: ss, N: []int64{int64(gen.Uniform(t, 4, "w"))}}
	},
		func(a Args, g *guard) func() []any {
			n := bwWidths[mod(a.n(0), 4)]
			lists := make([][]byte, len(a.S))
			for i, h := range a.S {
				lists[i] = append([]byte(nil), h...)
				for j := range lists[i] {
					lists[i][j] &= byte(1<<uint(n) - 1)
				}
			}
			wss := g.byteLists(lists)
			return func() []any { return pack(bitword.BitWord[n].ToStrs(wss)) }
		}},
	// ------------------------------------------------------------ sigbits
	{"sigbits.FirstDiffBits", func(t *rapid.T) Args {
		if forceSize >= 0 || gen.Chance(t, 3, 10, "big") {
			a := keyArgs(t, 1)
			a.N = []int64{int64(gen.Uniform(t, 4, "flags"))} // 1: descending order, 2: every 5th key twice
			return a
		}
		ks := genKeysSorted(t, 1)
		if gen.Chance(t, 1, 3, "dup") { // nor distinct keys ("every non-empty list")
			for n := 1 + gen.Uniform(t, 3, "ndup"); n > 0; n-- {
				ks = append(ks, ks[gen.Uniform(t, len(ks), "which")])
			}
			sort.Slice(ks, func(i, j int) bool { return string(ks[i]) < string(ks[j]) })
		}
		if gen.Chance(t, 1, 2, "unsorted") { // the function does not require order
			for i := len(ks) - 1; i > 0; i-- {
				j := gen.Uniform(t, i+1, "swap")
				ks[i], ks[j] = ks[j], ks[i]
			}
		}
		return Args{S: ks}
	},
		func(a Args, g *guard) func() []any {
			bs := a.keys()
			if a.K != nil {
				bs = reshape(bs, a.n(0))
			}
			if len(bs) == 0 {
				bs = [][]byte{[]byte("k")}
			}
			keys := g.keys(bs)
			return func() []any { return pack(sigbits.FirstDiffBits(keys)) }
		}},
	// One SigBits object asked several (keyStart, keyEnd, maxitem) tuples (this slot held a kind that built
	// SigBits objects from lists with repeated keys until the second review: no statement defines New on such
	// lists, see retiredKinds). The statement's "result depends only on its arguments" for a method: the answer
	// to a tuple may not depend on which tuples the object was asked before. The tuples of a case are related
	// (the same range with another maxitem, the same start with another end, the same end with another start,
	// the very same tuple again) and are asked four times in different orders, twice each of two objects built
	// from the same keys; every answer is compared with the first answer to the same tuple (the closure reports a disagreement itself: see runCallRaw), and the
	// first answers are read again after all later queries.
	{multiQueryKind, func(t *rapid.T) Args {
		a := keyArgs(t, 2)
		nq := 2 + gen.Uniform(t, 5, "nq")
		for j := 0; j < nq; j++ {
			s, e, m := r64(t, "s"), r64(t, "e"), int64(gen.Uniform(t, 72, "m"))
			switch gen.Uniform(t, 4, "span") {
			case 0: // all keys
				s, e = 0, -1
			case 1: // a short run of keys
				e = int64(gen.Uniform(t, 4, "run"))
			}
			if j > 0 {
				p := 3 * gen.Uniform(t, j, "prev") // an earlier tuple of this case
				switch gen.Uniform(t, 6, "rel") {
				case 0, 1: // the same range, another maxitem
					s, e = a.N[p], a.N[p+1]
					if m == a.N[p+2] {
						m = (m + 1 + int64(gen.Uniform(t, 70, "dm"))) % 72
					}
				case 2: // the same start, another end
					s = a.N[p]
				case 3: // another start, both up to the last key
					e, a.N[p+1] = -1, -1
				case 4: // the very same tuple again
					s, e, m = a.N[p], a.N[p+1], a.N[p+2]
				}
			}
			a.N = append(a.N, s, e, m)
		}
		return a
	},
		func(a Args, g *guard) func() []any {
			keys := g.keys(sortedUnique(a.keysHex(), 2))
			// two objects over the same keys: the second one is asked in another order from its very first query
			// on (state that an object builds on its first query and never replaces shows between the two)
			sbs := [2]*sigbits.SigBits{sigbits.New(keys), sigbits.New(keys)}
			qs := multiQueries(a, len(keys))
			nq := len(qs)
			// the order of the queries: pass 0 (object 0) in the order of the case, pass 1 (object 1) backwards,
			// pass 2 (object 0) in a keyed permutation, pass 3 (object 1) in the order of the case; all rotated by
			// the placement of the guard - the objects of the relocated evaluation (and of the second goroutine of
			// a cold-start probe) are first asked other tuples than the first ones
			rot := [5]int{0, 0, 1, 2, 1}[g.pre%5]
			step := 1 + int(vk.Mix(uint64(a.n(0))^uint64(nq)*0x9e37)%uint64(nq))
			for gcd(step, nq) != 1 {
				step++
			}
			return func() []any {
				raw := make([]any, 2*nq)
				first := make([]string, nq)
				for p := 0; p < 4; p++ {
					sb := sbs[p&1]
					for i := 0; i < nq; i++ {
						k := i
						switch p {
						case 1:
							k = nq - 1 - i
						case 2:
							k = (step*i + 1) % nq
						}
						k = (k + rot) % nq
						q := qs[k]
						mn, cnt := sb.CountPrefixes(q[0], q[1], q[2])
						r := render(pack(mn, cnt))
						if p == 0 {
							raw[2*k], raw[2*k+1], first[k] = mn, cnt, r
						} else if r != first[k] {
							return pack(vk.Failf("result-depends-on-earlier-queries", "two SigBits objects over the same %d keys, each asked the tuples %v (keyStart, keyEnd, maxitem) twice, in four different orders: CountPrefixes(%d, %d, %d) returned %s the first time and %s in pass %d (object %d), after other queries", len(keys), qs, q[0], q[1], q[2], clip(first[k]), clip(r), p, p&1))
						}
					}
				}
				for k, q := range qs {
					if again := render(raw[2*k : 2*k+2]); again != first[k] {
						return pack(vk.Failf("result-changed-after-return", "two SigBits objects over the same %d keys, each asked the tuples %v: the result of CountPrefixes(%d, %d, %d) was %s when it was returned and reads %s after the later queries", len(keys), qs, q[0], q[1], q[2], clip(first[k]), clip(again)))
					}
				}
				return raw
			}
		}},
	{"sigbits.New+CountPrefixes", func(t *rapid.T) Args {
		a := keyArgs(t, 2)
		a.N = []int64{r64(t, "s"), r64(t, "e"), int64(1 + gen.Uniform(t, 70, "m"))}
		switch gen.Uniform(t, 4, "span") {
		case 0: // all keys
			a.N[0], a.N[1] = 0, -1
		case 1: // a short run of keys
			a.N[1] = int64(gen.Uniform(t, 4, "run"))
		}
		return a
	},
		func(a Args, g *guard) func() []any {
			keys := g.keys(sortedUnique(a.keysHex(), 2))
			sb := sigbits.New(keys)
			n := len(keys)
			s := mod(a.n(0), n-1)
			e := s + 2 + pos(a.n(1), n-s-1)
			m := int32(1 + mod(a.n(2), 80))
			return func() []any { return pack(sb.CountPrefixes(int32(s), int32(e), m)) }
		}},
	{"sigbits.ShardByPrefix", func(t *rapid.T) Args {
		a := keyArgs(t, 1)
		ms := 1 + gen.Uniform(t, 6, "ms")
		if gen.Chance(t, 1, 4, "wide") {
			ms = sizeLog(t, 7, 4096, "wms")
		}
		a.N = []int64{int64(ms)}
		return a
	},
		func(a Args, g *guard) func() []any {
			keys := g.keys(sortedUnique(a.keysHex(), 1))
			ms := int32(1 + mod(a.n(0), 12))
			if a.n(0) >= 12 {
				ms = int32(1 + mod(a.n(0), 1<<13))
			}
			return func() []any { return pack(sigbits.ShardByPrefix(keys, ms)) }
		}},
}

const multiQueryKind = "sigbits.New+CountPrefixes(several queries of one object)"

// retiredKinds are call kinds that older replay files may still name. A call of such a kind does nothing.
//   - sigbits.New(list with repeated keys): no statement defines sigbits.New on a list that is not strictly
//     ascending (C16 fixes FirstDiffBits for every non-empty list, New / CountPrefixes / ShardByPrefix for
//     strictly ascending keys only); a New that rejects such a list is correct. Lists with repeated keys
//     still go to sigbits.FirstDiffBits.
var retiredKinds = map[string]bool{"sigbits.New(list with repeated keys)": true}

// multiQueries maps the raw tuples of a multiQueryKind case onto valid (keyStart, keyEnd, maxitem) tuples over
// n >= 2 keys: at least two keys per range, maxitem >= 1. Equal raw values give equal mapped values.
func multiQueries(a Args, n int) [][3]int32 {
	var qs [][3]int32
	for j := 0; 3*j+2 < len(a.N); j++ {
		s := mod(a.N[3*j], n-1)
		e := s + 2 + pos(a.N[3*j+1], n-s-1)
		qs = append(qs, [3]int32{int32(s), int32(e), int32(1 + mod(a.N[3*j+2], 80))})
	}
	if len(qs) == 0 {
		qs = [][3]int32{{0, int32(n), 1}}
	}
	return qs
}

// multiQueryClasses labels how the tuples of a multiQueryKind case are related (by their raw values).
func multiQueryClasses(a Args) []string {
	nq := len(a.N) / 3
	out := []string{fmt.Sprintf("sigbits-queries:%d", nq)}
	seen := map[string]bool{}
	for j := 0; j < nq; j++ {
		for i := 0; i < j; i++ {
			ss, se, sm := a.N[3*i] == a.N[3*j], a.N[3*i+1] == a.N[3*j+1], a.N[3*i+2]%80 == a.N[3*j+2]%80
			switch {
			case ss && se && sm:
				seen["sigbits-queries:same-tuple-again"] = true
			case ss && se:
				seen["sigbits-queries:same-range-other-maxitem"] = true
			case ss:
				seen["sigbits-queries:same-start-other-end"] = true
			case se && a.N[3*j+1] == -1:
				seen["sigbits-queries:other-start-same-end"] = true
			}
		}
	}
	for _, l := range []string{"sigbits-queries:same-tuple-again", "sigbits-queries:same-range-other-maxitem", "sigbits-queries:same-start-other-end", "sigbits-queries:other-start-same-end"} {
		if seen[l] {
			out = append(out, l)
		}
	}
	return out
}

// onesOf lists the positions of the ones below limit (ascending); it does not use the library.
func onesOf(w []uint64, limit int) []int32 {
	var out []int32
	for i, x := range w {
		for b := 0; b < 64 && x>>uint(b) != 0; b++ {
			if p := 64*i + b; x>>uint(b)&1 == 1 && p < limit {
				out = append(out, int32(p))
			}
		}
	}
	return out
}

// reshape turns a described (ascending, distinct) key list into the other lists that
// FirstDiffBits accepts (every non-empty list): bit 0 descending order, bit 1 every 5th key twice (adjacent).
func reshape(bs [][]byte, flags int64) [][]byte {
	if flags&2 != 0 {
		var out [][]byte
		for i, b := range bs {
			out = append(out, b)
			if i%5 == 4 {
				out = append(out, b)
			}
		}
		bs = out
	}
	if flags&1 != 0 {
		out := make([][]byte, len(bs))
		for i, b := range bs {
			out[len(bs)-1-i] = b
		}
		bs = out
	}
	return bs
}

var fmtTypes = []string{"int8", "uint8", "int16", "uint16", "int32", "uint32", "int64", "uint64"}

func conv[T int8 | uint8 | int16 | uint16 | int32 | uint32 | int64 | uint64](v []uint64) []T {
	out := make([]T, len(v))
	for i, x := range v {
		out[i] = T(x)
	}
	return out
}

// fmtArg builds the argument of bitmap.Fmt: one integer of the type, or a guarded slice of them.
func fmtArg(g *guard, typ int, slice bool, v []uint64) any {
	if !slice {
		x := uint64(0)
		if len(v) > 0 {
			x = v[0]
		}
		switch typ {
		case 0:
			return int8(x)
		case 1:
			return uint8(x)
		case 2:
			return int16(x)
		case 3:
			return uint16(x)
		case 4:
			return int32(x)
		case 5:
			return uint32(x)
		case 6:
			return int64(x)
		}
		return x
	}
	switch typ {
	case 0:
		return window(g, conv[int8](v), func(i int) int8 { return int8(0x55 ^ i) }, "[]int8")
	case 1:
		return g.bytes(conv[uint8](v))
	case 2:
		return window(g, conv[int16](v), func(i int) int16 { return int16(-0x0BAD - i) }, "[]int16")
	case 3:
		return window(g, conv[uint16](v), func(i int) uint16 { return uint16(0xCA00 | i&0xff) }, "[]uint16")
	case 4:
		return g.ints(conv[int32](v))
	case 5:
		return window(g, conv[uint32](v), func(i int) uint32 { return 0xC0FFEE00 | uint32(i&0xff) }, "[]uint32")
	case 6:
		return window(g, conv[int64](v), func(i int) int64 { return -0x0BADC0FFEE - int64(i) }, "[]int64")
	}
	return g.words(v)
}

var funcIndex = func() map[string]int {
	m := map[string]int{}
	for i, f := range funcs {
		m[f.name] = i
	}
	return m
}()

package c19

import (
	"fmt"
	"sort"

	"github.com/openacid/low/bitmap"
	"github.com/openacid/low/bitstr"
	"github.com/openacid/low/bitword"
	"github.com/openacid/low/bmtree"
	"github.com/openacid/low/sigbits"
	"pgregory.net/rapid"

	"verif/harness/gen"
	"verif/harness/model"
	"verif/harness/vk"
)

// Args are the serialisable primary arguments of one call.
type Args struct {
	W []vk.Words `json:"w,omitempty"`
	N []int64    `json:"n,omitempty"`
	S []vk.Hex   `json:"s,omitempty"`
}

func (a Args) n(i int) int64 {
	if i < len(a.N) {
		return a.N[i]
	}
	return 0
}

func (a Args) w(i int) []uint64 {
	if i < len(a.W) {
		return a.W[i]
	}
	return nil
}

func (a Args) s(i int) []byte {
	if i < len(a.S) {
		return a.S[i]
	}
	return nil
}

// pack keeps the raw results of a call (slices are kept as returned, not copied), so that
// they can be rendered again later: a result must not change after it was returned.
func pack(v ...any) []any { return v }

func render(res []any) string { return fmt.Sprint(res...) }

type fnEntry struct {
	name string
	gen  func(t *rapid.T) Args
	// setup materialises the live (guarded) arguments, builds derived indexes
	// and returns the pure call closure: result rendered as a string.
	setup func(a Args, g *guard) func() []any
}

func mod(x int64, n int) int {
	if n <= 0 {
		return 0
	}
	r := int(x % int64(n))
	if r < 0 {
		r += n
	}
	return r
}

func genBM(t *rapid.T, nonEmpty, hasOne bool) vk.Words {
	w, _ := gen.Bitmap(t, 10, "bm")
	if len(w) == 0 && (nonEmpty || hasOne) {
		w = []uint64{gen.Word(t, "w0")}
	}
	if hasOne {
		any := false
		for _, x := range w {
			any = any || x != 0
		}
		if !any {
			w[gen.Uniform(t, len(w), "wi")] |= 1 << uint(gen.Uniform(t, 64, "bi"))
		}
	}
	return w
}

func r64(t *rapid.T, label string) int64 { return int64(gen.U64(t, label) >> 1) }

func ones(w []uint64) int {
	n := 0
	for _, x := range w {
		n += model.WordCount(x)
	}
	return n
}

func genKeysSorted(t *rapid.T, minN int) []vk.Hex {
	keys := gen.Keys(t, 10, "keys")
	for len(keys) < minN {
		keys = append(keys, string(gen.Bytes(t, 1, 6, "extra"))+fmt.Sprint(len(keys)))
		sort.Strings(keys)
	}
	return vk.HexStrings(keys)
}

// sortedUnique enforces the precondition "strictly ascending, at least minN keys" on replayed arguments.
func sortedUnique(hs []vk.Hex, minN int) [][]byte {
	set := map[string]bool{}
	for _, h := range hs {
		set[string(h)] = true
	}
	for i := 0; len(set) < minN; i++ {
		set[fmt.Sprintf("fallback-key-%d", i)] = true
	}
	keys := make([]string, 0, len(set))
	for k := range set {
		keys = append(keys, k)
	}
	sort.Strings(keys)
	out := make([][]byte, len(keys))
	for i, k := range keys {
		out[i] = []byte(k)
	}
	return out
}

func toBytes(hs []vk.Hex) [][]byte {
	out := make([][]byte, len(hs))
	for i, h := range hs {
		out[i] = h
	}
	return out
}

var getwWidths = []int32{1, 2, 4, 8, 16, 32, 64}
var bwWidths = []int{1, 2, 4, 8}

func genMask(t *rapid.T, maxH int) int64 {
	h := gen.Uniform(t, maxH+1, "h")
	top := int64(1) << uint(h)
	switch gen.Uniform(t, 4, "mclass") {
	case 0:
		return top | (top - 1)
	case 1:
		return top
	}
	return top | int64(gen.U64(t, "low"))&(top-1)
}

func genRange(t *rapid.T, nbits int, label string) (int64, int64) {
	a, b := gen.Uniform(t, nbits+1, label+".a"), gen.Uniform(t, nbits+1, label+".b")
	return int64(min(a, b)), int64(max(a, b))
}

var funcs = []fnEntry{
	// ------------------------------------------------------------ bitmap
	{"bitmap.IndexRank64", func(t *rapid.T) Args {
		return Args{W: []vk.Words{genBM(t, false, false)}, N: []int64{int64(gen.Uniform(t, 3, "opt"))}}
	},
		func(a Args, g *guard) func() []any {
			w := g.words(a.w(0))
			return func() []any {
				switch a.n(0) {
				case 1:
					return pack(bitmap.IndexRank64(w, false))
				case 2:
					return pack(bitmap.IndexRank64(w, true))
				}
				return pack(bitmap.IndexRank64(w))
			}
		}},
	{"bitmap.IndexRank128", func(t *rapid.T) Args { return Args{W: []vk.Words{genBM(t, false, false)}} },
		func(a Args, g *guard) func() []any {
			w := g.words(a.w(0))
			return func() []any { return pack(bitmap.IndexRank128(w)) }
		}},
	{"bitmap.Rank64", func(t *rapid.T) Args { return Args{W: []vk.Words{genBM(t, true, false)}, N: []int64{r64(t, "i")}} },
		func(a Args, g *guard) func() []any {
			w := g.words(a.w(0))
			idx := g.ints(bitmap.IndexRank64(w))
			i := int32(mod(a.n(0), 64*len(w)))
			return func() []any { return pack(bitmap.Rank64(w, idx, i)) }
		}},
	{"bitmap.Rank128", func(t *rapid.T) Args { return Args{W: []vk.Words{genBM(t, true, false)}, N: []int64{r64(t, "i")}} },
		func(a Args, g *guard) func() []any {
			w := g.words(a.w(0))
			idx := g.ints(bitmap.IndexRank128(w))
			i := int32(mod(a.n(0), 64*len(w)))
			return func() []any { return pack(bitmap.Rank128(w, idx, i)) }
		}},
	{"bitmap.IndexSelect32", func(t *rapid.T) Args { return Args{W: []vk.Words{genBM(t, false, false)}} },
		func(a Args, g *guard) func() []any {
			w := g.words(a.w(0))
			return func() []any { return pack(bitmap.IndexSelect32(w)) }
		}},
	{"bitmap.IndexSelect32R64", func(t *rapid.T) Args { return Args{W: []vk.Words{genBM(t, false, false)}} },
		func(a Args, g *guard) func() []any {
			w := g.words(a.w(0))
			return func() []any { return pack(bitmap.IndexSelect32R64(w)) }
		}},
	{"bitmap.Select32", func(t *rapid.T) Args { return Args{W: []vk.Words{genBM(t, true, true)}, N: []int64{r64(t, "i")}} },
		func(a Args, g *guard) func() []any {
			w := g.words(a.w(0))
			idx := g.ints(bitmap.IndexSelect32(w))
			i := int32(mod(a.n(0), ones(w)))
			return func() []any { return pack(bitmap.Select32(w, idx, i)) }
		}},
	{"bitmap.Select32R64", func(t *rapid.T) Args { return Args{W: []vk.Words{genBM(t, true, true)}, N: []int64{r64(t, "i")}} },
		func(a Args, g *guard) func() []any {
			w := g.words(a.w(0))
			s, r := bitmap.IndexSelect32R64(w)
			sidx, ridx := g.ints(s), g.ints(r)
			i := int32(mod(a.n(0), ones(w)))
			return func() []any { return pack(bitmap.Select32R64(w, sidx, ridx, i)) }
		}},
	{"bitmap.NextOne", func(t *rapid.T) Args {
		w := genBM(t, true, false)
		i, e := genRange(t, 64*len(w), "r")
		return Args{W: []vk.Words{w}, N: []int64{i, e}}
	},
		func(a Args, g *guard) func() []any {
			w := g.words(a.w(0))
			nb := 64 * len(w)
			i := min(mod(a.n(0), nb+1), nb-1)
			e := max(mod(a.n(1), nb+1), i)
			return func() []any { return pack(bitmap.NextOne(w, int32(i), int32(e))) }
		}},
	{"bitmap.PrevOne", func(t *rapid.T) Args {
		w := genBM(t, true, false)
		i, e := genRange(t, 64*len(w), "r")
		return Args{W: []vk.Words{w}, N: []int64{i, e}}
	},
		func(a Args, g *guard) func() []any {
			w := g.words(a.w(0))
			nb := 64 * len(w)
			e := max(mod(a.n(1), nb+1), 1)
			i := min(mod(a.n(0), nb+1), e)
			return func() []any { return pack(bitmap.PrevOne(w, int32(i), int32(e))) }
		}},
	{"bitmap.Slice", func(t *rapid.T) Args {
		w := genBM(t, false, false)
		i, e := genRange(t, 64*len(w), "r")
		return Args{W: []vk.Words{w}, N: []int64{i, e}}
	},
		func(a Args, g *guard) func() []any {
			w := g.words(a.w(0))
			nb := 64 * len(w)
			i := mod(a.n(0), nb+1)
			e := max(mod(a.n(1), nb+1), i)
			return func() []any { return pack(bitmap.Slice(w, int32(i), int32(e))) }
		}},
	{"bitmap.ToArray", func(t *rapid.T) Args { return Args{W: []vk.Words{genBM(t, false, false)}} },
		func(a Args, g *guard) func() []any {
			w := g.words(a.w(0))
			return func() []any { return pack(bitmap.ToArray(w)) }
		}},
	{"bitmap.Getw", func(t *rapid.T) Args {
		return Args{W: []vk.Words{genBM(t, true, false)}, N: []int64{int64(gen.Uniform(t, len(getwWidths), "w")), r64(t, "i")}}
	},
		func(a Args, g *guard) func() []any {
			w := g.words(a.w(0))
			width := getwWidths[mod(a.n(0), len(getwWidths))]
			i := int32(mod(a.n(1), 64*len(w)/int(width)))
			return func() []any { return pack(bitmap.Getw(w, i, width)) }
		}},
	{"bitmap.Get+Get1", func(t *rapid.T) Args { return Args{W: []vk.Words{genBM(t, true, false)}, N: []int64{r64(t, "i")}} },
		func(a Args, g *guard) func() []any {
			w := g.words(a.w(0))
			i := int32(mod(a.n(0), 64*len(w)))
			return func() []any { return pack(bitmap.Get(w, i), bitmap.Get1(w, i)) }
		}},
	{"bitmap.SafeGet+SafeGet1", func(t *rapid.T) Args {
		return Args{W: []vk.Words{genBM(t, false, false)}, N: []int64{int64(int32(gen.U64(t, "i")))}}
	},
		func(a Args, g *guard) func() []any {
			w := g.words(a.w(0))
			i := int32(a.n(0))
			return func() []any { return pack(bitmap.SafeGet(w, i), bitmap.SafeGet1(w, i)) }
		}},
	{"bitmap.FromStr32", func(t *rapid.T) Args {
		s := gen.Bytes(t, 0, 12, "s")
		return Args{S: []vk.Hex{s}, N: []int64{int64(gen.Uniform(t, 8*len(s)+10, "from")), int64(gen.Uniform(t, 33, "w"))}}
	},
		func(a Args, g *guard) func() []any {
			s := g.str(a.s(0))
			from, w := int32(mod(a.n(0), 1<<20)), int32(mod(a.n(1), 33))
			return func() []any { return pack(bitmap.FromStr32(s, from, from+w)) }
		}},
	{"bitmap.Join", func(t *rapid.T) Args {
		n := gen.Uniform(t, 20, "n")
		v := make(vk.Words, n)
		for i := range v {
			v[i] = gen.U64(t, "v")
		}
		return Args{W: []vk.Words{v}, N: []int64{int64(gen.Uniform(t, len(getwWidths), "w"))}}
	},
		func(a Args, g *guard) func() []any {
			v := g.words(a.w(0))
			width := getwWidths[mod(a.n(0), len(getwWidths))]
			return func() []any { return pack(bitmap.Join(v, width)) }
		}},
	{"bitmap.Of", func(t *rapid.T) Args {
		n := gen.Uniform(t, 12, "n")
		ns := []int64{int64(gen.Uniform(t, 400, "size")) - 50}
		cur := int64(-1)
		for i := 0; i < n; i++ {
			cur += 1 + int64(gen.Uniform(t, 70, "gap"))
			ns = append(ns, cur)
		}
		return Args{N: ns}
	},
		func(a Args, g *guard) func() []any {
			var pos []int32
			for _, p := range a.N[min(1, len(a.N)):] {
				pos = append(pos, int32(mod(p, 1<<20)))
			}
			sort.Slice(pos, func(i, j int) bool { return pos[i] < pos[j] })
			gp := g.ints(pos)
			n := int32(a.n(0))
			return func() []any { return pack(bitmap.Of(gp, n), bitmap.Of(gp)) }
		}},
	// ------------------------------------------------------------ bmtree
	{"bmtree.PathToIndex+Loose", func(t *rapid.T) Args {
		mask := genMask(t, 30)
		return Args{N: []int64{mask, r64(t, "l"), r64(t, "prefix")}}
	},
		func(a Args, g *guard) func() []any {
			mask := int32(max(mod(a.n(0), 1<<31), 1))
			tr := model.NewTree(mask)
			l := mod(a.n(1), tr.H+1)
			prefix := uint64(a.n(2)) & (uint64(1)<<uint(l) - 1)
			p := model.PathWord(prefix, l, tr.H)
			stored := tr.Stored[l]
			return func() []any {
				i, has := bmtree.PathToIndexLoose(mask, p)
				if stored {
					return pack(i, has, bmtree.PathToIndex(mask, p))
				}
				return pack(i, has)
			}
		}},
	{"bmtree.IndexToPath", func(t *rapid.T) Args { return Args{N: []int64{int64(gen.Uniform(t, 31, "h")), r64(t, "idx")}} },
		func(a Args, g *guard) func() []any {
			h := mod(a.n(0), 31)
			idx := int32(a.n(1) % (int64(1)<<uint(h+1) - 1))
			return func() []any { return pack(bmtree.IndexToPath(int32(h), idx)) }
		}},
	{"bmtree.AllPaths", func(t *rapid.T) Args {
		mask := genMask(t, 30)
		return Args{N: []int64{mask, r64(t, "centre"), int64(gen.Uniform(t, 40, "span")), int64(gen.U64(t, "lowf") & 0xffffffff), int64(gen.U64(t, "lowt") & 0xffffffff)}}
	},
		func(a Args, g *guard) func() []any {
			mask := int32(max(mod(a.n(0), 1<<31), 1))
			tr := model.NewTree(mask)
			c := uint64(a.n(1)) % (uint64(1) << uint(tr.H))
			from := c<<32 | uint64(a.n(3))&0xffffffff
			to := (c+uint64(mod(a.n(2), 40)))<<32 | uint64(a.n(4))&0xffffffff
			return func() []any { return pack(bmtree.AllPaths(mask, from, to)) }
		}},
	{"bmtree.Decode", func(t *rapid.T) Args { return Args{N: []int64{genMask(t, 8)}, W: []vk.Words{genBM(t, false, false)}} },
		func(a Args, g *guard) func() []any {
			mask := int32(max(mod(a.n(0), 1<<9), 1))
			bm := g.words(a.w(0))
			return func() []any { return pack(bmtree.Decode(mask, bm)) }
		}},
	{"bmtree.PathOf+PathsOf", func(t *rapid.T) Args {
		return Args{S: genKeysSorted(t, 1), N: []int64{int64(gen.Uniform(t, 20, "from")), int64(gen.Uniform(t, 33, "h")), int64(gen.Uniform(t, 2, "dedup"))}}
	},
		func(a Args, g *guard) func() []any {
			keys := g.keys(toBytes(a.S))
			from, h, dedup := int32(mod(a.n(0), 64)), int32(mod(a.n(1), 33)), a.n(2)&1 == 1
			return func() []any {
				first := uint64(0)
				if len(keys) > 0 {
					first = bmtree.PathOf(keys[0], from, h)
				}
				return pack(first, bmtree.PathsOf(keys, from, h, dedup))
			}
		}},
	{"bmtree.NewPath+PathLen+PathHeight+PathBits+PathMask+PathStr", func(t *rapid.T) Args {
		return Args{N: []int64{int64(gen.Uniform(t, 33, "h")), r64(t, "l"), r64(t, "prefix")}}
	},
		func(a Args, g *guard) func() []any {
			h := mod(a.n(0), 33)
			l := mod(a.n(1), h+1)
			prefix := uint64(a.n(2)) & (uint64(1)<<uint(l) - 1)
			return func() []any {
				p := bmtree.NewPath(prefix<<uint(h-l), int32(l), int32(h))
				return pack(p, bmtree.PathLen(p), bmtree.PathHeight(p), bmtree.PathBits(p), bmtree.PathMask(p), bmtree.PathStr(p), bmtree.Height(int32(1)<<uint(min(h, 30))))
			}
		}},
	// ------------------------------------------------------------ bitstr
	{"bitstr.New+Len", func(t *rapid.T) Args {
		s := gen.Bytes(t, 0, 48, "s")
		f, e := genRange(t, 8*len(s), "r")
		return Args{S: []vk.Hex{s}, N: []int64{f, e}}
	},
		func(a Args, g *guard) func() []any {
			s := g.str(a.s(0))
			nb := 8 * len(s)
			f := mod(a.n(0), nb+1)
			e := max(mod(a.n(1), nb+1), f)
			return func() []any {
				enc := bitstr.New(s, int32(f), int32(e))
				return pack(enc, bitstr.Len(enc))
			}
		}},
	{"bitstr.Cmp", func(t *rapid.T) Args {
		s1, s2 := gen.Bytes(t, 0, 48, "s1"), gen.Bytes(t, 0, 48, "s2")
		if gen.Chance(t, 1, 2, "same") {
			s2 = append([]byte(nil), s1...)
		}
		f1, e1 := genRange(t, 8*len(s1), "r1")
		f2, e2 := genRange(t, 8*len(s2), "r2")
		return Args{S: []vk.Hex{s1, s2}, N: []int64{f1, e1, f2, e2}}
	},
		func(a Args, g *guard) func() []any {
			mk := func(s []byte, fi, ei int) []byte {
				nb := 8 * len(s)
				f := mod(a.n(fi), nb+1)
				e := max(mod(a.n(ei), nb+1), f)
				return g.bytes(bitstr.New(string(s), int32(f), int32(e)))
			}
			x, y := mk(a.s(0), 0, 1), mk(a.s(1), 2, 3)
			return func() []any { return pack(bitstr.Cmp(x, y), bitstr.Cmp(y, x), bitstr.Len(x)) }
		}},
	{"bitstr.CmpUpto+StrCmpUpto", func(t *rapid.T) Args {
		s := gen.Bytes(t, 0, 48, "s")
		av := gen.Bytes(t, 0, 48, "a")
		if gen.Chance(t, 2, 3, "related") {
			av = append([]byte(nil), s[:gen.Uniform(t, len(s)+1, "k")]...)
			av = append(av, gen.Bytes(t, 0, 3, "ext")...)
		}
		f, e := genRange(t, 8*len(s), "r")
		return Args{S: []vk.Hex{s, av}, N: []int64{f, e}}
	},
		func(a Args, g *guard) func() []any {
			s := a.s(0)
			nb := 8 * len(s)
			f := mod(a.n(0), nb+1)
			e := max(mod(a.n(1), nb+1), f)
			b := g.bytes(bitstr.New(string(s), int32(f), int32(e)))
			ab := g.bytes(a.s(1))
			as := g.str(a.s(1))
			return func() []any { return pack(bitstr.CmpUpto(ab, b), bitstr.StrCmpUpto(as, b)) }
		}},
	// ------------------------------------------------------------ bitword
	{"bitword.FromStr+Get+ToStr", func(t *rapid.T) Args {
		return Args{S: []vk.Hex{gen.Bytes(t, 0, 16, "s")}, N: []int64{int64(gen.Uniform(t, 4, "w")), r64(t, "i")}}
	},
		func(a Args, g *guard) func() []any {
			n := bwWidths[mod(a.n(0), 4)]
			s := g.str(a.s(0))
			nw := 8 * len(s) / n
			i := mod(a.n(1), nw)
			return func() []any {
				bw := bitword.BitWord[n]
				ws := bw.FromStr(s)
				got := byte(0)
				if nw > 0 {
					got = bw.Get(s, i)
				}
				return pack(ws, got, []byte(bw.ToStr(ws)))
			}
		}},
	{"bitword.ToStr", func(t *rapid.T) Args {
		w := gen.Uniform(t, 4, "w")
		ws := gen.Bytes(t, 0, 30, "ws")
		for i := range ws {
			ws[i] &= byte(1<<uint(bwWidths[w]) - 1)
		}
		return Args{S: []vk.Hex{ws}, N: []int64{int64(w)}}
	},
		func(a Args, g *guard) func() []any {
			n := bwWidths[mod(a.n(0), 4)]
			src := append([]byte(nil), a.s(0)...)
			for i := range src {
				src[i] &= byte(1<<uint(n) - 1)
			}
			ws := g.bytes(src)
			return func() []any { return pack([]byte(bitword.BitWord[n].ToStr(ws))) }
		}},
	{"bitword.FirstDiff", func(t *rapid.T) Args {
		x := gen.Bytes(t, 0, 12, "a")
		y := gen.Bytes(t, 0, 12, "b")
		if gen.Chance(t, 2, 3, "related") && len(x) > 0 {
			y = append([]byte(nil), x...)
			y[gen.Uniform(t, len(y), "k")] ^= 1 << uint(gen.Uniform(t, 8, "bit"))
		}
		return Args{S: []vk.Hex{x, y}, N: []int64{int64(gen.Uniform(t, 4, "w")), int64(gen.Uniform(t, 100, "from")), int64(gen.Uniform(t, 102, "end")) - 1}}
	},
		func(a Args, g *guard) func() []any {
			n := bwWidths[mod(a.n(0), 4)]
			x, y := g.str(a.s(0)), g.str(a.s(1))
			from := mod(a.n(1), 200)
			end := int(max(a.n(2), -1))
			return func() []any { return pack(bitword.BitWord[n].FirstDiff(x, y, from, end)) }
		}},
	{"bitword.FromStrs+ToStrs", func(t *rapid.T) Args {
		k := gen.Uniform(t, 5, "k")
		var ss []vk.Hex
		for i := 0; i < k; i++ {
			ss = append(ss, gen.Bytes(t, 0, 8, "e"))
		}
		return Args{S: ss, N: []int64{int64(gen.Uniform(t, 4, "w"))}}
	},
		func(a Args, g *guard) func() []any {
			n := bwWidths[mod(a.n(0), 4)]
			strs := g.keys(toBytes(a.S))
			return func() []any {
				bw := bitword.BitWord[n]
				wss := bw.FromStrs(strs)
				back := bw.ToStrs(wss)
				return pack(wss, back)
			}
		}},
	// ------------------------------------------------------------ sigbits
	{"sigbits.FirstDiffBits", func(t *rapid.T) Args {
		ks := genKeysSorted(t, 1)
		if gen.Chance(t, 1, 3, "dup") { // nor distinct keys ("every non-empty list")
			for n := 1 + gen.Uniform(t, 3, "ndup"); n > 0; n-- {
				ks = append(ks, ks[gen.Uniform(t, len(ks), "which")])
			}
			sort.Slice(ks, func(i, j int) bool { return string(ks[i]) < string(ks[j]) })
		}
		if gen.Chance(t, 1, 2, "unsorted") { // the function does not require order
			for i := len(ks) - 1; i > 0; i-- {
				j := gen.Uniform(t, i+1, "swap")
				ks[i], ks[j] = ks[j], ks[i]
			}
		}
		return Args{S: ks}
	},
		func(a Args, g *guard) func() []any {
			bs := toBytes(a.S)
			if len(bs) == 0 {
				bs = [][]byte{[]byte("k")}
			}
			keys := g.keys(bs)
			return func() []any { return pack(sigbits.FirstDiffBits(keys)) }
		}},
	{"sigbits.New(list with repeated keys)", func(t *rapid.T) Args {
		ks := genKeysSorted(t, 1)
		for n := 1 + gen.Uniform(t, 3, "ndup"); n > 0; n-- {
			ks = append(ks, ks[gen.Uniform(t, len(ks), "which")])
		}
		sort.Slice(ks, func(i, j int) bool { return string(ks[i]) < string(ks[j]) })
		return Args{S: ks}
	},
		func(a Args, g *guard) func() []any {
			bs := toBytes(a.S)
			if len(bs) == 0 {
				bs = [][]byte{[]byte("k"), []byte("k")}
			}
			keys := g.keys(bs)
			// New only indexes the list (FirstDiffBits accepts every non-empty list); nothing is queried: the
			// observation is what happens to the caller's keys
			return func() []any { return pack(sigbits.New(keys) != nil) }
		}},
	{"sigbits.New+CountPrefixes", func(t *rapid.T) Args {
		return Args{S: genKeysSorted(t, 2), N: []int64{r64(t, "s"), r64(t, "e"), int64(1 + gen.Uniform(t, 70, "m"))}}
	},
		func(a Args, g *guard) func() []any {
			keys := g.keys(sortedUnique(a.S, 2))
			sb := sigbits.New(keys)
			n := len(keys)
			s := mod(a.n(0), n-1)
			e := s + 2 + mod(a.n(1), n-s-1)
			m := int32(1 + mod(a.n(2), 80))
			return func() []any { return pack(sb.CountPrefixes(int32(s), int32(e), m)) }
		}},
	{"sigbits.ShardByPrefix", func(t *rapid.T) Args {
		return Args{S: genKeysSorted(t, 1), N: []int64{int64(1 + gen.Uniform(t, 6, "ms"))}}
	},
		func(a Args, g *guard) func() []any {
			keys := g.keys(sortedUnique(a.S, 1))
			ms := int32(1 + mod(a.n(0), 12))
			return func() []any { return pack(sigbits.ShardByPrefix(keys, ms)) }
		}},
}

var funcIndex = func() map[string]int {
	m := map[string]int{}
	for i, f := range funcs {
		m[f.name] = i
	}
	return m
}()

// Package c17 decides property C17: ShardByPrefix yields bounded contiguous
// shards with ordered, unique, longest-common prefixes (validity predicate).
package c17

import (
	"fmt"
	"math"
	"sort"
	"testing"

	"github.com/openacid/low/sigbits"
	"pgregory.net/rapid"

	"verif/harness/gen"
	"verif/harness/vk"
)

func TestMain(m *testing.M) { vk.Main(m, "C17") }

type Case struct {
	BigN    int      `json:"big_n,omitempty"` // > 0: a very large generated key set (see bigKeys) instead of Keys
	Spec    *Spec    `json:"spec,omitempty"`  // a key list generated from a few parameters (see spec_test.go) instead of Keys
	Keys    []vk.Hex `json:"keys"`
	MaxSize int32    `json:"max_size"`
	Class   string   `json:"class,omitempty"`
}

var checker = &vk.Checker[Case]{
	ID: "C17",
	Rule: "strictly ascending key lists (a) from a random prefix tree (1..60 keys, thorough up to 2000): deep nested prefixes, a key equal to the common prefix of its successors, single key, keys differing in byte 0, NUL and >= 0x80 bytes, empty key; " +
		"(b) from a parameterised prefix tree (Spec: the case carries the parameters, the list is a pure function of them): nesting chains k, kk, kkk, ... and combs 2..900 levels deep (thorough 3000), 1..40 keys sharing 1..70 000 leading bytes (thorough 2^20), lists of 16..12 000 keys (thorough 150 000) of skewed / balanced / flat shape sharing 0..600 leading bytes; every size is drawn log-uniformly (each octave equally likely, octave ends 2^k-1, 2^k, 2^k+1 favoured). " +
		"maxSize in {1,2,3,n-1,n,n+1..2n+3,2^31-1-d, log-uniform and uniform in 1..n}. The same list reaches the library as fresh exact strings, in a reused argument slice with canaries in its spare capacity, as substrings at odd addresses between foreign bytes, or as adjacent substrings of one packed buffer (a function of the case). " +
		"The two returned slices of the last 8 cases stay under watch: after later calls (other keys; the same keys with another maxSize - the pool grid runs maxSize 1..7 back to back) they must still read as they did when they were returned, their spare capacity having been overwritten as a caller's append would. " +
		"Validity predicate (many outputs may be right): len(B)==len(L)+1, B[0]==0, B strictly increasing, B[k]==n, every shard <= maxSize keys, L[j] == byte length of the longest common prefix of the shard computed naively over all its keys (key length for a single key), shard prefixes strictly ascending. Nothing else about where the cuts are is demanded. " +
		"Grid: all subsets of size 1..6 of a 14-key pool x maxSize 1..7; full fan-out lists; very large generated key sets (70 001 and 2^18+7 keys) x maxSize {1,50,5000,n,2^31-4}; sweeps over nesting depth (2..1025, thorough 4097), common-prefix length (7..65 537, thorough 2^20+1) and number of keys (15..~10 000, thorough 131 071) at 2^k-1, 2^k, 2^k+1 and two more sizes per octave, the one-shard and sqrt(n) cases of the key-count sweep under every GOMAXPROCS setting of the second process; 70 001 keys x maxSize around 2^15 and 2^16. " +
		"Non-trivial: n > maxSize and adjacent keys share common prefixes of >= 2 distinct byte lengths (nested splitting is needed). Distinct by hash of the case.",
	Check:    check,
	Classify: classify,
	Risky:    func(Case) bool { return true }, // the recursive split can overflow the stack: keep the running case on disk
}

func lcpBytes(keys []string) int {
	l := len(keys[0])
	for _, k := range keys[1:] {
		n := 0
		for n < l && n < len(k) && k[n] == keys[0][n] {
			n++
		}
		l = n
	}
	return l
}

// bigKeys: n strictly ascending keys with nested shared prefixes (groups of 4096, 64 and single keys).
func bigKeys(n int) []string {
	keys := make([]string, n)
	for i := range keys {
		k := []byte{'g', byte(i >> 20), byte(i >> 12), '/', byte(i >> 6 & 63), '/', byte(i & 63)}
		if i%9 == 4 {
			k = append(k, 0, 0)
		}
		keys[i] = string(k)
	}
	return keys
}

func (c Case) keyStrings() []string {
	if c.BigN > 0 {
		return bigKeys(c.BigN)
	}
	if c.Spec != nil {
		return specKeys(*c.Spec)
	}
	return vk.Strings(c.Keys)
}

var scratch vk.Scratch

// brief prints a key list, or its ends when it is long.
func brief(keys []string) string {
	t := 0
	for _, k := range keys {
		t += len(k)
	}
	if len(keys) <= 12 && t <= 1200 {
		return fmt.Sprintf("%x", keys)
	}
	short := func(k string) string {
		if len(k) > 40 {
			return fmt.Sprintf("%x..(%d bytes)..%x", k[:12], len(k), k[len(k)-12:])
		}
		return fmt.Sprintf("%x", k)
	}
	if len(keys) <= 3 {
		out := "["
		for i, k := range keys {
			if i > 0 {
				out += " "
			}
			out += short(k)
		}
		return out + "]"
	}
	return fmt.Sprintf("[%d keys, %d bytes: %s %s .. %s]", len(keys), t, short(keys[0]), short(keys[1]), short(keys[len(keys)-1]))
}

// packed returns keys equal to orig whose bytes lie back to back in ONE buffer (what splitting a file
// into keys yields): most keys start at an odd address and are followed by the bytes of the next key.
func packed(orig []string) []string {
	t := 3
	for _, k := range orig {
		t += len(k)
	}
	buf := make([]byte, 0, t+5)
	buf = append(buf, "\xa5\x5a\xc3"...)
	for _, k := range orig {
		buf = append(buf, k...)
	}
	buf = append(buf, "\xee\xdd\xcc\xbb\xaa"...)
	all := string(buf)
	out := make([]string, len(orig))
	at := 3
	for i, k := range orig {
		out[i] = all[at : at+len(k)]
		at += len(k)
	}
	return out
}

func check(c Case) *vk.Failure {
	orig := c.keyStrings()
	// How the (same) key list reaches the library is a function of the case: fresh exact copies, the
	// reused argument buffer (same backing array as earlier calls, canaries in the spare capacity),
	// substrings at odd addresses with foreign bytes around them, or substrings of one packed buffer.
	var sum uint64
	if c.BigN > 0 || c.Spec != nil {
		sum = uint64(c.BigN)
		if c.Spec != nil {
			sum = vk.Mix(c.Spec.Seed^uint64(c.Spec.N)<<32^uint64(c.Spec.Root)<<8^uint64(c.Spec.Shape)) + uint64(c.Spec.Ext)
		}
	} else {
		sum = vk.SumStrings(orig)
	}
	sum += uint64(c.MaxSize)
	reused := c.BigN == 0 && scratch.Reuse(sum)
	var keys []string
	switch how := vk.Mix(sum^0x17c17) >> 8 & 3; {
	case reused:
		keys = scratch.Strings(orig)
	case how == 0:
		keys = vk.ShapeStrings(orig, sum)
	case how == 1:
		keys = packed(orig)
	case c.BigN == 0 && c.Spec == nil:
		keys = vk.Strings(c.Keys) // fresh heap strings of exactly the key's size
	default:
		keys = append(make([]string, 0, len(orig)), orig...)
	}
	n := len(keys)
	generated := c.BigN > 0 || c.Spec != nil
	what := func() string {
		switch {
		case c.BigN > 0:
			return fmt.Sprintf("%d generated keys", n)
		case c.Spec != nil:
			return fmt.Sprintf("keys of spec %+v = %s", *c.Spec, brief(orig))
		}
		return fmt.Sprintf("%d keys %x", n, orig)
	}
	var L, B []int32
	if f := vk.TryF(func() string { return fmt.Sprintf("ShardByPrefix(%s, %d)", what(), c.MaxSize) },
		func() { L, B = sigbits.ShardByPrefix(keys, c.MaxSize) }); f != nil {
		return f
	}
	desc := func() string {
		if generated {
			return fmt.Sprintf("ShardByPrefix(%s, maxSize=%d) -> %d shards", what(), c.MaxSize, len(L))
		}
		return fmt.Sprintf("ShardByPrefix(keys=%x, maxSize=%d) = L%v B%v", orig, c.MaxSize, L, B)
	}
	if len(B) != len(L)+1 {
		return vk.Failf("shape", "%s: len(B) = %d, len(L) = %d", desc(), len(B), len(L))
	}
	if len(L) == 0 {
		return vk.Failf("shape", "%s: no shard for a non-empty key list", desc())
	}
	if B[0] != 0 || int(B[len(B)-1]) != n {
		return vk.Failf("boundaries", "%s: boundaries must run from 0 to %d", desc(), n)
	}
	for j := 0; j+1 < len(B); j++ {
		if B[j] >= B[j+1] {
			return vk.Failf("boundaries", "%s: boundaries not strictly increasing at %d", desc(), j)
		}
		if B[j] < 0 || int(B[j+1]) > n {
			return vk.Failf("boundaries", "%s: boundary out of range", desc())
		}
		if B[j+1]-B[j] > c.MaxSize {
			return vk.Failf("shard-size", "%s: shard %d holds %d keys > maxSize", desc(), j, B[j+1]-B[j])
		}
	}
	prev := ""
	for j := range L {
		shard := orig[B[j]:B[j+1]]
		want := lcpBytes(shard)
		if int(L[j]) != want {
			return vk.Failf("prefix-length", "%s: L[%d] = %d but the longest common prefix of shard %d = keys[%d:%d] = %s has %d bytes", desc(), j, L[j], j, B[j], B[j+1], brief(shard), want)
		}
		p := shard[0][:want]
		if j > 0 && !(prev < p) {
			return vk.Failf("prefix-order", "%s: shard prefixes %s, %s (shards %d,%d) are not strictly ascending", desc(), brief([]string{prev}), brief([]string{p}), j-1, j)
		}
		prev = p
	}
	for i := range keys {
		if keys[i] != orig[i] {
			return vk.Failf("mutates", "key %d changed", i)
		}
	}
	if reused {
		if msg := scratch.Check(); msg != "" {
			return vk.Failf("argument-spare-capacity-written", "%s", msg)
		}
	}
	watch(L, B, n, c.MaxSize)
	return nil
}

var keep func(func() string)

func init() { keep = checker.Keep }

const keptFullRead = 1 << 14 // longer kept slices are re-read at their start, their end and a stride

// changedAt: the first position (of those looked at) where got no longer holds what it held; -1 if none.
func changedAt(got, want []int32) int {
	n := len(want)
	if len(got) != n {
		return 0
	}
	if n <= keptFullRead {
		for i := range want {
			if got[i] != want[i] {
				return i
			}
		}
		return -1
	}
	for i := 0; i < 4096; i++ {
		if got[i] != want[i] {
			return i
		}
	}
	for i := n - 1024; i < n; i++ {
		if got[i] != want[i] {
			return i
		}
	}
	for i := 4096; i < n-1024; i += 61 {
		if got[i] != want[i] {
			return i
		}
	}
	return -1
}

// watch puts the two slices of a (valid) answer under watch for the next cases (checker.Keep): after later
// ShardByPrefix calls - other keys, or the same keys with another maxSize - L and B must still read as they
// did when they were returned (private copies), so the pair is still the valid answer it was. L and B are []int32: they cannot share
// memory with the []string argument, so nothing here depends on what happens to the argument later.
func watch(L, B []int32, n int, maxSize int32) {
	wantL, wantB := append([]int32(nil), L...), append([]int32(nil), B...)
	// (the spare capacity of L and B is NOT overwritten: the statement does not say that the two slices of one answer
	// have separate backing arrays - a correct variant cuts both out of one allocation, L = buf[:k], B = buf[k:] -
	// so what a caller's append to L would do to B is not this property's business; what later LIBRARY calls do to
	// an earlier answer is)
	keep(func() string {
		if at := changedAt(L, wantL); at >= 0 {
			return fmt.Sprintf("ShardByPrefix(%d keys, maxSize=%d) returned %d shards with prefix length L[%d] = %d, which now reads %d", n, maxSize, len(wantL), at, wantL[at], L[at])
		}
		if at := changedAt(B, wantB); at >= 0 {
			return fmt.Sprintf("ShardByPrefix(%d keys, maxSize=%d) returned %d shards with boundary B[%d] = %d, which now reads %d", n, maxSize, len(wantL), at, wantB[at], B[at])
		}
		return ""
	})
}

func classify(c Case) (bool, []string) {
	if c.BigN > 0 {
		return true, []string{"class:very-large-key-set"}
	}
	keys := c.keyStrings()
	n := len(keys)
	labels := []string{}
	if c.Class != "" {
		labels = append(labels, "class:"+c.Class)
	}
	if c.Spec != nil {
		labels = append(labels, "spec-shape:"+shapeNames[c.Spec.norm().Shape], "spec-keys:"+octave(n))
		if c.Spec.Root >= 8 {
			labels = append(labels, "spec-root-bytes:"+octave(c.Spec.Root))
		}
		if int(c.MaxSize) >= n && n >= 2 && keys[0] != "" && keys[0][0] == keys[n-1][0] {
			labels = append(labels, "one-shard-with-common-prefix")
		}
	}
	switch {
	case c.MaxSize == 1:
		labels = append(labels, "maxSize:1")
	case int(c.MaxSize) >= n:
		labels = append(labels, "maxSize:>=n")
	default:
		labels = append(labels, "maxSize:2..n-1")
	}
	if n == 1 {
		labels = append(labels, "single-key")
	}
	// decided from the input alone (the classifier never calls the code under test):
	// adjacent keys share common prefixes of at least two different byte lengths,
	// so a split at the shortest one leaves groups that need their own prefix.
	nested := false
	if c.Spec != nil && lastNestedKnown && lastNestedFor == *c.Spec {
		nested = lastNested // the same generated list as in the previous evaluation
	} else {
		first := -1
		for i := 0; i+1 < n && !nested; i++ {
			l := lcpBytes(keys[i : i+2])
			if first < 0 {
				first = l
			}
			nested = l != first
		}
		if c.Spec != nil {
			lastNestedFor, lastNested, lastNestedKnown = *c.Spec, nested, true
		}
	}
	if nested {
		labels = append(labels, "nested-prefix-lengths")
	}
	return n > int(c.MaxSize) && nested, labels
}

var (
	lastNestedFor   Spec
	lastNested      bool
	lastNestedKnown bool
)

func genCase(t *rapid.T) Case {
	if gen.Chance(t, 3, 10, "generated") {
		return genSpecCase(t)
	}
	maxKeys := vk.Pick(60, 2000)
	if gen.Chance(t, 2, 3, "small") {
		maxKeys = 20
	}
	keys := gen.Keys(t, maxKeys, "keys")
	if len(keys) == 0 {
		keys = []string{string(gen.Bytes(t, 0, 4, "only"))}
	}
	n := len(keys)
	var ms int
	switch gen.Uniform(t, 8, "msclass") {
	case 0:
		ms = 1
	case 1:
		ms = 2
	case 2:
		ms = 3
	case 3:
		ms = max(n-1, 1)
	case 4:
		ms = n
	case 5:
		ms = n + 3
		if gen.Chance(t, 1, 3, "extreme") { // "no limit": the largest values an int32 holds
			ms = math.MaxInt32 - gen.Uniform(t, 4*n+8, "below-max")
		}
	default:
		ms = 1 + gen.Uniform(t, n, "ms")
	}
	return Case{Keys: vk.HexStrings(keys), MaxSize: int32(ms), Class: "prefix-tree"}
}

func TestRegress(t *testing.T) { checker.Regress(t) }

func TestProp(t *testing.T) { checker.Prop(t, genCase) }

func FuzzProp(f *testing.F) {
	vk.SetPhase("fuzz")
	f.Add([]byte("a\xfea\x00\xfea\x00\x00\xfeab"), uint8(2))
	f.Add([]byte("abcdefgh\xfeabcdefghi\xfeabcdefghijklmnopq\xfeabcdefghijklmnopr\xfeb"), uint8(1))
	f.Fuzz(func(t *testing.T, data []byte, ms uint8) {
		if len(data) > 600 {
			return
		}
		set := map[string]struct{}{}
		cur := []byte{}
		for _, b := range data {
			if b == 0xfe {
				set[string(cur)] = struct{}{}
				cur = cur[:0]
				continue
			}
			cur = append(cur, b)
		}
		set[string(cur)] = struct{}{}
		keys := make([]string, 0, len(set))
		for k := range set {
			keys = append(keys, k)
		}
		sort.Strings(keys)
		checker.Run(t, Case{Keys: vk.HexStrings(keys), MaxSize: int32(ms%40) + 1, Class: "fuzz"})
	})
}

var pool = []string{"", "a", "a\x00", "a\x00\x00", "ab", "ab\x00", "abcdefgh", "abcdefgh\x00", "abcdefghi", "abcdefgi", "abcdefghijklmnopq", "abcdefghijklmnopr", "b", "\x80"}

func TestGrid(t *testing.T) {
	vk.SetPhase("grid")
	p := append([]string(nil), pool...)
	sort.Strings(p)
	n := len(p)
	for sub := 1; sub < 1<<uint(n); sub++ {
		var keys []string
		for i := 0; i < n; i++ {
			if sub>>uint(i)&1 == 1 {
				keys = append(keys, p[i])
			}
		}
		if len(keys) > 6 {
			continue
		}
		for ms := int32(1); ms <= 7; ms++ {
			checker.Run(t, Case{Keys: vk.HexStrings(keys), MaxSize: ms, Class: "grid"})
		}
	}
	// maximum fan-out: a key that is the common prefix of its successors followed by all 256 next
	// bytes (257 sub-ranges in one split), alone and nested under other keys
	for _, pre := range []string{"", "c", "t/"} {
		var keys []string
		if pre != "" {
			keys = append(keys, "a", "b\x00")
		}
		keys = append(keys, pre)
		for b := 0; b < 256; b++ {
			k := pre + string([]byte{byte(b)})
			keys = append(keys, k)
			if b%64 == 7 {
				keys = append(keys, k+"x", k+"y")
			}
		}
		if pre != "" {
			keys = append(keys, "zz")
		}
		sort.Strings(keys)
		for _, ms := range []int32{1, 2, 100, 255, 256, 257, 300} {
			checker.Run(t, Case{Keys: vk.HexStrings(keys), MaxSize: ms, Class: "grid-full-fan-out"})
		}
	}
	// maxSize at the top of int32 ("no limit") on small key lists
	for n := 1; n <= 9; n++ {
		keys := make([]string, n)
		for i := range keys {
			keys[i] = string([]byte{'k', byte('a' + i/3), byte('a' + i%3)})
		}
		for d := int32(0); d <= 20; d++ {
			checker.Run(t, Case{Keys: vk.HexStrings(keys), MaxSize: math.MaxInt32 - d, Class: "grid-maxsize-extreme"})
		}
	}
	for _, n := range []int{1<<18 + 7, 70001} { // very large key sets (size thresholds)
		for _, ms := range []int32{1, 50, 5000, int32(n)} {
			checker.Run(t, Case{BigN: n, MaxSize: ms, Class: "very-large-key-set"})
		}
	}
	vk.ProcsSweep(func() { // everything in one shard, under every scheduler width
		checker.Run(t, Case{BigN: 70001, MaxSize: math.MaxInt32 - 3, Class: "very-large-key-set"})
	})
	sizeSweeps(t)
	vk.MarkExhaustive("all subsets of size 1..6 of a 14-key pool x maxSize 1..7")
}

// between returns a value in (2^k, 2^(k+1)) that is a pure function of (k, i).
func between(k, i int) int {
	return 1<<uint(k) + 1 + int(vk.Mix(uint64(k)*977+uint64(i))%uint64(1<<uint(k)-1))
}

// sizeSweeps: deterministic sweeps over the three size-like quantities of a key list - nesting depth,
// length of the common prefix, number of keys - at 2^k-1, 2^k, 2^k+1 and two more values in every octave,
// with content that makes the size matter (the deep prefix is shared, ranges deep down are still larger than
// maxSize, one shard spans the whole list).
func sizeSweeps(t *testing.T) {
	// nesting depth of the recursive split
	for k := 1; k <= vk.Pick(10, 12); k++ {
		for i, d := range []int{1<<uint(k) - 1, 1 << uint(k), 1<<uint(k) + 1, between(k, 0), between(k, 1)} {
			if d < 2 || (vk.ProcsVaried() && d > 130) { // (the GOMAXPROCS process meets long lists in the list-size sweep)
				continue
			}
			pure := Spec{N: d, Seed: uint64(d), Shape: shapeChain, Self: 8, Ext: 1, Fan: 2} // k, kk, kkk, ...
			for _, ms := range []int{1, 2, 3, d / 2, d - 1} {
				checker.Run(t, Case{Spec: &pure, MaxSize: int32(max(ms, 1)), Class: "grid-depth"})
			}
			comb := Spec{N: d, Seed: uint64(d) + 77, Shape: shapeChain, Self: i % 3 * 3, Ext: 1 + i%3*4, Root: i * 5, Fan: 4}
			for _, ms := range []int{1, 2, 1 + d/3} {
				checker.Run(t, Case{Spec: &comb, MaxSize: int32(ms), Class: "grid-depth"})
			}
		}
	}
	// length of the prefix shared by all keys (the first difference lies right behind it)
	for k := 3; k <= vk.Pick(16, 20) && !vk.ProcsVaried(); k++ {
		for i, r := range []int{1<<uint(k) - 1, 1 << uint(k), 1<<uint(k) + 1, between(k, 2)} {
			for _, n := range []int{1, 2, 7} {
				sp := Spec{N: n, Seed: uint64(r)*8 + uint64(n), Shape: shapeBalanced, Root: r, Ext: 1 + (i+n)%3*8, Self: (i + n) % 2 * 4, Fan: 3}
				for _, ms := range []int{1, 2, n} {
					checker.Run(t, Case{Spec: &sp, MaxSize: int32(ms), Class: "grid-long-prefix"})
				}
			}
		}
	}
	// number of keys, with deep prefixes (size thresholds; work split over GOMAXPROCS goroutines)
	j := 0
	for k := 4; k <= vk.Pick(13, 16); k++ {
		for i, n := range []int{1<<uint(k) - 1, 1 << uint(k), 1<<uint(k) + 1, between(k, 3), between(k, 4)} {
			if !vk.Thorough() && n > 11000 { // quick: 8191, 8192, 8193 and at most one more size above 2^13
				continue
			}
			j++
			sp := Spec{N: n, Seed: uint64(n) * 31, Shape: 1 + j%3, Root: []int{1, 0, 11, 70, 3}[(i+k)%5], Ext: []int{1, 3, 9, 17}[j%4], Self: j % 5, Fan: []int{256, 7, 40}[j%3]}
			root := int(math.Sqrt(float64(n)))
			vk.ProcsSweep(func() {
				for _, ms := range []int{n, math.MaxInt32 - j, root} {
					checker.Run(t, Case{Spec: &sp, MaxSize: int32(ms), Class: "grid-list-size"})
				}
			})
			for _, ms := range []int{1, 2, n - 1, n + 1, n / 2, 3 * root} {
				checker.Run(t, Case{Spec: &sp, MaxSize: int32(ms), Class: "grid-list-size"})
			}
		}
	}
	// maxSize above 2^15 / 2^16 with ranges that are still too large several levels down
	for _, n := range []int{70001, vk.Pick(0, 1<<18+5)} {
		if n == 0 {
			continue
		}
		sp := Spec{N: n, Seed: 4, Shape: shapeSkewed, Root: 2, Ext: 3, Self: 2, Fan: 256}
		for _, ms := range []int{1<<15 - 1, 1 << 15, 40000, 1<<16 - 1, 1 << 16, n - 1, n} {
			if ms <= n {
				checker.Run(t, Case{Spec: &sp, MaxSize: int32(ms), Class: "grid-large-maxsize"})
			}
		}
	}
}

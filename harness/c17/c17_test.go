// Package c17 decides property C17: ShardByPrefix yields bounded contiguous
// shards with ordered, unique, longest-common prefixes (validity predicate).
package c17

import (
	"fmt"
	"math"
	"sort"
	"testing"

	"github.com/openacid/low/sigbits"
	"pgregory.net/rapid"

	"verif/harness/gen"
	"verif/harness/vk"
)

func TestMain(m *testing.M) { vk.Main(m, "C17") }

type Case struct {
	BigN    int      `json:"big_n,omitempty"` // > 0: a very large generated key set (see bigKeys) instead of Keys
	Keys    []vk.Hex `json:"keys"`
	MaxSize int32    `json:"max_size"`
	Class   string   `json:"class,omitempty"`
}

var checker = &vk.Checker[Case]{
	ID: "C17",
	Rule: "strictly ascending key lists from a random prefix tree (1..60 keys, thorough up to 2000): deep nested prefixes, a key equal to the common prefix of its successors, single key, keys differing in byte 0, NUL and >= 0x80 bytes, empty key; maxSize in {1,2,3,...,n-1,n,n+3}. " +
		"Validity predicate (many outputs may be right): len(B)==len(L)+1, B[0]==0, B strictly increasing, B[k]==n, every shard <= maxSize keys, L[j] == byte length of the longest common prefix of the shard computed naively over all its keys (key length for a single key), shard prefixes strictly ascending. Nothing else about where the cuts are is demanded. " +
		"Grid: all subsets of size 1..6 of a 14-key pool x maxSize 1..7; two very large generated key sets (70 001 and 2^18+7 keys) x maxSize {1,50,5000}. Non-trivial: n > maxSize and adjacent keys share common prefixes of >= 2 distinct byte lengths (nested splitting is needed). Distinct by hash of the case.",
	Check:    check,
	Classify: classify,
	Risky:    func(Case) bool { return true }, // the recursive split can overflow the stack: keep the running case on disk
}

func lcpBytes(keys []string) int {
	l := len(keys[0])
	for _, k := range keys[1:] {
		n := 0
		for n < l && n < len(k) && k[n] == keys[0][n] {
			n++
		}
		l = n
	}
	return l
}

// bigKeys: n strictly ascending keys with nested shared prefixes (groups of 4096, 64 and single keys).
func bigKeys(n int) []string {
	keys := make([]string, n)
	for i := range keys {
		k := []byte{'g', byte(i >> 20), byte(i >> 12), '/', byte(i >> 6 & 63), '/', byte(i & 63)}
		if i%9 == 4 {
			k = append(k, 0, 0)
		}
		keys[i] = string(k)
	}
	return keys
}

func (c Case) keyStrings() []string {
	if c.BigN > 0 {
		return bigKeys(c.BigN)
	}
	return vk.Strings(c.Keys)
}

var scratch vk.Scratch

func check(c Case) *vk.Failure {
	keys := c.keyStrings()
	orig := c.keyStrings()
	reused := c.BigN == 0 && scratch.Reuse(vk.SumStrings(orig)+uint64(c.MaxSize))
	if reused {
		keys = scratch.Strings(orig) // every other case: the same backing array as earlier calls, other keys
	}
	n := len(keys)
	var L, B []int32
	if f := vk.TryF(func() string {
		if c.BigN > 0 {
			return fmt.Sprintf("ShardByPrefix(%d generated keys, %d)", n, c.MaxSize)
		}
		return fmt.Sprintf("ShardByPrefix(%d keys %x, %d)", n, keys, c.MaxSize)
	}, func() { L, B = sigbits.ShardByPrefix(keys, c.MaxSize) }); f != nil {
		return f
	}
	desc := func() string {
		if c.BigN > 0 {
			return fmt.Sprintf("ShardByPrefix(%d generated keys, maxSize=%d) -> %d shards", c.BigN, c.MaxSize, len(L))
		}
		return fmt.Sprintf("ShardByPrefix(keys=%x, maxSize=%d) = L%v B%v", orig, c.MaxSize, L, B)
	}
	if len(B) != len(L)+1 {
		return vk.Failf("shape", "%s: len(B) = %d, len(L) = %d", desc(), len(B), len(L))
	}
	if len(L) == 0 {
		return vk.Failf("shape", "%s: no shard for a non-empty key list", desc())
	}
	if B[0] != 0 || int(B[len(B)-1]) != n {
		return vk.Failf("boundaries", "%s: boundaries must run from 0 to %d", desc(), n)
	}
	for j := 0; j+1 < len(B); j++ {
		if B[j] >= B[j+1] {
			return vk.Failf("boundaries", "%s: boundaries not strictly increasing at %d", desc(), j)
		}
		if B[j] < 0 || int(B[j+1]) > n {
			return vk.Failf("boundaries", "%s: boundary out of range", desc())
		}
		if B[j+1]-B[j] > c.MaxSize {
			return vk.Failf("shard-size", "%s: shard %d holds %d keys > maxSize", desc(), j, B[j+1]-B[j])
		}
	}
	prev := ""
	for j := range L {
		shard := orig[B[j]:B[j+1]]
		want := lcpBytes(shard)
		if int(L[j]) != want {
			return vk.Failf("prefix-length", "%s: L[%d] = %d but the longest common prefix of shard %x has %d bytes", desc(), j, L[j], shard, want)
		}
		p := shard[0][:want]
		if j > 0 && !(prev < p) {
			return vk.Failf("prefix-order", "%s: shard prefixes %x, %x (shards %d,%d) are not strictly ascending", desc(), prev, p, j-1, j)
		}
		prev = p
	}
	for i := range keys {
		if keys[i] != orig[i] {
			return vk.Failf("mutates", "key %d changed", i)
		}
	}
	if reused {
		if msg := scratch.Check(); msg != "" {
			return vk.Failf("argument-spare-capacity-written", "%s", msg)
		}
	}
	return nil
}

func classify(c Case) (bool, []string) {
	if c.BigN > 0 {
		return true, []string{"class:very-large-key-set"}
	}
	keys := vk.Strings(c.Keys)
	n := len(keys)
	labels := []string{}
	if c.Class != "" {
		labels = append(labels, "class:"+c.Class)
	}
	switch {
	case c.MaxSize == 1:
		labels = append(labels, "maxSize:1")
	case int(c.MaxSize) >= n:
		labels = append(labels, "maxSize:>=n")
	default:
		labels = append(labels, "maxSize:2..n-1")
	}
	if n == 1 {
		labels = append(labels, "single-key")
	}
	// decided from the input alone (the classifier never calls the code under test):
	// adjacent keys share common prefixes of at least two different byte lengths,
	// so a split at the shortest one leaves groups that need their own prefix.
	distinct := map[int]bool{}
	for i := 0; i+1 < n; i++ {
		distinct[lcpBytes(keys[i:i+2])] = true
	}
	if len(distinct) >= 2 {
		labels = append(labels, "nested-prefix-lengths")
	}
	return n > int(c.MaxSize) && len(distinct) >= 2, labels
}

func genCase(t *rapid.T) Case {
	maxKeys := vk.Pick(60, 2000)
	if gen.Chance(t, 2, 3, "small") {
		maxKeys = 20
	}
	keys := gen.Keys(t, maxKeys, "keys")
	if len(keys) == 0 {
		keys = []string{string(gen.Bytes(t, 0, 4, "only"))}
	}
	n := len(keys)
	var ms int
	switch gen.Uniform(t, 8, "msclass") {
	case 0:
		ms = 1
	case 1:
		ms = 2
	case 2:
		ms = 3
	case 3:
		ms = max(n-1, 1)
	case 4:
		ms = n
	case 5:
		ms = n + 3
		if gen.Chance(t, 1, 3, "extreme") { // "no limit": the largest values an int32 holds
			ms = math.MaxInt32 - gen.Uniform(t, 4*n+8, "below-max")
		}
	default:
		ms = 1 + gen.Uniform(t, n, "ms")
	}
	return Case{Keys: vk.HexStrings(keys), MaxSize: int32(ms), Class: "prefix-tree"}
}

func TestRegress(t *testing.T) { checker.Regress(t) }

func TestProp(t *testing.T) { checker.Prop(t, genCase) }

func FuzzProp(f *testing.F) {
	vk.SetPhase("fuzz")
	f.Add([]byte("a\xfea\x00\xfea\x00\x00\xfeab"), uint8(2))
	f.Add([]byte("abcdefgh\xfeabcdefghi\xfeabcdefghijklmnopq\xfeabcdefghijklmnopr\xfeb"), uint8(1))
	f.Fuzz(func(t *testing.T, data []byte, ms uint8) {
		if len(data) > 600 {
			return
		}
		set := map[string]struct{}{}
		cur := []byte{}
		for _, b := range data {
			if b == 0xfe {
				set[string(cur)] = struct{}{}
				cur = cur[:0]
				continue
			}
			cur = append(cur, b)
		}
		set[string(cur)] = struct{}{}
		keys := make([]string, 0, len(set))
		for k := range set {
			keys = append(keys, k)
		}
		sort.Strings(keys)
		checker.Run(t, Case{Keys: vk.HexStrings(keys), MaxSize: int32(ms%40) + 1, Class: "fuzz"})
	})
}

var pool = []string{"", "a", "a\x00", "a\x00\x00", "ab", "ab\x00", "abcdefgh", "abcdefgh\x00", "abcdefghi", "abcdefgi", "abcdefghijklmnopq", "abcdefghijklmnopr", "b", "\x80"}

func TestGrid(t *testing.T) {
	vk.SetPhase("grid")
	p := append([]string(nil), pool...)
	sort.Strings(p)
	n := len(p)
	for sub := 1; sub < 1<<uint(n); sub++ {
		var keys []string
		for i := 0; i < n; i++ {
			if sub>>uint(i)&1 == 1 {
				keys = append(keys, p[i])
			}
		}
		if len(keys) > 6 {
			continue
		}
		for ms := int32(1); ms <= 7; ms++ {
			checker.Run(t, Case{Keys: vk.HexStrings(keys), MaxSize: ms, Class: "grid"})
		}
	}
	// maximum fan-out: a key that is the common prefix of its successors followed by all 256 next
	// bytes (257 sub-ranges in one split), alone and nested under other keys
	for _, pre := range []string{"", "c", "t/"} {
		var keys []string
		if pre != "" {
			keys = append(keys, "a", "b\x00")
		}
		keys = append(keys, pre)
		for b := 0; b < 256; b++ {
			k := pre + string([]byte{byte(b)})
			keys = append(keys, k)
			if b%64 == 7 {
				keys = append(keys, k+"x", k+"y")
			}
		}
		if pre != "" {
			keys = append(keys, "zz")
		}
		sort.Strings(keys)
		for _, ms := range []int32{1, 2, 100, 255, 256, 257, 300} {
			checker.Run(t, Case{Keys: vk.HexStrings(keys), MaxSize: ms, Class: "grid-full-fan-out"})
		}
	}
	// maxSize at the top of int32 ("no limit") on small key lists
	for n := 1; n <= 9; n++ {
		keys := make([]string, n)
		for i := range keys {
			keys[i] = string([]byte{'k', byte('a' + i/3), byte('a' + i%3)})
		}
		for d := int32(0); d <= 20; d++ {
			checker.Run(t, Case{Keys: vk.HexStrings(keys), MaxSize: math.MaxInt32 - d, Class: "grid-maxsize-extreme"})
		}
	}
	for _, n := range []int{1<<18 + 7, 70001} { // very large key sets (size thresholds)
		for _, ms := range []int32{1, 50, 5000} {
			checker.Run(t, Case{BigN: n, MaxSize: ms, Class: "very-large-key-set"})
		}
	}
	vk.MarkExhaustive("all subsets of size 1..6 of a 14-key pool x maxSize 1..7")
}

package c17

import (
	"fmt"
	"math/bits"

	"pgregory.net/rapid"

	"verif/harness/gen"
	"verif/harness/vk"
)

// Spec describes a generated strictly ascending key list by its parameters: the case file carries
// these few numbers instead of the keys, so lists of many thousand keys, nesting hundreds of levels
// deep or sharing tens of thousands of leading bytes stay cheap to record, to shrink and to replay.
// keys() is a pure function of the Spec (its own small PRNG, no map iteration, no library code).
//
// The list is the in-order walk of a prefix tree: build(prefix, n) emits n keys that all start with
// prefix - optionally prefix itself (a key equal to the common prefix of its successors), then the
// keys of c children whose first bytes are distinct and ascending. How n is handed to the children
// is the Shape.
type Spec struct {
	N     int    `json:"n"`              // number of keys
	Seed  uint64 `json:"seed"`           // content
	Shape int    `json:"shape"`          // shapeChain ... shapeFlat
	Root  int    `json:"root,omitempty"` // bytes shared by ALL keys
	Ext   int    `json:"ext,omitempty"`  // longest extension of a child beyond its parent (>= 1)
	Self  int    `json:"self,omitempty"` // an inner node is itself a key with probability Self/8
	Fan   int    `json:"fan,omitempty"`  // most children of a node (2..256)
}

const (
	shapeChain    = iota // one child takes all keys but a few single-key siblings: nesting depth ~ N
	shapeSkewed          // one child takes 1/2..7/8 of the keys: depth ~ log N, sub-ranges of every size
	shapeBalanced        // 2..Fan children of about equal size
	shapeFlat            // as many children as possible (up to Fan): splits with hundreds of sub-ranges
	nShapes
)

var shapeNames = [nShapes]string{"chain", "skewed", "balanced", "flat"}

var all256 = func() (a [256]byte) {
	for i := range a {
		a[i] = byte(i)
	}
	return
}()

type rng struct{ s uint64 }

func (r *rng) u64() uint64 {
	r.s += 0x9e3779b97f4a7c15
	z := r.s
	z = (z ^ (z >> 30)) * 0xbf58476d1ce4e5b9
	z = (z ^ (z >> 27)) * 0x94d049bb133111eb
	return z ^ (z >> 31)
}

func (r *rng) n(n int) int { return int(r.u64() % uint64(n)) }

var specAlpha = [8]byte{0x00, 0xff, 'a', 0x00, 0x80, 0x7f, 0x01, 'b'}

func (r *rng) byte() byte {
	x := r.u64()
	if x&3 == 0 {
		return specAlpha[x>>2&7]
	}
	return byte(x >> 8)
}

func (s Spec) norm() Spec {
	s.N = max(s.N, 1)
	s.Root = max(s.Root, 0)
	s.Ext = max(s.Ext, 1)
	s.Self = min(max(s.Self, 0), 8)
	s.Fan = min(max(s.Fan, 2), 256)
	if s.Shape < 0 || s.Shape >= nShapes {
		s.Shape = shapeBalanced
	}
	return s
}

// walk calls emit once per key, in ascending order (the slice is only valid during the call).
func (s Spec) walk(emit func(k []byte)) {
	s = s.norm()
	r := &rng{s.Seed}
	buf := make([]byte, 0, s.Root+64)
	style := r.n(3)
	for i := 0; i < s.Root; i++ {
		switch style {
		case 0:
			buf = append(buf, r.byte())
		case 1:
			buf = append(buf, 'r')
		default:
			buf = append(buf, specAlpha[r.n(4)])
		}
	}
	var mark [256]bool
	var rec func(plen, n int)
	rec = func(plen, n int) {
		if n == 1 {
			emit(buf[:plen])
			return
		}
		self := r.n(8) < s.Self
		if self {
			emit(buf[:plen])
			n--
		}
		minC := 2
		if self {
			minC = 1
		}
		maxC := min(n, s.Fan)
		var c int
		switch s.Shape {
		case shapeChain:
			c = minC
			if r.n(2) == 0 {
				c += r.n(3)
			}
		case shapeSkewed:
			c = 2 + r.n(3)
		case shapeBalanced:
			c = 2 + r.n(s.Fan-1)
		default:
			c = maxC
		}
		c = min(max(c, minC), maxC)
		// sizes of the children (computed on the fly, in order)
		heavy, h, off := 0, -1, 0
		switch s.Shape {
		case shapeChain, shapeSkewed:
			heavy = n - (c - 1)
			if s.Shape == shapeSkewed {
				heavy = min(max(n*(4+r.n(4))/8, 1), heavy)
			}
			h = r.n(c)
		default:
			off = r.n(c)
		}
		rest, left := n-heavy, c-1
		sizeOf := func(i int) int {
			if h < 0 {
				sz := n / c
				if (i+off)%c < n%c {
					sz++
				}
				return sz
			}
			if i == h {
				return heavy
			}
			sz := rest / left
			if left == 1 {
				sz = rest
			}
			rest -= sz
			left--
			return sz
		}
		// first bytes of the children: distinct, ascending; 0x00 and 0xff favoured
		var small [8]byte
		firsts := small[:0]
		switch {
		case c >= 256:
			firsts = all256[:]
		default:
			picked := 0
			for picked < c {
				var b byte
				switch x := r.u64(); {
				case picked == 0 && x&3 == 0:
					b = 0x00
				case picked == 1 && x&7 == 0:
					b = 0xff
				default:
					b = byte(x >> 8)
				}
				if !mark[b] {
					mark[b] = true
					picked++
					if c <= len(small) { // insertion sort
						firsts = append(firsts, b)
						for q := len(firsts) - 1; q > 0 && firsts[q-1] > firsts[q]; q-- {
							firsts[q-1], firsts[q] = firsts[q], firsts[q-1]
						}
					}
				}
			}
			if c <= len(small) {
				for _, b := range firsts {
					mark[b] = false
				}
			} else {
				firsts = make([]byte, 0, c)
				for b := 0; b < 256; b++ {
					if mark[b] {
						mark[b] = false
						firsts = append(firsts, byte(b))
					}
				}
			}
		}
		for i := 0; i < c; i++ {
			buf = append(buf[:plen], firsts[i])
			extra := 0
			if s.Ext > 1 {
				switch r.n(6) {
				case 0, 1:
				case 2:
					extra = r.n(3)
				case 3: // across the first 8-byte word of a comparison
					extra = 6 + r.n(3)
				case 4: // across the second one
					extra = 14 + r.n(3)
				default:
					extra = r.n(s.Ext)
				}
				extra = min(extra, s.Ext-1)
			}
			for j := 0; j < extra; j++ {
				buf = append(buf, r.byte())
			}
			rec(len(buf), sizeOf(i))
		}
	}
	rec(s.Root, s.N)
}

func (s Spec) keys() []string {
	out := make([]string, 0, max(s.N, 1))
	s.walk(func(k []byte) { out = append(out, string(k)) })
	return out
}

// totalBytes is the summed length of all keys (the cost of a case).
func (s Spec) totalBytes() int {
	t := 0
	s.walk(func(k []byte) { t += len(k) })
	return t
}

// fit shrinks Root, then N, until the list has at most budget bytes.
func (s Spec) fit(budget int) Spec {
	s = s.norm()
	if s.Shape == shapeChain { // quadratic in N: bound it before the first walk
		for s.N > 8 && s.N*s.N/2 > 4*budget {
			s.N = s.N * 3 / 4
		}
	}
	depth := 2 * bits.Len(uint(s.N)) // rough nesting depth
	if s.Shape == shapeChain {
		depth = s.N / 2
	}
	if s.N*(s.Root+depth*(1+s.Ext/2)) <= budget/2 {
		return s // clearly small: no need to measure
	}
	for i := 0; i < 64; i++ {
		t := s.totalBytes()
		if t <= budget {
			break
		}
		if r := s.Root * s.N; r > t/2 && s.Root > 0 {
			s.Root = s.Root / 2
		} else if s.N > 1 {
			s.N = s.N * 3 / 4
		} else {
			s.Root = s.Root / 2
		}
	}
	return s
}

var lastSpec Spec
var lastSpecKeys []string

// specKeys caches the most recent list (classify and check both need it; strings are immutable).
func specKeys(s Spec) []string {
	if lastSpecKeys == nil || lastSpec != s {
		lastSpec, lastSpecKeys = s, s.keys()
		// the quantifier's domain, verified on every generated list: exactly N keys, strictly ascending
		// (a generator mistake must never be reported as a violation of the library)
		ok := len(lastSpecKeys) == s.norm().N
		for i := 0; ok && i+1 < len(lastSpecKeys); i++ {
			ok = lastSpecKeys[i] < lastSpecKeys[i+1]
		}
		if !ok {
			vk.Infra(fmt.Sprintf("c17: spec %+v does not expand to %d strictly ascending keys", s, s.N))
			lastSpecKeys = []string{"generator-error"}
		}
	}
	return lastSpecKeys
}

// octave names the power-of-two interval of v ("0", "1", "2..3", "4..7", ...).
func octave(v int) string {
	if v <= 1 {
		return fmt.Sprint(max(v, 0))
	}
	b := bits.Len(uint(v))
	return fmt.Sprintf("2^%d..2^%d-1", b-1, b)
}

// logUniform draws from [lo,hi] (lo >= 0) with every octave about equally likely, and inside the
// octave either uniformly or right at its ends (2^k-1, 2^k, 2^k+1): no size between the small
// exhaustive region and the largest inputs is left out.
func logUniform(t *rapid.T, lo, hi int, label string) int {
	if hi <= lo {
		return lo
	}
	bl, bh := bits.Len(uint(lo)), bits.Len(uint(hi))
	b := bl + gen.Uniform(t, bh-bl+1, label+".oct")
	a, z := 0, 0
	if b > 0 {
		a, z = 1<<uint(b-1), 1<<uint(b)-1
	}
	a, z = max(a, lo), min(z, hi)
	if gen.Chance(t, 1, 4, label+".edge") {
		v := []int{a - 1, a, a + 1, z}[gen.Uniform(t, 4, label+".which")]
		return min(max(v, lo), hi)
	}
	return a + gen.Uniform(t, z-a+1, label)
}

// genSpecCase: the three families the prefix-tree generator cannot reach.
func genSpecCase(t *rapid.T) Case {
	s := Spec{Seed: gen.U64(t, "spec.seed"), Self: gen.Uniform(t, 9, "spec.self"), Fan: 256}
	budget := vk.Pick(600<<10, 4<<20)
	class := ""
	switch gen.Uniform(t, 8, "spec.family") {
	case 0, 1: // nesting depth: the split recurses once per level
		class = "spec-deep-chain"
		s.Shape = shapeChain
		s.N = logUniform(t, 2, vk.Pick(900, 3000), "spec.n")
		s.Ext = []int{1, 1, 2, 3, 9}[gen.Uniform(t, 5, "spec.ext")]
		s.Root = logUniform(t, 0, 40, "spec.root")
		if gen.Chance(t, 1, 3, "spec.pure") { // a, aa, aaa, ...: every key is the prefix of all later ones
			s.Self = 8
		}
	case 2, 3: // very long common prefixes, few keys
		class = "spec-long-root"
		s.Shape = gen.Uniform(t, nShapes, "spec.shape")
		s.N = logUniform(t, 1, 40, "spec.n")
		s.Root = logUniform(t, 1, vk.Pick(70000, 1<<20), "spec.root")
		s.Ext = []int{1, 3, 9, 17, 40}[gen.Uniform(t, 5, "spec.ext")]
	default: // long lists (size thresholds, work split over CPUs) with deep prefixes
		class = "spec-long-list"
		s.Shape = 1 + gen.Uniform(t, nShapes-1, "spec.shape")
		s.N = logUniform(t, 16, vk.Pick(12000, 150000), "spec.n")
		s.Root = logUniform(t, 0, 600, "spec.root")
		s.Ext = []int{1, 3, 9, 17, 24}[gen.Uniform(t, 5, "spec.ext")]
		if s.Shape == shapeBalanced {
			s.Fan = logUniform(t, 2, 256, "spec.fan")
		}
	}
	s = s.fit(budget)
	n := s.N
	var ms int
	switch gen.Uniform(t, 10, "spec.msclass") {
	case 0:
		ms = 1
	case 1:
		ms = 2 + gen.Uniform(t, 2, "spec.ms23")
	case 2:
		ms = max(n-1, 1)
	case 3, 4:
		ms = n
	case 5:
		ms = n + 1 + gen.Uniform(t, n+3, "spec.above")
		if gen.Chance(t, 1, 3, "spec.extreme") {
			ms = maxInt32 - gen.Uniform(t, 4*n+8, "spec.below-max")
		}
	case 6, 7: // every magnitude between 1 and n
		ms = logUniform(t, 1, n, "spec.mslog")
	default:
		ms = 1 + gen.Uniform(t, n, "spec.ms")
	}
	return Case{Spec: &s, MaxSize: int32(min(ms, maxInt32)), Class: class}
}

const maxInt32 = 1<<31 - 1

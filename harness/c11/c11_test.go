// Package c11 decides property C11: FromStr32 / PathOf / PathsOf extract
// exactly the requested bits of a string.
package c11

import (
	"fmt"
	"math"
	"testing"

	"github.com/openacid/low/bitmap"
	"github.com/openacid/low/bmtree"
	"pgregory.net/rapid"

	"verif/harness/gen"
	"verif/harness/model"
	"verif/harness/vk"
)

// keep registers a returned result for later re-validation (set in init: the checker refers to check).
var keep func(func() string)

func init() { keep = checker.Keep }

func TestMain(m *testing.M) { vk.Main(m, "C11") }

type Case struct {
	Op    string   `json:"op"`            // fromstr32 (also checks PathOf) | pathsof | maxstr
	Cut   int      `json:"cut,omitempty"` // maxstr: the string is the maximum string (2^28 bytes, gen.MaxString) without its last Cut bytes
	S     vk.Hex   `json:"s,omitempty"`
	From  int32    `json:"from"`
	W     int      `json:"w"`
	Keys  []vk.Hex `json:"keys,omitempty"`
	Dedup bool     `json:"dedup,omitempty"`
	Class string   `json:"class,omitempty"`
}

var checker = &vk.Checker[Case]{
	ID: "C11",
	Rule: "byte strings over the full alphabet (00/01/7f/80/ff boosted, length 0..12, thorough 0..64) x start bit (inside at every alignment, exactly at the end, just beyond, far beyond up to 2^31-1-32) x width 0..32; FromStr32 and PathOf (height = width) against bit-by-bit extraction, PathStr(PathOf) against the bits as text; " +
		"PathsOf on key lists with adjacent and non-adjacent repeats, dedup on/off, against an own map+drop-equal-to-predecessor loop (including the all-ones window at height 32). Grid: every (start bit mod 8, width, bytes remaining 0..6) x 2 leads x 24 fixed contents. " +
		"Non-trivial: the span touches >= 2 bytes and (start not byte aligned or the string ends inside the span); PathsOf: >= 2 keys with dedup and at least one dropped or an all-ones path. Distinct by hash of the case.",
	Check:    check,
	Classify: classify,
}

// extract is the oracle: k bits available, value with those bits on top of a w-bit field.
func extract(s string, from int32, w int) (int, uint64) {
	avail := int64(8*len(s)) - int64(from)
	k := int64(w)
	if avail < k {
		k = avail
	}
	if k < 0 {
		k = 0
	}
	v := uint64(0)
	for j := 0; j < int(k); j++ {
		if model.StrBit(s, int(from)+j) == 1 {
			v |= 1 << uint(w-1-j)
		}
	}
	return int(k), v
}

func wantPath(s string, from int32, h int) (uint64, string) {
	k, v := extract(s, from, h)
	prefix := v >> uint(h-k)
	txt := make([]byte, k)
	for j := 0; j < k; j++ {
		txt[j] = byte('0' + model.StrBit(s, int(from)+j))
	}
	return model.PathWord(prefix, k, h), string(txt)
}

func checkOne(s string, from int32, w int) *vk.Failure {
	k, v := extract(s, from, w)
	var gk int32
	var gv uint64
	if int64(from)+int64(w) <= math.MaxInt32 { // FromStr32 takes the end bit: only callable when it fits an int32
		if f := vk.Try(fmt.Sprintf("FromStr32(%x, %d, %d)", s, from, int64(from)+int64(w)), func() { gk, gv = bitmap.FromStr32(s, from, from+int32(w)) }); f != nil {
			return f
		}
		if int(gk) != k || gv != v {
			return vk.Failf("fromstr32", "FromStr32(s=%x, from=%d, to=%d) = (%d, %#x), want (%d, %#x)", s, from, from+int32(w), gk, gv, k, v)
		}
	}
	wp, wtxt := wantPath(s, from, w)
	var gp uint64
	var gtxt string
	if f := vk.Try(fmt.Sprintf("PathOf(%x, %d, %d)", s, from, w), func() {
		gp = bmtree.PathOf(s, from, int32(w))
		gtxt = bmtree.PathStr(gp)
	}); f != nil {
		return f
	}
	if gp != wp {
		return vk.Failf("pathof", "PathOf(s=%x, from=%d, h=%d) = %#x, want %#x", s, from, w, gp, wp)
	}
	if gtxt != wtxt {
		return vk.Failf("pathof-str", "PathStr(PathOf(s=%x, from=%d, h=%d)) = %q, want %q", s, from, w, gtxt, wtxt)
	}
	return nil
}

var scratch vk.Scratch

func wantPathsOf(keys []string, from int32, h int, dedup bool) []uint64 {
	out := []uint64{}
	var prev uint64
	for i, k := range keys {
		p, _ := wantPath(k, from, h)
		if !(dedup && i > 0 && p == prev) {
			out = append(out, p)
		}
		prev = p
	}
	return out
}

// checkMaxStr: FromStr32 / PathOf / PathsOf on a string of 2^28 bytes (8*len = 2^31 does not fit an int32) or a few
// bytes less; the oracle works from the description of that string.
func checkMaxStr(from int32, w, cut int) *vk.Failure {
	if from < 0 || w < 0 || w > 32 || cut < 0 || cut > 64 {
		return nil
	}
	// from+w beyond MaxInt32 cannot be said to FromStr32 (it takes the end bit as an int32), but PathOf and PathsOf
	// take (start bit, height): "every string s, start bit from >= 0 and width w in [0,32]" includes the last bits of
	// a 2^28-byte string
	endFits := int64(from)+int64(w) <= math.MaxInt32
	s := gen.MaxString(cut)
	avail := int64(8*len(s)) - int64(from)
	k := min(max(avail, 0), int64(w))
	v, prefix := uint64(0), uint64(0)
	txt := make([]byte, k)
	for j := int64(0); j < k; j++ {
		b := gen.MaxStrBit(int64(from) + j)
		v |= b << uint(int64(w)-1-j)
		prefix = prefix<<1 | b
		txt[j] = byte('0' + b)
	}
	what := fmt.Sprintf("string of 2^28-%d bytes, from=%d, w=%d", cut, from, w)
	var gk int32
	var gv, gp uint64
	var gtxt string
	var gps []uint64
	if f := vk.Try("FromStr32/PathOf/PathsOf on a "+what, func() {
		if endFits {
			gk, gv = bitmap.FromStr32(s, from, from+int32(w))
		}
		gp = bmtree.PathOf(s, from, int32(w))
		gtxt = bmtree.PathStr(gp)
		gps = bmtree.PathsOf([]string{s, s, "A"}, from, int32(w), true)
	}); f != nil {
		return f
	}
	if endFits && (int64(gk) != k || gv != v) {
		return vk.Failf("fromstr32", "FromStr32(%s) = (%d, %#x), want (%d, %#x)", what, gk, gv, k, v)
	}
	wp := model.PathWord(prefix, int(k), w)
	if gp != wp || gtxt != string(txt) {
		return vk.Failf("pathof", "PathOf(%s) = %#x %q, want %#x %q", what, gp, gtxt, wp, txt)
	}
	wa, _ := wantPath("A", from, w)
	wantPs := []uint64{wp}
	if wa != wp {
		wantPs = append(wantPs, wa)
	}
	if fmt.Sprint(gps) != fmt.Sprint(wantPs) {
		return vk.Failf("pathsof", "PathsOf([s, s, \"A\"], dedup) with s a %s = %#x, want %#x", what, gps, wantPs)
	}
	if j, bad := gen.MaxStringDamage(); bad {
		return vk.Failf("mutates", "byte %d of the 2^28-byte string argument was modified", j)
	}
	return nil
}

func check(c Case) *vk.Failure {
	if c.Op == "maxstr" {
		return checkMaxStr(c.From, c.W, c.Cut)
	}
	if c.Op == "pathsof" {
		keys := vk.Strings(c.Keys)
		want := wantPathsOf(keys, c.From, c.W, c.Dedup)
		reused := len(keys) < 3000 && scratch.Reuse(vk.SumStrings(keys)+uint64(c.From)+uint64(c.W))
		if reused {
			keys = scratch.Strings(keys) // a reused []string (same address as earlier calls) with guarded spare capacity
		}
		var got []uint64
		if f := vk.Try("PathsOf", func() { got = bmtree.PathsOf(keys, c.From, int32(c.W), c.Dedup) }); f != nil {
			return f
		}
		if len(got) != len(want) {
			return vk.Failf("pathsof", "PathsOf(%d keys %x, from=%d, h=%d, dedup=%v) returned %d paths %#x, want %d paths %#x", len(keys), keys, c.From, c.W, c.Dedup, len(got), got, len(want), want)
		}
		for i := range got {
			if got[i] != want[i] {
				return vk.Failf("pathsof", "PathsOf(keys %x, from=%d, h=%d, dedup=%v)[%d] = %#x, want %#x", keys, c.From, c.W, c.Dedup, i, got[i], want[i])
			}
		}
		vk.ScribbleU64(got)
		{
			kept, expect, nk := got, want, len(keys)
			keep(func() string {
				for i := range expect {
					if kept[i] != expect[i] {
						return fmt.Sprintf("PathsOf(%d keys) returned %#x at position %d, which now reads %#x", nk, expect[i], i, kept[i])
					}
				}
				return ""
			})
		}
		for i, k := range keys {
			if string(c.Keys[i]) != k {
				return vk.Failf("pathsof-mutates", "key %d changed", i)
			}
		}
		if reused {
			if msg := scratch.Check(); msg != "" {
				return vk.Failf("argument-spare-capacity-written", "PathsOf: %s", msg)
			}
		}
		return nil
	}
	return checkOne(string(c.S), c.From, c.W)
}

func nontrivialOne(s string, from int32, w int) bool {
	if w == 0 {
		return false
	}
	firstByte := int64(from) / 8
	lastByte := (int64(from) + int64(w) - 1) / 8
	endsInside := int64(8*len(s)) > int64(from) && int64(8*len(s)) < int64(from)+int64(w)
	touches := lastByte - firstByte + 1
	if endsInside {
		touches = int64(len(s)) - firstByte
	}
	if int64(8*len(s)) <= int64(from) {
		return false
	}
	return touches >= 2 && (from&7 != 0 || endsInside)
}

func classify(c Case) (bool, []string) {
	if c.Op == "maxstr" {
		return true, []string{"op:maxstr", "maximum-string(2^28 bytes)"}
	}
	labels := []string{"op:" + c.Op, "class:" + c.Class}
	if c.Op == "pathsof" {
		keys := vk.Strings(c.Keys)
		want := wantPathsOf(keys, c.From, c.W, c.Dedup)
		dropped := len(want) < len(keys)
		allOnes := false
		for _, p := range want {
			if p == ^uint64(0) {
				allOnes = true
			}
		}
		if dropped {
			labels = append(labels, "dedup-dropped")
		}
		if allOnes {
			labels = append(labels, "all-ones-path")
		}
		return len(keys) >= 2 && c.Dedup && (dropped || allOnes), labels
	}
	s := string(c.S)
	switch {
	case int64(c.From) > int64(8*len(s)):
		labels = append(labels, "start:beyond-end")
	case int64(c.From) == int64(8*len(s)):
		labels = append(labels, "start:at-end")
	default:
		labels = append(labels, "start:inside")
	}
	if c.From&7 != 0 {
		labels = append(labels, "unaligned")
	}
	span := (int64(c.From)+int64(c.W)+7)/8 - int64(c.From)/8
	labels = append(labels, fmt.Sprintf("span-bytes:%d", span))
	return nontrivialOne(s, c.From, c.W), labels
}

func genOne(t *rapid.T) Case {
	maxLen := vk.Pick(12, 64)
	s := gen.Bytes(t, 0, maxLen, "s")
	w := gen.Uniform(t, 33, "w")
	if gen.Chance(t, 1, 4, "wboost") {
		w = rapid.SampledFrom([]int{0, 1, 7, 8, 9, 24, 25, 31, 32, 32}).Draw(t, "wb")
	}
	nbits := 8 * len(s)
	var from int64
	cl := ""
	switch gen.Uniform(t, 8, "fromclass") {
	case 0:
		from, cl = int64(nbits), "at-end"
	case 1:
		from, cl = int64(nbits)+1+int64(gen.Uniform(t, 40, "beyond")), "beyond"
	case 2:
		from, cl = int64(1)<<31-1-32-int64(gen.U64(t, "far")%1000), "far-beyond"
	case 3:
		from, cl = int64(max(nbits-1-gen.Uniform(t, 40, "neartail"), 0)), "near-end"
	default:
		if nbits > 0 {
			from = int64(gen.Uniform(t, nbits, "from"))
		}
		cl = "inside"
	}
	if from+int64(w) > 1<<31-1 {
		from = 1<<31 - 1 - int64(w)
	}
	if gen.Chance(t, 1, 25, "top") { // PathOf takes (start, height): any start up to MaxInt32 is expressible
		from, cl = int64(math.MaxInt32)-int64(gen.Uniform(t, 70, "below-max")), "start-at-top-of-int32"
	}
	return Case{Op: "fromstr32", S: s, From: int32(from), W: w, Class: cl}
}

func genPathsOf(t *rapid.T) Case {
	h := gen.Uniform(t, 33, "h")
	if gen.Chance(t, 1, 3, "h32") {
		h = 32
	}
	from := int32(0)
	if gen.Chance(t, 1, 2, "fromnz") {
		from = int32(gen.Uniform(t, 24, "from"))
	}
	var keys []string
	cl := ""
	switch gen.Uniform(t, 4, "kclass") {
	case 0: // all-ones windows: 0xff runs covering the window
		cl = "ff-heavy"
		n := 1 + gen.Uniform(t, 5, "n")
		for i := 0; i < n; i++ {
			k := make([]byte, 4+int(from)/8+1+gen.Uniform(t, 3, "extra"))
			for j := range k {
				k[j] = 0xff
			}
			if gen.Chance(t, 1, 2, "tweak") {
				k[gen.Uniform(t, len(k), "pos")] = gen.Byte(t, "tb")
			}
			keys = append(keys, string(k))
		}
	case 1: // sorted prefix-tree keys (adjacent equal paths after truncation to h bits)
		cl = "prefix-tree"
		keys = gen.Keys(t, 12, "keys")
	default: // arbitrary list with repeats, not sorted
		cl = "repeats"
		pool := [][]byte{}
		np := 1 + gen.Uniform(t, 4, "pool")
		for i := 0; i < np; i++ {
			pool = append(pool, gen.Bytes(t, 0, 8, "pk"))
		}
		n := gen.Uniform(t, 9, "n")
		for i := 0; i < n; i++ {
			keys = append(keys, string(pool[gen.Uniform(t, len(pool), "pick")]))
		}
	}
	return Case{Op: "pathsof", Keys: vk.HexStrings(keys), From: from, W: h, Dedup: gen.Chance(t, 2, 3, "dedup"), Class: cl}
}

func genCase(t *rapid.T) Case {
	if gen.Chance(t, 1, 5, "pathsof") {
		return genPathsOf(t)
	}
	return genOne(t)
}

func TestRegress(t *testing.T) { checker.Regress(t) }

func TestProp(t *testing.T) { checker.Prop(t, genCase) }

func FuzzProp(f *testing.F) { checker.Fuzz(f, genCase) }

func gridContents(n int) [][]byte {
	var out [][]byte
	fill := func(fn func(i int) byte) {
		b := make([]byte, n)
		for i := range b {
			b[i] = fn(i)
		}
		out = append(out, b)
	}
	for _, c := range []byte{0x00, 0xff, 0x55, 0xaa, 0x80, 0x01, 0x7f, 0xfe} {
		c := c
		fill(func(int) byte { return c })
	}
	fill(func(i int) byte { return byte(0x12 + 0x22*i) })
	fill(func(i int) byte { return byte(0xfe - 0x11*i) })
	for key := uint64(1); key <= 14; key++ {
		key := key
		fill(func(i int) byte { return byte(vk.Mix(key*1000+uint64(i)) >> 56) })
	}
	return out
}

// TestGrid: every (from mod 8, width, bytes remaining from the start byte) x 2 leads x 24 contents.
func TestGrid(t *testing.T) {
	vk.SetPhase("grid")
	for lead := 0; lead <= 3; lead += 3 {
		for a := 0; a < 8; a++ {
			for w := 0; w <= 32; w++ {
				for rem := 0; rem <= 6; rem++ {
					for ci, content := range gridContents(lead + rem) {
						_ = ci
						checker.Run(t, Case{Op: "fromstr32", S: content, From: int32(8*lead + a), W: w, Class: "grid"})
					}
				}
			}
		}
	}
	// start bits at the top of int32 (start + height no longer fits an int32)
	for d := int32(0); d <= 70; d++ {
		for _, w := range []int{0, 1, 8, 31, 32} {
			for _, s := range []string{"", "a", "\xff\xff\xff\xff\xff"} {
				checker.Run(t, Case{Op: "fromstr32", S: vk.Hex(s), From: math.MaxInt32 - d, W: w, Class: "grid-start-at-top-of-int32"})
			}
		}
		checker.Run(t, Case{Op: "pathsof", Keys: []vk.Hex{vk.Hex("ab"), vk.Hex("ab"), vk.Hex("b")}, From: math.MaxInt32 - d, W: 32, Dedup: d%2 == 0, Class: "grid-start-at-top-of-int32"})
	}
	// very long key lists (size thresholds): runs of equal paths that straddle every multiple of 1024
	for _, n := range []int{4095, 4096, 4097, 8192, 12288, 20011} {
		for _, run := range []int{1, 100, 1 << 20} {
			keys := make([]vk.Hex, n)
			for i := range keys {
				g := uint32(i / run)
				keys[i] = vk.Hex{byte(g >> 16), byte(g >> 8), byte(g), 0x80, byte(i)}
			}
			for _, dedup := range []bool{true, false} {
				checker.Run(t, Case{Op: "pathsof", Keys: keys, From: 0, W: 24, Dedup: dedup, Class: "grid-long-list"})
				checker.Run(t, Case{Op: "pathsof", Keys: keys, From: 3, W: 32, Dedup: dedup, Class: "grid-long-list"})
			}
		}
	}
	vk.MarkExhaustive("every (start bit mod 8, width 0..32, bytes remaining 0..6) x leads {0,3} x 24 fixed contents")
}

// TestLast runs at the very end of the process: huge inputs (the maximum bitmap / string) and the regression cases of that size come last, so that
// what they leave behind in the library cannot mask anything the ordinary cases would have met.
func TestLast(t *testing.T) {
	vk.SetPhase("last")
	// the maximum string: 2^28 bytes (8*len = 2^31 fits no int32), and a few bytes less
	for _, cut := range []int{0, 1, 4, 5} {
		L8 := int64(8 * (gen.MaxStrLen - cut))
		for _, w := range []int{0, 1, 7, 8, 9, 31, 32} {
			for _, from := range []int64{0, 1, 7, 8, 9, 63, 64, 8 * (gen.MaxStrLen / 2), 8*(gen.MaxStrLen/2) - 3, L8 - 104, L8 - 72, L8 - 71, L8 - 40, L8 - 39, L8 - 33, L8 - 32, L8 - 31, L8 - 9, L8 - 8, L8 - 7, L8 - 1, L8, L8 + 1, L8 + 7} {
				if from >= 0 && from <= math.MaxInt32 {
					checker.Run(t, Case{Op: "maxstr", From: int32(from), W: w, Cut: cut, Class: "grid-maximum-string"})
				}
			}
		}
	}
	checker.RegressLast(t)
}

// Package c11 decides property C11: FromStr32 / PathOf / PathsOf extract
// exactly the requested bits of a string.
package c11

import (
	"fmt"
	"math"
	"math/bits"
	"testing"
	"unsafe"

	"github.com/openacid/low/bitmap"
	"github.com/openacid/low/bmtree"
	"pgregory.net/rapid"

	"verif/harness/gen"
	"verif/harness/model"
	"verif/harness/vk"
)

// keep registers a returned result for later re-validation (set in init: the checker refers to check).
var keep func(func() string)

func init() { keep = checker.Keep }

func TestMain(m *testing.M) { vk.Main(m, "C11") }

// Ref names a string argument: a literal, or a substring of one of the two big process-wide buffers (so that
// long strings, every address alignment and foreign bytes around the string cost nothing in the case file).
type Ref struct {
	K   string `json:"k,omitempty"`   // "" literal S | "p" gen.PoolC11()[Off:Off+Len] | "m" gen.MaxString(0)[Off:Off+Len]
	Off int64  `json:"off,omitempty"` // p, m
	Len int64  `json:"len,omitempty"` // p, m
	Own bool   `json:"own,omitempty"` // p: a fresh heap copy of exactly Len bytes instead of the substring
	S   vk.Hex `json:"s,omitempty"`   // literal
}

type Case struct {
	Op    string   `json:"op"`            // fromstr32 (also checks PathOf) | sub (the same on Ref) | pathsof | maxstr | bigstr
	Cut   int      `json:"cut,omitempty"` // maxstr: the string is the maximum string (2^28 bytes, gen.MaxString) without its last Cut bytes
	S     vk.Hex   `json:"s,omitempty"`
	Ref   *Ref     `json:"ref,omitempty"` // sub
	From  int32    `json:"from"`
	W     int      `json:"w"`
	Keys  []vk.Hex `json:"keys,omitempty"` // pathsof: literal keys, or
	Refs  []Ref    `json:"refs,omitempty"` // pathsof: the keys (Idx == nil) / the distinct keys that Idx picks from
	Idx   []int32  `json:"idx,omitempty"`  // pathsof: key i of the list is Refs[Idx[i]]
	Laid  bool     `json:"laid,omitempty"` // pathsof: the list is Idx over Refs even when Idx is empty (an empty list of keys)
	Dedup bool     `json:"dedup,omitempty"`
	Class string   `json:"class,omitempty"`
	Len   int64    `json:"len,omitempty"`  // bigstr: the string has Len bytes (up to 2^29; content: bigByte)
	Wins  []Win    `json:"wins,omitempty"` // bigstr: the windows looked at in that one string
}

// Win is one (start bit, width) of a bigstr case.
type Win struct {
	From int32 `json:"from"`
	W    int   `json:"w"`
}

var checker = &vk.Checker[Case]{
	ID: "C11",
	Rule: "byte strings over the full alphabet (00/01/7f/80/ff boosted, literal length 0..40, thorough 0..200; substrings of a 16 MiB pseudo-random pool with all-ff / all-00 blocks, length log-uniform 0..2^22 (thorough 2^24) with 2^k-1, 2^k, 2^k+1 boosted, at every address alignment or as an own heap copy; literals reach the library as an own heap string or as a substring at an odd address, by checksum) x start bit (inside uniform and log-uniform, at every alignment, around '16 bytes left after the start byte', exactly at the end, just beyond, far beyond up to 2^31-1-32, up to MaxInt32 for PathOf) x width 0..32; FromStr32 and PathOf (height = width) against bit-by-bit extraction from the description of the string, PathStr(PathOf) against the bits as text; " +
		"PathsOf on key lists with adjacent and non-adjacent repeats, dedup on/off, nil / empty list, against an own map+drop-equal-to-predecessor loop (including the all-ones window at height 32): literal lists of 0..12 keys with start bit < 200, and lists of 0..2^13 (thorough 2^15) positions, log-uniform, laid in runs / cycles / every m-th / independently over 1..6 distinct keys that end before the start bit, inside the window or far behind it (pool substrings, own copies, prefixes of one another, literal ff runs), start bit log-uniform up to 2^27. " +
		"Grid: every (start bit mod 8, width, bytes remaining 0..6) x 2 leads x 24 fixed contents; (start bit mod 8, 12 widths, bytes remaining 7..40) x 2 leads on pool substrings and own copies; string lengths, PathsOf start bytes and PathsOf list lengths at 2^k-1, 2^k, 2^k+1 and three seed-dependent values in every octave (lengths to 2^24, start bits to 2^27, lists to 2^14; lists of >= 100 keys under every GOMAXPROCS setting in the procs process). " +
		"PathsOf lists that cross the 32768 / 65536 / 131072 key marks (65538 and 131073 short literal keys; thorough also 32767..32770, 65535..65537, 98305, 131071..131074, 262145 and the list-length sweep to 2^17): one key throughout, and cycles over three keys in runs of 2 and of 3 (a run of equal paths across every mark, a change of path exactly at it), dedup on and off. " +
		"Last: the 2^28-byte string and its substrings: lengths over every octave to 2^28 ending at its 13 non-zero last bytes with start bits around the end (to 2^31-1), and its two non-zero middle bytes placed at byte X for X over every octave to 2^27, also through PathsOf. " +
		"Thorough tier only: ONE string of 2^29 bytes (8*len = 2^32; non-zero bytes at its head, around bit 2^31 and at its end), FromStr32 / PathOf / PathsOf at nine windows: at the head, ending at bit 2^31-1, across bit 2^31 and starting at MaxInt32 (no longer string in any tier: 512 MiB is the memory budget). " +
		"Non-trivial: the span touches >= 2 bytes and (start not byte aligned or the string ends inside the span); PathsOf: >= 2 keys with dedup and at least one dropped or an all-ones path. Distinct by hash of the case.",
	Check:    check,
	Classify: classify,
}

// text is the oracle's view of a string argument: its length and its bytes from the description of the case
// (never from the memory handed to the library).
type text struct {
	n    int64
	at   func(i int64) byte
	desc func() string
}

func litText(b []byte) text {
	return text{n: int64(len(b)), at: func(i int64) byte { return b[i] }, desc: func() string {
		if len(b) > 48 {
			return fmt.Sprintf("%x...(%d bytes)", b[:48], len(b))
		}
		return fmt.Sprintf("%x", b)
	}}
}

func (r Ref) valid() bool {
	switch r.K {
	case "":
		return true
	case "p":
		return r.Off >= 0 && r.Len >= 0 && r.Off+r.Len <= gen.PoolLenC11
	case "m":
		return r.Off >= 0 && r.Len >= 0 && r.Off+r.Len <= gen.MaxStrLen
	}
	return false
}

func (r Ref) text() text {
	off, n := r.Off, r.Len
	switch r.K {
	case "p":
		how := "substring"
		if r.Own {
			how = "own heap copy"
		}
		return text{n: n, at: func(i int64) byte { return gen.PoolByteC11(off + i) }, desc: func() string {
			return fmt.Sprintf("pool[%d:%d] (%s, %d bytes, first bytes %x)", off, off+n, how, n, gen.PoolC11()[off:off+min(n, 24)])
		}}
	case "m":
		return text{n: n, at: func(i int64) byte { return gen.MaxStrByte(off + i) }, desc: func() string {
			return fmt.Sprintf("maxstring[%d:%d] (%d bytes)", off, off+n, n)
		}}
	}
	return litText(r.S)
}

// str is the argument itself. A literal is handed over as vk.OddString decides from the checksum (own heap string or
// a substring at an odd address with foreign bytes around it); pool / maximum-string references are substrings as they are.
func (r Ref) str(sum uint64) string {
	switch r.K {
	case "p":
		s := gen.PoolC11()[r.Off : r.Off+r.Len]
		if r.Own {
			s = string(append([]byte(nil), s...))
		}
		return s
	case "m":
		return gen.MaxString(0)[r.Off : r.Off+r.Len]
	}
	return vk.OddString(string(r.S), sum)
}

// damage: the shared buffers behind p / m references must still read as described.
func (r Ref) damage() *vk.Failure {
	switch r.K {
	case "p":
		if j, bad := gen.PoolDamageC11(r.Off-8, r.Off+r.Len+8); bad {
			return vk.Failf("mutates", "byte %d of the buffer the string argument was cut from was modified", j)
		}
	case "m":
		if j, bad := gen.MaxStringDamage(); bad {
			return vk.Failf("mutates", "byte %d of the 2^28-byte buffer the string argument was cut from was modified", j)
		}
	}
	return nil
}

func addrMod8(s string) int { return int(uintptr(unsafe.Pointer(unsafe.StringData(s))) & 7) }

// extractT is the oracle: k bits available, value with those bits on top of a w-bit field, the bits as text.
func extractT(x text, from int32, w int) (int, uint64, string) {
	avail := 8*x.n - int64(from)
	k := int64(w)
	if avail < k {
		k = avail
	}
	if k < 0 {
		k = 0
	}
	v := uint64(0)
	txt := make([]byte, k)
	for j := int64(0); j < k; j++ {
		p := int64(from) + j
		bit := x.at(p>>3) >> (7 - uint(p&7)) & 1
		if bit == 1 {
			v |= 1 << uint(int64(w)-1-j)
		}
		txt[j] = '0' + bit
	}
	return int(k), v, string(txt)
}

func wantPathT(x text, from int32, h int) (uint64, string) {
	k, v, txt := extractT(x, from, h)
	return model.PathWord(v>>uint(h-k), k, h), txt
}

func wantPath(s string, from int32, h int) (uint64, string) {
	return wantPathT(litText([]byte(s)), from, h)
}

// checkText: FromStr32 (when the end bit fits an int32), PathOf and PathStr on the argument s whose content the oracle knows as x.
func checkText(s string, x text, from int32, w int) *vk.Failure {
	if from < 0 || w < 0 || w > 32 || int64(len(s)) != x.n {
		return nil
	}
	k, v, wtxt := extractT(x, from, w)
	var gk int32
	var gv uint64
	if int64(from)+int64(w) <= math.MaxInt32 { // FromStr32 takes the end bit: only callable when it fits an int32
		if f := vk.TryF(func() string { return fmt.Sprintf("FromStr32(%s, %d, %d)", x.desc(), from, int64(from)+int64(w)) }, func() { gk, gv = bitmap.FromStr32(s, from, from+int32(w)) }); f != nil {
			return f
		}
		if int(gk) != k || gv != v {
			return vk.Failf("fromstr32", "FromStr32(s=%s [data address mod 8 = %d], from=%d, to=%d) = (%d, %#x), want (%d, %#x)", x.desc(), addrMod8(s), from, from+int32(w), gk, gv, k, v)
		}
	}
	wp := model.PathWord(v>>uint(w-k), k, w)
	var gp uint64
	var gtxt string
	if f := vk.TryF(func() string { return fmt.Sprintf("PathOf(%s, %d, %d)", x.desc(), from, w) }, func() {
		gp = bmtree.PathOf(s, from, int32(w))
		gtxt = bmtree.PathStr(gp)
	}); f != nil {
		return f
	}
	if gp != wp {
		return vk.Failf("pathof", "PathOf(s=%s [data address mod 8 = %d], from=%d, h=%d) = %#x, want %#x", x.desc(), addrMod8(s), from, w, gp, wp)
	}
	if gtxt != wtxt {
		return vk.Failf("pathof-str", "PathStr(PathOf(s=%s, from=%d, h=%d)) = %q, want %q", x.desc(), from, w, gtxt, wtxt)
	}
	return nil
}

func caseSum(c Case) uint64 {
	h := vk.Hash64(c.S) ^ vk.Mix(uint64(c.From)<<8|uint64(c.W))
	return h
}

var scratch vk.Scratch

// keyList is the resolved key list of a pathsof case: the distinct keys and, per list position, which of them.
type keyList struct {
	refs []Ref
	idx  []int32 // nil: position i is refs[i]
}

func (c Case) keyList() (keyList, bool) {
	kl := keyList{refs: c.Refs, idx: c.Idx}
	if len(c.Refs) == 0 {
		kl.refs = make([]Ref, len(c.Keys))
		for i, k := range c.Keys {
			kl.refs[i] = Ref{S: k}
		}
		kl.idx = nil
	} else if c.Laid && kl.idx == nil {
		kl.idx = []int32{}
	}
	for _, r := range kl.refs {
		if !r.valid() {
			return kl, false
		}
	}
	for _, j := range kl.idx {
		if j < 0 || int(j) >= len(kl.refs) {
			return kl, false
		}
	}
	return kl, true
}

func (kl keyList) n() int {
	if kl.idx != nil {
		return len(kl.idx)
	}
	return len(kl.refs)
}

func (kl keyList) ref(i int) int {
	if kl.idx != nil {
		return int(kl.idx[i])
	}
	return i
}

// want is the oracle for PathsOf: the path of every distinct key once (bit by bit), then map + drop-equal-to-predecessor.
// lens[i] is the number of bits key i contributes.
func (kl keyList) want(from int32, h int, dedup bool) (out []uint64, lens []int) {
	base := make([]uint64, len(kl.refs))
	lens = make([]int, len(kl.refs))
	for i, r := range kl.refs {
		x := r.text()
		base[i], _ = wantPathT(x, from, h)
		lens[i] = int(min(max(8*x.n-int64(from), 0), int64(h)))
	}
	out = []uint64{}
	var prev uint64
	for i, n := 0, kl.n(); i < n; i++ {
		p := base[kl.ref(i)]
		if !(dedup && i > 0 && p == prev) {
			out = append(out, p)
		}
		prev = p
	}
	return out, lens
}

// checkMaxStr: FromStr32 / PathOf / PathsOf on a string of 2^28 bytes (8*len = 2^31 does not fit an int32) or a few
// bytes less; the oracle works from the description of that string.
func checkMaxStr(from int32, w, cut int) *vk.Failure {
	if from < 0 || w < 0 || w > 32 || cut < 0 || cut > 64 {
		return nil
	}
	// from+w beyond MaxInt32 cannot be said to FromStr32 (it takes the end bit as an int32), but PathOf and PathsOf
	// take (start bit, height): "every string s, start bit from >= 0 and width w in [0,32]" includes the last bits of
	// a 2^28-byte string
	endFits := int64(from)+int64(w) <= math.MaxInt32
	s := gen.MaxString(cut)
	avail := int64(8*len(s)) - int64(from)
	k := min(max(avail, 0), int64(w))
	v, prefix := uint64(0), uint64(0)
	txt := make([]byte, k)
	for j := int64(0); j < k; j++ {
		b := gen.MaxStrBit(int64(from) + j)
		v |= b << uint(int64(w)-1-j)
		prefix = prefix<<1 | b
		txt[j] = byte('0' + b)
	}
	what := fmt.Sprintf("string of 2^28-%d bytes, from=%d, w=%d", cut, from, w)
	var gk int32
	var gv, gp uint64
	var gtxt string
	var gps []uint64
	if f := vk.Try("FromStr32/PathOf/PathsOf on a "+what, func() {
		if endFits {
			gk, gv = bitmap.FromStr32(s, from, from+int32(w))
		}
		gp = bmtree.PathOf(s, from, int32(w))
		gtxt = bmtree.PathStr(gp)
		gps = bmtree.PathsOf([]string{s, s, "A"}, from, int32(w), true)
	}); f != nil {
		return f
	}
	if endFits && (int64(gk) != k || gv != v) {
		return vk.Failf("fromstr32", "FromStr32(%s) = (%d, %#x), want (%d, %#x)", what, gk, gv, k, v)
	}
	wp := model.PathWord(prefix, int(k), w)
	if gp != wp || gtxt != string(txt) {
		return vk.Failf("pathof", "PathOf(%s) = %#x %q, want %#x %q", what, gp, gtxt, wp, txt)
	}
	wa, _ := wantPath("A", from, w)
	wantPs := []uint64{wp}
	if wa != wp {
		wantPs = append(wantPs, wa)
	}
	if fmt.Sprint(gps) != fmt.Sprint(wantPs) {
		return vk.Failf("pathsof", "PathsOf([s, s, \"A\"], dedup) with s a %s = %#x, want %#x", what, gps, wantPs)
	}
	if j, bad := gen.MaxStringDamage(); bad {
		return vk.Failf("mutates", "byte %d of the 2^28-byte string argument was modified", j)
	}
	return nil
}

// bigByte is byte i of the string of n bytes of a bigstr case (its description): pseudo-random odd bytes at the head,
// around bit 2^31 (byte 2^28) and at the end, zero elsewhere (so that the memory behind it stays untouched zero pages).
func bigByte(i, n int64) byte {
	const mid = int64(1) << 28
	if i < 0 || i >= n {
		return 0
	}
	if i < 4 || i >= n-8 || (i >= mid-8 && i < mid+8) {
		return byte(vk.Mix(uint64(i)*0x9e3779b97f4a7c15+0xb16)>>56) | 1
	}
	return 0
}

const bigStrMax = int64(1) << 29

// bigStrSet lists the positions of the non-zero bytes of the string of n bytes.
func bigStrSet(n int64) []int64 {
	var out []int64
	for _, lo := range []int64{0, 1<<28 - 8, n - 8} {
		for i := max(lo, 0); i < lo+16 && i < n; i++ {
			if bigByte(i, n) != 0 && (len(out) == 0 || out[len(out)-1] < i) {
				out = append(out, i)
			}
		}
	}
	return out
}

// checkBigStr: ONE string of c.Len bytes (more than the 2^28 of the maximum string: 8*len reaches 2^32), built for this case
// only and dropped afterwards; FromStr32 / PathOf / PathStr and PathsOf at every window of the case.
func checkBigStr(c Case) *vk.Failure {
	n := c.Len
	if n < 1 || n > bigStrMax || len(c.Wins) > 64 {
		return nil
	}
	buf := make([]byte, n)
	set := bigStrSet(n)
	for _, i := range set {
		buf[i] = bigByte(i, n)
	}
	s := unsafe.String(&buf[0], n)
	x := text{n: n, at: func(i int64) byte { return bigByte(i, n) }, desc: func() string {
		return fmt.Sprintf("string of %d bytes (non-zero bytes at %d, zero elsewhere)", n, set)
	}}
	for _, wn := range c.Wins {
		if wn.From < 0 || wn.W < 0 || wn.W > 32 {
			continue
		}
		if f := checkText(s, x, wn.From, wn.W); f != nil {
			return f
		}
		ws, _ := wantPathT(x, wn.From, wn.W)
		wt, _ := wantPathT(text{n: n - 1, at: x.at}, wn.From, wn.W)
		wa, _ := wantPath("A", wn.From, wn.W)
		var want []uint64
		for i, p := range []uint64{ws, ws, wa, wt, ws} {
			if i == 0 || p != want[len(want)-1] {
				want = append(want, p)
			}
		}
		var got []uint64
		if f := vk.TryF(func() string {
			return fmt.Sprintf("PathsOf([s, s, \"A\", s without its last byte, s], %d, %d, true) with s a %s", wn.From, wn.W, x.desc())
		}, func() {
			got = bmtree.PathsOf([]string{s, s, "A", s[:n-1], s}, wn.From, int32(wn.W), true)
		}); f != nil {
			return f
		}
		if fmt.Sprint(got) != fmt.Sprint(want) {
			return vk.Failf("pathsof", "PathsOf([s, s, \"A\", s without its last byte, s], from=%d, h=%d, dedup) with s a %s = %#x, want %#x", wn.From, wn.W, x.desc(), got, want)
		}
	}
	for _, i := range set {
		for j := max(i-1, 0); j <= i+1 && j < n; j++ {
			if buf[j] != bigByte(j, n) {
				return vk.Failf("mutates", "byte %d of the string argument of %d bytes was modified", j, n)
			}
		}
	}
	for j := int64(5); j < n; j += 1 << 19 {
		if buf[j] != bigByte(j, n) {
			return vk.Failf("mutates", "byte %d of the string argument of %d bytes was modified", j, n)
		}
	}
	return nil
}

func checkPathsOf(c Case) *vk.Failure {
	kl, ok := c.keyList()
	if !ok || c.From < 0 || c.W < 0 || c.W > 32 {
		return nil
	}
	want, _ := kl.want(c.From, c.W, c.Dedup)
	sum := caseSum(c) ^ uint64(kl.n())
	literal := true
	strs := make([]string, len(kl.refs))
	for _, r := range kl.refs {
		sum = sum*1099511628211 ^ vk.Hash64(r.S) ^ uint64(r.Off)<<1 ^ uint64(r.Len)
		literal = literal && r.K == ""
	}
	for i, r := range kl.refs {
		strs[i] = r.str(sum + uint64(i)*0x9e37)
	}
	n := kl.n()
	keys := make([]string, n)
	for i := range keys {
		keys[i] = strs[kl.ref(i)]
	}
	if n == 0 {
		keys = vk.ShapeStrings(nil, sum) // nil or empty non-nil
	}
	// literal keys only: a reused []string (same address as earlier calls, fresh heap strings) with guarded spare capacity
	reused := literal && n < 3000 && scratch.Reuse(sum)
	if reused {
		keys = scratch.Strings(keys)
	}
	descKeys := func() string {
		out := ""
		for i := 0; i < n && i < 12; i++ {
			out += kl.refs[kl.ref(i)].text().desc() + " "
		}
		if n > 12 {
			out += "..."
		}
		return out
	}
	var got []uint64
	if f := vk.TryF(func() string {
		return fmt.Sprintf("PathsOf(%d keys %s, from=%d, h=%d, dedup=%v)", n, descKeys(), c.From, c.W, c.Dedup)
	}, func() { got = bmtree.PathsOf(keys, c.From, int32(c.W), c.Dedup) }); f != nil {
		return f
	}
	if len(got) != len(want) {
		if n > 64 {
			return vk.Failf("pathsof", "PathsOf(%d keys %s, from=%d, h=%d, dedup=%v) returned %d paths, want %d paths", n, descKeys(), c.From, c.W, c.Dedup, len(got), len(want))
		}
		return vk.Failf("pathsof", "PathsOf(%d keys %s, from=%d, h=%d, dedup=%v) returned %d paths %#x, want %d paths %#x", n, descKeys(), c.From, c.W, c.Dedup, len(got), got, len(want), want)
	}
	for i := range got {
		if got[i] != want[i] {
			return vk.Failf("pathsof", "PathsOf(%d keys %s, from=%d, h=%d, dedup=%v)[%d] = %#x, want %#x", n, descKeys(), c.From, c.W, c.Dedup, i, got[i], want[i])
		}
	}
	vk.ScribbleU64(got)
	{
		kept, expect, nk := got, want, n
		keep(func() string {
			for i := range expect {
				if kept[i] != expect[i] {
					return fmt.Sprintf("PathsOf(%d keys) returned %#x at position %d, which now reads %#x", nk, expect[i], i, kept[i])
				}
			}
			return ""
		})
	}
	for i, k := range keys {
		if r := kl.refs[kl.ref(i)]; r.K == "" && string(r.S) != k {
			return vk.Failf("pathsof-mutates", "key %d changed", i)
		}
	}
	for _, r := range kl.refs {
		if f := r.damage(); f != nil {
			return f
		}
	}
	if reused {
		if msg := scratch.Check(); msg != "" {
			return vk.Failf("argument-spare-capacity-written", "PathsOf: %s", msg)
		}
	}
	return nil
}

func check(c Case) *vk.Failure {
	switch c.Op {
	case "maxstr":
		return checkMaxStr(c.From, c.W, c.Cut)
	case "pathsof":
		return checkPathsOf(c)
	case "bigstr":
		return checkBigStr(c)
	case "sub":
		if c.Ref == nil || !c.Ref.valid() {
			return nil
		}
		s := c.Ref.str(caseSum(c))
		if f := checkText(s, c.Ref.text(), c.From, c.W); f != nil {
			return f
		}
		return c.Ref.damage()
	}
	r := Ref{S: c.S}
	return checkText(r.str(caseSum(c)), r.text(), c.From, c.W)
}

func nontrivialOne(n int64, from int32, w int) bool {
	if w == 0 {
		return false
	}
	firstByte := int64(from) / 8
	lastByte := (int64(from) + int64(w) - 1) / 8
	endsInside := 8*n > int64(from) && 8*n < int64(from)+int64(w)
	touches := lastByte - firstByte + 1
	if endsInside {
		touches = n - firstByte
	}
	if 8*n <= int64(from) {
		return false
	}
	return touches >= 2 && (from&7 != 0 || endsInside)
}

func octave(n int64) string {
	if n <= 0 {
		return "0"
	}
	return fmt.Sprintf("2^%d..", bits.Len64(uint64(n))-1)
}

func classify(c Case) (bool, []string) {
	if c.Op == "maxstr" {
		return true, []string{"op:maxstr", "maximum-string(2^28 bytes)"}
	}
	if c.Op == "bigstr" {
		ok := c.Len >= 1 && c.Len <= bigStrMax && len(c.Wins) > 0 && len(c.Wins) <= 64
		return ok, []string{"op:bigstr", "len:" + octave(c.Len), fmt.Sprintf("windows:%d", len(c.Wins))}
	}
	labels := []string{"op:" + c.Op, "class:" + c.Class}
	if c.Op == "pathsof" {
		kl, ok := c.keyList()
		if !ok {
			return false, append(labels, "invalid")
		}
		want, lens := kl.want(c.From, c.W, c.Dedup)
		n := kl.n()
		dropped := len(want) < n
		allOnes := false
		for _, p := range want {
			if p == ^uint64(0) {
				allOnes = true
			}
		}
		if dropped {
			labels = append(labels, "dedup-dropped")
		}
		if allOnes {
			labels = append(labels, "all-ones-path")
		}
		labels = append(labels, "keys:"+octave(int64(n)), "pathsof-start-bit:"+octave(int64(c.From)))
		// element-wise mix: keys that end before the start bit, inside the window, and that fill it
		var none, part, full, far bool
		for i, r := range kl.refs {
			switch {
			case lens[i] == 0:
				none = true
			case lens[i] < c.W:
				part = true
			default:
				full = true
			}
			if r.text().n-int64(c.From>>3) >= 16 {
				far = true
			}
		}
		if c.W > 0 && ((none && full) || (part && full) || (none && part)) {
			labels = append(labels, "mixed-key-lengths")
		}
		if far {
			labels = append(labels, "key-with->=16-bytes-after-start")
		}
		if n == 0 {
			labels = append(labels, "no-keys")
		}
		return n >= 2 && c.Dedup && (dropped || allOnes), labels
	}
	x := litText(c.S)
	if c.Op == "sub" {
		if c.Ref == nil || !c.Ref.valid() {
			return false, append(labels, "invalid")
		}
		x = c.Ref.text()
		labels = append(labels, "source:"+map[string]string{"": "literal", "p": "pool", "m": "maximum-string"}[c.Ref.K])
		switch {
		case c.Ref.Own:
			labels = append(labels, "own-heap-copy")
		case c.Ref.Off&7 != 0:
			labels = append(labels, "substring-at-odd-address")
		default:
			labels = append(labels, "substring-8-aligned")
		}
	}
	labels = append(labels, "len:"+octave(x.n))
	switch {
	case int64(c.From) > 8*x.n:
		labels = append(labels, "start:beyond-end")
	case int64(c.From) == 8*x.n:
		labels = append(labels, "start:at-end")
	default:
		labels = append(labels, "start:inside", "start-byte:"+octave(int64(c.From>>3)))
		if after := x.n - int64(c.From>>3); after >= 16 {
			labels = append(labels, "bytes-after-start:>=16")
		} else {
			labels = append(labels, "bytes-after-start:<16")
		}
	}
	if c.From&7 != 0 {
		labels = append(labels, "unaligned")
	}
	span := (int64(c.From)+int64(c.W)+7)/8 - int64(c.From)/8
	labels = append(labels, fmt.Sprintf("span-bytes:%d", span))
	return nontrivialOne(x.n, c.From, c.W), labels
}

// logSize draws a size in [0, 2^maxExp): the octave uniformly (0, then [2^(k-1), 2^k) for k = 1..maxExp), the
// position inside the octave uniformly; a quarter of the draws land on 2^k-1, 2^k, 2^k+1. No size is left out.
func logSize(t *rapid.T, maxExp int, label string) int64 {
	k := gen.Uniform(t, maxExp+1, label+".octave")
	if k == 0 {
		return 0
	}
	lo := int64(1) << uint(k-1)
	v := lo + int64(gen.U64(t, label)%uint64(lo))
	if gen.Chance(t, 1, 4, label+".edge") {
		v = lo - 1 + int64(gen.Uniform(t, 3, label+".e"))
	}
	return min(v, int64(1)<<uint(maxExp)-1)
}

func drawWidth(t *rapid.T) int {
	w := gen.Uniform(t, 33, "w")
	if gen.Chance(t, 1, 4, "wboost") {
		w = rapid.SampledFrom([]int{0, 1, 7, 8, 9, 24, 25, 31, 32, 32}).Draw(t, "wb")
	}
	return w
}

func genOne(t *rapid.T) Case {
	maxLen := vk.Pick(40, 200)
	s := gen.Bytes(t, 0, maxLen, "s")
	w := drawWidth(t)
	nbits := 8 * len(s)
	var from int64
	cl := ""
	switch gen.Uniform(t, 8, "fromclass") {
	case 0:
		from, cl = int64(nbits), "at-end"
	case 1:
		from, cl = int64(nbits)+1+int64(gen.Uniform(t, 40, "beyond")), "beyond"
	case 2:
		from, cl = int64(1)<<31-1-32-int64(gen.U64(t, "far")%1000), "far-beyond"
	case 3:
		from, cl = int64(max(nbits-1-gen.Uniform(t, 40, "neartail"), 0)), "near-end"
	default:
		if nbits > 0 {
			from = int64(gen.Uniform(t, nbits, "from"))
		}
		cl = "inside"
	}
	if from+int64(w) > 1<<31-1 {
		from = 1<<31 - 1 - int64(w)
	}
	if gen.Chance(t, 1, 25, "top") { // PathOf takes (start, height): any start up to MaxInt32 is expressible
		from, cl = int64(math.MaxInt32)-int64(gen.Uniform(t, 70, "below-max")), "start-at-top-of-int32"
	}
	return Case{Op: "fromstr32", S: s, From: int32(from), W: w, Class: cl}
}

// genSub: a string of 0 .. 2^24-1 bytes (log-uniform) cut out of the pool at any address alignment (or an own heap copy
// of it), start bits over the whole string, around its end and around "16 bytes left after the start byte".
func genSub(t *rapid.T) Case {
	L := logSize(t, vk.Pick(22, 24), "len")
	off := int64(gen.U64(t, "off") % uint64(gen.PoolLenC11-L+1))
	if gen.Chance(t, 1, 6, "aligned") {
		off &^= 7
	}
	own := L <= 1<<12 && gen.Chance(t, 1, 4, "own")
	w := drawWidth(t)
	nbits := 8 * L
	var from int64
	cl := ""
	switch gen.Uniform(t, 9, "fromclass") {
	case 0:
		from, cl = nbits, "at-end"
	case 1:
		from, cl = nbits+1+int64(gen.Uniform(t, 40, "beyond")), "beyond"
	case 2:
		from, cl = nbits-1-int64(gen.Uniform(t, 200, "neartail")), "near-end"
	case 3:
		from, cl = int64(gen.Uniform(t, 256, "head")), "head"
	case 4:
		from, cl = logSize(t, 27, "fromlog"), "inside-log"
		if nbits > 0 {
			from %= nbits
		}
	case 5:
		from, cl = 8*(L-18+int64(gen.Uniform(t, 5, "b16")))+int64(gen.Uniform(t, 8, "a")), "16-bytes-left"
	default:
		if nbits > 0 {
			from = int64(gen.U64(t, "from") % uint64(nbits))
		}
		cl = "inside"
	}
	from = max(from, 0)
	return Case{Op: "sub", Ref: &Ref{K: "p", Off: off, Len: L, Own: own}, From: int32(from), W: w, Class: "pool-" + cl}
}

func drawHeight(t *rapid.T) int {
	h := gen.Uniform(t, 33, "h")
	if gen.Chance(t, 1, 3, "h32") {
		h = 32
	}
	return h
}

func genPathsOf(t *rapid.T) Case {
	if gen.Chance(t, 1, 2, "refs") {
		return genPathsRefs(t)
	}
	h := drawHeight(t)
	from := int32(0)
	if gen.Chance(t, 1, 2, "fromnz") {
		from = int32(gen.Uniform(t, 24, "from"))
		if gen.Chance(t, 1, 3, "fromwide") {
			from = int32(gen.Uniform(t, 200, "from2"))
		}
	}
	var keys []string
	cl := ""
	switch gen.Uniform(t, 4, "kclass") {
	case 0: // all-ones windows: 0xff runs covering the window
		cl = "ff-heavy"
		n := 1 + gen.Uniform(t, 5, "n")
		for i := 0; i < n; i++ {
			k := make([]byte, 4+int(from)/8+1+gen.Uniform(t, 3, "extra"))
			for j := range k {
				k[j] = 0xff
			}
			if gen.Chance(t, 1, 2, "tweak") {
				k[gen.Uniform(t, len(k), "pos")] = gen.Byte(t, "tb")
			}
			keys = append(keys, string(k))
		}
	case 1: // sorted prefix-tree keys (adjacent equal paths after truncation to h bits)
		cl = "prefix-tree"
		keys = gen.Keys(t, 12, "keys")
	default: // arbitrary list with repeats, not sorted
		cl = "repeats"
		pool := [][]byte{}
		np := 1 + gen.Uniform(t, 4, "pool")
		for i := 0; i < np; i++ {
			pool = append(pool, gen.Bytes(t, 0, 8+int(from)/8, "pk"))
		}
		n := gen.Uniform(t, 9, "n")
		for i := 0; i < n; i++ {
			keys = append(keys, string(pool[gen.Uniform(t, len(pool), "pick")]))
		}
	}
	return Case{Op: "pathsof", Keys: vk.HexStrings(keys), From: from, W: h, Dedup: gen.Chance(t, 2, 3, "dedup"), Class: cl}
}

// buildIdx lays n list positions over np distinct keys (a pure function of its arguments):
// 0 runs of random length, 1 cyclic with repeats, 2 one key except every m-th position, 3 independent picks.
func buildIdx(style int, seed uint64, n, np int) []int32 {
	idx := make([]int32, n)
	switch style & 3 {
	case 0:
		for i, ctr := 0, uint64(0); i < n; ctr++ {
			z := vk.Mix(seed + ctr)
			b, r := int32(z%uint64(np)), 1
			if z>>8&3 == 0 {
				r = 1 + int(z>>16%64)
			}
			for ; r > 0 && i < n; r, i = r-1, i+1 {
				idx[i] = b
			}
		}
	case 1:
		rep := 1 + int(seed%3)
		for i := range idx {
			idx[i] = int32((i / rep) % np)
		}
	case 2:
		m := []int{2, 3, 4, 16}[seed%4]
		for i := range idx {
			if i%m == m-1 {
				idx[i] = int32(1 % np)
			}
		}
	default:
		for i := range idx {
			idx[i] = int32(vk.Mix(seed+uint64(i)) % uint64(np))
		}
	}
	return idx
}

// poolKey is a pool substring of L bytes; aimFF places bit fb*8 of it at the start of an all-0xff block when possible.
func poolKey(L, fb int64, z uint64, aimFF bool) Ref {
	L = min(max(L, 0), gen.PoolLenC11)
	off := int64(z % uint64(gen.PoolLenC11-L+1))
	if aimFF {
		blk := int64(z >> 8 % (gen.PoolLenC11 >> 6))
		for j := 0; j < 64 && gen.PoolBlockC11(blk) != 0; j++ {
			blk = (blk + 1) % (gen.PoolLenC11 >> 6)
		}
		if o := blk<<6 - fb + int64(z>>40&3); gen.PoolBlockC11(blk) == 0 && o >= 0 && o+L <= gen.PoolLenC11 {
			off = o
		}
	}
	return Ref{K: "p", Off: off, Len: L}
}

// genPathsRefs: a list of 0 .. 2^13 keys (log-uniform) laid over 1..6 distinct keys of different kinds relative to the
// start bit (ending before it, inside the window, far behind it; literal 0xff runs; prefixes and copies of one another),
// start bit log-uniform up to 2^27.
func genPathsRefs(t *rapid.T) Case {
	h := drawHeight(t)
	var from int64
	switch gen.Uniform(t, 4, "fromclass") {
	case 0:
	case 1:
		from = int64(gen.Uniform(t, 24, "from"))
	case 2:
		from = int64(gen.Uniform(t, 400, "from2"))
	default:
		from = logSize(t, 27, "fromlog")
	}
	fb := from >> 3
	np := 1 + gen.Uniform(t, 6, "np")
	var refs []Ref
	for i := 0; i < np; i++ {
		kind := gen.Uniform(t, 8, "kind")
		z := gen.U64(t, "z")
		aim := z>>50&3 == 0
		var r Ref
		switch {
		case kind == 0:
			r = poolKey(fb-int64(z>>44%3), fb, z, aim)
		case kind == 1:
			r = poolKey(fb+1+int64(z>>44%4), fb, z, aim)
		case kind == 4 && fb < 64:
			k := make([]byte, fb+5+int64(z%3))
			for j := range k {
				k[j] = 0xff
			}
			if z>>8&1 == 0 {
				k[int(z>>16%uint64(len(k)))] = gen.Byte(t, "tb")
			}
			r = Ref{S: k}
		case kind == 5 && len(refs) > 0 && refs[int(z>>20%uint64(len(refs)))].K == "p": // same start, other length
			r = refs[int(z>>20%uint64(len(refs)))]
			r.Own = false
			r.Len = min(fb+int64(z>>44%24), gen.PoolLenC11-r.Off)
		case kind == 6 && len(refs) > 0: // an equal key (the same reference, or the other of substring / own copy)
			r = refs[int(z>>20%uint64(len(refs)))]
			if r.K == "p" && r.Len <= 1<<12 && z>>30&1 == 0 {
				r.Own = !r.Own
			}
		default:
			r = poolKey(fb+5+int64(z>>44%60), fb, z, aim)
			if r.Len <= 1<<12 && z>>52&3 == 0 {
				r.Own = true
			}
		}
		refs = append(refs, r)
	}
	n := int(logSize(t, 6, "n"))
	if gen.Chance(t, 1, 2, "long") {
		n = int(logSize(t, vk.Pick(13, 15), "nlong"))
	}
	idx := buildIdx(gen.Uniform(t, 4, "style"), gen.U64(t, "idxseed"), n, np)
	return Case{Op: "pathsof", Refs: refs, Laid: true, Idx: idx, From: int32(from), W: h, Dedup: gen.Chance(t, 2, 3, "dedup"), Class: "key-mix"}
}

func genCase(t *rapid.T) Case {
	if gen.Chance(t, 1, 5, "pathsof") {
		return genPathsOf(t)
	}
	if gen.Chance(t, 1, 3, "sub") {
		return genSub(t)
	}
	return genOne(t)
}

func TestRegress(t *testing.T) { checker.Regress(t) }

func TestProp(t *testing.T) { checker.Prop(t, genCase) }

func FuzzProp(f *testing.F) { checker.Fuzz(f, genCase) }

func gridContents(n int) [][]byte {
	var out [][]byte
	fill := func(fn func(i int) byte) {
		b := make([]byte, n)
		for i := range b {
			b[i] = fn(i)
		}
		out = append(out, b)
	}
	for _, c := range []byte{0x00, 0xff, 0x55, 0xaa, 0x80, 0x01, 0x7f, 0xfe} {
		c := c
		fill(func(int) byte { return c })
	}
	fill(func(i int) byte { return byte(0x12 + 0x22*i) })
	fill(func(i int) byte { return byte(0xfe - 0x11*i) })
	for key := uint64(1); key <= 14; key++ {
		key := key
		fill(func(i int) byte { return byte(vk.Mix(key*1000+uint64(i)) >> 56) })
	}
	return out
}

// sweepSizes: 2^k-1, 2^k, 2^k+1 and three seed-dependent sizes inside every octave [2^k, 2^(k+1)), k = loExp..hiExp, at most limit.
func sweepSizes(loExp, hiExp int, limit int64, salt uint64) []int64 {
	var out []int64
	seen := map[int64]bool{}
	add := func(v int64) {
		if v >= 0 && v <= limit && !seen[v] {
			seen[v] = true
			out = append(out, v)
		}
	}
	for k := loExp; k <= hiExp; k++ {
		p := int64(1) << uint(k)
		add(p - 1)
		add(p)
		add(p + 1)
		for j := uint64(0); j < 3; j++ {
			add(p + int64(vk.Mix(vk.Seed()*0x9e3779b97f4a7c15+salt<<16+uint64(k)<<4+j)%uint64(p)))
		}
	}
	return out
}

// TestGrid: every (from mod 8, width, bytes remaining from the start byte) x 2 leads x 24 contents.
func TestGrid(t *testing.T) {
	vk.SetPhase("grid")
	for lead := 0; lead <= 3; lead += 3 {
		for a := 0; a < 8; a++ {
			for w := 0; w <= 32; w++ {
				for rem := 0; rem <= 6; rem++ {
					for ci, content := range gridContents(lead + rem) {
						_ = ci
						checker.Run(t, Case{Op: "fromstr32", S: content, From: int32(8*lead + a), W: w, Class: "grid"})
					}
				}
			}
		}
	}
	// the same with 7..40 bytes remaining from the start byte, on pool substrings (odd addresses, foreign bytes around) and own copies
	for _, lead := range []int64{0, 5} {
		for a := int64(0); a < 8; a++ {
			for _, w := range []int{0, 1, 7, 8, 9, 15, 16, 17, 24, 25, 31, 32} {
				for rem := int64(7); rem <= 40; rem++ {
					z := vk.Mix(uint64(rem)<<20 | uint64(a)<<12 | uint64(w)<<4 | uint64(lead))
					L := lead + rem
					off := int64(z % uint64(gen.PoolLenC11-L-16))
					checker.Run(t, Case{Op: "sub", Ref: &Ref{K: "p", Off: off, Len: L}, From: int32(8*lead + a), W: w, Class: "grid-rem-7..40"})
					checker.Run(t, Case{Op: "sub", Ref: &Ref{K: "p", Off: off ^ 1 + 8, Len: L, Own: z>>60&1 == 0}, From: int32(8*lead + a), W: w, Class: "grid-rem-7..40"})
				}
			}
		}
	}
	// string lengths over every octave up to the pool size; starts around "16 bytes left", near the end, in the middle, at the head
	for _, L := range sweepSizes(3, 24, gen.PoolLenC11-64, 1) {
		z := vk.Mix(uint64(L) * 0x9e3779b97f4a7c15)
		a := int64(z >> 32 & 7)
		for oi, off := range []int64{int64(z%64) | 1, int64(z>>8%64) &^ 7, int64(z>>16%uint64(gen.PoolLenC11-L)) | 1} {
			for _, from := range []int64{8*(L-17) + a, 8*(L-16) + a, 8*(L-15) + (a+3)&7, 8*(L-5) + 3, 8*(L/2) + 5, 8*(L/3) + a, 8*(L-1) + 1, 3, 8*L - 33} {
				if from < 0 {
					continue
				}
				for _, w := range []int{32, 9} {
					checker.Run(t, Case{Op: "sub", Ref: &Ref{K: "p", Off: off, Len: L, Own: oi == 1 && L <= 1<<16 && z>>40&1 == 0}, From: int32(from), W: w, Class: "grid-length-sweep"})
				}
			}
		}
	}
	// start bits at the top of int32 (start + height no longer fits an int32)
	for d := int32(0); d <= 70; d++ {
		for _, w := range []int{0, 1, 8, 31, 32} {
			for _, s := range []string{"", "a", "\xff\xff\xff\xff\xff"} {
				checker.Run(t, Case{Op: "fromstr32", S: vk.Hex(s), From: math.MaxInt32 - d, W: w, Class: "grid-start-at-top-of-int32"})
			}
		}
		checker.Run(t, Case{Op: "pathsof", Keys: []vk.Hex{vk.Hex("ab"), vk.Hex("ab"), vk.Hex("b")}, From: math.MaxInt32 - d, W: 32, Dedup: d%2 == 0, Class: "grid-start-at-top-of-int32"})
	}
	// PathsOf start bits over every octave up to 2^27: keys that fill the window (one twice, one as an own copy), end inside it, end before it
	for _, fb := range sweepSizes(0, 23, gen.PoolLenC11-128, 2) {
		z := vk.Mix(uint64(fb)*0x9e3779b97f4a7c15 + 2)
		from := 8*fb + int64(z>>32&7)
		k0 := poolKey(fb+20+int64(z>>36&7), fb, z, z>>50&3 == 0)
		k1 := poolKey(fb+9, fb, vk.Mix(z), false)
		inside, short, cp := k0, k0, k0
		inside.Len, short.Len = fb+2, fb
		cp.Own = cp.Len <= 1<<12
		refs := []Ref{k0, inside, short, k1, cp}
		for _, h := range []int{32, 24, 7} {
			for _, dedup := range []bool{true, false} {
				checker.Run(t, Case{Op: "pathsof", Refs: refs, Idx: []int32{0, 0, 1, 1, 2, 2, 3, 0, 4, 3, 3, 1}, From: int32(from), W: h, Dedup: dedup, Class: "grid-start-sweep"})
			}
		}
	}
	// PathsOf list lengths over every octave up to 2^14 (the large ones under every GOMAXPROCS setting of a procs process)
	for _, n64 := range sweepSizes(0, vk.Pick(13, 17), vk.Pick[int64](40000, 140000), 3) {
		n := int(n64)
		z := vk.Mix(uint64(n)*0x9e3779b97f4a7c15 + 3)
		from := []int64{0, 3, 77, 8*1000 + 5}[z>>20&3]
		fb := from >> 3
		refs := []Ref{
			poolKey(fb+20, fb, z, false),
			{S: append(make([]byte, fb), 0xff, 0xff, 0xff, 0xff, 0xff)},
			poolKey(fb+2, fb, vk.Mix(z+1), false),
			poolKey(fb+40, fb, vk.Mix(z+2), true),
			poolKey(fb, fb, vk.Mix(z+3), false),
		}
		for style := 0; style < 4; style++ {
			c := Case{Op: "pathsof", Refs: refs, Laid: true, Idx: buildIdx(style, z+uint64(style), n, len(refs)), From: int32(from), W: []int{32, 24, 32, 9}[style], Dedup: style != 3 || z&1 == 0, Class: "grid-list-length-sweep"}
			if n >= 100 && style&1 == 0 { // runs; one key except every m-th position
				vk.ProcsSweep(func() { checker.Run(t, c) })
			} else {
				checker.Run(t, c)
			}
		}
	}
	// very long key lists (size thresholds): runs of equal paths that straddle every multiple of 1024
	for _, n := range []int{4095, 4096, 4097, 8192, 12288, 20011} {
		for _, run := range []int{1, 100, 1 << 20} {
			keys := make([]vk.Hex, n)
			for i := range keys {
				g := uint32(i / run)
				keys[i] = vk.Hex{byte(g >> 16), byte(g >> 8), byte(g), 0x80, byte(i)}
			}
			for _, dedup := range []bool{true, false} {
				checker.Run(t, Case{Op: "pathsof", Keys: keys, From: 0, W: 24, Dedup: dedup, Class: "grid-long-list"})
				checker.Run(t, Case{Op: "pathsof", Keys: keys, From: 3, W: 32, Dedup: dedup, Class: "grid-long-list"})
			}
		}
	}
	// key lists that cross the 32768 / 65536 / 131072 key marks (a 16-bit or 17-bit key index, work done in blocks of 64K keys):
	// one key throughout (a run of equal paths across every mark); three keys in runs of 3 (i/3: positions 32767|32768,
	// 65535|65536, 131071|131072 are inside one run) and in runs of 2 (i/2: the path changes exactly at every mark and
	// repeats right after it). Short literal keys; "a" and "a\x00" have the same path at height 8.
	marks := []int{65538, 131073}
	if vk.Thorough() {
		marks = []int{32767, 32768, 32769, 32770, 65535, 65536, 65537, 65538, 98305, 131071, 131072, 131073, 131074, 262145}
	}
	markRefs := []Ref{{S: vk.Hex("a")}, {S: vk.Hex("b")}, {S: vk.Hex("a\x00")}}
	for _, n := range marks {
		for li, lay := range []struct {
			refs []Ref
			seed uint64 // buildIdx style 1: runs of 1+seed%3
		}{{markRefs[:1], 0}, {markRefs, 2}, {markRefs, 1}} {
			idx := buildIdx(1, lay.seed, n, len(lay.refs))
			for _, dedup := range []bool{true, false} {
				if !dedup && !vk.Thorough() && (li != 1 || n != marks[0]) {
					continue
				}
				for _, fh := range [][2]int{{0, 8}, {3, 32}} {
					if fh[0] != 0 && !vk.Thorough() && li == 0 {
						continue
					}
					checker.Run(t, Case{Op: "pathsof", Refs: lay.refs, Laid: true, Idx: idx, From: int32(fh[0]), W: fh[1], Dedup: dedup, Class: "grid-list-across-64k-marks"})
				}
			}
		}
	}
	vk.MarkExhaustive("every (start bit mod 8, width 0..32, bytes remaining 0..6) x leads {0,3} x 24 fixed contents")
}

// TestLast runs at the very end of the process: huge inputs (the maximum bitmap / string) and the regression cases of that size come last, so that
// what they leave behind in the library cannot mask anything the ordinary cases would have met.
func TestLast(t *testing.T) {
	vk.SetPhase("last")
	// the maximum string: 2^28 bytes (8*len = 2^31 fits no int32), and a few bytes less
	for _, cut := range []int{0, 1, 4, 5} {
		L8 := int64(8 * (gen.MaxStrLen - cut))
		for _, w := range []int{0, 1, 7, 8, 9, 31, 32} {
			for _, from := range []int64{0, 1, 7, 8, 9, 63, 64, 8 * (gen.MaxStrLen / 2), 8*(gen.MaxStrLen/2) - 3, L8 - 104, L8 - 72, L8 - 71, L8 - 40, L8 - 39, L8 - 33, L8 - 32, L8 - 31, L8 - 9, L8 - 8, L8 - 7, L8 - 1, L8, L8 + 1, L8 + 7} {
				if from >= 0 && from <= math.MaxInt32 {
					checker.Run(t, Case{Op: "maxstr", From: int32(from), W: w, Cut: cut, Class: "grid-maximum-string"})
				}
			}
		}
	}
	// substrings of the maximum string of every length up to 2^28 bytes that END at its non-zero tail (13 bytes):
	// start bits around the end of a string of L bytes, for L over every octave
	run := func(c Case) {
		if c.From >= 0 {
			checker.Run(t, c)
		}
	}
	i32 := func(v int64) int32 {
		if v < 0 || v > math.MaxInt32 {
			return -1
		}
		return int32(v)
	}
	for _, cut := range []int64{0, 3} {
		end := gen.MaxStrLen - cut
		for _, L := range sweepSizes(4, 28, end, 4+uint64(cut)) {
			L8, a := 8*L, int64(vk.Mix(uint64(L))&7)
			r := Ref{K: "m", Off: end - L, Len: L}
			for _, from := range []int64{L8 - 104, L8 - 99, L8 - 71, L8 - 40, L8 - 39, L8 - 33, L8 - 17, L8 - 9, L8 - 1, L8, L8 + 5, 8*(L-17) + a, 8*(L-16) + a} {
				for _, w := range []int{32, 25, 9} {
					r := r
					run(Case{Op: "sub", Ref: &r, From: i32(from), W: w, Class: "last-maxstring-tail-sweep"})
				}
			}
			shorter, other := r, r
			shorter.Len--
			other.Off, other.Len = max(r.Off-8, 0), r.Off+r.Len-max(r.Off-8, 0)
			for _, from := range []int64{L8 - 39, L8 - 104 + a} {
				run(Case{Op: "pathsof", Refs: []Ref{r, r, shorter, other, {S: vk.Hex("A")}, r}, From: i32(from), W: 32, Dedup: a&1 == 0, Class: "last-maxstring-tail-sweep"})
			}
		}
	}
	// substrings that have the two non-zero bytes of the middle of the maximum string at byte X, X+1, for X over every octave up to 2^27
	for _, X := range sweepSizes(0, 27, gen.MaxStrLen/2, 6) {
		off := int64(gen.MaxStrLen/2) - X
		toEnd := gen.MaxStrLen - off
		for _, L := range []int64{toEnd, X + 2, X + 1, X + 18} {
			r := Ref{K: "m", Off: off, Len: L}
			for _, from := range []int64{8*X - 29, 8*X - 3, 8 * X, 8*X + 5, 8*X + 9} {
				for _, w := range []int{32, 9} {
					r := r
					run(Case{Op: "sub", Ref: &r, From: i32(from), W: w, Class: "last-maxstring-middle-sweep"})
				}
			}
		}
		long, dup, one, all := Ref{K: "m", Off: off, Len: X + 18}, Ref{K: "m", Off: off, Len: X + 19}, Ref{K: "m", Off: off, Len: X + 1}, Ref{K: "m", Off: off, Len: toEnd}
		for _, from := range []int64{8*X - 3, 8*X + 1} {
			for _, h := range []int{32, 9} {
				run(Case{Op: "pathsof", Refs: []Ref{long, dup, one, one, all, {S: vk.Hex("A")}, long}, From: i32(from), W: h, Dedup: X&1 == 0, Class: "last-maxstring-middle-sweep"})
			}
		}
	}
	// thorough tier only: ONE string of more than 2^28 bytes - 2^29 bytes, 8*len = 2^32 (built for this case, dropped after it):
	// windows at the head, ending at bit 2^31-1 (the last end bit FromStr32 can be told), across bit 2^31 and starting at MaxInt32
	if vk.Thorough() {
		const top = math.MaxInt32
		checker.Run(t, Case{Op: "bigstr", Len: bigStrMax, Class: "last-string-of-2^29-bytes", Wins: []Win{
			{0, 8}, {5, 32}, {top - 32, 32}, {top - 8, 8}, {top - 20, 32}, {top - 7, 8}, {top, 8}, {top, 32}, {top, 1},
		}})
	}
	checker.RegressLast(t)
}

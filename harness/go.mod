module verif/harness

go 1.23

require (
	github.com/golang/protobuf v1.4.2
	github.com/openacid/errors v0.8.1
	github.com/openacid/low v0.0.0
	google.golang.org/protobuf v1.23.0
	pgregory.net/rapid v1.3.0
)

require (
	github.com/davecgh/go-spew v1.1.1 // indirect
	github.com/openacid/must v0.1.3 // indirect
	github.com/pmezard/go-difflib v1.0.0 // indirect
	github.com/stretchr/testify v1.8.1 // indirect
	gopkg.in/yaml.v3 v3.0.1 // indirect
)

replace github.com/openacid/low => /repo

module verif/harness

go 1.23

require (
	github.com/golang/protobuf v1.4.2
	github.com/openacid/errors v0.8.1
	github.com/openacid/low v0.0.0
	google.golang.org/protobuf v1.23.0
	pgregory.net/rapid v1.3.0
)

replace github.com/openacid/low => /repo

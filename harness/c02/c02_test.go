// Package c02 decides property C02: Select32 / Select32R64 are exact and inverse to rank.
package c02

import (
	"encoding/json"
	"fmt"
	"os"
	"sort"
	"strings"
	"testing"

	"github.com/openacid/low/bitmap"
	"pgregory.net/rapid"

	"verif/harness/gen"
	"verif/harness/model"
	"verif/harness/vk"
)

// keep registers a returned result for later re-validation (set in init: the checker refers to check).
var keep func(func() string)

func init() { keep = checker.Keep }

// coldOrder decides which function of the property makes the very FIRST library call of this process:
// 0 = Select32, 1 = Select32R64. Only one call per process can be the first, so the order differs from
// process to process: it alternates with VERIF_SEED, with the shard number and between the ordinary
// process and the one that varies GOMAXPROCS (the quick tier runs both: each order occurs at every seed).
// A replay of a cold-start failure takes the order from the case file (read here, before any library call).
func coldOrder() int {
	if p := os.Getenv("VERIF_REPLAY"); p != "" {
		if raw, err := os.ReadFile(p); err == nil {
			var fc struct {
				Case Case `json:"case"`
			}
			if json.Unmarshal(raw, &fc) == nil && strings.HasPrefix(fc.Case.Style, "cold-start:") && fc.Case.Order > 0 {
				return (fc.Case.Order - 1) & 1
			}
		}
	}
	shard, _ := vk.Shard()
	k := vk.Seed() + uint64(shard)
	if vk.ProcsVaried() {
		k++
	}
	return int(k & 1)
}

var coldStartOrder = coldOrder()

// coldStart runs before anything else in the process: Select32 / Select32R64 / Rank64 are queried with
// indexes computed by the oracle (equal to what the builders return, but no builder has run yet in
// this process - e.g. an index loaded from disk). State that only the builders initialise - or that only
// ONE of the two select functions initialises (see coldOrder) - shows up.
func coldStart(order int) string {
	// three passes over the same bitmaps: every i through the function that comes first in this process, then
	// every i through the other one (the second function must not have been called while the first one is
	// probed: whatever it initialises would hide what the first one lacks), then Rank64(select(i))
	for pass := 0; pass < 3; pass++ {
		for _, w := range [][]uint64{{0x8000000000010100, 0, 0x10}, {^uint64(0), 0x0123456789abcdef, 1 << 63}, {0xb5 << 24}} {
			pos := model.Ones(w)
			var sidx, ridx []int32
			for k := 0; 32*k < len(pos); k++ {
				sidx = append(sidx, pos[32*k])
			}
			cnt := int32(0)
			for _, x := range w {
				ridx = append(ridx, cnt)
				cnt += int32(model.WordCount(x))
			}
			ridx = append(ridx, cnt)
			for i := range pos {
				next := int32(64 * len(w))
				if i+1 < len(pos) {
					next = pos[i+1]
				}
				switch {
				case pass == 2:
					if r, bit := bitmap.Rank64(w, ridx, pos[i]); r != int32(i) || bit != 1 {
						return fmt.Sprintf("first use in the process: Rank64(%#x, oracle-built index, %d) = (%d,%d), want (%d,1)", w, pos[i], r, bit, i)
					}
				case pass^order == 0:
					a, b := bitmap.Select32(w, sidx, int32(i))
					if a != pos[i] || b != next {
						return fmt.Sprintf("first use in the process: Select32(%#x, oracle-built index, %d) = (%d,%d), want (%d,%d)", w, i, a, b, pos[i], next)
					}
				default:
					a, b := bitmap.Select32R64(w, sidx, ridx, int32(i))
					if a != pos[i] || b != next {
						return fmt.Sprintf("first use in the process: Select32R64(%#x, oracle-built indexes, %d) = (%d,%d), want (%d,%d)", w, i, a, b, pos[i], next)
					}
				}
			}
		}
	}
	return ""
}

var coldStartResult = func() (msg string) {
	vk.ArmProbe("C02", Case{Style: "cold-start:the process died during its first calls of the library", Order: coldStartOrder + 1})
	defer vk.DisarmProbe()
	defer func() {
		if r := recover(); r != nil {
			msg = fmt.Sprintf("first use in the process panicked: %v", r)
		}
	}()
	msg = coldStart(coldStartOrder)
	if msg != "" {
		msg += []string{" [first call of the process: Select32]", " [first call of the process: Select32R64]"}[coldStartOrder]
	}
	return msg
}()

// TestColdStart reports what the very first library calls of this process returned.
func TestColdStart(t *testing.T) {
	vk.SetPhase("coldstart")
	vk.Label("cold-start-probe", 1)
	vk.Label([]string{"cold-start-order:Select32-first", "cold-start-order:Select32R64-first"}[coldStartOrder], 1)
	if coldStartResult != "" {
		checker.Run(t, Case{Style: "cold-start:" + coldStartResult, Order: coldStartOrder + 1})
	}
}

func TestMain(m *testing.M) { vk.Main(m, "C02") }

// TestFirst runs right after the cold-start probe, before any larger input has been seen: select index lengths
// in ASCENDING order around every power of two, so that a buffer the library grows and reuses passes through
// every capacity step exactly when an index of that length is built.
func TestFirst(t *testing.T) {
	vk.SetPhase("first")
	shard := 0
	if shard == 0 {
		// numbers of checkpoints around every power of two up to 512 (select index lengths that
		// coincide with capacity steps of a growing or pooled buffer): 32*c ones, c = 2^k + d
		for k := 0; k <= 9; k++ {
			for d := -1; d <= 1; d++ {
				c := 1<<uint(k) + d
				if c <= 0 {
					continue
				}
				for style := 0; style < 2; style++ {
					var w vk.Words
					onesLeft := 32 * c
					for i := 0; onesLeft > 0; i++ {
						x := ^uint64(0)
						if style == 1 {
							x = vk.Mix(uint64(c)*31+uint64(i)) | 1
						}
						if cnt := model.WordCount(x); cnt > onesLeft {
							for b := 63; cnt > onesLeft; b-- {
								if x>>uint(b)&1 == 1 {
									x &^= 1 << uint(b)
									cnt--
								}
							}
						}
						onesLeft -= model.WordCount(x)
						w = append(w, x)
					}
					checker.Run(t, Case{Words: w, Style: "grid-pow2-checkpoints"})
				}
			}
		}
		// every word count from 0 to 320 (no length between the small bitmaps and the large ones is left out),
		// ascending, two contents each: a density that changes with the count, and one bit in every third word
		// with the very last bit set (so the last checkpoint / the last one lies in the last word at every count)
		for nw := 0; nw <= 320; nw++ {
			spec := gen.BigSpec{N: nw, Key: vk.Mix(uint64(nw)*977 + vk.Seed()), Style: []int{0, 1, 3, 5, 2}[nw%5]}
			checker.Run(t, Case{Big: &spec, Style: "sweep-wordcount", Queries: queriesFrom(spec.Key, 64)})
			w := make(vk.Words, nw)
			for i := 0; i < nw; i += 3 {
				w[i] = 1 << (vk.Mix(uint64(nw)<<20+uint64(i)) & 63)
			}
			if nw > 0 {
				w[nw-1] |= 1<<63 | 1
			}
			checker.Run(t, Case{Words: w, Style: "sweep-wordcount-thin"})
		}
	}
}

// ladderCase: a deterministic bitmap of exactly nw words that is non-trivial AT that size (ones in the first and
// in the last word, checkpoints spread over the whole length).
//
//	kind 0: eight single bits spread evenly, the very last bit set (fewer than 32 ones in every stretch)
//	kind 1: groups of exactly 32 ones every nw/9 words (the count in front of a stretch is a multiple of 32), last word 1
//	kind 2: every word drawn (densities by key)
func ladderCase(nw int, key uint64, kind int) Case {
	q := queriesFrom(key, 96)
	switch kind {
	case 0:
		sp := &Spec{N: nw}
		for j := 0; j < 7; j++ {
			at := j * nw / 7
			if len(sp.At) == 0 || sp.At[len(sp.At)-1] < at {
				sp.At = append(sp.At, at)
				sp.W = append(sp.W, 1<<(vk.Mix(key+uint64(j))&63))
			}
		}
		if nw > 0 {
			if sp.At[len(sp.At)-1] == nw-1 {
				sp.W[len(sp.W)-1] |= 1 << 63
			} else {
				sp.At, sp.W = append(sp.At, nw-1), append(sp.W, 1<<63)
			}
		}
		return Case{Sp: sp, Style: "ladder-few-ones", Queries: q}
	case 1:
		sp := &Spec{N: nw}
		g := max(nw/9, 1)
		pats := []uint64{0xffffffff, 0xffffffff00000000, 0xffff0000ffff0000, 0x5555555555555555, 0xff00ff00ff00ff00}
		for at, j := g/2, 0; at < nw-1; at, j = at+g, j+1 {
			sp.At = append(sp.At, at)
			sp.W = append(sp.W, pats[vk.Mix(key+uint64(j))%uint64(len(pats))])
		}
		if nw > 0 {
			sp.At, sp.W = append(sp.At, nw-1), append(sp.W, 1)
		}
		return Case{Sp: sp, Style: "ladder-groups-of-32", Queries: q}
	default:
		spec := gen.BigSpec{N: nw, Key: key, Style: int(key % 6)}
		return Case{Big: &spec, Style: "ladder-drawn", Queries: q}
	}
}

// hugeSparse: a bitmap of nw >= 2^18 words with ones in the first words, around word 2^17, in the middle, in the
// last three words and at one word of every magnitude in between; everything else is empty.
func hugeSparse(nw int, key uint64) Case {
	last := uint64(0x4000000000000100)
	if key&1 == 1 {
		last = 1<<63 | 1<<62 | 1
	}
	set := map[int]uint64{
		0: 0x8000000000000001, 1: ^uint64(0), 4097: 0xf0f0,
		1<<17 - 1: 1 << 63, 1 << 17: vk.Mix(key) | 1, 1<<17 + 1: 1,
		nw / 2: ^uint64(0), nw/2 + 70: vk.Mix(key + 1),
		nw - 3: 1 << 63, nw - 2: 0x5, nw - 1: last,
	}
	for j := uint(10); 1<<j < nw-4; j++ {
		at := 1<<j + int(vk.Mix(key+uint64(j))%(1<<j))
		if _, taken := set[at]; !taken && at < nw-3 {
			set[at] = 1<<(vk.Mix(key^uint64(j))&63) | 1<<(vk.Mix(key+77*uint64(j))&63)
		}
	}
	sp := &Spec{N: nw}
	for at := range set {
		sp.At = append(sp.At, at)
	}
	sort.Ints(sp.At)
	for _, at := range sp.At {
		sp.W = append(sp.W, set[at])
	}
	return Case{Sp: sp, Style: "huge-sparse"}
}

// hugeDense: nw > 2^18 words, all ones except a drawn or empty word about every 1000 words: more than 2^24 ones,
// so select arguments, checkpoint positions and rank counts beyond 2^23 and 2^24 occur (odd ones included).
func hugeDense(nw int, key uint64) Case {
	sp := &Spec{N: nw, Fill: vk.U64(^uint64(0))}
	for at, j := 17, uint64(0); at < nw; at, j = at+900+int(vk.Mix(key+j)%200), j+1 {
		x := vk.Mix(key ^ j<<32)
		if j%3 == 0 {
			x = 0
		}
		sp.At, sp.W = append(sp.At, at), append(sp.W, x)
	}
	var q []int32
	for _, b := range []int32{1 << 23, 1 << 24} {
		for d := int32(-3); d <= 40; d++ {
			q = append(q, b+d)
		}
	}
	span := uint64(64*nw)*63/64 - 1<<23
	for j := uint64(0); j < 1500; j++ {
		q = append(q, int32(1<<23+vk.Mix(key+j*0x9e37)%span))
	}
	return Case{Sp: sp, Style: "huge-dense", Queries: q}
}

type Case struct {
	Max     int          `json:"max,omitempty"` // v+1: the maximum bitmap of exactly 2^25 words = 2^31 bits, description v (gen.UseMax)
	Words   vk.Words     `json:"words,omitempty"`
	Big     *gen.BigSpec `json:"big,omitempty"`
	Sp      *Spec        `json:"sp,omitempty"` // a fill word plus explicit exception words (long empty runs, very large bitmaps)
	Style   string       `json:"style,omitempty"`
	Queries []int32      `json:"queries,omitempty"` // extra i for bitmaps with more than allUpTo ones (taken mod n)
	Order   int          `json:"order,omitempty"`   // cold-start cases only: 1 + coldOrder of the process that failed
}

func (c Case) words() []uint64 {
	if c.Big != nil {
		return c.Big.Expand()
	}
	if c.Sp != nil {
		return c.Sp.Expand()
	}
	return c.Words
}

// Spec describes a bitmap of N words compactly: every word is Fill except the words At[k] = W[k]. Runs of
// thousands of empty words between 1-bits and bitmaps of millions of words are a few numbers in the case file.
type Spec struct {
	N    int      `json:"n"`
	Fill vk.U64   `json:"fill,omitempty"`
	At   []int    `json:"at,omitempty"`
	W    vk.Words `json:"w,omitempty"`
}

// specMaxWords: positions and the end position 64*N must fit an int32 for the ordinary check (the bitmap of
// exactly 2^25 words is Case.Max).
const specMaxWords = 1<<25 - 1

// Expand is a pure function of the description (entries that do not fit are ignored, later entries win).
func (s *Spec) Expand() []uint64 {
	n := s.N
	if n < 0 {
		n = 0
	}
	if n > specMaxWords {
		n = specMaxWords
	}
	w := make([]uint64, n)
	if s.Fill != 0 {
		for i := range w {
			w[i] = uint64(s.Fill)
		}
	}
	for k, at := range s.At {
		if at >= 0 && at < n && k < len(s.W) {
			w[at] = s.W[k]
		}
	}
	return w
}

// onesOf is the oracle's list of 1-positions: the naive scan of every bit, or - for a Spec whose fill word is
// empty - the same scan restricted to the listed words (all other words are 0 by construction).
func onesOf(c Case, orig []uint64) []int32 {
	if c.Sp == nil || c.Sp.Fill != 0 {
		return model.Ones(orig)
	}
	idx := make([]int, 0, len(c.Sp.At))
	for _, at := range c.Sp.At {
		if at >= 0 && at < len(orig) {
			idx = append(idx, at)
		}
	}
	sort.Ints(idx)
	var out []int32
	for j, k := range idx {
		if j > 0 && idx[j-1] == k {
			continue
		}
		for b := 0; b < 64; b++ {
			if orig[k]>>uint(b)&1 == 1 {
				out = append(out, int32(64*k+b))
			}
		}
	}
	return out
}

const allUpTo = 4096

// boundaryAllUpTo: up to this many ones every i = -1, 0, 1 mod 32 is queried.
const boundaryAllUpTo = 5 << 20

// reuseUpTo: larger bitmaps are not copied into the reused argument buffer (it is never released).
const reuseUpTo = 1 << 17

// othersInFull: see "index builders on other bitmaps" in check.
const othersInFull = 4096

// carve returns a private copy of src of exact size (len = cap) that starts 1..8 words into a larger buffer
// whose other words are non-zero; an empty src is nil or empty-but-not-nil, as the checksum decides.
func carve(src []uint64, checksum uint64) []uint64 {
	if len(src) == 0 {
		return vk.ShapeU64(src, checksum)
	}
	off := 1 + int(vk.Mix(checksum^0xca47e)%8)
	buf := make([]uint64, off+len(src)+2)
	for i := range buf {
		buf[i] = 0xF0E1D2C3B4A59687 ^ uint64(i)
	}
	copy(buf[off:], src)
	return buf[off : off+len(src) : off+len(src)]
}

var checker = &vk.Checker[Case]{
	ID: "C02",
	Rule: "bitmaps drawn by style (select-hostile: exact-count 32k-1/32k/32k+1 ones, islands with runs of empty words, tail = last 1 at the very last bit, palette words, all densities, every 4th word empty or full) and length class " +
		"(quick: mostly up to 40 words, regularly up to 100 and 260; 1/30 of the cases 41..12000 words of every density with log-uniform size; 1/10 sparse-runs: clusters of 1..3 words separated by runs of empty words of log-uniform length up to 6000 words, up to ~20000 words, with leading/trailing runs, or the complement shape); " +
		"grid: every byte value at each byte position x 4 fills as [w] and [w,0,w] (thorough: every 16-bit pattern x 4 positions x 3 fills); 65536- and 70001-word bitmaps of six densities; a ladder of word counts 2^k-1, 2^k, 2^k+1 and three more per octave for k = 7..13 in three contents (few ones, groups of 32 ones, drawn), the 2^k+-1 sizes under every GOMAXPROCS setting of the process that varies it; first: every word count 0..320 in two contents and 32c ones for c around every power of two; " +
		"last: three sparse bitmaps of 2^18..2^23 words (ones at every magnitude of position, around word 2^17 and in the last words) and an almost full one of more than 2^18 words (more than 2^24 ones: select arguments, checkpoints and rank counts beyond 2^23 and 2^24). " +
		"Every valid i in [0,n) is queried when n <= 4096 (else 0, n-1, all i = -1,0,1 mod 32 - beyond 5*2^20 ones those of the first and last 2^15 and within 1024 of every power of two - and sampled i) through Select32, Select32R64 and Rank64(select(i)) against the naive list of 1-positions; both indexes compared entry by entry, after the index builders have been called on other bitmaps (a result aliasing library-owned memory is seen). " +
		"The bitmap is handed over as an exact-size slice inside a larger non-zero buffer or in a reused buffer with guarded spare capacity; an empty bitmap as nil or as an empty slice. " +
		"Call order: the two index builders and the two select functions are called in either order (by checksum of the case and i); the very first selects of a process (oracle-built indexes, before any builder has run) go through Select32 in one process and through Select32R64 in the other (alternating with seed, shard and the GOMAXPROCS-varying process). " +
		"Bitmaps up to 4096 words (thorough: every size) are then edited in place: one builder once more on the unchanged content, select(i0), one bit flipped (the i0-th or (i0+1)-th one cleared, or the first 0 above the i0-th one set), the OTHER builder first on the new content at the same address, both new indexes entry by entry and select(i0+1), select(i0), select(i0+2) through both functions against the edited list of 1-positions, the bit flipped back, one builder again and a last select; on the reused buffer the first select of the next case asks for the successor of the last i of the previous content. " +
		"After all calls the argument bitmap equals its private copy and the guard words in the spare capacity of the reused buffer are intact. " +
		"Thorough only: a sparse bitmap of 2^24..2^25 words, and both indexes and every select on the MAXIMUM bitmap (exactly 2^25 words = 2^31 bits, three sparse descriptions; the next-position of the last one, 2^31, fits no int32 and is not asserted). " +
		"Non-trivial: n >= 2 (so a query with i%32 != 0 runs the in-word search and the next-1 scan). Distinct by hash of the case.",
	Check:    check,
	Classify: classify,
}

func classify(c Case) (bool, []string) {
	if c.Max > 0 {
		return true, []string{"style:maximum-bitmap(2^25 words)"}
	}
	if len(c.Style) > 11 && c.Style[:11] == "cold-start:" {
		return false, []string{"cold-start-failure"}
	}
	w := c.words()
	n := 0
	gap := false
	seen := false
	zrun := 0
	longest := 0 // longest run of empty words after a 1-bit (up to the next 1-bit or to the end of the bitmap)
	for _, x := range w {
		if x == 0 {
			if seen {
				zrun++
			}
			continue
		}
		n += model.WordCount(x)
		if seen && zrun > 0 {
			gap = true
		}
		if zrun > longest {
			longest = zrun
		}
		seen, zrun = true, 0
	}
	if zrun > longest {
		longest = zrun
	}
	labels := []string{"style:" + c.Style}
	switch {
	case n == 0:
		labels = append(labels, "ones:0")
	case n == 1:
		labels = append(labels, "ones:1")
	case n < 32:
		labels = append(labels, "ones:2-31")
	case n <= allUpTo:
		labels = append(labels, "ones:32-4096")
	case n <= 1<<23:
		labels = append(labels, "ones:>4096")
	default:
		labels = append(labels, "ones:>2^23(select arguments beyond 2^23)")
	}
	switch nw := len(w); {
	case nw == 0:
		labels = append(labels, "words:0")
	case nw <= 8:
		labels = append(labels, "words:1-8")
	case nw <= 43:
		labels = append(labels, "words:9-43")
	case nw <= 64:
		labels = append(labels, "words:44-64")
	case nw <= 255:
		labels = append(labels, "words:65-255")
	case nw <= 4095:
		labels = append(labels, "words:256-4095")
	case nw <= 65535:
		labels = append(labels, "words:4096-65535")
	case nw <= 1<<18:
		labels = append(labels, "words:65536-2^18")
	default:
		labels = append(labels, "words:>2^18")
	}
	switch {
	case longest == 0:
	case longest <= 7:
		labels = append(labels, "longest-empty-run:1-7")
	case longest <= 43:
		labels = append(labels, "longest-empty-run:8-43")
	case longest <= 511:
		labels = append(labels, "longest-empty-run:44-511")
	case longest <= 8191:
		labels = append(labels, "longest-empty-run:512-8191")
	default:
		labels = append(labels, "longest-empty-run:>=8192")
	}
	if gap {
		labels = append(labels, "empty-words-between-ones")
	}
	if len(w) > 0 && w[len(w)-1]>>63 == 1 {
		labels = append(labels, "last-bit-set")
	}
	if n > 0 && (n%32 == 0 || n%32 == 1 || n%32 == 31) {
		labels = append(labels, "count-at-32k-boundary")
	}
	return n >= 2, labels
}

var scratch vk.Scratch

// checkMax: select on the largest bitmap whose positions fit an int32 (sparse oracle from its description).
// The "next" position of the LAST one would be 64*len(words) = 2^31, which no int32 holds: it is not asserted.
func checkMax(v int) *vk.Failure {
	if v < 0 || v >= gen.MaxVariants {
		return nil
	}
	w := gen.UseMax(v)
	ones := gen.MaxOnes()
	var s1, s2, r2 []int32
	if f := vk.Try("IndexSelect32/IndexSelect32R64 on 2^25 words", func() {
		s1 = bitmap.IndexSelect32(w)
		s2, r2 = bitmap.IndexSelect32R64(w)
	}); f != nil {
		return f
	}
	for name, s := range map[string][]int32{"IndexSelect32": s1, "IndexSelect32R64": s2} {
		if len(s) != (len(ones)+31)/32 {
			return vk.Failf("index-len", "2^25-word bitmap (description %d): %s has %d entries, want %d", v, name, len(s), (len(ones)+31)/32)
		}
		for k := range s {
			if int64(s[k]) != ones[32*k] {
				return vk.Failf("index-entry", "2^25-word bitmap (description %d): %s[%d] = %d, want %d", v, name, k, s[k], ones[32*k])
			}
		}
	}
	if len(r2) != gen.MaxWords+1 {
		return vk.Failf("index-len", "2^25-word bitmap: the rank index of IndexSelect32R64 has %d entries, want %d", len(r2), gen.MaxWords+1)
	}
	for i := range ones {
		var a, b, c, d int32
		if f := vk.Try(fmt.Sprintf("Select32/Select32R64(i=%d) on 2^25 words (description %d)", i, v), func() {
			a, b = bitmap.Select32(w, s1, int32(i))
			c, d = bitmap.Select32R64(w, s2, r2, int32(i))
		}); f != nil {
			return f
		}
		if int64(a) != ones[i] || int64(c) != ones[i] {
			return vk.Failf("select", "2^25-word bitmap (description %d): Select32/Select32R64(i=%d) = %d/%d, want %d", v, i, a, c, ones[i])
		}
		if i+1 < len(ones) && (int64(b) != ones[i+1] || int64(d) != ones[i+1]) {
			return vk.Failf("select-next", "2^25-word bitmap (description %d): next of Select32/Select32R64(i=%d) = %d/%d, want %d", v, i, b, d, ones[i+1])
		}
	}
	if k, bad := gen.MaxBitmapDamage(); bad {
		return vk.Failf("argument-modified", "word %d of the 2^25-word bitmap was modified", k)
	}
	return nil
}

func check(c Case) (f *vk.Failure) {
	if c.Max > 0 {
		return checkMax(c.Max - 1)
	}
	if len(c.Style) > 11 && c.Style[:11] == "cold-start:" {
		// a cold-start failure is only observable by the first calls of a process: the replay re-evaluates
		// the probe result of its own process
		if coldStartResult != "" {
			return vk.Failf("cold-start", "%s", coldStartResult)
		}
		return nil
	}
	orig := c.words()
	sum := vk.SumU64(orig) ^ vk.Hash64([]byte(c.Style))
	// what the code under test sees: a private copy of exact size that lies in the middle of a larger buffer
	// (foreign non-zero words before and behind it; an EMPTY bitmap is nil for half of the cases) ...
	words := carve(orig, sum)
	reused := len(orig) <= reuseUpTo && scratch.Reuse(vk.SumU64(orig))
	if reused {
		words = scratch.U64(orig) // ... or, every other case, a reused buffer with guarded spare capacity
	}
	// the argument belongs to the caller: after all calls it reads as before, and so does its spare capacity
	defer func() {
		if f != nil {
			return
		}
		if reused {
			if msg := scratch.Check(); msg != "" {
				f = vk.Failf("argument-spare-capacity-written", "%s", msg)
				return
			}
		}
		for i := range orig {
			if words[i] != orig[i] {
				f = vk.Failf("argument-modified", "bitmap word %d was %#x before the calls and is %#x after them", i, orig[i], words[i])
				return
			}
		}
	}()
	nw := len(words)
	pos := onesOf(c, orig)
	n := len(pos)
	end := int32(64 * nw)

	// the two builders in either order (by checksum)
	var sidx, sidx2, ridx []int32
	if f := vk.Try("IndexSelect32/IndexSelect32R64", func() {
		if vk.Mix(sum^0xb1d0)&1 == 0 {
			sidx = bitmap.IndexSelect32(words)
			sidx2, ridx = bitmap.IndexSelect32R64(words)
		} else {
			sidx2, ridx = bitmap.IndexSelect32R64(words)
			sidx = bitmap.IndexSelect32(words)
		}
	}); f != nil {
		return f
	}
	// returned indexes must stay valid while indexes of other bitmaps are built (no shared result buffers)
	if f := vk.Try("index builders on other bitmaps", func() {
		// (up to 4096 words: the complement-like bitmap in full, extended, and its first half; beyond that
		// its first half, at most 32768 words, and a short one: the builders walk every bit)
		ninv := len(orig)
		if ninv > othersInFull {
			ninv = min(ninv/2, 32768)
		}
		inv := make([]uint64, ninv, ninv+3)
		for i := range inv {
			inv[i] = ^orig[i] ^ uint64(i)*0x9e3779b97f4a7c15
		}
		others := [][]uint64{inv, append(append([]uint64{}, inv...), ^uint64(0), 0, 0x8000000000000001), inv[:len(inv)/2]}
		if len(orig) > othersInFull {
			others = [][]uint64{inv, append(append([]uint64{}, inv[:1021]...), ^uint64(0), 0, 0x8000000000000001)}
		}
		for k, other := range others {
			if (vk.Mix(sum^0x07e5)+uint64(k))&1 == 0 {
				_ = bitmap.IndexSelect32(other)
				_, _ = bitmap.IndexSelect32R64(other)
			} else {
				_, _ = bitmap.IndexSelect32R64(other)
				_ = bitmap.IndexSelect32(other)
			}
		}
	}); f != nil {
		return f
	}
	vk.ScribbleI32(sidx) // what a caller's append would do to each returned index
	vk.ScribbleI32(sidx2)
	vk.ScribbleI32(ridx)
	{
		ks, kr := sidx2, ridx
		ws := make([]int32, 0, len(sidx2))
		for k := 0; 32*k < n; k++ {
			ws = append(ws, pos[32*k])
		}
		var wr []int32
		if f := vk.Try("IndexRank64(words, true)", func() { wr = append([]int32(nil), bitmap.IndexRank64(orig, true)...) }); f != nil {
			return f
		}
		keep(func() string {
			if len(ks) != len(ws) {
				return "select index changed length"
			}
			for i := range ws {
				if ks[i] != ws[i] {
					return fmt.Sprintf("IndexSelect32R64 select index entry %d was %d, now %d", i, ws[i], ks[i])
				}
			}
			for i := range wr {
				if i < len(kr) && kr[i] != wr[i] {
					return fmt.Sprintf("IndexSelect32R64 rank index entry %d was %d, now %d", i, wr[i], kr[i])
				}
			}
			return ""
		})
	}
	// selectIndexIs / rankIndexIs: an index against the oracle's list of 1-positions (at(j) for j in [0,cnt)) /
	// against the running count of the words as they are now (same words, one bit flipped: see the edit below)
	selectIndexIs := func(name string, ix []int32, cnt int, at func(int) int32) *vk.Failure {
		if want := (cnt + 31) / 32; len(ix) != want {
			return vk.Failf("select-index-len", "%s has %d entries for %d ones, want %d", name, len(ix), cnt, want)
		}
		for k := range ix {
			if ix[k] != at(32*k) {
				return vk.Failf("select-index-entry", "%s[%d] = %d, want %d", name, k, ix[k], at(32*k))
			}
		}
		return nil
	}
	rankIndexIs := func(name string, rx []int32, flipWord, delta int) *vk.Failure {
		if len(rx) != nw+1 {
			return vk.Failf("rank-index-len", "%s rank index has %d entries for %d words, want %d", name, len(rx), nw, nw+1)
		}
		cnt := int32(0)
		for k := 0; k <= nw; k++ {
			if rx[k] != cnt {
				return vk.Failf("rank-index-entry", "%s rank index [%d] = %d, want %d", name, k, rx[k], cnt)
			}
			if k < nw {
				cnt += int32(model.WordCount(orig[k]))
				if k == flipWord {
					cnt += int32(delta)
				}
			}
		}
		return nil
	}
	posAt := func(j int) int32 { return pos[j] }
	for _, e := range []struct {
		name string
		ix   []int32
	}{{"IndexSelect32", sidx}, {"IndexSelect32R64.select", sidx2}} {
		if f := selectIndexIs(e.name, e.ix, n, posAt); f != nil {
			return f
		}
	}
	if f := rankIndexIs("IndexSelect32R64", ridx, -1, 0); f != nil {
		return f
	}
	var ref []int32
	if f := vk.Try("IndexRank64(words, true)", func() { ref = bitmap.IndexRank64(words, true) }); f != nil {
		return f
	}
	if len(ref) != len(ridx) {
		return vk.Failf("rank-index-vs-IndexRank64", "rank index differs from IndexRank64(words,true) in length")
	}
	for k := range ref {
		if ref[k] != ridx[k] {
			return vk.Failf("rank-index-vs-IndexRank64", "rank index[%d]=%d differs from IndexRank64(words,true)[%d]=%d", k, ridx[k], k, ref[k])
		}
	}

	// selectPair: Select32 and Select32R64 for the same i, in either order (by checksum and i), against (wantA, wantB)
	selectPair := func(what string, s1, s2, r2 []int32, i, wantA, wantB int32, cnt int) *vk.Failure {
		var a1, b1, a2, b2 int32
		if f := vk.TryF(func() string { return fmt.Sprintf("%sSelect32/Select32R64(i=%d of %d ones)", what, i, cnt) }, func() {
			if (vk.Mix(sum^0x5e1ec7)+uint64(i))&1 == 0 {
				a1, b1 = bitmap.Select32(words, s1, i)
				a2, b2 = bitmap.Select32R64(words, s2, r2, i)
			} else {
				a2, b2 = bitmap.Select32R64(words, s2, r2, i)
				a1, b1 = bitmap.Select32(words, s1, i)
			}
		}); f != nil {
			return f
		}
		if a1 != wantA || b1 != wantB {
			return vk.Failf("select32", "%sSelect32(i=%d) = (%d,%d), want (%d,%d) [n=%d]", what, i, a1, b1, wantA, wantB, cnt)
		}
		if a2 != wantA || b2 != wantB {
			return vk.Failf("select32r64", "%sSelect32R64(i=%d) = (%d,%d), want (%d,%d) [n=%d]", what, i, a2, b2, wantA, wantB, cnt)
		}
		return nil
	}
	query := func(i int32) *vk.Failure {
		wantA := pos[i]
		wantB := end
		if int(i)+1 < n {
			wantB = pos[i+1]
		}
		if f := selectPair("", sidx, sidx2, ridx, i, wantA, wantB, n); f != nil {
			return f
		}
		var r, bit int32
		if f := vk.Try("Rank64(select(i))", func() { r, bit = bitmap.Rank64(words, ridx, wantA) }); f != nil {
			return f
		}
		if r != i || bit != 1 {
			return vk.Failf("rank-of-select", "Rank64(Select32(%d)=%d) = (%d,%d), want (%d,1)", i, wantA, r, bit, i)
		}
		return nil
	}

	// a reused buffer carried other content a moment ago, and the last select on it asked for some i: the FIRST
	// select on the new content asks for the successor i+1 (a "continue from the previous call" memo keyed by the
	// address of the bitmap is then hit with changed content)
	if reused && n > 0 && carry.valid {
		vk.Label("first-query:successor-of-the-last-query-on-the-previous-content(same address)", 1)
		if f := query(int32((int64(carry.i) + 1) % int64(n))); f != nil {
			return f
		}
	}
	if reused {
		carry.valid = false
	}
	if f := allQueries(c, n, query); f != nil {
		return f
	}
	if nw == 0 {
		return nil
	}
	// lastQuery: the last selects of the case (the next case that reuses the buffer starts with the successor of iLast)
	lastQuery := func() *vk.Failure {
		if n == 0 {
			return nil
		}
		iLast := int32(vk.Mix(sum^0x1a57) % uint64(n))
		if f := query(iLast); f != nil { // with the indexes of the very first builder calls: they describe this content
			return f
		}
		if reused {
			carry.valid, carry.i = true, iLast
		}
		return nil
	}
	if nw > vk.Pick(editUpTo, specMaxWords) {
		return lastQuery()
	}

	// ---- the caller edits the bitmap in place (one bit), rebuilds the indexes and goes on where it was:
	// builder A on the old content, builder B first on the new one (same address, same length), and the select
	// that follows select(i0) on the old content is select(i0+1) on the new one.
	i0 := 0
	if n >= 3 {
		i0 = int(vk.Mix(sum^0xed17) % uint64(n-2))
	}
	// the bit to flip and the new list of 1-positions as a function at(j), j in [0,n2)
	var flip int32
	var at func(int) int32
	n2, delta := n, 0
	clearAt := func(k int) {
		flip, n2, delta = pos[k], n-1, -1
		at = func(j int) int32 {
			if j < k {
				return pos[j]
			}
			return pos[j+1]
		}
	}
	setAt := func(p int32, k int) { // p becomes the k-th one
		flip, n2, delta = p, n+1, 1
		at = func(j int) int32 {
			switch {
			case j < k:
				return pos[j]
			case j == k:
				return p
			}
			return pos[j-1]
		}
	}
	kind := int(vk.Mix(sum^0xf11b) % 3)
	if n == 0 {
		setAt(int32(vk.Mix(sum^0x5e7b)%uint64(64*nw)), 0)
		vk.Label("edit:set-a-bit-of-an-empty-bitmap", 1)
	} else {
		if kind == 1 { // set the first 0-bit above the i0-th one (at most 256 bits further up)
			p := pos[i0] + 1
			for p < end && p-pos[i0] <= 256 && orig[p>>6]>>uint(p&63)&1 == 1 {
				p++
			}
			if p < end && p-pos[i0] <= 256 {
				setAt(p, i0+int(p-pos[i0])) // all bits between are ones
				vk.Label("edit:set-the-first-0-bit-above-the-i0-th-one", 1)
			} else {
				kind = 0
			}
		}
		if kind == 0 && i0+1 >= n {
			kind = 2
		}
		switch kind {
		case 0:
			clearAt(i0 + 1)
			vk.Label("edit:clear-the-(i0+1)-th-one", 1)
		case 2:
			clearAt(i0)
			vk.Label("edit:clear-the-i0-th-one", 1)
		}
	}
	flipWord, flipMask := int(flip>>6), uint64(1)<<uint(flip&63)

	a32 := vk.Mix(sum^0x3d17)&1 == 0 // builder A is IndexSelect32 (else IndexSelect32R64)
	var oldS, oldR, newS, newS2, newR []int32
	if f := vk.Try("index builder on the unchanged bitmap, once more", func() {
		if a32 {
			oldS = bitmap.IndexSelect32(words)
		} else {
			oldS, oldR = bitmap.IndexSelect32R64(words)
		}
	}); f != nil {
		return f
	}
	if f := selectIndexIs("(second call, same content) select index of "+builderName(a32), oldS, n, posAt); f != nil {
		return f
	}
	if !a32 {
		if f := rankIndexIs("(second call, same content) IndexSelect32R64", oldR, -1, 0); f != nil {
			return f
		}
	}
	if n > 0 {
		if f := query(int32(i0)); f != nil {
			return f
		}
	}
	words[flipWord] ^= flipMask
	if f := vk.Try("index builders after one bit of the bitmap was flipped in place", func() {
		if a32 {
			newS2, newR = bitmap.IndexSelect32R64(words)
			newS = bitmap.IndexSelect32(words)
		} else {
			newS = bitmap.IndexSelect32(words)
			newS2, newR = bitmap.IndexSelect32R64(words)
		}
	}); f != nil {
		return f
	}
	edited := fmt.Sprintf("after bit %d was flipped in place (%d -> %d ones) and the indexes were built again: ", flip, n, n2)
	if f := selectIndexIs(edited+"IndexSelect32", newS, n2, at); f != nil {
		return f
	}
	if f := selectIndexIs(edited+"IndexSelect32R64.select", newS2, n2, at); f != nil {
		return f
	}
	if f := rankIndexIs(edited+"IndexSelect32R64", newR, flipWord, delta); f != nil {
		return f
	}
	for _, j := range []int{i0 + 1, i0, i0 + 2} {
		if j >= n2 {
			continue
		}
		wantB := end
		if j+1 < n2 {
			wantB = at(j + 1)
		}
		if f := selectPair(edited, newS, newS2, newR, int32(j), at(j), wantB, n2); f != nil {
			return f
		}
	}
	words[flipWord] ^= flipMask // the old content again
	// the last builder call of the case, on the restored content (the next case that reuses the buffer starts
	// with either builder)
	z32 := vk.Mix(sum^0x2a57)&1 == 0
	var lastS, lastR []int32
	if f := vk.Try("index builder after the flipped bit was flipped back", func() {
		if z32 {
			lastS = bitmap.IndexSelect32(words)
		} else {
			lastS, lastR = bitmap.IndexSelect32R64(words)
		}
	}); f != nil {
		return f
	}
	if f := selectIndexIs("(bit flipped and flipped back) select index of "+builderName(z32), lastS, n, posAt); f != nil {
		return f
	}
	if !z32 {
		if f := rankIndexIs("(bit flipped and flipped back) IndexSelect32R64", lastR, -1, 0); f != nil {
			return f
		}
	}
	return lastQuery()
}

// carry: the i of the last select on the reused argument buffer (see check).
var carry struct {
	valid bool
	i     int32
}

// editUpTo: quick tier: larger bitmaps are not edited in place (four more index builds, each walks every bit);
// the thorough tier edits every bitmap.
const editUpTo = 1 << 12

func builderName(is32 bool) string {
	if is32 {
		return "IndexSelect32"
	}
	return "IndexSelect32R64"
}

// allQueries: every valid i up to allUpTo ones, else the boundaries and the sampled i of the case.
func allQueries(c Case, n int, query func(int32) *vk.Failure) *vk.Failure {
	if n <= allUpTo {
		for i := 0; i < n; i++ {
			if f := query(int32(i)); f != nil {
				return f
			}
		}
		return nil
	}
	boundary := func(lo, hi int) *vk.Failure { // every i = -1, 0, 1 mod 32 in [lo,hi), and 0 and n-1
		for i := max(lo, 0); i < min(hi, n); i++ {
			m := i & 31
			if i == 0 || i == n-1 || m == 0 || m == 1 || m == 31 {
				if f := query(int32(i)); f != nil {
					return f
				}
			}
		}
		return nil
	}
	if n <= boundaryAllUpTo {
		if f := boundary(0, n); f != nil {
			return f
		}
	} else {
		// tens of millions of ones: the 32k boundaries at both ends and around every power of two
		if f := boundary(0, 1<<15); f != nil {
			return f
		}
		for k := uint(15); k < 31 && 1<<k-1024 < n; k++ {
			if f := boundary(1<<k-1024, 1<<k+1024); f != nil {
				return f
			}
		}
		if f := boundary(n-1<<15, n); f != nil {
			return f
		}
	}
	for _, q := range c.Queries {
		i := int(q) % n
		if i < 0 {
			i += n
		}
		if f := query(int32(i)); f != nil {
			return f
		}
	}
	return nil
}

// logUniform draws a size in [lo,hi] (1 <= lo <= hi) whose MAGNITUDE is uniform: every octave [lo*2^j, lo*2^(j+1))
// is equally likely, so no range of sizes between the small and the largest inputs is left out.
func logUniform(t *rapid.T, lo, hi int, label string) int {
	oct := 1
	for lo<<uint(oct) <= hi {
		oct++
	}
	j := uint(gen.Uniform(t, oct, label+".oct"))
	a, b := lo<<j, min(lo<<(j+1)-1, hi)
	return a + gen.Uniform(t, b-a+1, label)
}

// queriesFrom expands one drawn key into n select arguments (taken mod the number of ones by check).
func queriesFrom(key uint64, n int) []int32 {
	q := make([]int32, n)
	for i := range q {
		q[i] = int32(vk.Mix(key+uint64(i)) >> 33)
	}
	return q
}

// genSparse: clusters of 1..3 non-empty words separated by runs of empty words whose lengths are log-uniform up to
// thousands of words (quick: bitmaps up to ~20000 words), optionally a leading and a trailing empty run; sometimes
// the complement shape (fill word all ones, the listed words anything).
func genSparse(t *rapid.T) Case {
	target := logUniform(t, 1, vk.Pick(20000, 200000), "sp.n")
	gapMax := logUniform(t, 1, vk.Pick(6000, 60000), "sp.gapmax")
	sp := &Spec{}
	style := "sparse-runs"
	if gen.Chance(t, 1, 8, "sp.full") {
		sp.Fill = vk.U64(^uint64(0))
		target = min(target, vk.Pick(3000, 20000))
		style = "full-with-exceptions"
	}
	flavour := gen.Uniform(t, 3, "sp.flavour") // 0: one or two bits per word, 1: any word, 2: both
	word := func() uint64 {
		if flavour == 0 || flavour == 2 && gen.Chance(t, 1, 2, "sp.few") {
			switch gen.Uniform(t, 4, "sp.wk") {
			case 0:
				return 1 << 63
			case 1:
				return 1
			case 2:
				return 1<<uint(gen.Uniform(t, 64, "sp.b1")) | 1<<uint(gen.Uniform(t, 64, "sp.b2"))
			default:
				return 1 << uint(gen.Uniform(t, 64, "sp.b"))
			}
		}
		return gen.Word(t, "sp.w")
	}
	pos := 0
	if gen.Chance(t, 1, 2, "sp.lead") {
		pos = logUniform(t, 1, gapMax, "sp.leadgap")
	}
	end := 0
	for len(sp.At) < 150 && pos < target {
		for k := 1 + gen.Uniform(t, 3, "sp.cluster"); k > 0; k-- {
			sp.At = append(sp.At, pos)
			sp.W = append(sp.W, word())
			pos++
		}
		end = pos
		pos += logUniform(t, 1, gapMax, "sp.gap")
	}
	sp.N = end
	if gen.Chance(t, 1, 2, "sp.trail") { // the scan for the next 1 after the last one runs to the end of the bitmap
		sp.N = pos
	}
	return Case{Sp: sp, Style: style, Queries: queriesFrom(gen.U64(t, "qkey"), 128)}
}

func genCase(t *rapid.T) Case {
	class := gen.Uniform(t, 120, "class")
	if class < 4 { // 1/30: larger bitmaps of every density, sizes of every magnitude
		var spec gen.BigSpec
		if vk.Thorough() && gen.Chance(t, 1, 8, "huge") {
			spec = gen.Big(t, 66000, 70001, "big")
		} else {
			spec = gen.Big(t, 65, 65, "big")
			spec.N = logUniform(t, 41, vk.Pick(12000, 8192), "big.size")
		}
		return Case{Big: &spec, Style: "big", Queries: queriesFrom(gen.U64(t, "qkey"), 384)}
	}
	if class < 16 { // 1/10
		return genSparse(t)
	}
	// word counts: mostly up to 40 (every i is queried, cheap), but no count up to 260 is left out
	maxWords := vk.Pick(40, 1024)
	switch gen.Uniform(t, 8, "maxwords") {
	case 5, 6:
		maxWords = vk.Pick(100, 1024)
	case 7:
		maxWords = vk.Pick(260, 2048)
	}
	w, style := gen.Bitmap(t, maxWords, "bm")
	// boost the select-hostile shapes: push some bitmaps to have trailing/leading empty words
	switch gen.Uniform(t, 6, "post") {
	case 0: // append empty words after the last one
		k := rapid.IntRange(1, 3).Draw(t, "trailzeros")
		w = append(w, make([]uint64, k)...)
		style += "+trailing-empty"
	case 1: // make the last 1-bit the very last bit
		if len(w) > 0 {
			w[len(w)-1] |= 1 << 63
			style += "+lastbit"
		}
	case 2: // element-wise mix: every 4th word (one residue) empty or full
		if len(w) >= 4 {
			x := uint64(0)
			if gen.Chance(t, 1, 2, "mixfull") {
				x = ^uint64(0)
			}
			for i := gen.Uniform(t, 4, "mixres"); i < len(w); i += 4 {
				w[i] = x
			}
			style += "+every4th-empty-or-full"
		}
	}
	var q []int32
	if len(w) > allUpTo/64 {
		q = queriesFrom(gen.U64(t, "qkey"), 128)
	}
	return Case{Words: w, Style: style, Queries: q}
}

func TestRegress(t *testing.T) { checker.Regress(t) }

func TestProp(t *testing.T) { checker.Prop(t, genCase) }

func FuzzProp(f *testing.F) { checker.Fuzz(f, genCase) }

// TestGrid: every byte value at every byte position over 4 fills (quick), every
// 16-bit pattern x 4 positions x 3 fills (thorough); each as [w] and [w,0,w].
func TestGrid(t *testing.T) {
	vk.SetPhase("grid")
	shard, nshards := vk.Shard()
	count := 0
	run := func(w uint64) {
		count++
		if count%nshards != shard {
			return
		}
		checker.Run(t, Case{Words: vk.Words{w}, Style: "grid1"})
		checker.Run(t, Case{Words: vk.Words{w, 0, w}, Style: "grid3"})
	}
	fills := []uint64{0, ^uint64(0), 0x5555555555555555, 0xaaaaaaaaaaaaaaaa}
	for _, fill := range fills {
		for p := 0; p < 8; p++ {
			for b := 0; b < 256; b++ {
				run(fill&^(0xff<<uint(8*p)) | uint64(b)<<uint(8*p))
			}
		}
	}
	if shard == 0 { // a few very large bitmaps in every run
		for style := 0; style <= 5; style++ {
			for _, n := range []int{65536, 70001} {
				spec := gen.BigSpec{N: n, Key: uint64(7000*style + n), Style: style}
				q := make([]int32, 300)
				for i := range q {
					q[i] = int32(vk.Mix(uint64(i)+spec.Key) >> 33)
				}
				checker.Run(t, Case{Big: &spec, Style: "grid-big", Queries: q})
			}
		}
	}
	if shard == 0 {
		// a ladder of sizes from 127 to 16383 words: 2^k-1, 2^k, 2^k+1 (each under every GOMAXPROCS setting of a
		// process that varies it) and three more sizes inside every octave (they depend on VERIF_SEED)
		for k := uint(7); k <= 13; k++ {
			sizes := []int{1<<k - 1, 1 << k, 1<<k + 1}
			for j := uint64(0); j < 3; j++ {
				sizes = append(sizes, 1<<k+2+int(vk.Mix(vk.Seed()<<8+uint64(k)<<2+j)%(1<<k-2)))
			}
			for si, nw := range sizes {
				for kind := 0; kind < 3; kind++ {
					c := ladderCase(nw, vk.Mix(uint64(nw)<<3+uint64(kind)+vk.Seed()<<40), kind)
					if si < 3 && (kind < 2 || k <= 10) {
						vk.ProcsSweep(func() { checker.Run(t, c) })
					} else {
						checker.Run(t, c)
					}
				}
			}
		}
	}
	what := "every byte value x 8 byte positions x 4 fills as [w] and [w,0,w], every i"
	if vk.Thorough() {
		for _, fill := range fills[:3] {
			for p := 0; p < 4; p++ {
				for b := 0; b < 65536; b++ {
					run(fill&^(0xffff<<uint(16*p)) | uint64(b)<<uint(16*p))
				}
			}
		}
		what += "; every 16-bit pattern x 4 positions x 3 fills"
	}
	vk.MarkExhaustive(what)
}

// TestLast runs at the very end of the process: the maximum bitmap comes last, so that what it leaves behind in
// the library cannot mask anything the ordinary cases would have met.
func TestLast(t *testing.T) {
	vk.SetPhase("last")
	// very large bitmaps in every run: positions, checkpoints, rank counts and select arguments of every magnitude
	// up to 2^29 (quick) between the 70001-word bitmaps of the grid and the maximum bitmap
	seed := vk.Seed()
	checker.Run(t, hugeSparse(1<<18+1+int(vk.Mix(seed)%4096), vk.Mix(seed+1)))
	checker.Run(t, hugeDense(1<<18+1<<14+int(vk.Mix(seed+2)%4096), vk.Mix(seed+3)))
	checker.Run(t, hugeSparse(1<<20+int(vk.Mix(seed+4)%(1<<18)), vk.Mix(seed+5)))
	checker.Run(t, hugeSparse(1<<21+int(vk.Mix(seed+6)%(3<<21)), vk.Mix(seed+7)))
	if vk.Thorough() { // exactly 2^31 bits (the index builders walk every bit: seconds per builder, thorough only)
		checker.Run(t, hugeSparse(1<<24+int(vk.Mix(seed+8)%(1<<24-1)), vk.Mix(seed+9)))
		for _, v := range []int{0, 1, 2} {
			checker.Run(t, Case{Max: v + 1, Style: "maximum"})
		}
	}
	checker.RegressLast(t)
}

// Package c02 decides property C02: Select32 / Select32R64 are exact and inverse to rank.
package c02

import (
	"fmt"
	"testing"

	"github.com/openacid/low/bitmap"
	"pgregory.net/rapid"

	"verif/harness/gen"
	"verif/harness/model"
	"verif/harness/vk"
)

// keep registers a returned result for later re-validation (set in init: the checker refers to check).
var keep func(func() string)

func init() { keep = checker.Keep }

// coldStart runs before anything else in the process: Select32 / Select32R64 / Rank64 are queried with
// indexes computed by the oracle (equal to what the builders return, but no builder has run yet in
// this process - e.g. an index loaded from disk). State that only the builders initialise shows up.
func coldStart() string {
	for _, w := range [][]uint64{{0x8000000000010100, 0, 0x10}, {^uint64(0), 0x0123456789abcdef, 1 << 63}, {0xb5 << 24}} {
		pos := model.Ones(w)
		var sidx, ridx []int32
		for k := 0; 32*k < len(pos); k++ {
			sidx = append(sidx, pos[32*k])
		}
		cnt := int32(0)
		for _, x := range w {
			ridx = append(ridx, cnt)
			cnt += int32(model.WordCount(x))
		}
		ridx = append(ridx, cnt)
		for i := range pos {
			next := int32(64 * len(w))
			if i+1 < len(pos) {
				next = pos[i+1]
			}
			a, b := bitmap.Select32(w, sidx, int32(i))
			if a != pos[i] || b != next {
				return fmt.Sprintf("first use in the process: Select32(%#x, oracle-built index, %d) = (%d,%d), want (%d,%d)", w, i, a, b, pos[i], next)
			}
			a, b = bitmap.Select32R64(w, sidx, ridx, int32(i))
			if a != pos[i] || b != next {
				return fmt.Sprintf("first use in the process: Select32R64(%#x, oracle-built indexes, %d) = (%d,%d), want (%d,%d)", w, i, a, b, pos[i], next)
			}
			if r, bit := bitmap.Rank64(w, ridx, pos[i]); r != int32(i) || bit != 1 {
				return fmt.Sprintf("first use in the process: Rank64(%#x, oracle-built index, %d) = (%d,%d), want (%d,1)", w, pos[i], r, bit, i)
			}
		}
	}
	return ""
}

var coldStartResult = func() (msg string) {
	vk.ArmProbe("C02", Case{Style: "cold-start:the process died during its first calls of the library"})
	defer vk.DisarmProbe()
	defer func() {
		if r := recover(); r != nil {
			msg = fmt.Sprintf("first use in the process panicked: %v", r)
		}
	}()
	return coldStart()
}()

// TestColdStart reports what the very first library calls of this process returned.
func TestColdStart(t *testing.T) {
	vk.SetPhase("coldstart")
	vk.Label("cold-start-probe", 1)
	if coldStartResult != "" {
		checker.Run(t, Case{Style: "cold-start:" + coldStartResult})
	}
}

func TestMain(m *testing.M) { vk.Main(m, "C02") }

// TestFirst runs right after the cold-start probe, before any larger input has been seen: select index lengths
// in ASCENDING order around every power of two, so that a buffer the library grows and reuses passes through
// every capacity step exactly when an index of that length is built.
func TestFirst(t *testing.T) {
	vk.SetPhase("first")
	shard := 0
	if shard == 0 {
		// numbers of checkpoints around every power of two up to 512 (select index lengths that
		// coincide with capacity steps of a growing or pooled buffer): 32*c ones, c = 2^k + d
		for k := 0; k <= 9; k++ {
			for d := -1; d <= 1; d++ {
				c := 1<<uint(k) + d
				if c <= 0 {
					continue
				}
				for style := 0; style < 2; style++ {
					var w vk.Words
					onesLeft := 32 * c
					for i := 0; onesLeft > 0; i++ {
						x := ^uint64(0)
						if style == 1 {
							x = vk.Mix(uint64(c)*31+uint64(i)) | 1
						}
						if cnt := model.WordCount(x); cnt > onesLeft {
							for b := 63; cnt > onesLeft; b-- {
								if x>>uint(b)&1 == 1 {
									x &^= 1 << uint(b)
									cnt--
								}
							}
						}
						onesLeft -= model.WordCount(x)
						w = append(w, x)
					}
					checker.Run(t, Case{Words: w, Style: "grid-pow2-checkpoints"})
				}
			}
		}
	}
}

type Case struct {
	Max     int          `json:"max,omitempty"` // v+1: the maximum bitmap of exactly 2^25 words = 2^31 bits, description v (gen.UseMax)
	Words   vk.Words     `json:"words,omitempty"`
	Big     *gen.BigSpec `json:"big,omitempty"`
	Style   string       `json:"style,omitempty"`
	Queries []int32      `json:"queries,omitempty"` // extra i for bitmaps with more than allUpTo ones (taken mod n)
}

func (c Case) words() []uint64 {
	if c.Big != nil {
		return c.Big.Expand()
	}
	return c.Words
}

const allUpTo = 4096

var checker = &vk.Checker[Case]{
	ID: "C02",
	Rule: "bitmaps drawn by style (select-hostile: exact-count 32k-1/32k/32k+1 ones, islands with runs of empty words, tail = last 1 at the very last bit, palette words, all densities) and length class; " +
		"grid: every byte value at each byte position x 4 fills as [w] and [w,0,w] (thorough: every 16-bit pattern x 4 positions x 3 fills); every valid i in [0,n) is queried when n <= 4096 " +
		"(else 0, n-1, all i = -1,0,1 mod 32 and sampled i) through Select32, Select32R64 and Rank64(select(i)) against the naive list of 1-positions; both indexes compared entry by entry, after the index builders have been called on other bitmaps (a result aliasing library-owned memory is seen). " +
		"Thorough only: both indexes and every select on the MAXIMUM bitmap (exactly 2^25 words = 2^31 bits, two sparse descriptions; the next-position of the last one, 2^31, fits no int32 and is not asserted). " +
		"Non-trivial: n >= 2 (so a query with i%32 != 0 runs the in-word search and the next-1 scan). Distinct by hash of the case.",
	Check:    check,
	Classify: classify,
}

func classify(c Case) (bool, []string) {
	if c.Max > 0 {
		return true, []string{"style:maximum-bitmap(2^25 words)"}
	}
	if len(c.Style) > 11 && c.Style[:11] == "cold-start:" {
		return false, []string{"cold-start-failure"}
	}
	w := c.words()
	n := 0
	gap := false
	seen := false
	zrun := 0
	for _, x := range w {
		n += model.WordCount(x)
		if x == 0 {
			if seen {
				zrun++
			}
		} else {
			if seen && zrun > 0 {
				gap = true
			}
			seen, zrun = true, 0
		}
	}
	labels := []string{"style:" + c.Style}
	switch {
	case n == 0:
		labels = append(labels, "ones:0")
	case n == 1:
		labels = append(labels, "ones:1")
	case n < 32:
		labels = append(labels, "ones:2-31")
	case n <= allUpTo:
		labels = append(labels, "ones:32-4096")
	default:
		labels = append(labels, "ones:>4096")
	}
	if gap {
		labels = append(labels, "empty-words-between-ones")
	}
	if len(w) > 0 && w[len(w)-1]>>63 == 1 {
		labels = append(labels, "last-bit-set")
	}
	if n > 0 && (n%32 == 0 || n%32 == 1 || n%32 == 31) {
		labels = append(labels, "count-at-32k-boundary")
	}
	return n >= 2, labels
}

var scratch vk.Scratch

// checkMax: select on the largest bitmap whose positions fit an int32 (sparse oracle from its description).
// The "next" position of the LAST one would be 64*len(words) = 2^31, which no int32 holds: it is not asserted.
func checkMax(v int) *vk.Failure {
	if v < 0 || v >= gen.MaxVariants {
		return nil
	}
	w := gen.UseMax(v)
	ones := gen.MaxOnes()
	var s1, s2, r2 []int32
	if f := vk.Try("IndexSelect32/IndexSelect32R64 on 2^25 words", func() {
		s1 = bitmap.IndexSelect32(w)
		s2, r2 = bitmap.IndexSelect32R64(w)
	}); f != nil {
		return f
	}
	for name, s := range map[string][]int32{"IndexSelect32": s1, "IndexSelect32R64": s2} {
		if len(s) != (len(ones)+31)/32 {
			return vk.Failf("index-len", "2^25-word bitmap (description %d): %s has %d entries, want %d", v, name, len(s), (len(ones)+31)/32)
		}
		for k := range s {
			if int64(s[k]) != ones[32*k] {
				return vk.Failf("index-entry", "2^25-word bitmap (description %d): %s[%d] = %d, want %d", v, name, k, s[k], ones[32*k])
			}
		}
	}
	if len(r2) != gen.MaxWords+1 {
		return vk.Failf("index-len", "2^25-word bitmap: the rank index of IndexSelect32R64 has %d entries, want %d", len(r2), gen.MaxWords+1)
	}
	for i := range ones {
		var a, b, c, d int32
		if f := vk.Try(fmt.Sprintf("Select32/Select32R64(i=%d) on 2^25 words (description %d)", i, v), func() {
			a, b = bitmap.Select32(w, s1, int32(i))
			c, d = bitmap.Select32R64(w, s2, r2, int32(i))
		}); f != nil {
			return f
		}
		if int64(a) != ones[i] || int64(c) != ones[i] {
			return vk.Failf("select", "2^25-word bitmap (description %d): Select32/Select32R64(i=%d) = %d/%d, want %d", v, i, a, c, ones[i])
		}
		if i+1 < len(ones) && (int64(b) != ones[i+1] || int64(d) != ones[i+1]) {
			return vk.Failf("select-next", "2^25-word bitmap (description %d): next of Select32/Select32R64(i=%d) = %d/%d, want %d", v, i, b, d, ones[i+1])
		}
	}
	if k, bad := gen.MaxBitmapDamage(); bad {
		return vk.Failf("argument-modified", "word %d of the 2^25-word bitmap was modified", k)
	}
	return nil
}

func check(c Case) (f *vk.Failure) {
	if c.Max > 0 {
		return checkMax(c.Max - 1)
	}
	if len(c.Style) > 11 && c.Style[:11] == "cold-start:" {
		// a cold-start failure is only observable by the first calls of a process: the replay re-evaluates
		// the probe result of its own process
		if coldStartResult != "" {
			return vk.Failf("cold-start", "%s", coldStartResult)
		}
		return nil
	}
	orig := c.words()
	words := vk.Words(orig).Clone() // what the code under test sees: a private copy ...
	reused := scratch.Reuse(vk.SumU64(orig))
	if reused {
		words = scratch.U64(orig) // ... or, every other case, a reused buffer with guarded spare capacity
	}
	defer func() {
		if f == nil && reused {
			if msg := scratch.Check(); msg != "" {
				f = vk.Failf("argument-spare-capacity-written", "%s", msg)
			}
		}
		if f == nil {
			for i := range orig {
				if words[i] != orig[i] {
					f = vk.Failf("argument-modified", "bitmap word %d was modified by the select functions", i)
					break
				}
			}
		}
	}()
	nw := len(words)
	pos := model.Ones(orig)
	n := len(pos)
	end := int32(64 * nw)

	var sidx, sidx2, ridx []int32
	if f := vk.Try("IndexSelect32/IndexSelect32R64", func() {
		sidx = bitmap.IndexSelect32(words)
		sidx2, ridx = bitmap.IndexSelect32R64(words)
	}); f != nil {
		return f
	}
	// returned indexes must stay valid while indexes of other bitmaps are built (no shared result buffers)
	if f := vk.Try("index builders on other bitmaps", func() {
		inv := make([]uint64, len(orig))
		for i, x := range orig {
			inv[i] = ^x ^ uint64(i)*0x9e3779b97f4a7c15
		}
		for _, other := range [][]uint64{inv, append(append([]uint64{}, inv...), ^uint64(0), 0, 0x8000000000000001), inv[:len(inv)/2]} {
			_ = bitmap.IndexSelect32(other)
			_, _ = bitmap.IndexSelect32R64(other)
		}
	}); f != nil {
		return f
	}
	vk.ScribbleI32(sidx) // what a caller's append would do to each returned index
	vk.ScribbleI32(sidx2)
	vk.ScribbleI32(ridx)
	{
		ks, kr := sidx2, ridx
		ws := make([]int32, 0, len(sidx2))
		for k := 0; 32*k < n; k++ {
			ws = append(ws, pos[32*k])
		}
		wr := append([]int32(nil), bitmap.IndexRank64(orig, true)...)
		keep(func() string {
			if len(ks) != len(ws) {
				return "select index changed length"
			}
			for i := range ws {
				if ks[i] != ws[i] {
					return fmt.Sprintf("IndexSelect32R64 select index entry %d was %d, now %d", i, ws[i], ks[i])
				}
			}
			for i := range wr {
				if i < len(kr) && kr[i] != wr[i] {
					return fmt.Sprintf("IndexSelect32R64 rank index entry %d was %d, now %d", i, wr[i], kr[i])
				}
			}
			return ""
		})
	}
	wantEntries := (n + 31) / 32
	for name, ix := range map[string][]int32{"IndexSelect32": sidx, "IndexSelect32R64.select": sidx2} {
		if len(ix) != wantEntries {
			return vk.Failf("select-index-len", "%s has %d entries for %d ones, want %d", name, len(ix), n, wantEntries)
		}
		for k := range ix {
			if ix[k] != pos[32*k] {
				return vk.Failf("select-index-entry", "%s[%d] = %d, want %d", name, k, ix[k], pos[32*k])
			}
		}
	}
	if len(ridx) != nw+1 {
		return vk.Failf("rank-index-len", "IndexSelect32R64 rank index has %d entries for %d words, want %d", len(ridx), nw, nw+1)
	}
	cnt := int32(0)
	for k := 0; k <= nw; k++ {
		if ridx[k] != cnt {
			return vk.Failf("rank-index-entry", "IndexSelect32R64 rank index [%d] = %d, want %d", k, ridx[k], cnt)
		}
		if k < nw {
			cnt += int32(model.WordCount(orig[k]))
		}
	}
	ref := bitmap.IndexRank64(words, true)
	if len(ref) != len(ridx) {
		return vk.Failf("rank-index-vs-IndexRank64", "rank index differs from IndexRank64(words,true) in length")
	}
	for k := range ref {
		if ref[k] != ridx[k] {
			return vk.Failf("rank-index-vs-IndexRank64", "rank index[%d]=%d differs from IndexRank64(words,true)[%d]=%d", k, ridx[k], k, ref[k])
		}
	}

	query := func(i int32) *vk.Failure {
		wantA := pos[i]
		wantB := end
		if int(i)+1 < n {
			wantB = pos[i+1]
		}
		var a1, b1, a2, b2, r, bit int32
		if f := vk.Try(fmt.Sprintf("Select32/Select32R64(i=%d of %d ones)", i, n), func() {
			a1, b1 = bitmap.Select32(words, sidx, i)
			a2, b2 = bitmap.Select32R64(words, sidx2, ridx, i)
		}); f != nil {
			return f
		}
		if a1 != wantA || b1 != wantB {
			return vk.Failf("select32", "Select32(i=%d) = (%d,%d), want (%d,%d) [n=%d]", i, a1, b1, wantA, wantB, n)
		}
		if a2 != wantA || b2 != wantB {
			return vk.Failf("select32r64", "Select32R64(i=%d) = (%d,%d), want (%d,%d) [n=%d]", i, a2, b2, wantA, wantB, n)
		}
		if f := vk.Try("Rank64(select(i))", func() { r, bit = bitmap.Rank64(words, ridx, a1) }); f != nil {
			return f
		}
		if r != i || bit != 1 {
			return vk.Failf("rank-of-select", "Rank64(Select32(%d)=%d) = (%d,%d), want (%d,1)", i, a1, r, bit, i)
		}
		return nil
	}

	if n <= allUpTo {
		for i := 0; i < n; i++ {
			if f := query(int32(i)); f != nil {
				return f
			}
		}
		return nil
	}
	for i := 0; i < n; i++ {
		m := i & 31
		if i == 0 || i == n-1 || m == 0 || m == 1 || m == 31 {
			if f := query(int32(i)); f != nil {
				return f
			}
		}
	}
	for _, q := range c.Queries {
		i := int(q) % n
		if i < 0 {
			i += n
		}
		if f := query(int32(i)); f != nil {
			return f
		}
	}
	return nil
}

func genCase(t *rapid.T) Case {
	maxWords := vk.Pick(40, 1024)
	if gen.Chance(t, 1, vk.Pick(150, 40), "bigclass") {
		var spec gen.BigSpec
		if vk.Thorough() && gen.Chance(t, 1, 8, "huge") {
			spec = gen.Big(t, 66000, 70001, "big")
		} else {
			spec = gen.Big(t, 65, vk.Pick(600, 8192), "big")
		}
		q := make([]int32, 512)
		for i := range q {
			q[i] = int32(gen.U64(t, "q") >> 33)
		}
		return Case{Big: &spec, Style: "big", Queries: q}
	}
	w, style := gen.Bitmap(t, maxWords, "bm")
	// boost the select-hostile shapes: push some bitmaps to have trailing/leading empty words
	switch gen.Uniform(t, 6, "post") {
	case 0: // append empty words after the last one
		k := rapid.IntRange(1, 3).Draw(t, "trailzeros")
		w = append(w, make([]uint64, k)...)
		style += "+trailing-empty"
	case 1: // make the last 1-bit the very last bit
		if len(w) > 0 {
			w[len(w)-1] |= 1 << 63
			style += "+lastbit"
		}
	}
	return Case{Words: w, Style: style}
}

func TestRegress(t *testing.T) { checker.Regress(t) }

func TestProp(t *testing.T) { checker.Prop(t, genCase) }

func FuzzProp(f *testing.F) { checker.Fuzz(f, genCase) }

// TestGrid: every byte value at every byte position over 4 fills (quick), every
// 16-bit pattern x 4 positions x 3 fills (thorough); each as [w] and [w,0,w].
func TestGrid(t *testing.T) {
	vk.SetPhase("grid")
	shard, nshards := vk.Shard()
	count := 0
	run := func(w uint64) {
		count++
		if count%nshards != shard {
			return
		}
		checker.Run(t, Case{Words: vk.Words{w}, Style: "grid1"})
		checker.Run(t, Case{Words: vk.Words{w, 0, w}, Style: "grid3"})
	}
	fills := []uint64{0, ^uint64(0), 0x5555555555555555, 0xaaaaaaaaaaaaaaaa}
	for _, fill := range fills {
		for p := 0; p < 8; p++ {
			for b := 0; b < 256; b++ {
				run(fill&^(0xff<<uint(8*p)) | uint64(b)<<uint(8*p))
			}
		}
	}
	if shard == 0 { // a few very large bitmaps in every run
		for style := 0; style <= 5; style++ {
			for _, n := range []int{65536, 70001} {
				spec := gen.BigSpec{N: n, Key: uint64(7000*style + n), Style: style}
				q := make([]int32, 300)
				for i := range q {
					q[i] = int32(vk.Mix(uint64(i)+spec.Key) >> 33)
				}
				checker.Run(t, Case{Big: &spec, Style: "grid-big", Queries: q})
			}
		}
	}
	what := "every byte value x 8 byte positions x 4 fills as [w] and [w,0,w], every i"
	if vk.Thorough() {
		for _, fill := range fills[:3] {
			for p := 0; p < 4; p++ {
				for b := 0; b < 65536; b++ {
					run(fill&^(0xffff<<uint(16*p)) | uint64(b)<<uint(16*p))
				}
			}
		}
		what += "; every 16-bit pattern x 4 positions x 3 fills"
	}
	vk.MarkExhaustive(what)
}

// TestLast runs at the very end of the process: the maximum bitmap comes last, so that what it leaves behind in
// the library cannot mask anything the ordinary cases would have met.
func TestLast(t *testing.T) {
	vk.SetPhase("last")
	shard := 0
	if shard == 0 && vk.Thorough() { // exactly 2^31 bits (the index builders walk every bit: seconds, thorough only)
		for _, v := range []int{0, 2} {
			checker.Run(t, Case{Max: v + 1, Style: "maximum"})
		}
	}
	checker.RegressLast(t)
}

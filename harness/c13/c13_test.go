// Package c13 decides property C13: NextOne / PrevOne find the nearest 1-bit inside a range.
package c13

import (
	"fmt"
	"math"
	"math/bits"
	"sort"
	"testing"

	"github.com/openacid/low/bitmap"
	"pgregory.net/rapid"

	"verif/harness/gen"
	"verif/harness/vk"
)

func TestMain(m *testing.M) { vk.Main(m, "C13") }

// Sparse describes a bitmap of N words (1 <= N <= 2^25) compactly: word Idx[k] is W[k], every other word is 0.
// It is realised on the process-wide 2^25-word array of gen.UseMax cut to N words, so that a bitmap of millions
// of words costs nothing to write down and to set up. Indexes >= N are foreign words BEHIND the end of the
// bitmap (inside the capacity of the slice): they are not part of the bitmap.
type Sparse struct {
	N   int      `json:"n"`
	Idx []int32  `json:"idx"` // strictly ascending
	W   vk.Words `json:"w"`
}

type Case struct {
	Max    int        `json:"max,omitempty"` // v+1: the maximum bitmap of exactly 2^25 words = 2^31 bits, description v (gen.UseMax); Words is empty
	Words  vk.Words   `json:"words"`
	Sparse *Sparse    `json:"sparse,omitempty"` // when set: the bitmap (Words is empty)
	Style  string     `json:"style,omitempty"`
	Ranges [][2]int32 `json:"ranges"` // (i, end)
}

var checker = &vk.Checker[Case]{
	ID: "C13",
	Rule: "bitmaps with runs of zero words between ones and ones at offsets 0 and 63 (islands/tail/palette/sparse styles, <= 12 words, thorough <= 300) x ranges 0<=i<=end<=64*len drawn inside one word, across several, on word boundaries, empty; " +
		"NextOne (i inside the bitmap) and PrevOne (end>=1) against a naive scan. Grid: all 216 three-word bitmaps over {0,1,1<<31,1<<63,1|1<<63,^0} x ALL (i,end). " +
		"SIZES WITHOUT HOLES: 1 case in 10 is a bitmap of 13..2048 (thorough 8192) words, 1 in 20 a sparsely described one of 2^12..2^19 (thorough 2^23) words, both with a log-uniform word count; their content alternates zero runs of log-uniform length (1 word .. the whole bitmap) with short stretches of boundary/single-bit/dense words ('runs'), " +
		"or puts 16..256 non-zero words at uniformly random indexes ('comb'); their ranges are anchored on that content (from the end of one non-zero word over the zero run to/into/just short of the next one, from the middle of a run, aligned and unaligned) plus ranges of log-uniform length at uniform / near-start / near-end positions. " +
		"A deterministic sweep covers every octave of the word count from 4 to 2^25 words: sizes 2^k-1, 2^k, 2^k+1 and pseudo-random sizes inside the octave (explicit words up to 2^13+1, sparse descriptions from 2^12 to 2^25; those above 2^20 words run last in the process), the random sizes of 128..16384 words under every GOMAXPROCS setting in the process that varies it. " +
		"That process leaves the last phase out, so it scans bitmaps of 2^21 words and more in its grid: per octave from 2^21 to 2^25 words one pseudo-random size (thorough: also 2^k-1, 2^k+1), as a 'span' (ones only in the first and the last few words: every scan crosses the whole bitmap, answers in the very last word, right behind the start, or none) and as a 'comb' asked over its whole length; the 2^21 octave (thorough: all) under every GOMAXPROCS setting, the larger ones under one setting each. " +
		"Also the MAXIMUM bitmap - exactly 2^25 words = 2^31 bits, the largest one int32 positions address (three fixed sparse descriptions plus the sweep's, oracle from the description): ranges ending at 2^31-1, empty ranges at the top, scans across 2^24 zero words and scans that run off the end. " +
		"The argument reaches the library as a fresh exact-size copy, as a reused buffer with canaries in its spare capacity, or carved out of the middle of a larger array full of foreign 1-bits; it (and what surrounds it) must read the same afterwards. " +
		"Non-trivial (per case): some range spans >= 2 words and its answer is not in the first word probed, or it has no answer and >= 1 zero word is skipped. Grid ranges are distinct by construction; rapid cases hashed when the bitmap has > 3 words.",
	Check:    check,
	Classify: classify,
	Hashed:   func(c Case) bool { return len(c.Words) > 3 || c.Max > 0 || c.Sparse != nil },
}

// ---------------------------------------------------------------- oracles

// oracle answers both questions of the statement for one bitmap (positions as int64: 64*len is 2^31 for the largest bitmap).
type oracle interface {
	next(i, end int64) int64 // smallest set position in [i, end), or -1
	prev(i, end int64) int64 // largest set position in [i, end), or -1
}

// naive looks at every bit of the range in turn.
type naive []uint64

func (w naive) next(i, end int64) int64 {
	for p := i; p < end; p++ {
		if w[p/64]>>(uint64(p)%64)&1 == 1 {
			return p
		}
	}
	return -1
}

func (w naive) prev(i, end int64) int64 {
	for p := end - 1; p >= i; p-- {
		if w[p/64]>>(uint64(p)%64)&1 == 1 {
			return p
		}
	}
	return -1
}

// onesList is the ascending list of the set positions of a bitmap, collected bit by bit once per case; a
// question is then a search in that list. Used for bitmaps of more than 12 words, where looking at every bit
// of every range again would dominate the run (TestGrid cross-checks it against naive first).
type onesList []int32

func (o onesList) next(i, end int64) int64 {
	k := sort.Search(len(o), func(k int) bool { return int64(o[k]) >= i })
	if k < len(o) && int64(o[k]) < end {
		return int64(o[k])
	}
	return -1
}

func (o onesList) prev(i, end int64) int64 {
	k := sort.Search(len(o), func(k int) bool { return int64(o[k]) >= end }) // o[k-1] is the last one before end
	if k > 0 && int64(o[k-1]) >= i {
		return int64(o[k-1])
	}
	return -1
}

func appendOnes(o onesList, wordIdx int, x uint64) onesList {
	for b := 0; b < 64; b++ {
		if x>>uint(b)&1 == 1 {
			o = append(o, int32(wordIdx*64+b))
		}
	}
	return o
}

func onesOfWords(w []uint64) onesList {
	o := onesList{}
	for k, x := range w {
		o = appendOnes(o, k, x)
	}
	return o
}

func oracleOfWords(w []uint64) oracle {
	if len(w) <= 12 {
		return naive(w)
	}
	return onesOfWords(w)
}

func (s *Sparse) valid() bool {
	if s == nil || s.N < 1 || s.N > gen.MaxWords || len(s.Idx) != len(s.W) {
		return false
	}
	for k, x := range s.Idx {
		if x < 0 || int(x) >= gen.MaxWords || (k > 0 && x <= s.Idx[k-1]) {
			return false
		}
	}
	return true
}

// ones lists the set positions of the bitmap proper (words below N).
func (s *Sparse) ones() onesList {
	o := onesList{}
	for k, x := range s.Idx {
		if int(x) < s.N {
			o = appendOnes(o, int(x), s.W[k])
		}
	}
	return o
}

// ---------------------------------------------------------------- one range

// callBoth asks the library both questions about one range (where the statement defines them) and compares.
func callBoth(desc string, o oracle, w []uint64, i, end int32) *vk.Failure {
	nbits := int64(64) * int64(len(w))
	if i < 0 || i > end || int64(end) > nbits {
		return nil // outside the stated domain (never generated)
	}
	if int64(i) >= nbits {
		return nil // i == end == 64*len: i is not inside the bitmap (an implementation may index with it)
	}
	want := o.next(int64(i), int64(end))
	var got int32
	if f := vk.TryF(func() string { return fmt.Sprintf("%sNextOne(i=%d,end=%d)", desc, i, end) }, func() { got = bitmap.NextOne(w, i, end) }); f != nil {
		return f
	}
	if int64(got) != want {
		return vk.Failf("nextone", "%sNextOne(bm, %d, %d) = %d, want %d", desc, i, end, got, want)
	}
	if end >= 1 {
		want := o.prev(int64(i), int64(end))
		if f := vk.TryF(func() string { return fmt.Sprintf("%sPrevOne(i=%d,end=%d)", desc, i, end) }, func() { got = bitmap.PrevOne(w, i, end) }); f != nil {
			return f
		}
		if int64(got) != want {
			return vk.Failf("prevone", "%sPrevOne(bm, %d, %d) = %d, want %d", desc, i, end, got, want)
		}
	}
	return nil
}

func rangeNontrivial(o oracle, i, end int32) bool {
	if end <= i || (end-1)/64 == i/64 {
		return false
	}
	n := o.next(int64(i), int64(end))
	if n >= 0 && n/64 != int64(i/64) {
		return true
	}
	p := o.prev(int64(i), int64(end))
	if p >= 0 && p/64 != int64((end-1)/64) {
		return true
	}
	if n < 0 { // nothing found: at least one whole zero word was stepped over
		return (end-1)/64-i/64 >= 1
	}
	return false
}

// ---------------------------------------------------------------- the three kinds of case

// checkMax: ranges on the largest bitmap whose positions fit an int32 (sparse oracle from its description).
func checkMax(v int, ranges [][2]int32) *vk.Failure {
	if v < 0 || v >= gen.MaxVariants {
		return nil
	}
	w := gen.UseMax(v)
	for _, r := range ranges {
		i, end := r[0], r[1]
		if i < 0 || i > end {
			continue
		}
		wantN, wantP := int32(gen.MaxNext(int64(i), int64(end))), int32(gen.MaxPrev(int64(i), int64(end)))
		var got int32
		if f := vk.Try(fmt.Sprintf("NextOne(i=%d,end=%d) on 2^25 words (description %d)", i, end, v), func() { got = bitmap.NextOne(w, i, end) }); f != nil {
			return f
		}
		if got != wantN {
			return vk.Failf("nextone", "2^25-word bitmap (description %d): NextOne(bm, %d, %d) = %d, want %d", v, i, end, got, wantN)
		}
		if end >= 1 {
			if f := vk.Try(fmt.Sprintf("PrevOne(i=%d,end=%d) on 2^25 words (description %d)", i, end, v), func() { got = bitmap.PrevOne(w, i, end) }); f != nil {
				return f
			}
			if got != wantP {
				return vk.Failf("prevone", "2^25-word bitmap (description %d): PrevOne(bm, %d, %d) = %d, want %d", v, i, end, got, wantP)
			}
		}
	}
	if k, bad := gen.MaxBitmapDamage(); bad {
		return vk.Failf("mutates", "word %d of the 2^25-word bitmap was modified", k)
	}
	return nil
}

// maxRanges: ranges at the top of the int32 range, across the long zero runs and next to every set word.
func maxRanges(v int) [][2]int32 {
	gen.UseMax(v)
	top := int32(gen.MaxTop)
	rs := [][2]int32{{top, top}, {top - 1, top}, {top - 62, top}, {top - 63, top}, {top - 64, top}, {top - 65, top - 1}, {top - 200, top}, {0, top}, {1, top - 63}, {top - 127, top - 64}}
	ks := gen.MaxSetWords()
	for n, k := range ks {
		lo := int32(k) * 64
		rs = append(rs, [2]int32{lo, lo + 64}, [2]int32{lo + 1, lo + 63})
		if n+1 < len(ks) { // from just after this set word over the zero run to the next one (exclusive and inclusive of its first one)
			nx := int32(ks[n+1]) * 64
			rs = append(rs, [2]int32{lo + 64, nx}, [2]int32{lo + 64, nx + 64 - 1}, [2]int32{lo + 63, nx + 1})
		} else if int64(lo)+64 <= int64(top) {
			rs = append(rs, [2]int32{lo + 64, top}, [2]int32{lo + 1, top}) // runs off the end of the bitmap
		}
	}
	return rs
}

// checkSparse: a sparsely described bitmap of N words on the shared array (same address for every such case,
// other content each time; foreign words may sit right behind its end).
func checkSparse(s *Sparse, ranges [][2]int32) *vk.Failure {
	if !s.valid() {
		return nil
	}
	set := make(map[int]uint64, len(s.Idx))
	for k, x := range s.Idx {
		if s.W[k] != 0 {
			set[int(x)] = s.W[k]
		}
	}
	w := gen.UseMaxCustom(set)[:s.N]
	o := s.ones()
	desc := fmt.Sprintf("%d-word bitmap (sparse description): ", s.N)
	for _, r := range ranges {
		if f := callBoth(desc, o, w, r[0], r[1]); f != nil {
			return f
		}
	}
	if k, bad := gen.MaxBitmapDamage(); bad {
		return vk.Failf("mutates", "word %d of the %d-word bitmap (or of the array behind it) was modified", k, s.N)
	}
	return nil
}

func check(c Case) *vk.Failure {
	if c.Max > 0 {
		return checkMax(c.Max-1, c.Ranges)
	}
	if c.Sparse != nil {
		return checkSparse(c.Sparse, c.Ranges)
	}
	if len(c.Words) == 0 {
		return nil // no position is inside an empty bitmap
	}
	o, sum := oracleOfWords(c.Words), vk.SumU64(c.Words)
	for _, r := range c.Ranges {
		if f := checkRange(c.Words, o, sum, r[0], r[1]); f != nil {
			return f
		}
	}
	return nil
}

var scratch vk.Scratch

const carvePad = 3

func foreignWord(k int) uint64 { return 0xA5C3A5C3A5C3A5C3 ^ uint64(k)*0x0101010101010101 | 1<<63 | 1 }

// checkRange hands the bitmap over in one of three shapes (a function of the case, so that a replay takes the same one).
func checkRange(orig []uint64, o oracle, sum uint64, i, end int32) *vk.Failure {
	cs := sum + uint64(i)*7 + uint64(end)
	reused := scratch.Reuse(cs)
	var w, around []uint64
	switch {
	case reused:
		w = scratch.U64(orig) // a reused buffer: same address as earlier calls, other content, canaries in the spare capacity
	case vk.Mix(cs^0xca57ed)&3 == 0:
		// carved out of the middle of a larger array: foreign words with 1-bits at offsets 0 and 63 right before
		// the first word and right behind the last one (the latter inside the capacity of the slice)
		around = make([]uint64, len(orig)+2*carvePad)
		for k := range around {
			around[k] = foreignWord(k)
		}
		copy(around[carvePad:], orig)
		w = around[carvePad : carvePad+len(orig)]
	default:
		w = append(make([]uint64, 0, len(orig)), orig...) // private exact-size copy
	}
	if f := callBoth("", o, w, i, end); f != nil {
		return f
	}
	for k := range orig {
		if orig[k] != w[k] {
			return vk.Failf("mutates", "bitmap word %d changed by NextOne/PrevOne(%d,%d)", k, i, end)
		}
	}
	if reused {
		if msg := scratch.Check(); msg != "" {
			return vk.Failf("argument-spare-capacity-written", "NextOne/PrevOne(%d,%d): %s", i, end, msg)
		}
	}
	for k := range around {
		if (k < carvePad || k >= carvePad+len(orig)) && around[k] != foreignWord(k) {
			return vk.Failf("writes-outside-argument", "NextOne/PrevOne(%d,%d): word %d of the array the bitmap was cut from (the bitmap is words %d..%d of it) was modified", i, end, k, carvePad, carvePad+len(orig)-1)
		}
	}
	return nil
}

func sizeLabel(n int) string {
	switch {
	case n <= 3:
		return "words:1-3"
	case n <= 12:
		return "words:4-12"
	}
	k := bits.Len(uint(n)) - 1
	if n == 1<<25 {
		return "words:2^25"
	}
	return fmt.Sprintf("words:2^%d..2^%d-1", k, k+1)
}

func classify(c Case) (bool, []string) {
	if c.Max > 0 {
		return true, []string{"style:maximum-bitmap(2^25 words)", "words:2^25"}
	}
	var o oracle
	n := len(c.Words)
	if c.Sparse != nil {
		if !c.Sparse.valid() {
			return false, []string{"invalid-sparse-description"}
		}
		o, n = c.Sparse.ones(), c.Sparse.N
	} else if n == 0 {
		return false, []string{"empty-bitmap"}
	} else {
		o = oracleOfWords(c.Words)
	}
	nbits := int64(64) * int64(n)
	nt := false
	multi, empty, long := 0, 0, 0
	for _, r := range c.Ranges {
		if r[0] < 0 || r[0] > r[1] || int64(r[1]) > nbits {
			continue
		}
		if !nt && rangeNontrivial(o, r[0], r[1]) {
			nt = true
		}
		if r[1] > r[0] && (r[1]-1)/64 != r[0]/64 {
			multi++
			if (r[1]-1)/64-r[0]/64 >= 64 {
				long++
			}
		}
		if r[0] == r[1] {
			empty++
		}
	}
	labels := []string{"style:" + c.Style, sizeLabel(n)}
	if multi > 0 {
		labels = append(labels, "has-multiword-range")
	}
	if long > 0 {
		labels = append(labels, "has-range-over-64-or-more-words")
	}
	if empty > 0 {
		labels = append(labels, "has-empty-range")
	}
	if nt {
		labels = append(labels, "word-stepping-decides")
	}
	return nt, labels
}

// ---------------------------------------------------------------- content and ranges as pure functions of a key

// rng is splitmix64 in counter mode: everything derived from it is a pure function of the key (which is a rapid
// draw in TestProp and a function of size and VERIF_SEED in the sweeps); the case stores what was derived.
type rng struct{ x uint64 }

func (r *rng) u64() uint64 { r.x += 0x9e3779b97f4a7c15; return vk.Mix(r.x) }
func (r *rng) n(n int) int { return int(r.u64() % uint64(n)) }

// logU is log-uniform on [1, max]: the octave is uniform, then the value inside the octave.
func (r *rng) logU(max int) int {
	if max <= 1 {
		return 1
	}
	lo := 1 << r.n(bits.Len(uint(max)))
	hi := min(2*lo-1, max)
	return lo + r.n(hi-lo+1)
}

func (r *rng) word() uint64 {
	for {
		var w uint64
		switch r.n(11) {
		case 0:
			w = 1
		case 1:
			w = 1 << 63
		case 2:
			w = 1 | 1<<63
		case 3:
			w = ^uint64(0)
		case 4, 5:
			w = 1 << uint(r.n(64))
		case 6:
			w = 1<<uint(r.n(64)) | 1<<uint(r.n(64))
		case 7:
			w = r.u64() & r.u64() & r.u64()
		case 8:
			w = 1 << 31
		default:
			w = r.u64()
		}
		if w != 0 {
			return w
		}
	}
}

// layoutRuns: zero runs of log-uniform length (1 .. n words) alternate with stretches of 1..6 non-zero words;
// at most maxSet non-zero words (what follows stays zero). About half of the layouts start with a zero run.
func layoutRuns(r *rng, n, maxSet int) (idx []int32, w []uint64) {
	pos := 0
	if r.n(2) == 0 {
		pos = r.logU(n) - 1
	}
	for pos < n && len(idx) < maxSet {
		s := 1
		if r.n(2) == 0 {
			s = r.logU(6)
		}
		for j := 0; j < s && pos < n && len(idx) < maxSet; j++ {
			idx, w = append(idx, int32(pos)), append(w, r.word())
			pos++
		}
		pos += r.logU(n)
	}
	if r.n(3) == 0 && (len(idx) == 0 || int(idx[len(idx)-1]) < n-1) { // a one in the very last word
		lw := r.word()
		if r.n(2) == 0 {
			lw = 1 << 63
		}
		idx, w = append(idx, int32(n-1)), append(w, lw)
	}
	return idx, w
}

// layoutComb: k non-zero words at uniformly random indexes (every residue of the index modulo small powers of two occurs).
func layoutComb(r *rng, n, k int) (idx []int32, w []uint64) {
	k = max(1, min(k, n/2))
	seen := map[int32]bool{}
	for len(seen) < k {
		seen[int32(r.n(n))] = true
	}
	for x := range seen {
		idx = append(idx, x)
	}
	sort.Slice(idx, func(a, b int) bool { return idx[a] < idx[b] })
	for range idx {
		w = append(w, r.word())
	}
	return idx, w
}

func expand(n int, idx []int32, w []uint64) vk.Words {
	out := make(vk.Words, n)
	for k, x := range idx {
		out[x] = w[k]
	}
	return out
}

func mkRange(i, end, n int64) [2]int32 {
	top := min(64*n, math.MaxInt32)
	i = max(0, min(i, top))
	end = max(i, min(end, top))
	return [2]int32{int32(i), int32(end)}
}

// anchoredRanges: for (at most maxPairs) pairs of neighbouring non-zero words a < b - the start and the end of the
// bitmap count as such - ranges that make the scan walk the zero run between them: from inside a to inside b, the
// run exactly, from the middle of the run into b, from a to the middle of the run.
func anchoredRanges(r *rng, set []int32, n, maxPairs int) [][2]int32 {
	bounds := make([]int64, 0, len(set)+2)
	bounds = append(bounds, -1)
	for _, x := range set {
		bounds = append(bounds, int64(x))
	}
	bounds = append(bounds, int64(n))
	pairs := len(bounds) - 1
	var rs [][2]int32
	N := int64(n)
	for p := 0; p < pairs; p++ {
		if pairs > maxPairs && r.n(pairs) >= maxPairs {
			continue
		}
		a, b := bounds[p], bounds[p+1]
		lo, hi, gap := 64*(a+1), 64*b, b-a-1
		rs = append(rs, mkRange(lo-int64(r.n(64)), hi+1+int64(r.n(64)), N))
		if gap == 0 {
			continue
		}
		mid := func() int64 { return lo + 64*int64(r.n(int(gap))) + int64(r.n(64)) }
		rs = append(rs, mkRange(lo, hi, N), mkRange(mid(), hi+64, N), mkRange(lo-64, mid()+1, N))
		switch r.n(4) {
		case 0:
			rs = append(rs, mkRange(lo, hi+64, N))
		case 1:
			rs = append(rs, mkRange(lo-1, hi+1, N))
		case 2:
			rs = append(rs, mkRange(lo+64*int64(r.logU(int(gap))-1), hi+int64(r.n(65)), N)) // start a log-uniform number of words into the run
		}
	}
	return rs
}

// randomRanges: lengths log-uniform in words (plus a random number of bits), positions uniform, near the start or near the end.
func randomRanges(r *rng, n, count int) [][2]int32 {
	N := int64(n)
	nbits := 64 * N
	rs := make([][2]int32, 0, count)
	for k := 0; k < count; k++ {
		ln := 64*int64(r.logU(n)-1) + int64(r.n(130))
		ln = min(ln, nbits)
		var i int64
		switch r.n(3) {
		case 0:
			i = int64(r.u64() % uint64(nbits-ln+1))
		case 1:
			i = 64*int64(r.logU(n)-1) + int64(r.n(64))
		default:
			i = nbits - ln - 64*int64(r.logU(n)-1) - int64(r.n(64))
		}
		i = max(0, min(i, nbits-ln))
		end := i + ln
		if r.n(4) == 0 {
			i &^= 63
		}
		if r.n(4) == 0 {
			end = (end + 63) &^ 63
		}
		rs = append(rs, mkRange(i, end, N))
	}
	return rs
}

// explicitCase: a bitmap of n words written out in full.
func explicitCase(r *rng, n int, comb bool, maxPairs, nRandom int) Case {
	var idx []int32
	var w []uint64
	style := "long-runs"
	if comb {
		idx, w = layoutComb(r, n, 16+r.n(49))
		style = "long-comb"
	} else {
		idx, w = layoutRuns(r, n, n)
	}
	rs := append(anchoredRanges(r, idx, n, maxPairs), randomRanges(r, n, nRandom)...)
	return Case{Words: expand(n, idx, w), Style: style, Ranges: rs}
}

// sparseCase: a bitmap of n words as a sparse description, with one or two foreign words right behind its end.
func sparseCase(r *rng, n int, comb bool, maxPairs, nRandom int) Case {
	var idx []int32
	var w []uint64
	style := "sparse-runs"
	if comb {
		idx, w = layoutComb(r, n, 16+r.n(241))
		style = "sparse-comb"
	} else {
		idx, w = layoutRuns(r, n, 96)
	}
	rs := append(anchoredRanges(r, idx, n, maxPairs), randomRanges(r, n, nRandom)...)
	for d := 0; d < 2 && n+d < gen.MaxWords; d++ { // not part of the bitmap
		if d == 0 || r.n(2) == 0 {
			idx, w = append(idx, int32(n+d)), append(w, r.word()|1)
		}
	}
	return Case{Sparse: &Sparse{N: n, Idx: idx, W: w}, Style: style, Ranges: rs}
}

// drawLogSize draws a word count whose octave is uniform between 2^loOct and 2^hiOct (exclusive).
func drawLogSize(t *rapid.T, loOct, hiOct int, label string) int {
	o := loOct + gen.Uniform(t, hiOct-loOct, label+".octave")
	return 1<<o + gen.Uniform(t, 1<<o, label)
}

func genLong(t *rapid.T) Case {
	maxN := vk.Pick(2048, 8192)
	n := max(13, min(drawLogSize(t, 3, bits.Len(uint(maxN))-1, "nwords"), maxN))
	r := &rng{x: gen.U64(t, "key")}
	switch st := gen.Uniform(t, 8, "longstyle"); {
	case st < 3:
		return explicitCase(r, n, false, 12, 16)
	case st < 5:
		return explicitCase(r, n, true, 12, 16)
	default: // every word drawn alike (uniform / sparse / dense / islands / ones / one bit per word)
		spec := gen.BigSpec{N: n, Key: r.u64(), Style: gen.Uniform(t, 6, "bigstyle")}
		w := spec.Expand()
		var set []int32
		for k, x := range w {
			if x != 0 {
				set = append(set, int32(k))
			}
		}
		rs := append(anchoredRanges(r, set, n, 8), randomRanges(r, n, 32)...)
		return Case{Words: w, Style: fmt.Sprintf("long-bigspec-%d", spec.Style), Ranges: rs}
	}
}

func genSparse(t *rapid.T) Case {
	n := drawLogSize(t, 12, vk.Pick(19, 23), "nwords")
	r := &rng{x: gen.U64(t, "key")}
	return sparseCase(r, n, gen.Chance(t, 1, 3, "comb"), 10, 12)
}

func genCase(t *rapid.T) Case {
	switch sc := gen.Uniform(t, 20, "sizeclass"); {
	case sc < 2:
		return genLong(t)
	case sc < 3:
		return genSparse(t)
	}
	maxWords := vk.Pick(12, 300)
	if gen.Chance(t, 1, 30, "long") {
		maxWords = 1100 // long runs of zero words
	}
	var w []uint64
	var style string
	switch gen.Uniform(t, 4, "src") {
	case 0: // islands with exactly the boundary bits
		n := 1 + gen.Len(t, maxWords-1, "n")
		w = make([]uint64, n)
		for i := 0; i < n; {
			w[i] = rapid.SampledFrom([]uint64{1, 1 << 63, 1 | 1<<63, 1 << 31, ^uint64(0), 0}).Draw(t, "w")
			i += 1 + gen.Uniform(t, 4, "gap")
		}
		style = "boundary-islands"
	default:
		w, style = gen.Bitmap(t, maxWords, "bm")
		if len(w) == 0 {
			w = []uint64{gen.Word(t, "w0")}
		}
	}
	nbits := 64 * len(w)
	nr := vk.Pick(64, 64)
	rs := make([][2]int32, 0, nr)
	for k := 0; k < nr; k++ {
		var i, end int
		switch gen.Uniform(t, 6, "rclass") {
		case 0: // inside one word
			wi := gen.Uniform(t, len(w), "wi")
			a, b := gen.Uniform(t, 65, "a"), gen.Uniform(t, 65, "b")
			if a > b {
				a, b = b, a
			}
			i, end = 64*wi+a, 64*wi+b
		case 1: // on word boundaries
			a, b := gen.Uniform(t, len(w)+1, "a"), gen.Uniform(t, len(w)+1, "b")
			if a > b {
				a, b = b, a
			}
			i, end = 64*a, 64*b
		case 2: // boundary +- 1
			a, b := gen.Uniform(t, len(w)+1, "a"), gen.Uniform(t, len(w)+1, "b")
			if a > b {
				a, b = b, a
			}
			i, end = 64*a+gen.Uniform(t, 3, "da")-1, 64*b+gen.Uniform(t, 3, "db")-1
		case 3: // empty
			i = gen.Uniform(t, nbits+1, "i")
			end = i
		default:
			a, b := gen.Uniform(t, nbits+1, "a"), gen.Uniform(t, nbits+1, "b")
			if a > b {
				a, b = b, a
			}
			i, end = a, b
		}
		i = max(0, min(i, nbits))
		end = max(i, min(end, nbits))
		rs = append(rs, [2]int32{int32(i), int32(end)})
	}
	return Case{Words: w, Style: style, Ranges: rs}
}

func TestRegress(t *testing.T) { checker.Regress(t) }

func TestProp(t *testing.T) { checker.Prop(t, genCase) }

func FuzzProp(f *testing.F) { checker.Fuzz(f, genCase) }

// oracleSelfTest: the list oracle must agree with the bit-by-bit one (a disagreement is a harness defect: exit 2).
func oracleSelfTest(t *testing.T) {
	r := &rng{x: 0xc13}
	for round := 0; round < 300; round++ {
		n := 1 + r.n(5)
		w := make([]uint64, n)
		for k := range w {
			if r.n(3) > 0 {
				w[k] = r.word()
			}
		}
		nv, ol := naive(w), onesOfWords(w)
		sp := &Sparse{N: n}
		for k, x := range w {
			if x != 0 || r.n(4) == 0 {
				sp.Idx, sp.W = append(sp.Idx, int32(k)), append(sp.W, x)
			}
		}
		sp.Idx, sp.W = append(sp.Idx, int32(n)), append(sp.W, ^uint64(0)) // foreign word behind the end
		so := sp.ones()
		nb := int64(64 * n)
		for q := 0; q < 400; q++ {
			i, end := int64(r.n(int(nb)+1)), int64(r.n(int(nb)+1))
			if q%8 == 0 {
				i, end = i&^63, (end+63)&^63
			}
			if i > end {
				i, end = end, i
			}
			a, b, c := nv.next(i, end), ol.next(i, end), so.next(i, end)
			d, e, f := nv.prev(i, end), ol.prev(i, end), so.prev(i, end)
			if a != b || a != c || d != e || d != f || !sp.valid() {
				vk.Infra(fmt.Sprintf("C13 oracles disagree on %x [%d,%d): next %d/%d/%d prev %d/%d/%d", w, i, end, a, b, c, d, e, f))
				t.Fatalf("oracle self-test failed")
			}
		}
	}
}

// sweepSizes: 2^k-1, 2^k, 2^k+1 and some pseudo-random sizes inside the octave [2^k, 2^(k+1)); cap is the largest size allowed.
func sweepSizes(k, nRandom, cap int) (sizes []int, random []bool) {
	for _, n := range []int{1<<k - 1, 1 << k, 1<<k + 1} {
		if n <= cap {
			sizes, random = append(sizes, n), append(random, false)
		}
	}
	for j := 0; j < nRandom; j++ {
		n := 1<<k + int(vk.Mix(vk.Seed()*0x9e3779b1+uint64(k)<<8+uint64(j))%uint64(1<<k))
		if n <= cap {
			sizes, random = append(sizes, n), append(random, true)
		}
	}
	return
}

func sweepKey(n, j int) uint64 { return vk.Mix(vk.Seed()*1000003 + uint64(n)*31 + uint64(j)) }

// sparseSweep: every octave of the word count from 2^kLo to 2^kHi (sparse descriptions on the shared array).
func sparseSweep(t *testing.T, kLo, kHi int) {
	for k := kLo; k <= kHi; k++ {
		nRandom := vk.Pick(3, 8)
		if k >= 21 {
			nRandom = vk.Pick(2, 4)
		}
		sizes, random := sweepSizes(k, nRandom, gen.MaxWords)
		for j, n := range sizes {
			c := sparseCase(&rng{x: sweepKey(n, j)}, n, j%2 == 1, 1<<20, vk.Pick(24, 64))
			c.Style = "sweep-" + c.Style
			if random[j] && k <= 14 {
				vk.ProcsSweep(func() { checker.Run(t, c) })
			} else {
				checker.Run(t, c)
			}
		}
	}
}

// spanCase: a sparsely described bitmap of n words whose only ones sit in the first three and the last three words, so
// that every range below makes the scan cross (almost) the whole bitmap: from the start to the one in the very last
// word, to just short of it (no answer), from behind the first ones backwards to them, and over the empty middle.
// What a scan cut into per-CPU chunks does with the words that are left over at either end is decided here.
func spanCase(r *rng, n int) Case {
	var idx []int32
	var w []uint64
	head := r.n(3) // index of the last non-zero word at the start
	for k := 0; k <= head; k++ {
		if k == head || r.n(2) == 0 {
			idx, w = append(idx, int32(k)), append(w, r.word())
		}
	}
	tail := n - 1 - r.n(3) // index of the first non-zero word at the end
	for k := tail; k < n; k++ {
		if k == tail || r.n(2) == 0 {
			x := r.word()
			if k == n-1 && r.n(2) == 0 {
				x = 1 << 63 // only the very last position of the bitmap
			}
			idx, w = append(idx, int32(k)), append(w, x)
		}
	}
	N := int64(n)
	lo, hi := 64*int64(head+1), 64*int64(tail) // the empty middle is [lo, hi)
	rs := [][2]int32{
		mkRange(lo, 64*N, N), // NextOne: the first one of word 'tail'; PrevOne: the last one of the bitmap
		mkRange(lo-int64(r.n(64))-1, hi+1+int64(r.n(63)), N), // from inside the last word of the head into the first word of the tail
		mkRange(lo, hi, N), // nothing: both scans cross the whole middle
		mkRange(0, hi, N),  // PrevOne walks back to the head
		mkRange(0, 64*N, N),
	}
	for d := 0; d < 2 && n+d < gen.MaxWords; d++ { // not part of the bitmap
		if d == 0 || r.n(2) == 0 {
			idx, w = append(idx, int32(n+d)), append(w, r.word()|1)
		}
	}
	return Case{Sparse: &Sparse{N: n, Idx: idx, W: w}, Style: "sparse-span", Ranges: rs}
}

// combWholeCase: 16..256 non-zero words at uniformly random indexes, asked over the whole length, from behind the first
// non-zero word, up to the last one, and over a few random ranges (a scan cut into chunks must prefer the lowest /
// the highest chunk that found something).
func combWholeCase(r *rng, n int) Case {
	c := sparseCase(r, n, true, 2, 4)
	s := c.Sparse
	N := int64(n)
	first, last := int64(-1), int64(-1)
	for _, x := range s.Idx {
		if int(x) < n {
			if first < 0 {
				first = int64(x)
			}
			last = int64(x)
		}
	}
	c.Ranges = append(c.Ranges, mkRange(0, 64*N, N), mkRange(64*(first+1), 64*N, N), mkRange(0, 64*last, N), mkRange(64*(first+1)+int64(r.n(64)), 64*last-int64(r.n(64)), N))
	c.Style = "sparse-comb-whole"
	return c
}

// hugeUnderProcs: the process that varies GOMAXPROCS leaves out TestLast, where the ordinary process meets the bitmaps of
// more than 2^20 words; a scan that is handed to several goroutines only when it is huge would never run with more than
// one scheduler thread. So that process scans such bitmaps here. One full scan of 2^25 words takes tens of
// milliseconds: the quick tier sweeps the GOMAXPROCS settings on the smallest octave only.
func hugeUnderProcs(t *testing.T) {
	for k := 21; k <= 25; k++ {
		sizes, _ := sweepSizes(k, 1, gen.MaxWords) // 2^k-1, 2^k, 2^k+1, one pseudo-random size of the octave
		if !vk.Thorough() {
			sizes = sizes[len(sizes)-1:]
		}
		for j, n := range sizes {
			for kind := 0; kind < 2; kind++ {
				r := &rng{x: sweepKey(n, 100+2*j+kind)}
				var c Case
				if kind == 0 {
					c = spanCase(r, n)
				} else {
					c = combWholeCase(r, n)
				}
				c.Style = "procs-" + c.Style
				if k == 21 || vk.Thorough() {
					vk.ProcsSweep(func() { checker.Run(t, c) })
				} else {
					checker.Run(t, c)
				}
			}
		}
	}
}

// byteStructured: bitmaps whose non-zero bytes are the lead / continuation bytes of multi-byte UTF-8 sequences (and other
// byte values a byte-oriented helper treats specially: 0x80, 0xbf, 0xc0, 0xc2, 0xdf, 0xe0, 0xef, 0xf0, 0xf4, 0xf5, 0xff),
// placed so that a sequence straddles a word boundary or ends exactly at one; every scan direction, whole range and
// ranges that start / end inside the sequence. (A scan rewritten over a byte view with a rune-decoding helper is met here.)
func byteStructured(t *testing.T) {
	leads := []uint64{0xc2, 0xdf, 0xe0, 0xef, 0xf0, 0xf4, 0xc0, 0xf5, 0xff, 0x80}
	conts := []uint64{0x80, 0xbf, 0xa0, 0x90}
	n := 0
	for _, ld := range leads {
		for _, ct := range conts {
			for _, pad := range []int{0, 1, 3} { // zero words after the sequence
				for shape := 0; shape < 4; shape++ {
					var w []uint64
					switch shape {
					case 0: // lead in the top byte of word 0, continuation in the low byte of word 1
						w = []uint64{ld << 56, ct}
					case 1: // 3-byte sequence: lead and one continuation at the top of word 0, the last one in word 1
						w = []uint64{ld<<48 | ct<<56, ct}
					case 2: // the whole sequence inside word 1, ending at its top
						w = []uint64{0, ld<<48 | ct<<56}
					default: // 4 bytes across the boundary, two and two
						w = []uint64{ld<<48 | ct<<56, ct | ct<<8}
					}
					w = append(w, make([]uint64, pad)...)
					nb := int32(64 * len(w))
					rs := [][2]int32{{0, nb}, {0, nb - 1}, {1, nb}, {56, 72}, {57, nb}, {63, 65}, {64, nb}, {48, 64}, {0, 64}, {60, 128}}
					var ok [][2]int32
					for _, r := range rs {
						if r[0] >= 0 && r[0] <= r[1] && r[1] <= nb && r[0] < nb {
							ok = append(ok, r)
						}
					}
					checker.Run(t, Case{Words: w, Style: "grid-byte-structured", Ranges: ok})
					n++
				}
			}
		}
	}
	vk.Label("grid-byte-structured-bitmaps", int64(n))
}

func TestGrid(t *testing.T) {
	vk.SetPhase("grid")
	oracleSelfTest(t)
	byteStructured(t)
	pal := []uint64{0, 1, 1 << 31, 1 << 63, 1 | 1<<63, ^uint64(0)}
	var evals, nontriv int64
	for a := range pal {
		for b := range pal {
			for c := range pal {
				w := []uint64{pal[a], pal[b], pal[c]}
				o, sum := naive(w), vk.SumU64(w)
				for i := int32(0); i <= 192; i++ {
					for end := i; end <= 192; end++ {
						evals++
						if rangeNontrivial(o, i, end) {
							nontriv++
						}
						if (i+end)&63 == 0 {
							checker.Remember(Case{Words: w, Style: "grid", Ranges: [][2]int32{{i, end}}})
						}
						if f := checkRange(w, o, sum, i, end); f != nil {
							fc := Case{Words: w, Style: "grid", Ranges: [][2]int32{{i, end}}}
							if g := checker.Eval(fc); g == nil {
								vk.Infra("grid failure not reproduced by the per-case check")
							}
							t.Fatalf("VERIF-FAIL property=C13 kind=%s: %s", f.Kind, f.Msg)
						}
					}
				}
			}
		}
	}
	// size sweep, bitmaps written out in full: every octave from 4 to 2^13 words, content and ranges that make the
	// scan decide AT that size (zero runs up to the whole bitmap, ones in the last word, ranges anchored on the runs)
	for k := 2; k <= 13; k++ {
		sizes, random := sweepSizes(k, vk.Pick(4, 12), 1<<14)
		for j, n := range sizes {
			c := explicitCase(&rng{x: sweepKey(n, j)}, n, j%2 == 1, 24, vk.Pick(32, 96))
			c.Style = "sweep-" + c.Style
			if random[j] && k >= 7 { // sizes a chunked scan would cut differently for every scheduler width
				vk.ProcsSweep(func() { checker.Run(t, c) })
			} else {
				checker.Run(t, c)
			}
		}
	}
	// very long bitmaps (size thresholds): sparse ones with long zero runs, ranges keyed
	for _, n := range []int{1025, 4097, 70001} {
		for _, every := range []int{1, 9, 500, n - 1} {
			w := make(vk.Words, n)
			for i := 0; i < n; i += every {
				w[i] = 1 << (vk.Mix(uint64(i+n)) & 63)
			}
			var rs [][2]int32
			nb := uint64(64 * n)
			for k := 0; k < 400; k++ {
				a, b := int32(vk.Mix(uint64(k)*2+uint64(n))%nb), int32(vk.Mix(uint64(k)*2+1+uint64(every))%(nb+1))
				if a > b {
					a, b = b, a
				}
				rs = append(rs, [2]int32{a, b})
			}
			rs = append(rs, [2]int32{0, int32(nb)}, [2]int32{int32(nb) - 1, int32(nb)}, [2]int32{1, int32(nb) - 1})
			checker.Run(t, Case{Words: w, Style: "grid-very-long", Ranges: rs})
		}
	}
	// the sweep continues with sparsely described bitmaps (2^12 .. 2^20 words here, the rest in TestLast)
	sparseSweep(t, 12, 20)
	if vk.ProcsVaried() {
		hugeUnderProcs(t)
	}
	vk.CountConstructed(evals, nontriv, "grid-range")
	vk.AddSample(map[string]any{"grid": "216 three-word bitmaps x all (i,end)", "example": map[string]any{"words": []string{"8000000000000000", "0", "1"}, "i": 64, "end": 130, "NextOne": bitmap.NextOne([]uint64{1 << 63, 0, 1}, 64, 130), "PrevOne": bitmap.PrevOne([]uint64{1 << 63, 0, 1}, 64, 130)}})
	vk.MarkExhaustive("all 216 three-word bitmaps over a 6-word palette x all 0<=i<=end<=192")
}

// TestLast runs at the very end of the process: huge inputs (the maximum bitmap / string) and the regression cases of that size come last, so that
// what they leave behind in the library cannot mask anything the ordinary cases would have met.
func TestLast(t *testing.T) {
	vk.SetPhase("last")
	sparseSweep(t, 21, 25)                 // 2^21 .. 2^25 words: ones at word indexes all over the bitmap, zero runs up to its whole length
	for v := 0; v < gen.MaxVariants; v++ { // exactly 2^31 bits: the largest positions an int32 holds
		checker.Run(t, Case{Max: v + 1, Style: "maximum", Ranges: maxRanges(v)})
	}
	checker.RegressLast(t)
}

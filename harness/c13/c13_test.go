// Package c13 decides property C13: NextOne / PrevOne find the nearest 1-bit inside a range.
package c13

import (
	"fmt"
	"testing"

	"github.com/openacid/low/bitmap"
	"pgregory.net/rapid"

	"verif/harness/gen"
	"verif/harness/vk"
)

func TestMain(m *testing.M) { vk.Main(m, "C13") }

type Case struct {
	Max    int        `json:"max,omitempty"` // v+1: the maximum bitmap of exactly 2^25 words = 2^31 bits, description v (gen.UseMax); Words is empty
	Words  vk.Words   `json:"words"`
	Style  string     `json:"style,omitempty"`
	Ranges [][2]int32 `json:"ranges"` // (i, end)
}

var checker = &vk.Checker[Case]{
	ID: "C13",
	Rule: "bitmaps with runs of zero words between ones and ones at offsets 0 and 63 (islands/tail/palette/sparse styles, <= 12 words, thorough <= 300) x ranges 0<=i<=end<=64*len drawn inside one word, across several, on word boundaries, empty; " +
		"NextOne (i inside the bitmap) and PrevOne (end>=1) against a naive scan. Grid: all 216 three-word bitmaps over {0,1,1<<31,1<<63,1|1<<63,^0} x ALL (i,end). " +
		"Also the MAXIMUM bitmap - exactly 2^25 words = 2^31 bits, the largest one int32 positions address (three sparse descriptions, oracle from the description): ranges ending at 2^31-1, empty ranges at the top, scans across 2^24 zero words and scans that run off the end. " +
		"Non-trivial (per case): some range spans >= 2 words and its answer is not in the first word probed, or it has no answer and >= 1 zero word is skipped. Grid ranges are distinct by construction; rapid cases hashed when the bitmap has > 3 words.",
	Check:    check,
	Classify: classify,
	Hashed:   func(c Case) bool { return len(c.Words) > 3 || c.Max > 0 },
}

func naiveNext(w []uint64, i, end int32) int32 {
	for p := i; p < end; p++ {
		if w[p/64]>>(uint(p)%64)&1 == 1 {
			return p
		}
	}
	return -1
}

func naivePrev(w []uint64, i, end int32) int32 {
	for p := end - 1; p >= i; p-- {
		if w[p/64]>>(uint(p)%64)&1 == 1 {
			return p
		}
	}
	return -1
}

func checkRange1(orig, w []uint64, i, end int32) *vk.Failure {
	nbits := int32(64 * len(w))
	if i < 0 || i > end || end > nbits {
		return nil // outside the stated domain (never generated)
	}
	if i < nbits {
		want := naiveNext(orig, i, end)
		var got int32
		if f := vk.Try(fmt.Sprintf("NextOne(i=%d,end=%d)", i, end), func() { got = bitmap.NextOne(w, i, end) }); f != nil {
			return f
		}
		if got != want {
			return vk.Failf("nextone", "NextOne(bm, %d, %d) = %d, want %d", i, end, got, want)
		}
	}
	if end >= 1 && i < nbits { // (i == end == 64*len: i is not inside the bitmap; an implementation may index with it)
		want := naivePrev(orig, i, end)
		var got int32
		if f := vk.Try(fmt.Sprintf("PrevOne(i=%d,end=%d)", i, end), func() { got = bitmap.PrevOne(w, i, end) }); f != nil {
			return f
		}
		if got != want {
			return vk.Failf("prevone", "PrevOne(bm, %d, %d) = %d, want %d", i, end, got, want)
		}
	}
	return nil
}

func rangeNontrivial(w []uint64, i, end int32) bool {
	if end <= i || (end-1)/64 == i/64 {
		return false
	}
	n := naiveNext(w, i, end)
	if n >= 0 && n/64 != i/64 {
		return true
	}
	p := naivePrev(w, i, end)
	if p >= 0 && p/64 != (end-1)/64 {
		return true
	}
	if n < 0 { // nothing found: at least one whole zero word was stepped over
		return (end-1)/64-i/64 >= 1
	}
	return false
}

// checkMax: ranges on the largest bitmap whose positions fit an int32 (sparse oracle from its description).
func checkMax(v int, ranges [][2]int32) *vk.Failure {
	if v < 0 || v >= gen.MaxVariants {
		return nil
	}
	w := gen.UseMax(v)
	for _, r := range ranges {
		i, end := r[0], r[1]
		if i < 0 || i > end {
			continue
		}
		wantN, wantP := int32(gen.MaxNext(int64(i), int64(end))), int32(gen.MaxPrev(int64(i), int64(end)))
		var got int32
		if f := vk.Try(fmt.Sprintf("NextOne(i=%d,end=%d) on 2^25 words (description %d)", i, end, v), func() { got = bitmap.NextOne(w, i, end) }); f != nil {
			return f
		}
		if got != wantN {
			return vk.Failf("nextone", "2^25-word bitmap (description %d): NextOne(bm, %d, %d) = %d, want %d", v, i, end, got, wantN)
		}
		if end >= 1 {
			if f := vk.Try(fmt.Sprintf("PrevOne(i=%d,end=%d) on 2^25 words (description %d)", i, end, v), func() { got = bitmap.PrevOne(w, i, end) }); f != nil {
				return f
			}
			if got != wantP {
				return vk.Failf("prevone", "2^25-word bitmap (description %d): PrevOne(bm, %d, %d) = %d, want %d", v, i, end, got, wantP)
			}
		}
	}
	if k, bad := gen.MaxBitmapDamage(); bad {
		return vk.Failf("mutates", "word %d of the 2^25-word bitmap was modified", k)
	}
	return nil
}

// maxRanges: ranges at the top of the int32 range, across the long zero runs and next to every set word.
func maxRanges(v int) [][2]int32 {
	gen.UseMax(v)
	top := int32(gen.MaxTop)
	rs := [][2]int32{{top, top}, {top - 1, top}, {top - 62, top}, {top - 63, top}, {top - 64, top}, {top - 65, top - 1}, {top - 200, top}, {0, top}, {1, top - 63}, {top - 127, top - 64}}
	ks := gen.MaxSetWords()
	for n, k := range ks {
		lo := int32(k) * 64
		rs = append(rs, [2]int32{lo, lo + 64}, [2]int32{lo + 1, lo + 63})
		if n+1 < len(ks) { // from just after this set word over the zero run to the next one (exclusive and inclusive of its first one)
			nx := int32(ks[n+1]) * 64
			rs = append(rs, [2]int32{lo + 64, nx}, [2]int32{lo + 64, nx + 64 - 1}, [2]int32{lo + 63, nx + 1})
		} else if int64(lo)+64 <= int64(top) {
			rs = append(rs, [2]int32{lo + 64, top}, [2]int32{lo + 1, top}) // runs off the end of the bitmap
		}
	}
	return rs
}

func check(c Case) *vk.Failure {
	if c.Max > 0 {
		return checkMax(c.Max-1, c.Ranges)
	}
	for _, r := range c.Ranges {
		if f := checkRange(c.Words, r[0], r[1]); f != nil {
			return f
		}
	}
	return nil
}

var scratch vk.Scratch

func checkRange(orig []uint64, i, end int32) *vk.Failure {
	w := append(make([]uint64, 0, len(orig)), orig...) // private copy for the code under test ...
	reused := scratch.Reuse(vk.SumU64(orig) + uint64(i)*7 + uint64(end))
	if reused {
		w = scratch.U64(orig) // ... or a reused buffer: same address as earlier calls, other content
	}
	if f := checkRange1(orig, w, i, end); f != nil {
		return f
	}
	for k := range orig {
		if orig[k] != w[k] {
			return vk.Failf("mutates", "bitmap word %d changed by NextOne/PrevOne(%d,%d)", k, i, end)
		}
	}
	if reused {
		if msg := scratch.Check(); msg != "" {
			return vk.Failf("argument-spare-capacity-written", "NextOne/PrevOne(%d,%d): %s", i, end, msg)
		}
	}
	return nil
}

func classify(c Case) (bool, []string) {
	if c.Max > 0 {
		return true, []string{"style:maximum-bitmap(2^25 words)"}
	}
	nt := false
	multi, empty := 0, 0
	for _, r := range c.Ranges {
		if rangeNontrivial(c.Words, r[0], r[1]) {
			nt = true
		}
		if r[1] > r[0] && (r[1]-1)/64 != r[0]/64 {
			multi++
		}
		if r[0] == r[1] {
			empty++
		}
	}
	labels := []string{"style:" + c.Style}
	if multi > 0 {
		labels = append(labels, "has-multiword-range")
	}
	if empty > 0 {
		labels = append(labels, "has-empty-range")
	}
	if nt {
		labels = append(labels, "word-stepping-decides")
	}
	return nt, labels
}

func genCase(t *rapid.T) Case {
	maxWords := vk.Pick(12, 300)
	if gen.Chance(t, 1, 30, "long") {
		maxWords = 1100 // long runs of zero words
	}
	var w []uint64
	var style string
	switch gen.Uniform(t, 4, "src") {
	case 0: // islands with exactly the boundary bits
		n := 1 + gen.Len(t, maxWords-1, "n")
		w = make([]uint64, n)
		for i := 0; i < n; {
			w[i] = rapid.SampledFrom([]uint64{1, 1 << 63, 1 | 1<<63, 1 << 31, ^uint64(0), 0}).Draw(t, "w")
			i += 1 + gen.Uniform(t, 4, "gap")
		}
		style = "boundary-islands"
	default:
		w, style = gen.Bitmap(t, maxWords, "bm")
		if len(w) == 0 {
			w = []uint64{gen.Word(t, "w0")}
		}
	}
	nbits := 64 * len(w)
	nr := vk.Pick(64, 64)
	rs := make([][2]int32, 0, nr)
	for k := 0; k < nr; k++ {
		var i, end int
		switch gen.Uniform(t, 6, "rclass") {
		case 0: // inside one word
			wi := gen.Uniform(t, len(w), "wi")
			a, b := gen.Uniform(t, 65, "a"), gen.Uniform(t, 65, "b")
			if a > b {
				a, b = b, a
			}
			i, end = 64*wi+a, 64*wi+b
		case 1: // on word boundaries
			a, b := gen.Uniform(t, len(w)+1, "a"), gen.Uniform(t, len(w)+1, "b")
			if a > b {
				a, b = b, a
			}
			i, end = 64*a, 64*b
		case 2: // boundary +- 1
			a, b := gen.Uniform(t, len(w)+1, "a"), gen.Uniform(t, len(w)+1, "b")
			if a > b {
				a, b = b, a
			}
			i, end = 64*a+gen.Uniform(t, 3, "da")-1, 64*b+gen.Uniform(t, 3, "db")-1
		case 3: // empty
			i = gen.Uniform(t, nbits+1, "i")
			end = i
		default:
			a, b := gen.Uniform(t, nbits+1, "a"), gen.Uniform(t, nbits+1, "b")
			if a > b {
				a, b = b, a
			}
			i, end = a, b
		}
		i = max(0, min(i, nbits))
		end = max(i, min(end, nbits))
		rs = append(rs, [2]int32{int32(i), int32(end)})
	}
	return Case{Words: w, Style: style, Ranges: rs}
}

func TestRegress(t *testing.T) { checker.Regress(t) }

func TestProp(t *testing.T) { checker.Prop(t, genCase) }

func FuzzProp(f *testing.F) { checker.Fuzz(f, genCase) }

func TestGrid(t *testing.T) {
	vk.SetPhase("grid")
	pal := []uint64{0, 1, 1 << 31, 1 << 63, 1 | 1<<63, ^uint64(0)}
	var evals, nontriv int64
	for a := range pal {
		for b := range pal {
			for c := range pal {
				w := []uint64{pal[a], pal[b], pal[c]}
				for i := int32(0); i <= 192; i++ {
					for end := i; end <= 192; end++ {
						evals++
						if rangeNontrivial(w, i, end) {
							nontriv++
						}
						if (i+end)&63 == 0 {
							checker.Remember(Case{Words: w, Style: "grid", Ranges: [][2]int32{{i, end}}})
						}
						if f := checkRange(w, i, end); f != nil {
							fc := Case{Words: w, Style: "grid", Ranges: [][2]int32{{i, end}}}
							if g := checker.Eval(fc); g == nil {
								vk.Infra("grid failure not reproduced by the per-case check")
							}
							t.Fatalf("VERIF-FAIL property=C13 kind=%s: %s", f.Kind, f.Msg)
						}
					}
				}
			}
		}
	}
	// very long bitmaps (size thresholds): sparse ones with long zero runs, ranges keyed
	for _, n := range []int{1025, 4097, 70001} {
		for _, every := range []int{1, 9, 500, n - 1} {
			w := make(vk.Words, n)
			for i := 0; i < n; i += every {
				w[i] = 1 << (vk.Mix(uint64(i+n)) & 63)
			}
			var rs [][2]int32
			nb := uint64(64 * n)
			for k := 0; k < 400; k++ {
				a, b := int32(vk.Mix(uint64(k)*2+uint64(n))%nb), int32(vk.Mix(uint64(k)*2+1+uint64(every))%(nb+1))
				if a > b {
					a, b = b, a
				}
				rs = append(rs, [2]int32{a, b})
			}
			rs = append(rs, [2]int32{0, int32(nb)}, [2]int32{int32(nb) - 1, int32(nb)}, [2]int32{1, int32(nb) - 1})
			checker.Run(t, Case{Words: w, Style: "grid-very-long", Ranges: rs})
		}
	}
	vk.CountConstructed(evals, nontriv, "grid-range")
	vk.AddSample(map[string]any{"grid": "216 three-word bitmaps x all (i,end)", "example": map[string]any{"words": []string{"8000000000000000", "0", "1"}, "i": 64, "end": 130, "NextOne": bitmap.NextOne([]uint64{1 << 63, 0, 1}, 64, 130), "PrevOne": bitmap.PrevOne([]uint64{1 << 63, 0, 1}, 64, 130)}})
	vk.MarkExhaustive("all 216 three-word bitmaps over a 6-word palette x all 0<=i<=end<=192")
}

// TestLast runs at the very end of the process: huge inputs (the maximum bitmap / string) and the regression cases of that size come last, so that
// what they leave behind in the library cannot mask anything the ordinary cases would have met.
func TestLast(t *testing.T) {
	vk.SetPhase("last")
	for v := 0; v < gen.MaxVariants; v++ { // exactly 2^31 bits: the largest positions an int32 holds
		checker.Run(t, Case{Max: v + 1, Style: "maximum", Ranges: maxRanges(v)})
	}
	checker.RegressLast(t)
}

package c01

import (
	"encoding/json"
	"fmt"
	"os"

	"github.com/openacid/low/bitmap"

	"verif/harness/vk"
)

// ---------------------------------------------------------------- the order of the library calls
//
// The statement quantifies over bitmaps and positions, not over call sequences: whatever was called before, on
// whatever content, the four functions must answer for the bitmap they are GIVEN. State that lives between calls
// (a memo keyed by the address of the argument, a table filled by one function and read by another) is only
// seen when the calls do not always come in one fixed order. Three things therefore vary, all as a function of
// the case (so that a replay does the same):
//   - which rank function makes the very first library calls of the process (coldOrder),
//   - which builder sees a content first, and what the buffer held - and which builder ran on it - right
//     before (orderPlan, priorStep),
//   - the same (address, i) query again right after the bitmap changed in place (repeatStep).

// coldOrder says which rank function makes the first library calls of the process: 0 = Rank64, 1 = Rank128.
// It is a function of the seed, the shard and of whether this is the process that varies GOMAXPROCS: the two
// processes of a quick run take different orders, and which one takes which alternates with the seed. A replay
// takes the order recorded in the failing case (Case.Cold), whatever its own seed is.
var coldOrder = func() int {
	if p := os.Getenv("VERIF_REPLAY"); p != "" {
		if raw, err := os.ReadFile(p); err == nil {
			var fc struct {
				Case struct {
					Cold int `json:"cold"`
				} `json:"case"`
			}
			if json.Unmarshal(raw, &fc) == nil && fc.Case.Cold > 0 {
				return (fc.Case.Cold - 1) & 1
			}
		}
	}
	shard, _ := vk.Shard()
	v := vk.Seed() + uint64(shard)
	if vk.ProcsVaried() {
		v++
	}
	return int(v & 1)
}()

var coldOrderNames = []string{"rank64-first", "rank128-first"}

// orderPlan: the call-order decisions for one bitmap, a function of its checksum.
type orderPlan struct {
	builders    int    // 0: 64, 64(false), 64(true), 128   1: 128, 64, 64(false), 64(true)   2: 64(true), 128, 64, 64(false)
	prior       int    // builder called on the PRIOR content of the buffer right before: 0 none, 1 IndexRank64(), 2 IndexRank64(true), 3 IndexRank128
	priorChange int    // how the prior content differs: 0 first word, 1 last word, 2 one inner word, 3 every word
	nextChange  int    // the content the bitmap is changed to for the repeated queries: 0 inverted, 1 bit 0 flipped, 2 every word xor-ed, 3 one word inverted + bit 0 flipped
	rebuild     uint64 // bit k: round k of the repeated queries builds its index from the changed buffer itself (a builder call between the two queries)
}

var builderOrderNames = []string{"index64-then-index128", "index128-first", "index128-between-index64"}
var priorNames = []string{"none", "IndexRank64()", "IndexRank64(true)", "IndexRank128"}

func planOf(sum uint64, n int) orderPlan {
	h := vk.Mix(sum ^ 0x0c01de7)
	p := orderPlan{
		builders:    int(h % 3),
		prior:       int(h >> 8 % 4),
		priorChange: int(h >> 12 % 4),
		nextChange:  int(h >> 16 % 4),
		rebuild:     h >> 24,
	}
	if n == 0 {
		p.prior = 0
	}
	return p
}

func (p orderPlan) labels(n int) []string {
	l := []string{"builder-order:" + builderOrderNames[p.builders]}
	if n > 0 {
		l = append(l, "prior-content-at-same-address:"+priorNames[p.prior], "same-query-after-change-in-place")
	}
	return l
}

// wordPrefix returns the number of 1-bits before every word (and the total), with the oracle's own table popcount.
func wordPrefix(w []uint64) []int32 {
	wp := make([]int32, len(w)+1)
	for k, x := range w {
		wp[k+1] = wp[k] + int32(pop64(x))
	}
	return wp
}

// rankOf: (number of 1-bits before position i, bit i) of w, given wordPrefix(w).
func rankOf(w []uint64, wp []int32, i int32) (int32, int32) {
	k, j := int(i>>6), uint(i&63)
	c := wp[k]
	for b := uint(0); b < j; b++ {
		c += int32(w[k] >> b & 1)
	}
	return c, int32(w[k] >> j & 1)
}

// checkIndex compares an index with the word prefix counts: kind 1 IndexRank64 without, 2 with the total, 3 IndexRank128.
func checkIndex(kind int, ix []int32, wp []int32, what string) *vk.Failure {
	n := len(wp) - 1
	switch kind {
	case 1, 2:
		want := n
		if kind == 2 {
			want++
		}
		if len(ix) != want {
			return vk.Failf("index64-len", "%s: %s has %d entries for %d words, want %d", what, priorNames[kind], len(ix), n, want)
		}
		for k := range ix {
			if ix[k] != wp[k] {
				return vk.Failf("index64-entry", "%s: %s[%d] = %d, want %d", what, priorNames[kind], k, ix[k], wp[k])
			}
		}
	default:
		if len(ix) != n/2+1 {
			return vk.Failf("index128-len", "%s: IndexRank128 has %d entries for %d words, want %d", what, len(ix), n, n/2+1)
		}
		for k := range ix {
			if ix[k] != wp[2*k] { // 2k <= n: for odd n the last entry is at 2*((n-1)/2) = n-1
				return vk.Failf("index128-entry", "%s: IndexRank128[%d] = %d, want %d", what, k, ix[k], wp[2*k])
			}
		}
	}
	return nil
}

func buildIndex(kind int, w []uint64) []int32 {
	switch kind {
	case 1:
		return bitmap.IndexRank64(w)
	case 2:
		return bitmap.IndexRank64(w, true)
	}
	return bitmap.IndexRank128(w)
}

// priorStep: the buffer `words` (any shape) first carries ANOTHER bitmap of the same length, on which one builder
// is called (and its result checked: that content is a bitmap like any other); then orig is written over it in
// place. The builders that checkShape calls next - in the order of the plan - thus meet changed content at an
// address, and a length, that the library has just seen.
func priorStep(words, orig []uint64, p orderPlan, sum uint64) *vk.Failure {
	n := len(orig)
	prev := append([]uint64(nil), orig...)
	switch p.priorChange {
	case 0:
		prev[0] ^= vk.Mix(sum^0x11) | 1
	case 1:
		prev[n-1] ^= vk.Mix(sum^0x22) | 1<<63
	case 2:
		prev[int(vk.Mix(sum^0x33)%uint64(n))] ^= vk.Mix(sum^0x44) | 1<<31
	default:
		for i := range prev {
			prev[i] = ^prev[i] ^ vk.Mix(sum+uint64(i))
		}
	}
	copy(words, prev)
	defer copy(words, orig)
	var ix []int32
	if f := vk.Try(priorNames[p.prior]+" on the content the buffer held before", func() { ix = buildIndex(p.prior, words) }); f != nil {
		return f
	}
	for i := range prev {
		if words[i] != prev[i] {
			return vk.Failf("argument-modified", "bitmap word %d was modified by %s", i, priorNames[p.prior])
		}
	}
	return checkIndex(p.prior, ix, wordPrefix(prev), fmt.Sprintf("the %d-word bitmap that the argument buffer carried first (it is overwritten in place afterwards)", n))
}

// repeatStep runs after all other checks of a bitmap: the content of `words` is changed IN PLACE (to `next`, back
// to orig, ...) and the query that was made last is made again at once - same function, same address, same i -
// for the changed content. Rounds alternate between Rank64 and Rank128; the positions are the last one queried so
// far and a few more. The index for the changed content comes either from a private copy of that content, built
// beforehand (nothing at all is called between the two queries), or from the changed buffer itself (the caller's
// natural sequence: change, rebuild, query). Leaves orig in the buffer.
func repeatStep(words, orig []uint64, idxT, idx128 []int32, p orderPlan, sum uint64, lastQ int32) (f *vk.Failure) {
	n := len(orig)
	nbits := uint64(64 * n)
	qs := []int32{lastQ}
	for i := uint64(0); i < 3; i++ {
		qs = append(qs, int32(vk.Mix(sum^(0xabc+i))%nbits))
	}
	next := append([]uint64(nil), orig...)
	switch p.nextChange {
	case 0:
		for i := range next {
			next[i] = ^next[i]
		}
	case 1:
		next[0] ^= 1
	case 2:
		for i := range next {
			next[i] ^= vk.Mix(sum^uint64(i)*0x9e37) | 1<<uint(qs[1]&63)
		}
	default:
		next[qs[0]>>6] = ^next[qs[0]>>6]
		next[0] ^= 1
	}
	// (the largest bitmaps that come here have 70001 words: the counts stay far below 2^31)
	content := [2][]uint64{orig, next}
	wps := [2][]int32{wordPrefix(orig), wordPrefix(next)}
	// indexes of the changed content, built by the library from a private copy of it
	priv := append([]uint64(nil), next...)
	var nT, n128 []int32
	if f := vk.Try("IndexRank64/IndexRank128 on a changed copy of the bitmap", func() {
		if p.builders == 1 {
			n128 = bitmap.IndexRank128(priv)
			nT = bitmap.IndexRank64(priv, true)
		} else {
			nT = bitmap.IndexRank64(priv, true)
			n128 = bitmap.IndexRank128(priv)
		}
	}); f != nil {
		return f
	}
	what := fmt.Sprintf("the %d-word bitmap after a change (a private copy)", n)
	if f := checkIndex(2, nT, wps[1], what); f != nil {
		return f
	}
	if f := checkIndex(3, n128, wps[1], what); f != nil {
		return f
	}
	i64 := [2][]int32{idxT, nT}
	i128 := [2][]int32{idx128, n128}

	cur := 0
	defer func() {
		copy(words, orig)
	}()
	for round := 0; round < 2*len(qs); round++ {
		q := qs[round/2]
		use128 := round&1 == 1
		name := "Rank64"
		if use128 {
			name = "Rank128"
		}
		query := func(ix []int32) (c, b int32, f *vk.Failure) {
			f = vk.Try(name, func() {
				if use128 {
					c, b = bitmap.Rank128(words, ix, q)
				} else {
					c, b = bitmap.Rank64(words, ix, q)
				}
			})
			return
		}
		ix := i64[cur]
		if use128 {
			ix = i128[cur]
		}
		c, b, f := query(ix)
		if f != nil {
			f.Msg = "at i=" + itoa(q) + ": " + f.Msg
			return f
		}
		if wc, wb := rankOf(content[cur], wps[cur], q); c != wc || b != wb {
			return vk.Failf("rank-before-change", "%s(i=%d) = (%d,%d), want (%d,%d) (the %d-word bitmap at this address has been changed in place %d times since its first queries; this query is repeated after the next change)", name, q, c, b, wc, wb, n, round)
		}
		// the bitmap changes in place
		cur ^= 1
		copy(words, content[cur])
		ix = i64[cur]
		if use128 {
			ix = i128[cur]
		}
		how := "nothing else was called in between; the index was built from a private copy of the new content"
		if p.rebuild>>uint(round)&1 == 1 {
			how = "the index was rebuilt from the changed buffer in between"
			kind := 2
			if use128 {
				kind = 3
			}
			if f := vk.Try(priorNames[kind]+" on the bitmap changed in place", func() { ix = buildIndex(kind, words) }); f != nil {
				return f
			}
			if f := checkIndex(kind, ix, wps[cur], fmt.Sprintf("the %d-word bitmap after it was changed in place (same address, an index of the former content had been built and used)", n)); f != nil {
				return f
			}
		}
		c, b, f = query(ix)
		if f != nil {
			f.Msg = "at i=" + itoa(q) + " after a change in place: " + f.Msg
			return f
		}
		if wc, wb := rankOf(content[cur], wps[cur], q); c != wc || b != wb {
			oc, ob := rankOf(content[cur^1], wps[cur^1], q)
			kind := "rank64-after-change-in-place"
			if use128 {
				kind = "rank128-after-change-in-place"
			}
			return vk.Failf(kind, "%s(i=%d) = (%d,%d), want (%d,%d): the same query had just been made on the %d-word bitmap at this address, whose content was then changed in place (the answer for the former content was (%d,%d); %s)",
				name, q, c, b, wc, wb, n, oc, ob, how)
		}
		for i := range words {
			if words[i] != content[cur][i] {
				return vk.Failf("argument-modified", "bitmap word %d was modified by the rank functions", i)
			}
		}
	}
	return nil
}

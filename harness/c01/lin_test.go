package c01

import (
	"fmt"
	"math"
	"sort"

	"github.com/openacid/low/bitmap"
	"pgregory.net/rapid"

	"verif/harness/gen"
	"verif/harness/vk"
)

// LinSpec describes a bitmap of 1 .. 2^25 words whose word k is a pure function of (Key, Style, k). Such a
// bitmap is checked in ONE linear pass (checkLin) that needs no per-bit arrays, so every size between the
// all-positions region (<= 64 words) and the maximum bitmap is affordable: every index entry is compared,
// and ranks are queried in every word (or every 13th word above 2^20 words).
type LinSpec struct {
	N     int    `json:"n"`
	Key   vk.U64 `json:"key"`
	Style int    `json:"style"`
}

var linStyles = []string{"uniform", "sparse", "dense", "islands", "ones-with-holes", "one-bit-per-word", "some-words-full-or-empty"}

const golden = 0x9e3779b97f4a7c15

// word returns word k of the bitmap. Word 0 always has bit 0 set and bit 1 clear, so every such bitmap
// contains both a 1 and a 0 (and an all-ones style of 2^25 words stays below 2^31 ones).
func (s LinSpec) word(k int) uint64 {
	key := uint64(s.Key)
	x := key + uint64(k)*golden
	var w uint64
	switch s.Style {
	case 0:
		w = vk.Mix(x)
	case 1:
		w = vk.Mix(x) & vk.Mix(x^0x1111) & vk.Mix(x^0x2222) & vk.Mix(x^0x3333)
	case 2:
		w = vk.Mix(x) | vk.Mix(x^0x1111) | vk.Mix(x^0x2222)
	case 3: // islands: aligned blocks of 2^r words (r = 0..12 from the key), three of four blocks are empty
		r := (key >> 59) % 13
		if vk.Mix(key^uint64(k>>r)*0xd1342543de82ef95)&3 == 0 {
			w = vk.Mix(x)
		}
	case 4: // all ones, one word in 16 has a single 0-bit
		w = ^uint64(0)
		if h := vk.Mix(x); h&15 == 0 {
			w &^= 1 << (h >> 58)
		}
	case 5:
		w = 1 << (vk.Mix(x) >> 58)
	default: // only SOME words are full (or empty): those at k = r mod m, the others are random
		m := int(2 + key>>60&3)
		r := int(key>>56&15) % m
		if k%m == r {
			if key>>55&1 == 1 {
				w = ^uint64(0)
			}
		} else {
			w = vk.Mix(x)
		}
	}
	if k == 0 {
		w = w&^2 | 1
	}
	return w
}

// pop16[x] is the number of 1-bits of x, built by the recurrence pop(x) = pop(x>>1) + (x&1) and verified
// against a bit-by-bit count when the package starts (no math/bits here).
var pop16 = func() (t [1 << 16]uint8) {
	for i := 1; i < len(t); i++ {
		t[i] = t[i>>1] + uint8(i&1)
	}
	for i := range t {
		c := 0
		for b := 0; b < 16; b++ {
			c += i >> uint(b) & 1
		}
		if int(t[i]) != c {
			panic("c01: popcount table of the oracle is wrong")
		}
	}
	return
}()

func pop64(w uint64) int64 {
	return int64(pop16[w&0xffff]) + int64(pop16[w>>16&0xffff]) + int64(pop16[w>>32&0xffff]) + int64(pop16[w>>48])
}

// linSpecial lists the words that are queried at all 64 offsets: the first and last ones, those around every
// power of two, around the multiples of 4096 next to them, and 64 words spread by the key.
func linSpecial(s LinSpec) []int {
	n := s.N
	var ws []int
	add := func(k int) {
		if k >= 0 && k < n {
			ws = append(ws, k)
		}
	}
	for _, k := range []int{0, 1, 2, 3, n - 4, n - 3, n - 2, n - 1, n / 2, n/2 + 1} {
		add(k)
	}
	for p := 4; p <= n; p <<= 1 {
		for d := -2; d <= 1; d++ {
			add(p + d)
		}
	}
	for i := 0; i < 64; i++ {
		add(int(vk.Mix(uint64(s.Key)^uint64(i)*0x51ed27) % uint64(n)))
	}
	sort.Ints(ws)
	out := ws[:0]
	for i, k := range ws {
		if i == 0 || k != ws[i-1] {
			out = append(out, k)
		}
	}
	return out
}

const linAllIndexesUpTo = 1 << 22 // words: above, only IndexRank64(true) and IndexRank128 are built (memory)

func validLin(s LinSpec) bool {
	return s.N >= 1 && s.N <= gen.MaxWords && s.Style >= 0 && s.Style < len(linStyles)
}

func checkLin(s LinSpec) (f *vk.Failure) {
	if !validLin(s) {
		return nil
	}
	n := s.N
	// what the code under test sees: a slice carved out of a larger buffer at a word offset of 1..3, with foreign
	// non-zero words before it and in its spare capacity (the maximum size uses the process-wide 2^25-word array)
	var words, buf []uint64
	off := 1 + int(uint64(s.Key)>>8%3)
	const tail = 3
	if n == gen.MaxWords {
		words = gen.BorrowMaxC01()
		defer gen.ReturnMaxC01()
	} else {
		buf = make([]uint64, off+n+tail)
		for i := range buf {
			buf[i] = 0xCA11AB1E00000000 | uint64(i)
		}
		words = buf[off : off+n : off+n+tail]
	}
	// the content is written once and read back by the pass below; a checksum taken here tells whether the
	// library changed it in between (the pass then reports that instead of trusting what it reads)
	sumBefore := uint64(n)
	for k := range words {
		w := s.word(k)
		words[k] = w
		sumBefore = sumBefore*1099511628211 ^ w
	}

	var idx, idxF, idxT, idx128 []int32
	all := n <= linAllIndexesUpTo
	if f := vk.Try(fmt.Sprintf("IndexRank64/IndexRank128 on %d words", n), func() {
		if all {
			idx = bitmap.IndexRank64(words)
			idxF = bitmap.IndexRank64(words, false)
		}
		idxT = bitmap.IndexRank64(words, true)
		idx128 = bitmap.IndexRank128(words)
	}); f != nil {
		return f
	}
	if all && (len(idx) != n || len(idxF) != n) {
		return vk.Failf("index64-len", "IndexRank64() / IndexRank64(false) have %d / %d entries for %d words", len(idx), len(idxF), n)
	}
	if len(idxT) != n+1 {
		return vk.Failf("index64-trailing-len", "IndexRank64(true) has %d entries for %d words, want %d", len(idxT), n, n+1)
	}
	if len(idx128) != n/2+1 {
		return vk.Failf("index128-len", "IndexRank128 has %d entries for %d words, want %d", len(idx128), n, n/2+1)
	}

	special := linSpecial(s)
	stride := 1
	if n > 1<<20 {
		stride = 13
	}
	var cnt int64
	sumAfter := uint64(n)
	cur := int64(-1)
	overflow := false
	rank := func(i int64, wantC int64, wantB uint64) *vk.Failure {
		cur = i
		c2, b2 := bitmap.Rank64(words, idxT, int32(i))
		c3, b3 := bitmap.Rank128(words, idx128, int32(i))
		if int64(c2) != wantC || uint64(b2) != wantB {
			return vk.Failf("rank64-trailing-index", "%d-word bitmap: Rank64 with trailing index (i=%d) = (%d,%d), want (%d,%d)", n, i, c2, b2, wantC, wantB)
		}
		if int64(c3) != wantC || uint64(b3) != wantB {
			return vk.Failf("rank128", "%d-word bitmap: Rank128(i=%d) = (%d,%d), want (%d,%d)", n, i, c3, b3, wantC, wantB)
		}
		if all {
			if c1, b1 := bitmap.Rank64(words, idx, int32(i)); int64(c1) != wantC || uint64(b1) != wantB {
				return vk.Failf("rank64", "%d-word bitmap: Rank64(i=%d) = (%d,%d), want (%d,%d)", n, i, c1, b1, wantC, wantB)
			}
		}
		return nil
	}
	if pf := vk.TryF(func() string { return fmt.Sprintf("Rank64/Rank128 at i=%d on a %d-word bitmap", cur, n) }, func() {
		si := 0
		next := 0 // the next word that gets its one-offset query
		for k := 0; k < n; k++ {
			w := words[k]
			sumAfter = sumAfter*1099511628211 ^ w
			e := int32(cnt)
			if idxT[k] != e {
				f = vk.Failf("index64-trailing-entry", "%d-word bitmap: IndexRank64(true)[%d] = %d, want %d", n, k, idxT[k], e)
				return
			}
			if all && (idx[k] != e || idxF[k] != e) {
				f = vk.Failf("index64-entry", "%d-word bitmap: IndexRank64()[%d] = %d, IndexRank64(false)[%d] = %d, want %d", n, k, idx[k], k, idxF[k], e)
				return
			}
			if k&1 == 0 && idx128[k>>1] != e {
				f = vk.Failf("index128-entry", "%d-word bitmap: IndexRank128[%d] = %d, want %d", n, k>>1, idx128[k>>1], e)
				return
			}
			p := pop64(w)
			if cnt+p > math.MaxInt32 {
				overflow = true // more 1-bits than an int32 counts: outside the domain (cannot happen with the styles above)
				return
			}
			for si < len(special) && special[si] < k {
				si++
			}
			if si < len(special) && special[si] == k {
				c := cnt
				for j := 0; j < 64; j++ {
					bit := w >> uint(j) & 1
					if f = rank(int64(k)*64+int64(j), c, bit); f != nil {
						return
					}
					c += int64(bit)
				}
				if k == next {
					next += stride
				}
			} else if k == next {
				next += stride
				// one offset per word; over 64 consecutive probed words every offset occurs (37 is odd)
				j := uint(k/stride*37+int(uint64(s.Key)&63)) & 63
				below := int64(0)
				if j > 0 {
					below = pop64(w << (64 - j))
				}
				if f = rank(int64(k)*64+int64(j), cnt+below, w>>j&1); f != nil {
					return
				}
			}
			cnt += p
		}
	}); pf != nil {
		return pf
	}
	if sumAfter != sumBefore && !overflow {
		for k := 0; k < n; k++ {
			if words[k] != s.word(k) {
				return vk.Failf("argument-modified", "word %d of the %d-word bitmap was modified by the rank functions", k, n)
			}
		}
	}
	if f != nil || overflow {
		return f
	}
	if int64(idxT[n]) != cnt {
		return vk.Failf("index64-trailing-entry", "%d-word bitmap: IndexRank64(true)[%d] (the grand total) = %d, want %d", n, n, idxT[n], cnt)
	}
	if n&1 == 0 && int64(idx128[n/2]) != cnt {
		return vk.Failf("index128-entry", "%d-word bitmap: IndexRank128[%d] (the total) = %d, want %d", n, n/2, idx128[n/2], cnt)
	}
	for i := range buf {
		if (i < off || i >= off+n) && buf[i] != 0xCA11AB1E00000000|uint64(i) {
			return vk.Failf("argument-spare-capacity-written", "word %d outside the %d-word bitmap argument (which starts at word %d of a larger buffer) was written", i, n, off)
		}
	}
	return nil
}

func classifyLin(s LinSpec) (bool, []string) {
	if !validLin(s) {
		return false, []string{"style:lin-malformed"}
	}
	labels := []string{"style:lin-" + linStyles[s.Style]}
	if s.N&1 == 1 {
		labels = append(labels, "parity:odd")
	} else {
		labels = append(labels, "parity:even")
	}
	switch {
	case s.N <= 4:
		labels = append(labels, "len:1-4")
	case s.N <= 64:
		labels = append(labels, "len:5-64")
	case s.N <= 4096:
		labels = append(labels, "len:65-4096")
	default:
		labels = append(labels, "len:>4096")
	}
	o := 0
	for 1<<uint(o+1) <= s.N {
		o++
	}
	labels = append(labels, fmt.Sprintf("lin-words:2^%d..", o))
	if s.N == gen.MaxWords && (s.Style == 4 || s.Style == 2) {
		labels = append(labels, "ones:>=2^30(maximum bitmap, dense)")
	}
	return s.N >= 2, labels
}

// linSize draws a word count log-uniformly (uniform octave, uniform inside the octave) from [lo, hi].
func linSize(t *rapid.T, lo, hi int, label string) int {
	ol, oh := 0, 0
	for 1<<uint(ol+1) <= lo {
		ol++
	}
	for 1<<uint(oh+1) <= hi {
		oh++
	}
	o := ol + gen.Uniform(t, oh-ol+1, label+".octave")
	a, b := max(lo, 1<<uint(o)), min(hi, 1<<uint(o+1)-1)
	switch gen.Uniform(t, 8, label+".edge") {
	case 0:
		return a
	case 1:
		return b
	}
	return a + gen.Uniform(t, b-a+1, label+".n")
}

func genLin(t *rapid.T, lo, hi int) Case {
	s := LinSpec{N: linSize(t, lo, hi, "lin"), Key: vk.U64(gen.U64(t, "lin.key")), Style: gen.Uniform(t, len(linStyles), "lin.style")}
	return Case{Lin: &s, Style: "lin"}
}

// linSweepSizes: 2^k-1, 2^k, 2^k+1 and two seed-dependent sizes inside every octave [2^k, 2^(k+1)), ascending.
func linSweepSizes(kLo, kHi int, salt uint64) []int {
	var ns []int
	for k := kLo; k <= kHi; k++ {
		p := 1 << uint(k)
		ns = append(ns, p-1, p, p+1)
		var in []int
		for i := uint64(0); i < 2; i++ {
			in = append(in, p+2+int(vk.Mix(vk.Seed()*0x9e37+salt+uint64(k)*16+i)%uint64(p-2)))
		}
		sort.Ints(in)
		ns = append(ns, in...)
	}
	return ns
}

// Package c01 decides property C01: Rank64 / Rank128 are exact.
package c01

import (
	"fmt"
	"testing"

	"github.com/openacid/low/bitmap"
	"pgregory.net/rapid"

	"verif/harness/gen"
	"verif/harness/vk"
)

// keep registers a returned result for later re-validation (set in init: the checker refers to check).
var keep func(func() string)

func init() { keep = checker.Keep }

// coldStartResult: the very first library calls of the process are rank queries with indexes computed
// by the oracle (no index builder has run yet). Which of the two rank functions comes first is coldOrder: ALL
// positions of the first bitmap go to that function before the other one is called at all (a table that one
// of them fills and the other one only reads), the second bitmap gets both functions in turn for every position.
var coldStartResult = func() (msg string) {
	vk.ArmProbe("C01", Case{Style: "cold-start:the process died during its first calls of the library", Cold: coldOrder + 1})
	defer vk.DisarmProbe()
	defer func() {
		if r := recover(); r != nil {
			msg = fmt.Sprintf("first use in the process panicked: %v", r)
		}
	}()
	for wi, w := range [][]uint64{{^uint64(0), 0x5, ^uint64(0), 1 << 63}, {0x0123456789abcdef, 0, 0xffff}} {
		var i64, i128 []int32
		cnt := int32(0)
		for k, x := range w {
			i64 = append(i64, cnt)
			if k%2 == 0 {
				i128 = append(i128, cnt)
			}
			for b := 0; b < 64; b++ {
				cnt += int32(x >> uint(b) & 1)
			}
		}
		i64 = append(i64, cnt)
		if len(w)%2 == 0 {
			i128 = append(i128, cnt)
		}
		// pass 0: the first function only (first bitmap) / both in turn (second bitmap); pass 1: the other function (first bitmap)
		for pass := 0; pass < 2-wi; pass++ {
			c := int32(0)
			for i := 0; i < 64*len(w); i++ {
				bit := int32(w[i/64] >> uint(i%64) & 1)
				for turn := 0; turn < 2; turn++ {
					fn := coldOrder ^ turn
					if wi == 0 && turn != pass {
						continue
					}
					if fn == 0 {
						if r, b := bitmap.Rank64(w, i64, int32(i)); r != c || b != bit {
							return fmt.Sprintf("first use in the process (%s): Rank64(%#x, oracle-built index, %d) = (%d,%d), want (%d,%d)", coldOrderNames[coldOrder], w, i, r, b, c, bit)
						}
					} else {
						if r, b := bitmap.Rank128(w, i128, int32(i)); r != c || b != bit {
							return fmt.Sprintf("first use in the process (%s): Rank128(%#x, oracle-built index, %d) = (%d,%d), want (%d,%d)", coldOrderNames[coldOrder], w, i, r, b, c, bit)
						}
					}
				}
				c += bit
			}
		}
	}
	return ""
}()

func TestColdStart(t *testing.T) {
	vk.SetPhase("coldstart")
	vk.Label("cold-start-probe", 1)
	vk.Label("cold-start-order:"+coldOrderNames[coldOrder], 1)
	if coldStartResult != "" {
		checker.Run(t, Case{Style: "cold-start:" + coldStartResult, Cold: coldOrder + 1})
	}
}

func TestMain(m *testing.M) { vk.Main(m, "C01") }

// TestFirst runs right after the cold-start probe, before any larger input has been seen: index lengths in
// ASCENDING order - every length 0..130, then around every power of two. A buffer that the library grows and
// reuses (pool, slab, scratch) then passes through every capacity step exactly when an index of that length is
// built, and a defect confined to a window of lengths (41..61 words, say) is met by several bitmaps whose last
// word matters.
func TestFirst(t *testing.T) {
	vk.SetPhase("first")
	content := func(n, style int) vk.Words {
		w := make(vk.Words, n)
		for i := range w {
			switch style {
			case 0:
				w[i] = ^uint64(0)
			case 1:
				w[i] = vk.Mix(uint64(n)*977 + uint64(i))
			}
		}
		if style == 2 && n > 0 { // nothing but the very last bit: the grand total differs from every other entry
			w[n-1] = 1 << 63
		}
		return w
	}
	// EVERY length 0..130 (all positions are queried up to 64 words): full, mixed and last-bit-only content
	for n := 0; n <= 130; n++ {
		for style := 0; style < 3; style++ {
			checker.Run(t, Case{Words: content(n, style), Style: "grid-every-length"})
		}
	}
	// lengths around every power of two up to 1024 words (index lengths that coincide with the
	// capacity steps of any growing or pooled buffer), dense and mixed content
	for k := 8; k <= 10; k++ {
		for d := -2; d <= 2; d++ {
			n := 1<<uint(k) + d
			for style := 0; style < 3; style++ {
				checker.Run(t, Case{Words: content(n, style), Style: "grid-pow2-length"})
			}
		}
	}
	// 2^k-1, 2^k, 2^k+1 and two sizes inside every octave from 128 to 2^17 words, all styles in turn; in the
	// process that varies GOMAXPROCS those up to 2^14 words meet every setting (a builder that cuts its input into
	// per-CPU chunks above some size)
	for i, n := range linSweepSizes(7, 16, 1) {
		spec := LinSpec{N: n, Key: vk.U64(vk.Mix(uint64(n) * 31)), Style: i % len(linStyles)}
		if n <= 1<<14 {
			vk.ProcsSweep(func() { checker.Run(t, Case{Lin: &spec, Style: "lin-sweep"}) })
		} else {
			checker.Run(t, Case{Lin: &spec, Style: "lin-sweep"})
		}
	}
}

// Case is one bitmap plus, for large bitmaps, the sampled probe positions.
type Case struct {
	Max    int          `json:"max,omitempty"` // v+1: the maximum bitmap, exactly 2^25 words = 2^31 bits, description v (gen.UseMax)
	Words  vk.Words     `json:"words,omitempty"`
	Big    *gen.BigSpec `json:"big,omitempty"`
	Lin    *LinSpec     `json:"lin,omitempty"` // a bitmap of up to 2^25 words checked in one linear pass (lin_test.go)
	Style  string       `json:"style,omitempty"`
	Probes []int32      `json:"probes,omitempty"` // extra positions for large bitmaps
	Cold   int          `json:"cold,omitempty"`   // cold-start cases: coldOrder+1 of the process that failed (a replay starts the same way)
}

func (c Case) words() []uint64 {
	if c.Big != nil {
		return c.Big.Expand()
	}
	return c.Words
}

const allPositionsUpTo = 64 // words

var checker = &vk.Checker[Case]{
	ID: "C01",
	Rule: "bitmaps drawn by style (zero, ones, mixed palette/density words, sparse, dense, islands, exact-count, tail, palette) and length class, " +
		"plus a complete grid of all bitmaps of 0..4 (thorough 0..5) words over a 12-word palette; every position 0<=i<64*len is queried for bitmaps <= 64 words " +
		"(otherwise all word boundaries +-1, 2-word windows and sampled positions) with Rank64 (plain, false, true index) and Rank128, against a bit-by-bit running count; the indexes are checked and used only AFTER indexes of other bitmaps (other contents, shorter, longer) have been built, so a result that aliases library-owned memory is seen. " +
		"Lengths: every length 0..130 in ascending order at the start of the process, drawn lengths up to 40 / 64 / 130 / a log-uniform bound <= 1024 words (thorough 4096); the empty bitmap is passed as nil, as an empty non-nil slice and as an empty slice with spare capacity; non-empty ones as a private copy, a reused buffer with guarded spare capacity or a slice starting 1..3 words into a larger buffer; some drawn bitmaps get full (or empty) words at k = r mod m only. " +
		"Bitmaps of 65 .. 2^25 words whose word k is a function of (key, style, k) (uniform, sparse, dense, islands of 2^r words, ones with holes, one bit per word, some words full/empty) are checked in one linear pass with a table popcount of the oracle's own: every entry of all four indexes, Rank64/Rank128 at one offset of every word (every 13th word above 2^20 words; all 64 offsets occur) and at all 64 offsets of ~100 words (first, last, around every power of two, spread by the key); sizes log-uniform up to 2^17 words (thorough 2^20) plus a sweep 2^k-1, 2^k, 2^k+1 and two inner sizes for every octave 2^7..2^16 (up to 2^14 words under every GOMAXPROCS setting in the process that varies it) and 2^17..2^24 (quick: 2^17..2^22, one size per octave). " +
		"Also the MAXIMUM bitmap - exactly 2^25 words = 2^31 bits, the largest one int32 positions address: three sparse descriptions (oracle from the description: every entry of both indexes, ranks at the top positions, around every set word, around every 2^k and at 192 spread positions in the long zero runs) and dense content with up to 2^31-1 ones (linear pass as above). " +
		"Order of the calls (a function of the case; labels builder-order, prior-content-at-same-address): the four builders run with IndexRank128 last, first or between the IndexRank64 flavours; for three of four non-empty bitmaps the argument buffer first carries another bitmap of the same length (first, last, one inner or every word different) on which ONE builder (IndexRank64(), IndexRank64(true) or IndexRank128) is called and checked, and is then overwritten in place; after all queries of a bitmap its content is changed in place (inverted, one bit, every word, one word) and back, eight times, and each time the query made last - Rank64 and Rank128 in turn, at the last position queried and three more - is repeated at once for the new content, the index coming from a private copy of that content (nothing is called in between) or from a rebuild on the changed buffer. The first library calls of a process are rank queries with oracle-built indexes: all positions with Rank64 before any Rank128 call, or Rank128 first - the two processes of a quick run take one order each, which one alternates with the seed. " +
		"Non-trivial: >= 2 words, contains both a 0 and a 1 (so a right-half Rank128 query with a non-zero own-word popcount is executed). Distinct by hash of the case.",
	Check:    check,
	Classify: classify,
}

func classify(c Case) (bool, []string) {
	if c.Max > 0 {
		return true, []string{"style:maximum-bitmap(2^25 words)"}
	}
	if len(c.Style) > 11 && c.Style[:11] == "cold-start:" {
		return false, []string{"cold-start-failure"}
	}
	if c.Lin != nil {
		return classifyLin(*c.Lin)
	}
	w := c.words()
	has0, has1 := false, false
	for _, x := range w {
		if x != 0 {
			has1 = true
		}
		if x != ^uint64(0) {
			has0 = true
		}
	}
	labels := []string{"style:" + c.Style}
	if len(w)&1 == 1 {
		labels = append(labels, "parity:odd")
	} else {
		labels = append(labels, "parity:even")
	}
	switch {
	case len(w) == 0:
		labels = append(labels, "len:0", "empty-bitmap-passed-as-nil-and-as-empty-slice")
	case len(w) <= 4:
		labels = append(labels, "len:1-4")
	case len(w) <= 40:
		labels = append(labels, "len:5-64")
	case len(w) <= 64:
		labels = append(labels, "len:5-64", "len:41-64")
	case len(w) <= 130:
		labels = append(labels, "len:65-4096", "len:65-130")
	case len(w) <= 4096:
		labels = append(labels, "len:65-4096")
	default:
		labels = append(labels, "len:>4096")
	}
	labels = append(labels, planOf(vk.SumU64(w), len(w)).labels(len(w))...)
	return len(w) >= 2 && has0 && has1, labels
}

var scratch vk.Scratch

// checkMax: ranks on the largest bitmap whose positions fit an int32 (sparse oracle from its description).
func checkMax(v int) *vk.Failure {
	if v < 0 || v >= gen.MaxVariants {
		return nil
	}
	w := gen.UseMax(v)
	var idxT, idx128 []int32
	if f := vk.Try("IndexRank64/IndexRank128 on 2^25 words", func() {
		idxT = bitmap.IndexRank64(w, true)
		idx128 = bitmap.IndexRank128(w)
	}); f != nil {
		return f
	}
	if len(idxT) != gen.MaxWords+1 || len(idx128) != gen.MaxWords/2+1 {
		return vk.Failf("index-len", "indexes of the 2^25-word bitmap have %d / %d entries", len(idxT), len(idx128))
	}
	for _, k := range gen.MaxSetWords() {
		for _, j := range []int{k, k + 1} {
			if want := gen.MaxRank(int64(j) * 64); int64(idxT[j]) != want {
				return vk.Failf("index64-entry", "2^25-word bitmap: IndexRank64(true)[%d] = %d, want %d", j, idxT[j], want)
			}
		}
		if want := gen.MaxRank(int64(k/2) * 128); int64(idx128[k/2]) != want {
			return vk.Failf("index128-entry", "2^25-word bitmap: IndexRank128[%d] = %d, want %d", k/2, idx128[k/2], want)
		}
	}
	// every entry of both indexes, against the description (sparse oracle: the count changes at the set words only)
	{
		set := gen.MaxSetWords()
		cnt, si := int32(0), 0
		for k := 0; k <= gen.MaxWords; k++ {
			if idxT[k] != cnt {
				return vk.Failf("index64-entry", "2^25-word bitmap: IndexRank64(true)[%d] = %d, want %d", k, idxT[k], cnt)
			}
			if k&1 == 0 && idx128[k>>1] != cnt {
				return vk.Failf("index128-entry", "2^25-word bitmap: IndexRank128[%d] = %d, want %d", k>>1, idx128[k>>1], cnt)
			}
			if si < len(set) && set[si] == k {
				for x := gen.MaxWord(k); x != 0; x >>= 1 {
					cnt += int32(x & 1)
				}
				si++
			}
		}
	}
	probes := gen.MaxProbes()
	// positions inside the long zero runs and next to every 2^k-th word, at varying in-word offsets
	for i := uint64(0); i < 192; i++ {
		probes = append(probes, int64(vk.Mix(uint64(v)<<32+i)>>33))
	}
	for k := uint(7); k < 31; k++ {
		for _, d := range []int64{-65, -33, -2, 0, 17, 45, 61} {
			probes = append(probes, int64(1)<<k+d)
		}
	}
	for _, p := range probes {
		wantC, wantB := int32(gen.MaxRank(p)), int32(gen.MaxBit(p))
		var c1, b1, c2, b2 int32
		if f := vk.Try(fmt.Sprintf("Rank64/Rank128 at %d on 2^25 words", p), func() {
			c1, b1 = bitmap.Rank64(w, idxT, int32(p))
			c2, b2 = bitmap.Rank128(w, idx128, int32(p))
		}); f != nil {
			return f
		}
		if c1 != wantC || b1 != wantB {
			return vk.Failf("rank64", "2^25-word bitmap: Rank64(i=%d) = (%d,%d), want (%d,%d)", p, c1, b1, wantC, wantB)
		}
		if c2 != wantC || b2 != wantB {
			return vk.Failf("rank128", "2^25-word bitmap: Rank128(i=%d) = (%d,%d), want (%d,%d)", p, c2, b2, wantC, wantB)
		}
	}
	if k, bad := gen.MaxBitmapDamage(); bad {
		return vk.Failf("argument-modified", "word %d of the 2^25-word bitmap was modified", k)
	}
	return nil
}

func check(c Case) *vk.Failure {
	if c.Max > 0 {
		return checkMax(c.Max - 1)
	}
	if len(c.Style) > 11 && c.Style[:11] == "cold-start:" {
		if coldStartResult != "" {
			return vk.Failf("cold-start", "%s", coldStartResult)
		}
		return nil
	}
	if c.Lin != nil {
		return checkLin(*c.Lin)
	}
	orig := c.words()
	sum := vk.SumU64(orig)
	if len(orig) == 0 {
		// the empty bitmap, in every shape a caller can hand it over: a nil slice, an empty non-nil slice, an
		// empty slice with (guarded) spare capacity at the start and in the middle of a larger buffer
		for _, shape := range []int{shapeNil, shapeClone, shapeScratch, shapeCarved} {
			if f := checkShape(c, orig, shape, sum); f != nil {
				f.Msg = "the empty bitmap passed as " + shapeNames[shape] + ": " + f.Msg
				return f
			}
		}
		return nil
	}
	shape := shapeClone
	if scratch.Reuse(sum) {
		shape = shapeScratch
	} else if vk.Mix(sum^0xca57ed)&1 == 0 {
		shape = shapeCarved
	}
	return checkShape(c, orig, shape, sum)
}

// How the bitmap argument is handed to the library (a function of the case, so that a replay does the same).
const (
	shapeClone   = iota // a private exact-size copy
	shapeNil            // a nil slice (the empty bitmap only)
	shapeScratch        // a reused buffer with guarded spare capacity (vk.Scratch)
	shapeCarved         // a slice that starts 1..3 words into a larger buffer, foreign non-zero words around it
)

var shapeNames = []string{"an empty non-nil slice", "a nil slice", "an empty slice with spare capacity", "an empty slice in the middle of a buffer"}

func checkShape(c Case, orig []uint64, shape int, sum uint64) (f *vk.Failure) {
	var words, carved []uint64
	carveOff := 0
	switch shape {
	case shapeNil:
		words = nil // only used for len(orig) == 0
	case shapeScratch:
		words = scratch.U64(orig) // a reused buffer with guarded spare capacity
	case shapeCarved:
		carveOff = 1 + int(vk.Mix(sum^0x0ff5e7)%3)
		carved = make([]uint64, carveOff+len(orig)+3)
		for i := range carved {
			carved[i] = 0xCA11AB1E00000000 | uint64(i)
		}
		copy(carved[carveOff:], orig)
		words = carved[carveOff : carveOff+len(orig) : len(carved)]
	default:
		words = vk.Words(orig).Clone() // what the code under test sees: a private copy
	}
	defer func() {
		if f == nil && shape == shapeScratch {
			if msg := scratch.Check(); msg != "" {
				f = vk.Failf("argument-spare-capacity-written", "%s", msg)
			}
		}
		if f == nil {
			for i := range carved {
				if (i < carveOff || i >= carveOff+len(orig)) && carved[i] != 0xCA11AB1E00000000|uint64(i) {
					f = vk.Failf("argument-spare-capacity-written", "word %d outside the %d-word bitmap argument (which starts at word %d of a larger buffer) was written", i, len(orig), carveOff)
					break
				}
			}
		}
		if f == nil {
			for i := range orig {
				if words[i] != orig[i] {
					f = vk.Failf("argument-modified", "bitmap word %d was modified by the rank functions", i)
					break
				}
			}
		}
	}()
	n := len(words)
	nbits := 64 * n

	// oracle: running count, bit by bit, shifts only
	pre := make([]int32, nbits+1)
	for i := 0; i < nbits; i++ {
		pre[i+1] = pre[i] + int32(orig[i/64]>>(uint(i)%64)&1)
	}
	total := pre[nbits]

	// table anchor
	for j := 0; j <= 64; j++ {
		var want uint64
		if j == 64 {
			want = ^uint64(0)
		} else {
			want = uint64(1)<<uint(j) - 1
		}
		if bitmap.Mask[j] != want {
			return vk.Failf("mask-table", "bitmap.Mask[%d] = %#x, want %#x", j, bitmap.Mask[j], want)
		}
	}

	// what the buffer held - and which builder ran on it - right before this bitmap was written into it
	plan := planOf(sum, n)
	if plan.prior != 0 {
		if f := priorStep(words, orig, plan, sum); f != nil {
			return f
		}
	}

	// the four builders, in an order that depends on the case: IndexRank128 last, first (before any IndexRank64
	// has seen this content) or between the IndexRank64 flavours
	var idx, idxF, idxT, idx128 []int32
	if f := vk.Try("IndexRank64/IndexRank128", func() {
		switch plan.builders {
		case 1:
			idx128 = bitmap.IndexRank128(words)
			idx = bitmap.IndexRank64(words)
			idxF = bitmap.IndexRank64(words, false)
			idxT = bitmap.IndexRank64(words, true)
		case 2:
			idxT = bitmap.IndexRank64(words, true)
			idx128 = bitmap.IndexRank128(words)
			idx = bitmap.IndexRank64(words)
			idxF = bitmap.IndexRank64(words, false)
		default:
			idx = bitmap.IndexRank64(words)
			idxF = bitmap.IndexRank64(words, false)
			idxT = bitmap.IndexRank64(words, true)
			idx128 = bitmap.IndexRank128(words)
		}
	}); f != nil {
		return f
	}

	// A returned index belongs to the caller: building indexes of OTHER bitmaps afterwards (same
	// length, shorter, longer; other contents) must not change it. The content checks below and all
	// rank queries run after these calls, so a pooled / cached / shared result buffer shows up.
	if f := vk.Try("index builders on other bitmaps", func() {
		for _, other := range otherBitmaps(orig) {
			_ = bitmap.IndexRank64(other)
			_ = bitmap.IndexRank64(other, true)
			_ = bitmap.IndexRank128(other)
		}
	}); f != nil {
		return f
	}

	// what a caller's append would do: the spare capacity of every returned index is overwritten;
	// no other index (nor anything built later) may be affected
	vk.ScribbleI32(idx)
	vk.ScribbleI32(idxF)
	vk.ScribbleI32(idxT)
	vk.ScribbleI32(idx128)
	// the indexes stay under watch while later cases run
	{
		k64, k128 := idxT, idx128
		w64, w128 := make([]int32, len(idxT)), make([]int32, len(idx128))
		for i := range w64 {
			w64[i] = pre[min(64*i, nbits)]
		}
		for i := range w128 {
			w128[i] = pre[min(128*i, nbits)]
		}
		keep(func() string {
			for i := range w64 {
				if k64[i] != w64[i] {
					return fmt.Sprintf("IndexRank64(true) of a %d-word bitmap: entry %d was %d, now %d", len(w64)-1, i, w64[i], k64[i])
				}
			}
			for i := range w128 {
				if k128[i] != w128[i] {
					return fmt.Sprintf("IndexRank128 of a %d-word bitmap: entry %d was %d, now %d", n, i, w128[i], k128[i])
				}
			}
			return ""
		})
	}

	// index shapes and contents
	for name, ix := range map[string][]int32{"IndexRank64()": idx, "IndexRank64(false)": idxF} {
		if len(ix) != n {
			return vk.Failf("index64-len", "%s has %d entries for %d words", name, len(ix), n)
		}
		for k := 0; k < n; k++ {
			if ix[k] != pre[64*k] {
				return vk.Failf("index64-entry", "%s[%d] = %d, want %d", name, k, ix[k], pre[64*k])
			}
		}
	}
	if len(idxT) != n+1 {
		return vk.Failf("index64-trailing-len", "IndexRank64(true) has %d entries for %d words, want %d", len(idxT), n, n+1)
	}
	for k := 0; k <= n; k++ {
		if idxT[k] != pre[64*k] {
			return vk.Failf("index64-trailing-entry", "IndexRank64(true)[%d] = %d, want %d (total %d)", k, idxT[k], pre[64*k], total)
		}
	}
	if len(idx128) != n/2+1 {
		return vk.Failf("index128-len", "IndexRank128 has %d entries for %d words, want %d", len(idx128), n, n/2+1)
	}
	for k := range idx128 {
		p := 128 * k
		if p > nbits {
			p = nbits // the entry past an odd last word is only defined as the total
			// (for odd n the index has (n-1)/2+1 entries, the last one at 128*((n-1)/2) <= nbits, so this is never taken)
		}
		if idx128[k] != pre[p] {
			return vk.Failf("index128-entry", "IndexRank128[%d] = %d, want %d", k, idx128[k], pre[p])
		}
	}

	// positions to query
	lastQ := int32(-1)
	probe := func(i int32) *vk.Failure {
		lastQ = i
		wantC, wantB := pre[i], int32(orig[i/64]>>(uint(i)%64)&1)
		var c1, b1, c2, b2, c3, b3 int32
		if f := vk.Try("Rank64/Rank128", func() {
			c1, b1 = bitmap.Rank64(words, idx, i)
			c2, b2 = bitmap.Rank64(words, idxT, i)
			c3, b3 = bitmap.Rank128(words, idx128, i)
		}); f != nil {
			f.Msg = "at i=" + itoa(i) + ": " + f.Msg
			return f
		}
		if c1 != wantC || b1 != wantB {
			return vk.Failf("rank64", "Rank64(i=%d) = (%d,%d), want (%d,%d)", i, c1, b1, wantC, wantB)
		}
		if c2 != wantC || b2 != wantB {
			return vk.Failf("rank64-trailing-index", "Rank64 with trailing index (i=%d) = (%d,%d), want (%d,%d)", i, c2, b2, wantC, wantB)
		}
		if c3 != wantC || b3 != wantB {
			return vk.Failf("rank128", "Rank128(i=%d) = (%d,%d), want (%d,%d)", i, c3, b3, wantC, wantB)
		}
		return nil
	}

	// at the very end: the last query (and a few more) again, right after the bitmap changed in place
	repeat := func() *vk.Failure {
		if n == 0 || lastQ < 0 {
			return nil
		}
		return repeatStep(words, orig, idxT, idx128, plan, sum, lastQ)
	}
	if n <= allPositionsUpTo {
		for i := 0; i < nbits; i++ {
			if f := probe(int32(i)); f != nil {
				return f
			}
		}
		return repeat()
	}
	for k := 0; k < n; k++ {
		for _, i := range []int{64 * k, 64*k + 1, 64*k + 63, 64*k + 62, 64*k + 31, 64*k + 32} {
			if f := probe(int32(i)); f != nil {
				return f
			}
		}
	}
	probes := c.Probes
	if len(probes) == 0 {
		// no sampled positions in the case: four 2-word windows and 96 positions, a function of the content
		for i := uint64(0); i < 4; i++ {
			start := int(vk.Mix(sum+i*0x77) % uint64(nbits-127))
			for j := 0; j < 128; j++ {
				probes = append(probes, int32(start+j))
			}
		}
		for i := uint64(0); i < 96; i++ {
			probes = append(probes, int32(vk.Mix(sum^i*0x9e5) % uint64(nbits)))
		}
	}
	for _, p := range probes {
		if p < 0 || int(p) >= nbits {
			continue
		}
		if f := probe(p); f != nil {
			return f
		}
	}
	return repeat()
}

// otherBitmaps derives bitmaps that differ from w in content and in length (deterministically).
func otherBitmaps(w []uint64) [][]uint64 {
	inv := make([]uint64, len(w))
	for i, x := range w {
		inv[i] = ^x ^ uint64(i)*0x9e3779b97f4a7c15
	}
	longer := append(append([]uint64{}, inv...), 0x5555555555555555, ^uint64(0), 1)
	out := [][]uint64{inv, longer}
	if len(w) > 1 {
		out = append(out, inv[:len(w)-1], inv[:len(w)/2])
	}
	return out
}

func itoa(i int32) string {
	return fmtInt(int64(i))
}

func fmtInt(v int64) string {
	if v == 0 {
		return "0"
	}
	neg := v < 0
	if neg {
		v = -v
	}
	var b []byte
	for ; v > 0; v /= 10 {
		b = append([]byte{byte('0' + v%10)}, b...)
	}
	if neg {
		b = append([]byte{'-'}, b...)
	}
	return string(b)
}

func genCase(t *rapid.T) Case {
	maxWords := vk.Pick(40, 4096)
	bigEvery := vk.Pick(200, 40)
	if gen.Chance(t, 1, 12, "linclass") {
		// 65 .. 2^17 (thorough 2^20) words, log-uniform: no size between the all-positions region and the largest
		// inputs is left out; every index entry is compared, ranks are queried in every word
		return genLin(t, 65, vk.Pick(1<<17, 1<<20))
	}
	if gen.Chance(t, 1, bigEvery, "bigclass") {
		// large bitmap: compact spec + sampled probes
		var spec gen.BigSpec
		if vk.Thorough() && gen.Chance(t, 1, 8, "huge") {
			spec = gen.Big(t, 66000, 70001, "big") // ranks above 2^16 (dense styles above 2^22)
		} else {
			spec = gen.Big(t, 65, vk.Pick(600, 8192), "big")
		}
		nbits := 64 * spec.N
		var probes []int32
		for w := 0; w < 4; w++ {
			start := gen.Uniform(t, nbits-127, "window")
			for i := 0; i < 128; i++ {
				probes = append(probes, int32(start+i))
			}
		}
		for i := 0; i < 256; i++ {
			probes = append(probes, int32(gen.Uniform(t, nbits, "probe")))
		}
		return Case{Big: &spec, Style: "big", Probes: probes}
	}
	// length classes: the quick tier used to stop at 40 words (and to resume at 65 in the big class only)
	switch gen.Uniform(t, 8, "lenclass") {
	case 0:
		maxWords = max(maxWords, 64)
	case 1:
		maxWords = max(maxWords, 130)
	case 2:
		maxWords = linSize(t, 41, vk.Pick(1024, 4096), "lenmax")
	}
	w, style := gen.Bitmap(t, maxWords, "bm")
	if len(w) >= 2 && gen.Chance(t, 1, 8, "somewords") {
		// a per-word attribute (full / empty) that only SOME words have: those at k = r mod m
		m := 2 + gen.Uniform(t, 4, "somewords.m")
		r := gen.Uniform(t, m, "somewords.r")
		fill, name := uint64(0), "+some-words-empty"
		if gen.Chance(t, 1, 2, "somewords.full") {
			fill, name = ^uint64(0), "+some-words-full"
		}
		for k := r; k < len(w); k += m {
			w[k] = fill
		}
		style += name
	}
	return Case{Words: w, Style: style}
}

func TestRegress(t *testing.T) { checker.Regress(t) }

func TestProp(t *testing.T) { checker.Prop(t, genCase) }

func FuzzProp(f *testing.F) { checker.Fuzz(f, genCase) }

var gridPalette = []uint64{
	0, ^uint64(0), 1, 1 << 63, 0xffffffff, 0xffffffff00000000,
	0x8000000000000001, 0x5555555555555555, 0x00000000ffff0000, 0x7fffffffffffffff, 0xfffffffffffffffe, 0x0123456789abcdef,
}

// TestGrid enumerates every bitmap of 0..L words over the 12-word palette.
func TestGrid(t *testing.T) {
	vk.SetPhase("grid")
	maxLen := vk.Pick(4, 5)
	shard, nshards := vk.Shard()
	count := 0
	for l := 0; l <= maxLen; l++ {
		total := 1
		for i := 0; i < l; i++ {
			total *= len(gridPalette)
		}
		for code := 0; code < total; code++ {
			count++
			if count%nshards != shard {
				continue
			}
			w := make(vk.Words, l)
			x := code
			for i := 0; i < l; i++ {
				w[i] = gridPalette[x%len(gridPalette)]
				x /= len(gridPalette)
			}
			checker.Run(t, Case{Words: w, Style: "grid"})
		}
	}
	// a few very large bitmaps in every run (ranks above 2^16 / 2^22; size thresholds of any fast path)
	if shard == 0 {
		for style := 0; style <= 5; style++ {
			for _, n := range []int{65536, 65537, 70001} {
				spec := gen.BigSpec{N: n, Key: uint64(1000*style + n), Style: style}
				var probes []int32
				for i := 0; i < 600; i++ {
					probes = append(probes, int32(vk.Mix(uint64(i)+spec.Key)%uint64(64*n)))
				}
				checker.Run(t, Case{Big: &spec, Style: "grid-big", Probes: probes})
			}
		}
	}
	vk.MarkExhaustive("all bitmaps of 0.." + fmtInt(int64(maxLen)) + " words over a 12-word palette x all positions")
}

// TestLast runs at the very end of the process: the maximum bitmap (exactly 2^31 bits: the largest positions an
// int32 holds) and the regression cases of that size. Huge inputs come last so that what they leave behind in the
// library cannot mask anything the ordinary cases would have met.
func TestLast(t *testing.T) {
	vk.SetPhase("last")
	// sizes between the largest ordinary inputs and the maximum: every octave from 2^17 to 2^24 words, 1-bit counts up
	// to 2^30 (quick: octaves 17..22 only, one of 2^k-1, 2^k, 2^k+1, two inner sizes per octave, picked by the seed; thorough: all five)
	sizes := linSweepSizes(17, vk.Pick(22, 24), 2)
	for i, n := range sizes {
		if !vk.Thorough() && uint64(i%5) != (vk.Seed()+uint64(i/5))%5 {
			continue
		}
		style := []int{4, 2, 0, 3, 6, 1, 5}[(uint64(i)+vk.Seed())%7]
		checker.Run(t, Case{Lin: &LinSpec{N: n, Key: vk.U64(vk.Mix(uint64(n) * 131)), Style: style}, Style: "lin-large"})
	}
	for v := 0; v < gen.MaxVariants; v++ {
		checker.Run(t, Case{Max: v + 1, Style: "maximum"})
	}
	// the maximum bitmap with dense content: 1-bit counts up to 2^31-1, every entry of both indexes, ranks in
	// every 13th word at varying offsets (quick: all ones with sparse holes; thorough: four more styles)
	for _, style := range vk.Pick([]int{4}, []int{4, 2, 0, 3, 6}) {
		checker.Run(t, Case{Lin: &LinSpec{N: gen.MaxWords, Key: vk.U64(vk.Mix(vk.Seed() + uint64(style)<<20)), Style: style}, Style: "lin-maximum"})
	}
	checker.RegressLast(t)
}

// Package c01 decides property C01: Rank64 / Rank128 are exact.
package c01

import (
	"fmt"
	"testing"

	"github.com/openacid/low/bitmap"
	"pgregory.net/rapid"

	"verif/harness/gen"
	"verif/harness/vk"
)

// keep registers a returned result for later re-validation (set in init: the checker refers to check).
var keep func(func() string)

func init() { keep = checker.Keep }

// coldStartResult: the very first library calls of the process are rank queries with indexes computed
// by the oracle (no index builder has run yet).
var coldStartResult = func() (msg string) {
	vk.ArmProbe("C01", Case{Style: "cold-start:the process died during its first calls of the library"})
	defer vk.DisarmProbe()
	defer func() {
		if r := recover(); r != nil {
			msg = fmt.Sprintf("first use in the process panicked: %v", r)
		}
	}()
	for _, w := range [][]uint64{{^uint64(0), 0x5, ^uint64(0), 1 << 63}, {0x0123456789abcdef, 0, 0xffff}} {
		var i64, i128 []int32
		cnt := int32(0)
		for k, x := range w {
			i64 = append(i64, cnt)
			if k%2 == 0 {
				i128 = append(i128, cnt)
			}
			for b := 0; b < 64; b++ {
				cnt += int32(x >> uint(b) & 1)
			}
		}
		i64 = append(i64, cnt)
		if len(w)%2 == 0 {
			i128 = append(i128, cnt)
		}
		c := int32(0)
		for i := 0; i < 64*len(w); i++ {
			bit := int32(w[i/64] >> uint(i%64) & 1)
			if r, b := bitmap.Rank64(w, i64, int32(i)); r != c || b != bit {
				return fmt.Sprintf("first use in the process: Rank64(%#x, oracle-built index, %d) = (%d,%d), want (%d,%d)", w, i, r, b, c, bit)
			}
			if r, b := bitmap.Rank128(w, i128, int32(i)); r != c || b != bit {
				return fmt.Sprintf("first use in the process: Rank128(%#x, oracle-built index, %d) = (%d,%d), want (%d,%d)", w, i, r, b, c, bit)
			}
			c += bit
		}
	}
	return ""
}()

func TestColdStart(t *testing.T) {
	vk.SetPhase("coldstart")
	vk.Label("cold-start-probe", 1)
	if coldStartResult != "" {
		checker.Run(t, Case{Style: "cold-start:" + coldStartResult})
	}
}

func TestMain(m *testing.M) { vk.Main(m, "C01") }

// TestFirst runs right after the cold-start probe, before any larger input has been seen: index lengths in
// ASCENDING order around every power of two. A buffer that the library grows and reuses (pool, slab, scratch)
// then passes through every capacity step exactly when an index of that length is built.
func TestFirst(t *testing.T) {
	vk.SetPhase("first")
	shard := 0
	// lengths around every power of two up to 1024 words (index lengths that coincide with the
	// capacity steps of any growing or pooled buffer), dense and mixed content
	if shard == 0 {
		for k := 0; k <= 10; k++ {
			for d := -2; d <= 2; d++ {
				n := 1<<uint(k) + d
				if n < 0 {
					continue
				}
				for style := 0; style < 2; style++ {
					w := make(vk.Words, n)
					for i := range w {
						if style == 0 {
							w[i] = ^uint64(0)
						} else {
							w[i] = vk.Mix(uint64(n)*977 + uint64(i))
						}
					}
					checker.Run(t, Case{Words: w, Style: "grid-pow2-length"})
				}
			}
		}
	}
}

// Case is one bitmap plus, for large bitmaps, the sampled probe positions.
type Case struct {
	Max    int          `json:"max,omitempty"` // v+1: the maximum bitmap, exactly 2^25 words = 2^31 bits, description v (gen.UseMax)
	Words  vk.Words     `json:"words,omitempty"`
	Big    *gen.BigSpec `json:"big,omitempty"`
	Style  string       `json:"style,omitempty"`
	Probes []int32      `json:"probes,omitempty"` // extra positions for large bitmaps
}

func (c Case) words() []uint64 {
	if c.Big != nil {
		return c.Big.Expand()
	}
	return c.Words
}

const allPositionsUpTo = 64 // words

var checker = &vk.Checker[Case]{
	ID: "C01",
	Rule: "bitmaps drawn by style (zero, ones, mixed palette/density words, sparse, dense, islands, exact-count, tail, palette) and length class, " +
		"plus a complete grid of all bitmaps of 0..4 (thorough 0..5) words over a 12-word palette; every position 0<=i<64*len is queried for bitmaps <= 64 words " +
		"(otherwise all word boundaries +-1, 2-word windows and sampled positions) with Rank64 (plain, false, true index) and Rank128, against a bit-by-bit running count; the indexes are checked and used only AFTER indexes of other bitmaps (other contents, shorter, longer) have been built, so a result that aliases library-owned memory is seen. " +
		"Also the MAXIMUM bitmap - exactly 2^25 words = 2^31 bits, the largest one int32 positions address (three sparse descriptions, oracle from the description): indexes and ranks at the top positions, around every set word and in the long zero runs. " +
		"Non-trivial: >= 2 words, contains both a 0 and a 1 (so a right-half Rank128 query with a non-zero own-word popcount is executed). Distinct by hash of the case.",
	Check:    check,
	Classify: classify,
}

func classify(c Case) (bool, []string) {
	if c.Max > 0 {
		return true, []string{"style:maximum-bitmap(2^25 words)"}
	}
	if len(c.Style) > 11 && c.Style[:11] == "cold-start:" {
		return false, []string{"cold-start-failure"}
	}
	w := c.words()
	has0, has1 := false, false
	for _, x := range w {
		if x != 0 {
			has1 = true
		}
		if x != ^uint64(0) {
			has0 = true
		}
	}
	labels := []string{"style:" + c.Style}
	if len(w)&1 == 1 {
		labels = append(labels, "parity:odd")
	} else {
		labels = append(labels, "parity:even")
	}
	switch {
	case len(w) == 0:
		labels = append(labels, "len:0")
	case len(w) <= 4:
		labels = append(labels, "len:1-4")
	case len(w) <= 64:
		labels = append(labels, "len:5-64")
	case len(w) <= 4096:
		labels = append(labels, "len:65-4096")
	default:
		labels = append(labels, "len:>4096")
	}
	return len(w) >= 2 && has0 && has1, labels
}

var scratch vk.Scratch

// checkMax: ranks on the largest bitmap whose positions fit an int32 (sparse oracle from its description).
func checkMax(v int) *vk.Failure {
	if v < 0 || v >= gen.MaxVariants {
		return nil
	}
	w := gen.UseMax(v)
	var idxT, idx128 []int32
	if f := vk.Try("IndexRank64/IndexRank128 on 2^25 words", func() {
		idxT = bitmap.IndexRank64(w, true)
		idx128 = bitmap.IndexRank128(w)
	}); f != nil {
		return f
	}
	if len(idxT) != gen.MaxWords+1 || len(idx128) != gen.MaxWords/2+1 {
		return vk.Failf("index-len", "indexes of the 2^25-word bitmap have %d / %d entries", len(idxT), len(idx128))
	}
	for _, k := range gen.MaxSetWords() {
		for _, j := range []int{k, k + 1} {
			if want := gen.MaxRank(int64(j) * 64); int64(idxT[j]) != want {
				return vk.Failf("index64-entry", "2^25-word bitmap: IndexRank64(true)[%d] = %d, want %d", j, idxT[j], want)
			}
		}
		if want := gen.MaxRank(int64(k/2) * 128); int64(idx128[k/2]) != want {
			return vk.Failf("index128-entry", "2^25-word bitmap: IndexRank128[%d] = %d, want %d", k/2, idx128[k/2], want)
		}
	}
	for _, p := range gen.MaxProbes() {
		wantC, wantB := int32(gen.MaxRank(p)), int32(gen.MaxBit(p))
		var c1, b1, c2, b2 int32
		if f := vk.Try(fmt.Sprintf("Rank64/Rank128 at %d on 2^25 words", p), func() {
			c1, b1 = bitmap.Rank64(w, idxT, int32(p))
			c2, b2 = bitmap.Rank128(w, idx128, int32(p))
		}); f != nil {
			return f
		}
		if c1 != wantC || b1 != wantB {
			return vk.Failf("rank64", "2^25-word bitmap: Rank64(i=%d) = (%d,%d), want (%d,%d)", p, c1, b1, wantC, wantB)
		}
		if c2 != wantC || b2 != wantB {
			return vk.Failf("rank128", "2^25-word bitmap: Rank128(i=%d) = (%d,%d), want (%d,%d)", p, c2, b2, wantC, wantB)
		}
	}
	if k, bad := gen.MaxBitmapDamage(); bad {
		return vk.Failf("argument-modified", "word %d of the 2^25-word bitmap was modified", k)
	}
	return nil
}

func check(c Case) (f *vk.Failure) {
	if c.Max > 0 {
		return checkMax(c.Max - 1)
	}
	if len(c.Style) > 11 && c.Style[:11] == "cold-start:" {
		if coldStartResult != "" {
			return vk.Failf("cold-start", "%s", coldStartResult)
		}
		return nil
	}
	orig := c.words()
	words := vk.Words(orig).Clone() // what the code under test sees: a private copy ...
	reused := scratch.Reuse(vk.SumU64(orig))
	if reused {
		words = scratch.U64(orig) // ... or, every other case, a reused buffer with guarded spare capacity
	}
	defer func() {
		if f == nil && reused {
			if msg := scratch.Check(); msg != "" {
				f = vk.Failf("argument-spare-capacity-written", "%s", msg)
			}
		}
		if f == nil {
			for i := range orig {
				if words[i] != orig[i] {
					f = vk.Failf("argument-modified", "bitmap word %d was modified by the rank functions", i)
					break
				}
			}
		}
	}()
	n := len(words)
	nbits := 64 * n

	// oracle: running count, bit by bit, shifts only
	pre := make([]int32, nbits+1)
	for i := 0; i < nbits; i++ {
		pre[i+1] = pre[i] + int32(orig[i/64]>>(uint(i)%64)&1)
	}
	total := pre[nbits]

	// table anchor
	for j := 0; j <= 64; j++ {
		var want uint64
		if j == 64 {
			want = ^uint64(0)
		} else {
			want = uint64(1)<<uint(j) - 1
		}
		if bitmap.Mask[j] != want {
			return vk.Failf("mask-table", "bitmap.Mask[%d] = %#x, want %#x", j, bitmap.Mask[j], want)
		}
	}

	var idx, idxF, idxT, idx128 []int32
	if f := vk.Try("IndexRank64/IndexRank128", func() {
		idx = bitmap.IndexRank64(words)
		idxF = bitmap.IndexRank64(words, false)
		idxT = bitmap.IndexRank64(words, true)
		idx128 = bitmap.IndexRank128(words)
	}); f != nil {
		return f
	}

	// A returned index belongs to the caller: building indexes of OTHER bitmaps afterwards (same
	// length, shorter, longer; other contents) must not change it. The content checks below and all
	// rank queries run after these calls, so a pooled / cached / shared result buffer shows up.
	if f := vk.Try("index builders on other bitmaps", func() {
		for _, other := range otherBitmaps(orig) {
			_ = bitmap.IndexRank64(other)
			_ = bitmap.IndexRank64(other, true)
			_ = bitmap.IndexRank128(other)
		}
	}); f != nil {
		return f
	}

	// what a caller's append would do: the spare capacity of every returned index is overwritten;
	// no other index (nor anything built later) may be affected
	vk.ScribbleI32(idx)
	vk.ScribbleI32(idxF)
	vk.ScribbleI32(idxT)
	vk.ScribbleI32(idx128)
	// the indexes stay under watch while later cases run
	{
		k64, k128 := idxT, idx128
		w64, w128 := make([]int32, len(idxT)), make([]int32, len(idx128))
		for i := range w64 {
			w64[i] = pre[min(64*i, nbits)]
		}
		for i := range w128 {
			w128[i] = pre[min(128*i, nbits)]
		}
		keep(func() string {
			for i := range w64 {
				if k64[i] != w64[i] {
					return fmt.Sprintf("IndexRank64(true) of a %d-word bitmap: entry %d was %d, now %d", len(w64)-1, i, w64[i], k64[i])
				}
			}
			for i := range w128 {
				if k128[i] != w128[i] {
					return fmt.Sprintf("IndexRank128 of a %d-word bitmap: entry %d was %d, now %d", n, i, w128[i], k128[i])
				}
			}
			return ""
		})
	}

	// index shapes and contents
	for name, ix := range map[string][]int32{"IndexRank64()": idx, "IndexRank64(false)": idxF} {
		if len(ix) != n {
			return vk.Failf("index64-len", "%s has %d entries for %d words", name, len(ix), n)
		}
		for k := 0; k < n; k++ {
			if ix[k] != pre[64*k] {
				return vk.Failf("index64-entry", "%s[%d] = %d, want %d", name, k, ix[k], pre[64*k])
			}
		}
	}
	if len(idxT) != n+1 {
		return vk.Failf("index64-trailing-len", "IndexRank64(true) has %d entries for %d words, want %d", len(idxT), n, n+1)
	}
	for k := 0; k <= n; k++ {
		if idxT[k] != pre[64*k] {
			return vk.Failf("index64-trailing-entry", "IndexRank64(true)[%d] = %d, want %d (total %d)", k, idxT[k], pre[64*k], total)
		}
	}
	if len(idx128) != n/2+1 {
		return vk.Failf("index128-len", "IndexRank128 has %d entries for %d words, want %d", len(idx128), n, n/2+1)
	}
	for k := range idx128 {
		p := 128 * k
		if p > nbits {
			p = nbits // the entry past an odd last word is only defined as the total
			// (for odd n the index has (n-1)/2+1 entries, the last one at 128*((n-1)/2) <= nbits, so this is never taken)
		}
		if idx128[k] != pre[p] {
			return vk.Failf("index128-entry", "IndexRank128[%d] = %d, want %d", k, idx128[k], pre[p])
		}
	}

	// positions to query
	probe := func(i int32) *vk.Failure {
		wantC, wantB := pre[i], int32(orig[i/64]>>(uint(i)%64)&1)
		var c1, b1, c2, b2, c3, b3 int32
		if f := vk.Try("Rank64/Rank128", func() {
			c1, b1 = bitmap.Rank64(words, idx, i)
			c2, b2 = bitmap.Rank64(words, idxT, i)
			c3, b3 = bitmap.Rank128(words, idx128, i)
		}); f != nil {
			f.Msg = "at i=" + itoa(i) + ": " + f.Msg
			return f
		}
		if c1 != wantC || b1 != wantB {
			return vk.Failf("rank64", "Rank64(i=%d) = (%d,%d), want (%d,%d)", i, c1, b1, wantC, wantB)
		}
		if c2 != wantC || b2 != wantB {
			return vk.Failf("rank64-trailing-index", "Rank64 with trailing index (i=%d) = (%d,%d), want (%d,%d)", i, c2, b2, wantC, wantB)
		}
		if c3 != wantC || b3 != wantB {
			return vk.Failf("rank128", "Rank128(i=%d) = (%d,%d), want (%d,%d)", i, c3, b3, wantC, wantB)
		}
		return nil
	}

	if n <= allPositionsUpTo {
		for i := 0; i < nbits; i++ {
			if f := probe(int32(i)); f != nil {
				return f
			}
		}
		return nil
	}
	for k := 0; k < n; k++ {
		for _, i := range []int{64 * k, 64*k + 1, 64*k + 63, 64*k + 62, 64*k + 31, 64*k + 32} {
			if f := probe(int32(i)); f != nil {
				return f
			}
		}
	}
	for _, p := range c.Probes {
		if p < 0 || int(p) >= nbits {
			continue
		}
		if f := probe(p); f != nil {
			return f
		}
	}
	return nil
}

// otherBitmaps derives bitmaps that differ from w in content and in length (deterministically).
func otherBitmaps(w []uint64) [][]uint64 {
	inv := make([]uint64, len(w))
	for i, x := range w {
		inv[i] = ^x ^ uint64(i)*0x9e3779b97f4a7c15
	}
	longer := append(append([]uint64{}, inv...), 0x5555555555555555, ^uint64(0), 1)
	out := [][]uint64{inv, longer}
	if len(w) > 1 {
		out = append(out, inv[:len(w)-1], inv[:len(w)/2])
	}
	return out
}

func itoa(i int32) string {
	return fmtInt(int64(i))
}

func fmtInt(v int64) string {
	if v == 0 {
		return "0"
	}
	neg := v < 0
	if neg {
		v = -v
	}
	var b []byte
	for ; v > 0; v /= 10 {
		b = append([]byte{byte('0' + v%10)}, b...)
	}
	if neg {
		b = append([]byte{'-'}, b...)
	}
	return string(b)
}

func genCase(t *rapid.T) Case {
	maxWords := vk.Pick(40, 4096)
	bigEvery := vk.Pick(200, 40)
	if gen.Chance(t, 1, bigEvery, "bigclass") {
		// large bitmap: compact spec + sampled probes
		var spec gen.BigSpec
		if vk.Thorough() && gen.Chance(t, 1, 8, "huge") {
			spec = gen.Big(t, 66000, 70001, "big") // ranks above 2^16 (dense styles above 2^22)
		} else {
			spec = gen.Big(t, 65, vk.Pick(600, 8192), "big")
		}
		nbits := 64 * spec.N
		var probes []int32
		for w := 0; w < 4; w++ {
			start := gen.Uniform(t, nbits-127, "window")
			for i := 0; i < 128; i++ {
				probes = append(probes, int32(start+i))
			}
		}
		for i := 0; i < 256; i++ {
			probes = append(probes, int32(gen.Uniform(t, nbits, "probe")))
		}
		return Case{Big: &spec, Style: "big", Probes: probes}
	}
	w, style := gen.Bitmap(t, maxWords, "bm")
	return Case{Words: w, Style: style}
}

func TestRegress(t *testing.T) { checker.Regress(t) }

func TestProp(t *testing.T) { checker.Prop(t, genCase) }

func FuzzProp(f *testing.F) { checker.Fuzz(f, genCase) }

var gridPalette = []uint64{
	0, ^uint64(0), 1, 1 << 63, 0xffffffff, 0xffffffff00000000,
	0x8000000000000001, 0x5555555555555555, 0x00000000ffff0000, 0x7fffffffffffffff, 0xfffffffffffffffe, 0x0123456789abcdef,
}

// TestGrid enumerates every bitmap of 0..L words over the 12-word palette.
func TestGrid(t *testing.T) {
	vk.SetPhase("grid")
	maxLen := vk.Pick(4, 5)
	shard, nshards := vk.Shard()
	count := 0
	for l := 0; l <= maxLen; l++ {
		total := 1
		for i := 0; i < l; i++ {
			total *= len(gridPalette)
		}
		for code := 0; code < total; code++ {
			count++
			if count%nshards != shard {
				continue
			}
			w := make(vk.Words, l)
			x := code
			for i := 0; i < l; i++ {
				w[i] = gridPalette[x%len(gridPalette)]
				x /= len(gridPalette)
			}
			checker.Run(t, Case{Words: w, Style: "grid"})
		}
	}
	// a few very large bitmaps in every run (ranks above 2^16 / 2^22; size thresholds of any fast path)
	if shard == 0 {
		for style := 0; style <= 5; style++ {
			for _, n := range []int{65536, 65537, 70001} {
				spec := gen.BigSpec{N: n, Key: uint64(1000*style + n), Style: style}
				var probes []int32
				for i := 0; i < 600; i++ {
					probes = append(probes, int32(vk.Mix(uint64(i)+spec.Key)%uint64(64*n)))
				}
				checker.Run(t, Case{Big: &spec, Style: "grid-big", Probes: probes})
			}
		}
	}
	vk.MarkExhaustive("all bitmaps of 0.." + fmtInt(int64(maxLen)) + " words over a 12-word palette x all positions")
}

// TestLast runs at the very end of the process: the maximum bitmap (exactly 2^31 bits: the largest positions an
// int32 holds) and the regression cases of that size. Huge inputs come last so that what they leave behind in the
// library cannot mask anything the ordinary cases would have met.
func TestLast(t *testing.T) {
	vk.SetPhase("last")
	for v := 0; v < gen.MaxVariants; v++ {
		checker.Run(t, Case{Max: v + 1, Style: "maximum"})
	}
	checker.RegressLast(t)
}

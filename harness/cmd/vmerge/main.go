// vmerge prints the size of the union of the sorted little-endian uint64 hash
// files given as arguments (exact merge of per-process distinct-case sets).
package main

import (
	"encoding/binary"
	"fmt"
	"os"
	"sort"
)

func main() {
	var all []uint64
	for _, p := range os.Args[1:] {
		b, err := os.ReadFile(p)
		if err != nil {
			fmt.Fprintln(os.Stderr, "vmerge:", err)
			os.Exit(2)
		}
		for i := 0; i+8 <= len(b); i += 8 {
			all = append(all, binary.LittleEndian.Uint64(b[i:]))
		}
	}
	sort.Slice(all, func(i, j int) bool { return all[i] < all[j] })
	n := 0
	for i, h := range all {
		if i == 0 || h != all[i-1] {
			n++
		}
	}
	fmt.Println(n)
}

// Package vk is the small kit shared by every property package of the
// harness: environment (tier, seed, shard, output directory), evidence
// counters (evaluations, distinct non-trivial cases by 64-bit hash, class
// histogram, bottom-k samples), failure / pending-case files, regression
// replay, and panic capture.
//
// Nothing in here draws random numbers, reads the clock for decisions or
// depends on map iteration order: a run is a function of the tree under test,
// VERIF_SEED and the tier.
package vk

import (
	"bytes"
	"encoding/binary"
	"encoding/json"
	"fmt"
	"os"
	"path/filepath"
	"runtime"
	"runtime/debug"
	"sort"
	"strconv"
	"strings"
	"sync"
	"testing"

	"pgregory.net/rapid"
)

// ---------------------------------------------------------------- environment

func env(k, def string) string {
	if v, ok := os.LookupEnv(k); ok && v != "" {
		return v
	}
	return def
}

func envInt(k string, def int) int {
	v, err := strconv.Atoi(env(k, ""))
	if err != nil {
		return def
	}
	return v
}

// Tier returns "quick" or "thorough".
func Tier() string { return env("VERIF_TIER", "quick") }

// Thorough reports whether the thorough tier is running.
func Thorough() bool { return Tier() == "thorough" }

// Pick returns q in the quick tier and th in the thorough tier.
func Pick[T any](q, th T) T {
	if Thorough() {
		return th
	}
	return q
}

// OutDir is where stats, fail.json and pending.json go.
func OutDir() string { return env("VERIF_OUT", os.TempDir()) }

// ProcTag is the driver's name for this process (main-rel, prop-debug, fuzz-rel, ...).
func ProcTag() string { return env("VERIF_PHASE", "adhoc") }

var curPhase = "other"

// SetPhase names the phase (regress, grid, prop, fuzz, ...) that the following
// evaluations are accounted to. Test functions of one binary run sequentially.
func SetPhase(p string) {
	st.mu.Lock()
	curPhase = p
	st.mu.Unlock()
}

// Shard returns (index, count) of this process among the shards of a phase.
func Shard() (int, int) {
	n := envInt("VERIF_NSHARDS", 1)
	if n < 1 {
		n = 1
	}
	i := envInt("VERIF_SHARD", 0)
	if i < 0 || i >= n {
		i = 0
	}
	return i, n
}

// Seed is VERIF_SEED (default 1).
func Seed() uint64 {
	v, err := strconv.ParseUint(env("VERIF_SEED", "1"), 10, 64)
	if err != nil {
		return 1
	}
	return v
}

// ---------------------------------------------------------------- failures

// Failure is one disagreement between the code under test and the oracle.
type Failure struct {
	Kind string // stable assertion id
	Msg  string
}

func (f *Failure) Error() string { return f.Kind + ": " + f.Msg }

// Failf builds a Failure.
func Failf(kind, format string, args ...any) *Failure {
	return &Failure{Kind: kind, Msg: fmt.Sprintf(format, args...)}
}

// Try runs fn and converts a panic into a Failure of kind "panic".
func Try(what string, fn func()) (f *Failure) {
	defer func() {
		if r := recover(); r != nil {
			st := string(debug.Stack())
			if len(st) > 3000 {
				st = st[:3000]
			}
			f = &Failure{Kind: "panic", Msg: fmt.Sprintf("%s panicked: %v\n%s", what, r, st)}
		}
	}()
	fn()
	return nil
}

// TryF is Try with a lazily built description (for hot loops).
func TryF(what func() string, fn func()) (f *Failure) {
	defer func() {
		if r := recover(); r != nil {
			st := string(debug.Stack())
			if len(st) > 3000 {
				st = st[:3000]
			}
			f = &Failure{Kind: "panic", Msg: fmt.Sprintf("%s panicked: %v\n%s", what(), r, st)}
		}
	}()
	fn()
	return nil
}

// TryKind is Try with a caller-chosen failure kind.
func TryKind(kind, what string, fn func()) *Failure {
	f := Try(what, fn)
	if f != nil {
		f.Kind = kind
	}
	return f
}

// TB is what both *testing.T and *rapid.T offer.
type TB interface {
	Helper()
	Fatalf(format string, args ...any)
	Logf(format string, args ...any)
}

// FileCase is the on-disk form of a case (fail.json, replays, regress files).
type FileCase struct {
	Property string          `json:"property"`
	Kind     string          `json:"kind,omitempty"`
	Message  string          `json:"message,omitempty"`
	Note     string          `json:"note,omitempty"`
	Case     json.RawMessage `json:"case"`
	// History: the cases this process evaluated right before the first failure (oldest first).
	// A replay runs them first, so a failure that depends on state left behind by earlier
	// calls (a cache, a pool, lazily initialised tables) reproduces from the file alone.
	History []json.RawMessage `json:"history,omitempty"`
	// First: the first failing case of the process, before shrinking (only when it differs from Case).
	// Shrinking re-runs the property on many candidates, each of which leaves state behind in the
	// library: a minimal case whose failure needs such state does not reproduce after History alone,
	// the first failing case does. A replay evaluates First right after History, then Case.
	First json.RawMessage `json:"first,omitempty"`
	// Procs: the GOMAXPROCS setting under which the case failed, when the process was one that varies it
	// (see procs below); a replay evaluates the case under that setting.
	Procs int `json:"procs,omitempty"`
}

// ---------------------------------------------------------------- scheduler width
//
// The ordinary test processes run with GOMAXPROCS=1 (deterministic per-P runtime state). A library
// function may however hand work to goroutines when runtime.GOMAXPROCS(0) > 1 (chunked scans, per-CPU
// partitions): how the input is cut then depends on that number, and a chunking mistake shows only
// for particular (size, GOMAXPROCS) pairs. A process started with VERIF_PROCS="2,3,16,..." therefore
// runs the same tests while stepping through those settings, one block of evaluations each; the
// setting is a function of the evaluation counter, is frozen at the first failure (so shrinking
// judges every candidate under the setting that failed) and is written into the case file.

var procsList []int
var procsPos, procsBlockLeft int
var procsBlock = 8

func init() {
	for _, f := range strings.Split(env("VERIF_PROCS", ""), ",") {
		if n, err := strconv.Atoi(strings.TrimSpace(f)); err == nil && n >= 1 && n <= 256 {
			procsList = append(procsList, n)
		}
	}
	if n := envInt("VERIF_PROCS_BLOCK", 0); n > 0 {
		procsBlock = n
	}
}

// ProcsVaried reports whether this process steps through GOMAXPROCS settings.
func ProcsVaried() bool { return len(procsList) > 0 }

func procsStep(frozen bool) {
	if len(procsList) == 0 || frozen {
		return
	}
	if procsBlockLeft > 0 {
		procsBlockLeft--
		return
	}
	procsBlockLeft = procsBlock - 1
	n := procsList[procsPos%len(procsList)]
	procsPos++
	runtime.GOMAXPROCS(n)
	Label(fmt.Sprintf("gomaxprocs-block-%d", n), 1)
}

// ProcsSweep evaluates fn once under every setting of the list (for the few deliberately large
// inputs of a grid, which would otherwise meet one setting only); without a list it calls fn once.
func ProcsSweep(fn func()) {
	if len(procsList) == 0 {
		fn()
		return
	}
	seen := map[int]bool{}
	for _, n := range procsList {
		if seen[n] {
			continue
		}
		seen[n] = true
		runtime.GOMAXPROCS(n)
		procsBlockLeft = 1 << 30 // keep the setting while fn runs its evaluations
		fn()
		if anyFailed {
			break
		}
	}
	procsBlockLeft = 0
}

var anyFailed bool

func writeAtomic(path string, data []byte) error {
	tmp := fmt.Sprintf("%s.%d.tmp", path, os.Getpid())
	if err := os.WriteFile(tmp, data, 0o644); err != nil {
		return err
	}
	return os.Rename(tmp, path)
}

// ---------------------------------------------------------------- stats

const hashCap = 1 << 21

type sample struct {
	Hash uint64          `json:"-"`
	JSON json.RawMessage `json:"case"`
}

type stats struct {
	mu          sync.Mutex
	id          string
	rule        string
	evals       int64
	phaseEvals  map[string]int64
	nontrivial  int64 // non-trivial evaluations (not distinct)
	hashes      map[uint64]struct{}
	capHit      bool
	constructed int64 // distinct non-trivial cases counted by construction (disjoint from hashes)
	classes     map[string]int64
	samples     []sample // bottom-k by hash
	extra       map[string]any
	exhaustive  []string
}

var st = &stats{
	phaseEvals: map[string]int64{},
	hashes:     map[uint64]struct{}{},
	classes:    map[string]int64{},
	extra:      map[string]any{},
}

// Hash64 is FNV-1a followed by a splitmix finaliser.
func Hash64(b []byte) uint64 {
	h := uint64(14695981039346656037)
	for _, c := range b {
		h ^= uint64(c)
		h *= 1099511628211
	}
	return Mix(h)
}

// Mix is the splitmix64 finaliser (a bijection on uint64).
func Mix(z uint64) uint64 {
	z += 0x9e3779b97f4a7c15
	z = (z ^ (z >> 30)) * 0xbf58476d1ce4e5b9
	z = (z ^ (z >> 27)) * 0x94d049bb133111eb
	return z ^ (z >> 31)
}

const sampleK = 5
const sampleMaxBytes = 6000

func (s *stats) record(nontrivial bool, labels []string, enc func() []byte) {
	s.mu.Lock()
	defer s.mu.Unlock()
	s.evals++
	s.phaseEvals[curPhase]++
	for _, l := range labels {
		s.classes[l]++
	}
	if !nontrivial {
		return
	}
	s.nontrivial++
	b := enc()
	h := Hash64(b)
	if _, ok := s.hashes[h]; ok {
		return
	}
	if len(s.hashes) >= hashCap {
		s.capHit = true
		return
	}
	s.hashes[h] = struct{}{}
	// bottom-k sample
	if len(s.samples) < sampleK || h < s.samples[len(s.samples)-1].Hash {
		js := b
		if len(js) > sampleMaxBytes {
			js, _ = json.Marshal(map[string]any{"truncated_case_json_prefix": string(b[:sampleMaxBytes]), "full_length": len(b)})
		}
		s.samples = append(s.samples, sample{Hash: h, JSON: append([]byte(nil), js...)})
		sort.Slice(s.samples, func(i, j int) bool { return s.samples[i].Hash < s.samples[j].Hash })
		if len(s.samples) > sampleK {
			s.samples = s.samples[:sampleK]
		}
	}
}

// CountConstructed adds evaluations that were enumerated by a grid whose cases
// are distinct by construction and are NOT also put through the hash set.
// nontrivial of them are non-trivial by the property's rule.
func CountConstructed(evals, nontrivial int64, labels ...string) {
	st.mu.Lock()
	defer st.mu.Unlock()
	st.evals += evals
	st.phaseEvals[curPhase] += evals
	st.constructed += nontrivial
	for _, l := range labels {
		st.classes[l] += evals
	}
}

// AddSample stores an explicit sample (used by pure-enumeration grids).
func AddSample(v any) {
	b, err := json.Marshal(v)
	if err != nil {
		return
	}
	st.mu.Lock()
	defer st.mu.Unlock()
	if len(st.samples) < sampleK {
		st.samples = append(st.samples, sample{Hash: ^uint64(0) - uint64(len(st.samples)), JSON: b})
	}
}

// Label bumps a class counter without recording a case.
func Label(l string, n int64) {
	st.mu.Lock()
	st.classes[l] += n
	st.mu.Unlock()
}

// SetExtra stores a free-form key in the evidence coverage object.
func SetExtra(k string, v any) {
	st.mu.Lock()
	st.extra[k] = v
	st.mu.Unlock()
}

// MarkExhaustive records that a finite domain was enumerated completely.
func MarkExhaustive(what string) {
	st.mu.Lock()
	st.exhaustive = append(st.exhaustive, what)
	st.mu.Unlock()
}

type statsFile struct {
	Property    string            `json:"property"`
	Phase       string            `json:"phase"`
	Shard       int               `json:"shard"`
	Rule        string            `json:"rule"`
	Evals       int64             `json:"evaluations"`
	PhaseEvals  map[string]int64  `json:"phase_evaluations"`
	Nontrivial  int64             `json:"nontrivial_evaluations"`
	Distinct    int               `json:"distinct_hashes"`
	CapHit      bool              `json:"hash_cap_hit"`
	Constructed int64             `json:"distinct_by_construction"`
	Classes     map[string]int64  `json:"classes"`
	Samples     []json.RawMessage `json:"samples"`
	SampleHash  []string          `json:"sample_hashes"`
	Extra       map[string]any    `json:"extra"`
	Exhaustive  []string          `json:"exhaustive"`
}

func dumpStats() {
	st.mu.Lock()
	defer st.mu.Unlock()
	if st.evals == 0 && len(st.extra) == 0 {
		return
	}
	shard, _ := Shard()
	sf := statsFile{
		Property: st.id, Phase: ProcTag(), Shard: shard, Rule: st.rule,
		Evals: st.evals, PhaseEvals: st.phaseEvals, Nontrivial: st.nontrivial,
		Distinct: len(st.hashes), CapHit: st.capHit, Constructed: st.constructed,
		Classes: st.classes, Extra: st.extra, Exhaustive: st.exhaustive,
	}
	for _, s := range st.samples {
		sf.Samples = append(sf.Samples, s.JSON)
		sf.SampleHash = append(sf.SampleHash, fmt.Sprintf("%016x", s.Hash))
	}
	base := filepath.Join(OutDir(), fmt.Sprintf("stats-%s-%d-%d", ProcTag(), shard, os.Getpid()))
	b, _ := json.Marshal(sf)
	_ = writeAtomic(base+".json", b)
	hs := make([]uint64, 0, len(st.hashes))
	for h := range st.hashes {
		hs = append(hs, h)
	}
	sort.Slice(hs, func(i, j int) bool { return hs[i] < hs[j] })
	buf := make([]byte, 8*len(hs))
	for i, h := range hs {
		binary.LittleEndian.PutUint64(buf[8*i:], h)
	}
	_ = writeAtomic(base+".hashes", buf)
}

// Main is called from TestMain of every property package.
func Main(m *testing.M, id string) {
	st.id = id
	code := m.Run()
	dumpStats()
	os.Exit(code)
}

// ---------------------------------------------------------------- checker

// Checker binds the pure check, the classifier and the bookkeeping of one
// property together.
type Checker[C any] struct {
	ID string
	// Rule describes generation and the non-triviality rule (goes to evidence).
	Rule string
	// Check is pure: oracle vs code under test; nil means the case held.
	Check func(c C) *Failure
	// Classify returns the non-triviality verdict and class labels.
	Classify func(c C) (bool, []string)
	// Key optionally gives the canonical bytes hashed for distinctness
	// (default: the JSON encoding of the case).
	Key func(c C) []byte
	// Hashed optionally says whether a non-trivial case takes part in the
	// distinct-by-hash count (false for cases that lie inside a domain a grid
	// already counts by construction, so nothing is counted twice).
	Hashed func(c C) bool
	// Risky, when set and true for a case, makes Run write pending.json before
	// calling Check (unrecoverable process death is then attributable).
	Risky func(c C) bool

	// KeepLen is how many earlier results stay under watch (default 8): see Keep.
	KeepLen   int
	keepers   []func() string
	keepSeq   int
	ring      []C // the last historyLen cases evaluated by this process
	ringPos   int
	frozen    []C    // history before the first failure of this process (kept for the shrunk cases too)
	firstFail []byte // the first failing case (encoded), before shrinking
	frozenEnc []json.RawMessage
	recentEnc [][]byte // encodings of the last few armed cases (written into the pending file)
	failed    bool
}

const historyLen = 1024

func (k *Checker[C]) remember(c C) {
	if k.failed {
		return
	}
	if len(k.ring) < historyLen {
		k.ring = append(k.ring, c)
		return
	}
	k.ring[k.ringPos] = c
	k.ringPos = (k.ringPos + 1) % historyLen
}

// Keep registers a closure that re-validates something the code under test RETURNED for the
// current case (the closure holds the returned slices/strings and private copies of what they
// must contain). The closures of the last KeepLen cases are run again after every later case:
// a result belongs to the caller and must not change when the library is called again (results
// that alias pooled, cached or shared library memory show up here). A non-empty string fails the
// case that was running when the change was noticed; its history names the earlier cases.
func (k *Checker[C]) Keep(fn func() string) {
	n := k.KeepLen
	if n <= 0 {
		n = 8
	}
	k.keepSeq++
	k.keepers = append(k.keepers, fn)
	if len(k.keepers) > n {
		k.keepers = k.keepers[len(k.keepers)-n:]
	}
}

// RunKeepers lets a grid that evaluates cases directly (not through Eval) re-validate the kept results.
func (k *Checker[C]) RunKeepers() *Failure { return k.runKeepers() }

func (k *Checker[C]) runKeepers() *Failure {
	for i, fn := range k.keepers {
		var msg string
		if pf := Try("keeper", func() { msg = fn() }); pf != nil {
			msg = pf.Msg
		}
		if msg != "" {
			k.keepers = append(k.keepers[:i:i], k.keepers[i+1:]...)
			return &Failure{Kind: "result-changed-after-return", Msg: "a result returned for an earlier case no longer reads as it did when it was returned (it aliases memory the library reuses): " + msg}
		}
	}
	return nil
}

// Remember records a case that a grid evaluated directly (not through Eval), so that it is
// part of the history written with a later failure.
func (k *Checker[C]) Remember(c C) { k.remember(c) }

func (k *Checker[C]) history() []C {
	out := make([]C, 0, len(k.ring))
	out = append(out, k.ring[k.ringPos:]...)
	return append(out, k.ring[:k.ringPos]...)
}

func (k *Checker[C]) encode(c C) []byte {
	b, err := json.Marshal(c)
	if err != nil {
		panic("vk: case does not marshal: " + err.Error())
	}
	return b
}

// Eval records and checks one case, returning the failure (nil if held).
func (k *Checker[C]) Eval(c C) *Failure {
	if st.rule == "" {
		st.rule = k.Rule
	}
	nt, labels := k.Classify(c)
	if nt && k.Hashed != nil && !k.Hashed(c) {
		nt = false
		labels = append(labels, "nontrivial-but-inside-grid-domain(not-hashed)")
	}
	var encoded []byte
	st.record(nt, labels, func() []byte {
		encoded = k.encode(c)
		if k.Key != nil {
			return k.Key(c)
		}
		return encoded
	})
	// pending-case file: if the process dies inside Check (stack overflow, out of
	// memory, fatal runtime error) the driver finds the case that was running.
	// Always on for Risky cases; otherwise on for non-trivial cases (already encoded).
	armed := false
	if (k.Risky != nil && k.Risky(c)) || encoded != nil {
		if encoded == nil {
			encoded = k.encode(c)
		}
		armed = armPending(k.ID, encoded, k.recentEnc)
		// the few cases before this one go into the pending file too (state left by earlier calls)
		if len(encoded) <= 1<<16 {
			k.recentEnc = append(k.recentEnc, encoded)
			if len(k.recentEnc) > 4 {
				k.recentEnc = k.recentEnc[1:]
			}
		}
	}
	procsStep(k.failed)
	var f *Failure
	nKeep, seqBefore := len(k.keepers), k.keepSeq
	if pf := Try("harness check", func() { f = k.Check(c) }); pf != nil {
		// a panic that escaped Check's own guarded calls is a harness problem
		Infra("panic inside the harness check (outside guarded calls): " + pf.Msg)
		f = nil
	}
	if added := k.keepSeq - seqBefore; f != nil && added > 0 {
		// results of a failing case are not put under watch (they would fail every later case,
		// in particular the shrink candidates, for a reason that is not theirs)
		k.keepers = k.keepers[:max(len(k.keepers)-added, 0)]
	}
	if f == nil && nKeep > 0 {
		// results returned for earlier cases must still read the same (those registered by this very
		// case are at the end of the list and trivially fine)
		f = k.runKeepers()
	}
	if armed {
		disarmPending()
	}
	if f != nil {
		if !k.failed {
			k.failed = true
			anyFailed = true
			k.frozen = k.history()
			if e := k.encode(c); len(e) <= 4<<20 {
				k.firstFail = e
			}
		}
		k.writeFail(c, f)
	} else {
		k.remember(c)
	}
	return f
}

// Run is Eval plus t.Fatalf on failure.
func (k *Checker[C]) Run(t TB, c C) {
	t.Helper()
	if f := k.Eval(c); f != nil {
		t.Fatalf("VERIF-FAIL property=%s kind=%s: %s", k.ID, f.Kind, f.Msg)
	}
}

func (k *Checker[C]) writeFail(c C, f *Failure) {
	fc := FileCase{Property: k.ID, Kind: f.Kind, Message: f.Msg, Case: k.encode(c)}
	if k.frozenEnc == nil && len(k.frozen) > 0 { // encoded once, newest first, within a size budget
		total := 0
		for i := len(k.frozen) - 1; i >= 0; i-- {
			e := k.encode(k.frozen[i])
			if len(e) > 1<<18 {
				continue // a single huge case is left out rather than ending the history
			}
			if total += len(e); total > 2<<20 {
				break
			}
			k.frozenEnc = append(k.frozenEnc, e)
		}
		for i, j := 0, len(k.frozenEnc)-1; i < j; i, j = i+1, j-1 {
			k.frozenEnc[i], k.frozenEnc[j] = k.frozenEnc[j], k.frozenEnc[i]
		}
	}
	fc.History = k.frozenEnc
	if ProcsVaried() || replayProcs > 0 {
		fc.Procs = runtime.GOMAXPROCS(0)
	}
	if k.firstFail != nil && !bytes.Equal(k.firstFail, fc.Case) {
		fc.First = k.firstFail
	}
	b, _ := json.Marshal(fc)
	// last failing case wins: rapid (and the native fuzzer's minimiser) re-run
	// the property on ever smaller cases and finish with the minimal one.
	_ = writeAtomic(filepath.Join(OutDir(), "fail.json"), b)
}

var pendingFile *os.File
var replayProcs int

// armPending writes the running case in place into pending-<pid>.json (two
// cheap syscalls, no rename); disarmPending truncates it. A non-empty file
// after the process died names the case that killed it.
func armPending(id string, encoded []byte, recent [][]byte) bool {
	if pendingFile == nil {
		f, err := os.OpenFile(filepath.Join(OutDir(), fmt.Sprintf("pending-%d.json", os.Getpid())), os.O_CREATE|os.O_RDWR|os.O_TRUNC, 0o644)
		if err != nil {
			return false
		}
		pendingFile = f
	}
	head := []byte(`{"property":"` + id + `","kind":"process-death","message":"the test process died (fatal runtime error) while this case was being executed",`)
	if ProcsVaried() || replayProcs > 0 {
		head = append(head, fmt.Sprintf(`"procs":%d,`, runtime.GOMAXPROCS(0))...)
	}
	head = append(head, `"case":`...)
	buf := make([]byte, 0, len(head)+len(encoded)+64)
	buf = append(append(buf, head...), encoded...)
	if len(recent) > 0 {
		buf = append(buf, `,"history":[`...)
		for i, r := range recent {
			if i > 0 {
				buf = append(buf, ',')
			}
			buf = append(buf, r...)
		}
		buf = append(buf, ']')
	}
	buf = append(buf, '}')
	if _, err := pendingFile.WriteAt(buf, 0); err != nil {
		return false
	}
	return pendingFile.Truncate(int64(len(buf))) == nil
}

// ArmProbe puts a pending case on disk before code that runs outside Eval (the package-level
// cold-start probes, which run before TestMain): if the process dies in there with a fatal runtime
// error, the driver reports a violation with this case instead of an inconclusive run.
func ArmProbe(id string, c any) {
	if enc, err := json.Marshal(c); err == nil {
		armPending(id, enc, nil)
	}
}

// DisarmProbe ends ArmProbe.
func DisarmProbe() { disarmPending() }

func disarmPending() {
	if pendingFile != nil {
		_ = pendingFile.Truncate(0)
	}
}

// Infra records a harness/infrastructure problem (driver maps it to exit 2).
func Infra(msg string) {
	f, err := os.OpenFile(filepath.Join(OutDir(), "infra.txt"), os.O_APPEND|os.O_CREATE|os.O_WRONLY, 0o644)
	if err == nil {
		fmt.Fprintln(f, msg)
		f.Close()
	}
	fmt.Fprintln(os.Stderr, "VERIF-INFRA:", msg)
}

// Regress replays the committed regression cases of the property and, when
// VERIF_REPLAY is set, exactly that file instead.
func (k *Checker[C]) Regress(t *testing.T) {
	SetPhase("regress")
	var files []string
	if p := env("VERIF_REPLAY", ""); p != "" {
		files = []string{p}
	} else if d := env("VERIF_REGRESS_DIR", ""); d != "" {
		m, _ := filepath.Glob(filepath.Join(d, "*.json"))
		sort.Strings(m)
		files = m
	}
	k.regressFiles(t, files)
}

// RegressLast replays the regression cases kept under <regress dir>/last/: cases with huge inputs,
// which a check evaluates at the very end of the process (TestLast) so that the state they leave
// behind in the library - a pooled buffer grown to 64 MiB, a cache keyed by a 256 MiB array - cannot
// mask what the ordinary cases would have met. Not used when a single file is replayed.
func (k *Checker[C]) RegressLast(t *testing.T) {
	if env("VERIF_REPLAY", "") != "" {
		return
	}
	if d := env("VERIF_REGRESS_DIR", ""); d != "" {
		m, _ := filepath.Glob(filepath.Join(d, "last", "*.json"))
		sort.Strings(m)
		k.regressFiles(t, m)
	}
}

func (k *Checker[C]) regressFiles(t *testing.T, files []string) {
	baseProcs := runtime.GOMAXPROCS(0)
	defer func() {
		if replayProcs > 0 {
			replayProcs = 0
			runtime.GOMAXPROCS(baseProcs)
		}
	}()
	for _, p := range files {
		raw, err := os.ReadFile(p)
		if err != nil {
			Infra("cannot read case file " + p + ": " + err.Error())
			t.Fatalf("cannot read %s: %v", p, err)
		}
		var fc FileCase
		if err := json.Unmarshal(raw, &fc); err != nil {
			Infra("cannot parse case file " + p + ": " + err.Error())
			t.Fatalf("cannot parse %s: %v", p, err)
		}
		if fc.Property != "" && !strings.EqualFold(fc.Property, k.ID) {
			Infra(fmt.Sprintf("case file %s belongs to property %s, not %s", p, fc.Property, k.ID))
			t.Fatalf("wrong property in %s", p)
		}
		var c C
		if err := json.Unmarshal(fc.Case, &c); err != nil {
			Infra("cannot decode case in " + p + ": " + err.Error())
			t.Fatalf("cannot decode case in %s: %v", p, err)
		}
		Label("regress-file", 1)
		if fc.Procs > 0 { // the case failed under this scheduler width
			replayProcs = fc.Procs
			runtime.GOMAXPROCS(fc.Procs)
		} else if replayProcs > 0 {
			replayProcs = 0
			runtime.GOMAXPROCS(baseProcs)
		}
		// first what the failing process had evaluated before (state left behind by earlier calls)
		for _, h := range fc.History {
			var hc C
			if err := json.Unmarshal(h, &hc); err == nil {
				_ = Try("history case", func() { _ = k.Check(hc) })
			}
		}
		// then the first failing case of the original process, as it was before shrinking (see FileCase.First)
		if len(fc.First) > 0 {
			var c1 C
			if err := json.Unmarshal(fc.First, &c1); err == nil {
				if f := k.Eval(c1); f != nil {
					t.Fatalf("VERIF-FAIL property=%s kind=%s file=%s (first failing case, before shrinking): %s", k.ID, f.Kind, p, f.Msg)
				}
			}
		}
		// twice: checks that alternate between fresh and reused argument buffers (vk.Scratch) then
		// see the case in both modes
		for pass := 0; pass < 2; pass++ {
			if f := k.Eval(c); f != nil {
				t.Fatalf("VERIF-FAIL property=%s kind=%s file=%s: %s", k.ID, f.Kind, p, f.Msg)
			}
		}
	}
}

// Prop runs rapid.Check over gen -> Run, accounted to phase "prop".
func (k *Checker[C]) Prop(t *testing.T, gen func(*rapid.T) C) {
	SetPhase("prop")
	rapid.Check(t, func(rt *rapid.T) { k.Run(rt, gen(rt)) })
}

// Fuzz registers the rapid-driven native fuzz target, accounted to phase "fuzz".
func (k *Checker[C]) Fuzz(f *testing.F, gen func(*rapid.T) C) {
	SetPhase("fuzz")
	f.Fuzz(rapid.MakeFuzz(func(rt *rapid.T) { k.Run(rt, gen(rt)) }))
}

package vk

import (
	"encoding/hex"
	"encoding/json"
	"fmt"
	"strconv"
)

// Words is a bitmap that is written to JSON as hexadecimal words (readable,
// and exact in any JSON reader).
type Words []uint64

func (w Words) MarshalJSON() ([]byte, error) {
	ss := make([]string, len(w))
	for i, x := range w {
		ss[i] = strconv.FormatUint(x, 16)
	}
	return json.Marshal(ss)
}

func (w *Words) UnmarshalJSON(b []byte) error {
	var ss []string
	if err := json.Unmarshal(b, &ss); err != nil {
		return err
	}
	out := make(Words, len(ss))
	for i, s := range ss {
		x, err := strconv.ParseUint(s, 16, 64)
		if err != nil {
			return fmt.Errorf("word %d: %v", i, err)
		}
		out[i] = x
	}
	*w = out
	return nil
}

// Clone returns a private copy (the code under test never gets case-owned memory,
// so a failing case is always saved as it was generated).
func (w Words) Clone() []uint64 { return append(make([]uint64, 0, len(w)), w...) }

// U64 is a uint64 written as a hexadecimal string.
type U64 uint64

func (u U64) MarshalJSON() ([]byte, error) {
	return json.Marshal(strconv.FormatUint(uint64(u), 16))
}

func (u *U64) UnmarshalJSON(b []byte) error {
	var s string
	if err := json.Unmarshal(b, &s); err != nil {
		return err
	}
	x, err := strconv.ParseUint(s, 16, 64)
	if err != nil {
		return err
	}
	*u = U64(x)
	return nil
}

// Hex is a byte string written as hexadecimal text.
type Hex []byte

func (h Hex) MarshalJSON() ([]byte, error) { return json.Marshal(hex.EncodeToString(h)) }

func (h *Hex) UnmarshalJSON(b []byte) error {
	var s string
	if err := json.Unmarshal(b, &s); err != nil {
		return err
	}
	x, err := hex.DecodeString(s)
	if err != nil {
		return err
	}
	*h = x
	return nil
}

// HexStrings converts keys to Hex values.
func HexStrings(keys []string) []Hex {
	out := make([]Hex, len(keys))
	for i, k := range keys {
		out[i] = Hex(k)
	}
	return out
}

// Strings converts Hex values back to strings.
func Strings(hs []Hex) []string {
	out := make([]string, len(hs))
	for i, h := range hs {
		out[i] = string(h)
	}
	return out
}

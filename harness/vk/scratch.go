package vk

import "fmt"

// Scratch hands out argument buffers that are reused from call to call: the same backing
// array (same address) carries new content each time, and the slice has spare capacity that
// holds canaries. Two kinds of defect become visible that fresh exact-size copies hide:
// state keyed by the address of an argument (a memo that survives a change of content), and
// writes into the spare capacity of the caller's slice (append on an argument).
// Every other call should still use a fresh exact-size copy (Toggle), so both situations occur.
type Scratch struct {
	u64  []uint64
	n64  int
	byt  []byte
	nbyt int
	strs []string
	nstr int
	n    int
}

const scratchSpare = 4

// Reuse says whether a call should use the reused buffer. The decision is a function of a
// checksum of the case (not of a call counter), so that a replay - which runs the recorded
// history and then the case - takes the same decisions as the run that failed. About half of
// the calls reuse, so consecutive reused calls (a one-entry memo keyed by address is then hit
// with other content) and fresh exact-size copies both occur.
func (s *Scratch) Reuse(checksum uint64) bool {
	return Mix(checksum)&1 == 0
}

// SumU64 / SumStrings are cheap checksums for Reuse.
func SumU64(w []uint64) uint64 {
	h := uint64(len(w))
	for _, x := range w {
		h = h*1099511628211 ^ x
	}
	return h
}

func SumStrings(ks []string) uint64 {
	h := uint64(len(ks))
	for _, k := range ks {
		h = h*1099511628211 ^ uint64(len(k))
		for i := 0; i < len(k); i++ {
			h = h*31 + uint64(k[i])
		}
	}
	return h
}

// U64 copies src into the reused buffer and returns it with canaries in the spare capacity.
func (s *Scratch) U64(src []uint64) []uint64 {
	need := len(src) + scratchSpare
	if cap(s.u64) < need {
		s.u64 = make([]uint64, max(2*need+8, 1<<13)) // pre-sized: the address stays the same from the first call on
	}
	buf := s.u64[:need]
	copy(buf, src)
	for i := len(src); i < need; i++ {
		buf[i] = 0xCA11AB1E00000000 | uint64(i)
	}
	s.n64 = len(src)
	return buf[:len(src):need]
}

// Bytes is U64 for byte slices.
func (s *Scratch) Bytes(src []byte) []byte {
	need := len(src) + scratchSpare
	if cap(s.byt) < need {
		s.byt = make([]byte, max(2*need+8, 1<<14))
	}
	buf := s.byt[:need]
	copy(buf, src)
	for i := len(src); i < need; i++ {
		buf[i] = byte(0xC3 ^ i)
	}
	s.nbyt = len(src)
	return buf[:len(src):need]
}

// Strings is U64 for string lists (the strings themselves are fresh heap strings).
func (s *Scratch) Strings(src []string) []string {
	need := len(src) + scratchSpare
	if cap(s.strs) < need {
		s.strs = make([]string, max(2*need+8, 1<<12))
	}
	buf := s.strs[:need]
	for i, x := range src {
		buf[i] = string(append([]byte(nil), x...))
	}
	for i := len(src); i < need; i++ {
		buf[i] = fmt.Sprintf("\xffscratch-canary-%d", i)
	}
	s.nstr = len(src)
	return buf[:len(src):need]
}

// Check reports a damaged canary (a write into the spare capacity of an argument).
func (s *Scratch) Check() string {
	for i := s.n64; i < s.n64+scratchSpare && i < len(s.u64); i++ {
		if s.u64[i] != 0xCA11AB1E00000000|uint64(i) {
			return fmt.Sprintf("the spare capacity of a []uint64 argument was written: element %d beyond its length %d is now %#x", i-s.n64, s.n64, s.u64[i])
		}
	}
	for i := s.nbyt; i < s.nbyt+scratchSpare && i < len(s.byt); i++ {
		if s.byt[i] != byte(0xC3^i) {
			return fmt.Sprintf("the spare capacity of a []byte argument was written: byte %d beyond its length %d is now %#x", i-s.nbyt, s.nbyt, s.byt[i])
		}
	}
	for i := s.nstr; i < s.nstr+scratchSpare && i < len(s.strs); i++ {
		if s.strs[i] != fmt.Sprintf("\xffscratch-canary-%d", i) {
			return fmt.Sprintf("the spare capacity of a []string argument was written: element %d beyond its length %d is now %q", i-s.nstr, s.nstr, s.strs[i])
		}
	}
	return ""
}

// ScribbleI32 / ScribbleU64 / ScribbleBytes overwrite the spare capacity of a slice the
// library returned (what a caller's append would do). Results must not overlap: afterwards every
// other result, and later calls, must be unaffected.
func ScribbleI32(s []int32) {
	f := s[:cap(s)]
	for i := len(s); i < len(f); i++ {
		f[i] = int32(-0x5C21BB1E - i)
	}
}

func ScribbleU64(s []uint64) {
	f := s[:cap(s)]
	for i := len(s); i < len(f); i++ {
		f[i] = 0x5C21BB1E5C21BB1E ^ uint64(i)
	}
}

func ScribbleBytes(s []byte) {
	f := s[:cap(s)]
	for i := len(s); i < len(f); i++ {
		f[i] = byte(0x5C ^ i)
	}
}

// ---------------------------------------------------------------- how an argument is handed over
//
// The statements speak of values ("every bitmap", "every string"); the same value can reach the
// library in different shapes, and code may - wrongly - depend on the shape: a nil slice versus an
// empty non-nil one, a string whose bytes start at an odd address because it is a substring of a
// larger string, a byte slice carved out of the middle of a buffer. The helpers below pick a shape
// as a function of a checksum of the case (so a replay picks the same one).

// ShapeU64 returns a private copy of src; an empty src comes back as nil for about half of the
// checksums and as an empty non-nil slice otherwise.
func ShapeU64(src []uint64, checksum uint64) []uint64 {
	if len(src) == 0 {
		if Mix(checksum^0x5e1f)&1 == 0 {
			return nil
		}
		return []uint64{}
	}
	return append(make([]uint64, 0, len(src)), src...)
}

// ShapeI32 is ShapeU64 for position lists.
func ShapeI32(src []int32, checksum uint64) []int32 {
	if len(src) == 0 {
		if Mix(checksum^0x5e1f)&1 == 0 {
			return nil
		}
		return []int32{}
	}
	return append(make([]int32, 0, len(src)), src...)
}

// ShapeStrings: nil / empty as above; the elements are passed through OddString.
func ShapeStrings(src []string, checksum uint64) []string {
	if len(src) == 0 {
		if Mix(checksum^0x5e1f)&1 == 0 {
			return nil
		}
		return []string{}
	}
	out := make([]string, len(src))
	for i, s := range src {
		out[i] = OddString(s, checksum+uint64(i)*0x9e37)
	}
	return out
}

// OddString returns a string equal to s. For about half of the checksums its bytes sit inside a
// larger heap string at an offset of 1..7 bytes from an 8-aligned address, with non-zero bytes
// before and after (a substring, as callers obtain from splitting a buffer); otherwise it is a fresh
// heap string of its own (8-aligned).
func OddString(s string, checksum uint64) string {
	h := Mix(checksum ^ 0x0dd5)
	if h&1 == 0 {
		return string(append([]byte(nil), s...))
	}
	off := int(h>>1)%7 + 1
	buf := make([]byte, off+len(s)+9)
	for i := range buf {
		buf[i] = byte(0xA5 ^ i*7)
	}
	copy(buf[off:], s)
	return string(buf)[off : off+len(s)]
}

// OddBytes is OddString for byte slices: the result has len(src) bytes, starts 1..7 bytes into a larger
// buffer and has spare capacity filled with non-zero bytes (about half of the checksums), or is a
// fresh exact copy. tail receives the bytes of the spare capacity so that the caller can verify that
// they were not written (nil for a fresh copy).
func OddBytes(src []byte, checksum uint64) (b []byte, tail func() bool) {
	h := Mix(checksum ^ 0x0dd5)
	if h&1 == 0 {
		return append(make([]byte, 0, len(src)), src...), func() bool { return true }
	}
	off := int(h>>1)%7 + 1
	buf := make([]byte, off+len(src)+9)
	for i := range buf {
		buf[i] = byte(0xA5 ^ i*7)
	}
	copy(buf[off:], src)
	snap := append([]byte(nil), buf...)
	return buf[off : off+len(src)], func() bool {
		for i := range buf {
			if (i < off || i >= off+len(src)) && buf[i] != snap[i] {
				return false
			}
		}
		return true
	}
}

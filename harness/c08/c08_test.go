// Package c08 decides property C08: bitword n-bit word split/join round-trips
// and indexes consistently.
package c08

import (
	"bytes"
	"fmt"
	"math"
	"math/bits"
	"sort"
	"testing"
	"unsafe"

	"github.com/openacid/low/bitword"
	"pgregory.net/rapid"

	"verif/harness/gen"
	"verif/harness/model"
	"verif/harness/vk"
)

// coldStartResult: the very first bitword calls of the process are Get and FirstDiff (no FromStr
// has run yet), for every width.
var coldStartResult = func() (msg string) {
	vk.ArmProbe("C08", Case{Op: "cold-start", N: 1, Class: "the process died during its first calls of the library"})
	defer vk.DisarmProbe()
	defer func() {
		if r := recover(); r != nil {
			msg = fmt.Sprintf("first use in the process panicked: %v", r)
		}
	}()
	a, b := "\x80\xffa\x01", "\x80\xffb\x01"
	for _, n := range widths {
		bw := bitword.BitWord[n]
		for i := 0; i < nwords(a, n); i++ {
			if g := bw.Get(a, i); g != wordOf(a, n, i) {
				return fmt.Sprintf("first use in the process: BitWord[%d].Get(%x, %d) = %d, want %d", n, a, i, g, wordOf(a, n, i))
			}
		}
		if g, w := bw.FirstDiff(a, b, 0, -1), wantFirstDiff(a, b, n, 0, -1); g != w {
			return fmt.Sprintf("first use in the process: BitWord[%d].FirstDiff(%x, %x, 0, -1) = %d, want %d", n, a, b, g, w)
		}
	}
	return ""
}()

func TestColdStart(t *testing.T) {
	vk.SetPhase("coldstart")
	vk.Label("cold-start-probe", 1)
	if coldStartResult != "" {
		checker.Run(t, Case{Op: "cold-start", N: 1, Class: coldStartResult})
	}
}

var scratch vk.Scratch

func TestMain(m *testing.M) { vk.Main(m, "C08") }

// Spec describes the content of a sized case compactly: the arguments are a pure function of it (expand),
// so that a case of 2^18 words or 10^4 list elements is a few numbers in the case file.
type Spec struct {
	Len   int    `json:"len"`            // str: bytes of s; tostr: words; firstdiff: bytes of a; plural/tostrs: elements of the list
	Seed  vk.U64 `json:"seed"`           // content stream
	Style int    `json:"style"`          // content style (fill)
	LenB  int    `json:"lenb,omitempty"` // firstdiff: bytes of b (b[i] = a[i] below min(len, lenb), own content behind)
	Rel   int    `json:"rel,omitempty"`  // firstdiff: 0 nothing more (equal / one a prefix of the other), 1 bit Pos of b inverted, 3 b unrelated from byte Pos/8 on
	Pos   int    `json:"pos,omitempty"`  // firstdiff: bit position (byte*8 + bit, most significant bit first)
	ELen  int    `json:"elen,omitempty"` // lists: ordinary elements have 0..ELen bytes / words
	Mix   int    `json:"mix,omitempty"`  // lists: which elements are long: 0 none, 1 all, 2 index%4 == 3, 3 about one in eight, 4 the last, 5 the first
	Long  int    `json:"long,omitempty"` // lists: long elements have Long-3..Long bytes / words
}

type Case struct {
	Op    string   `json:"op"` // str | tostr | firstdiff | plural | tostrs | maxstr | maxtwin
	N     int      `json:"n"`  // width 1,2,4,8
	S     vk.Hex   `json:"s,omitempty"`
	Words vk.Hex   `json:"words,omitempty"` // in-range words for ToStr
	A     vk.Hex   `json:"a,omitempty"`
	B     vk.Hex   `json:"b,omitempty"`
	From  int      `json:"from,omitempty"`
	End   int      `json:"end,omitempty"`
	List  []vk.Hex `json:"list,omitempty"`
	Gen   *Spec    `json:"gen,omitempty"`  // sized case: S / Words / A,B / List are expand()ed from it
	Flip  int64    `json:"flip,omitempty"` // maxtwin: the inverted bit, counted from the end of the string (1 = the last bit)
	Class string   `json:"class,omitempty"`
}

var widths = []int{1, 2, 4, 8}

// negEnds: ends below -1. Only -1 stands for the end of a; by the statement's formula lim = min(end, words(a), words(b))
// any other negative end IS the limit, so the window is empty and the result is end itself, whatever from is.
var negEnds = []int{-2, -3, -8, math.MinInt32, math.MinInt}

var checker = &vk.Checker[Case]{
	ID: "C08",
	Rule: "strings over all 256 byte values x width in {1,2,4,8}: FromStr length and every word vs bit-level extraction, Get at every index, ToStr(FromStr(s)) == s; ToStr on in-range word slices of any length (partial last byte) vs MSB-first packing; " +
		"FirstDiff(a,b,from,end) on pairs {equal, common prefix + divergence inside a byte, one a prefix of the other, unrelated} x from in [0,max words+2] x end in {-1} u [0,max words+3] (also the largest ints; one window in 24 and the grids (the exhaustive one: -2 and MinInt) also ends below -1: -2,-3,-8,MinInt32,MinInt - only -1 stands for the end of a, so there lim = end and the result is end) vs the smallest differing index below lim = min(end or words(a), words(a), words(b)); FromStrs/ToStrs element-wise against the caller's (pristine) list, ToStrs also on lists of word slices with incomplete last bytes. " +
		"Sizes: drawn byte by byte up to 40 bytes (one in eight up to 600; thorough 2000), word slices up to 80 (one in four up to 2000), pairs up to 12 bytes (one in four up to 200), lists up to 6 elements (one in four up to 200, elements up to 12 bytes, one in eight up to 300); besides that SIZED cases whose content is a function of (length, seed, style): the number of words / bytes / list elements is log-uniform " +
		"(every octave equally likely, a quarter of them at 2^k-1, 2^k, 2^k+1) up to 2^18 words for FromStr/ToStr (thorough 2^22; the sweep 2^17), 2^15 bytes per FirstDiff argument (thorough 2^19, difference steered to anywhere incl. the last word), 2^14 list elements (thorough 2^17; long elements of 13..1000 bytes for none / all / every 4th / some / the last / the first element). " +
		"Grid: all 1-byte strings x widths x indexes; all pairs of 1-byte strings x widths x all windows; a sweep over sizes 2^k-1, 2^k, 2^k+1 and two more sizes per octave for FromStr/ToStr/FirstDiff (difference in the last word) and for the lists (each list size under every GOMAXPROCS setting in the process that varies it). Last: Get / FirstDiff on a string of 2^28 bytes, also against twins with one inverted bit (every twin is a string of its own whose bytes never change once it exists). " +
		"Results after the call: FromStr / FromStrs are called a second time on the same argument, the caller then writes into every slice of the first result (spare capacity and content, element by element: the elements not yet written must still read right), the second result and the strings ToStr/ToStrs made from the first still read right and a third call is right; ToStr's / ToStrs' word slices are overwritten after the call (ToStr is called again on the other words at the same address) and the returned strings re-read; every returned slice and string (a sample of long lists / long results) stays under watch and is read again after each of the next 8 cases. " +
		"Arguments reach the library as private copies (empty slices as nil half of the time, strings and byte slices at odd addresses inside larger buffers half of the time); oracles read the pristine case. " +
		"Non-trivial: str/tostr with length >= 2 and a byte >= 0x80 (tostr: a partial last byte or width 8); firstdiff with a non-empty common word prefix, a later difference and a window that cuts or contains it; lists of >= 2 elements (tostrs: with an incomplete element). Distinct by hash of the case.",
	Check:    func(c Case) *vk.Failure { return check(c.expand()) },
	Classify: func(c Case) (bool, []string) { return classify(c.expand()) },
	Hashed:   func(c Case) bool { return !(c.Op == "firstdiff" && len(c.A) == 1 && len(c.B) == 1 && c.Gen == nil) },
}

// ---------------------------------------------------------------- sized content

const maxSpecLen = 1 << 24

// fill returns n bytes that are a pure function of (n, seed, style).
//
//	0 random bytes   1 alphabet {00,ff,a,b,80,01}   2 one byte value   3 all ff, the last byte different
//	4 all 00, the last byte non-zero   5 a period of 1..17 random bytes   6 random bytes with the high bit set
func fill(n int, seed uint64, style int) []byte {
	if n <= 0 {
		return []byte{}
	}
	b := make([]byte, n)
	x := seed
	next := func() uint64 { x += 0x632be59bd9b4e019; return vk.Mix(x) }
	switch style {
	case 1:
		alpha := [8]byte{0x00, 0xff, 'a', 'b', 0x80, 0x01, 0xff, 0x00}
		for i := 0; i < n; i += 16 {
			r := next()
			for j := i; j < i+16 && j < n; j++ {
				b[j] = alpha[r&7]
				r >>= 4
			}
		}
	case 2:
		c := byte(next() >> 13)
		for i := range b {
			b[i] = c
		}
	case 3:
		for i := range b {
			b[i] = 0xff
		}
		b[n-1] = byte(next()>>9) &^ 0x10
	case 4:
		b[n-1] = byte(next()>>9) | 1
	case 5:
		p := int(next()%17) + 1
		for i := 0; i < p && i < n; i++ {
			b[i] = byte(next() >> 20)
		}
		for i := p; i < n; i++ {
			b[i] = b[i-p]
		}
	default:
		for i := 0; i < n; i += 8 {
			r := next()
			for j := i; j < i+8 && j < n; j++ {
				b[j] = byte(r)
				r >>= 8
			}
		}
		if style == 6 {
			for i := range b {
				b[i] |= 0x80
			}
		}
	}
	return b
}

const nStyles = 7

func maskWords(b []byte, n int) []byte {
	m := byte(1<<uint(n) - 1)
	for i := range b {
		b[i] &= m
	}
	return b
}

func expandList(g *Spec, n int, words bool) []vk.Hex {
	out := make([]vk.Hex, g.Len)
	for i := range out {
		h := vk.Mix(uint64(g.Seed) + uint64(i)*0x9e3779b97f4a7c15)
		l := 0
		if g.ELen > 0 {
			l = int(h % uint64(g.ELen+1))
		}
		if h>>40&7 == 0 {
			l = 0
		}
		long := false
		switch g.Mix {
		case 1:
			long = true
		case 2:
			long = i%4 == 3
		case 3:
			long = h>>44&7 == 0
		case 4:
			long = i == g.Len-1
		case 5:
			long = i == 0
		}
		if long {
			l = max(g.Long-int(h>>48&3), 0)
		}
		e := fill(l, h, g.Style)
		if words {
			maskWords(e, n)
		}
		out[i] = e
	}
	return out
}

// expand materialises the arguments of a sized case (a pure function of the case).
func (c Case) expand() Case {
	g := c.Gen
	if g == nil {
		return c
	}
	if g.Len < 0 || g.Len > maxSpecLen || g.LenB < 0 || g.LenB > maxSpecLen || g.Long < 0 || g.Long > 1<<16 || g.ELen < 0 || g.ELen > 1<<12 || c.N < 1 || c.N > 8 {
		c.Gen = nil
		return c
	}
	seed := uint64(g.Seed)
	switch c.Op {
	case "str":
		c.S = fill(g.Len, seed, g.Style)
	case "tostr":
		c.Words = maskWords(fill(g.Len, seed, g.Style), c.N)
	case "firstdiff":
		a := fill(g.Len, seed, g.Style)
		b := make([]byte, g.LenB)
		copy(b, a)
		if g.LenB > g.Len {
			copy(b[g.Len:], fill(g.LenB-g.Len, seed^0xb0b, 0))
		}
		switch g.Rel {
		case 1:
			if g.Pos >= 0 && g.Pos/8 < min(len(a), len(b)) {
				b[g.Pos/8] ^= 0x80 >> uint(g.Pos%8)
			}
		case 3:
			if k := g.Pos / 8; g.Pos >= 0 && k < len(b) {
				copy(b[k:], fill(len(b)-k, seed^0xdeadbeef, g.Style))
			}
		}
		c.A, c.B = a, b
	case "plural":
		c.List = expandList(g, c.N, false)
	case "tostrs":
		c.List = expandList(g, c.N, true)
	}
	return c
}

// sum is a cheap checksum of the case; it picks the shape in which the arguments are handed over.
func (c Case) sum() uint64 {
	h := uint64(c.N)*0x9e37 + uint64(len(c.S)) + uint64(len(c.Words))<<8 + uint64(len(c.A))<<16 + uint64(len(c.B))<<24 + uint64(len(c.List))<<32 + uint64(c.From)*31 + uint64(c.End)*131
	if c.Gen != nil {
		return vk.Mix(h + uint64(c.Gen.Seed))
	}
	for _, p := range [][]byte{c.S, c.Words, c.A, c.B} {
		h = h*1099511628211 ^ vk.Hash64(p)
	}
	for _, e := range c.List {
		h = h*1099511628211 ^ vk.Hash64(e)
	}
	return vk.Mix(h)
}

// hx prints a byte string, shortened in the middle when it is long.
func hx[T ~string | ~[]byte](s T) string {
	if len(s) <= 40 {
		return fmt.Sprintf("%x", string(s))
	}
	return fmt.Sprintf("%x..(%d bytes)..%x", string(s[:16]), len(s), string(s[len(s)-12:]))
}

func hxs(l []vk.Hex) string {
	if len(l) <= 8 {
		out := "["
		for i, e := range l {
			if i > 0 {
				out += " "
			}
			out += hx(e)
		}
		return out + "]"
	}
	return fmt.Sprintf("[%s %s ..(%d elements).. %s]", hx(l[0]), hx(l[1]), len(l), hx(l[len(l)-1]))
}

// ---------------------------------------------------------------- oracles

// word i of s for width n: its n bits, most significant first.
func wordOf(s string, n, i int) byte {
	var v byte
	for k := 0; k < n; k++ {
		v = v<<1 | byte(model.StrBit(s, i*n+k))
	}
	return v
}

func nwords(s string, n int) int { return 8 * len(s) / n }

func wantFirstDiff(a, b string, n, from, end int) int {
	lim := end
	if end == -1 {
		lim = nwords(a, n)
	}
	lim = min(lim, nwords(a, n), nwords(b, n))
	for i := from; i < lim; i++ {
		if wordOf(a, n, i) != wordOf(b, n, i) {
			return i
		}
	}
	return lim
}

// diffWord = wantFirstDiff(a, b, n, 0, -1), found byte-wise. Only generators, the classifier and the sweep use
// it (to place windows, never to judge the library); TestGrid cross-checks it against wantFirstDiff.
func diffWord[T ~string | ~[]byte](a, b T, n int) int {
	m := min(len(a), len(b))
	for i := 0; i < m; i++ {
		if x := a[i] ^ b[i]; x != 0 {
			return (8*i + bits.LeadingZeros8(x)) / n
		}
	}
	return 8 * m / n
}

func packWords(ws []byte, n int) string {
	per := 8 / n
	out := make([]byte, (len(ws)+per-1)/per)
	for i, w := range ws {
		out[i/per] |= w << uint(8-n-n*(i%per))
	}
	return string(out)
}

// ---------------------------------------------------------------- results after the call
//
// What the library returns belongs to the caller: a returned word slice may be written to (content and spare
// capacity) without any effect on other results or on later calls, and a returned string keeps reading the same
// whatever happens to the []byte it was made from. The checks below write into returned slices, call again, and
// put results under watch (checker.Keep) so that they are read again after the next cases.

// keep is checker.Keep (set in init: the checker's Check refers to the functions that use it).
var keep func(func() string)

func init() { keep = checker.Keep }

// trash overwrites a slice the library returned, as the caller that owns it may: every byte of the content
// changes, the spare capacity gets a pattern.
func trash(b []byte) {
	for i := range b {
		b[i] ^= 0xff
	}
	vk.ScribbleBytes(b)
}

// same compares fully up to 8 KiB; beyond that the first and the last 2 KiB and 64 places in between (the
// watch closures run after every later case, so they have to be cheap).
func same[T, U ~string | ~[]byte](a T, b U) bool {
	if len(a) != len(b) {
		return false
	}
	if len(a) <= 8192 {
		return string(a) == string(b)
	}
	l := len(a)
	if string(a[:2048]) != string(b[:2048]) || string(a[l-2048:]) != string(b[l-2048:]) {
		return false
	}
	for k := 1; k < 64; k++ {
		if i := 2048 + (l-4096)/64*k; a[i] != b[i] {
			return false
		}
	}
	return true
}

// sampleIdx: the indexes of a list that a watch closure looks at (all of them up to 48; the first and last 16
// and 16 in between otherwise).
func sampleIdx(k int) []int {
	out := make([]int, 0, 48)
	if k <= 48 {
		for i := 0; i < k; i++ {
			out = append(out, i)
		}
		return out
	}
	for i := 0; i < 16; i++ {
		out = append(out, i)
	}
	for j := 1; j <= 16; j++ {
		out = append(out, 16+(k-32)/17*j)
	}
	for i := k - 16; i < k; i++ {
		out = append(out, i)
	}
	return out
}

// keepBytes puts a returned slice (with its spare capacity) under watch: it must keep reading as it does now.
func keepBytes(what string, b []byte) {
	full := b[:cap(b)]
	snap := append([]byte(nil), full...)
	keep(func() string {
		if !same(full, snap) {
			return what + " has changed"
		}
		return ""
	})
}

// keepString puts a returned string under watch.
func keepString(what string, got, want string) {
	keep(func() string {
		if !same(got, want) {
			return what + " has changed"
		}
		return ""
	})
}

func checkStr(bw bitword.Interface, n int, s string, sum uint64) *vk.Failure {
	arg := vk.OddString(s, sum) // the library's copy (at an odd address half of the time); the oracle reads s
	var ws []byte
	if f := vk.TryF(func() string { return fmt.Sprintf("BitWord[%d].FromStr(%s)", n, hx(s)) }, func() { ws = bw.FromStr(arg) }); f != nil {
		return f
	}
	if len(ws) != nwords(s, n) {
		return vk.Failf("fromstr-len", "BitWord[%d].FromStr(%s) has %d words, want %d", n, hx(s), len(ws), nwords(s, n))
	}
	want := make([]byte, len(ws))
	for i := range ws {
		want[i] = wordOf(s, n, i)
		if ws[i] != want[i] {
			return vk.Failf("fromstr-word", "BitWord[%d].FromStr(%s)[%d] = %d, want %d", n, hx(s), i, ws[i], want[i])
		}
	}
	cur, bad := 0, -1
	var g byte
	if f := vk.TryF(func() string { return fmt.Sprintf("BitWord[%d].Get(%s,%d)", n, hx(s), cur) }, func() {
		for i := range want {
			cur = i
			if g = bw.Get(arg, i); g != want[i] {
				bad = i
				return
			}
		}
	}); f != nil {
		return f
	}
	if bad >= 0 {
		return vk.Failf("get", "BitWord[%d].Get(%s, %d) = %d, want %d", n, hx(s), bad, g, want[bad])
	}
	var back string
	if f := vk.Try("ToStr(FromStr(s))", func() { back = bw.ToStr(ws) }); f != nil {
		return f
	}
	if back != s {
		return vk.Failf("roundtrip", "BitWord[%d].ToStr(FromStr(%s)) = %s", n, hx(s), hx(back))
	}
	if arg != s {
		return vk.Failf("str-mutates", "BitWord[%d]: the string argument %s reads %s after FromStr/Get", n, hx(s), hx(arg))
	}
	// a second call with the same string; then the caller writes into the first result (content and spare
	// capacity): the second result, the string made from the first, and a third call are unaffected
	var ws2, ws3 []byte
	if f := vk.TryF(func() string { return fmt.Sprintf("BitWord[%d].FromStr(%s) (second call)", n, hx(s)) }, func() { ws2 = bw.FromStr(arg) }); f != nil {
		return f
	}
	if !bytes.Equal(ws2, want) {
		return vk.Failf("fromstr-again", "BitWord[%d].FromStr(%s), called a second time, = %s, want %s", n, hx(s), hx(ws2), hx(want))
	}
	if overlapBytes(ws, ws2) {
		// two equal calls handed out the same memory (a memo, an interned result): the statement does not exclude
		// that, so the caller's write below - which would show in both - is left out for this case
		vk.Label("fromstr:results-of-equal-calls-share-memory(accepted)", 1)
	} else {
		trash(ws)
		if !bytes.Equal(ws2, want) {
			return vk.Failf("results-share-memory", "BitWord[%d].FromStr(%s) twice: writing into the first result changed the second although the two do not overlap (it now reads %s, want %s)", n, hx(s), hx(ws2), hx(want))
		}
		if back != s {
			return vk.Failf("result-aliases-argument", "BitWord[%d].ToStr(ws) with ws = FromStr(%s): the returned string changed when ws was overwritten afterwards (it now reads %s)", n, hx(s), hx(back))
		}
	}
	arg3 := arg
	if arg3 != s { // the first result may share memory with the argument: a pristine string then
		arg3 = string(append([]byte(nil), s...))
	}
	if f := vk.TryF(func() string { return fmt.Sprintf("BitWord[%d].FromStr(%s) (third call)", n, hx(s)) }, func() { ws3 = bw.FromStr(arg3) }); f != nil {
		return f
	}
	if !bytes.Equal(ws3, want) {
		return vk.Failf("fromstr-after-write", "BitWord[%d].FromStr(%s), called again after the caller wrote into the slice an earlier call had returned, = %s, want %s", n, hx(s), hx(ws3), hx(want))
	}
	keepBytes(fmt.Sprintf("the slice BitWord[%d].FromStr(%s) returned (and the caller then overwrote)", n, hx(s)), ws)
	keepBytes(fmt.Sprintf("the result of BitWord[%d].FromStr(%s)", n, hx(s)), ws3)
	keepString(fmt.Sprintf("the string BitWord[%d].ToStr(FromStr(%s)) returned", n, hx(s)), back, s)
	return nil
}

// checkMaxStr: Get and FirstDiff at the top of a string of 2^28 bytes (2^31 bits: word indexes of width 1 leave int32).
// a is the whole string, b the same memory without its last `cut` bytes, so they never differ below lim
// (checkMaxTwin provides a difference).
func checkMaxStr(bw bitword.Interface, n, back, cut int) *vk.Failure {
	if back < 0 || back > 4096 || cut < 0 || cut > 64 {
		return nil
	}
	a, b := gen.MaxString(0), gen.MaxString(cut)
	per := 8 / n
	nwa, nwb := per*len(a), per*len(b)
	for _, i := range []int{0, 1, per*8 + 1, nwa/2 + 3, nwa - 1, nwa - 2, nwa - per, nwa - per - 1, nwa - back - 1} {
		if i < 0 || i >= nwa {
			continue
		}
		want := byte(0)
		for k := 0; k < n; k++ {
			want = want<<1 | byte(gen.MaxStrBit(int64(i)*int64(n)+int64(k)))
		}
		var g byte
		if f := vk.Try(fmt.Sprintf("BitWord[%d].Get(string of 2^28 bytes, %d)", n, i), func() { g = bw.Get(a, i) }); f != nil {
			return f
		}
		if g != want {
			return vk.Failf("get", "BitWord[%d].Get(string of 2^28 bytes, %d) = %d, want %d", n, i, g, want)
		}
	}
	from := nwb - back
	if from < 0 {
		return nil
	}
	for _, end := range []int{-1, nwb, nwb - 1, nwa, nwa + 5, math.MaxInt, -2, math.MinInt} {
		lim := end
		if end == -1 {
			lim = nwa
		}
		lim = min(lim, nwa, nwb)
		var g int
		if f := vk.Try(fmt.Sprintf("BitWord[%d].FirstDiff(2^28 bytes, the same less %d bytes, %d, %d)", n, cut, from, end), func() { g = bw.FirstDiff(a, b, from, end) }); f != nil {
			return f
		}
		if g != lim {
			return vk.Failf("firstdiff", "BitWord[%d].FirstDiff(2^28 bytes, the same less %d bytes, from=%d, end=%d) = %d, want %d (no difference below the limit)", n, cut, from, end, g, lim)
		}
	}
	if j, bad := gen.MaxStringDamage(); bad {
		return vk.Failf("mutates", "byte %d of the 2^28-byte string argument was modified", j)
	}
	return nil
}

// checkMaxTwin: FirstDiff of the 2^28-byte string against a twin (a string of its own per flip, never modified: strings are
// immutable, a library may remember them by address) whose bit `flip` (counted from the end, 1 = the
// last bit) is inverted: the only difference sits at word (8*2^28 - flip)/n, beyond int32 for width 1. from starts
// `back` words before it; both argument orders.
func checkMaxTwin(bw bitword.Interface, n, back int, flip int64) *vk.Failure {
	total := int64(8 * gen.MaxStrLen)
	if back < 0 || back > 1<<16 || flip < 1 || flip > 1<<16 {
		return nil
	}
	a, b := gen.MaxString(0), gen.MaxStringTwin(total-flip)
	d := int((total - flip) / int64(n)) // the only differing word
	nw := int(total / int64(n))
	for _, from := range []int{d - back, d, d + 1} {
		if from < 0 {
			continue
		}
		for _, end := range []int{-1, d, d + 1, nw, nw + 3, math.MaxInt, -2} {
			lim := end
			if end == -1 {
				lim = nw
			}
			lim = min(lim, nw)
			want := lim
			if from <= d && d < lim {
				want = d
			}
			for swap := 0; swap < 2; swap++ {
				x, y := a, b
				if swap == 1 {
					x, y = b, a
				}
				var g int
				if f := vk.Try(fmt.Sprintf("BitWord[%d].FirstDiff(2^28 bytes, twin with bit %d from the end inverted (swapped=%d), %d, %d)", n, flip, swap, from, end), func() { g = bw.FirstDiff(x, y, from, end) }); f != nil {
					return f
				}
				if g != want {
					return vk.Failf("firstdiff", "BitWord[%d].FirstDiff(2^28 bytes, its twin with bit %d from the end inverted (swapped=%d), from=%d, end=%d) = %d, want %d (the only differing word is %d)", n, flip, swap, from, end, g, want, d)
				}
			}
		}
	}
	if j, bad := gen.MaxStringDamage(); bad {
		return vk.Failf("mutates", "byte %d of the 2^28-byte string argument was modified", j)
	}
	if j, bad := gen.MaxTwinDamage(); bad {
		return vk.Failf("mutates", "byte %d of the 2^28-byte twin argument was modified", j)
	}
	return nil
}

func emptyAsNil(sum uint64, i int) bool { return vk.Mix(sum^0x5e1f+uint64(i)*0x9e37)&1 == 0 }

// check judges an expanded case.
func check(c Case) *vk.Failure {
	bw, ok := bitword.BitWord[c.N]
	if !ok || bw == nil {
		return vk.Failf("missing-width", "bitword.BitWord[%d] is missing", c.N)
	}
	sum := c.sum()
	switch c.Op {
	case "maxstr":
		return checkMaxStr(bw, c.N, c.From, c.End)
	case "maxtwin":
		return checkMaxTwin(bw, c.N, c.From, c.Flip)
	case "cold-start":
		if coldStartResult != "" {
			return vk.Failf("cold-start", "%s", coldStartResult)
		}
		return nil
	case "str":
		return checkStr(bw, c.N, string(c.S), sum)
	case "tostr":
		var ws []byte
		tail := func() bool { return true }
		reused := scratch.Reuse(vk.Hash64(c.Words[:min(len(c.Words), 512)]) + uint64(c.N) + uint64(len(c.Words)))
		switch {
		case reused:
			ws = scratch.Bytes(c.Words) // a reused buffer with guarded spare capacity (e.g. a prefix of a longer word slice)
		case len(c.Words) == 0 && emptyAsNil(sum, 0):
			ws = nil
		default:
			ws, tail = vk.OddBytes(c.Words, sum) // carved out of a larger buffer at an odd address, or a fresh exact copy
		}
		var got string
		if f := vk.TryF(func() string { return fmt.Sprintf("BitWord[%d].ToStr(%s)", c.N, hx(c.Words)) }, func() { got = bw.ToStr(ws) }); f != nil {
			return f
		}
		if want := packWords(c.Words, c.N); got != want {
			return vk.Failf("tostr", "BitWord[%d].ToStr(%s) (%d words) = %s, want %s", c.N, hx(c.Words), len(c.Words), hx(got), hx(want))
		}
		if string(ws) != string(c.Words) {
			return vk.Failf("tostr-mutates", "ToStr modified its argument")
		}
		if reused {
			if msg := scratch.Check(); msg != "" {
				return vk.Failf("argument-spare-capacity-written", "BitWord[%d].ToStr(%d words): %s", c.N, len(c.Words), msg)
			}
		} else if !tail() {
			return vk.Failf("argument-spare-capacity-written", "BitWord[%d].ToStr(%d words): bytes around the argument (inside the buffer it was carved from) were written", c.N, len(c.Words))
		}
		// the caller goes on using its slice: other (in-range) words at the same address. The string returned
		// before keeps its value; a second call packs the new words.
		mask := byte(1<<uint(c.N) - 1)
		for i := range ws {
			ws[i] = (ws[i] + 1 + byte(i)) & mask
		}
		words2 := append([]byte(nil), ws...)
		if want := packWords(c.Words, c.N); got != want {
			return vk.Failf("result-aliases-argument", "BitWord[%d].ToStr(%s) (%d words): the returned string changed when the caller overwrote the word slice after the call: it now reads %s, want %s", c.N, hx(c.Words), len(c.Words), hx(got), hx(want))
		}
		var got2 string
		if f := vk.TryF(func() string {
			return fmt.Sprintf("BitWord[%d].ToStr(%s) (the same slice with other words)", c.N, hx(words2))
		}, func() { got2 = bw.ToStr(ws) }); f != nil {
			return f
		}
		want2 := packWords(words2, c.N)
		if got2 != want2 {
			return vk.Failf("tostr-again", "BitWord[%d].ToStr(%s) (%d words, in the slice that held %s for the call before) = %s, want %s", c.N, hx(words2), len(words2), hx(c.Words), hx(got2), hx(want2))
		}
		if want := packWords(c.Words, c.N); got != want {
			return vk.Failf("result-changed-by-next-call", "BitWord[%d].ToStr(%s) (%d words): the returned string changed when ToStr was called again: it now reads %s, want %s", c.N, hx(c.Words), len(c.Words), hx(got), hx(want))
		}
		keepString(fmt.Sprintf("the string BitWord[%d].ToStr(%s) returned", c.N, hx(c.Words)), got, packWords(c.Words, c.N))
		keepString(fmt.Sprintf("the string BitWord[%d].ToStr(%s) returned", c.N, hx(words2)), got2, want2)
		return nil
	case "firstdiff":
		a, b := string(c.A), string(c.B) // pristine; the library gets its own copies
		xa, xb := vk.OddString(a, sum), vk.OddString(b, sum*31+7)
		want := wantFirstDiff(a, b, c.N, c.From, c.End)
		var got int
		if f := vk.TryF(func() string {
			return fmt.Sprintf("BitWord[%d].FirstDiff(%s,%s,%d,%d)", c.N, hx(a), hx(b), c.From, c.End)
		}, func() { got = bw.FirstDiff(xa, xb, c.From, c.End) }); f != nil {
			return f
		}
		if got != want {
			return vk.Failf("firstdiff", "BitWord[%d].FirstDiff(%s, %s, from=%d, end=%d) = %d, want %d", c.N, hx(a), hx(b), c.From, c.End, got, want)
		}
		if xa != a || xb != b {
			return vk.Failf("firstdiff-mutates", "FirstDiff modified a string argument")
		}
		return nil
	}
	if c.Op == "tostrs" {
		// ToStrs on arbitrary in-range word slices (also incomplete last bytes) == ToStr element-wise
		in := make([][]byte, len(c.List))
		tails := make([]func() bool, len(c.List))
		for i, l := range c.List {
			if len(l) == 0 && emptyAsNil(sum, i+1) {
				continue // a nil element
			}
			in[i], tails[i] = vk.OddBytes(l, sum+uint64(i)*0x9e37)
		}
		if len(in) == 0 && emptyAsNil(sum, 0) {
			in = nil
		}
		var got []string
		if f := vk.TryF(func() string { return fmt.Sprintf("BitWord[%d].ToStrs(%s)", c.N, hxs(c.List)) }, func() { got = bw.ToStrs(in) }); f != nil {
			return f
		}
		if len(got) != len(c.List) {
			return vk.Failf("tostrs-len", "ToStrs of %d word slices returned %d strings", len(c.List), len(got))
		}
		wants := make([]string, len(c.List))
		for i := range c.List {
			want := packWords(c.List[i], c.N)
			wants[i] = want
			if got[i] != want {
				return vk.Failf("tostrs-element", "BitWord[%d].ToStrs(%s)[%d] = %s, want %s (element-wise ToStr of %s)", c.N, hxs(c.List), i, hx(got[i]), hx(want), hx(c.List[i]))
			}
			if string(in[i]) != string(c.List[i]) {
				return vk.Failf("tostrs-mutates", "ToStrs modified word slice %d", i)
			}
			if tails[i] != nil && !tails[i]() {
				return vk.Failf("argument-spare-capacity-written", "BitWord[%d].ToStrs: bytes around word slice %d (inside the buffer it was carved from) were written", c.N, i)
			}
		}
		// the caller overwrites its word slices: the strings returned before keep their values
		for i := range in {
			for k := range in[i] {
				in[i][k] ^= 0xff
			}
		}
		for i := range wants {
			if got[i] != wants[i] {
				return vk.Failf("result-aliases-argument", "BitWord[%d].ToStrs(%s)[%d]: the returned string changed when the caller overwrote word slice %d after the call: it now reads %s, want %s", c.N, hxs(c.List), i, i, hx(got[i]), hx(wants[i]))
			}
		}
		idx := sampleIdx(len(got))
		what := fmt.Sprintf("BitWord[%d].ToStrs(%s)", c.N, hxs(c.List))
		keep(func() string {
			if len(got) != len(wants) {
				return "the length of the list returned by " + what + " has changed"
			}
			for _, i := range idx {
				if !same(got[i], wants[i]) {
					return fmt.Sprintf("string %d returned by %s has changed", i, what)
				}
			}
			return ""
		})
		return nil
	}
	// plural forms are element-wise. The reference is the pristine list of the case, not the slice the library was given.
	pristine := vk.Strings(c.List)
	strs := vk.ShapeStrings(pristine, sum)
	var wss [][]byte
	if f := vk.TryF(func() string { return fmt.Sprintf("BitWord[%d].FromStrs(%s)", c.N, hxs(c.List)) }, func() { wss = bw.FromStrs(strs) }); f != nil {
		return f
	}
	if len(wss) != len(pristine) {
		return vk.Failf("plural-len", "FromStrs of %d strings returned %d elements", len(pristine), len(wss))
	}
	want := make([][]byte, len(pristine)) // the words of every element, from the oracle
	for i, s := range pristine {
		if len(wss[i]) != nwords(s, c.N) {
			return vk.Failf("fromstrs", "BitWord[%d].FromStrs(%s)[%d] has %d words, want %d (element-wise FromStr of %s)", c.N, hxs(c.List), i, len(wss[i]), nwords(s, c.N), hx(s))
		}
		want[i] = make([]byte, len(wss[i]))
		for k := range wss[i] {
			w := wordOf(s, c.N, k)
			want[i][k] = w
			if wss[i][k] != w {
				return vk.Failf("fromstrs", "BitWord[%d].FromStrs(%s)[%d][%d] = %d, want %d (element-wise FromStr of %s)", c.N, hxs(c.List), i, k, wss[i][k], w, hx(s))
			}
		}
	}
	if len(strs) != len(pristine) {
		return vk.Failf("fromstrs-mutates", "FromStrs changed its argument list")
	}
	for i, s := range pristine {
		if strs[i] != s {
			return vk.Failf("fromstrs-mutates", "FromStrs changed element %d of its argument list: %s, was %s", i, hx(strs[i]), hx(s))
		}
	}
	// FromStrs(list)[i] == FromStr(list[i]), the library against itself (a few elements of a long list)
	step := max(len(pristine)/16, 1)
	for i := 0; i < len(pristine); i += step {
		var one []byte
		if f := vk.Try("FromStr", func() { one = bw.FromStr(pristine[i]) }); f != nil {
			return f
		}
		if string(one) != string(wss[i]) {
			return vk.Failf("fromstrs", "FromStrs(...)[%d] = %s, FromStr gives %s", i, hx(wss[i]), hx(one))
		}
	}
	// wss is now known to be right: ToStrs of it gives the strings back
	var back []string
	if f := vk.TryF(func() string { return fmt.Sprintf("BitWord[%d].ToStrs(FromStrs(%s))", c.N, hxs(c.List)) }, func() { back = bw.ToStrs(wss) }); f != nil {
		return f
	}
	if len(back) != len(pristine) {
		return vk.Failf("plural-len", "ToStrs of %d word slices returned %d elements", len(pristine), len(back))
	}
	for i, s := range pristine {
		if back[i] != s {
			return vk.Failf("tostrs", "BitWord[%d].ToStrs(FromStrs(%s))[%d] = %s, want %s", c.N, hxs(c.List), i, hx(back[i]), hx(s))
		}
	}
	// The results belong to the caller. A second call on the same list; then the caller writes into every element of
	// the first result, one after the other (first the spare capacities, then the contents): the elements not yet
	// written still read right (no two of them share memory, equal strings included), and so do the second result,
	// the strings ToStrs made from the first, and a third call.
	same2 := func(call string, r [][]byte) *vk.Failure {
		if len(r) != len(want) {
			return vk.Failf("plural-len", "FromStrs of %d strings (%s) returned %d elements", len(want), call, len(r))
		}
		for i := range want {
			if !bytes.Equal(r[i], want[i]) {
				return vk.Failf("fromstrs-again", "BitWord[%d].FromStrs(%s)[%d] (%s) reads %s, want %s (element-wise FromStr of %s)", c.N, hxs(c.List), i, call, hx(r[i]), hx(want[i]), hx(pristine[i]))
			}
		}
		return nil
	}
	var wss2, wss3 [][]byte
	if f := vk.TryF(func() string { return fmt.Sprintf("BitWord[%d].FromStrs(%s) (second call)", c.N, hxs(c.List)) }, func() { wss2 = bw.FromStrs(strs) }); f != nil {
		return f
	}
	if f := same2("second call", wss2); f != nil {
		return f
	}
	if anyOverlap(wss, wss2) {
		// elements of the result(s) share memory (equal elements interned, a memo of the last call): not excluded by
		// the statement, so the caller's writes below are left out for this case
		vk.Label("fromstrs:result-elements-share-memory(accepted)", 1)
	} else {
		for i := range wss {
			vk.ScribbleBytes(wss[i])
		}
		for i := range wss {
			if !bytes.Equal(wss[i], want[i]) {
				return vk.Failf("results-share-memory", "BitWord[%d].FromStrs(%s): element %d changed (it now reads %s, want %s) when the caller wrote into the spare capacity of the elements or into the elements before it, although no two elements overlap", c.N, hxs(c.List), i, hx(wss[i]), hx(want[i]))
			}
			for k := range wss[i] {
				wss[i][k] ^= 0xff
			}
		}
		if f := same2("second call, after the caller wrote into the result of the first call", wss2); f != nil {
			f.Kind = "results-share-memory"
			return f
		}
		for i, s := range pristine {
			if back[i] != s {
				return vk.Failf("result-aliases-argument", "BitWord[%d].ToStrs(FromStrs(%s))[%d]: the returned string changed when the word slices were overwritten after the call: it now reads %s, want %s", c.N, hxs(c.List), i, hx(back[i]), hx(s))
			}
		}
	}
	strs3 := strs
	for i, s := range pristine {
		if strs3[i] != s { // a result may share memory with the argument: a pristine list then
			strs3 = vk.ShapeStrings(pristine, sum+1)
			break
		}
	}
	if f := vk.TryF(func() string { return fmt.Sprintf("BitWord[%d].FromStrs(%s) (third call)", c.N, hxs(c.List)) }, func() { wss3 = bw.FromStrs(strs3) }); f != nil {
		return f
	}
	if f := same2("called again after the caller wrote into the result of an earlier call", wss3); f != nil {
		return f
	}
	// under watch: a sample of the elements of the first (overwritten) and the third result, and of the strings
	idx := sampleIdx(len(pristine))
	what := fmt.Sprintf("BitWord[%d].FromStrs(%s)", c.N, hxs(c.List))
	type kept struct {
		i          int
		full, snap []byte // an element of the first result, as the caller left it
		third      []byte
		str        string
	}
	ks := make([]kept, 0, len(idx))
	for _, i := range idx {
		full := wss[i][:cap(wss[i])]
		ks = append(ks, kept{i: i, full: full, snap: append([]byte(nil), full...), third: wss3[i], str: back[i]})
	}
	n1, n3, nb := len(wss), len(wss3), len(back)
	keep(func() string {
		if len(wss) != n1 || len(wss3) != n3 || len(back) != nb {
			return "the length of a list returned by " + what + " / ToStrs has changed"
		}
		for _, k := range ks {
			if !same(k.full, k.snap) {
				return fmt.Sprintf("element %d returned by %s (and then overwritten by the caller) has changed", k.i, what)
			}
			if !same(k.third, want[k.i]) {
				return fmt.Sprintf("element %d returned by %s has changed", k.i, what)
			}
			if !same(k.str, pristine[k.i]) {
				return fmt.Sprintf("string %d returned by ToStrs(FromStrs(%s)) has changed", k.i, hxs(c.List))
			}
		}
		return ""
	})
	return nil
}

func octave(op string, size int) string {
	return fmt.Sprintf("%s-size:2^%d", op, bits.Len(uint(size))-1)
}

// classify works on an expanded case.
func classify(c Case) (bool, []string) {
	if c.Op == "cold-start" {
		return false, []string{"cold-start-failure"}
	}
	if c.Op == "maxstr" || c.Op == "maxtwin" {
		return true, []string{"op:" + c.Op, "maximum-string(2^28 bytes)"}
	}
	labels := []string{"op:" + c.Op, fmt.Sprintf("n:%d", c.N)}
	if c.Class != "" {
		labels = append(labels, "class:"+c.Class)
	}
	if c.Gen != nil {
		labels = append(labels, "sized", fmt.Sprintf("style:%d", c.Gen.Style))
	}
	high := func(b []byte) bool {
		for _, x := range b {
			if x >= 0x80 {
				return true
			}
		}
		return false
	}
	switch c.Op {
	case "str":
		if nw := nwords(string(c.S), c.N); nw >= 64 {
			labels = append(labels, octave("str-words", nw))
		}
		return len(c.S) >= 2 && high(c.S), labels
	case "tostr":
		per := 8 / c.N
		if len(c.Words)%per != 0 {
			labels = append(labels, "partial-last-byte")
		}
		if len(c.Words) >= 64 {
			labels = append(labels, octave("tostr-words", len(c.Words)))
		}
		return len(c.Words) >= 2 && (len(c.Words)%per != 0 || c.N == 8), labels
	case "tostrs":
		per := 8 / c.N
		incomplete, long := 0, 0
		for _, l := range c.List {
			if len(l)%per != 0 {
				incomplete++
			}
			if len(l) > 14 {
				long++
			}
		}
		if incomplete > 0 {
			labels = append(labels, "has-incomplete-element")
		}
		labels = append(labels, listLabels("tostrs", len(c.List), long)...)
		return len(c.List) >= 2 && incomplete > 0, labels
	case "firstdiff":
		full := diffWord(c.A, c.B, c.N)
		minw := 8 * min(len(c.A), len(c.B)) / c.N
		differs := full < minw
		switch {
		case c.End < -1:
			labels = append(labels, "end:below-1")
		case c.End == -1:
			labels = append(labels, "end:-1")
		case c.End > minw:
			labels = append(labels, "end:beyond")
		case c.From >= c.End:
			labels = append(labels, "window:empty")
		}
		if differs && full >= 64 {
			labels = append(labels, octave("firstdiff-difference-at-word", full))
			if c.From <= full && (c.End == -1 || c.End > full) {
				labels = append(labels, "firstdiff-window-contains-difference-at>=64")
			}
		}
		return full >= 1 && differs && c.From <= full, labels
	}
	long := 0
	for _, l := range c.List {
		if len(l) > 12 {
			long++
		}
	}
	labels = append(labels, listLabels("plural", len(c.List), long)...)
	return len(c.List) >= 2, labels
}

func listLabels(op string, k, long int) []string {
	var out []string
	if k >= 8 {
		out = append(out, octave(op+"-elements", k))
	}
	switch {
	case long == 0:
	case long == k:
		out = append(out, op+":all-elements-long")
	default:
		out = append(out, op+":some-elements-long")
	}
	return out
}

// ---------------------------------------------------------------- generators

// logUniform draws a size in [1, 2^(maxLog+1)): the octave [2^k, 2^(k+1)) is uniform in k (no holes between the
// small and the largest sizes); a quarter of the draws sit at 2^k-1, 2^k, 2^k+1.
func logUniform(t *rapid.T, maxLog int, label string) int {
	k := gen.Uniform(t, maxLog+1, label+".oct")
	v := 1<<uint(k) + gen.Uniform(t, 1<<uint(k), label+".off")
	if gen.Chance(t, 1, 4, label+".edge") {
		v = max(1<<uint(k)+gen.Uniform(t, 3, label+".e")-1, 1)
	}
	return v
}

func genStyle(t *rapid.T) int {
	if gen.Chance(t, 1, 2, "style.random") {
		return 0
	}
	return gen.Uniform(t, nStyles, "style")
}

func genPair(t *rapid.T, maxLen int) ([]byte, []byte, string) {
	a := gen.Bytes(t, 0, maxLen, "a")
	switch gen.Uniform(t, 5, "rel") {
	case 0:
		return a, append([]byte(nil), a...), "equal"
	case 1, 2: // common prefix then a divergence inside a byte
		if len(a) == 0 {
			return a, gen.Bytes(t, 0, 3, "b"), "unrelated"
		}
		k := gen.Uniform(t, len(a), "k")
		if gen.Chance(t, 1, 3, "late") { // in the last bytes
			k = len(a) - 1 - gen.Uniform(t, min(len(a), 2), "klate")
		}
		b := append([]byte(nil), a[:k+1]...)
		b[k] ^= 1 << uint(gen.Uniform(t, 8, "bit"))
		b = append(b, gen.Bytes(t, 0, 4, "tail")...)
		return a, b, "diverge-in-byte"
	case 3:
		k := gen.Uniform(t, len(a)+1, "k")
		if gen.Chance(t, 1, 2, "swap") {
			return a[:k], a, "prefix"
		}
		return a, a[:k], "prefix"
	}
	return a, gen.Bytes(t, 0, maxLen, "b"), "unrelated"
}

// genSizedPair: a FirstDiff pair of any size up to 2^(maxLog+1) bytes as a Spec.
func genSizedPair(t *rapid.T, maxLog int) (*Spec, string) {
	la := logUniform(t, maxLog, "la")
	g := &Spec{Len: la, LenB: la, Seed: vk.U64(gen.U64(t, "seed")), Style: genStyle(t)}
	otherLen := func() int {
		switch gen.Uniform(t, 4, "lenb") {
		case 0:
			return la
		case 1:
			return max(la-1-gen.Uniform(t, 9, "lb.minus"), 0)
		case 2:
			return la + 1 + gen.Uniform(t, 9, "lb.plus")
		}
		return gen.Uniform(t, 2*la+2, "lb.any")
	}
	bitPos := func(nbytes int) int { // a bit position inside nbytes (>= 1) bytes: near the end, log-uniform, or anywhere
		switch gen.Uniform(t, 3, "pos") {
		case 0:
			return max(8*nbytes-1-gen.Uniform(t, 24, "pos.end"), 0)
		case 1:
			return min(logUniform(t, bits.Len(uint(8*nbytes))-1, "pos.log")-1, 8*nbytes-1)
		}
		return gen.Uniform(t, 8*nbytes, "pos.any")
	}
	switch gen.Uniform(t, 7, "rel") {
	case 0:
		return g, "equal"
	case 1, 2, 3:
		g.LenB = otherLen()
		if m := min(g.Len, g.LenB); m > 0 {
			g.Rel, g.Pos = 1, bitPos(m)
			return g, "diverge-in-byte"
		}
		return g, "prefix"
	case 4, 5:
		g.LenB = otherLen()
		if g.LenB == g.Len {
			g.LenB = gen.Uniform(t, la, "lb.prefix")
		}
		return g, "prefix"
	}
	g.LenB = otherLen()
	if m := min(g.Len, g.LenB); m > 0 {
		g.Rel, g.Pos = 3, bitPos(m)&^7
	}
	return g, "unrelated"
}

// genSizedList: a list of up to 2^(maxLog+1) elements as a Spec; the total content stays within budget bytes.
func genSizedList(t *rapid.T, maxLog, budget int) *Spec {
	k := logUniform(t, maxLog, "k")
	g := &Spec{Len: k, Seed: vk.U64(gen.U64(t, "seed")), Style: genStyle(t), ELen: 12}
	switch gen.Uniform(t, 4, "elen") {
	case 0:
		g.ELen = gen.Uniform(t, 4, "elen.small")
	case 1:
		g.ELen = 14
	}
	if g.ELen*k > 2*budget {
		g.ELen = max(2*budget/k, 1)
	}
	if gen.Chance(t, 2, 3, "mixed") { // only some elements are long
		g.Mix = 1 + gen.Uniform(t, 5, "mix")
		g.Long = min(12+logUniform(t, 9, "long"), 1000) // 13..1000
		nLong := 1
		switch g.Mix {
		case 1:
			nLong = k
		case 2:
			nLong = k/4 + 1
		case 3:
			nLong = k/8 + 1
		}
		g.Long = max(min(g.Long, budget/nLong), 13)
	}
	return g
}

func genCase(t *rapid.T) Case {
	n := widths[gen.Uniform(t, 4, "n")]
	per := 8 / n
	maxLen := vk.Pick(40, 2000)
	if gen.Chance(t, 1, 8, "long") {
		maxLen = vk.Pick(600, 2000) // beyond any small-string threshold, also in the quick tier
	}
	switch gen.Uniform(t, 8, "op") {
	case 0, 1:
		if gen.Chance(t, 1, 6, "sized") { // any number of words up to 2^18 (thorough 2^22)
			w := logUniform(t, vk.Pick(17, 21), "w")
			l := (w + gen.Uniform(t, per, "round")) / per
			return Case{Op: "str", N: n, Gen: &Spec{Len: l, Seed: vk.U64(gen.U64(t, "seed")), Style: genStyle(t)}}
		}
		return Case{Op: "str", N: n, S: gen.Bytes(t, 0, maxLen, "s")}
	case 2:
		if gen.Chance(t, 1, 4, "sized") {
			w := logUniform(t, vk.Pick(17, 21), "w")
			return Case{Op: "tostr", N: n, Gen: &Spec{Len: w, Seed: vk.U64(gen.U64(t, "seed")), Style: genStyle(t)}}
		}
		maxW := vk.Pick(80, 400)
		if gen.Chance(t, 1, 4, "longer") {
			maxW = 2000
		}
		l := gen.Len(t, maxW, "nw")
		ws := make([]byte, l)
		for i := range ws {
			ws[i] = byte(gen.U64(t, "w")) & byte(1<<uint(n)-1)
			if gen.Chance(t, 1, 4, "max") {
				ws[i] = byte(1<<uint(n) - 1)
			}
		}
		return Case{Op: "tostr", N: n, Words: ws}
	case 3:
		words := gen.Chance(t, 1, 2, "tostrs") // word slices of any length, also incomplete last bytes
		op := "plural"
		if words {
			op = "tostrs"
		}
		if gen.Chance(t, 1, 3, "sized") { // any number of elements up to 2^14 (thorough 2^17), random remainders
			return Case{Op: op, N: n, Gen: genSizedList(t, vk.Pick(13, 16), vk.Pick(1<<16, 1<<20))}
		}
		maxK := 6
		if gen.Chance(t, 1, 4, "more") {
			maxK = 200
		}
		k := gen.Len(t, maxK, "k")
		var list []vk.Hex
		for i := 0; i < k; i++ {
			maxE := 12
			if words {
				maxE = 14
			}
			if gen.Chance(t, 1, 8, "longelem") { // only some elements are long
				maxE = 300
			}
			e := gen.Bytes(t, 0, maxE, "e")
			if words {
				maskWords(e, n)
			}
			list = append(list, e)
		}
		return Case{Op: op, N: n, List: list}
	}
	var c Case
	if gen.Chance(t, 1, 5, "sized") { // arguments of any size up to 2^15 bytes (thorough 2^19)
		g, rel := genSizedPair(t, vk.Pick(14, 18))
		c = Case{Op: "firstdiff", N: n, Gen: g, Class: rel}
	} else {
		pl := vk.Pick(12, 200)
		if gen.Chance(t, 1, 4, "longer") {
			pl = 200
		}
		a, b, rel := genPair(t, pl)
		c = Case{Op: "firstdiff", N: n, A: a, B: b, Class: rel}
	}
	x := c.expand()
	mw := 8 * max(len(x.A), len(x.B)) / n
	from := gen.Uniform(t, mw+3, "from")
	end := gen.Uniform(t, mw+5, "end") - 1
	if gen.Chance(t, 1, 4, "endm1") {
		end = -1
	}
	ext := []int{math.MaxInt, math.MaxInt - 1, math.MaxInt - 3, math.MaxInt - 7, math.MaxInt32, math.MaxInt32 + 1, 1 << 62}
	if gen.Chance(t, 1, 12, "extreme") { // the largest values the argument types allow
		end = ext[gen.Uniform(t, len(ext), "extend")]
		if gen.Chance(t, 1, 3, "extfrom") {
			from = ext[gen.Uniform(t, len(ext), "extfrom2")]
		}
	} else if gen.Chance(t, 1, 24, "extfromalone") { // a huge from with an ordinary end (or -1)
		from = ext[gen.Uniform(t, len(ext), "extfrom3")]
	} else if gen.Chance(t, 1, 24, "negend") { // an end below -1: the limit is end itself
		end = negEnds[gen.Uniform(t, len(negEnds), "negend2")]
	}
	// steer some windows to the interesting place (more often when the arguments are large)
	steerDen := 3
	if c.Gen != nil {
		steerDen = 2
	}
	if gen.Chance(t, 1, steerDen, "steer") && from < math.MaxInt32 {
		d := diffWord(x.A, x.B, n)
		from = max(d-gen.Uniform(t, 3, "df"), 0)
		if gen.Chance(t, 1, 4, "from0") {
			from = 0
		}
		if end >= 0 {
			end = d + gen.Uniform(t, 4, "de") - 1
			if end < 0 {
				end = 0
			}
		}
	}
	c.From, c.End = from, end
	return c
}

func TestRegress(t *testing.T) { checker.Regress(t) }

func TestProp(t *testing.T) { checker.Prop(t, genCase) }

func FuzzProp(f *testing.F) { checker.Fuzz(f, genCase) }

// sweepSizes: for every octave k in [lo, hi]: 2^k-1, 2^k, 2^k+1 and two more sizes inside (2^k+1, 2^(k+1)-1) that are
// a function of (k, salt).
func sweepSizes(lo, hi int, salt uint64) []int {
	var out []int
	for k := lo; k <= hi; k++ {
		p := 1 << uint(k)
		out = append(out, p-1, p, p+1)
		if p >= 8 {
			for j := uint64(0); j < 2; j++ {
				out = append(out, p+2+int(vk.Mix(salt+uint64(k)*7+j)%uint64(p-3)))
			}
		}
	}
	return out
}

func TestGrid(t *testing.T) {
	vk.SetPhase("grid")
	var evals, nontriv int64
	for _, n := range widths {
		bw := bitword.BitWord[n]
		for x := 0; x < 256; x++ {
			checker.Run(t, Case{Op: "str", N: n, S: vk.Hex{byte(x)}, Class: "grid"})
		}
		nw := 8 / n
		for x := 0; x < 256; x++ {
			for y := 0; y < 256; y++ {
				a, b := string([]byte{byte(x)}), string([]byte{byte(y)})
				for from := 0; from <= nw+1; from++ {
					for ei := -2; ei <= nw+2; ei++ {
						end := ei - 1 // -1 .. nw+1, before that two ends below -1 (the others: grid-extreme below, TestProp)
						if ei < 0 {
							end = []int{-2, math.MinInt}[-ei-1]
						}
						evals++
						want := wantFirstDiff(a, b, n, from, end)
						var got int
						f := vk.Try("FirstDiff", func() { got = bw.FirstDiff(a, b, from, end) })
						if f == nil && got != want {
							f = vk.Failf("firstdiff", "grid mismatch")
						}
						if f != nil {
							fc := Case{Op: "firstdiff", N: n, A: vk.Hex(a), B: vk.Hex(b), From: from, End: end, Class: "grid"}
							if g := checker.Eval(fc); g == nil {
								vk.Infra("grid failure not reproduced by the per-case check")
							}
							t.Fatalf("VERIF-FAIL property=C08 kind=%s: %s", f.Kind, f.Msg)
						}
						full := wantFirstDiff(a, b, n, 0, -1)
						if full >= 1 && full < nw && from <= full {
							nontriv++
						}
					}
				}
			}
		}
	}
	for _, n := range widths { // the largest values the argument types allow, on a few pairs
		for _, pair := range [][2]string{{"aa", "ab"}, {"", "x"}, {"\xff\x00", "\xff\x00"}, {"abc", "ab"}} {
			for _, end := range []int{math.MaxInt, math.MaxInt - 1, math.MaxInt - 3, math.MaxInt - 7, math.MaxInt32, 1 << 40, -1, 3, -2, -3, -8, math.MinInt32, math.MinInt32 - 1, math.MinInt + 1, math.MinInt} {
				for _, from := range []int{0, 1, 9, math.MaxInt, math.MaxInt - 8, math.MaxInt32 + 1} {
					if end >= -1 && end <= 3 && from <= 9 {
						continue // ordinary windows: the exhaustive part and TestProp
					}
					checker.Run(t, Case{Op: "firstdiff", N: n, A: vk.Hex(pair[0]), B: vk.Hex(pair[1]), From: from, End: end, Class: "grid-extreme"})
				}
			}
		}
	}
	vk.CountConstructed(evals, nontriv, "grid-firstdiff")
	vk.MarkExhaustive("all 1-byte strings x widths x indexes; all pairs of 1-byte strings x widths x all windows from in [0,words+1], end in [-1,words+1] and {-2,MinInt}")

	// the window-placing helper against the oracle (it never judges the library, but it decides where windows go)
	for i := uint64(0); i < 3000; i++ {
		h := vk.Mix(i)
		a := fill(int(h%9), h, 1)
		b := fill(int(h>>8%9), h>>4|1, 1)
		if h>>20&1 == 0 {
			copy(b, a)
		}
		n := widths[h>>24&3]
		if g, w := diffWord(a, b, n), wantFirstDiff(string(a), string(b), n, 0, -1); g != w {
			vk.Infra(fmt.Sprintf("c08: diffWord(%x,%x,%d) = %d, oracle %d", a, b, n, g, w))
			t.Fatalf("harness self-check failed")
		}
	}

	sweepSizedGrid(t)
}

// sweepSizedGrid: no size between the exhaustive region and the largest inputs is left out. For every octave the
// sizes 2^k-1, 2^k, 2^k+1 and two more, with content that matters at that size (random bytes, or ones up to a
// last byte that differs; the FirstDiff difference in the last word / the last bit).
func sweepSizedGrid(t *testing.T) {
	topW := vk.Pick(16, 21) // FromStr / ToStr: up to 2^17-1 words (thorough 2^22-1)
	topD := vk.Pick(15, 19) // FirstDiff: difference at word up to 2^16-1 (thorough 2^20-1)
	topK := vk.Pick(13, 16) // lists: up to 2^14-1 elements (thorough 2^17-1)
	styleOf := func(i int) int { return []int{0, 0, 3, 0, 6, 1, 0, 4}[i%8] }
	for wi, n := range widths {
		per := 8 / n
		for i, w := range sweepSizes(3, topW, uint64(n)) {
			seed := vk.U64(vk.Mix(uint64(w)<<8 + uint64(n)))
			checker.Run(t, Case{Op: "str", N: n, Gen: &Spec{Len: (w + per - 1) / per, Seed: seed, Style: styleOf(i + wi)}, Class: "sweep"})
			checker.Run(t, Case{Op: "tostr", N: n, Gen: &Spec{Len: w, Seed: seed, Style: styleOf(i + wi + 1)}, Class: "sweep"})
		}
		for i, w := range sweepSizes(3, topD, uint64(n)+100) {
			// the words 0..w-2 are common, word w-1 differs (in its first or its last bit); a and b are longer than that by 0..2 / 0..6 bytes
			seed := vk.U64(vk.Mix(uint64(w)<<8 + uint64(n) + 77))
			base := (w + per - 1) / per
			pos := (w-1)*n + (i%2)*(n-1)
			g := Spec{Len: base + i%3, LenB: base + []int{0, 1, 6, 0, 2}[i%5], Seed: seed, Style: styleOf(i), Rel: 1, Pos: pos}
			for _, win := range [][2]int{{0, -1}, {w - 2, w + 1}, {w - 1, w}, {w, -1}, {0, w - 1}, {w - 1, math.MaxInt}, {w - 1, -2 - i%2*6}} {
				gg := g
				checker.Run(t, Case{Op: "firstdiff", N: n, Gen: &gg, From: max(win[0], 0), End: win[1], Class: "sweep"})
			}
		}
	}
	// lists: the sizes below 2^11 and three sizes of each octave up to 2^13 under every GOMAXPROCS setting (in the
	// process that varies it; once otherwise), the others under the setting that is current
	for i, k := range sweepSizes(3, topK, 5) {
		n := widths[i%4]
		seed := vk.U64(vk.Mix(uint64(k)<<8 + 5))
		g := Spec{Len: k, Seed: seed, Style: styleOf(i), ELen: 2 + i%3, Mix: []int{0, 3, 4, 0, 2, 5}[i%6], Long: 13 + int(vk.Mix(uint64(k))%200)}
		if g.Mix == 2 || g.Mix == 3 {
			g.Long = max(min(g.Long, (1<<15)/k), 13)
		}
		run := func() {
			g1, g2 := g, g
			checker.Run(t, Case{Op: "plural", N: n, Gen: &g1, Class: "sweep"})
			if k < 600 || i%5 == 2 {
				checker.Run(t, Case{Op: "tostrs", N: widths[(i+1)%4], Gen: &g2, Class: "sweep"})
			}
		}
		if k < 1<<11 || (k < 1<<13 && i%5 >= 2) || vk.Thorough() {
			vk.ProcsSweep(run)
		} else {
			run()
		}
	}
	// a few sizes of the other operations under every setting, too
	for i, w := range []int{127, 128, 129, 1023, 1025, 4095, 4097, 8191, 8193} {
		n := widths[i%4]
		per := 8 / n
		seed := vk.U64(vk.Mix(uint64(w)<<8 + 9))
		vk.ProcsSweep(func() {
			checker.Run(t, Case{Op: "str", N: n, Gen: &Spec{Len: (w + per - 1) / per, Seed: seed}, Class: "sweep-procs"})
			checker.Run(t, Case{Op: "tostr", N: n, Gen: &Spec{Len: w, Seed: seed}, Class: "sweep-procs"})
			la := (w + per - 1) / per
			checker.Run(t, Case{Op: "firstdiff", N: n, Gen: &Spec{Len: la, LenB: la + 1, Seed: seed, Rel: 1, Pos: (w-1)*n + n - 1}, From: 0, End: -1, Class: "sweep-procs"})
			checker.Run(t, Case{Op: "firstdiff", N: n, Gen: &Spec{Len: la, LenB: la + 1, Seed: seed, Rel: 1, Pos: (w-1)*n + n - 1}, From: 0, End: -2, Class: "sweep-procs"})
		})
	}
}

// TestLast runs at the very end of the process: huge inputs (the maximum bitmap / string) and the regression cases of that size come last, so that
// what they leave behind in the library cannot mask anything the ordinary cases would have met.
func TestLast(t *testing.T) {
	vk.SetPhase("last")
	// the maximum string: 2^28 bytes = 2^31 bits
	for _, n := range widths {
		for _, back := range []int{0, 1, 9, 100} {
			for _, cut := range []int{0, 1, 8} {
				checker.Run(t, Case{Op: "maxstr", N: n, From: back, End: cut, Class: "grid-maximum-string"})
			}
		}
	}
	// ... against twins with one inverted bit (five strings of their own, 1.25 GiB of mostly untouched address space): the last bit, the first bit of the last byte, a bit in a byte that is zero
	for _, n := range widths {
		for _, flip := range []int64{1, 8, 3, 8*7 - 3, 8*200 + 5} {
			for _, back := range []int{0, 1, 9, 1000} {
				checker.Run(t, Case{Op: "maxtwin", N: n, From: back, Flip: flip, Class: "grid-maximum-string"})
			}
		}
	}
	checker.RegressLast(t)
}

// overlapBytes reports whether the memory of two slices (up to their capacity) overlaps.
func overlapBytes(a, b []byte) bool {
	if cap(a) == 0 || cap(b) == 0 {
		return false
	}
	a, b = a[:cap(a)], b[:cap(b)]
	pa, pb := uintptr(unsafe.Pointer(&a[0])), uintptr(unsafe.Pointer(&b[0]))
	return pa < pb+uintptr(len(b)) && pb < pa+uintptr(len(a))
}

// anyOverlap reports whether any two of the given slices overlap in memory (sorted intervals: n log n).
func anyOverlap(lists ...[][]byte) bool {
	type iv struct{ lo, hi uintptr }
	var ivs []iv
	for _, l := range lists {
		for _, e := range l {
			if cap(e) == 0 {
				continue
			}
			e = e[:cap(e)]
			p := uintptr(unsafe.Pointer(&e[0]))
			ivs = append(ivs, iv{p, p + uintptr(len(e))})
		}
	}
	sort.Slice(ivs, func(i, j int) bool { return ivs[i].lo < ivs[j].lo })
	for i := 1; i < len(ivs); i++ {
		if ivs[i].lo < ivs[i-1].hi {
			return true
		}
	}
	return false
}

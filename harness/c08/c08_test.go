// Package c08 decides property C08: bitword n-bit word split/join round-trips
// and indexes consistently.
package c08

import (
	"fmt"
	"math"
	"testing"

	"github.com/openacid/low/bitword"
	"pgregory.net/rapid"

	"verif/harness/gen"
	"verif/harness/model"
	"verif/harness/vk"
)

// coldStartResult: the very first bitword calls of the process are Get and FirstDiff (no FromStr
// has run yet), for every width.
var coldStartResult = func() (msg string) {
	vk.ArmProbe("C08", Case{Op: "cold-start", N: 1, Class: "the process died during its first calls of the library"})
	defer vk.DisarmProbe()
	defer func() {
		if r := recover(); r != nil {
			msg = fmt.Sprintf("first use in the process panicked: %v", r)
		}
	}()
	a, b := "\x80\xffa\x01", "\x80\xffb\x01"
	for _, n := range widths {
		bw := bitword.BitWord[n]
		for i := 0; i < nwords(a, n); i++ {
			if g := bw.Get(a, i); g != wordOf(a, n, i) {
				return fmt.Sprintf("first use in the process: BitWord[%d].Get(%x, %d) = %d, want %d", n, a, i, g, wordOf(a, n, i))
			}
		}
		if g, w := bw.FirstDiff(a, b, 0, -1), wantFirstDiff(a, b, n, 0, -1); g != w {
			return fmt.Sprintf("first use in the process: BitWord[%d].FirstDiff(%x, %x, 0, -1) = %d, want %d", n, a, b, g, w)
		}
	}
	return ""
}()

func TestColdStart(t *testing.T) {
	vk.SetPhase("coldstart")
	vk.Label("cold-start-probe", 1)
	if coldStartResult != "" {
		checker.Run(t, Case{Op: "cold-start", N: 1, Class: coldStartResult})
	}
}

var scratch vk.Scratch

func TestMain(m *testing.M) { vk.Main(m, "C08") }

type Case struct {
	Op    string   `json:"op"` // str | tostr | firstdiff | plural | maxstr
	N     int      `json:"n"`  // width 1,2,4,8
	S     vk.Hex   `json:"s,omitempty"`
	Words vk.Hex   `json:"words,omitempty"` // in-range words for ToStr
	A     vk.Hex   `json:"a,omitempty"`
	B     vk.Hex   `json:"b,omitempty"`
	From  int      `json:"from,omitempty"`
	End   int      `json:"end,omitempty"`
	List  []vk.Hex `json:"list,omitempty"`
	Class string   `json:"class,omitempty"`
}

var widths = []int{1, 2, 4, 8}

var checker = &vk.Checker[Case]{
	ID: "C08",
	Rule: "strings over all 256 byte values (length 0..40, thorough 0..2000) x width in {1,2,4,8}: FromStr length and every word vs bit-level extraction, Get at every index, ToStr(FromStr(s)) == s; ToStr on in-range word slices of any length (partial last byte) vs MSB-first packing; " +
		"FirstDiff(a,b,from,end) on pairs {equal, common prefix + divergence inside a byte, one a prefix of the other, unrelated} x from in [0,max words+2] x end in {-1} u [0,max words+3] vs the smallest differing index below lim = min(end or words(a), words(a), words(b)); FromStrs/ToStrs element-wise, ToStrs also on lists of word slices with incomplete last bytes. " +
		"Grid: all 1-byte strings x widths x indexes; all pairs of 1-byte strings x widths x all windows. Non-trivial: str/tostr with length >= 2 and a byte >= 0x80; firstdiff with a non-empty common word prefix, a later difference and a window that cuts or contains it. Distinct by hash of the case.",
	Check:    check,
	Classify: classify,
	Hashed:   func(c Case) bool { return !(c.Op == "firstdiff" && len(c.A) == 1 && len(c.B) == 1) },
}

// word i of s for width n: its n bits, most significant first.
func wordOf(s string, n, i int) byte {
	var v byte
	for k := 0; k < n; k++ {
		v = v<<1 | byte(model.StrBit(s, i*n+k))
	}
	return v
}

func nwords(s string, n int) int { return 8 * len(s) / n }

func wantFirstDiff(a, b string, n, from, end int) int {
	lim := end
	if end == -1 {
		lim = nwords(a, n)
	}
	lim = min(lim, nwords(a, n), nwords(b, n))
	for i := from; i < lim; i++ {
		if wordOf(a, n, i) != wordOf(b, n, i) {
			return i
		}
	}
	return lim
}

func packWords(ws []byte, n int) string {
	per := 8 / n
	out := make([]byte, (len(ws)+per-1)/per)
	for i, w := range ws {
		out[i/per] |= w << uint(8-n-n*(i%per))
	}
	return string(out)
}

func checkStr(bw bitword.Interface, n int, s string) *vk.Failure {
	var ws []byte
	if f := vk.Try(fmt.Sprintf("BitWord[%d].FromStr(%x)", n, s), func() { ws = bw.FromStr(s) }); f != nil {
		return f
	}
	if len(ws) != nwords(s, n) {
		return vk.Failf("fromstr-len", "BitWord[%d].FromStr(%x) has %d words, want %d", n, s, len(ws), nwords(s, n))
	}
	for i := range ws {
		want := wordOf(s, n, i)
		if ws[i] != want {
			return vk.Failf("fromstr-word", "BitWord[%d].FromStr(%x)[%d] = %d, want %d", n, s, i, ws[i], want)
		}
		var g byte
		if f := vk.Try(fmt.Sprintf("BitWord[%d].Get(%x,%d)", n, s, i), func() { g = bw.Get(s, i) }); f != nil {
			return f
		}
		if g != want {
			return vk.Failf("get", "BitWord[%d].Get(%x, %d) = %d, want %d", n, s, i, g, want)
		}
	}
	var back string
	if f := vk.Try("ToStr(FromStr(s))", func() { back = bw.ToStr(ws) }); f != nil {
		return f
	}
	if back != s {
		return vk.Failf("roundtrip", "BitWord[%d].ToStr(FromStr(%x)) = %x", n, s, back)
	}
	return nil
}

// checkMaxStr: Get and FirstDiff at the top of a string of 2^28 bytes (2^31 bits: word indexes of width 1 leave int32).
// a is the whole string, b the same memory without its last `cut` bytes, so they never differ below lim;
// a private copy of a's tail with one bit flipped provides a difference.
func checkMaxStr(bw bitword.Interface, n, back, cut int) *vk.Failure {
	if back < 0 || back > 4096 || cut < 0 || cut > 64 {
		return nil
	}
	a, b := gen.MaxString(0), gen.MaxString(cut)
	per := 8 / n
	nwa, nwb := per*len(a), per*len(b)
	for _, i := range []int{0, 1, per*8 + 1, nwa/2 + 3, nwa - 1, nwa - 2, nwa - per, nwa - per - 1, nwa - back - 1} {
		if i < 0 || i >= nwa {
			continue
		}
		want := byte(0)
		for k := 0; k < n; k++ {
			want = want<<1 | byte(gen.MaxStrBit(int64(i)*int64(n)+int64(k)))
		}
		var g byte
		if f := vk.Try(fmt.Sprintf("BitWord[%d].Get(string of 2^28 bytes, %d)", n, i), func() { g = bw.Get(a, i) }); f != nil {
			return f
		}
		if g != want {
			return vk.Failf("get", "BitWord[%d].Get(string of 2^28 bytes, %d) = %d, want %d", n, i, g, want)
		}
	}
	from := nwb - back
	if from < 0 {
		return nil
	}
	for _, end := range []int{-1, nwb, nwb - 1, nwa, nwa + 5, math.MaxInt} {
		lim := end
		if end == -1 {
			lim = nwa
		}
		lim = min(lim, nwa, nwb)
		var g int
		if f := vk.Try(fmt.Sprintf("BitWord[%d].FirstDiff(2^28 bytes, the same less %d bytes, %d, %d)", n, cut, from, end), func() { g = bw.FirstDiff(a, b, from, end) }); f != nil {
			return f
		}
		if g != lim {
			return vk.Failf("firstdiff", "BitWord[%d].FirstDiff(2^28 bytes, the same less %d bytes, from=%d, end=%d) = %d, want %d (no difference below the limit)", n, cut, from, end, g, lim)
		}
	}
	if j, bad := gen.MaxStringDamage(); bad {
		return vk.Failf("mutates", "byte %d of the 2^28-byte string argument was modified", j)
	}
	return nil
}

func check(c Case) *vk.Failure {
	bw, ok := bitword.BitWord[c.N]
	if !ok || bw == nil {
		return vk.Failf("missing-width", "bitword.BitWord[%d] is missing", c.N)
	}
	switch c.Op {
	case "maxstr":
		return checkMaxStr(bw, c.N, c.From, c.End)
	case "cold-start":
		if coldStartResult != "" {
			return vk.Failf("cold-start", "%s", coldStartResult)
		}
		return nil
	case "str":
		return checkStr(bw, c.N, string(c.S))
	case "tostr":
		ws := append([]byte(nil), c.Words...)
		reused := scratch.Reuse(vk.Hash64(c.Words) + uint64(c.N))
		if reused {
			ws = scratch.Bytes(c.Words) // a reused buffer with guarded spare capacity (e.g. a prefix of a longer word slice)
		}
		var got string
		if f := vk.Try(fmt.Sprintf("BitWord[%d].ToStr(%v)", c.N, c.Words), func() { got = bw.ToStr(ws) }); f != nil {
			return f
		}
		if want := packWords(c.Words, c.N); got != want {
			return vk.Failf("tostr", "BitWord[%d].ToStr(%v) = %x, want %x", c.N, []byte(c.Words), got, want)
		}
		if string(ws) != string(c.Words) {
			return vk.Failf("tostr-mutates", "ToStr modified its argument")
		}
		if reused {
			if msg := scratch.Check(); msg != "" {
				return vk.Failf("argument-spare-capacity-written", "BitWord[%d].ToStr(%d words): %s", c.N, len(c.Words), msg)
			}
		}
		return nil
	case "firstdiff":
		a, b := string(c.A), string(c.B)
		want := wantFirstDiff(a, b, c.N, c.From, c.End)
		var got int
		if f := vk.Try(fmt.Sprintf("BitWord[%d].FirstDiff(%x,%x,%d,%d)", c.N, a, b, c.From, c.End), func() { got = bw.FirstDiff(a, b, c.From, c.End) }); f != nil {
			return f
		}
		if got != want {
			return vk.Failf("firstdiff", "BitWord[%d].FirstDiff(%x, %x, from=%d, end=%d) = %d, want %d", c.N, a, b, c.From, c.End, got, want)
		}
		return nil
	}
	if c.Op == "tostrs" {
		// ToStrs on arbitrary in-range word slices (also incomplete last bytes) == ToStr element-wise
		in := make([][]byte, len(c.List))
		for i, l := range c.List {
			in[i] = append([]byte(nil), l...)
		}
		var got []string
		if f := vk.Try(fmt.Sprintf("BitWord[%d].ToStrs(%v)", c.N, in), func() { got = bw.ToStrs(in) }); f != nil {
			return f
		}
		if len(got) != len(in) {
			return vk.Failf("tostrs-len", "ToStrs of %d word slices returned %d strings", len(in), len(got))
		}
		for i := range in {
			if want := packWords(c.List[i], c.N); got[i] != want {
				return vk.Failf("tostrs-element", "BitWord[%d].ToStrs(%v)[%d] = %x, want %x (element-wise ToStr)", c.N, in, i, got[i], want)
			}
			if string(in[i]) != string(c.List[i]) {
				return vk.Failf("tostrs-mutates", "ToStrs modified word slice %d", i)
			}
		}
		return nil
	}
	// plural forms are element-wise
	strs := vk.Strings(c.List)
	var wss [][]byte
	var back []string
	if f := vk.Try("FromStrs/ToStrs", func() {
		wss = bw.FromStrs(strs)
		back = bw.ToStrs(wss)
	}); f != nil {
		return f
	}
	if len(wss) != len(strs) || len(back) != len(strs) {
		return vk.Failf("plural-len", "FromStrs/ToStrs of %d strings returned %d/%d elements", len(strs), len(wss), len(back))
	}
	for i, s := range strs {
		one := bw.FromStr(s)
		if string(one) != string(wss[i]) {
			return vk.Failf("fromstrs", "FromStrs(...)[%d] = %v, FromStr gives %v", i, wss[i], one)
		}
		for k := range wss[i] {
			if wss[i][k] != wordOf(s, c.N, k) {
				return vk.Failf("fromstrs", "FromStrs(...)[%d][%d] wrong", i, k)
			}
		}
		if back[i] != s {
			return vk.Failf("tostrs", "ToStrs(FromStrs(...))[%d] = %x, want %x", i, back[i], s)
		}
	}
	return nil
}

func classify(c Case) (bool, []string) {
	if c.Op == "cold-start" {
		return false, []string{"cold-start-failure"}
	}
	if c.Op == "maxstr" {
		return true, []string{"op:maxstr", "maximum-string(2^28 bytes)"}
	}
	labels := []string{"op:" + c.Op, fmt.Sprintf("n:%d", c.N)}
	if c.Class != "" {
		labels = append(labels, "class:"+c.Class)
	}
	high := func(b []byte) bool {
		for _, x := range b {
			if x >= 0x80 {
				return true
			}
		}
		return false
	}
	switch c.Op {
	case "str":
		return len(c.S) >= 2 && high(c.S), labels
	case "tostr":
		per := 8 / c.N
		if len(c.Words)%per != 0 {
			labels = append(labels, "partial-last-byte")
		}
		return len(c.Words) >= 2 && (len(c.Words)%per != 0 || c.N == 8), labels
	case "tostrs":
		per := 8 / c.N
		incomplete := 0
		for _, l := range c.List {
			if len(l)%per != 0 {
				incomplete++
			}
		}
		if incomplete > 0 {
			labels = append(labels, "has-incomplete-element")
		}
		return len(c.List) >= 2 && incomplete > 0, labels
	case "firstdiff":
		a, b := string(c.A), string(c.B)
		full := wantFirstDiff(a, b, c.N, 0, -1)
		minw := min(nwords(a, c.N), nwords(b, c.N))
		differs := full < minw
		switch {
		case c.End == -1:
			labels = append(labels, "end:-1")
		case c.End > minw:
			labels = append(labels, "end:beyond")
		case c.From >= c.End:
			labels = append(labels, "window:empty")
		}
		return full >= 1 && differs && c.From <= full, labels
	}
	return len(c.List) >= 2, labels
}

func genPair(t *rapid.T, maxLen int) ([]byte, []byte, string) {
	a := gen.Bytes(t, 0, maxLen, "a")
	switch gen.Uniform(t, 5, "rel") {
	case 0:
		return a, append([]byte(nil), a...), "equal"
	case 1, 2: // common prefix then a divergence inside a byte
		if len(a) == 0 {
			return a, gen.Bytes(t, 0, 3, "b"), "unrelated"
		}
		k := gen.Uniform(t, len(a), "k")
		b := append([]byte(nil), a[:k+1]...)
		b[k] ^= 1 << uint(gen.Uniform(t, 8, "bit"))
		b = append(b, gen.Bytes(t, 0, 4, "tail")...)
		return a, b, "diverge-in-byte"
	case 3:
		k := gen.Uniform(t, len(a)+1, "k")
		if gen.Chance(t, 1, 2, "swap") {
			return a[:k], a, "prefix"
		}
		return a, a[:k], "prefix"
	}
	return a, gen.Bytes(t, 0, maxLen, "b"), "unrelated"
}

func genCase(t *rapid.T) Case {
	n := widths[gen.Uniform(t, 4, "n")]
	maxLen := vk.Pick(40, 2000)
	if gen.Chance(t, 1, 8, "long") {
		maxLen = vk.Pick(600, 2000) // beyond any small-string threshold, also in the quick tier
	}
	switch gen.Uniform(t, 8, "op") {
	case 0, 1:
		return Case{Op: "str", N: n, S: gen.Bytes(t, 0, maxLen, "s")}
	case 2:
		l := gen.Len(t, vk.Pick(80, 400), "nw")
		ws := make([]byte, l)
		for i := range ws {
			ws[i] = byte(gen.U64(t, "w")) & byte(1<<uint(n)-1)
			if gen.Chance(t, 1, 4, "max") {
				ws[i] = byte(1<<uint(n) - 1)
			}
		}
		return Case{Op: "tostr", N: n, Words: ws}
	case 3:
		k := gen.Len(t, 6, "k")
		var list []vk.Hex
		if gen.Chance(t, 1, 2, "tostrs") { // word slices of any length, also incomplete last bytes
			for i := 0; i < k; i++ {
				ws := gen.Bytes(t, 0, 14, "ws")
				for j := range ws {
					ws[j] &= byte(1<<uint(n) - 1)
				}
				list = append(list, ws)
			}
			return Case{Op: "tostrs", N: n, List: list}
		}
		for i := 0; i < k; i++ {
			list = append(list, gen.Bytes(t, 0, 12, "e"))
		}
		return Case{Op: "plural", N: n, List: list}
	}
	a, b, rel := genPair(t, vk.Pick(12, 200))
	mw := max(nwords(string(a), n), nwords(string(b), n))
	from := gen.Uniform(t, mw+3, "from")
	end := gen.Uniform(t, mw+5, "end") - 1
	if gen.Chance(t, 1, 4, "endm1") {
		end = -1
	}
	if gen.Chance(t, 1, 12, "extreme") { // the largest values the argument types allow
		ext := []int{math.MaxInt, math.MaxInt - 1, math.MaxInt - 3, math.MaxInt - 7, math.MaxInt32, math.MaxInt32 + 1, 1 << 62}
		end = ext[gen.Uniform(t, len(ext), "extend")]
		if gen.Chance(t, 1, 3, "extfrom") {
			from = ext[gen.Uniform(t, len(ext), "extfrom2")]
		}
	}
	// steer some windows to the interesting place
	if gen.Chance(t, 1, 3, "steer") {
		d := wantFirstDiff(string(a), string(b), n, 0, -1)
		from = max(d-gen.Uniform(t, 3, "df"), 0)
		if end != -1 {
			end = d + gen.Uniform(t, 4, "de") - 1
			if end < 0 {
				end = 0
			}
		}
	}
	return Case{Op: "firstdiff", N: n, A: a, B: b, From: from, End: end, Class: rel}
}

func TestRegress(t *testing.T) { checker.Regress(t) }

func TestProp(t *testing.T) { checker.Prop(t, genCase) }

func FuzzProp(f *testing.F) { checker.Fuzz(f, genCase) }

func TestGrid(t *testing.T) {
	vk.SetPhase("grid")
	var evals, nontriv int64
	for _, n := range widths {
		bw := bitword.BitWord[n]
		for x := 0; x < 256; x++ {
			checker.Run(t, Case{Op: "str", N: n, S: vk.Hex{byte(x)}, Class: "grid"})
		}
		nw := 8 / n
		for x := 0; x < 256; x++ {
			for y := 0; y < 256; y++ {
				a, b := string([]byte{byte(x)}), string([]byte{byte(y)})
				for from := 0; from <= nw+1; from++ {
					for end := -1; end <= nw+1; end++ {
						evals++
						want := wantFirstDiff(a, b, n, from, end)
						var got int
						f := vk.Try("FirstDiff", func() { got = bw.FirstDiff(a, b, from, end) })
						if f == nil && got != want {
							f = vk.Failf("firstdiff", "grid mismatch")
						}
						if f != nil {
							fc := Case{Op: "firstdiff", N: n, A: vk.Hex(a), B: vk.Hex(b), From: from, End: end, Class: "grid"}
							if g := checker.Eval(fc); g == nil {
								vk.Infra("grid failure not reproduced by the per-case check")
							}
							t.Fatalf("VERIF-FAIL property=C08 kind=%s: %s", f.Kind, f.Msg)
						}
						full := wantFirstDiff(a, b, n, 0, -1)
						if full >= 1 && full < nw && from <= full {
							nontriv++
						}
					}
				}
			}
		}
	}
	for _, n := range widths { // the largest values the argument types allow, on a few pairs
		for _, pair := range [][2]string{{"aa", "ab"}, {"", "x"}, {"\xff\x00", "\xff\x00"}, {"abc", "ab"}} {
			for _, end := range []int{math.MaxInt, math.MaxInt - 1, math.MaxInt - 3, math.MaxInt - 7, math.MaxInt32, 1 << 40} {
				for _, from := range []int{0, 1, 9, math.MaxInt, math.MaxInt - 8} {
					checker.Run(t, Case{Op: "firstdiff", N: n, A: vk.Hex(pair[0]), B: vk.Hex(pair[1]), From: from, End: end, Class: "grid-extreme"})
				}
			}
		}
	}
	vk.CountConstructed(evals, nontriv, "grid-firstdiff")
	vk.MarkExhaustive("all 1-byte strings x widths x indexes; all pairs of 1-byte strings x widths x all windows from in [0,words+1], end in [-1,words+1]")
}

// TestLast runs at the very end of the process: huge inputs (the maximum bitmap / string) and the regression cases of that size come last, so that
// what they leave behind in the library cannot mask anything the ordinary cases would have met.
func TestLast(t *testing.T) {
	vk.SetPhase("last")
	// the maximum string: 2^28 bytes = 2^31 bits
	for _, n := range widths {
		for _, back := range []int{0, 1, 9, 100} {
			for _, cut := range []int{0, 1, 8} {
				checker.Run(t, Case{Op: "maxstr", N: n, From: back, End: cut, Class: "grid-maximum-string"})
			}
		}
	}
	checker.RegressLast(t)
}

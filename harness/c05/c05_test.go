// Package c05 decides property C05: IndexToPath inverts PathToIndex on full
// trees of every height (complete enumeration in the thorough tier).
package c05

import (
	"fmt"
	"testing"

	"github.com/openacid/low/bmtree"
	"pgregory.net/rapid"

	"verif/harness/gen"
	"verif/harness/model"
	"verif/harness/vk"
)

func TestMain(m *testing.M) { vk.Main(m, "C05") }

type Case struct {
	H     int   `json:"h"`
	Index int64 `json:"index"`
}

func gridMaxH() int { return vk.Pick(22, 30) }

var checker = &vk.Checker[Case]{
	ID: "C05",
	Rule: "every (height h, index) of the full tree is produced by an explicit iterative pre-order walk whose visit counter is the index (quick: heights 0..22 completely = 2^24-25 nodes; thorough: all heights 0..30 = 2^32-33 pairs, sharded by subtree); " +
		"per node IndexToPath(h,i) == walked path, PathToIndex(2^(h+1)-1, path) == i and the composite; quick adds rapid-sampled (h in 23..30, index at 0,1,2^h-1,2^h,2^h+1,last, +-1 around multiples of 2^k, random) checked against an independent inverse (descent by subtree sizes). " +
		"Non-trivial: h >= 5 (beyond the pure lookup table). Enumerated nodes are distinct by construction; sampled cases are hashed only when h lies above the enumerated heights.",
	Check:    check,
	Classify: classify,
	Hashed:   func(c Case) bool { return c.H > gridMaxH() },
}

func classify(c Case) (bool, []string) {
	l := "h:0-4"
	switch {
	case c.H >= 23:
		l = "h:23-30"
	case c.H >= 7:
		l = "h:7-22"
	case c.H >= 5:
		l = "h:5-6"
	}
	return c.H >= 5, []string{l}
}

// inverse: the node with pre-order index idx in the full tree of height h,
// found by descending: 0 = this node, else skip the node, the left subtree has
// 2^(h-d)-1 nodes.
func inverse(h int, idx int64) (prefix uint64, l int) {
	r := idx
	for d := 0; ; d++ {
		if r == 0 {
			return prefix, d
		}
		r--
		sub := int64(1)<<uint(h-d) - 1 // size of each child subtree
		if r < sub {
			prefix <<= 1
		} else {
			r -= sub
			prefix = prefix<<1 | 1
		}
	}
}

func checkNode(h int, idx int64, prefix uint64, l int) *vk.Failure {
	want := model.PathWord(prefix, l, h)
	full := int32(int64(1)<<uint(h+1) - 1)
	var got uint64
	var back int32
	if f := vk.Try(fmt.Sprintf("IndexToPath(h=%d, index=%d)", h, idx), func() { got = bmtree.IndexToPath(int32(h), int32(idx)) }); f != nil {
		return f
	}
	if got != want {
		return vk.Failf("index-to-path", "IndexToPath(h=%d, index=%d) = %#x, want %#x (prefix=%b len=%d)", h, idx, got, want, prefix, l)
	}
	if f := vk.Try(fmt.Sprintf("PathToIndex(full h=%d, path=%#x)", h, want), func() { back = bmtree.PathToIndex(full, want) }); f != nil {
		return f
	}
	if int64(back) != idx {
		return vk.Failf("path-to-index-full", "PathToIndex(%#x, %#x) = %d, want %d", full, want, back, idx)
	}
	return nil
}

func check(c Case) *vk.Failure {
	p, l := inverse(c.H, c.Index)
	// the two oracles must agree (harness self-check)
	if oi, _ := model.NewTree(int32(int64(1)<<uint(c.H+1)-1)).Index(p, l); oi != c.Index {
		vk.Infra(fmt.Sprintf("inverse oracle disagrees with tree oracle at h=%d idx=%d", c.H, c.Index))
		return nil
	}
	return checkNode(c.H, c.Index, p, l)
}

func genCase(t *rapid.T) Case {
	var h int
	if vk.Thorough() || gen.Chance(t, 1, 8, "anyh") {
		h = gen.Uniform(t, 31, "h")
	} else {
		h = 23 + gen.Uniform(t, 8, "h")
	}
	n := int64(1)<<uint(h+1) - 1
	var idx int64
	switch gen.Uniform(t, 8, "iclass") {
	case 0:
		idx = int64(gen.Uniform(t, 3, "small"))
	case 1:
		idx = n - 1 - int64(gen.Uniform(t, 3, "fromend"))
	case 2:
		idx = int64(1)<<uint(h) - 1 + int64(gen.Uniform(t, 3, "mid"))
	case 3, 4:
		k := gen.Uniform(t, h+1, "k")
		m := int64(gen.U64(t, "mult") % uint64(n>>uint(k)+1))
		idx = m<<uint(k) - 1 + int64(gen.Uniform(t, 3, "d"))
	default:
		idx = int64(gen.U64(t, "idx") % uint64(n))
	}
	if idx < 0 {
		idx = 0
	}
	if idx >= n {
		idx = n - 1
	}
	return Case{H: h, Index: idx}
}

func TestRegress(t *testing.T) { checker.Regress(t) }

func TestProp(t *testing.T) { checker.Prop(t, genCase) }

// TestGrid walks full trees completely. Work unit: (height, subtree rooted at
// depth k=min(h,8)); the nodes above depth k are done by the unit's owner 0.
func TestGrid(t *testing.T) {
	vk.SetPhase("grid")
	shard, nshards := vk.Shard()
	maxH := gridMaxH()
	var evals, nontriv int64
	unit := 0
	fail := func(h int, idx int64, f *vk.Failure) {
		if g := checker.Eval(Case{H: h, Index: idx}); g == nil {
			vk.Infra(fmt.Sprintf("grid found %v at h=%d idx=%d but the per-case check passes", f, h, idx))
		}
		t.Fatalf("VERIF-FAIL property=C05 kind=%s: %s", f.Kind, f.Msg)
	}
	for h := 0; h <= maxH; h++ {
		k := min(h, 8)
		full := model.NewTree(int32(int64(1)<<uint(h+1) - 1))
		// upper part: all nodes of depth < k
		unit++
		if unit%nshards == shard {
			for l := 0; l < k; l++ {
				for p := uint64(0); p < 1<<uint(l); p++ {
					idx, _ := full.Index(p, l)
					evals++
					if f := checkNode(h, idx, p, l); f != nil {
						fail(h, idx, f)
					}
				}
			}
		}
		for root := uint64(0); root < 1<<uint(k); root++ {
			unit++
			if unit%nshards != shard {
				continue
			}
			idx, _ := full.Index(root, k)
			prefix, l := root, k
			for {
				// inlined checkNode for speed (no closure, no formatting on the hot path)
				want := model.PathWord(prefix, l, h)
				if got := bmtree.IndexToPath(int32(h), int32(idx)); got != want {
					fail(h, idx, vk.Failf("index-to-path", "IndexToPath(h=%d, index=%d) = %#x, want %#x", h, idx, got, want))
				}
				if back := bmtree.PathToIndex(int32(int64(1)<<uint(h+1)-1), want); int64(back) != idx {
					fail(h, idx, vk.Failf("path-to-index-full", "PathToIndex(full h=%d, %#x) = %d, want %d", h, want, back, idx))
				}
				evals++
				if idx&0xfff == 0 {
					checker.Remember(Case{H: h, Index: idx})
				}
				idx++
				if l < h {
					prefix <<= 1
					l++
					continue
				}
				for l > k && prefix&1 == 1 {
					prefix >>= 1
					l--
				}
				if l == k {
					break
				}
				prefix |= 1
			}
		}
		if h >= 5 {
			// every node of this height's share is non-trivial; recompute lazily below
		}
	}
	// non-trivial = nodes of heights >= 5 in this shard: count again by formula per unit is
	// awkward, so count while walking: evals of heights < 5 are at most 2^5+..., subtract exactly.
	small := int64(0)
	u := 0
	for h := 0; h <= min(maxH, 4); h++ {
		k := min(h, 8)
		u++
		if u%nshards == shard {
			small += int64(1)<<uint(k) - 1
		}
		for root := uint64(0); root < 1<<uint(k); root++ {
			u++
			if u%nshards == shard {
				small += int64(1)<<uint(h-k+1) - 1
			}
		}
	}
	nontriv = evals - small
	vk.CountConstructed(evals, nontriv, "enumerated-node")
	vk.AddSample(map[string]any{"enumeration": fmt.Sprintf("heights 0..%d, shard %d of %d", maxH, shard, nshards), "nodes_checked_by_this_shard": evals,
		"example_node": map[string]any{"h": 6, "index": 40, "path": fmt.Sprintf("%#x", bmtree.IndexToPath(6, 40))}})
	vk.MarkExhaustive(fmt.Sprintf("every (h,index) for h in 0..%d", maxH))
	if maxH == 30 {
		vk.SetExtra("complete_domain_pairs", int64(1)<<32-33)
	}
}

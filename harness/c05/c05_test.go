// Package c05 decides property C05: IndexToPath inverts PathToIndex on full
// trees of every height (complete enumeration in the thorough tier).
package c05

import (
	"fmt"
	"math/bits"
	"runtime/debug"
	"testing"

	"github.com/openacid/low/bmtree"
	"pgregory.net/rapid"

	"verif/harness/gen"
	"verif/harness/model"
	"verif/harness/vk"
)

func TestMain(m *testing.M) { vk.Main(m, "C05") }

// Case is one node (h, index) of the domain or, when Run > 0, a WORK UNIT: a
// deterministic sequence of nodes that the grid evaluates back to back,
//
//	for j in 0..Run-1: idx = Index + j*Step (Step 0 means 1);  for h in H..max(H,HTo): node (h, idx)
//
// (a node is skipped when idx lies outside the tree of height h). Units are
// what TestGrid walks without per-node bookkeeping; a unit is written to a
// case file only when the failure of one of its nodes does not reproduce from
// the node alone (the result depended on the calls made before) or when the
// process died inside it.
type Case struct {
	H     int   `json:"h"`
	Index int64 `json:"index"`
	Run   int64 `json:"run,omitempty"`
	Step  int64 `json:"step,omitempty"`
	HTo   int   `json:"h_to,omitempty"`
	// Mode "p2i" (units only): the unit calls PathToIndex ALONE on the walked paths, no IndexToPath in between.
	Mode string `json:"mode,omitempty"`
}

const modeP2I = "p2i"

const maxHeight = 30

func gridMaxH() int { return vk.Pick(23, maxHeight) }

func treeSize(h int) int64 { return int64(1)<<uint(h+1) - 1 }

var checker = &vk.Checker[Case]{
	ID: "C05",
	Rule: "every (height h, index) of the full tree is produced by an explicit iterative pre-order walk whose visit counter is the index (quick: heights 0..23 completely = 2^25-26 nodes; thorough: all heights 0..30 = 2^32-33 pairs, sharded by subtree); " +
		"per node IndexToPath(h,i) == walked path, PathToIndex(2^(h+1)-1, path) == i and the composite; after that pair PathToIndex is also asked about the path of the node walked BEFORE (a path IndexToPath did not just return) and must give that node's index. " +
		"A single case (rapid, replay, the nodes above depth 8 of every enumerated tree) runs PathToIndex(path) ; IndexToPath ; PathToIndex(path) ; PathToIndex of every ancestor, the sibling, the left and right spine below the node, the nodes of index-1 and index+1 and the same prefix in the full trees of heights h-1, h+1, len, 30 (expected indexes from the tree model) ; PathToIndex(path) ; IndexToPath again. " +
		"Both tiers start the grid with PathToIndex-only walks (no IndexToPath in between) over both ends, the middle and a stride of every height 0..30. " +
		"Quick adds, for the heights 24..30 it cannot enumerate: (1) a strided lattice index = offset + j*stride over the WHOLE index range of every height, stride an odd number in 113..127 chosen with the offset from (VERIF_SEED, h), so that every window of 128 consecutive indexes of every height is met and every residue class modulo a power of two is met in proportion; " +
		"(2) an offset sweep: for every k in 0..h and 64 multipliers m (1,2,3, the two largest, the rest pseudo-random, half of them odd) the h+4 consecutive indexes m*2^k-2 .. m*2^k+h+1, i.e. every position of the window (index-h, index] relative to a multiple of every power of two; " +
		"(3) calling-context walks over heights 5..30 (indexes in step across all heights, descending index order at both ends of each height); " +
		"(4) rapid-sampled (h in 24..30, index at 0,1,2^h-1,2^h,2^h+1,last, m*2^k+d with d in -2..h+1, random). Sampled and strided nodes are checked against an independent inverse (descent by subtree sizes). " +
		"Non-trivial: h >= 5 (beyond the pure lookup table). Enumerated and lattice nodes are distinct by construction; the nodes of (2) and (3) are evaluated but NOT counted as distinct (they may coincide with each other or with the lattice); sampled cases are hashed only when h lies above the enumerated heights and the index is not on the lattice.",
	Check:    check,
	Classify: classify,
	Hashed:   func(c Case) bool { return c.Run == 0 && c.H > gridMaxH() && !onLattice(c.H, c.Index) },
	// a unit is evaluated through the checker only when it is replayed from a file: keep it on disk
	// while it runs (it may have been stored because the process died in it)
	Risky: func(c Case) bool { return c.Run > 0 },
}

func classify(c Case) (bool, []string) {
	if c.Run > 0 {
		return false, []string{"unit-replayed-as-one-case"}
	}
	l := "h:0-4"
	switch {
	case c.H >= 23:
		l = "h:23-30"
	case c.H >= 7:
		l = "h:7-22"
	case c.H >= 5:
		l = "h:5-6"
	}
	return c.H >= 5, []string{l}
}

// inverse: the node with pre-order index idx in the full tree of height h,
// found by descending: 0 = this node, else skip the node, the left subtree has
// 2^(h-d)-1 nodes.
func inverse(h int, idx int64) (prefix uint64, l int) {
	r := idx
	for d := 0; ; d++ {
		if r == 0 {
			return prefix, d
		}
		r--
		sub := int64(1)<<uint(h-d) - 1 // size of each child subtree
		if r < sub {
			prefix <<= 1
		} else {
			r -= sub
			prefix = prefix<<1 | 1
		}
	}
}

// pathWord is model.PathWord without the loop (the run of l ones is 2^l-1); TestGrid
// compares the two on every (l, h) before it relies on this one.
func pathWord(prefix uint64, l, h int) uint64 {
	return (prefix<<32 | (uint64(1)<<uint(l) - 1)) << uint(h-l)
}

// checkNode evaluates one node through a fixed call sequence (a pure function of the node):
//
//	PathToIndex(path) [before any IndexToPath of this case] ; IndexToPath(h, idx) ; PathToIndex(path) ;
//	PathToIndex on the node's RELATIVES - paths IndexToPath did not just return (see relatives) ;
//	PathToIndex(path) again ; IndexToPath(h, idx) again.
//
// "PathToIndex(2^(h+1)-1, p) = index of p for every node p of the full tree" is a claim about PathToIndex on
// any node, whatever was asked before; the pair (IndexToPath, PathToIndex of that very path) alone would let
// anything IndexToPath leaves behind for PathToIndex look right.
func checkNode(h int, idx int64, prefix uint64, l int) *vk.Failure {
	want := model.PathWord(prefix, l, h)
	full := int32(treeSize(h))
	var got uint64
	var back int32
	p2i := func(kind, when string) *vk.Failure {
		if f := vk.Try(fmt.Sprintf("PathToIndex(full h=%d, path=%#x) %s", h, want, when), func() { back = bmtree.PathToIndex(full, want) }); f != nil {
			return f
		}
		if int64(back) != idx {
			return vk.Failf(kind, "PathToIndex(%#x, %#x) = %d, want %d (%s)", full, want, back, idx, when)
		}
		return nil
	}
	i2p := func(when string) *vk.Failure {
		if f := vk.Try(fmt.Sprintf("IndexToPath(h=%d, index=%d) %s", h, idx, when), func() { got = bmtree.IndexToPath(int32(h), int32(idx)) }); f != nil {
			return f
		}
		if got != want {
			return vk.Failf("index-to-path", "IndexToPath(h=%d, index=%d) = %#x, want %#x (prefix=%b len=%d; %s)", h, idx, got, want, prefix, l, when)
		}
		return nil
	}
	if f := p2i("path-to-index-full", "before IndexToPath is called for this node"); f != nil {
		return f
	}
	if f := i2p("first call"); f != nil {
		return f
	}
	if f := p2i("path-to-index-full", "right after IndexToPath returned this path"); f != nil {
		return f
	}
	for _, r := range relatives(h, idx, prefix, l) {
		w := model.PathWord(r.p, r.l, r.h)
		wi, _ := model.NewTree(int32(treeSize(r.h))).Index(r.p, r.l)
		if ni, ok := nodeIndex(r.h, w); !ok || ni != wi {
			vk.Infra(fmt.Sprintf("forward map and tree oracle disagree on the %s of h=%d idx=%d: %d,%v / %d", r.name, h, idx, ni, ok, wi))
			return nil
		}
		rfull := int32(treeSize(r.h))
		if f := vk.Try(fmt.Sprintf("PathToIndex(full h=%d, path=%#x) after IndexToPath(h=%d, index=%d)", r.h, w, h, idx), func() { back = bmtree.PathToIndex(rfull, w) }); f != nil {
			return f
		}
		if int64(back) != wi {
			return vk.Failf("path-to-index-other-node", "after IndexToPath(h=%d, index=%d) = %#x: PathToIndex(%#x, %#x) = %d, want %d (%s: prefix=%b len=%d height=%d)",
				h, idx, want, rfull, w, back, wi, r.name, r.p, r.l, r.h)
		}
	}
	if f := p2i("path-to-index-full", "after PathToIndex was asked about other nodes"); f != nil {
		return f
	}
	return i2p("second call, after the PathToIndex calls")
}

type relative struct {
	name string
	h    int
	p    uint64
	l    int
}

// relatives lists nodes other than (h, prefix, l) whose PathToIndex is asked after IndexToPath(h, idx) returned:
// every ancestor, the sibling, every node of the left and of the right spine below the node (all share searching
// bits, mask bits or both with the node), the pre-order neighbours idx-1 and idx+1, and the node of the same
// prefix in full trees of other heights (h-1, h+1, the tree in which it is a leaf, 30).
func relatives(h int, idx int64, prefix uint64, l int) []relative {
	var out []relative
	for k := 1; k <= l; k++ {
		out = append(out, relative{"ancestor", h, prefix >> uint(k), l - k})
	}
	if l > 0 {
		out = append(out, relative{"sibling", h, prefix ^ 1, l})
	}
	for k := 1; k <= h-l; k++ {
		out = append(out, relative{"left-spine descendant", h, prefix << uint(k), l + k})
		out = append(out, relative{"right-spine descendant", h, prefix<<uint(k) | (uint64(1)<<uint(k) - 1), l + k})
	}
	if idx > 0 {
		p, pl := inverse(h, idx-1)
		out = append(out, relative{"node of index-1", h, p, pl})
	}
	if idx+1 < treeSize(h) {
		p, pl := inverse(h, idx+1)
		out = append(out, relative{"node of index+1", h, p, pl})
	}
	seen := map[int]bool{h: true}
	for _, oh := range []int{h - 1, h + 1, l, maxHeight} {
		if oh < l || oh < 0 || oh > maxHeight || seen[oh] {
			continue
		}
		seen[oh] = true
		out = append(out, relative{"same prefix in the tree of another height", oh, prefix, l})
	}
	return out
}

// inDomain: the quantifier's domain (and, for a unit, a sane extent).
func inDomain(c Case) bool {
	if c.H < 0 || c.H > maxHeight {
		return false
	}
	if c.Run == 0 {
		return c.Index >= 0 && c.Index < treeSize(c.H) && c.Step == 0 && c.HTo == 0 && c.Mode == ""
	}
	if c.Mode != "" && c.Mode != modeP2I {
		return false
	}
	if c.Run < 0 || c.Run > int64(1)<<32 || c.HTo > maxHeight || c.Step > int64(1)<<32 || c.Step < -(int64(1)<<32) {
		return false
	}
	return true
}

func check(c Case) *vk.Failure {
	if !inDomain(c) {
		vk.Infra(fmt.Sprintf("case outside the domain of the property: %+v", c))
		return nil
	}
	if c.Run > 0 {
		_, _, f := walkUnit(c)
		return f
	}
	p, l := inverse(c.H, c.Index)
	// the two oracles must agree (harness self-check)
	if oi, _ := model.NewTree(int32(treeSize(c.H))).Index(p, l); oi != c.Index {
		vk.Infra(fmt.Sprintf("inverse oracle disagrees with tree oracle at h=%d idx=%d", c.H, c.Index))
		return nil
	}
	return checkNode(c.H, c.Index, p, l)
}

// ---------------------------------------------------------------- unit walks

func panicFailure(h int, idx int64, r any) *vk.Failure {
	st := string(debug.Stack())
	if len(st) > 2500 {
		st = st[:2500]
	}
	return vk.Failf("panic", "IndexToPath(h=%d, index=%d) / PathToIndex(full h=%d, its path or the path of the node walked before it) panicked: %v\n%s", h, idx, h, r, st)
}

// walkUnit evaluates the nodes of a unit in order and returns the first node
// that fails. A panic of the library is a failure of the node that was running.
// Per node: IndexToPath(h, idx) ; PathToIndex(its path) ; PathToIndex(path of the node walked BEFORE it) - the
// last call asks PathToIndex about a path that IndexToPath did not just return (in a pre-order run that is
// the parent or the end of the subtree to the left, in a strided run an unrelated node, in a walk across
// heights the same index in the tree one level lower). A failure of that lagged call is reported for the
// node that was running (the calls up to and including its IndexToPath are what the failure needs).
// Mode "p2i": PathToIndex alone, node after node.
func walkUnit(c Case) (fh int, fidx int64, f *vk.Failure) {
	step := c.Step
	if step == 0 {
		step = 1
	}
	if c.Mode == modeP2I {
		return walkP2I(c, step)
	}
	if step == 1 && c.HTo <= c.H {
		fidx, f = walkRun(c.H, c.Index, c.Run)
		return c.H, fidx, f
	}
	if step > 1 && c.HTo <= c.H && c.Index >= 0 {
		fidx, f = walkStride(c.H, c.Index, c.Run, step)
		return c.H, fidx, f
	}
	hTo := max(c.H, c.HTo)
	curH, cur := c.H, c.Index
	defer func() {
		if r := recover(); r != nil {
			fh, fidx, f = curH, cur, panicFailure(curH, cur, r)
		}
	}()
	prevH, prevIdx, prevWant := -1, int64(0), uint64(0)
	for j := int64(0); j < c.Run; j++ {
		idx := c.Index + j*step
		for h := c.H; h <= hTo; h++ {
			if idx < 0 || idx >= treeSize(h) {
				continue
			}
			curH, cur = h, idx
			prefix, l := inverse(h, idx)
			want := pathWord(prefix, l, h)
			if got := bmtree.IndexToPath(int32(h), int32(idx)); got != want {
				return h, idx, vk.Failf("index-to-path", "IndexToPath(h=%d, index=%d) = %#x, want %#x (prefix=%b len=%d)", h, idx, got, want, prefix, l)
			}
			if back := bmtree.PathToIndex(int32(treeSize(h)), want); int64(back) != idx {
				return h, idx, vk.Failf("path-to-index-full", "PathToIndex(full h=%d, %#x) = %d, want %d", h, want, back, idx)
			}
			if prevH >= 0 {
				if back := bmtree.PathToIndex(int32(treeSize(prevH)), prevWant); int64(back) != prevIdx {
					return h, idx, lagFailure(h, idx, want, prevH, prevIdx, prevWant, back)
				}
			}
			prevH, prevIdx, prevWant = h, idx, want
		}
	}
	return 0, -1, nil
}

func lagFailure(h int, idx int64, path uint64, prevH int, prevIdx int64, prevPath uint64, back int32) *vk.Failure {
	return vk.Failf("path-to-index-other-node", "after IndexToPath(h=%d, index=%d) = %#x: PathToIndex(full h=%d, %#x) = %d, want %d (the path of the node walked before)",
		h, idx, path, prevH, prevPath, back, prevIdx)
}

// walkP2I: PathToIndex alone on the nodes idx = Index + j*step, heights H..max(H,HTo) per index; no
// IndexToPath call in between (PathToIndex must not need one).
func walkP2I(c Case, step int64) (fh int, fidx int64, f *vk.Failure) {
	hTo := max(c.H, c.HTo)
	curH, cur := c.H, c.Index
	defer func() {
		if r := recover(); r != nil {
			st := string(debug.Stack())
			if len(st) > 2500 {
				st = st[:2500]
			}
			fh, fidx, f = curH, cur, vk.Failf("panic", "PathToIndex(full h=%d, path of index %d) panicked: %v\n%s", curH, cur, r, st)
		}
	}()
	for j := int64(0); j < c.Run; j++ {
		idx := c.Index + j*step
		for h := c.H; h <= hTo; h++ {
			if idx < 0 || idx >= treeSize(h) {
				continue
			}
			curH, cur = h, idx
			prefix, l := inverse(h, idx)
			want := pathWord(prefix, l, h)
			if back := bmtree.PathToIndex(int32(treeSize(h)), want); int64(back) != idx {
				return h, idx, vk.Failf("path-to-index-full", "PathToIndex(full h=%d, %#x) = %d, want %d (PathToIndex-only walk: prefix=%b len=%d)", h, want, back, idx, prefix, l)
			}
		}
	}
	return 0, -1, nil
}

// walkRun: n consecutive indexes of height h from start, paths by pre-order
// succession (no closure, no formatting on the hot path; the deferred recover
// costs one store per node).
func walkRun(h int, start, n int64) (fidx int64, f *vk.Failure) {
	size := treeSize(h)
	if start < 0 {
		n += start
		start = 0
	}
	if start+n > size {
		n = size - start
	}
	if n <= 0 {
		return -1, nil
	}
	cur := start
	defer func() {
		if r := recover(); r != nil {
			fidx, f = cur, panicFailure(h, cur, r)
		}
	}()
	prefix, l := inverse(h, start)
	hh, full := int32(h), int32(size)
	idx := start
	prevWant := uint64(0)
	for end := start + n; idx < end; idx++ {
		cur = idx
		want := pathWord(prefix, l, h)
		if got := bmtree.IndexToPath(hh, int32(idx)); got != want {
			return idx, vk.Failf("index-to-path", "IndexToPath(h=%d, index=%d) = %#x, want %#x (prefix=%b len=%d)", h, idx, got, want, prefix, l)
		}
		if back := bmtree.PathToIndex(full, want); int64(back) != idx {
			return idx, vk.Failf("path-to-index-full", "PathToIndex(full h=%d, %#x) = %d, want %d", h, want, back, idx)
		}
		if idx > start {
			if back := bmtree.PathToIndex(full, prevWant); int64(back) != idx-1 {
				return idx, lagFailure(h, idx, want, h, idx-1, prevWant, back)
			}
		}
		prevWant = want
		// pre-order successor
		if l < h {
			prefix <<= 1
			l++
			continue
		}
		for l > 0 && prefix&1 == 1 {
			prefix >>= 1
			l--
		}
		if l == 0 {
			break // that was the last node of the tree
		}
		prefix |= 1
	}
	return -1, nil
}

// nodeIndex is the forward map (path word -> pre-order index in the full tree of height h); false when the word
// is not a well-formed path of height h (mask = a run of l ones left-aligned in h bits, searching bits only
// under the mask). A node at depth l is preceded by its l ancestors and, for every right turn taken at depth k,
// by the whole left subtree hanging there, 2^(h-k)-1 nodes. The right turn at depth k is bit h-1-k of the
// searching bits, so 2^(h-k) is twice the value of that bit: index = l + 2*searching - (number of right turns).
// Well-formed words and nodes correspond one to one and distinct nodes have distinct indexes, hence
// "well-formed and nodeIndex(word) == index" says exactly "word is the path of index".
func nodeIndex(h int, w uint64) (int64, bool) {
	hi, lo := w>>32, w&0xffffffff
	l := bits.OnesCount64(lo)
	if l > h || lo != (uint64(1)<<uint(l)-1)<<uint(h-l) || hi&^lo != 0 {
		return 0, false
	}
	return int64(l) + 2*int64(hi) - int64(bits.OnesCount64(hi)), true
}

// walkStride: n indexes start, start+step, ... (step > 1) of height h. Walking a path per index from the root
// costs several times the two calls under test, so the result is judged through the forward map: it must be a
// well-formed path whose node has pre-order index idx. Every failure is confirmed (and worded) by the descent
// oracle, and every 256th node is compared with the descent oracle outright.
func walkStride(h int, start, n, step int64) (fidx int64, f *vk.Failure) {
	size := treeSize(h)
	if start < 0 || step < 1 {
		return -1, nil
	}
	cur := start
	defer func() {
		if r := recover(); r != nil {
			fidx, f = cur, panicFailure(h, cur, r)
		}
	}()
	hh, full := int32(h), int32(size)
	idx := start
	prevGot := uint64(0)
	for j := int64(0); j < n && idx < size; j, idx = j+1, idx+step {
		cur = idx
		got := bmtree.IndexToPath(hh, int32(idx))
		if ni, ok := nodeIndex(h, got); !ok || ni != idx || j&255 == 0 {
			prefix, l := inverse(h, idx)
			want := pathWord(prefix, l, h)
			if got != want {
				return idx, vk.Failf("index-to-path", "IndexToPath(h=%d, index=%d) = %#x, want %#x (prefix=%b len=%d)", h, idx, got, want, prefix, l)
			}
			if !ok || ni != idx {
				vk.Infra(fmt.Sprintf("forward map rejects %#x (h=%d idx=%d: %d,%v) but the descent oracle names that path", got, h, idx, ni, ok))
				return -1, nil
			}
		}
		if back := bmtree.PathToIndex(full, got); int64(back) != idx {
			return idx, vk.Failf("path-to-index-full", "PathToIndex(full h=%d, %#x) = %d, want %d", h, got, back, idx)
		}
		if j > 0 { // prevGot was found to be the path of idx-step in the previous round
			if back := bmtree.PathToIndex(full, prevGot); int64(back) != idx-step {
				return idx, lagFailure(h, idx, got, h, idx-step, prevGot, back)
			}
		}
		prevGot = got
	}
	return -1, nil
}

// ---------------------------------------------------------------- lattice (quick tier, heights above the enumerated ones)

// latticeOf: stride (odd, 113..127) and offset of the strided walk of height h; a pure function of (VERIF_SEED, h).
func latticeOf(h int) (stride, off int64) {
	z := vk.Mix(vk.Seed()*1000003 + uint64(h)*7919 + 0xc05)
	stride = 113 + 2*int64(z%8)
	off = int64((z >> 8) % uint64(stride))
	return
}

func onLattice(h int, idx int64) bool {
	if vk.Thorough() || h <= gridMaxH() {
		return false
	}
	s, o := latticeOf(h)
	return idx >= o && (idx-o)%s == 0
}

// ---------------------------------------------------------------- rapid

func genCase(t *rapid.T) Case {
	var h int
	if vk.Thorough() || gen.Chance(t, 1, 8, "anyh") {
		h = gen.Uniform(t, 31, "h")
	} else {
		h = gridMaxH() + 1 + gen.Uniform(t, maxHeight-gridMaxH(), "h")
	}
	n := treeSize(h)
	var idx int64
	switch gen.Uniform(t, 8, "iclass") {
	case 0:
		idx = int64(gen.Uniform(t, 3, "small"))
	case 1:
		idx = n - 1 - int64(gen.Uniform(t, 3, "fromend"))
	case 2:
		idx = int64(1)<<uint(h) - 1 + int64(gen.Uniform(t, 3, "mid"))
	case 3, 4:
		// every position of the shortcut's window (index-h, index] relative to a multiple of 2^k
		k := gen.Uniform(t, h+1, "k")
		m := int64(gen.U64(t, "mult") % uint64(n>>uint(k)+1))
		idx = m<<uint(k) - 2 + int64(gen.Uniform(t, h+4, "d"))
	default:
		idx = int64(gen.U64(t, "idx") % uint64(n))
	}
	if idx < 0 {
		idx = 0
	}
	if idx >= n {
		idx = n - 1
	}
	return Case{H: h, Index: idx}
}

func TestRegress(t *testing.T) { checker.Regress(t) }

func TestProp(t *testing.T) { checker.Prop(t, genCase) }

// ---------------------------------------------------------------- grid

type gridRun struct {
	t              *testing.T
	evals, nontriv int64 // enumerated / lattice nodes (distinct by construction)
	extra          int64 // nodes of the offset sweep and the context walks (not counted as distinct)
}

// unit walks one unit; armed units leave a pending case while they run, so that a process death
// (fatal runtime error, which no recover() sees) is attributed to the unit and replays from its file.
func (g *gridRun) unit(c Case, armed bool) {
	if armed {
		vk.ArmProbe("C05", c)
	}
	fh, fidx, f := walkUnit(c)
	if armed {
		vk.DisarmProbe()
	}
	if f == nil {
		return
	}
	// the per-case check writes the case file; first the node alone ...
	if f1 := checker.Eval(Case{H: fh, Index: fidx}); f1 != nil {
		g.t.Fatalf("VERIF-FAIL property=C05 kind=%s: %s", f1.Kind, f1.Msg)
	}
	// ... it holds in isolation: the result depended on the calls made before it; the unit up to that node as one case
	upto := c
	if c.Step == 0 || c.Step == 1 {
		upto.Run = fidx - c.Index + 1
	} else {
		upto.Run = (fidx-c.Index)/c.Step + 1
	}
	if f2 := checker.Eval(upto); f2 != nil {
		g.t.Fatalf("VERIF-FAIL property=C05 kind=%s (reproduces only after the preceding calls of its unit): %s", f2.Kind, f2.Msg)
	}
	vk.Infra(fmt.Sprintf("grid found %v at h=%d idx=%d (unit %+v) but neither the per-case check nor a second walk of the unit fails", f, fh, fidx, c))
	g.t.Fatalf("VERIF-FAIL property=C05 kind=%s: %s", f.Kind, f.Msg)
}

func selfCheckOracles(t *testing.T) {
	for h := 0; h <= maxHeight; h++ {
		for l := 0; l <= h; l++ {
			lm := uint64(1)<<uint(l) - 1
			for _, p := range []uint64{0, lm, 0x2aaaaaaa & lm, vk.Mix(uint64(h*64+l)) & lm} {
				if a, b := pathWord(p, l, h), model.PathWord(p, l, h); a != b {
					vk.Infra(fmt.Sprintf("pathWord(%b,%d,%d) = %#x disagrees with model.PathWord = %#x", p, l, h, a, b))
					t.Fatalf("harness self-check failed")
				}
			}
		}
	}
	// the successor walk and the inverse must name the same nodes
	for _, h := range []int{0, 1, 4, 7, 12} {
		full := model.NewTree(int32(treeSize(h)))
		p, l := uint64(0), 0
		for idx := int64(0); idx < treeSize(h); idx++ {
			ip, il := inverse(h, idx)
			oi, _ := full.Index(p, l)
			if ip != p || il != l || oi != idx {
				vk.Infra(fmt.Sprintf("oracles disagree at h=%d idx=%d: succ (%b,%d) inverse (%b,%d) tree index %d", h, idx, p, l, ip, il, oi))
				t.Fatalf("harness self-check failed")
			}
			if ni, ok := nodeIndex(h, pathWord(p, l, h)); !ok || ni != idx {
				vk.Infra(fmt.Sprintf("forward map gives %d,%v for the node (%b,%d) of index %d, h=%d", ni, ok, p, l, idx, h))
				t.Fatalf("harness self-check failed")
			}
			p, l, _ = model.Succ(p, l, h)
		}
	}
	// ill-formed words must be rejected by the forward map
	for _, w := range []uint64{0x0000000100000000, 0x00000000_00000005, 0x00000004_00000003, 0x00000010_0000000f, 0x80000000_00000000} {
		if _, ok := nodeIndex(3, w); ok {
			vk.Infra(fmt.Sprintf("forward map accepts the ill-formed word %#x (h=3)", w))
			t.Fatalf("harness self-check failed")
		}
	}
}

// TestGrid walks full trees completely. Work unit: (height, subtree rooted at
// depth k=min(h,8)); the nodes above depth k are done by the unit's owner 0.
func TestGrid(t *testing.T) {
	vk.SetPhase("grid")
	selfCheckOracles(t)
	shard, nshards := vk.Shard()
	maxH := gridMaxH()
	g := &gridRun{t: t}
	if shard == 0 {
		g.p2iWalks() // before the walks that call IndexToPath
	}
	if maxH < maxHeight && shard == 0 {
		// cheap and aimed at the places where the code under test changes behaviour: first
		g.offsetSweep(maxH + 1)
		g.contextWalks()
	}
	unit := 0
	for h := 0; h <= maxH; h++ {
		k := min(h, 8)
		full := model.NewTree(int32(treeSize(h)))
		// upper part: all nodes of depth < k
		unit++
		if unit%nshards == shard {
			for l := 0; l < k; l++ {
				for p := uint64(0); p < 1<<uint(l); p++ {
					idx, _ := full.Index(p, l)
					g.evals++
					if f := checkNode(h, idx, p, l); f != nil {
						if f1 := checker.Eval(Case{H: h, Index: idx}); f1 == nil {
							vk.Infra(fmt.Sprintf("grid found %v at h=%d idx=%d but the per-case check passes", f, h, idx))
						}
						t.Fatalf("VERIF-FAIL property=C05 kind=%s: %s", f.Kind, f.Msg)
					}
				}
			}
		}
		sub := treeSize(h - k) // nodes of a subtree rooted at depth k
		for root := uint64(0); root < 1<<uint(k); root++ {
			unit++
			if unit%nshards != shard {
				continue
			}
			idx, _ := full.Index(root, k)
			if p, l := inverse(h, idx); p != root || l != k {
				vk.Infra(fmt.Sprintf("inverse oracle disagrees with tree oracle at h=%d idx=%d", h, idx))
				t.Fatalf("harness self-check failed")
			}
			c := Case{H: h, Index: idx, Run: sub}
			g.unit(c, true)
			g.evals += sub
			checker.Remember(Case{H: h, Index: idx})
		}
	}
	// non-trivial = nodes of heights >= 5 in this shard
	small := int64(0)
	u := 0
	for h := 0; h <= min(maxH, 4); h++ {
		k := min(h, 8)
		u++
		if u%nshards == shard {
			small += int64(1)<<uint(k) - 1
		}
		for root := uint64(0); root < 1<<uint(k); root++ {
			u++
			if u%nshards == shard {
				small += int64(1)<<uint(h-k+1) - 1
			}
		}
	}
	g.nontriv = g.evals - small
	vk.CountConstructed(g.evals, g.nontriv, "enumerated-node")
	vk.AddSample(map[string]any{"enumeration": fmt.Sprintf("heights 0..%d, shard %d of %d", maxH, shard, nshards), "nodes_checked_by_this_shard": g.evals,
		"example_node": map[string]any{"h": 6, "index": 40, "path": fmt.Sprintf("%#x", bmtree.IndexToPath(6, 40))}})
	vk.MarkExhaustive(fmt.Sprintf("every (h,index) for h in 0..%d", maxH))
	if maxH == maxHeight {
		vk.SetExtra("complete_domain_pairs", int64(1)<<32-33)
	}
	if maxH < maxHeight && shard == 0 {
		g.lattice(maxH + 1)
	}
}

// lattice: heights fromH..30, index = off + j*stride over the whole index range, in units of 2^16 samples.
func (g *gridRun) lattice(fromH int) {
	const chunk = int64(1) << 16
	total := int64(0)
	desc := map[string]any{}
	for h := fromH; h <= maxHeight; h++ {
		stride, off := latticeOf(h)
		size := treeSize(h)
		count := (size - off + stride - 1) / stride
		for j := int64(0); j < count; j += chunk {
			g.unit(Case{H: h, Index: off + j*stride, Run: min(chunk, count-j), Step: stride}, true)
		}
		total += count
		desc[fmt.Sprintf("h=%d", h)] = fmt.Sprintf("index = %d + j*%d, %d nodes", off, stride, count)
	}
	vk.CountConstructed(total, total, "strided-node h:24-30")
	vk.SetExtra("strided_lattice", desc)
}

// multipliers of 2^k for the offset sweep of height h: all of them when there are few, else
// 1,2,3, the two largest and pseudo-random ones (every second one odd), distinct.
func multipliers(h, k int, want int) []int64 {
	top := (treeSize(h) - 1) >> uint(k) // the largest m with m*2^k inside the tree
	if top < int64(want) {
		ms := make([]int64, 0, top)
		for m := int64(1); m <= top; m++ {
			ms = append(ms, m)
		}
		return ms
	}
	seen := map[int64]bool{}
	ms := make([]int64, 0, want)
	add := func(m int64) {
		if m >= 1 && m <= top && !seen[m] {
			seen[m] = true
			ms = append(ms, m)
		}
	}
	for _, m := range []int64{1, 2, 3, top, top - 1} {
		add(m)
	}
	z := vk.Seed()*0x9e3779b97f4a7c15 + uint64(h)<<8 + uint64(k)
	for j := 0; len(ms) < want && j < 8*want; j++ {
		z = vk.Mix(z + uint64(j))
		m := int64(z % uint64(top+1))
		if j&1 == 1 {
			m |= 1
		}
		add(m)
	}
	return ms
}

// offsetSweep: for every height fromH..30, every k and the multipliers above, the h+4 consecutive
// indexes m*2^k-2 .. m*2^k+h+1. The common-prefix shortcut of the code under test compares index-h
// with index: these runs put the multiple of 2^k at every position of that window and just outside.
// Heights are interleaved (k outer, m slot, height inner).
func (g *gridRun) offsetSweep(fromH int) {
	const perK = 64
	var ms [maxHeight + 1][]int64
	n := int64(0)
	for k := 0; k <= maxHeight; k++ {
		for h := fromH; h <= maxHeight; h++ {
			ms[h] = nil
			if k <= h {
				ms[h] = multipliers(h, k, perK)
			}
		}
		for slot := 0; slot < perK; slot++ {
			for h := fromH; h <= maxHeight; h++ {
				if slot >= len(ms[h]) {
					continue
				}
				start, end := ms[h][slot]<<uint(k)-2, ms[h][slot]<<uint(k)+int64(h)+2
				start, end = max(start, 0), min(end, treeSize(h))
				run := end - start
				g.unit(Case{H: h, Index: start, Run: run}, false)
				n += run
			}
		}
	}
	g.extra += n
	vk.CountConstructed(n, 0, "offset-sweep-node h:24-30")
}

// p2iWalks: PathToIndex ALONE (units of mode "p2i"; no IndexToPath call between its calls) on every height
// 0..30: the first and the last 2048 nodes ascending, 2048 nodes around the root's right child descending,
// 2048 nodes spread over the whole index range (odd stride), and the first 2048 indexes in step across all
// heights. Evaluated, not counted as distinct.
func (g *gridRun) p2iWalks() {
	n := int64(0)
	const span = 2048
	g.unit(Case{H: 0, HTo: maxHeight, Index: 0, Run: span, Mode: modeP2I}, false)
	for h := 0; h <= maxHeight; h++ {
		size := treeSize(h)
		r := min(span, size)
		n += r
		g.unit(Case{H: h, Index: 0, Run: r, Mode: modeP2I}, false)
		g.unit(Case{H: h, Index: size - r, Run: r, Mode: modeP2I}, false)
		g.unit(Case{H: h, Index: min(size-1, int64(1)<<uint(h)+span/2), Run: r, Step: -1, Mode: modeP2I}, false)
		stride := (size/span)&^1 + 1 // odd; 1 for the trees smaller than 2*span
		g.unit(Case{H: h, Index: int64(vk.Mix(vk.Seed()*31+uint64(h)+0x5c05) % uint64(stride)), Run: r, Step: stride, Mode: modeP2I}, false)
		n += 4 * r
	}
	g.extra += n
	vk.CountConstructed(n, 0, "path-to-index-only-walk-node h:0-30")
}

// contextWalks: the same functions called in orders the enumeration never uses (a result must not
// depend on the calls made before): all heights 5..30 in step index by index from 0, and descending
// index order at the low and the high end of every height.
func (g *gridRun) contextWalks() {
	n := int64(0)
	const span = 2048
	g.unit(Case{H: 5, HTo: maxHeight, Index: 0, Run: span}, false)
	for h := 5; h <= maxHeight; h++ {
		n += min(span, treeSize(h))
	}
	for h := 5; h <= maxHeight; h++ {
		size := treeSize(h)
		r := min(span, size)
		g.unit(Case{H: h, Index: r - 1, Run: r, Step: -1}, false)
		g.unit(Case{H: h, Index: size - 1, Run: r, Step: -1}, false)
		// around the root's right child (index 2^h), descending
		g.unit(Case{H: h, Index: min(size-1, int64(1)<<uint(h)+span/2), Run: r, Step: -1}, false)
		n += 3 * r
	}
	g.extra += n
	vk.CountConstructed(n, 0, "context-walk-node h:5-30")
}

// Package c07 decides property C07: pbcmpl reports truncation, write failure
// and corrupt headers as errors, never a crash (fault enumeration).
package c07

import (
	"bytes"
	"encoding/binary"
	"errors"
	"fmt"
	"io"
	"sort"
	"testing"

	proto "github.com/golang/protobuf/proto"
	oerrors "github.com/openacid/errors"
	"github.com/openacid/low/pbcmpl"
	"pgregory.net/rapid"

	"verif/harness/gen"
	"verif/harness/pbm"
	"verif/harness/vk"
)

func TestMain(m *testing.M) { vk.Main(m, "C07") }

type Case struct {
	Op string `json:"op"` // frame | hdr | bytes
	// frame: every cut point, every writer fault point, every reader error point of one valid frame
	Frame    *pbm.FrameJ `json:"frame,omitempty"`
	PointKey vk.U64      `json:"point_key,omitempty"` // keyed sample of points for frames longer than allPointsUpTo
	AllCuts  bool        `json:"all_cuts,omitempty"`  // every cut point (whole reader) although the frame is longer than allPointsUpTo
	// Thin (frames of 1025..4096 bytes drawn by the generator): all cut points through the whole reader and all failure
	// points of the plain writer; the 1-byte reader, the standard-library readers, the other writer flavours and the
	// reader errors at every 4th point (offset by the key), around the header, the end and the multiples of 512
	Thin bool `json:"thin,omitempty"`
	// hdr: a 32-byte header built from fields + the bytes that follow it
	Ver        vk.Hex `json:"ver,omitempty"`
	HeaderSize vk.U64 `json:"header_size,omitempty"`
	BodySize   vk.U64 `json:"body_size,omitempty"`
	Tail       vk.Hex `json:"tail,omitempty"`
	TailLen    int    `json:"tail_len,omitempty"` // further TailLen bytes expanded from TailKey follow Tail (long streams, compact on disk)
	TailKey    vk.U64 `json:"tail_key,omitempty"`
	// bytes: arbitrary input
	Input  vk.Hex `json:"input,omitempty"`
	Target string `json:"target,omitempty"` // raw | bytes: the message kind unmarshalled into
	Mode   string `json:"mode,omitempty"`   // reader chunking for hdr/bytes: whole | one
	Class  string `json:"class,omitempty"`
}

const allPointsUpTo = 4096

var checker = &vk.Checker[Case]{
	ID: "C07",
	Rule: "frames from C06's generator (all message kinds, versions, payload lengths <= 300) and frames whose length has a log-uniform magnitude or is a multiple of a round piece size (512, 1000, 1460, 4096, 10000, 12288 ... 10^6) -+ the header, up to 4096 bytes with all points and up to 128 KiB (2 MiB thorough) with sampled points: for EVERY cut point 0<=k<L (all k when L<=4096, else {0,1,31,32,33,L-1}, 96 keyed points (256 for multi-MiB frames) and every multiple j*q, j<=16 (j<=8 for multi-MiB frames), of every power of two q>=512 and of q=1000,10^4,10^5,10^6, counted from the frame and from the body start, +-1; the grid holds frames of 40 KB, 100 KB, 1 MiB and 3 MiB and one frame of 24 KB (64 KB thorough) with ALL its cut points) x reader {whole, 1-byte (chunked for frames above 16 KiB), and (frames up to 4096 bytes) bufio.Reader, bytes.Reader, bytes.Buffer, strings.Reader, io.LimitReader, iotest.DataErrReader, iotest.HalfReader}: Unmarshal never succeeds, n == k == bytes handed out, cause io.EOF for k=0, io.ErrUnexpectedEOF otherwise (either for k=32), ReadHeader fails for k<32 (its count is not asserted); " +
		"for EVERY writer failure point k<L x writer flavour {the call crossing k bytes returns a short count with an injected error | the call ENDING at k bytes returns its full count with the error (also k=L)} x {broken for good | transient: later Writes are accepted and land in the sink}: Marshal returns (k, that error) and the sink holds exactly the first k bytes (nothing handed over after the failure); for EVERY reader error point k<=L (sticky non-EOF error delivered with or after the last good byte, five chunkings): no success, no clean io.EOF and 0 <= n <= k when k<L, success at k=L; " +
		"generated frames of 1025..4096 bytes in the quick tier: all cuts (whole reader) and all plain writer failures, the secondary readers/writers/reader errors at every 4th point + header, end, multiples of 512. " +
		"corrupt headers: header-size field any uint64 != 32 -> ErrInvalidHeaderSize, n == 32, exactly 32 bytes consumed, version reported; body-size field in {fits, remaining+1, 2^31, 2^32, 2^36, 2^40, 2^47, 2^48, 2^62, 2^63, 2^64-1, random} over streams of 0..40 bytes and (1 in 8) of log-uniform length up to 128 KiB -> returns normally (no panic, no process death: the case is on disk while it runs), 0<=n<=len, n == consumed, success only when a complete frame is present; arbitrary bytes into Unmarshal likewise; ReadHeader on them returns normally, fails on fewer than 32 bytes and reports the three fields of a complete frame. " +
		"Non-trivial: a frame with a body (points strictly inside the body exist), a corrupted size field, or arbitrary input >= 32 bytes. Distinct by hash of the case; coverage.fault_points counts the enumerated (frame, point) pairs.",
	Check:    check,
	Classify: classify,
	Risky:    func(Case) bool { return true },
}

func cause(err error) error {
	if err == nil {
		return nil
	}
	return oerrors.Cause(err)
}

func isCause(err, want error) bool {
	return err != nil && (cause(err) == want || errors.Is(err, want))
}

func points(L int, key uint64, inclusiveEnd bool, minK uint) []int {
	end := L
	if inclusiveEnd {
		end = L + 1
	}
	if L <= allPointsUpTo {
		ps := make([]int, end)
		for i := range ps {
			ps[i] = i
		}
		return ps
	}
	ps := []int{0, 1, 31, 32, 33, L - 1}
	if inclusiveEnd {
		ps = append(ps, L)
	}
	keyed := 256
	if L <= 2<<20 {
		keyed = 96 // (those frames also get the dense family below)
	}
	for i := 0; i < keyed; i++ {
		ps = append(ps, int(vk.Mix(key+uint64(i))%uint64(end)))
	}
	// positions where an implementation that moves the body in pieces would switch pieces: multiples j*q of
	// every piece size q that is a power of two from 2^minK up or (frames up to 2 MiB) a power of ten from 1000
	// up - so also 3*2^k, 5*2^k, 10000, 12288, 48 KiB, 100000, 10^6 ... - counted from the start of the frame
	// and from the start of the body, each with its two neighbours. j <= 8 for multi-MiB frames, else j <= 16.
	maxJ := 16
	if L > 2<<20 {
		maxJ = 8
	}
	add := func(q int) {
		for j := 1; j <= maxJ; j++ {
			for _, base := range []int{0, 32} {
				for d := -1; d <= 1; d++ {
					if p := base + j*q + d; p > 0 && p < end {
						ps = append(ps, p)
					}
				}
			}
		}
	}
	for k := minK; k < 31; k++ {
		add(1 << k)
	}
	if L <= 2<<20 {
		for q := 1000; q < end; q *= 10 {
			if q >= 1<<minK {
				add(q)
			}
		}
	}
	sort.Ints(ps)
	out := ps[:0]
	for i, p := range ps {
		if i == 0 || p != ps[i-1] {
			out = append(out, p)
		}
	}
	return out
}

// writer flavours for the failure points (pbm.FaultWriter)
var writerFlavours = []struct{ full, once bool }{{false, false}, {false, true}, {true, true}, {true, false}}

// readerChunkings for the injected read errors: picked per (frame, point)
var readerChunkings = [][]int{{5, 32, 1, 100}, {4096, 1}, {33, 7}, {31, 1, 1}, {1 << 20}, {5, 32, 1, 100}}

func checkFrame(c Case) *vk.Failure {
	f := c.Frame.PB()
	F := f.Wire()
	L := len(F)
	thinned := func(k int) bool { // a point left out for the secondary reader / writer kinds of a Thin frame
		return c.Thin && L > 1024 && L <= allPointsUpTo && k > 40 && k < L-3 && (k+int(c.PointKey%4))%4 != 0 && (k+1)%512 > 2 && (k-31)%512 > 2
	}
	desc := fmt.Sprintf("frame(%s, %d payload bytes, ver %q, L=%d)", f.Kind, len(f.Payload), f.WantVersion(), L)
	nPoints := int64(0)
	bigK := uint(9)
	if L > 1<<20 {
		bigK = 18 // writer/reader fault points of multi-MiB frames: only the coarse piece boundaries
	}

	// (a) every cut point
	modes := []string{"whole", "one"}
	if L > 1<<14 {
		modes = []string{"whole", "sizes"} // 1-byte reads over many KB / megabytes only cost time
	}
	for _, mode := range modes {
		cuts := points(L, uint64(c.PointKey), false, 9)
		if c.AllCuts && mode == "whole" {
			cuts = make([]int, L)
			for i := range cuts {
				cuts[i] = i
			}
		}
		for _, k := range cuts {
			if mode != "whole" && thinned(k) {
				continue
			}
			nPoints++
			r := pbm.NewChunkReader(F[:k], mode, []int{4096, 7, 65536, 1 << 20})
			var n int64
			var err error
			if fl := vk.TryF(func() string { return fmt.Sprintf("%s cut at %d (%s reader): Unmarshal", desc, k, mode) }, func() { n, _, err = pbcmpl.Unmarshal(r, f.Fresh()) }); fl != nil {
				return fl
			}
			if err == nil {
				return vk.Failf("cut-success", "%s cut at %d (%s reader): Unmarshal reported success", desc, k, mode)
			}
			if n != int64(k) || r.Consumed != k {
				return vk.Failf("cut-count", "%s cut at %d (%s reader): Unmarshal returned n=%d, reader handed out %d bytes", desc, k, mode, n, r.Consumed)
			}
			okEOF, okUnexp := isCause(err, io.EOF), isCause(err, io.ErrUnexpectedEOF)
			switch {
			case k == 0 && !okEOF:
				return vk.Failf("cut-cause", "%s cut at 0: error %v, want cause io.EOF", desc, err)
			case k == 32 && !okEOF && !okUnexp:
				return vk.Failf("cut-cause", "%s cut at 32: error %v, want io.EOF or io.ErrUnexpectedEOF", desc, err)
			case k != 0 && k != 32 && !okUnexp:
				return vk.Failf("cut-cause", "%s cut at %d (%s reader): error %v (cause %v), want cause io.ErrUnexpectedEOF", desc, k, mode, err, cause(err))
			}
			if k < 32 {
				r2 := pbm.NewChunkReader(F[:k], mode, nil)
				var hn int64
				var h pbcmpl.Header
				if fl := vk.TryF(func() string { return fmt.Sprintf("%s cut at %d: ReadHeader", desc, k) }, func() { hn, h, err = pbcmpl.ReadHeader(r2) }); fl != nil {
					return fl
				}
				if err == nil {
					return vk.Failf("cut-readheader", "%s cut at %d: ReadHeader succeeded on %d bytes: (%d, %v, %v), consumed %d", desc, k, k, hn, h, err, r2.Consumed)
				}
				// (the statement fixes the count and the error class for Unmarshal only; for ReadHeader: no panic, no
				// success without a complete header)
			}
		}
	}

	// (a') the same cuts through standard-library reader types (implementations sometimes special-case
	// them): only the error class and "never success" can be asserted, buffered readers read ahead
	if L <= allPointsUpTo {
		for _, kind := range pbm.StdReaders {
			for _, k := range points(L, uint64(c.PointKey)+3, false, 9) {
				if L > 600 && k%7 != 0 && k > 40 && k < L-3 {
					continue // long frames: every 7th point is enough for the 8 reader types
				}
				if c.Thin && L > 1024 && k > 40 && k < L-3 && k%28 != 0 {
					continue
				}
				nPoints++
				r := pbm.WrapReader(kind, F[:k])
				var n int64
				var err error
				if fl := vk.TryF(func() string { return fmt.Sprintf("%s cut at %d (%s): Unmarshal", desc, k, kind) }, func() { n, _, err = pbcmpl.Unmarshal(r, f.Fresh()) }); fl != nil {
					return fl
				}
				if err == nil {
					return vk.Failf("cut-success", "%s cut at %d (%s): Unmarshal reported success", desc, k, kind)
				}
				if n != int64(k) {
					return vk.Failf("cut-count", "%s cut at %d (%s): Unmarshal returned n=%d", desc, k, kind, n)
				}
				okEOF, okUnexp := isCause(err, io.EOF), isCause(err, io.ErrUnexpectedEOF)
				if (k == 0 && !okEOF) || (k == 32 && !okEOF && !okUnexp) || (k != 0 && k != 32 && !okUnexp) {
					return vk.Failf("cut-cause", "%s cut at %d (%s): error %v (cause %v)", desc, k, kind, err, cause(err))
				}
			}
		}
	}

	// (b) every writer failure point, for every way a writer may fail after k bytes (pbm.FaultWriter): partial
	// write or full count together with the error (that one also at k = L), broken for good or transient - in
	// which case anything Marshal still hands over after the failure lands in the sink
	var bigMsg proto.Message
	message := func() proto.Message {
		if L <= allPointsUpTo {
			return f.Message() // a new message per call
		}
		if bigMsg == nil { // long frames: hundreds of copies of megabytes only cost time
			bigMsg = f.Message()
		}
		return bigMsg
	}
	for fi, fl := range writerFlavours {
		nFl := int64(0)
		for pi, k := range points(L, uint64(c.PointKey)+7, fl.full, bigK) {
			if fi > 0 && L > allPointsUpTo && k > 33 && k < L-1 && pi%3 != fi-1 {
				continue // sampled frames: the other flavours share the points among them
			}
			if fi > 0 && L > 1024 && L <= allPointsUpTo && k > 40 && k < L-3 && (k+fi)%4 != 0 && (k+1)%512 > 2 && (k-31)%512 > 2 {
				continue // longer frames: the other flavours at every 4th point, around the header and the multiples of 512
			}
			nPoints++
			nFl++
			w := &pbm.FaultWriter{Limit: k, Full: fl.full, Once: fl.once}
			var n int64
			var err error
			if fl := vk.TryF(func() string {
				return fmt.Sprintf("%s writer (%s) failing after %d bytes: Marshal", desc, w.Flavour(), k)
			}, func() { n, err = pbcmpl.Marshal(w, message()) }); fl != nil {
				return fl
			}
			if err == nil || !isCause(err, pbm.ErrInjected) {
				return vk.Failf("wfail-error", "%s writer (%s) failing after %d bytes: Marshal returned error %v, want the writer's error", desc, w.Flavour(), k, err)
			}
			if n != int64(k) {
				return vk.Failf("wfail-count", "%s writer (%s) failing after %d bytes: Marshal returned n=%d", desc, w.Flavour(), k, n)
			}
			if !bytes.Equal(w.Buf, F[:k]) {
				return vk.Failf("wfail-bytes", "%s writer (%s) failing after %d bytes: sink holds %d bytes that are not the first %d bytes of the frame (%d Write calls with %d bytes followed the failing one)", desc, w.Flavour(), k, len(w.Buf), k, w.CallsAfter, w.BytesAfter)
			}
		}
		vk.Label("writer:"+(&pbm.FaultWriter{Full: fl.full, Once: fl.once}).Flavour(), nFl)
	}

	// (c) every reader error point
	for _, with := range []bool{true, false} {
		for _, k := range points(L, uint64(c.PointKey)+13, true, bigK) {
			if thinned(k) {
				continue
			}
			nPoints++
			chunks := readerChunkings[0]
			if L <= 1<<17 {
				chunks = readerChunkings[(uint64(c.PointKey)+uint64(k))%uint64(len(readerChunkings))]
			}
			r := pbm.NewChunkReader(F, "sizes", chunks)
			r.ErrAt, r.ErrWith, r.Err = k, with, pbm.ErrInjected
			msg := f.Fresh()
			var n int64
			var err error
			if fl := vk.TryF(func() string {
				return fmt.Sprintf("%s reader error at %d (with last byte=%v): Unmarshal", desc, k, with)
			}, func() { n, _, err = pbcmpl.Unmarshal(r, msg) }); fl != nil {
				return fl
			}
			if k >= L {
				if k == L && with && err != nil && n == int64(L) {
					// the reader's error arrived TOGETHER with the last byte of the frame: the statement does not say
					// whether a complete frame wins over the error (io.ReadFull drops it, io.ReadAll reports it)
					continue
				}
				if err != nil || n != int64(L) {
					return vk.Failf("rerr-after-frame", "%s reader error at/after the end (%d): Unmarshal returned (n=%d, %v), want success", desc, k, n, err)
				}
				if ok, s := f.SameContent(msg); !ok {
					return vk.Failf("rerr-after-frame", "%s: content %s", desc, s)
				}
				continue
			}
			if err == nil { // (which error is returned for a failing reader is not part of the statement: any non-nil error ...)
				return vk.Failf("rerr-error", "%s reader error at %d (with=%v): Unmarshal reported success although the reader failed inside the frame", desc, k, with)
			}
			if isCause(err, io.EOF) && !isCause(err, pbm.ErrInjected) {
				// ... except a clean io.EOF: that is the statement's signal for "the stream ended properly, stop reading"
				return vk.Failf("rerr-error", "%s reader failing with %v at %d (with=%v): Unmarshal reported a clean end of stream (%v)", desc, pbm.ErrInjected, k, with, err)
			}
			// the count is stated for truncation (io.EOF) only; for another reader error: a count of bytes read can
			// not exceed what the reader handed out before it failed
			if n < 0 || n > int64(k) {
				return vk.Failf("rerr-count", "%s reader error at %d (with=%v): Unmarshal returned n=%d, the reader handed out %d bytes", desc, k, with, n, k)
			}
		}
	}
	addPoints(nPoints)
	return nil
}

var faultPoints int64

func addPoints(n int64) {
	faultPoints += n
	vk.SetExtra("fault_points", faultPoints)
}

// completeFrame reports whether input starts with a complete frame and its length.
func completeFrame(input []byte) (bool, int) {
	if len(input) < 32 {
		return false, 0
	}
	hs := binary.LittleEndian.Uint64(input[16:24])
	bs := binary.LittleEndian.Uint64(input[24:32])
	if hs != 32 || bs > uint64(len(input)-32) {
		return false, 0
	}
	return true, 32 + int(bs)
}

func wantVer(input []byte) string {
	v := input[:16]
	for len(v) > 0 && v[len(v)-1] == 0 {
		v = v[:len(v)-1]
	}
	return string(v)
}

func checkBytes(input []byte, target, mode string) *vk.Failure {
	desc := func() string {
		return fmt.Sprintf("input of %d bytes %x (target %s, %s reader)", len(input), input[:min(len(input), 48)], target, mode)
	}
	fr := pbm.Frame{Kind: target}
	msg := fr.Fresh()
	r := pbm.NewChunkReader(input, mode, nil)
	var n int64
	var ver string
	var err error
	if fl := vk.TryF(func() string { return "Unmarshal on " + desc() }, func() { n, ver, err = pbcmpl.Unmarshal(r, msg) }); fl != nil {
		return fl
	}
	if n < 0 || n > int64(len(input)) {
		return vk.Failf("count-range", "Unmarshal on %s returned n=%d", desc(), n)
	}
	if n != int64(r.Consumed) {
		return vk.Failf("count-consumed", "Unmarshal on %s returned n=%d but consumed %d bytes", desc(), n, r.Consumed)
	}
	complete, flen := completeFrame(input)
	if err == nil {
		if !complete {
			return vk.Failf("success-without-frame", "Unmarshal on %s succeeded although no complete frame is present", desc())
		}
		if n != int64(flen) {
			return vk.Failf("success-count", "Unmarshal on %s succeeded with n=%d, the frame has %d bytes", desc(), n, flen)
		}
		if ver != wantVer(input) {
			return vk.Failf("success-version", "Unmarshal on %s reported version %q, want %q", desc(), ver, wantVer(input))
		}
		if target == "raw" {
			if raw, ok := msg.(*pbm.Raw); !ok || !bytes.Equal(raw.B, input[32:flen]) {
				return vk.Failf("success-content", "Unmarshal on %s decoded a different body", desc())
			}
		}
	} else {
		if complete && target == "raw" {
			return vk.Failf("complete-frame-rejected", "Unmarshal on %s failed with %v although a complete frame with a body every byte string is valid for is present", desc(), err)
		}
		if len(input) >= 32 && binary.LittleEndian.Uint64(input[16:24]) != 32 {
			if !isCause(err, pbcmpl.ErrInvalidHeaderSize) {
				return vk.Failf("header-size-error", "Unmarshal on %s: error %v, want ErrInvalidHeaderSize", desc(), err)
			}
			if n != 32 || r.Consumed != 32 {
				return vk.Failf("header-size-count", "Unmarshal on %s: n=%d consumed=%d, want exactly 32", desc(), n, r.Consumed)
			}
			// (what accompanies the error - e.g. the version - is not part of the statement)
		}
		if len(input) == 0 && !isCause(err, io.EOF) {
			return vk.Failf("empty-input-cause", "Unmarshal on empty input: error %v, want cause io.EOF", err)
		}
	}
	// ReadHeader
	r2 := pbm.NewChunkReader(input, mode, nil)
	var hn int64
	var h pbcmpl.Header
	if fl := vk.TryF(func() string { return "ReadHeader on " + desc() }, func() { hn, h, err = pbcmpl.ReadHeader(r2) }); fl != nil {
		return fl
	}
	_ = hn // (the count ReadHeader returns is not part of the statement)
	// ReadHeader must fail without 32 bytes and must succeed on a complete frame; in between (32 bytes of
	// anything) the statement leaves it open - an implementation may validate the fields
	if len(input) < 32 && err == nil {
		return vk.Failf("readheader-result", "ReadHeader on %s succeeded without a complete header", desc())
	}
	if complete && err != nil {
		return vk.Failf("readheader-result", "ReadHeader on %s (a complete frame) returned error %v", desc(), err)
	}
	if err == nil && complete { // the fields are promised for frames only
		var gv string
		var ghs, gbs int64
		if fl := vk.TryF(func() string { return "Header getters on " + desc() }, func() { gv, ghs, gbs = h.GetVersion(), h.GetHeaderSize(), h.GetBodySize() }); fl != nil {
			return fl
		}
		if gv != wantVer(input) || uint64(ghs) != binary.LittleEndian.Uint64(input[16:24]) || uint64(gbs) != binary.LittleEndian.Uint64(input[24:32]) {
			return vk.Failf("readheader-fields", "ReadHeader on %s reports %q/%d/%d", desc(), gv, ghs, gbs)
		}
	}
	return nil
}

func (c Case) input() []byte {
	if c.Op == "hdr" {
		in := append(pbm.Header(string(c.Ver), uint64(c.HeaderSize), uint64(c.BodySize)), c.Tail...)
		if c.TailLen > 0 {
			in = append(in, pbm.Fill("raw", c.TailLen, uint64(c.TailKey))...)
		}
		return in
	}
	return c.Input
}

func check(c Case) *vk.Failure {
	switch c.Op {
	case "frame":
		return checkFrame(c)
	}
	return checkBytes(c.input(), c.Target, c.Mode)
}

func classify(c Case) (bool, []string) {
	labels := []string{"op:" + c.Op}
	if c.Class != "" {
		labels = append(labels, "class:"+c.Class)
	}
	switch c.Op {
	case "frame":
		f := c.Frame.PB()
		labels = append(labels, "kind:"+f.Kind)
		bl := len(f.Body())
		if bl+32 > allPointsUpTo {
			labels = append(labels, "points:sampled")
			if c.AllCuts {
				labels = append(labels, "points:all-cuts(whole reader)")
			}
			switch {
			case bl+32 <= 1<<14:
				labels = append(labels, "frame:4KiB-16KiB")
			case bl+32 <= 1<<17:
				labels = append(labels, "frame:16KiB-128KiB")
			case bl+32 <= 1<<20:
				labels = append(labels, "frame:128KiB-1MiB")
			default:
				labels = append(labels, "frame:>1MiB")
			}
		} else {
			labels = append(labels, "points:all")
			if c.Thin && bl+32 > 1024 {
				labels = append(labels, "points:all(secondary readers/writers thinned)")
			}
			if bl+32 > 512 {
				labels = append(labels, "frame:512-4096")
			}
		}
		return bl >= 2, labels
	case "hdr":
		if c.HeaderSize != 32 {
			labels = append(labels, "header-size!=32")
		}
		if c.TailLen > 0 {
			labels = append(labels, "tail:long")
		}
		switch {
		case uint64(c.BodySize) <= uint64(len(c.Tail)+c.TailLen):
			labels = append(labels, "body-size:fits")
		case uint64(c.BodySize) >= 1<<63:
			labels = append(labels, "body-size:>=2^63")
		case uint64(c.BodySize) >= 1<<31:
			labels = append(labels, "body-size:2^31..2^63")
		default:
			labels = append(labels, "body-size:beyond-stream")
		}
		return c.HeaderSize != 32 || uint64(c.BodySize) > uint64(len(c.Tail)+c.TailLen), labels
	}
	return len(c.Input) >= 32, labels
}

// ---------------------------------------------------------------- generators

var sizeClasses = []uint64{0, 1, 31, 32, 33, 1 << 31, 1<<31 - 1, 1 << 32, 1 << 36, 1 << 40, 1 << 47, 1 << 48, 1 << 62, 1<<62 + 1, 1 << 63, 1<<63 - 1, 1<<63 + 1, ^uint64(0), ^uint64(0) - 31}

func genSize(t *rapid.T, label string) uint64 {
	if gen.Chance(t, 3, 4, label+".class") {
		return sizeClasses[gen.Uniform(t, len(sizeClasses), label+".pick")]
	}
	return gen.U64(t, label) >> uint(gen.Uniform(t, 64, label+".shift"))
}

func genHdr(t *rapid.T) Case {
	c := Case{Op: "hdr", Target: []string{"raw", "bytes"}[gen.Uniform(t, 2, "target")], Mode: []string{"whole", "one"}[gen.Uniform(t, 2, "mode")]}
	c.Ver = gen.Bytes(t, 0, 16, "ver")
	c.Tail = gen.Bytes(t, 0, 40, "tail")
	if gen.Chance(t, 1, 8, "longtail") { // streams of every magnitude up to 128 KiB behind the header (1 MiB thorough)
		c.TailLen, c.TailKey = pbm.GenLogLen(t, vk.Pick(1<<17, 1<<20), "taillen"), vk.U64(gen.U64(t, "tailkey"))
		if gen.Chance(t, 1, 3, "roundtail") {
			c.TailLen = max(pbm.GenRoundLen(t, vk.Pick(1<<17, 1<<20), "taillen.r")-len(c.Tail), 0)
		}
	}
	tl := len(c.Tail) + c.TailLen
	c.HeaderSize = 32
	switch gen.Uniform(t, 4, "which") {
	case 0: // corrupt header size only
		c.Class = "header-size"
		c.HeaderSize = vk.U64(genSize(t, "hs"))
		c.BodySize = vk.U64(tl)
	case 1, 2: // corrupt body size
		c.Class = "body-size"
		switch gen.Uniform(t, 4, "bclass") {
		case 0:
			c.BodySize = vk.U64(gen.Uniform(t, tl+1, "fits"))
			if gen.Chance(t, 1, 2, "fits.near") {
				c.BodySize = vk.U64(max(tl-gen.Uniform(t, 3, "fits.d"), 0)) // the whole stream or a byte or two less
			}
		case 1:
			c.BodySize = vk.U64(tl + 1)
		default:
			c.BodySize = vk.U64(genSize(t, "bs"))
		}
	default:
		c.Class = "both"
		c.HeaderSize = vk.U64(genSize(t, "hs"))
		c.BodySize = vk.U64(genSize(t, "bs"))
	}
	return c
}

func genBytes(t *rapid.T) Case {
	c := Case{Op: "bytes", Target: []string{"raw", "bytes"}[gen.Uniform(t, 2, "target")], Mode: []string{"whole", "one"}[gen.Uniform(t, 2, "mode")]}
	switch gen.Uniform(t, 4, "iclass") {
	case 0:
		c.Class = "short"
		c.Input = gen.Bytes(t, 0, 40, "in")
	case 1: // a valid frame with one byte damaged
		c.Class = "damaged-frame"
		f := pbm.GenFrame(t, 200).PB()
		if gen.Chance(t, 1, 8, "long") {
			f = pbm.GenLongFrame(t, vk.Pick(20000, 1<<18)).PB()
		}
		w := f.Wire()
		k := gen.Uniform(t, len(w), "pos")
		if len(w) > 300 && gen.Chance(t, 1, 2, "inheader") {
			k = gen.Uniform(t, 32, "hpos")
		}
		w[k] ^= byte(1 << uint(gen.Uniform(t, 8, "bit")))
		c.Input = w
	case 2: // a valid frame plus trailing bytes
		c.Class = "frame+trailer"
		f := pbm.GenFrame(t, 200).PB()
		if gen.Chance(t, 1, 8, "long") {
			f = pbm.GenLongFrame(t, vk.Pick(20000, 1<<18)).PB()
		}
		c.Input = append(f.Wire(), gen.Bytes(t, 0, 10, "trailer")...)
	default:
		c.Class = "random"
		c.Input = gen.Bytes(t, 32, 120, "in")
	}
	return c
}

func genCase(t *rapid.T) Case {
	switch gen.Uniform(t, 20, "op") {
	case 0: // a frame with all its fault points is ~1000x the work of the others
		f := pbm.GenFrame(t, vk.Pick(300, 65536))
		switch gen.Uniform(t, 8, "flen") {
		case 0, 1: // every magnitude up to the longest frame that gets all its points
			f = pbm.GenLongFrame(t, allPointsUpTo-32)
		case 2: // every magnitude beyond (sampled points: keyed ones and the multiples of round piece sizes)
			f = pbm.GenLongFrame(t, vk.Pick(1<<17, 1<<21))
		}
		c := Case{Op: "frame", Frame: &f, PointKey: vk.U64(gen.U64(t, "pointkey"))}
		if n := max(len(f.Payload), f.FillLen); n+32 > 1024 && n+32+8 <= allPointsUpTo {
			c.Thin = !vk.Thorough()
		}
		return c
	case 1, 2, 3, 4, 5, 6, 7, 8, 9, 10, 11:
		return genHdr(t)
	}
	return genBytes(t)
}

func TestRegress(t *testing.T) { checker.Regress(t) }

func TestProp(t *testing.T) { checker.Prop(t, genCase) }

// FuzzBytes: structured byte-level target. data[0] picks how the header is
// formed (raw bytes, or version + size fields taken from the hostile classes).
func FuzzProp(f *testing.F) {
	vk.SetPhase("fuzz")
	valid := pbm.Frame{Kind: "raw", Payload: []byte("hello")}.Wire()
	f.Add(append([]byte{0}, valid...))
	f.Add(append([]byte{1, 0}, valid...))
	for i, s := range sizeClasses {
		h := pbm.Header("1.0.0", 32, s)
		f.Add(append([]byte{0}, h...))
		f.Add(append([]byte{2, byte(i)}, []byte("tail bytes")...))
	}
	f.Fuzz(func(t *testing.T, data []byte) {
		if len(data) < 1 || len(data) > 400 {
			return
		}
		sel, rest := data[0], data[1:]
		target := []string{"raw", "bytes"}[int(sel>>4)&1]
		mode := []string{"whole", "one"}[int(sel>>5)&1]
		switch sel & 3 {
		case 2, 3: // header from classes: rest[0] picks the body-size class, rest[1] (when odd sel) the header-size class
			if len(rest) < 2 {
				return
			}
			c := Case{Op: "hdr", Target: target, Mode: mode, HeaderSize: 32, BodySize: vk.U64(sizeClasses[int(rest[0])%len(sizeClasses)]), Class: "fuzz"}
			if sel&3 == 3 {
				c.HeaderSize = vk.U64(sizeClasses[int(rest[1])%len(sizeClasses)])
			}
			c.Ver = vk.Hex("1.0.0")
			c.Tail = vk.Hex(rest[2:])
			checker.Run(t, c)
		default:
			checker.Run(t, Case{Op: "bytes", Input: vk.Hex(rest), Target: target, Mode: mode, Class: "fuzz"})
		}
	})
}

// TestGrid: every hostile size constant in each field, on a short stream; and a table of frames with all fault points.
func TestGrid(t *testing.T) {
	vk.SetPhase("grid")
	for _, target := range []string{"raw", "bytes"} {
		for _, mode := range []string{"whole", "one"} {
			for _, s := range sizeClasses {
				for _, tail := range [][]byte{nil, []byte("x"), bytes.Repeat([]byte{0x0a}, 33)} {
					checker.Run(t, Case{Op: "hdr", Ver: vk.Hex("1.2.3"), HeaderSize: 32, BodySize: vk.U64(s), Tail: tail, Target: target, Mode: mode, Class: "grid-body-size"})
					checker.Run(t, Case{Op: "hdr", Ver: vk.Hex("1.2.3"), HeaderSize: vk.U64(s), BodySize: vk.U64(len(tail)), Tail: tail, Target: target, Mode: mode, Class: "grid-header-size"})
				}
			}
		}
	}
	for _, kind := range pbm.Kinds {
		for _, n := range []int{0, 1, 2, 31, 32, 33, 127, 128, 300} {
			f := pbm.FrameJ{Kind: kind}
			if kind == "int64" {
				f.Int = int64(n) * 7919
			} else if kind != "empty" {
				f.Payload = bytes.Repeat([]byte{byte('A' + n%26)}, n)
			}
			checker.Run(t, Case{Op: "frame", Frame: &f, Class: "grid"})
			if pbm.HasVersionedForm(kind) {
				f.Versioned, f.Ver = true, vk.Hex("0123456789abcdef")
				checker.Run(t, Case{Op: "frame", Frame: &f, Class: "grid"})
			}
		}
	}
	// bodies around every power of two, counted for the body alone and for header+body
	for k := uint(5); k <= 12; k++ {
		for _, n := range []int{1<<k - 33, 1<<k - 32, 1<<k - 31, 1<<k - 1, 1 << k, 1<<k + 1} {
			if n < 0 {
				continue
			}
			b := make([]byte, n)
			for i := range b {
				b[i] = byte(vk.Mix(uint64(n)+uint64(i/8)) >> (8 * uint(i%8)))
			}
			f := pbm.FrameJ{Kind: "raw", Payload: b}
			checker.Run(t, Case{Op: "frame", Frame: &f, PointKey: vk.U64(n), Class: "grid-pow2-body"})
		}
	}
	// EVERY cut point (whole reader) of one frame of 24 KB (64 KB thorough): a body moved in pieces of any size up
	// to that length has a cut on a piece boundary; and frames of 40 KB .. 1 MiB with the dense family of sampled
	// points (multiples j <= 16 of every power of two and of 1000, 10^4, 10^5, 10^6)
	{
		f := pbm.FrameJ{Kind: "raw", FillLen: vk.Pick(24576+64, 65536+64), FillKey: 24}
		checker.Run(t, Case{Op: "frame", Frame: &f, PointKey: 24, AllCuts: true, Class: "grid-all-cuts"})
	}
	for i, n := range []int{40000 + 17, 100000 + 32 + 5, 1<<20 + 4096 + 17} {
		f := pbm.FrameJ{Kind: []string{"raw", "bytes"}[i%2], FillLen: n, FillKey: vk.U64(n)}
		checker.Run(t, Case{Op: "frame", Frame: &f, PointKey: vk.U64(n), Class: "grid-long"})
	}
	// one frame of several MiB: its fault points include every power-of-two multiple (piece boundaries)
	big := make([]byte, 3<<20+4096+17)
	for i := range big {
		big[i] = byte(vk.Mix(uint64(i/8)) >> (8 * uint(i%8)))
	}
	for _, kind := range []string{"raw"} {
		f := pbm.FrameJ{Kind: kind, Payload: big}
		checker.Run(t, Case{Op: "frame", Frame: &f, PointKey: 99, Class: "grid-multi-MiB"})
	}
}

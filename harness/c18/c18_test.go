// Package c18 decides property C18: SectionWriter confines and accounts for
// every byte across any call sequence (stateful, with fault injection).
package c18

import (
	"errors"
	"fmt"
	"io"
	"math"
	"testing"

	"github.com/openacid/low/iohelper"
	"pgregory.net/rapid"

	"verif/harness/gen"
	"verif/harness/vk"
)

func TestMain(m *testing.M) { vk.Main(m, "C18") }

type Op struct {
	K      string `json:"k"` // write | writeat | seek | size
	Len    int    `json:"len,omitempty"`
	O      int64  `json:"o,omitempty"`
	Whence int    `json:"whence,omitempty"`
}

type Fault struct {
	Kind string `json:"kind"`        // none | capacity | oneshot
	C    int64  `json:"c,omitempty"` // capacity: absolute offsets >= C are refused; oneshot: the trip offset
	J    int    `json:"j,omitempty"` // (unused, kept for old case files)
}

type Case struct {
	Kind  string `json:"kind"` // section | attowriter | nested-section | nested-at (a writer over an inner section [Off, Off+N))
	Off   int64  `json:"off"`
	N     int64  `json:"n,omitempty"`
	Off2  int64  `json:"off2,omitempty"` // nested kinds: start of the outer writer inside the inner section
	N2    int64  `json:"n2,omitempty"`   // nested-section: length of the outer section
	Fault Fault  `json:"fault"`
	Ops   []Op   `json:"ops"`
}

var checker = &vk.Checker[Case]{
	ID: "C18",
	Rule: "sections (off in {0,1,7,100,2^32+5,2^62}, n in {0,1,2,8,64}) or AtToWriter(w, off), also stacked on an inner SectionWriter (nested), over a recording in-memory WriterAt with a fault plan (none; capacity C: bytes at absolute offset >= C refused after writing those below with (m<len, errFull); one-shot: the first write covering a trip offset stores the bytes before it and fails with errIO); " +
		"histories of <= 40 (thorough <= 200) steps: Write(len 0, 1, .., exactly to the limit, crossing it), WriteAt(buf, o in [-2, n+3] or at the top of int64), Seek(offset in [-n-3, n+3] or 2^33, whence in {0,1,2,3,-1}), Size; each buffer carries a per-step byte pattern; fixed histories with buffers of several MiB. " +
		"Reference model: base/cursor/limit + expected memory image + expected (n, error class) per step; after EVERY step: return values, every byte the recorder received lies inside [off, off+n), the memory image (position and content of every byte that landed) == model (the number of underlying calls is not asserted), cursor == model (observed via Seek(0, SeekCurrent)), Size()==n. " +
		"Latitude the statement leaves (all accepted): an EMPTY request inside the writer's own section need not reach the underlying writer (its error may or may not surface); a request that is truncated AND fails may return either error; a Seek beyond the section end may be refused if the cursor then stays; the error value for a negative WriteAt offset (count 0); AtToWriter offsets beyond 2^61. " +
		"Non-trivial: >= 2 writes with a Seek or a truncated/failed write before a later write. Distinct by hash of the history.",
	Check:    check,
	Classify: classify,
}

var errFull = errors.New("injected: device full")
var errIO = errors.New("injected: i/o error")

// recorder is the underlying io.WriterAt: sparse memory image + call log + fault plan.
type call struct {
	off int64
	n   int
}

// image is a sparse memory image in 4 KiB pages (bytes + which of them were written).
type page struct {
	b [4096]byte
	w [4096]bool
}

type image struct{ pages map[int64]*page }

func newImage() *image { return &image{pages: map[int64]*page{}} }

func (im *image) write(off int64, p []byte) {
	for i, x := range p {
		a := off + int64(i)
		pg := im.pages[a>>12]
		if pg == nil {
			pg = &page{}
			im.pages[a>>12] = pg
		}
		pg.b[a&4095], pg.w[a&4095] = x, true
	}
}

// diff returns the first absolute offset at which two images differ.
func (im *image) diff(o *image) (int64, bool) {
	for _, pair := range [][2]*image{{im, o}, {o, im}} {
		for k, pg := range pair[0].pages {
			og := pair[1].pages[k]
			for i := range pg.b {
				if pg.w[i] && (og == nil || !og.w[i] || og.b[i] != pg.b[i]) {
					return k<<12 + int64(i), true
				}
			}
		}
	}
	return 0, false
}

type recorder struct {
	img      *image
	calls    []call
	fault    Fault
	nonEmpty int
	tripped  bool
}

func (r *recorder) WriteAt(p []byte, off int64) (int, error) {
	r.calls = append(r.calls, call{off, len(p)})
	n := len(p)
	var err error
	if r.fault.Kind == "capacity" && off+int64(len(p)) > r.fault.C {
		n = int(max(r.fault.C-off, 0))
		err = errFull
	}
	// one-shot fault, defined by position (not by call number, so that it means the same for an
	// implementation that splits a buffer into several calls): the first write that covers the trip
	// offset stores the bytes before it and fails; later writes are not affected
	if r.fault.Kind == "oneshot" && !r.tripped && len(p) > 0 && off <= r.fault.C && r.fault.C < off+int64(len(p)) {
		r.tripped = true
		n, err = int(r.fault.C-off), errIO
	}
	r.img.write(off, p[:n])
	return n, err
}

func pattern(step, n int) []byte {
	b := make([]byte, n)
	for i := range b {
		b[i] = byte(1 + (step*37+i*11+i>>8*13+i>>16*7)%255)
	}
	return b
}

// ---------------------------------------------------------------- model

type model struct {
	base, cur, limit int64
	ownEnd           int64 // nested-section: end of the outer section itself (SeekEnd refers to it)
	img              *image
	fault            Fault
	nonEmpty         int
	tripped          bool
	calls            []call
}

// under models the underlying writer's answer to WriteAt(p, off).
func (m *model) under(p []byte, off int64) (int, error) {
	m.calls = append(m.calls, call{off, len(p)})
	n := len(p)
	var err error
	if m.fault.Kind == "capacity" && off+int64(len(p)) > m.fault.C {
		n = int(max(m.fault.C-off, 0))
		err = errFull
	}
	if m.fault.Kind == "oneshot" && !m.tripped && len(p) > 0 && off <= m.fault.C && m.fault.C < off+int64(len(p)) {
		m.tripped = true
		n, err = int(m.fault.C-off), errIO
	}
	m.img.write(off, p[:n])
	return n, err
}

// latitude is what the statement leaves open next to the model's primary answer.
type latitude struct {
	altErr error // also acceptable instead of the primary error (same count)
	nilOK  bool  // (count, nil) is acceptable too: an EMPTY request that an implementation need not hand down
	loose  bool  // negative WriteAt offset: only "nothing passed through" is required
}

// ownEndOr is the end of the writer's own section (for a stacked writer it may lie beyond limit, the
// point where the inner section ends).
func (m *model) sectionEnd() int64 {
	if m.ownEnd != 0 {
		return m.ownEnd
	}
	return m.limit
}

func (m *model) write(p []byte) (int, error, latitude) {
	var lat latitude
	if m.cur >= m.limit {
		// at or beyond the section end: ErrShortWrite, also for an empty request ("starts at or beyond").
		// Inside the own section but beyond the inner one, the refusal is the INNER writer's: an empty
		// request that is not handed down sees no error.
		lat.nilOK = len(p) == 0 && m.cur < m.sectionEnd()
		return 0, io.ErrShortWrite, lat
	}
	empty := len(p) == 0
	var err error
	trunc := false
	if room := m.limit - m.cur; int64(len(p)) > room {
		p = p[:room]
		err = io.ErrShortWrite
		trunc = true
	}
	n, e := m.under(p, m.cur)
	m.cur += int64(n)
	if e != nil {
		err = e
		if trunc { // truncated AND the underlying writer failed: the statement does not rank the two errors
			lat.altErr = io.ErrShortWrite
		}
		lat.nilOK = empty // an underlying error can only be propagated if the (empty) request was handed down
	}
	return n, err, lat
}

func (m *model) writeAt(p []byte, o int64) (int, error, latitude) {
	var lat latitude
	if o < 0 {
		lat.loose = true
		return 0, io.ErrShortWrite, lat
	}
	if o >= m.limit-m.base {
		lat.nilOK = len(p) == 0 && o+m.base < m.sectionEnd()
		return 0, io.ErrShortWrite, lat
	}
	abs := o + m.base
	empty := len(p) == 0
	var err error
	trunc := false
	if room := m.limit - abs; int64(len(p)) > room {
		p = p[:room]
		err = io.ErrShortWrite
		trunc = true
	}
	n, e := m.under(p, abs)
	if e != nil {
		err = e
		if trunc {
			lat.altErr = io.ErrShortWrite
		}
		lat.nilOK = empty
	}
	return n, err, lat
}

// accepts: the library's answer against the model's primary answer and its latitude.
func accepts(gn int, gerr error, wn int, werr error, lat latitude) bool {
	if gn != wn {
		return false
	}
	if sameErr(gerr, werr) {
		return true
	}
	if lat.altErr != nil && sameErr(gerr, lat.altErr) {
		return true
	}
	return lat.nilOK && gerr == nil
}

func (m *model) seek(offset int64, whence int) (int64, bool) {
	var target int64
	switch whence {
	case io.SeekStart:
		target = m.base + offset
	case io.SeekCurrent:
		target = m.cur + offset
	case io.SeekEnd:
		// relative to the end of the writer's own section (for a stacked writer that may lie beyond the
		// point where the inner section ends, which only limits what can be written)
		end := m.limit
		if m.ownEnd != 0 {
			end = m.ownEnd
		}
		target = end + offset
	default:
		return 0, false
	}
	if target < m.base {
		return 0, false
	}
	m.cur = target
	return target - m.base, true
}

// ---------------------------------------------------------------- check

// bounded2: kinds with a real end (AtToWriter and AtToWriter-over-a-section have "no practical end" of their own).
func bounded2(kind string) bool { return kind == "section" || kind == "nested-section" }

func sameErr(got, want error) bool {
	if want == nil {
		return got == nil
	}
	return got != nil && (got == want || errors.Is(got, want))
}

func check(c Case) *vk.Failure {
	rec := &recorder{img: newImage(), fault: c.Fault}
	m := &model{base: c.Off, cur: c.Off, img: newImage(), fault: c.Fault}
	var w io.Writer
	secOff, secN := c.Off, c.N // the section the writer under test must stay inside, and what Size must report
	if c.Kind == "nested-section" || c.Kind == "nested-at" {
		// a writer stacked on an inner SectionWriter: it behaves like one section that starts at
		// Off+Off2 and ends where the first of the two ends
		var inner *iohelper.SectionWriter
		if f := vk.Try("NewSectionWriter(inner)", func() { inner = iohelper.NewSectionWriter(rec, c.Off, c.N) }); f != nil {
			return f
		}
		m.base, m.cur = c.Off+c.Off2, c.Off+c.Off2
		m.limit = c.Off + c.N
		if c.Kind == "nested-section" {
			m.ownEnd = c.Off + c.Off2 + c.N2
			if m.ownEnd < m.limit {
				m.limit = m.ownEnd
			}
			if f := vk.Try("NewSectionWriter(outer over inner)", func() { w = iohelper.NewSectionWriter(inner, c.Off2, c.N2) }); f != nil {
				return f
			}
			secN = c.N2
		} else {
			m.ownEnd = math.MaxInt64 // AtToWriter's own section has no practical end: only the inner section refuses
			if f := vk.Try("AtToWriter(inner section)", func() { w = iohelper.AtToWriter(inner, c.Off2) }); f != nil {
				return f
			}
		}
		secOff = c.Off + c.Off2
	} else if c.Kind == "section" {
		m.limit = c.Off + c.N
		if f := vk.Try("NewSectionWriter", func() { w = iohelper.NewSectionWriter(rec, c.Off, c.N) }); f != nil {
			return f
		}
	} else {
		m.limit = math.MaxInt64
		if f := vk.Try("AtToWriter", func() { w = iohelper.AtToWriter(rec, c.Off) }); f != nil {
			return f
		}
	}
	seeker, _ := w.(io.Seeker)
	wat, _ := w.(io.WriterAt)
	sizer, _ := w.(interface{ Size() int64 })
	sized := c.Kind == "section" || c.Kind == "nested-section"
	bounded := c.Kind != "attowriter"
	if sized && (seeker == nil || wat == nil || sizer == nil) {
		return vk.Failf("api", "SectionWriter lacks Seek/WriteAt/Size")
	}

	for si, op := range c.Ops {
		step := fmt.Sprintf("step %d %+v (section off=%d n=%d kind=%s fault=%+v)", si, op, c.Off, c.N, c.Kind, c.Fault)
		callsBefore := len(rec.calls)
		switch op.K {
		case "write":
			buf := pattern(si, op.Len)
			keep := append([]byte(nil), buf...)
			wn, werr, lat := m.write(keep)
			var gn int
			var gerr error
			if f := vk.Try(step, func() { gn, gerr = w.Write(buf) }); f != nil {
				return f
			}
			if !accepts(gn, gerr, wn, werr, lat) {
				return vk.Failf("write-result", "%s: Write returned (%d, %v), model (%d, %v)", step, gn, gerr, wn, werr)
			}
			if string(buf) != string(keep) {
				return vk.Failf("write-mutates", "%s: Write modified the caller's buffer", step)
			}
		case "writeat":
			if wat == nil {
				continue
			}
			buf := pattern(si, op.Len)
			keep := append([]byte(nil), buf...)
			if !bounded2(c.Kind) && op.O > 1<<61 {
				continue // "no practical end": offsets next to MaxInt64 are outside what AtToWriter promises
			}
			wn, werr, lat := m.writeAt(keep, op.O)
			var gn int
			var gerr error
			if f := vk.Try(step, func() { gn, gerr = wat.WriteAt(buf, op.O) }); f != nil {
				return f
			}
			if lat.loose {
				// the statement is silent on negative offsets: nothing may pass through (the image comparison
				// below sees any byte that does), so the count must be 0; the error value is open
				if gn != 0 {
					return vk.Failf("writeat-negative", "%s: WriteAt at a negative offset returned count %d (err %v), want 0", step, gn, gerr)
				}
			} else if !accepts(gn, gerr, wn, werr, lat) {
				return vk.Failf("writeat-result", "%s: WriteAt returned (%d, %v), model (%d, %v)", step, gn, gerr, wn, werr)
			}
		case "seek":
			if seeker == nil {
				continue
			}
			before := m.cur
			wpos, ok := m.seek(op.O, op.Whence)
			beyond := ok && m.cur > m.sectionEnd() // io.Seeker: seeking past the end "may be allowed" - or refused
			var gpos int64
			var gerr error
			if f := vk.Try(step, func() { gpos, gerr = seeker.Seek(op.O, op.Whence) }); f != nil {
				return f
			}
			if ok && beyond && gerr != nil {
				m.cur = before // refused: the cursor must not have moved (the following writes show it)
			} else if ok {
				if gerr != nil || gpos != wpos {
					return vk.Failf("seek-result", "%s: Seek returned (%d, %v), model (%d, nil)", step, gpos, gerr, wpos)
				}
			} else {
				if gerr == nil {
					return vk.Failf("seek-accepted-invalid", "%s: Seek returned (%d, nil) for an invalid whence / a position before the start", step, gpos)
				}
				m.cur = before
			}
		case "size":
			if sizer == nil || !sized {
				continue
			}
			var g int64
			if f := vk.Try(step, func() { g = sizer.Size() }); f != nil {
				return f
			}
			if g != secN {
				return vk.Failf("size", "%s: Size() = %d, want %d", step, g, secN)
			}
		}
		// every byte that reached the underlying writer lies inside the section, where the model put it
		newCalls := rec.calls[callsBefore:]
		for _, cl := range newCalls {
			if cl.n > 0 && (cl.off < secOff || (bounded && cl.off+int64(cl.n) > m.limit)) {
				return vk.Failf("outside-section", "%s: underlying WriteAt(%d bytes at %d) lies outside [%d,%d)", step, cl.n, cl.off, secOff, m.limit)
			}
		}
		// (how many calls the bytes arrive in is not part of the property: only where they land,
		// what they are, and what is returned - compared through the memory image below)
		if at, differ := rec.img.diff(m.img); differ {
			return vk.Failf("image", "%s: the bytes that landed differ from the model at absolute offset %d (section-relative %d)", step, at, at-c.Off)
		}
		// cursor, observed without moving it
		if seeker != nil {
			var pos int64
			var err error
			if f := vk.Try(step+" then Seek(0, SeekCurrent)", func() { pos, err = seeker.Seek(0, io.SeekCurrent) }); f != nil {
				return f
			}
			if err != nil || pos != m.cur-m.base {
				return vk.Failf("cursor", "%s: cursor is at %d (err %v), the model predicts %d", step, pos, err, m.cur-m.base)
			}
		}
		if sizer != nil && sized {
			if g := sizer.Size(); g != secN {
				return vk.Failf("size", "%s: Size() = %d, want %d", step, g, secN)
			}
		}
	}
	return nil
}

// modelFor builds the reference model of a case (base, cursor, limit).
func modelFor(c Case) *model {
	m := &model{base: c.Off, cur: c.Off, img: newImage(), fault: c.Fault, limit: math.MaxInt64}
	switch c.Kind {
	case "section":
		m.limit = c.Off + c.N
	case "nested-section", "nested-at":
		m.base, m.cur = c.Off+c.Off2, c.Off+c.Off2
		m.limit = c.Off + c.N
		if c.Kind == "nested-section" {
			m.ownEnd = c.Off + c.Off2 + c.N2
			if m.ownEnd < m.limit {
				m.limit = m.ownEnd
			}
		} else {
			m.ownEnd = math.MaxInt64
		}
	}
	return m
}

func classify(c Case) (bool, []string) {
	labels := []string{"kind:" + c.Kind, "fault:" + c.Fault.Kind}
	if c.Kind == "section" && c.N == 0 {
		labels = append(labels, "n=0")
	}
	// replay the model alone
	m := modelFor(c)
	writes, disturbed, nt := 0, false, false
	trunc, failed, seeks := false, false, false
	for si, op := range c.Ops {
		switch op.K {
		case "write", "writeat":
			var n int
			var err error
			if op.K == "write" {
				n, err, _ = m.write(pattern(si, op.Len))
			} else {
				n, err, _ = m.writeAt(pattern(si, op.Len), op.O)
			}
			if writes >= 1 && disturbed {
				nt = true
			}
			writes++
			if err == io.ErrShortWrite {
				trunc, disturbed = true, true
			} else if err != nil {
				failed, disturbed = true, true
			}
			_ = n
		case "seek":
			if _, ok := m.seek(op.O, op.Whence); ok {
				seeks, disturbed = true, true
			}
		}
	}
	if trunc {
		labels = append(labels, "has-truncated-write")
	}
	if failed {
		labels = append(labels, "has-underlying-error")
	}
	if seeks {
		labels = append(labels, "has-seek")
	}
	return writes >= 2 && nt, labels
}

// ---------------------------------------------------------------- generator

func genCase(t *rapid.T) Case {
	c := Case{Kind: "section"}
	c.Off = rapid.SampledFrom([]int64{0, 1, 7, 100, 1<<32 + 5, 1 << 62}).Draw(t, "off")
	c.N = rapid.SampledFrom([]int64{0, 1, 2, 8, 64, 8, 64}).Draw(t, "n")
	if gen.Chance(t, 1, 6, "attowriter") {
		c.Kind, c.N = "attowriter", 0
	} else if gen.Chance(t, 1, 5, "nested") { // a writer stacked on a SectionWriter
		c.Kind = []string{"nested-section", "nested-at"}[gen.Uniform(t, 2, "nestkind")]
		c.Off2 = int64(gen.Uniform(t, int(c.N)+3, "off2"))
		c.N2 = int64(gen.Uniform(t, int(c.N)+4, "n2"))
	}
	span := c.N
	if c.Kind == "attowriter" {
		span = 64
	}
	switch gen.Uniform(t, 4, "fault") {
	case 0:
		c.Fault = Fault{Kind: "capacity", C: c.Off - 1 + int64(gen.Uniform(t, int(span)+4, "cap"))}
	case 1:
		c.Fault = Fault{Kind: "oneshot", C: c.Off + int64(gen.Uniform(t, int(span)+2, "trip"))}
	default:
		c.Fault = Fault{Kind: "none"}
	}
	n := 1 + gen.Len(t, vk.Pick(39, 199), "steps")
	// the generator follows the cursor with its own copy of the model so that it can aim at the limit
	m := modelFor(c)
	for i := 0; i < n; i++ {
		var op Op
		switch gen.Uniform(t, 10, "op") {
		case 0, 1, 2, 3:
			room := m.limit - m.cur
			if c.Kind == "attowriter" || c.Kind == "nested-at" && false || room < 0 || room > 200 {
				room = int64(gen.Uniform(t, 20, "room"))
			}
			var l int64
			switch gen.Uniform(t, 6, "lclass") {
			case 0:
				l = 0
			case 1:
				l = 1
			case 2:
				l = room // exactly to the limit
			case 3:
				l = room + 1 + int64(gen.Uniform(t, 3, "over")) // crossing it
			case 4:
				l = max(room-1, 0)
			default:
				l = int64(gen.Uniform(t, int(span)+4, "l"))
			}
			op = Op{K: "write", Len: int(l)}
			m.write(pattern(i, int(l)))
		case 4, 5, 6:
			o := int64(gen.Uniform(t, int(span)+6, "o")) - 2
			room := span - o
			var l int64
			switch gen.Uniform(t, 5, "lclass") {
			case 0:
				l = 0
			case 1:
				l = max(room, 0)
			case 2:
				l = max(room+1, 1)
			default:
				l = int64(gen.Uniform(t, int(span)+4, "l"))
			}
			if gen.Chance(t, 1, 15, "extreme") { // the largest offsets an int64 holds
				o = []int64{math.MaxInt64, math.MaxInt64 - 1, math.MaxInt64 - c.Off, math.MaxInt64 - c.Off - 1, math.MaxInt64 - c.Off + 1, 1 << 62, math.MinInt64}[gen.Uniform(t, 7, "exto")]
			}
			op = Op{K: "writeat", Len: int(l), O: o}
			m.writeAt(pattern(i, int(l)), o)
		case 7, 8:
			wh := rapid.SampledFrom([]int{0, 0, 1, 1, 2, 2, 3, -1}).Draw(t, "whence")
			off := int64(gen.Uniform(t, int(2*span)+7, "so")) - span - 3
			if gen.Chance(t, 1, 12, "far") {
				off = 1 << 33
			}
			if (c.Kind == "attowriter" || c.Kind == "nested-at") && wh == 2 {
				wh = 1 // SeekEnd on an unbounded writer is relative to MaxInt64: outside the domain generated here
			}
			if c.Kind == "attowriter" && wh == 2 && off > 0 {
				off = -off // positive SeekEnd offsets would overflow int64 on the unbounded section (outside the domain)
			}
			op = Op{K: "seek", O: off, Whence: wh}
			m.seek(off, wh)
		default:
			op = Op{K: "size"}
		}
		c.Ops = append(c.Ops, op)
	}
	return c
}

func TestRegress(t *testing.T) { checker.Regress(t) }

func TestProp(t *testing.T) { checker.Prop(t, genCase) }

// FuzzProp: the same generator driven by the native coverage-guided fuzzer (thorough tier only).
func FuzzProp(f *testing.F) { checker.Fuzz(f, genCase) }

// TestGrid: a few fixed histories (the two cited survivors' minimal witnesses among them).
func TestGrid(t *testing.T) {
	vk.SetPhase("grid")
	for _, c := range []Case{
		{Kind: "section", Off: 7, N: 8, Fault: Fault{Kind: "none"}, Ops: []Op{{K: "write", Len: 3}, {K: "write", Len: 3}, {K: "write", Len: 3}, {K: "write", Len: 1}}},
		{Kind: "section", Off: 100, N: 8, Fault: Fault{Kind: "none"}, Ops: []Op{{K: "seek", O: 2, Whence: 0}, {K: "write", Len: 2}, {K: "seek", O: -1, Whence: 1}, {K: "write", Len: 9}, {K: "seek", O: -3, Whence: 2}, {K: "write", Len: 1}}},
		{Kind: "section", Off: 1, N: 64, Fault: Fault{Kind: "capacity", C: 10}, Ops: []Op{{K: "write", Len: 5}, {K: "write", Len: 10}, {K: "write", Len: 1}, {K: "writeat", Len: 4, O: 7}}},
		{Kind: "attowriter", Off: 1<<32 + 5, Fault: Fault{Kind: "oneshot", C: 1<<32 + 5 + 9}, Ops: []Op{{K: "write", Len: 5}, {K: "write", Len: 10}, {K: "write", Len: 1}, {K: "seek", O: 3, Whence: 0}, {K: "write", Len: 2}}},
		{Kind: "attowriter", Off: 1 << 62, Fault: Fault{Kind: "none"}, Ops: []Op{{K: "write", Len: 5}, {K: "write", Len: 10}, {K: "writeat", Len: 4, O: 1 << 40}, {K: "write", Len: 2}}}, // far start, still "no practical end"
		{Kind: "section", Off: 0, N: 0, Fault: Fault{Kind: "none"}, Ops: []Op{{K: "write", Len: 0}, {K: "write", Len: 1}, {K: "writeat", Len: 0, O: 0}, {K: "seek", O: 0, Whence: 2}, {K: "size"}}},
		// writers stacked on a SectionWriter whose start is not 0
		{Kind: "nested-at", Off: 40, N: 24, Off2: 8, Fault: Fault{Kind: "none"}, Ops: []Op{{K: "write", Len: 10}, {K: "write", Len: 10}, {K: "write", Len: 1}, {K: "writeat", Len: 30, O: 2}}},
		{Kind: "nested-at", Off: 40, N: 24, Off2: 30, Fault: Fault{Kind: "none"}, Ops: []Op{{K: "write", Len: 3}, {K: "writeat", Len: 3, O: 0}}},
		{Kind: "nested-section", Off: 7, N: 64, Off2: 60, N2: 16, Fault: Fault{Kind: "none"}, Ops: []Op{{K: "write", Len: 3}, {K: "write", Len: 3}, {K: "seek", O: -2, Whence: 2}, {K: "write", Len: 5}, {K: "size"}}},
		{Kind: "section", Off: 9, N: 16, Fault: Fault{Kind: "none"}, Ops: []Op{{K: "writeat", Len: 16, O: math.MaxInt64}, {K: "writeat", Len: 4, O: math.MaxInt64 - 9}, {K: "writeat", Len: 4, O: math.MaxInt64 - 8}, {K: "write", Len: 2}}},
		// buffers of several MiB (size thresholds of any chunked implementation), also truncated by the section end and by a full device
		{Kind: "section", Off: 7, N: 5 << 20, Fault: Fault{Kind: "none"}, Ops: []Op{{K: "write", Len: 1<<20 + 1}, {K: "write", Len: 2<<20 + 5}, {K: "writeat", Len: 1<<20 + 3, O: 100}, {K: "seek", O: -10, Whence: 2}, {K: "write", Len: 3 << 20}}},
		{Kind: "attowriter", Off: 100, Fault: Fault{Kind: "capacity", C: 100 + 2<<20 + 17}, Ops: []Op{{K: "write", Len: 1 << 20}, {K: "write", Len: 1<<20 + 1}, {K: "write", Len: 1 << 20}, {K: "write", Len: 5}}},
		{Kind: "section", Off: 1, N: 3<<20 + 9, Fault: Fault{Kind: "oneshot", C: 1 + 1<<20 + 77}, Ops: []Op{{K: "write", Len: 65539}, {K: "write", Len: 2 << 20}, {K: "write", Len: 2 << 20}, {K: "writeat", Len: 4 << 20, O: 3}}},
	} {
		checker.Run(t, c)
	}
}
